(* RoundTripScanE.v — RoundTripScan.v for EVERY token list of the formatter, elided ones included:
   the tokens of a value are scannable UP TO the first "..." (ScanUpto.scan_upto).  Same induction
   as RoundTripScan.v; where the depth limit is exceeded the items are the elision token, of which
   nothing is asked.  With ErrorTokens.v: the text of a value nested deeper than the limit lexes to
   the tokens before the first dot, the Error token "." and EOF, and is rejected. *)
From Coq Require Import String Ascii.
From Verif Require Import Base Params Value Coll Formatter FormatSpec FormatProofs FormatText FormatBound FormatDeep.
From Verif Require Import Lexer Literals Parser LexerProofs LexBridge LexBridge2 LexBridge3 ParserProofs CdcnProofs Complete StripInv LexRender ErrorTokens ScanUpto.
From Verif Require Import RoundTripLit RoundTrip RoundTripLeaf.
From Verif Require RoundTripScan.
Close Scope string_scope.
Open Scope Z_scope.

Notation convs_app := RoundTripScan.convs_app.
Notation render_convs := RoundTripScan.render_convs.
Notation follow_sep := RoundTripScan.follow_sep.
Notation follow_ns := RoundTripScan.follow_ns.
Notation indent_repeat := RoundTripScan.indent_repeat.

Lemma rune_scan p rest : FormatText.piece p -> p <> [39] -> scan_upto rest ->
  scan_upto ((Lexer.TRune, 39 :: p ++ [39]) :: rest).
Proof.
  intros Hp Hne S.
  destruct Hp as [c H34 H10 H39 H92| | |c Hc|a b Ha Hb|a b c d Ha Hb Hc Hd|a b c d e f g h Ha Hb Hc Hd He Hf Hg Hh].
  - apply su_rune_plain; auto; apply Z.eqb_neq; assumption.
  - apply su_rune_plain; auto; lia.
  - contradiction Hne; reflexivity.
  - apply su_rune_escape; auto. rewrite <- simple_esc_same. exact Hc.
  - apply (su_rune_x [a; b]); auto. split; [reflexivity|]. cbn [forallb]. change (is_hex a) with (hexd a). change (is_hex b) with (hexd b).
    rewrite Ha, Hb. reflexivity.
  - apply (su_rune_u [a; b; c; d]); auto. split; [reflexivity|]. cbn [forallb].
    change is_hex with hexd. rewrite Ha, Hb, Hc, Hd. reflexivity.
  - apply (su_rune_U [a; b; c; d; e; f; g; h]); auto. split; [reflexivity|]. cbn [forallb].
    change is_hex with hexd. rewrite Ha, Hb, Hc, Hd, He, Hf, Hg, Hh. reflexivity.
Qed.

Lemma string_scan printable s rest : scan_upto rest -> scan_upto ((Lexer.TString, quote_str printable s) :: rest).
Proof.
  intros S. destruct (pieces34_good _ (quote_body_pieces printable (length s) s (le_n _))) as (ps & Ef & Hg).
  unfold quote_str. rewrite <- Ef. apply su_string; auto.
Qed.

Section LeafE.
Variable fparse : list Z -> option Z.
Variable ftext : Z -> list Z.
Variable printable : Z -> bool.
Lemma leaf_scan v t rest :
  leaf_token ftext printable v = Some t -> leaf_floats fparse ftext v = true ->
  scan_upto rest -> sep_start (render_toks rest) -> scan_upto (conv t :: rest).
Proof.
  intros Ht Hf S Sp. destruct v; try discriminate; cbn [leaf_token] in Ht; inversion Ht; subst t; unfold conv; cbn [lty tk_type tk_text tok].
  - (* nil *) apply su_nil_word; auto.
  - (* bool *) destruct b; [apply su_true|apply su_false]; auto.
  - (* int *) apply su_integer; auto. apply int_text_dec.
  - (* uint *) unfold hex_text. destruct (hex_digits_ok (Z.abs z)) as [H1 H2]. apply su_hex; auto.
  - (* byte *) unfold hex_text. destruct (hex_digits_ok (Z.abs z)) as [H1 H2]. apply su_hex; auto.
  - (* rune *) unfold quote_rune.
    destruct (esc_rune_piece printable 39 (if Formatter.valid_rune z then z else 65533) (or_intror eq_refl)) as [Hp Hne].
    apply rune_scan; auto.
  - (* float *) cbn [leaf_floats] in Hf. destruct (float_rt_inv fparse ftext bits Hf) as [F _]. apply su_float; auto.
  - (* complex *) cbn [leaf_floats] in Hf. apply andb_true_iff in Hf as [Hre Him].
    destruct (complex_split fparse ftext re im Hre Him) as (f1 & s & f2 & x & E & F1 & Hs & F2 & _).
    rewrite E. apply su_complex; auto.
  - (* string *) apply string_scan; auto.
Qed.
End LeafE.

(* a scanned token that is neither a Space token nor the elision does not start with a space *)
Lemma su_ns ty text rest : scan_upto ((ty, text) :: rest) -> ty <> Lexer.TSpace -> ty <> Lexer.TError ->
  span is_space (render_toks ((ty, text) :: rest)) = 0%nat.
Proof.
  intros Sc Hty Hte. inversion Sc as [|rest' E|ty' text' rest' T S']; subst; [congruence|]. rewrite render_cons.
  destruct (try_types_pos _ _ _ _ T) as ((Hpos & _) & _).
  destruct text as [|c t]; [simpl in Hpos; lia|]. cbn [app] in *.
  destruct (Z.eq_dec c 32) as [->|Hc].
  - rewrite first_space in T. inversion T. congruence.
  - cbn [span]. unfold is_space. replace (c =? 32) with false by (symmetry; apply Z.eqb_neq; exact Hc). reflexivity.
Qed.

Section ScanE.
Variable fparse : list Z -> option Z.
Variable ftext : Z -> list Z.
Variable printable : Z -> bool.
Variable maximum : nat.
Notation tokens_at := (tokens_at ftext printable maximum).
Notation leaf_token := (leaf_token ftext printable).

(* the first token of a value is a literal or "[" *)
Lemma tokens_at_head v d n ts : tokens_at d n v = Some ts ->
  exists t0 r, ts = t0 :: r /\ lty (tk_type t0) <> Lexer.TSpace /\ lty (tk_type t0) <> Lexer.TError.
Proof.
  assert (Leaf : forall w, option_map (fun t => [t]) (leaf_token w) = Some ts ->
                 exists t0 r, ts = t0 :: r /\ lty (tk_type t0) <> Lexer.TSpace /\ lty (tk_type t0) <> Lexer.TError).
  { intros w H. destruct (leaf_token w) as [t|] eqn:E; [|discriminate]. inversion H. exists t, []. split; auto.
    pose proof (leaf_token_type ftext printable w t E) as L. split; intros C; rewrite C in L; discriminate. }
  assert (Coll : forall body ty, tcoll body ty = Some ts ->
                 exists t0 r, ts = t0 :: r /\ lty (tk_type t0) <> Lexer.TSpace /\ lty (tk_type t0) <> Lexer.TError).
  { intros body ty H. unfold tcoll in H. destruct body as [b|]; [|discriminate]. inversion H.
    eexists _, _. split; [reflexivity|]. split; discriminate. }
  destruct v; cbn [FormatSpec.tokens_at]; intros H; try (apply (Leaf _ H)); try (apply (Coll _ _ H)); try discriminate.
  unfold tassoc in H. destruct (leaf_token v1) as [kt|] eqn:E; [|discriminate].
  destruct (tokens_at d n v2); [|discriminate]. inversion H. eexists _, _.
  split; [reflexivity|]. pose proof (leaf_token_type ftext printable v1 kt E) as L. split; intros C; rewrite C in L; discriminate.
Qed.

Lemma tokens_at_ns v d n ts rest : tokens_at d n v = Some ts -> scan_upto (convs ts ++ rest) ->
  span is_space (render_toks (convs ts ++ rest)) = 0%nat.
Proof.
  intros H S. destruct (tokens_at_head v d n ts H) as (t0 & r & -> & Hty & Hte).
  cbn [convs map app] in *. apply su_ns; auto.
Qed.

Definition GA (v : val) : Prop := forall d n ts,
  tokens_at d n v = Some ts -> floats_roundtrip fparse ftext v = true ->
  forall rest, scan_upto rest -> follow (render_toks rest) -> scan_upto (convs ts ++ rest).

Lemma nl_A d rest : scan_upto rest -> span is_space (render_toks rest) = 0%nat -> scan_upto (convs (nl_toks d) ++ rest).
Proof.
  intros Sc Ns. destruct d as [|d]; cbn [nl_toks convs map app]; unfold conv; cbn [lty tk_type tk_text eol_tok tok].
  - apply su_eol; auto.
  - apply su_eol. rewrite indent_repeat. replace (4 * S d)%nat with (S (3 + 4 * d))%nat by lia. apply su_spaces; auto.
Qed.
Lemma nl_follow d rest : follow (render_toks (convs (nl_toks d) ++ rest)).
Proof. destruct d; simpl; auto. Qed.

Lemma ctx_A name rest : In name type_names -> scan_upto rest -> scan_upto (convs (ctx_toks (zs name)) ++ rest).
Proof.
  intros Hn Sc. cbn [ctx_toks convs map app]. unfold conv; cbn [lty tk_type tk_text FormatSpec.delim tok].
  apply su_delim; [reflexivity|lia|]. apply su_open_paren; auto. apply su_type; auto.
  apply su_delim; [reflexivity|lia|]. exact Sc.
Qed.
Lemma starts93_follow r : (exists t, r = 93 :: t) -> follow r.
Proof. intros [t ->]. simpl. auto. Qed.
Lemma ctx_starts ty rest : exists t, render_toks (convs (ctx_toks ty) ++ rest) = 93 :: t.
Proof. eexists. reflexivity. Qed.

Lemma tassoc_A k x : GA x -> forall d n ts,
  tassoc ftext printable tokens_at d n k x = Some ts ->
  leaf_floats fparse ftext k = true -> floats_roundtrip fparse ftext x = true ->
  forall rest, scan_upto rest -> follow (render_toks rest) -> scan_upto (convs ts ++ rest).
Proof.
  intros Gx d n ts H Fk Fx rest Sc Fo. unfold tassoc in H.
  destruct (leaf_token k) as [kt|] eqn:Ek; [|discriminate].
  destruct (tokens_at d n x) as [vt|] eqn:Ex; [|discriminate]. inversion H; subst ts. clear H.
  pose proof (Gx d n vt Ex Fx rest Sc Fo) as S1.
  pose proof (tokens_at_ns x d n vt rest Ex S1) as Ns.
  cbn [convs map app]. apply (leaf_scan fparse ftext printable k kt); auto.
  - unfold conv at 1 2; cbn [lty tk_type tk_text FormatSpec.delim tok].
    apply su_delim; [reflexivity|lia|]. apply (su_spaces 0); auto.
  - simpl. right; right; reflexivity.
Qed.

Lemma tlines_A l : Forall GA l -> forall d n b,
  tlines tokens_at d n l = Some b -> forallb (floats_roundtrip fparse ftext) l = true ->
  forall rest, scan_upto rest -> follow (render_toks rest) ->
  scan_upto (convs b ++ rest) /\ follow (render_toks (convs b ++ rest)).
Proof.
  induction 1 as [|x t Gx Gt IH]; intros d n b H Fl rest Sc Fo.
  - inversion H. split; assumption.
  - cbn [tlines] in H. destruct (tokens_at d n x) as [a|] eqn:Ex; [|discriminate].
    destruct (tlines tokens_at d n t) as [b'|] eqn:Et; [|discriminate]. inversion H; subst b. clear H.
    cbn [forallb] in Fl. apply andb_true_iff in Fl as [Fx Ft].
    destruct (IH d n b' Et Ft rest Sc Fo) as [S1 Fo1].
    pose proof (Gx d n a Ex Fx _ S1 Fo1) as S2.
    rewrite !convs_app, <- !app_assoc. split; [|apply nl_follow].
    apply nl_A; auto. apply (tokens_at_ns x d n a _ Ex S2).
Qed.

Lemma hd_floats ks : forallb (leaf_floats fparse ftext) ks = true -> leaf_floats fparse ftext (hd VNil ks) = true.
Proof. destruct ks; [reflexivity|]. cbn [forallb hd]. intros H. apply andb_true_iff in H. tauto. Qed.
Lemma tl_floats ks : forallb (leaf_floats fparse ftext) ks = true -> forallb (leaf_floats fparse ftext) (tl ks) = true.
Proof. destruct ks; [reflexivity|]. cbn [forallb tl]. intros H. apply andb_true_iff in H. tauto. Qed.

Lemma tassoc_ns k x d n a rest : tassoc ftext printable tokens_at d n k x = Some a -> scan_upto (convs a ++ rest) ->
  span is_space (render_toks (convs a ++ rest)) = 0%nat.
Proof. intros H. apply (tokens_at_ns (VAssoc k x) d n a rest). exact H. Qed.

Lemma talines_A vs : Forall GA vs -> forall ks d n b,
  talines ftext printable tokens_at d n ks vs = Some b ->
  forallb (leaf_floats fparse ftext) ks = true -> forallb (floats_roundtrip fparse ftext) vs = true ->
  forall rest, scan_upto rest -> follow (render_toks rest) ->
  scan_upto (convs b ++ rest) /\ follow (render_toks (convs b ++ rest)).
Proof.
  induction 1 as [|x t Gx Gt IH]; intros ks d n b H Fk Fl rest Sc Fo.
  - inversion H. split; assumption.
  - cbn [talines] in H. destruct (tassoc ftext printable tokens_at d n (hd VNil ks) x) as [a|] eqn:Ex; [|discriminate].
    destruct (talines ftext printable tokens_at d n (tl ks) t) as [b'|] eqn:Et; [|discriminate]. inversion H; subst b. clear H.
    cbn [forallb] in Fl. apply andb_true_iff in Fl as [Fx Ft].
    destruct (IH (tl ks) d n b' Et (tl_floats ks Fk) Ft rest Sc Fo) as [S1 Fo1].
    pose proof (tassoc_A (hd VNil ks) x Gx d n a Ex (hd_floats ks Fk) Fx _ S1 Fo1) as S2.
    rewrite !convs_app, <- !app_assoc. split; [|apply nl_follow].
    apply nl_A; auto. apply (tassoc_ns _ _ _ _ _ _ Ex S2).
Qed.

Lemma titems_A l : Forall GA l -> forall d n b,
  titems maximum tokens_at d n l = Some b -> forallb (floats_roundtrip fparse ftext) l = true ->
  forall rest, scan_upto rest -> (exists t, render_toks rest = 93 :: t) -> scan_upto (convs b ++ rest).
Proof.
  intros Gl d n b H Fl rest Sc R93. pose proof (starts93_follow _ R93) as Fo. unfold titems in H.
  destruct (maximum <? n)%nat; [inversion H; subst b; apply su_elision|].
  destruct l as [|x [|y t]].
  - inversion H; subst b. cbn [convs map app]. unfold conv; cbn [lty tk_type tk_text tok].
    apply (su_spaces 0); auto. apply follow_ns; auto.
  - inversion Gl as [|? ? Gx _]; subst. cbn [forallb] in Fl. apply andb_true_iff in Fl as [Fx _].
    apply (Gx d n b H Fx rest Sc Fo).
  - destruct (tlines tokens_at (S d) n (x :: y :: t)) as [b0|] eqn:Eb; [|discriminate]. inversion H; subst b. clear H.
    rewrite convs_app, <- app_assoc.
    assert (S1 : scan_upto (convs (nl_toks d) ++ rest)) by (apply nl_A; auto; apply follow_ns; auto).
    apply (tlines_A _ Gl (S d) n b0 Eb Fl _ S1 (nl_follow d rest)).
Qed.

Lemma tentries_A vs : Forall GA vs -> forall ks d n b,
  tentries ftext printable maximum tokens_at d n ks vs = Some b ->
  forallb (leaf_floats fparse ftext) ks = true -> forallb (floats_roundtrip fparse ftext) vs = true ->
  forall rest, scan_upto rest -> (exists t, render_toks rest = 93 :: t) -> scan_upto (convs b ++ rest).
Proof.
  intros Gl ks d n b H Fk Fl rest Sc R93. pose proof (starts93_follow _ R93) as Fo. unfold tentries in H.
  destruct (maximum <? n)%nat; [inversion H; subst b; apply su_elision|].
  destruct vs as [|x [|y t]].
  - inversion H; subst b. cbn [convs map app]. unfold conv; cbn [lty tk_type tk_text FormatSpec.delim tok].
    apply su_delim; [reflexivity|lia|exact Sc].
  - inversion Gl as [|? ? Gx _]; subst. cbn [forallb] in Fl. apply andb_true_iff in Fl as [Fx _].
    apply (tassoc_A (hd VNil ks) x Gx d n b H (hd_floats ks Fk) Fx rest Sc Fo).
  - destruct (talines ftext printable tokens_at (S d) n ks (x :: y :: t)) as [b0|] eqn:Eb; [|discriminate]. inversion H; subst b. clear H.
    rewrite convs_app, <- app_assoc.
    assert (S1 : scan_upto (convs (nl_toks d) ++ rest)) by (apply nl_A; auto; apply follow_ns; auto).
    apply (talines_A _ Gl ks (S d) n b0 Eb Fk Fl _ S1 (nl_follow d rest)).
Qed.

Lemma tcoll_A body ty name ts rest : In name type_names -> ty = zs name ->
  tcoll body ty = Some ts ->
  (forall b, body = Some b ->
     forall rest', scan_upto rest' -> (exists t, render_toks rest' = 93 :: t) -> scan_upto (convs b ++ rest')) ->
  scan_upto rest -> scan_upto (convs ts ++ rest).
Proof.
  intros Hn -> H Hb Sc. unfold tcoll in H. destruct body as [b|]; [|discriminate]. inversion H; subst ts. clear H.
  cbn [convs map app]. unfold conv at 1; cbn [lty tk_type tk_text FormatSpec.delim tok].
  apply su_delim; [reflexivity|lia|]. fold (convs (b ++ ctx_toks (zs name))). rewrite convs_app, <- app_assoc.
  apply (Hb b eq_refl); [apply ctx_A; auto|apply ctx_starts].
Qed.

Lemma GA_leaf v :
  (forall d n, tokens_at d n v = option_map (fun t => [t]) (leaf_token v)) ->
  floats_roundtrip fparse ftext v = leaf_floats fparse ftext v -> GA v.
Proof.
  intros E1 E2 d n ts H Fl rest Sc Fo. rewrite E1 in H.
  destruct (leaf_token v) as [t|] eqn:E; [|discriminate]. inversion H; subst ts. cbn [convs map app].
  apply (leaf_scan fparse ftext printable v t); auto; [rewrite <- E2; exact Fl|apply follow_sep; exact Fo].
Qed.

Theorem tokens_scan_upto : forall v, GA v.
Proof.
  induction v as [ | | | bo | w z | w z | z | z | w bits | w re im ab ph | s | i x | kd l IHl | key x IHkey IHx | kd ks vs IHks IHvs ] using val_ind2;
    try (apply GA_leaf; [intros; reflexivity|reflexivity]);
    intros d n ts H Fl rest Sc Fo.
  - cbn [FormatSpec.tokens_at] in H. destruct (RoundTripScan.seq_type_name KSlice) as (name & Hn & En).
    apply (tcoll_A _ _ name ts rest Hn En H); auto.
    intros b Hb rest' S' R'. apply (titems_A [] (Forall_nil _) d (S n) b Hb eq_refl rest' S' R').
  - cbn [FormatSpec.tokens_at] in H. destruct (RoundTripScan.map_type_name MGoMap) as (name & Hn & En).
    apply (tcoll_A _ _ name ts rest Hn En H); auto.
    intros b Hb rest' S' R'. apply (tentries_A [] (Forall_nil _) [] d (S n) b Hb eq_refl eq_refl rest' S' R').
  - cbn [FormatSpec.tokens_at] in H. destruct (RoundTripScan.seq_type_name kd) as (name & Hn & En).
    apply (tcoll_A _ _ name ts rest Hn En H); auto.
    intros b Hb rest' S' R'. cbn [floats_roundtrip] in Fl. apply (titems_A l IHl d (S n) b Hb Fl rest' S' R').
  - cbn [FormatSpec.tokens_at] in H. cbn [floats_roundtrip] in Fl. apply andb_true_iff in Fl as [Fk Fx].
    apply (tassoc_A key x IHx d n ts H Fk Fx rest Sc Fo).
  - cbn [FormatSpec.tokens_at] in H. destruct (RoundTripScan.map_type_name kd) as (name & Hn & En).
    apply (tcoll_A _ _ name ts rest Hn En H); auto.
    intros b Hb rest' S' R'. cbn [floats_roundtrip] in Fl. apply andb_true_iff in Fl as [Fk Fv].
    apply (tentries_A vs IHvs ks d (S n) b Hb Fk Fv rest' S' R').
Qed.

(* every output of the formatter is scannable up to its first "..." *)
Theorem tokens_of_scan_upto v ts :
  tokens_of ftext printable maximum v = Some ts -> floats_roundtrip fparse ftext v = true -> scan_upto (convs ts).
Proof.
  unfold tokens_of. intros H Fl. destruct (tokens_at 0 0 v) as [b|] eqn:Eb; [|discriminate]. inversion H; subst ts.
  rewrite convs_app.
  apply (tokens_scan_upto v 0%nat 0%nat b Eb Fl); [|simpl; auto].
  cbn [convs map]. unfold conv; cbn [lty tk_type tk_text eol_tok tok]. apply su_eol. constructor.
Qed.

End ScanE.

(* splitting at the first elision *)
Lemma scan_upto_split cs : scan_upto cs -> (exists x, In x cs /\ fst x = Lexer.TError) ->
  exists pre post, cs = pre ++ elision_tok :: post /\ Forall (fun x => fst x <> Lexer.TError) pre.
Proof.
  induction 1 as [|rest|ty text rest T S IH]; intros (x & Hin & Hx).
  - destruct Hin.
  - exists [], rest. split; [reflexivity|constructor].
  - destruct (try_types_pos _ _ _ _ T) as (_ & Hne & _).
    destruct Hin as [<-|Hin]; [cbn [fst] in Hx; congruence|].
    destruct (IH (ex_intro _ x (conj Hin Hx))) as (pre & post & -> & F).
    exists ((ty, text) :: pre), post. split; [reflexivity|]. constructor; auto.
Qed.

Lemma has_elision_error ts : has_elision ts = true -> exists x, In x (convs ts) /\ fst x = Lexer.TError.
Proof.
  unfold has_elision. intros H. apply existsb_exists in H as (t & Hin & Ht).
  exists (conv t). split; [apply in_map, Hin|]. unfold conv, is_elision in *. cbn [fst]. destruct (tk_type t); try discriminate. reflexivity.
Qed.

Lemma place_pre_nonerr : forall pre l p, Forall (fun x : rtok => fst x <> Lexer.TError) pre ->
  Forall (fun t => ttype_of t <> Lexer.TError) (fst (place_pre pre l p)).
Proof.
  induction pre as [|[ty tx] r IH]; intros l p F; [constructor|].
  inversion F as [|? ? Hty Fr]; subst. cbn [fst] in Hty. cbn [place_pre fst]. apply Forall_app. split; [|apply IH, Fr].
  destruct ty; try (constructor; [cbn [ttype_of]; congruence|constructor]); constructor.
Qed.

Section Elided.
Variable fparse : list Z -> option Z.
Variable crank : val -> val -> option comparison.
Variable ftext : Z -> list Z.
Variable printable : Z -> bool.
Variable maximum : nat.

(* ELIDED TEXTS ARE NOT PARSED.  Whenever the formatter elides (the token view holds "..."), the
   scanner turns the text into the tokens before the first dot (with their lines and positions),
   the Error token "." and EOF; the parser never consumes an Error token, so the text is rejected
   with a located diagnostic for a token of that stream. *)
Theorem elided_rejected v text :
  format0 ftext printable maximum v = Ret text ->
  (exists ts, tokens_of ftext printable maximum v = Some ts /\ has_elision ts = true) ->
  floats_roundtrip fparse ftext v = true ->
  (exists pre line pos,
     lex text = pre ++ [mkTok Lexer.TError [46] line pos; mkTok Lexer.TEOF [46] line pos] /\
     Forall (fun t => ttype_of t <> Lexer.TError) pre) /\
  (exists t, parse_source fparse crank text = PSyntax t /\ In t (lex text)).
Proof.
  intros Hf (ts & Ets & He) Fl. rewrite format0_tokens, Ets in Hf. cbn [out_of_tokens] in Hf. inversion Hf; subst text. clear Hf.
  pose proof (tokens_of_scan_upto fparse ftext printable maximum v ts Ets Fl) as Su.
  destruct (scan_upto_split _ Su (has_elision_error ts He)) as (pre & post & E & F).
  pose proof Su as Su'. rewrite E in Su'. pose proof (scan_upto_before pre post F Su') as Sb.
  rewrite <- render_convs, E, render_toks_app_elision.
  split.
  - exists (fst (place_pre pre 1 1)), (fst (snd (place_pre pre 1 1))), (snd (snd (place_pre pre 1 1))).
    split; [apply (lex_prefix_dot pre _ Sb)|].
    apply place_pre_nonerr, F.
  - apply (prefix_dot_rejected fparse crank pre _ Sb).
Qed.

(* for every value nested deeper than the limit that FormatValue accepts *)
Corollary elided_not_parsed v text :
  (maximum < nest_depth v)%nat -> format0 ftext printable maximum v = Ret text ->
  floats_roundtrip fparse ftext v = true ->
  (exists pre line pos,
     lex text = pre ++ [mkTok Lexer.TError [46] line pos; mkTok Lexer.TEOF [46] line pos] /\
     Forall (fun t => ttype_of t <> Lexer.TError) pre) /\
  (exists t, parse_source fparse crank text = PSyntax t /\ In t (lex text)).
Proof.
  intros Hn Hf Fl. apply (elided_rejected v text Hf); [|exact Fl].
  pose proof Hf as Hf'. rewrite format0_tokens in Hf'.
  destruct (tokens_of ftext printable maximum v) as [ts|] eqn:Ets; [|discriminate].
  exists ts. split; [reflexivity|]. apply (format_elides_beyond_limit ftext printable maximum v ts Hn Ets).
Qed.
End Elided.
