(* SeqProofs2.v — additions to SeqProofs.v for C01 (nothing there is changed):
   locality (nth) and conservation (Permutation) for the mutating operations that had none
   (AppendValue(s), SetValue(s)), exact position forms for the range operations
   (RemoveValues, GetValues, GetValue), the panic conditions of every indexed call, the
   read-only operations leave the sequence unchanged, the size after every step, and the
   receiver-aliased bulk operations spelled out. *)
From Verif Require Import Base Seq ListImpl ListMachine SeqProofs.
From Coq Require Import Permutation.

Section SeqProofs2.
Variable A : Type.
Variable zero : A.
Variable eqb : A -> A -> bool.
Set Default Proof Using "Type".

(* ---------- AppendValue / AppendValues ---------- *)
Theorem append_value_nth : forall (l : list A) v d j,
  length (append_value l v) = S (length l) /\
  nth j (append_value l v) d = (if j <? length l then nth j l d else if j =? length l then v else d).
Proof.
  intros l v d j. unfold append_value. split.
  - rewrite app_length. cbn [length]. lia.
  - destruct (Nat.ltb_spec j (length l)) as [H|H].
    + apply app_nth1. exact H.
    + rewrite app_nth2 by lia. destruct (Nat.eqb_spec j (length l)) as [E|E].
      * subst j. rewrite Nat.sub_diag. reflexivity.
      * destruct (j - length l) as [|m] eqn:Em; [lia|]. cbn [nth]. destruct m; reflexivity.
Qed.

Theorem append_values_nth : forall (l src : list A) d j,
  length (append_values l src) = length l + length src /\
  nth j (append_values l src) d = (if j <? length l then nth j l d else nth (j - length l) src d).
Proof.
  intros l src d j. unfold append_values. split.
  - apply app_length.
  - destruct (Nat.ltb_spec j (length l)) as [H|H].
    + apply app_nth1. exact H.
    + apply app_nth2. lia.
Qed.

Theorem append_value_perm : forall (l : list A) v, Permutation (append_value l v) (v :: l).
Proof. intros l v. unfold append_value. symmetry. apply Permutation_cons_append. Qed.

Theorem append_values_perm : forall (l src : list A), Permutation (append_values l src) (src ++ l).
Proof. intros l src. unfold append_values. apply Permutation_app_comm. Qed.

(* ---------- SetValue / SetValues: the overwritten values are the only ones lost ---------- *)
Theorem set_value_perm : forall (l : list A) i v l' k,
  set_value l i v = Ret l' -> pos (length l) i = Some k ->
  Permutation (nth k l zero :: l') (v :: l).
Proof.
  intros l i v l' k E Hp. unfold set_value in E. rewrite Hp in E. injection E as <-.
  pose proof (pos_lt _ _ _ Hp) as Hk.
  rewrite (set_nth_eq A k v l Hk).
  rewrite <- (firstn_skipn k l) at 4. rewrite (skipn_cons_nth A k l zero Hk).
  etransitivity; [apply perm_skip; symmetry; apply Permutation_middle|].
  etransitivity; [apply perm_swap|]. apply perm_skip. apply Permutation_middle.
Qed.

Theorem set_values_perm : forall (l : list A) i src l' k,
  set_values l i src = Ret l' -> pos (length l) i = Some k ->
  Permutation (firstn (length src) (skipn k l) ++ l') (src ++ l).
Proof.
  intros l i src l' k E Hp. unfold set_values in E. rewrite Hp in E.
  destruct (Nat.ltb_spec (length l) (k + length src)) as [H|H]; [discriminate E|].
  injection E as <-.
  set (old := firstn (length src) (skipn k l)).
  assert (Hl : l = firstn k l ++ old ++ skipn (k + length src) l).
  { unfold old. pose proof (split3 A l k (k + length src) ltac:(lia)) as Hs.
    replace (k + length src - k) with (length src) in Hs by lia. exact Hs. }
  rewrite Hl at 3.
  set (p := firstn k l). set (q := skipn (k + length src) l).
  (* old ++ p ++ src ++ q  ~  src ++ p ++ old ++ q *)
  transitivity (p ++ old ++ src ++ q).
  { apply Permutation_app_swap_app. }
  transitivity (p ++ src ++ old ++ q).
  { apply Permutation_app_head. apply Permutation_app_swap_app. }
  apply Permutation_app_swap_app.
Qed.

(* ---------- exact forms of the range operations ---------- *)
Theorem get_value_exact : forall (l : list A) i v,
  get_value zero l i = Ret v ->
  exists k, pos (length l) i = Some k /\ k < length l /\ v = nth k l zero.
Proof.
  intros l i v E. unfold get_value in E.
  destruct (pos (length l) i) as [k|] eqn:Hp; [|discriminate E].
  injection E as <-. exists k. split; [reflexivity|]. split; [exact (pos_lt _ _ _ Hp)|reflexivity].
Qed.

Theorem get_values_exact : forall (l : list A) i j r,
  get_values l i j = Ret r ->
  exists a b, pos (length l) i = Some a /\ pos (length l) j = Some b /\ a <= S b /\ S b <= length l /\
    r = firstn (S b - a) (skipn a l) /\ length r = S b - a /\
    forall k d, k < length r -> nth k r d = nth (a + k) l d.
Proof.
  intros l i j r. unfold get_values.
  destruct (pos (length l) i) as [a|] eqn:Ea; [|discriminate].
  destruct (pos (length l) j) as [b|] eqn:Eb; [|discriminate].
  pose proof (pos_lt _ _ _ Ea) as Ha. pose proof (pos_lt _ _ _ Eb) as Hb.
  destruct (Nat.ltb_spec (S b) a) as [H|H]; intro E; [discriminate E|].
  assert (Hr : r = firstn (S b - a) (skipn a l)) by (injection E as E'; exact (eq_sym E')).
  subst r. clear E. exists a, b.
  assert (Hlen : length (firstn (S b - a) (skipn a l)) = S b - a).
  { apply firstn_length_le. rewrite skipn_length. lia. }
  split; [reflexivity|]. split; [reflexivity|]. split; [lia|]. split; [lia|]. split; [reflexivity|].
  split; [exact Hlen|].
  intros k d Hk. rewrite Hlen in Hk. rewrite (nth_firstn' A) by exact Hk. apply (nth_skipn' A).
Qed.

Theorem remove_values_exact : forall (l : list A) i j r l',
  remove_values l i j = Ret (r, l') ->
  exists a b, pos (length l) i = Some a /\ pos (length l) j = Some b /\ a <= S b /\ S b <= length l /\
    r = firstn (S b - a) (skipn a l) /\ l' = firstn a l ++ skipn (S b) l /\
    length l' = length l - (S b - a) /\
    forall k d, nth k l' d = (if k <? a then nth k l d else nth (k + (S b - a)) l d).
Proof.
  intros l i j r l'. unfold remove_values.
  destruct (pos (length l) i) as [a|] eqn:Ea; [|discriminate].
  destruct (pos (length l) j) as [b|] eqn:Eb; [|discriminate].
  pose proof (pos_lt _ _ _ Ea) as Ha. pose proof (pos_lt _ _ _ Eb) as Hb.
  destruct (Nat.ltb_spec (S b) a) as [H|H]; intro E; [discriminate E|].
  assert (Hr : r = firstn (S b - a) (skipn a l) /\ l' = firstn a l ++ skipn (S b) l)
    by (injection E as E1 E2; split; [exact (eq_sym E1)|exact (eq_sym E2)]).
  destruct Hr as [-> ->]. clear E. exists a, b.
  assert (Hf : length (firstn a l) = a) by (apply firstn_length_le; lia).
  split; [reflexivity|]. split; [reflexivity|]. split; [lia|]. split; [lia|]. split; [reflexivity|].
  split; [reflexivity|]. split.
  - rewrite app_length, Hf, skipn_length. lia.
  - intros k d. destruct (Nat.ltb_spec k a) as [Hk|Hk].
    + rewrite app_nth1 by lia. apply (nth_firstn' A). exact Hk.
    + rewrite app_nth2 by lia. rewrite Hf. rewrite (nth_skipn' A). f_equal. lia.
Qed.

(* ---------- panic conditions of the indexed calls ---------- *)
Theorem get_value_panics_iff : forall (l : list A) i,
  get_value zero l i = Panic <-> pos (length l) i = None.
Proof.
  intros l i. unfold get_value. destruct (pos (length l) i); split; intro H; try discriminate H; reflexivity.
Qed.

Theorem set_value_panics_iff : forall (l : list A) i v,
  set_value l i v = Panic <-> pos (length l) i = None.
Proof.
  intros l i v. unfold set_value. destruct (pos (length l) i); split; intro H; try discriminate H; reflexivity.
Qed.

Theorem remove_value_panics_iff : forall (l : list A) i,
  remove_value zero l i = Panic <-> pos (length l) i = None.
Proof.
  intros l i. unfold remove_value. destruct (pos (length l) i); split; intro H; try discriminate H; reflexivity.
Qed.

Definition range_bad (n : nat) (i j : Z) : Prop :=
  pos n i = None \/ pos n j = None \/
  exists a b, pos n i = Some a /\ pos n j = Some b /\ S b < a.

Theorem get_values_panics_iff : forall (l : list A) i j,
  get_values l i j = Panic <-> range_bad (length l) i j.
Proof.
  intros l i j. unfold get_values, range_bad.
  destruct (pos (length l) i) as [a|]; [|split; auto].
  destruct (pos (length l) j) as [b|]; [|split; auto].
  destruct (Nat.ltb_spec (S b) a) as [H|H]; split; intro H'; auto.
  - right. right. exists a, b. auto.
  - discriminate H'.
  - destruct H' as [H'|[H'|[a' [b' [E1 [E2 H3]]]]]]; try discriminate.
    injection E1 as <-. injection E2 as <-. lia.
Qed.

Theorem remove_values_panics_iff : forall (l : list A) i j,
  remove_values l i j = Panic <-> range_bad (length l) i j.
Proof.
  intros l i j. unfold remove_values, range_bad.
  destruct (pos (length l) i) as [a|]; [|split; auto].
  destruct (pos (length l) j) as [b|]; [|split; auto].
  destruct (Nat.ltb_spec (S b) a) as [H|H]; split; intro H'; auto.
  - right. right. exists a, b. auto.
  - discriminate H'.
  - destruct H' as [H'|[H'|[a' [b' [E1 [E2 H3]]]]]]; try discriminate.
    injection E1 as <-. injection E2 as <-. lia.
Qed.

Theorem insert_values_panics_iff : forall (l : list A) slot vs,
  insert_values l slot vs = Panic <-> length l < slot.
Proof.
  intros l slot vs. unfold insert_values.
  destruct (Nat.ltb_spec (length l) slot) as [H|H]; split; intro H'; try assumption;
    try reflexivity; try discriminate H'; lia.
Qed.

(* ---------- read-only operations ---------- *)
Definition is_read (o : lop A) : bool :=
  match o with
  | LGetValue _ _ | LGetValues _ _ _ | LGetIndex _ _ | LContainsValue _ _ | LContainsAny _ _
  | LContainsAll _ _ | LAsArray _ | LGetSize _ | LIsEmpty _ => true
  | _ => false
  end.

Theorem reads_do_not_modify : forall l o, is_read o = true -> fst (lstep_spec zero eqb l o) = l.
Proof.
  intros l o H. destruct o; try discriminate H; cbn [lstep_spec]; try reflexivity.
  - destruct (get_value zero l i); reflexivity.
  - destruct (get_values l i j); reflexivity.
Qed.

(* the views agree with the state: AsArray = the sequence, GetSize = its length *)
Theorem views_agree : forall l,
  lstep_spec zero eqb l (LAsArray A) = (l, LVals A l) /\
  lstep_spec zero eqb l (LGetSize A) = (l, LNat A (length l)) /\
  lstep_spec zero eqb l (LIsEmpty A) = (l, LBool A (length l =? 0)).
Proof. intros l. repeat split. Qed.

(* ---------- the size after a step ---------- *)
Definition size_after (l : list A) (o : lop A) : nat :=
  match o with
  | LMakeFromSequence _ src => length src
  | LInsertValue _ _ _ => S (length l)
  | LInsertValues _ _ src => length l + length (operand A l src)
  | LAppendValue _ _ => S (length l)
  | LAppendValues _ src => length l + length (operand A l src)
  | LRemoveValue _ _ => length l - 1
  | LRemoveValues _ i j =>
    match pos (length l) i, pos (length l) j with
    | Some a, Some b => length l - (S b - a)
    | _, _ => length l
    end
  | LRemoveAll _ => 0
  | _ => length l
  end.

Theorem size_of_step : forall l o l' ob,
  lstep_spec zero eqb l o = (l', ob) -> ob <> LPanic ->
  length l' = size_after l o.
Proof.
  intros l o l' ob E Hp. destruct o; cbn [lstep_spec size_after] in *.
  - injection E as <- _. reflexivity.
  - destruct (insert_value l slot v) as [x| |] eqn:Ei; cbn [upd] in E; injection E as <- <-;
      try (exfalso; apply Hp; reflexivity).
    + apply (insert_value_nth A l slot v x v 0 Ei).
    + exfalso. exact (insert_value_not_hang A l slot v Ei).
  - destruct (insert_values l slot (operand A l src)) as [x| |] eqn:Ei; cbn [upd] in E; injection E as <- <-;
      try (exfalso; apply Hp; reflexivity).
    + destruct src as [s|]; [apply (insert_values_nth A l slot s x zero 0 Ei)|apply (insert_values_nth A l slot l x zero 0 Ei)].
    + exfalso. exact (insert_values_not_hang A l slot _ Ei).
  - injection E as <- _. apply (append_value_nth l v v 0).
  - injection E as <- _. apply (append_values_nth l (operand A l src) zero 0).
  - destruct (remove_value zero l i) as [[v x]| |] eqn:Ei; injection E as <- <-;
      try (exfalso; apply Hp; reflexivity).
    + destruct (pos (length l) i) as [k|] eqn:Ek.
      * apply (remove_value_spec A zero l i v x k Ei Ek).
      * unfold remove_value in Ei. rewrite Ek in Ei. discriminate Ei.
    + exfalso. exact (remove_value_not_hang A zero l i Ei).
  - destruct (remove_values l i j) as [[r x]| |] eqn:Ei; injection E as <- <-;
      try (exfalso; apply Hp; reflexivity).
    + destruct (remove_values_exact l i j r x Ei) as [a [b [Ea [Eb [_ [_ [_ [_ [Hl _]]]]]]]]].
      rewrite Ea, Eb. exact Hl.
    + exfalso. exact (remove_values_not_hang A l i j Ei).
  - injection E as <- _. reflexivity.
  - destruct (set_value l i v) as [x| |] eqn:Ei; cbn [upd] in E; injection E as <- <-;
      try (exfalso; apply Hp; reflexivity).
    + unfold set_value in Ei. destruct (pos (length l) i); [|discriminate Ei].
      injection Ei as <-. apply set_nth_length.
    + exfalso. exact (set_value_not_hang A l i v Ei).
  - destruct (set_values l i (operand A l src)) as [x| |] eqn:Ei; cbn [upd] in E; injection E as <- <-;
      try (exfalso; apply Hp; reflexivity).
    + destruct (pos (length l) i) as [k|] eqn:Ek.
      * apply (set_values_nth A l i _ x k zero 0 Ei Ek).
      * unfold set_values in Ei. rewrite Ek in Ei. discriminate Ei.
    + exfalso. exact (set_values_not_hang A l i _ Ei).
  - destruct (get_value zero l i); injection E as <- _; reflexivity.
  - destruct (get_values l i j); injection E as <- _; reflexivity.
  - injection E as <- _. reflexivity.
  - injection E as <- _. reflexivity.
  - injection E as <- _. reflexivity.
  - injection E as <- _. reflexivity.
  - injection E as <- _. reflexivity.
  - injection E as <- _. reflexivity.
  - injection E as <- _. reflexivity.
Qed.

(* ---------- receiver-aliased operands ---------- *)
(* passing the list itself as the operand of its own bulk operation behaves as if a separate
   copy had been passed — in the loop-shaped machine too (C01_refines), which is where it
   matters: the loops read the operand through an iterator snapshot while rebuilding *)
Theorem self_operand_as_copy : forall l,
  (forall slot, lstep_impl zero eqb l (LInsertValues A slot None) = lstep_spec zero eqb l (LInsertValues A slot (Some l))) /\
  lstep_impl zero eqb l (LAppendValues A None) = lstep_spec zero eqb l (LAppendValues A (Some l)) /\
  (forall i, lstep_impl zero eqb l (LSetValues A i None) = lstep_spec zero eqb l (LSetValues A i (Some l))) /\
  lstep_impl zero eqb l (LContainsAny A None) = lstep_spec zero eqb l (LContainsAny A (Some l)) /\
  lstep_impl zero eqb l (LContainsAll A None) = lstep_spec zero eqb l (LContainsAll A (Some l)).
Proof.
  intros l. repeat split; intros; rewrite (lstep_refines A zero eqb); reflexivity.
Qed.

Theorem self_insert_values : forall (l : list A) slot, slot <= length l ->
  lstep_spec zero eqb l (LInsertValues A slot None) = (firstn slot l ++ l ++ skipn slot l, LUnit).
Proof.
  intros l slot H. cbn [lstep_spec operand]. unfold insert_values.
  destruct (Nat.ltb_spec (length l) slot) as [H'|H']; [lia|]. reflexivity.
Qed.

Theorem self_append_values : forall (l : list A),
  lstep_spec zero eqb l (LAppendValues A None) = (l ++ l, LUnit).
Proof. reflexivity. Qed.

End SeqProofs2.

(* ---------- concrete data for the non-vacuity Examples of C01.v ---------- *)
Definition ex_list : list Z := [10; 20; 30]%Z.
Definition ex_dup : list Z := [10; 20; 30; 20]%Z.
(* a 12-step history: receiver-aliased InsertValues / SetValues / AppendValues / ContainsAll, negative
   indices, an empty operand, an empty range (3,2), an inverted range (4,2), a slot past the end,
   index 0 *)
Definition ex_lops : list (lop Z) :=
  [LInsertValues Z 1 None; LGetValue Z (-1); LRemoveValues Z 2 (-2); LSetValues Z 2 None;
   LSetValues Z 1 (Some []); LInsertValue Z 9 7%Z; LAppendValues Z None; LRemoveValue Z 0;
   LGetIndex Z 30%Z; LContainsAll Z None; LGetValues Z 3 2; LGetValues Z 4 2].
