(* Sorter.v — model of v4/agent/sorter.go (definitions only; proofs are in SorterProofs.v).

   sortValues: bottom-up merge sort.  Go slices buffer[left:middle], buffer[middle:right]
   are [firstn]/[skipn] segments; the clamping of middle/right to length is what
   firstn does at the end of a list.  mergeArrays takes the left head only when the
   ranker says Lesser (LesserRank = Lt), otherwise the right head (so it is not stable);
   when one side is exhausted the rest of the other is copied. *)
From Verif Require Import Base.

Section Sorter.
Variable A : Type.
Variable rank : A -> A -> comparison.   (* Lt = LesserRank, Eq = EqualRank, Gt = GreaterRank *)

(* mergeArrays; fuel >= length l + length r *)
Fixpoint merge (fuel : nat) (l r : list A) : list A :=
  match fuel with
  | 0 => []
  | S f =>
    match l, r with
    | [], _ => r
    | _, [] => l
    | a :: l', b :: r' =>
      match rank a b with
      | Lt => a :: merge f l' r
      | _ => b :: merge f l r'
      end
    end
  end.

(* one pass of the inner loop "for left := 0; left < length; left += width*2" *)
Fixpoint pass (fuel w : nat) (l : list A) : list A :=
  match fuel with
  | 0 => l
  | S f =>
    match l with
    | [] => []
    | _ => let left := firstn w l in
           let right := firstn w (skipn w l) in
           merge (length left + length right) left right ++ pass f w (skipn (2 * w) l)
    end
  end.

(* outer loop "for width := 1; width < length; width *= 2" *)
Fixpoint sort_loop (fuel w : nat) (l : list A) : list A :=
  match fuel with
  | 0 => l
  | S f => if w <? length l then sort_loop f (2 * w) (pass (length l) w l) else l
  end.

Definition sort_values (l : list A) : list A := sort_loop (length l) 1 l.

(* ReverseValues: "for index := 0; index < half; index++ { swap values[index], values[length-index-1] }" *)
Definition swap_nth (d : A) (i j : nat) (l : list A) : list A :=
  let x := nth i l d in
  let y := nth j l d in
  set_nth j x (set_nth i y l).

Fixpoint reverse_loop (d : A) (n idx : nat) (l : list A) : list A :=
  match n with
  | 0 => l
  | S n' => reverse_loop d n' (S idx) (swap_nth d idx (length l - idx - 1) l)
  end.

Definition reverse_values (l : list A) : list A :=
  match l with
  | [] => []
  | d :: _ => reverse_loop d (length l / 2) 0 l
  end.

(* ShuffleValues: "for i := 0; i < size; i++ { r := random(size); swap values[i], values[r] }".
   The random indices are an explicit oracle list; an index >= size is ignored (the real
   generator never yields one). *)
Fixpoint shuffle_loop (d : A) (i : nat) (rs : list nat) (l : list A) : list A :=
  match rs with
  | [] => l
  | r :: rs' =>
    if (i <? length l) && (r <? length l)
    then shuffle_loop d (S i) rs' (swap_nth d i r l)
    else shuffle_loop d (S i) rs' l
  end.

Definition shuffle_values (rs : list nat) (l : list A) : list A :=
  match l with
  | [] => []
  | d :: _ => shuffle_loop d 0 rs l
  end.

End Sorter.

Arguments merge {A}.
Arguments pass {A}.
Arguments sort_loop {A}.
Arguments sort_values {A}.
Arguments swap_nth {A}.
Arguments reverse_loop {A}.
Arguments reverse_values {A}.
Arguments shuffle_loop {A}.
Arguments shuffle_values {A}.
