(* C19 — Distinct instances are independent across goroutines (claimed as PARTIAL).

   What is proved here is about DECLARED footprints and about the registry PROTOCOL, on a model:
   - the general independence theorem: threads whose operations' declared footprints do not
     conflict obtain, under every interleaving, the results they obtain alone and leave the
     store of their sequential composition (n threads);
   - the footprint table of the library's operation families (Indep.v, fp_of): with the
     structural facts that tools/genparams.py regenerates from the Go sources (registries
     locked, the notation keeps no formatter/parser, the sorter class keeps no collator, a
     collator call does not write the collator),
     operations on distinct instances do not conflict outside the registries' critical
     sections, and not at all once the classes exist; hence any implementation respecting the
     table is independent across threads (C19_table_programs_independent);
   - the registry protocol: under every interleaving one class per type key, returned to all;
   - the pre-repair tree (D23, D24) and the unlocked registry are refuted by explicit
     interleavings, as is the collator that kept its depth counter in the instance (D29).
   What is NOT proved: that the Go code's memory accesses stay inside the table.  That is
   exercised by the race detector and by concurrent-versus-sequential runs (harness/indep.go,
   IndepRun.v), and - since the static footprint extraction - DERIVED SYNTACTICALLY for the class of
   changes that puts mutable state where two instances reach it: tools/gofootprint (go/ast +
   go/types) regenerates ParamsFoot.v from the Go sources; IndepFacts.static_ok is the conjunction
   of the obligations on those tables; the C19_static_* theorems below have [static_ok = true] as
   their premise, and coq/IndepStatic.v (compiled by ./check C19 only, so that a change of the
   sources is reported for C19 and not for every property) proves the premise by computation and
   closes them.  The analysis and its rules are trusted (docs/C19.md, "Static footprint extraction").

   Full-strength statement of the property, not proved as such:
     for every Go program made of the library's operations on distinct instances in several
     goroutines, every execution is race free and returns the sequential results. *)
From Verif Require Import Base Params ParamsFoot Indep IndepFacts Registry IndepProofs RegistryProofs.
Open Scope Z_scope.

Theorem C19_indep_commutes_partial :
  forall (cell : Type) (cell_eqb : cell -> cell -> bool),
    (forall a b, cell_eqb a b = true <-> a = b) ->
    forall (ts : list (thread cell)) (s0 : store cell),
      (forall t, In t ts -> Forall (op_wf cell) t) ->
      pairwise_no_conflict cell ts ->
      forall sched,
        let c := run cell (init cell s0 ts) sched in
        finished cell c ->
        (forall i, res c i = snd (run_thread cell s0 (nth i ts []))) /\
        snd (run_seq cell s0 ts) = map (fun t => snd (run_thread cell s0 t)) ts /\
        (forall x, st c x = fst (run_seq cell s0 ts) x).
Proof. exact indep_commutes. Qed.

Theorem C19_schedule_independent :
  forall (cell : Type) (cell_eqb : cell -> cell -> bool),
    (forall a b, cell_eqb a b = true <-> a = b) ->
    forall (ts : list (thread cell)) (s0 : store cell),
      (forall t, In t ts -> Forall (op_wf cell) t) ->
      pairwise_no_conflict cell ts ->
      forall sched1 sched2,
        finished cell (run cell (init cell s0 ts) sched1) -> finished cell (run cell (init cell s0 ts) sched2) ->
        (forall i, res (run cell (init cell s0 ts) sched1) i = res (run cell (init cell s0 ts) sched2) i) /\
        (forall x, st (run cell (init cell s0 ts) sched1) x = st (run cell (init cell s0 ts) sched2) x).
Proof. exact schedule_independent. Qed.

Theorem C19_ops_commute :
  forall (cell : Type) (cell_eqb : cell -> cell -> bool),
    (forall a b, cell_eqb a b = true <-> a = b) ->
    forall (a b : op cell) (s : store cell),
      op_wf cell a -> op_wf cell b -> conflicts cell cell_eqb (op_fp a) (op_fp b) = false ->
      snd (act a s) = snd (act a (fst (act b s))) /\
      snd (act b s) = snd (act b (fst (act a s))) /\
      (forall x, fst (act b (fst (act a s))) x = fst (act a (fst (act b s))) x).
Proof. exact ops_commute. Qed.

(* the hypotheses of the general theorem are satisfiable by a non-trivial program, and its
   conclusion can be observed on a concrete interleaving *)
Example C19_indep_hypotheses_example :
  (forall t, In t demo_threads -> Forall (op_wf cell) t) /\
  pairwise_no_conflict cell demo_threads /\
  let c := run cell (init cell zero_store demo_threads) [2; 0; 1; 2; 0; 2]%nat in
  finishedb cell 3 c = true /\ res c 0%nat = [0; 5] /\ res c 1%nat = [0] /\ res c 2%nat = [0; 2; 4] /\
  st c (CInst 1) = 12 /\ st c (CInst 3) = 6.
Proof.
  split; [exact demo_threads_wf|]. split; [exact demo_threads_no_conflict|].
  vm_compute. repeat split; reflexivity.
Qed.

Theorem C19_distinct_instances_disjoint :
  forall (F : facts) (a b : opdesc),
    is_repaired F -> disjoint_insts a b = true ->
    racy_conflict F a b = false /\
    (od_cold a = false -> od_cold b = false -> conflict F a b = false).
Proof. exact distinct_instances_disjoint. Qed.

(* ... for the facts regenerated from the current Go sources: breaks when notation.go keeps a
   formatter/parser again, sorter.go a class-level ranker, or an accessor loses its mutex *)
Theorem C19_distinct_instances_disjoint_current :
  forall a b : opdesc,
    disjoint_insts a b = true ->
    racy_conflict current_facts a b = false /\
    (od_cold a = false -> od_cold b = false -> conflict current_facts a b = false).
Proof. exact distinct_instances_disjoint_current. Qed.

Example C19_current_facts : is_repaired current_facts /\ length Params.registry_locked = 11%nat.
Proof. split; [exact current_facts_repaired | reflexivity]. Qed.

Example C19_disjoint_example :
  disjoint_insts str_a srt_b = true /\ writes (fp_of repaired_facts srt_b) <> [] /\
  reads (fp_of repaired_facts str_a) <> [].
Proof. exact disjoint_example. Qed.

Theorem C19_table_programs_independent :
  forall (F : facts) (sem : opdesc -> op cell) (dts : list (list opdesc)) (s0 : store cell),
    is_repaired F ->
    (forall d, op_fp (sem d) = fp_of F d) -> (forall d, op_wf cell (sem d)) ->
    (forall t, In t dts -> warm t) ->
    ForallOrdPairs threads_disjoint dts ->
    forall sched,
      let ts := map (map sem) dts in
      let c := run cell (init cell s0 ts) sched in
      finished cell c ->
      (forall i, res c i = snd (run_thread cell s0 (nth i ts []))) /\
      snd (run_seq cell s0 ts) = map (fun t => snd (run_thread cell s0 t)) ts /\
      (forall x, st c x = fst (run_seq cell s0 ts) x).
Proof. exact table_programs_independent. Qed.

Theorem C19_registry_unique :
  forall (todos : list (list nat)) (sched : list nat),
    let s := rrun true (rinit todos) sched in
    (forall k, classes_for k s <= 1)%nat /\
    (forall t1 t2 k c1 c2, In (k, c1) (rt_rets (r_thr s t1)) -> In (k, c2) (rt_rets (r_thr s t2)) -> c1 = c2) /\
    (forall t k c, In (k, c) (rt_rets (r_thr s t)) -> lookup k (r_map s) = Some c) /\
    (forall t1 t2 k1 k2 c, In (k1, c) (rt_rets (r_thr s t1)) -> In (k2, c) (rt_rets (r_thr s t2)) -> k1 = k2).
Proof. exact registry_unique. Qed.

(* no deadlock: while a call is outstanding some thread's next step makes progress *)
Theorem C19_registry_progress :
  forall (todos : list (list nat)) (sched : list nat),
    let s := rrun true (rinit todos) sched in
    (exists t, rt_todo (r_thr s t) <> []) ->
    exists u, (work (rstep true s u) u < work s u)%nat.
Proof. exact registry_progress. Qed.

Example C19_registry_run_example :
  let s := rrun true (rinit [[7; 8]; [7]; [8; 7]]%nat) (concat (repeat [0; 1; 2]%nat 30)) in
  rdone 3 s = true /\
  rt_rets (r_thr s 0%nat) = [(7, 0); (8, 1)]%nat /\ rt_rets (r_thr s 1%nat) = [(7, 0)]%nat /\
  rt_rets (r_thr s 2%nat) = [(8, 1); (7, 0)]%nat /\
  classes_for 7 s = 1%nat /\ classes_for 8 s = 1%nat.
Proof. exact registry_run_example. Qed.

Theorem C19_registry_unlocked_refuted :
  exists todos sched,
    let s := rrun false (rinit todos) sched in
    rdone 2 s = true /\ classes_for 7 s = 2%nat /\
    exists c1 c2, In (7%nat, c1) (rt_rets (r_thr s 0%nat)) /\ In (7%nat, c2) (rt_rets (r_thr s 1%nat)) /\ c1 <> c2.
Proof. exact registry_unlocked_refuted. Qed.

(* D23 (repaired): before the repair the table says "conflict" and an interleaving corrupts both texts *)
Theorem C19_string_shared_refuted_prefix :
  disjoint_insts str_a str_b = true /\
  racy_conflict prefix_facts str_a str_b = true /\
  (forall c, In c (thread_touches cell (format_program 1 [1; 2; 3])) -> In c (writes (fp_of prefix_facts str_a))) /\
  (forall c, In c (thread_touches cell (format_program 1 [4; 5])) -> In c (writes (fp_of prefix_facts str_b))) /\
  alone (format_program 1 [1; 2; 3]) = [0; 0; 0; 123] /\
  alone (format_program 1 [4; 5]) = [0; 0; 45] /\
  exists sched,
    finishedb cell 2 (run cell (init cell zero_store [format_program 1 [1; 2; 3]; format_program 1 [4; 5]]) sched) = true /\
    results2 (format_program 1 [1; 2; 3]) (format_program 1 [4; 5]) sched = ([0; 0; 0; 3], [0; 0; 1425]).
Proof. exact string_shared_refuted_prefix. Qed.

Theorem C19_parse_shared_refuted_prefix :
  disjoint_insts par_a par_b = true /\ racy_conflict prefix_facts par_a par_b = true.
Proof. exact parse_shared_refuted_prefix. Qed.

(* D24 (repaired) *)
Theorem C19_default_sorter_shared_refuted_prefix :
  disjoint_insts srt_a srt_b = true /\
  racy_conflict prefix_facts srt_a srt_b = true /\
  (forall c, In c (thread_touches cell (rank_program 2 10)) -> In c (writes (fp_of prefix_facts srt_a))) /\
  ~ In (-1) (alone (rank_program 2 10)) /\
  exists sched,
    finishedb cell 2 (run cell (init cell zero_store [rank_program 2 10; rank_program 2 10]) sched) = true /\
    In (-1) (snd (results2 (rank_program 2 10) (rank_program 2 10) sched)).
Proof. exact default_sorter_shared_refuted_prefix. Qed.

Example C19_repaired_pairs_clean :
  racy_conflict repaired_facts str_a str_b = false /\ conflict repaired_facts str_a str_b = false /\
  racy_conflict repaired_facts par_a par_b = false /\ conflict repaired_facts srt_a srt_b = false.
Proof. exact repaired_pairs_clean. Qed.

(* D29 (repaired): before the repair searching a set and a set derived from it (which keeps
   the operand's collator instance), or ranking with one collator from two goroutines, conflict *)
Theorem C19_derived_set_shares_collator_refuted_prefix :
  od_recv set_a <> od_recv set_r /\ disjoint_insts set_a set_r = false /\
  racy_conflict prefix_facts set_a set_r = true /\
  racy_conflict prefix_facts rank_a rank_b = true.
Proof. exact derived_set_shares_collator_refuted_prefix. Qed.

(* after it: searches and rankings write nothing, so they never conflict with one another,
   whatever collections and collators are shared *)
Theorem C19_searches_and_rankings_share_freely :
  forall (F : facts) (a b : opdesc),
    is_repaired F -> f_collator_shares_depth F = false ->
    read_only_fam a -> read_only_fam b -> od_cold a = false -> od_cold b = false ->
    conflict F a b = false.
Proof. exact searches_and_rankings_share_freely. Qed.

(* ... for the facts regenerated from the current sources: breaks when CompareValues/RankValues
   touch the receiver's depth counter again *)
Theorem C19_searches_and_rankings_share_freely_current :
  forall a b : opdesc,
    read_only_fam a -> read_only_fam b -> od_cold a = false -> od_cold b = false ->
    conflict current_facts a b = false.
Proof. exact searches_and_rankings_share_freely_current. Qed.

Example C19_derived_set_clean_current :
  read_only_fam set_a /\ read_only_fam set_r /\ read_only_fam rank_a /\
  conflict current_facts set_a set_r = false /\ conflict current_facts rank_a rank_b = false /\
  reads (fp_of current_facts set_a) <> [].
Proof. exact derived_set_clean_current. Qed.

(* the package-level variables of the Go sources are exactly the expected ones, all benign: the
   registries (locked) are the only mutable class-level state the table has to account for *)
Theorem C19_package_state_inventory :
  Params.package_vars = expected_package_vars /\
  forallb (fun p => benign_kind (snd p)) Params.package_vars = true /\
  forallb registry_is_locked Params.package_vars = true /\
  length (filter is_registry Params.package_vars) = length Params.registry_locked.
Proof. exact package_state_inventory. Qed.

(* ---- with the static footprint extraction as the premise (closed in IndepStatic.v) ---- *)

(* every cell an operation of the table writes is the cell of one of its own instances or a guarded
   registry entry *)
Theorem C19_static_facts_justify_table :
  static_ok = true ->
  forall (d : opdesc) (c : cell), In c (writes (fp_of current_facts d)) ->
    (exists i, In i (insts d) /\ c = CInst i) \/
    (exists k t, c = CReg k t /\ guarded current_facts c = true).
Proof. exact static_facts_justify_table. Qed.

Theorem C19_static_distinct_instances_disjoint :
  static_ok = true ->
  forall a b : opdesc,
    disjoint_insts a b = true ->
    racy_conflict current_facts a b = false /\
    (od_cold a = false -> od_cold b = false -> conflict current_facts a b = false).
Proof. exact static_distinct_instances_disjoint. Qed.

Theorem C19_static_searches_and_rankings_share_freely :
  static_ok = true ->
  forall a b : opdesc,
    read_only_fam a -> read_only_fam b -> od_cold a = false -> od_cold b = false ->
    conflict current_facts a b = false.
Proof. exact static_searches_and_rankings_share_freely. Qed.

(* what the premise says about the Go sources: no class field is written outside the literal that
   creates the class object; no instance field is written by a foreign function; the references kept
   across calls and the functions writing through a parameter are exactly the reviewed ones; every
   package-level write is inside a critical section, nothing is exported; every accessor is
   disciplined; every method writes only fields of its own receiver *)
Theorem C19_static_sources :
  static_ok = true ->
  foot_class_mutable = [] /\ foot_foreign_writes = [] /\
  foot_shared_edges = expected_shared_edges /\ foot_escapes = expected_escapes /\
  foot_pkgvar_unguarded = [] /\ foot_verif_pkgvar_unguarded = [] /\
  foot_exported_vars = [] /\ foot_verif_exported_vars = expected_verif_exported_vars /\
  (forall r, In r foot_accessors -> accessor_ok r = true) /\
  map (fun r : accessor_row => fst (fst r)) foot_accessors = map fst Params.registry_locked /\
  (forall m, In m foot_methods -> method_writes_own m = true).
Proof. exact static_ok_meaning. Qed.

Print Assumptions C19_indep_commutes_partial.
Print Assumptions C19_schedule_independent.
Print Assumptions C19_ops_commute.
Print Assumptions C19_distinct_instances_disjoint.
Print Assumptions C19_distinct_instances_disjoint_current.
Print Assumptions C19_table_programs_independent.
Print Assumptions C19_package_state_inventory.
Print Assumptions C19_registry_unique.
Print Assumptions C19_registry_progress.
Print Assumptions C19_registry_unlocked_refuted.
Print Assumptions C19_string_shared_refuted_prefix.
Print Assumptions C19_parse_shared_refuted_prefix.
Print Assumptions C19_default_sorter_shared_refuted_prefix.
Print Assumptions C19_derived_set_shares_collator_refuted_prefix.
Print Assumptions C19_searches_and_rankings_share_freely.
Print Assumptions C19_searches_and_rankings_share_freely_current.
Print Assumptions C19_static_facts_justify_table.
Print Assumptions C19_static_distinct_instances_disjoint.
Print Assumptions C19_static_searches_and_rankings_share_freely.
Print Assumptions C19_static_sources.
