(* ScanProofs.v — generic facts about the interpreter of ScanSem.v, independent of what tools/goscan
   generated (GenScan.v is never unfolded here): more fuel never changes a result. *)
From Coq Require Import ZArith List String Bool Lia.
From Verif Require Import Base Params Lexer Literals ScanLang GenScan ScanSem.
Import ListNotations.
Open Scope Z_scope.

Lemma out_with_some pre r x : out_with pre r = Some x ->
  exists r0, r = Some r0 /\ x = {| x_st := x_st r0; x_env := x_env r0; x_out := pre ++ x_out r0; x_oc := x_oc r0 |}.
Proof. destruct r as [r0|]; simpl; intros H; [|discriminate]. exists r0. split; congruence. Qed.

Ltac mono_step IH m :=
  match goal with
  | H : out_with ?pre ?r = Some _ |- _ =>
      let r0 := fresh "r" in let E := fresh "E" in let X := fresh "X" in
      destruct (out_with_some _ _ _ H) as (r0 & E & X); clear H; subst
  | H : exec ?src ?f ?ty ?k ?st ?e = Some ?r |- context [exec ?src ?m ?ty ?k ?st ?e] =>
      rewrite (IH _ _ _ _ _ H m) by lia
  | H : match exec ?src ?f ?ty ?k ?st ?e with _ => _ end = Some _ |- _ =>
      let E := fresh "E" in destruct (exec src f ty k st e) eqn:E; [|discriminate]
  | H : context [match ?x with _ => _ end] |- _ =>
      lazymatch x with
      | context [exec] => fail
      | _ => destruct x eqn:?; try discriminate
      end
  end.

Theorem exec_mono src : forall f ty k st e r, exec src f ty k st e = Some r ->
  forall m, (f <= m)%nat -> exec src m ty k st e = Some r.
Proof.
  induction f as [|f IH]; intros ty k st e r H m Hm; [discriminate|].
  destruct m as [|m]; [lia|]. assert (Hle : (f <= m)%nat) by lia.
  destruct k as [|s k']; [exact H|].
  destruct s; cbn [exec] in H |- *; repeat mono_step IH m; try exact H; try reflexivity; try discriminate; try (simpl; congruence).
Qed.

(* ---- one statement at a time (by conversion, with ABSTRACT fuel: proofs about the regenerated code rewrite with
   these instead of letting cbn / the kernel unfold [exec] on stuck arguments) ---- *)
Section Steps.
Variables (src : list Z) (f : nat) (ty : option ttype) (k' : list sstmt) (st : sstate) (e : lenv).

Lemma exec_nil : exec src (S f) ty [] st e = Some {| x_st := st; x_env := e; x_out := []; x_oc := ONormal |}.
Proof. reflexivity. Qed.
Lemma exec_SSetField fld x : exec src (S f) ty (SSetField fld x :: k') st e =
  match eval src st e x with Some z => exec src f ty k' (set_field st fld z) e | None => None end.
Proof. reflexivity. Qed.
Lemma exec_SAddField fld x : exec src (S f) ty (SAddField fld x :: k') st e =
  match eval src st e x with Some z => exec src f ty k' (set_field st fld (get_field st fld + z)) e | None => None end.
Proof. reflexivity. Qed.
Lemma exec_SIncField fld : exec src (S f) ty (SIncField fld :: k') st e = exec src f ty k' (set_field st fld (get_field st fld + 1)) e.
Proof. reflexivity. Qed.
Lemma exec_SSetFieldCall fld fn a : exec src (S f) ty (SSetFieldCall fld fn a :: k') st e =
  match (match a with TRunesVar x | TRunesOf x => match vlookup x e with Some (VText l) => Some l | _ => None end end) with
  | Some l =>
    match exec src f None (body_of fn) st [("runes1"%string, VText l)] with
    | Some r => match x_oc r, x_out r with
                | OReturn (Some (VInt z)), [] => exec src f ty k' (set_field (x_st r) fld z) e
                | _, _ => None
                end
    | None => None
    end
  | None => None
  end.
Proof. reflexivity. Qed.
Lemma exec_SVar x ex : exec src (S f) ty (SVar x ex :: k') st e =
  match eval src st e ex with Some z => exec src f ty k' st (vset x (VInt z) e) | None => None end.
Proof. reflexivity. Qed.
Lemma exec_SDecVar x : exec src (S f) ty (SDecVar x :: k') st e =
  match vlookup x e with Some (VInt z) => exec src f ty k' st (vset x (VInt (z - 1)) e) | _ => None end.
Proof. reflexivity. Qed.
Lemma exec_SIncVar x : exec src (S f) ty (SIncVar x :: k') st e =
  match vlookup x e with Some (VInt z) => exec src f ty k' st (vset x (VInt (z + 1)) e) | _ => None end.
Proof. reflexivity. Qed.
Lemma exec_STextSlice x lo hi : exec src (S f) ty (STextSlice x lo hi :: k') st e =
  match (match lo with Some a => eval src st e a | None => Some 0 end),
        (match hi with Some a => eval src st e a | None => Some (Z.of_nat (length src)) end) with
  | Some a, Some b => match slice src a b with Some l => exec src f ty k' st (vset x (VText l) e) | None => None end
  | _, _ => None
  end.
Proof. reflexivity. Qed.
Lemma exec_SMatch m x : exec src (S f) ty (SMatch m x :: k') st e =
  match ty, vlookup x e with
  | Some t, Some (VText l) => exec src f ty k' st (vset m (VMatches (recognize t l) l) e)
  | _, _ => None
  end.
Proof. reflexivity. Qed.
Lemma exec_SGroup x m n : exec src (S f) ty (SGroup x m n :: k') st e =
  match vlookup m e with
  | Some (VMatches (Some len) l) => if n =? 1 then exec src f ty k' st (vset x (VText (firstn len l)) e) else None
  | _ => None
  end.
Proof. reflexivity. Qed.
Lemma exec_SRunes x y : exec src (S f) ty (SRunes x y :: k') st e =
  match vlookup y e with Some (VText l) => exec src f ty k' st (vset x (VText l) e) | _ => None end.
Proof. reflexivity. Qed.
Lemma exec_SIf c yes no : exec src (S f) ty (SIf c yes no :: k') st e =
  match holds src ty st e c with Some b => exec src f ty ((if b then yes else no) ++ k') st e | None => None end.
Proof. reflexivity. Qed.
Lemma exec_SFor_init label i init c post body : exec src (S f) ty (SFor label (i :: init) c post body :: k') st e =
  exec src f ty (i :: init ++ SFor label [] c post body :: k') st e.
Proof. reflexivity. Qed.
Lemma exec_SFor label c post body : exec src (S f) ty (SFor label [] c post body :: k') st e =
  match holds src ty st e c with
  | Some false => exec src f ty k' st e
  | Some true =>
    match exec src f ty body st e with
    | Some r =>
      match x_oc r with
      | ONormal => out_with (x_out r) (exec src f ty (post ++ SFor label [] c post body :: k') (x_st r) (x_env r))
      | OBreak b => if breaks label b then out_with (x_out r) (exec src f ty k' (x_st r) (x_env r)) else Some r
      | OReturn _ => Some r
      end
    | None => None
    end
  | None => None
  end.
Proof. reflexivity. Qed.
Lemma exec_SSwitch_nil dflt : exec src (S f) ty (SSwitchFound [] dflt :: k') st e =
  match exec src f ty dflt st e with
  | Some r => match x_oc r with
              | ONormal | OBreak None => out_with (x_out r) (exec src f ty k' (x_st r) (x_env r))
              | _ => Some r
              end
  | None => None
  end.
Proof. reflexivity. Qed.
Lemma exec_SSwitch_cons name body more dflt : exec src (S f) ty (SSwitchFound ((name, body) :: more) dflt :: k') st e =
  match ttype_of_name name with
  | Some t =>
    match exec src f (Some t) (body_of "foundToken") st [] with
    | Some r =>
      match x_oc r with
      | OReturn (Some (VInt 1)) =>
        out_with (x_out r)
          (match exec src f ty body (x_st r) e with
           | Some r2 => match x_oc r2 with
                        | ONormal | OBreak None => out_with (x_out r2) (exec src f ty k' (x_st r2) (x_env r2))
                        | _ => Some r2
                        end
           | None => None
           end)
      | OReturn (Some (VInt 0)) => out_with (x_out r) (exec src f ty (SSwitchFound more dflt :: k') (x_st r) e)
      | _ => None
      end
    | None => None
    end
  | None => None
  end.
Proof. reflexivity. Qed.
Lemma exec_SBreak label : exec src (S f) ty (SBreak label :: k') st e = Some {| x_st := st; x_env := e; x_out := []; x_oc := OBreak label |}.
Proof. reflexivity. Qed.
Lemma exec_SEmit t : exec src (S f) ty (SEmit t :: k') st e =
  match (match t with TyParam => ty | TyConst name => ttype_of_name name end), slice src (s_first st) (s_next st) with
  | Some tk, Some text => out_with [mkTok tk (gen_rename text) (s_line st) (s_pos st)] (exec src f ty k' st e)
  | _, _ => None
  end.
Proof. reflexivity. Qed.
Lemma exec_SCall fn : exec src (S f) ty (SCall fn :: k') st e =
  match exec src f None (body_of fn) st [] with
  | Some r => match x_oc r with
              | ONormal | OReturn None => out_with (x_out r) (exec src f ty k' (x_st r) e)
              | _ => None
              end
  | None => None
  end.
Proof. reflexivity. Qed.
Lemma exec_SReturn : exec src (S f) ty (SReturn :: k') st e = Some {| x_st := st; x_env := e; x_out := []; x_oc := OReturn None |}.
Proof. reflexivity. Qed.
Lemma exec_SReturnInt x : exec src (S f) ty (SReturnInt x :: k') st e =
  match eval src st e x with Some z => Some {| x_st := st; x_env := e; x_out := []; x_oc := OReturn (Some (VInt z)) |} | None => None end.
Proof. reflexivity. Qed.
Lemma exec_SReturnBool b : exec src (S f) ty (SReturnBool b :: k') st e =
  Some {| x_st := st; x_env := e; x_out := []; x_oc := OReturn (Some (VInt (if b then 1 else 0))) |}.
Proof. reflexivity. Qed.
End Steps.

(* run the statement at the head of the continuation, then evaluate the expressions it exposed *)
Ltac xstep1 :=
  first [ rewrite exec_SSetField | rewrite exec_SAddField | rewrite exec_SIncField | rewrite exec_SSetFieldCall
        | rewrite exec_SVar | rewrite exec_SDecVar | rewrite exec_SIncVar | rewrite exec_STextSlice | rewrite exec_SMatch
        | rewrite exec_SGroup | rewrite exec_SRunes | rewrite exec_SIf | rewrite exec_SFor_init | rewrite exec_SFor
        | rewrite exec_SSwitch_nil | rewrite exec_SSwitch_cons | rewrite exec_SBreak | rewrite exec_SEmit | rewrite exec_SCall
        | rewrite exec_SReturn | rewrite exec_SReturnInt | rewrite exec_SReturnBool | rewrite exec_nil ];
  cbn [eval holds vlookup vset get_field set_field olookup oset String.eqb Ascii.eqb Bool.eqb cmp
       out_with breaks app ttype_of_name x_st x_env x_out x_oc s_next s_first s_line s_pos s_other negb].
