(* C03.v — Catalog is an insertion-ordered map whose key index and order never diverge
   Statements only: every theorem is closed by [exact] of a lemma proved elsewhere, and its
   axioms are printed.  Generated once by tools/mkprop.py from the proved lemmas' statements. 
   Round 2 (polish): an [Example] of non-vacuity beside the theorems with hypotheses (data in AssocProofs2.v);
   from C03_go_key_equality_is_symmetric on: Go's "==" as modelled (Value.keq) satisfies the symmetry and
   transitivity hypotheses, so the history theorems hold for the pool's keys without hypotheses on keq; the
   Catalog operations of the pool machine are the association-list functions; Sort/Reverse/Shuffle keep the mapping. *)
From Verif Require Import Base Sorter SorterProofs Value Seq Coll Pool PoolFrame AssocProofs SorterProofs2 AssocProofs2 ReorderProofs CatalogImpl CatalogProofs.
Local Open Scope nat_scope.

Theorem C03_keys_stay_distinct :
  forall (K V : Type) (keq : K -> K -> bool),
         (forall a b : K, keq a b = keq b a) ->
         forall (ops : list (aop K V)) (m : list (K * V)),
         wfm K V keq m -> wfm K V keq (arun K V keq m ops).
Proof. exact C03_inv. Qed.

(* non-vacuity: the catalog a:1 b:2 c:3 (string keys, Go "==" as modelled by Value.keq, which IS symmetric
   and transitive: C03_go_key_equality_is_symmetric, _is_transitive), and the history: set new d, update b, remove a, remove the absent z, set a again *)
Example C03_keys_stay_distinct_example :
  (forall a b : val, keq a b = keq b a) /\ wfm val val keq ex_cat /\
  arun val val keq ex_cat ex_aops = [(kb, iv 20); (kc, iv 3); (kd, iv 4); (ka, iv 5)] /\
  wfm val val keq (arun val val keq ex_cat ex_aops).
Proof.
  split; [exact keq_sym|]. split; [exact (distinctb_ok val val keq ex_cat eq_refl)|]. split; [vm_compute; reflexivity|].
  apply (C03_keys_stay_distinct val val keq keq_sym). exact (distinctb_ok val val keq ex_cat eq_refl).
Qed.

Theorem C03_every_history_refines_the_abstract_map :
  forall (K V : Type) (keq : K -> K -> bool),
         (forall a b : K, keq a b = keq b a) ->
         (forall a b c : K, keq a b = true -> keq b c = true -> keq a c = true) ->
         forall (ops : list (aop K V)) (m : list (K * V)),
         wfm K V keq m ->
         forall x : K, a_get keq (arun K V keq m ops) x = frun K V keq (a_get keq m) ops x.
Proof. exact C03_refines. Qed.

Example C03_every_history_refines_the_abstract_map_example :
  (forall x : val, a_get keq (arun val val keq ex_cat ex_aops) x = frun val val keq (a_get keq ex_cat) ex_aops x) /\
  a_get keq (arun val val keq ex_cat ex_aops) kb = Some (iv 20) /\
  frun val val keq (a_get keq ex_cat) ex_aops ka = Some (iv 5) /\
  frun val val keq (a_get keq ex_cat) ex_aops (ks [122]%Z) = None.
Proof.
  split; [|repeat split; vm_compute; reflexivity].
  apply (C03_every_history_refines_the_abstract_map val val keq keq_sym keq_trans). exact (distinctb_ok val val keq ex_cat eq_refl).
Qed.

Theorem C03_views_agree :
  forall (K V : Type) (keq : K -> K -> bool),
         (forall k : K, keq k k = true) ->
         (forall a b : K, keq a b = keq b a) ->
         forall m : list (K * V),
         wfm K V keq m -> forall (k : K) (v : V), In (k, v) m -> a_get keq m k = Some v.
Proof. exact C03_views. Qed.

(* non-vacuity: this theorem asks reflexivity of "==" for ALL keys, which holds for int keys (Z.eqb) but not for
   Go keys in general (NaN); see C03_views_agree_at_self_equal_keys for the pool's keys *)
Example C03_views_agree_example :
  (forall k : Z, Z.eqb k k = true) /\ (forall a b : Z, Z.eqb a b = Z.eqb b a) /\
  wfm Z Z Z.eqb [(1, 10); (2, 20)]%Z /\ a_get Z.eqb [(1, 10); (2, 20)]%Z 2%Z = Some 20%Z.
Proof.
  split; [exact Z.eqb_refl|]. split; [exact Z.eqb_sym|]. split; [apply (distinctb_ok Z Z Z.eqb); reflexivity|reflexivity].
Qed.

Theorem C03_views_agree_conv :
  forall (K V : Type) (keq : K -> K -> bool) (m : list (K * V)) (x : K) (v : V),
         a_get keq m x = Some v -> exists k : K, In (k, v) m /\ keq x k = true.
Proof. exact C03_views_conv. Qed.

Example C03_views_agree_conv_example :
  a_get keq ex_cat kb = Some (iv 2) /\ In (kb, iv 2) ex_cat /\ keq kb kb = true.
Proof. split; [vm_compute; reflexivity|]. split; [right; left; reflexivity|vm_compute; reflexivity]. Qed.

Theorem C03_set_existing_keeps_position :
  forall (K V : Type) (keq : K -> K -> bool) (m : list (K * V)) (k : K) (v : V),
         a_get keq m k <> None ->
         keys K V (a_set keq m k v) = keys K V m /\ length (a_set keq m k v) = length m.
Proof. exact a_set_present. Qed.

Example C03_set_existing_keeps_position_example :
  a_get keq ex_cat kb <> None /\ a_set keq ex_cat kb (iv 20) = [(ka, iv 1); (kb, iv 20); (kc, iv 3)].
Proof. split; [vm_compute; discriminate|vm_compute; reflexivity]. Qed.

Theorem C03_set_new_appends :
  forall (K V : Type) (keq : K -> K -> bool) (m : list (K * V)) (k : K) (v : V),
         a_get keq m k = None -> a_set keq m k v = m ++ [(k, v)].
Proof. exact a_set_absent. Qed.

Example C03_set_new_appends_example :
  a_get keq ex_cat kd = None /\ a_set keq ex_cat kd (iv 4) = ex_cat ++ [(kd, iv 4)].
Proof. split; vm_compute; reflexivity. Qed.

Theorem C03_remove_deletes_exactly_that :
  forall (K V : Type) (keq : K -> K -> bool) (m : list (K * V)) (k : K),
         wfm K V keq m ->
         a_get keq m k <> None ->
         exists (pre : list (K * V)) (k' : K) (v : V) (post : list (K * V)),
           m = pre ++ (k', v) :: post /\ keq k k' = true /\ a_remove keq m k = pre ++ post.
Proof. exact a_remove_present. Qed.

Example C03_remove_deletes_exactly_that_example :
  wfm val val keq ex_cat /\ a_get keq ex_cat kb <> None /\
  a_remove keq ex_cat kb = [(ka, iv 1); (kc, iv 3)] /\ a_get_or_zero (iv 0) keq ex_cat kb = iv 2.
Proof. split; [exact (distinctb_ok val val keq ex_cat eq_refl)|]. split; [vm_compute; discriminate|]. split; vm_compute; reflexivity. Qed.

Theorem C03_remove_absent_noop :
  forall (K V : Type) (keq : K -> K -> bool) (m : list (K * V)) (k : K),
         a_get keq m k = None -> a_remove keq m k = m.
Proof. exact a_remove_absent. Qed.

Example C03_remove_absent_noop_example :
  a_get keq ex_cat kd = None /\ a_remove keq ex_cat kd = ex_cat /\ a_get_or_zero (iv 0) keq ex_cat kd = iv 0.
Proof. repeat split; vm_compute; reflexivity. Qed.

Theorem C03_absent_reads_zero :
  forall (K V : Type) (vzero : V) (keq : K -> K -> bool) (m : list (K * V)) (k : K),
         a_get keq m k = None -> a_get_or_zero vzero keq m k = vzero.
Proof. exact a_get_or_zero_absent. Qed.

Example C03_absent_reads_zero_example :
  a_get keq ex_cat kd = None /\ a_get_or_zero (iv 0) keq ex_cat kd = iv 0.
Proof. split; vm_compute; reflexivity. Qed.

Theorem C03_lookup_after_set :
  forall (K V : Type) (keq : K -> K -> bool),
         (forall a b : K, keq a b = keq b a) ->
         (forall a b c : K, keq a b = true -> keq b c = true -> keq a c = true) ->
         forall (m : list (K * V)) (k : K) (v : V) (x : K),
         a_get keq (a_set keq m k v) x = (if keq x k then Some v else a_get keq m x).
Proof. exact a_get_set. Qed.

Example C03_lookup_after_set_example :
  (forall a b : val, keq a b = keq b a) /\
  (forall a b c : val, keq a b = true -> keq b c = true -> keq a c = true) /\
  a_get keq (a_set keq ex_cat kb (iv 20)) kb = Some (iv 20) /\ a_get keq (a_set keq ex_cat kb (iv 20)) kc = Some (iv 3).
Proof. split; [exact keq_sym|]. split; [exact keq_trans|]. split; vm_compute; reflexivity. Qed.

Theorem C03_lookup_after_remove :
  forall (K V : Type) (keq : K -> K -> bool),
         (forall a b : K, keq a b = keq b a) ->
         (forall a b c : K, keq a b = true -> keq b c = true -> keq a c = true) ->
         forall (m : list (K * V)) (k x : K),
         wfm K V keq m -> a_get keq (a_remove keq m k) x = (if keq x k then None else a_get keq m x).
Proof. exact a_get_remove. Qed.

Example C03_lookup_after_remove_example :
  wfm val val keq ex_cat /\ a_get keq (a_remove keq ex_cat kb) kb = None /\ a_get keq (a_remove keq ex_cat kb) kc = Some (iv 3).
Proof. split; [exact (distinctb_ok val val keq ex_cat eq_refl)|]. split; vm_compute; reflexivity. Qed.

Theorem C03_reorder_keeps_mapping :
  forall (K V : Type) (keq : K -> K -> bool),
         (forall a b : K, keq a b = keq b a) ->
         (forall a b c : K, keq a b = true -> keq b c = true -> keq a c = true) ->
         forall m m' : list (K * V),
         wfm K V keq m ->
         Permutation.Permutation m m' -> forall x : K, a_get keq m' x = a_get keq m x.
Proof. exact a_get_perm. Qed.

(* non-vacuity: the reversed catalog is a permutation; every lookup is unchanged *)
Example C03_reorder_keeps_mapping_example :
  wfm val val keq ex_cat /\ Permutation.Permutation ex_cat (rev ex_cat) /\
  (forall x : val, a_get keq (rev ex_cat) x = a_get keq ex_cat x).
Proof.
  split; [exact (distinctb_ok val val keq ex_cat eq_refl)|]. split; [apply Permutation.Permutation_rev|].
  apply (C03_reorder_keeps_mapping val val keq keq_sym keq_trans ex_cat (rev ex_cat) (distinctb_ok val val keq ex_cat eq_refl)).
  apply Permutation.Permutation_rev.
Qed.

Theorem C03_reorder_keeps_distinct :
  forall (K V : Type) (keq : K -> K -> bool),
         (forall a b : K, keq a b = keq b a) ->
         forall m m' : list (K * V), wfm K V keq m -> Permutation.Permutation m m' -> wfm K V keq m'.
Proof. exact wfm_perm. Qed.

Example C03_reorder_keeps_distinct_example :
  wfm val val keq ex_cat /\ Permutation.Permutation ex_cat (rev ex_cat) /\ wfm val val keq (rev ex_cat).
Proof.
  split; [exact (distinctb_ok val val keq ex_cat eq_refl)|]. split; [apply Permutation.Permutation_rev|].
  apply (C03_reorder_keeps_distinct val val keq keq_sym ex_cat (rev ex_cat) (distinctb_ok val val keq ex_cat eq_refl)). apply Permutation.Permutation_rev.
Qed.

Theorem C03_bulk_remove :
  forall (K V : Type) (vzero : V) (keq : K -> K -> bool),
         (forall a b : K, keq a b = keq b a) ->
         (forall a b c : K, keq a b = true -> keq b c = true -> keq a c = true) ->
         forall (ks : list K) (m : list (K * V)),
         wfm K V keq m ->
         wfm K V keq (snd (a_remove_all vzero keq m ks)) /\
         length (fst (a_remove_all vzero keq m ks)) = length ks /\
         (forall x : K,
          a_get keq (snd (a_remove_all vzero keq m ks)) x =
          (if existsb (keq x) ks then None else a_get keq m x)).
Proof. exact a_remove_all_spec. Qed.

(* non-vacuity: RemoveValues([c, z, a, c]) — an absent key (z) and a repeated key (c): zero values come out for them *)
Example C03_bulk_remove_example :
  wfm val val keq ex_cat /\
  a_remove_all (iv 0) keq ex_cat ex_req = ([iv 3; iv 0; iv 1; iv 0], [(kb, iv 2)]).
Proof. split; [exact (distinctb_ok val val keq ex_cat eq_refl)|vm_compute; reflexivity]. Qed.

Theorem C03_constructors_last_wins :
  forall (K V : Type) (keq : K -> K -> bool),
         (forall a b : K, keq a b = keq b a) ->
         (forall a b c : K, keq a b = true -> keq b c = true -> keq a c = true) ->
         forall (kvs m : list (K * V)) (x : K),
         a_get keq (a_set_all keq m kvs) x =
         match a_get keq (rev kvs) x with
         | Some v => Some v
         | None => a_get keq m x
         end.
Proof. exact a_set_all_get. Qed.

(* non-vacuity: MakeFromArray([a:1, b:2, a:7]): a keeps its first position and gets the last value *)
Example C03_constructors_last_wins_example :
  a_set_all keq [] [(ka, iv 1); (kb, iv 2); (ka, iv 7)] = [(ka, iv 7); (kb, iv 2)].
Proof. vm_compute; reflexivity. Qed.

Theorem C03_go_key_equality_is_symmetric :
  forall a b : val, keq a b = keq b a.
Proof. exact keq_sym. Qed.

(* reflexivity is NOT claimed: a NaN float64 key is not equal to itself (as in Go) *)
Example C03_go_key_equality_not_reflexive_on_nan :
  keq (VFloat 64 9221120237041090560) (VFloat 64 9221120237041090560) = false /\ keq (VFloat 64 0) (VFloat 64 0) = true.
Proof. split; vm_compute; reflexivity. Qed.

Theorem C03_go_key_equality_is_transitive :
  forall a b c : val, keq a b = true -> keq b c = true -> keq a c = true.
Proof. exact keq_trans. Qed.

Theorem C03_views_agree_at_self_equal_keys :
  forall (K V : Type) (keq : K -> K -> bool),
         (forall a b : K, keq a b = keq b a) ->
         forall m : list (K * V),
         wfm K V keq m ->
         forall (k : K) (v : V), In (k, v) m -> keq k k = true -> a_get keq m k = Some v.
Proof. exact views_agree_at. Qed.

Theorem C03_remove_returns_the_stored_value :
  forall (K V : Type) (vzero : V) (keq : K -> K -> bool) (m : list (K * V)) (k : K) (v : V),
         a_get keq m k = Some v -> a_get_or_zero vzero keq m k = v.
Proof. exact a_get_or_zero_present. Qed.

Theorem C03_bulk_remove_values_in_key_order :
  forall (K V : Type) (vzero : V) (keq : K -> K -> bool) (m : list (K * V)) 
           (k : K) (ks : list K),
         a_remove_all vzero keq m (k :: ks) =
         (a_get_or_zero vzero keq m k :: fst (a_remove_all vzero keq (a_remove keq m k) ks),
          snd (a_remove_all vzero keq (a_remove keq m k) ks)).
Proof. exact a_remove_all_cons. Qed.

Theorem C03_pool_keys_history_keeps_keys_distinct :
  forall (ops : list (aop val val)) (m : list (val * val)),
         wfm val val keq m -> wfm val val keq (arun val val keq m ops).
Proof. exact val_history_keeps_keys_distinct. Qed.

Theorem C03_pool_keys_history_refines_the_abstract_map :
  forall (ops : list (aop val val)) (m : list (val * val)),
         wfm val val keq m ->
         forall x : val, a_get keq (arun val val keq m ops) x = frun val val keq (a_get keq m) ops x.
Proof. exact val_history_refines_the_abstract_map. Qed.

Theorem C03_pool_catalog_operations :
  forall (zero : val) (p : list obj) (o : nat) (m : list (val * val)) (k v : val),
         o < length p ->
         get p o = OCat m ->
         nth o (fst (step zero p (Pool.ASet o k v))) ODead = OCat (a_set keq m k v) /\
         (nth o (fst (step zero p (Pool.ARemove o k))) ODead = OCat (a_remove keq m k) /\
          snd (step zero p (Pool.ARemove o k)) = RVal (a_get_or_zero zero keq m k)) /\
         snd (step zero p (AGet o k)) = RVal (a_get_or_zero zero keq m k) /\
         nth o (fst (step zero p (RemoveAll o))) ODead = OCat [] /\
         snd (step zero p (GetSize o)) = RInt (Z.of_nat (length m)) /\
         (forall okeys : list val, step zero p (AKeys o okeys) = (p ++ [OLst (map fst m)], RNew)) /\
         seq_plain (get p o) = Some (assoc_vals m).
Proof. exact pool_catalog_ops. Qed.

Theorem C03_pool_bulk_remove :
  forall (zero : val) (p : list obj) (o keys : nat) (ks : list val),
         o < length p ->
         seq_plain (get p keys) = Some ks ->
         (forall m : list (val * val),
          get p o = OCat m ->
          step zero p (ARemoveValues o keys) =
          (put p o (OCat (snd (a_remove_all zero keq m ks))) ++
           [OLst (fst (a_remove_all zero keq m ks))], RNew)) /\
         (forall m : list (val * val),
          get p o = OMap m ->
          step zero p (ARemoveValues o keys) =
          (put p o (OMap (snd (a_remove_all zero keq m ks))) ++
           [OArr (fst (a_remove_all zero keq m ks))], RNew)).
Proof. exact pool_remove_values. Qed.

Theorem C03_pool_constructors :
  forall (zero : val) (l : list val) (kvs : list (val * val)),
         vals_assoc l = Some kvs ->
         build zero CCatalog l = Ret (OCat (a_set_all keq [] kvs)) /\
         build zero CMap l = Ret (OMap (a_set_all keq [] kvs)) /\
         wfm val val keq (a_set_all keq [] kvs) /\
         (forall x : val, a_get keq (a_set_all keq [] kvs) x = a_get keq (rev kvs) x).
Proof. exact pool_assoc_constructors. Qed.

Theorem C03_sort_reverse_shuffle_keep_the_mapping :
  forall (zero : val) (p : list obj) (o : nat) (m : list (val * val)),
         o < length p ->
         get p o = OCat m ->
         wfm val val keq m ->
         (forall rk : nat,
          exists m' : list (val * val),
            nth o (fst (step zero p (SortWith o rk))) ODead = OCat m' /\
            Permutation.Permutation m' m /\
            wfm val val keq m' /\ (forall x : val, a_get keq m' x = a_get keq m x)) /\
         (exists m' : list (val * val),
            nth o (fst (step zero p (SortValues o))) ODead = OCat m' /\
            Permutation.Permutation m' m /\
            wfm val val keq m' /\ (forall x : val, a_get keq m' x = a_get keq m x)) /\
         (exists m' : list (val * val),
            nth o (fst (step zero p (ReverseValues o))) ODead = OCat m' /\
            m' = rev m /\ wfm val val keq m' /\ (forall x : val, a_get keq m' x = a_get keq m x)) /\
         (forall rs : list nat,
          exists m' : list (val * val),
            nth o (fst (step zero p (ShuffleValues o rs))) ODead = OCat m' /\
            Permutation.Permutation m' m /\
            wfm val val keq m' /\ (forall x : val, a_get keq m' x = a_get keq m x)).
Proof. exact catalog_reorder_keeps_mapping. Qed.

(* non-vacuity at pool level: a Catalog c:3 a:1 b:2 sorted with the default ranking, reversed and shuffled *)
Example C03_sort_reverse_shuffle_example :
  run (iv 0) [OCat [(kc, iv 3); (ka, iv 1); (kb, iv 2)]] [SortValues 0] = [OCat ex_cat] /\
  run (iv 0) [OCat ex_cat] [ReverseValues 0] = [OCat (rev ex_cat)] /\
  run (iv 0) [OCat ex_cat] [ShuffleValues 0 [2; 2; 0]] = [OCat [(kb, iv 2); (ka, iv 1); (kc, iv 3)]] /\
  wfm val val keq ex_cat.
Proof. split; [vm_compute; reflexivity|]. split; [vm_compute; reflexivity|]. split; [vm_compute; reflexivity|]. exact (distinctb_ok val val keq ex_cat eq_refl). Qed.


(* ====================================================================================================
   Round 3: the Catalog AS THE CODE HAS IT (CatalogImpl.v): a heap of mutable association objects, the
   ordered list of their ids (associations_) and the key index (keys_), the methods of catalog.go
   transcribed statement by statement.  [vinv zero h c] is the representation invariant (ids of the list
   pairwise distinct and allocated; keys_ a permutation of the (key of the object, id) pairs of the list;
   keys pairwise different under Go's "=="), [vabs zero h c] reads the list through the heap.  The key type
   and "==" are the pool's (Value.keq, symmetric and transitive by C03_go_key_equality_is_symmetric and _is_transitive), so these
   theorems have no hypothesis on the keys.
   ==================================================================================================== *)

(* every call of every history: the two-structure machine never panics or hangs, keeps its invariant, and
   produces the observations of the one-list machine, whose state is the abstraction of its own *)
Theorem C03_impl_every_step_refines_the_association_list :
  forall (zero : val) (h : heap val val) (c : cat val) (o : cop val val),
  vinv zero h c ->
  exists (h' : heap val val) (c' : cat val),
    cstep zero keq (h, c) o = Ret (h', c', snd (sstep zero keq (vabs zero h c) o)) /\
    vinv zero h' c' /\
    vabs zero h' c' = fst (sstep zero keq (vabs zero h c) o) /\
    vframe zero h c h' c'.
Proof. exact val_cstep_refines. Qed.

Theorem C03_impl_every_history_refines_the_association_list :
  forall (zero : val) (ops : list (cop val val)),
  exists (h : heap val val) (c : cat val),
    crun zero keq cinit ops = Ret (h, c, snd (srun zero keq [] ops)) /\
    vinv zero h c /\ vabs zero h c = fst (srun zero keq [] ops).
Proof. exact val_crun_from_empty. Qed.

(* non-vacuity: a:=1, b:=2, c:=3, b:=20 (repeated key), remove b (in the middle), b:=5 *)
Example C03_impl_every_history_example :
  crun (iv 0) keq cinit ex6 = Ret (ex6_heap, ex6_cat, [BUnit; BUnit; BUnit; BUnit; BVal (iv 20); BUnit]) /\
  srun (iv 0) keq [] ex6 = ([(ka, iv 1); (kc, iv 3); (kb, iv 5)], [BUnit; BUnit; BUnit; BUnit; BVal (iv 20); BUnit]) /\
  vabs (iv 0) ex6_heap ex6_cat = [(ka, iv 1); (kc, iv 3); (kb, iv 5)] /\
  ex6_heap = [(ka, iv 1); (kb, iv 20); (kc, iv 3); (kb, iv 5)] /\
  c_assocs ex6_cat = [0; 2; 3] /\ c_keys ex6_cat = [(ka, 0); (kc, 2); (kb, 3)].
Proof. repeat split; vm_compute; reflexivity. Qed.

(* C03, title clause: after ANY history GetKeys, AsArray, iteration, size, the index and GetValue on every
   key describe the same associations *)
Theorem C03_impl_index_and_order_agree :
  forall (zero : val) (ops : list (cop val val)) (h : heap val val) (c : cat val) (obs : list (cobs val val)),
  crun zero keq cinit ops = Ret (h, c, obs) ->
  vinv zero h c /\
  c_get_keys h c = Ret (map fst (vabs zero h c)) /\
  (exists (h' : heap val val) (arr : list id),
     c_as_array h c = Ret (h', arr) /\ read_all h' arr = Ret (vabs zero h c)) /\
  (exists (h' : heap val val) (it : iter id),
     c_get_iterator h c = Ret (h', it) /\ drain (S (it_size it)) h' it = Ret (vabs zero h c)) /\
  c_get_size c = length (vabs zero h c) /\
  length (c_keys c) = length (vabs zero h c) /\
  (forall k : val, c_get_value zero keq h c k = Ret (a_get_or_zero zero keq (vabs zero h c) k)) /\
  (forall k v : val, In (k, v) (vabs zero h c) -> keq k k = true -> c_get_value zero keq h c k = Ret v) /\
  (forall k : val, a_get keq (c_keys c) k = None <-> a_get keq (vabs zero h c) k = None) /\
  wfm val val keq (vabs zero h c).
Proof. exact val_index_and_order_agree. Qed.

Example C03_impl_index_and_order_agree_example :
  c_get_keys ex6_heap ex6_cat = Ret [ka; kc; kb] /\
  c_get_values (iv 0) keq ex6_heap ex6_cat [ka; kb; kc; kd] = Ret [iv 1; iv 5; iv 3; iv 0] /\
  cstep (iv 0) keq (ex6_heap, ex6_cat) CAsArray =
    Ret (ex6_heap ++ [(ka, iv 1); (kc, iv 3); (kb, iv 5)], ex6_cat, BPairs [(ka, iv 1); (kc, iv 3); (kb, iv 5)]) /\
  snd (srun (iv 0) keq [] (ex6 ++ [CIterate; CSize])) =
    [BUnit; BUnit; BUnit; BUnit; BVal (iv 20); BUnit; BPairs [(ka, iv 1); (kc, iv 3); (kb, iv 5)]; BSize 3] /\
  keq kb kb = true.
Proof. repeat split; vm_compute; reflexivity. Qed.

(* a handed-out array (or the snapshot behind an iterator) is not affected by anything done to the catalog
   later — the behaviour after fix 5269313 *)
Theorem C03_impl_snapshot_independent :
  forall (zero : val) (h : heap val val) (c : cat val),
  vinv zero h c ->
  forall (h2 : heap val val) (arr : list id),
  c_as_array h c = Ret (h2, arr) ->
  read_all h2 arr = Ret (vabs zero h c) /\
  (forall (ops : list (cop val val)) (h3 : heap val val) (c3 : cat val) (obs : list (cobs val val)),
   crun zero keq (h2, c) ops = Ret (h3, c3, obs) -> read_all h3 arr = Ret (vabs zero h c)).
Proof. exact val_snapshot_independent. Qed.

Example C03_impl_snapshot_independent_example :
  vinv (iv 0) ex6_heap ex6_cat /\
  c_as_array ex6_heap ex6_cat = Ret (ex6_heap ++ [(ka, iv 1); (kc, iv 3); (kb, iv 5)], [4; 5; 6]) /\
  (exists h3 c3 obs,
     crun (iv 0) keq (ex6_heap ++ [(ka, iv 1); (kc, iv 3); (kb, iv 5)], ex6_cat) [CSet ka (iv 9); CRemove kc; CReverse] = Ret (h3, c3, obs) /\
     vabs (iv 0) h3 c3 = [(kb, iv 5); (ka, iv 9)] /\
     read_all h3 [4; 5; 6] = Ret [(ka, iv 1); (kc, iv 3); (kb, iv 5)]).
Proof.
  split; [exact ex6_inv|]. split; [vm_compute; reflexivity|].
  eexists. eexists. eexists. split; [vm_compute; reflexivity|]. split; vm_compute; reflexivity.
Qed.

(* the code before fix 5269313 (AsArray returns the catalog's own association objects) violates it *)
Theorem C03_impl_snapshot_independent_refuted_before_fix :
  exists (zero : val) (h : heap val val) (c : cat val) (h2 : heap val val) (arr : list id)
         (ops : list (cop val val)) (h3 : heap val val) (c3 : cat val) (obs : list (cobs val val)),
    vinv zero h c /\ c_as_array_before_fix h c = Ret (h2, arr) /\ read_all h2 arr = Ret (vabs zero h c) /\
    crun zero keq (h2, c) ops = Ret (h3, c3, obs) /\ read_all h3 arr <> Ret (vabs zero h c).
Proof. exact snapshot_refuted_before_fix. Qed.

(* RemoveValue removes the association OF THE GIVEN KEY (located by identity), returns its value *)
Theorem C03_impl_remove_value :
  forall (zero : val) (h : heap val val) (c : cat val) (k : val),
  vinv zero h c ->
  exists c' : cat val,
    c_remove_value zero keq h c k = Ret (a_get_or_zero zero keq (vabs zero h c) k, c') /\
    vinv zero h c' /\
    vabs zero h c' = a_remove keq (vabs zero h c) k /\
    (forall i : id, In i (c_assocs c') -> In i (c_assocs c)).
Proof. exact val_remove_value_refines. Qed.

(* two distinct pointer keys of equal content, equal values: the repaired code removes the right one *)
Example C03_impl_remove_value_example :
  vinv (iv 0) ex_ptr_heap ex_ptr_cat /\ keq kp1 kp2 = false /\ assoc_seq (kp1, iv 5) (kp2, iv 5) = true /\
  c_remove_value (iv 0) keq ex_ptr_heap ex_ptr_cat kp2 = Ret (iv 5, {| c_assocs := [0]; c_keys := [(kp1, 0)] |}).
Proof. split; [exact ex_ptr_inv|]. repeat split; vm_compute; reflexivity. Qed.

(* the code before fix 0d7f9f0 (position found with the structural List.GetIndex) removes the entry of the
   OTHER key from the list and the requested key from the index: the structures diverge *)
Theorem C03_impl_remove_value_refuted_before_fix :
  exists (zero : val) (h : heap val val) (c : cat val) (k r : val) (c' : cat val),
    vinv zero h c /\ c_remove_value_before_fix zero keq assoc_seq h c k = Ret (r, c') /\
    vabs zero h c' <> a_remove keq (vabs zero h c) k /\
    c_get_keys h c' = Ret [k] /\ c_get_value zero keq h c' k = Ret zero /\ r <> zero /\
    ~ vinv zero h c'.
Proof. exact remove_refuted_before_fix. Qed.

(* SetValue: an existing key is written through its object (the list and the index are untouched), a new
   key allocates an object, appends it and indexes it; only the catalog's own cells are written *)
Theorem C03_impl_set_value :
  forall (zero : val) (h : heap val val) (c : cat val) (k v : val),
  vinv zero h c ->
  exists (h' : heap val val) (c' : cat val),
    c_set_value keq h c k v = Ret (h', c') /\
    vinv zero h' c' /\
    vabs zero h' c' = a_set keq (vabs zero h c) k v /\
    vframe zero h c h' c'.
Proof. exact val_set_value_refines. Qed.

Example C03_impl_set_value_example :
  c_set_value keq ex6_heap ex6_cat kc (iv 30) = Ret ([(ka, iv 1); (kb, iv 20); (kc, iv 30); (kb, iv 5)], ex6_cat) /\
  c_set_value keq ex6_heap ex6_cat kd (iv 4) =
    Ret (ex6_heap ++ [(kd, iv 4)], {| c_assocs := [0; 2; 3; 4]; c_keys := [(ka, 0); (kc, 2); (kb, 3); (kd, 4)] |}).
Proof. split; vm_compute; reflexivity. Qed.

(* class functions: a NEW catalog in its invariant whose contents are the abstract Merge / Extract /
   MakeFromMap; no existing heap cell is written, so the operands keep invariant and contents *)
Theorem C03_impl_merge :
  forall (zero : val) (h : heap val val) (a b : cat val),
  vinv zero h a -> vinv zero h b ->
  exists (h' : heap val val) (c' : cat val),
    c_merge keq h a b = Ret (h', c') /\
    vinv zero h' c' /\
    vabs zero h' c' = a_merge keq (vabs zero h a) (vabs zero h b) /\
    vsame zero h h'.
Proof. exact val_merge_refines. Qed.

Theorem C03_impl_extract :
  forall (zero : val) (h : heap val val) (c : cat val) (ks : list val),
  vinv zero h c ->
  exists (h' : heap val val) (c' : cat val),
    c_extract keq h c ks = Ret (h', c') /\
    vinv zero h' c' /\
    vabs zero h' c' = a_extract keq (vabs zero h c) ks /\
    vsame zero h h'.
Proof. exact val_extract_refines. Qed.

Theorem C03_impl_from_map :
  forall (zero : val) (h : heap val val) (m : list (val * val)),
  exists (h' : heap val val) (c' : cat val),
    c_from_map keq h m = Ret (h', c') /\
    vinv zero h' c' /\
    vabs zero h' c' = a_set_all keq [] m /\ vsame zero h h'.
Proof. exact val_from_map_refines. Qed.

(* MakeFromMap: the Go map's iteration order is an oracle (Pool.reorder); whatever it is, the pool's Catalog
   holds exactly the associations of the Go map (C14_from_map_exact is the same lemma), and the code-shaped
   MakeFromMap fed with the entries in that order lists exactly them *)
Theorem C03_from_map_exact :
  forall (zero : val) (p : pool) (src : nat) (okeys : list val) (m m' : list (val * val)),
  get p src = OGoMap m -> wfm val val keq m -> reorder m okeys = Some m' ->
  step zero p (FromMap CCatalog src okeys) = (p ++ [OCat m'], RNew) /\
  step zero p (FromMap CMap src okeys) = (p ++ [OMap m'], RNew) /\
  (forall x : val, a_get keq m' x = a_get keq m x) /\
  wfm val val keq m' /\ length m' = length m /\
  (exists m'' : list (val * val), Permutation.Permutation m m'' /\ Forall2 same_assoc m'' m') /\
  (spelled_as_stored m okeys -> Permutation.Permutation m m').
Proof. exact from_map_exact. Qed.

Theorem C03_impl_from_map_in_oracle_order :
  forall (zero : val) (h : heap val val) (okeys : list val) (m m' : list (val * val)),
  wfm val val keq m -> reorder m okeys = Some m' ->
  exists (h' : heap val val) (c' : cat val),
    c_from_map keq h m' = Ret (h', c') /\ vinv zero h' c' /\ vabs zero h' c' = m' /\ vsame zero h h'.
Proof. exact from_map_oracle. Qed.

Example C03_impl_class_functions_example :
  (exists h' c', c_merge keq ex6_heap ex6_cat ex6_cat = Ret (h', c') /\ vabs (iv 0) h' c' = [(ka, iv 1); (kc, iv 3); (kb, iv 5)] /\
                 vabs (iv 0) h' ex6_cat = [(ka, iv 1); (kc, iv 3); (kb, iv 5)]) /\
  (exists h' c', c_extract keq ex6_heap ex6_cat [kb; kd; ka; kb] = Ret (h', c') /\ vabs (iv 0) h' c' = [(kb, iv 5); (ka, iv 1)]) /\
  (exists h' c', c_from_map keq ex6_heap [(kc, iv 1); (ka, iv 2); (kc, iv 3)] = Ret (h', c') /\ vabs (iv 0) h' c' = [(kc, iv 3); (ka, iv 2)]).
Proof.
  split; [|split]; eexists; eexists; (split; [vm_compute; reflexivity|]); repeat split; vm_compute; reflexivity.
Qed.

Print Assumptions C03_keys_stay_distinct.
Print Assumptions C03_every_history_refines_the_abstract_map.
Print Assumptions C03_views_agree.
Print Assumptions C03_views_agree_conv.
Print Assumptions C03_set_existing_keeps_position.
Print Assumptions C03_set_new_appends.
Print Assumptions C03_remove_deletes_exactly_that.
Print Assumptions C03_remove_absent_noop.
Print Assumptions C03_absent_reads_zero.
Print Assumptions C03_lookup_after_set.
Print Assumptions C03_lookup_after_remove.
Print Assumptions C03_reorder_keeps_mapping.
Print Assumptions C03_reorder_keeps_distinct.
Print Assumptions C03_bulk_remove.
Print Assumptions C03_constructors_last_wins.
Print Assumptions C03_go_key_equality_is_symmetric.
Print Assumptions C03_go_key_equality_is_transitive.
Print Assumptions C03_views_agree_at_self_equal_keys.
Print Assumptions C03_remove_returns_the_stored_value.
Print Assumptions C03_bulk_remove_values_in_key_order.
Print Assumptions C03_pool_keys_history_keeps_keys_distinct.
Print Assumptions C03_pool_keys_history_refines_the_abstract_map.
Print Assumptions C03_pool_catalog_operations.
Print Assumptions C03_pool_bulk_remove.
Print Assumptions C03_pool_constructors.
Print Assumptions C03_sort_reverse_shuffle_keep_the_mapping.
Print Assumptions C03_impl_every_step_refines_the_association_list.
Print Assumptions C03_impl_every_history_refines_the_association_list.
Print Assumptions C03_impl_index_and_order_agree.
Print Assumptions C03_impl_snapshot_independent.
Print Assumptions C03_impl_snapshot_independent_refuted_before_fix.
Print Assumptions C03_impl_remove_value.
Print Assumptions C03_impl_remove_value_refuted_before_fix.
Print Assumptions C03_impl_set_value.
Print Assumptions C03_impl_merge.
Print Assumptions C03_impl_extract.
Print Assumptions C03_impl_from_map.
Print Assumptions C03_from_map_exact.
Print Assumptions C03_impl_from_map_in_oracle_order.
