(* PipesSplit.v — the Split program family: global invariant, preservation by every micro-step. *)
From Verif Require Import Base Conc Pipes PipesGen PipesRoles PipesFork.
Close Scope Z_scope.
Open Scope nat_scope.

Record split_inv (vs : list Z) (k cap : nat) (c : config) : Prop := {
  si_nt : length (threads c) = k + 3;
  si_nq : length (queues c) = S k;
  si_cap : forall q, q <= k -> qcap (getq c q) = cap;
  si_h : exists D, splith_ok vs k (gett c 0) (qpop (getq c 0)) (qclosed (getq c 0)) (view_app c) (view_cl c) D;
  si_f : feeder_ok vs (gett c 1) (qapp (getq c 0)) (qclosed (getq c 0));
  si_c : forall j, 1 <= j <= k ->
         consumer_ok j (gett c (S j)) (qpop (getq c j)) (qclosed (getq c j)) (qtok (getq c j));
  si_w : waiter_ok (gett c (k + 2));
  si_ch : forall q, q <= k -> chan c q (fP q) (fR q);
  si_wg : wg_inv c
}.

Section SplitShape.
Variables (vs : list Z) (k cap : nat).
Hypothesis Hk : 1 <= k.

Let c0 := split_prog vs k cap.

Lemma split_init_getq q : q <= k -> getq c0 q = mkq cap.
Proof. intros H. unfold getq, c0, split_prog; cbv beta iota delta [queues]. apply nth_repeat_lt. lia. Qed.

Lemma split_init_consumer j : 1 <= j <= k -> gett c0 (S j) = consumer j.
Proof.
  intros H. unfold gett, c0, split_prog; simpl threads. destruct j as [|j]; [lia|].
  change (nth (S (S j)) (split_helper 0 (outs k) :: feeder vs :: map consumer (outs k) ++ [waiter]) dummyt)
    with (nth j (map consumer (outs k) ++ [waiter]) dummyt).
  replace j with (S j - 1) at 1 by lia. now apply nth_consumers.
Qed.

Lemma split_init_waiter : gett c0 (k + 2) = waiter.
Proof.
  unfold gett, c0, split_prog; simpl threads. replace (k + 2) with (S (S k)) by lia.
  change (nth (S (S k)) (split_helper 0 (outs k) :: feeder vs :: map consumer (outs k) ++ [waiter]) dummyt)
    with (nth k (map consumer (outs k) ++ [waiter]) dummyt).
  apply nth_after_consumers.
Qed.

Lemma split_init : split_inv vs k cap c0.
Proof.
  constructor.
  - unfold c0, split_prog, outs; simpl. rewrite app_length, map_length, seq_length. simpl. lia.
  - unfold c0, split_prog; simpl. now rewrite repeat_length.
  - intros q Hq. now rewrite split_init_getq.
  - rewrite split_init_getq by lia. simpl.
    exists []. apply HS_idle with 0; simpl; auto.
    + symmetry. apply Nat.mod_0_l. lia.
    + intros j Hj. unfold view_app. now rewrite split_init_getq by lia.
    + intros j Hj. unfold view_cl. now rewrite split_init_getq by lia.
  - rewrite split_init_getq by lia. simpl. apply feeder_init.
  - intros j Hj. rewrite split_init_getq, split_init_consumer by lia. simpl. apply consumer_init.
  - rewrite split_init_waiter. apply waiter_init.
  - intros q Hq. apply chan_init.
    + rewrite split_init_getq by lia. reflexivity.
    + destruct q; reflexivity.
    + destruct q as [|q]; [reflexivity|]. unfold fR. now rewrite split_init_consumer by lia.
  - unfold wg_inv, c0, split_prog. simpl. rewrite map_app, list_sum_app, sum_dones_consumers.
    unfold dones at 1. simpl. now rewrite ndone_feeder.
Qed.

(* ---------- footprints ---------- *)
Lemma split_fp c : split_inv vs k cap c ->
  fp_all c fP fR /\ (forall t kk q, opof (gett c t) = Some (kk, q) -> q <= k).
Proof.
  intros I.
  assert (H : forall t kk q, opof (gett c t) = Some (kk, q) ->
     q <= k /\ match kk with
      | KAdd | KClose => t = fP q /\ qclosed (getq c q) = false
      | KSend => t = fP q
      | KTake | KPop => t = fR q
      | KRemAll | KDisc => False
      end).
  { intros t kk q Hop.
    destruct (Nat.eq_dec t 0) as [->|H0].
    { destruct (si_h _ _ _ _ I) as [D HD].
      destruct (splith_ops _ _ _ _ _ _ _ _ _ _ Hk HD Hop) as [(-> & [->| ->])|(Hq & Hkk & Hcl)].
      - split; [lia|reflexivity].
      - split; [lia|reflexivity].
      - split; [lia|]. unfold view_cl in Hcl. destruct q; [lia|].
        destruct Hkk as [->|[->| ->]]; simpl; auto. }
    destruct (Nat.eq_dec t 1) as [->|H1].
    { destruct (feeder_ops _ _ _ _ _ _ (si_f _ _ _ _ I) Hop) as (-> & Hcl & Hkk).
      split; [lia|]. destruct Hkk as [->|[->| ->]]; simpl; auto. }
    destruct (Nat.le_gt_cases t (S k)) as [Hle|Hgt].
    { assert (Hj : 1 <= t - 1 <= k) by lia.
      pose proof (si_c _ _ _ _ I (t - 1) Hj) as Hc. replace (S (t - 1)) with t in Hc by lia.
      destruct (consumer_ops _ _ _ _ _ _ _ Hc Hop) as (-> & Hkk).
      split; [lia|]. destruct (t - 1) eqn:E; [lia|].
      destruct Hkk as [->| ->]; simpl; lia. }
    destruct (Nat.eq_dec t (k + 2)) as [->|H2].
    { destruct (waiter_ops _ _ _ (si_w _ _ _ _ I) Hop). }
    rewrite gett_out in Hop by (rewrite (si_nt _ _ _ _ I); lia). discriminate. }
  split.
  - intros t kk q Hop. now apply H.
  - intros t kk q Hop. now apply (H t kk q).
Qed.

(* ---------- preservation ---------- *)
Lemma split_step c t c' : split_inv vs k cap c -> step c t = Some c' -> split_inv vs k cap c'.
Proof.
  intros I Hstep. destruct (split_fp c I) as [Hfp Hrange].
  destruct (step_effect _ _ _ Hstep) as (Hnt & Hnq & Hother & _).
  assert (Hns : tph (gett c' t) <> PStuck).
  { apply step_nostuck with (c := c) (P := fP) (R := fR); auto.
    intros kk q Hop. split; [apply (si_ch _ _ _ _ I); eauto|now apply fp_all_on]. }
  pose proof (si_nq _ _ _ _ I) as Hlenq.
  constructor.
  - rewrite Hnt. apply (si_nt _ _ _ _ I).
  - now rewrite Hnq.
  - intros q Hq. rewrite (step_qcap _ _ _ _ Hstep). now apply (si_cap _ _ _ _ I).
  - (* helper *)
    destruct (Nat.eq_dec t 0) as [->|Hn].
    + destruct (si_h _ _ _ _ I) as [D HD].
      destruct (splith_step vs k c 0 c' D) as (D' & _ & HD'); auto; try lia.
      * intros Hph. apply drained_input with 1 0; auto. apply (si_f _ _ _ _ I).
        apply (si_ch _ _ _ _ I 0). lia.
      * now exists D'.
    + rewrite Hother by auto. destruct (si_h _ _ _ _ I) as [D HD]. exists D.
      apply splith_frame with (qpop (getq c 0)) (qclosed (getq c 0)) (view_app c) (view_cl c).
      * exact HD.
      * apply eff_not_consumer with t fP fR; auto.
      * apply step_closed_mono with t; auto.
      * intros j Hj. unfold view_app, view_cl. apply eff_not_producer with t fP fR; auto.
        destruct j; simpl; lia.
  - (* feeder *)
    destruct (Nat.eq_dec t 1) as [->|Hn].
    + apply feeder_step with c; auto; try lia. apply (si_f _ _ _ _ I).
    + rewrite Hother by auto.
      destruct (eff_not_producer c t c' fP fR 0 Hstep Hfp) as [-> ->]; auto.
      apply (si_f _ _ _ _ I).
  - (* readers *)
    intros j Hj. destruct (Nat.eq_dec t (S j)) as [->|Hn].
    + apply consumer_step with c; auto; try lia. now apply (si_c _ _ _ _ I).
    + rewrite Hother by auto.
      apply consumer_frame with (qpop (getq c j)) (qclosed (getq c j)) (qtok (getq c j)).
      * now apply (si_c _ _ _ _ I).
      * apply eff_not_consumer with t fP fR; auto. destruct j; simpl; lia.
      * intros Hcl. rewrite (eff_closed_stable c t c' fP fR j); auto.
        apply (si_ch _ _ _ _ I). lia. destruct j; simpl; lia.
  - (* waiter *)
    destruct (Nat.eq_dec t (k + 2)) as [->|Hn].
    + apply waiter_step with c; auto. apply (si_w _ _ _ _ I).
    + rewrite Hother by auto. apply (si_w _ _ _ _ I).
  - intros q Hq. apply chan_step with c t; auto.
    + now apply (si_ch _ _ _ _ I).
    + destruct q; simpl; lia.
    + lia.
    + now apply fp_all_on.
  - apply wg_step with c t; auto. apply (si_wg _ _ _ _ I).
Qed.

Theorem split_reachable sched : split_inv vs k cap (run c0 sched).
Proof.
  apply run_invariant with (I := split_inv vs k cap).
  - intros c t c'. apply split_step.
  - apply split_init.
Qed.

End SplitShape.
