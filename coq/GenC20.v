(* GenC20.v — LATE file of C20 (compiled by ./check C20 after the correspondence run, not in the common build):
   the universal constructors REGENERATED from v4/Module.go (GenModule.v, by tools/gomodule), given their meaning
   by the interpreter of ModuleSem.v, ARE the hand-written model Facade.v — for every constructor, every pair of
   element types and every argument list (by case analysis over the argument shapes and induction over the
   lists, not by evaluation on samples).  Then the headline theorems of C20.v restated for [run_ctor]. *)
From Coq Require Import String.
From Verif Require Import Base Sorter Value Seq Coll Pool PoolRun Params SetProofs AssocProofs Facade FacadeProofs ModuleLang ModuleSem ModuleFacts GenModule.
Open Scope Z_scope.
Open Scope list_scope.

(* ---------- generic: a loop of the interpreter simulates a fold of the model ---------- *)
Fixpoint fold_model {St} (model : St -> arg -> option St) (s : St) (args : list arg) : option St :=
  match args with
  | [] => Some s
  | a :: r => match model s a with Some s' => fold_model model s' r | None => None end
  end.

Lemma assign_is_fold : forall k args s, assign k s args = fold_model (accept k) s args.
Proof. intros k. induction args as [|a r IH]; intros s; cbn; [reflexivity|]. destruct (accept k s a); [apply IH|reflexivity]. Qed.

Section LoopSim.
Variables (St : Type) (envf : St -> list mval -> menv) (model : St -> arg -> option St) (ok : arg -> Prop) (K : nat).
Variable step : arg -> menv -> mres.
Hypothesis step_sim : forall s scr a, ok a -> length scr = K ->
  exists scr', length scr' = K /\
    step a (envf s scr) = match model s a with Some s' => RNormal (envf s' scr') | None => RPanic end.

Lemma loop_sim : forall args s scr, Forall ok args -> length scr = K ->
  match fold_model model s args with
  | Some s' => exists scr', length scr' = K /\ fold_loop step args (envf s scr) = RNormal (envf s' scr')
  | None => fold_loop step args (envf s scr) = RPanic
  end.
Proof.
  induction args as [|a r IH]; intros s scr F L; cbn [fold_model fold_loop].
  - exists scr. split; [exact L|reflexivity].
  - inversion_clear F as [|? ? Ha Hr]. destruct (step_sim s scr a Ha L) as (scr' & L' & E). rewrite E.
    destruct (model s a) as [s'|]; [|reflexivity]. apply (IH s' scr' Hr L').
Qed.
End LoopSim.

Tactic Notation "explode" ident(scr) integer(n) :=
  do n (let x := fresh "x" in destruct scr as [|x scr]; [discriminate|]); destruct scr; [|discriminate].


(* the arguments the model is about: sizes are not negative *)
Definition size_ok (a : arg) : Prop := match a with AInt z | AUint z => 0 <= z | _ => True end.

Definition opt_slice (o : option (list val)) : mval := match o with Some l => MArgV (ASlice l) | None => MNone end.
Definition opt_seq (o : option (list val)) : mval := match o with Some l => MArgV (ASeq KList l) | None => MNone end.
Definition src_of (s : slots) : mval := MArgV (AString (s_text s) (s_parsed s)).

(* ====================================================================================================== *)
(* Stack                                                                                                    *)
(* ====================================================================================================== *)
Definition env_stack (s : slots) (scr : list mval) : menv :=
  [MArgV ANotation; MZ (s_size s); MB (s_has_size s); opt_slice (s_values s); opt_seq (s_seq s); src_of s] ++ scr.

Definition loop_body (g : gen_ctor) : list mstmt :=
  match filter (fun s => match s with SArgLoop _ => true | _ => false end) (g_body g) with
  | [SArgLoop b] => b
  | _ => []
  end.

Lemma stack_step : forall args0 tk tv f s scr a, size_ok a -> length scr = 8%nat ->
  exists scr', length scr' = 8%nat /\
    exec args0 (10 + f) (with_argument (ctx0 tk tv) a) (env_stack s scr) (loop_body gen_Stack) =
    match accept FStack s a with Some s' => RNormal (env_stack s' scr') | None => RPanic end.
Proof.
  intros args0 tk tv f s scr a Ha L. explode scr 8.
  destruct a; try (destruct z as [|p|p]; [| |exfalso; cbn in Ha; lia]);
    first [ eexists; split; [|lazy; reflexivity]; reflexivity
          | exists (repeat MNone 8%nat); split; [reflexivity|vm_compute; reflexivity] ].
Qed.

Definition pre_body (g : gen_ctor) : list mstmt :=
  (fix go (ss : list mstmt) := match ss with [] => [] | SArgLoop _ :: _ => [] | s :: r => s :: go r end) (g_body g).
Definition post_body (g : gen_ctor) : list mstmt :=
  (fix go (ss : list mstmt) := match ss with [] => [] | SArgLoop _ :: r => r | _ :: r => go r end) (g_body g).

Definition iter_body (ss : list mstmt) : list mstmt :=
  match ss with [] => [] | _ => ss end.
Fixpoint find_iter (fuel : nat) (ss : list mstmt) : list (list mstmt) :=
  match fuel with
  | O => []
  | S f => flat_map (fun s => match s with
                              | SIterLoop _ b => [b]
                              | SSwitch cases dflt => flat_map (fun cb => find_iter f (snd cb)) cases ++ match dflt with Some b => find_iter f b | None => [] end
                              | SIf _ a b => find_iter f a ++ find_iter f b
                              | _ => []
                              end) ss
  end.
Definition iter_body_of (g : gen_ctor) (k : nat) : list mstmt := nth k (find_iter 6 (post_body g)) [].

Ltac norm_body :=
  repeat match goal with
  | |- context [iter_body_of ?g ?k] => let b := eval vm_compute in (iter_body_of g k) in change (iter_body_of g k) with b
  | |- context [post_body ?g] => let b := eval vm_compute in (post_body g) in change (post_body g) with b
  | |- context [pre_body ?g] => let b := eval vm_compute in (pre_body g) in change (pre_body g) with b
  | |- context [loop_body ?g] => let b := eval vm_compute in (loop_body g) in change (loop_body g) with b
  end.

(* one statement: the head statement is evaluated with the executor for nested blocks kept abstract *)
Ltac xstep :=
  rewrite exec_cons;
  match goal with
  | |- context [exec1 ?a ?r ?c ?e ?s] =>
    let R := fresh "R" in let HR := fresh "HR" in
    remember r as R eqn:HR;
    let v := eval lazy in (exec1 a R c e s) in change (exec1 a R c e s) with v;
    rewrite HR; clear HR R
  end; cbv beta iota.


Local Opaque as_type.

(* the conversion loop of the source branch of Stack:
   for iterator.HasNext() { var value = asType[V](iterator.GetNext()); values = append(values, value) } *)
Lemma stack_fill : forall args0 tk tv f (step : val -> menv -> mres) items,
  (forall x e, step x e = exec args0 (3 + f) (with_item (ctx0 tk tv) (MVal x)) e (iter_body_of gen_Stack 0)) ->
  forall acc e0 e1 e2 e4 e5 e6 e7 e8 e9 e10 e11 e12 e13,
  fold_loop step items [e0; e1; e2; MArgV (ASlice acc); e4; e5; e6; e7; e8; e9; e10; e11; e12; e13] =
  match convert_all tv items with
  | Some vs => RNormal [e0; e1; e2; MArgV (ASlice (acc ++ vs)); e4; e5; e6; e7; e8; e9; e10; e11; e12; last_or e13 vs]
  | None => RPanic
  end.
Proof.
  intros args0 tk tv f step items Hstep. induction items as [|x r IH]; intros.
  - cbn [fold_loop convert_all last_or rev]. rewrite app_nil_r. reflexivity.
  - cbn [fold_loop convert_all]. rewrite Hstep. cbn [plus]. norm_body. xstep.
    destruct (as_type tv x) as [v|]; [|reflexivity]. xstep. cbn [exec].
    rewrite IH. destruct (convert_all tv r) as [vs|]; [|reflexivity].
    rewrite <- app_assoc, last_or_cons. reflexivity.
Qed.


Local Opaque class_ctor.
Ltac fin :=
  lazy;
  repeat match goal with
         | |- context [match class_ctor ?k ?t ?f with _ => _ end] => destruct (class_ctor k t f)
         end;
  reflexivity.
Ltac seq_cases pv :=
  destruct pv;
  match goal with
  | |- context [PColl (VSeq ?k _)] =>
    destruct k; match goal with |- context [VSeq KSlice] => solve [fin] | |- _ => idtac end
  | |- _ => solve [fin]
  end.
Ltac slots_tree sz vals sq txt prs :=
  destruct sz as [|?p|?p]; [ | solve [fin] | ];
  (destruct vals as [[|?v ?l]|]; [ | solve [fin] | ];
   (destruct sq as [?l|]; [solve [fin]|];
    (destruct txt as [|?ch ?t]; [solve [fin]|];
     (destruct prs as [?pv|]; [|solve [fin]]; seq_cases pv)))).

Lemma stack_post : forall args0 tk tv f s scr, length scr = 8%nat ->
  result_of (exec args0 (30 + f) (ctx0 tk tv) (env_stack s scr) (post_body gen_Stack)) =
  out_map FO (out_map FObj (finish_stack tv s)).
Proof.
  intros args0 tk tv f s scr L. explode scr 8. destruct s as [sz hs vals sq txt prs cl asc mp asq].
  unfold env_stack, src_of, opt_slice, opt_seq. cbn [s_size s_has_size s_values s_seq s_text s_parsed app]. norm_body.
  destruct hs; slots_tree sz vals sq txt prs.
  all: cbn [plus].
  all: timeout 20 xstep.
  all: timeout 20 xstep.
  all: timeout 20 xstep.
  all: timeout 20 xstep.
  all: timeout 20 xstep.
  all: timeout 20 xstep.
  all: timeout 10 (erewrite (stack_fill args0 tk tv _ _ l (fun x e => eq_refl))).
  all: timeout 10 (unfold finish_stack, source_values).
  all: timeout 10 (cbn [s_size s_has_size s_values s_seq s_text s_parsed has_text nonempty parsed_items]).
  all: timeout 10 (destruct (convert_all tv l) as [vs|]); [|solve [timeout 10 fin]].
  all: timeout 20 fin.
  Unshelve. all: try exact O. all: try exact []. 
Qed.



(* the whole constructor: declarations, the loop over the arguments (a simulation of Facade.assign), the cascade *)
Ltac ctor_main g k envf K stepl postl :=
  intros tk tv args Hok; unfold run_ctor, exec_fuel;
  let b := eval vm_compute in (g_body g) in change (g_body g) with b;
  let n := eval vm_compute in (g_locals g) in change (g_locals g) with n;
  cbn [repeat];
  repeat (lazymatch goal with |- context [exec _ _ _ _ (SArgLoop _ :: _)] => fail | |- _ => xstep end);
  rewrite exec_cons; cbn [exec1];
  match goal with
  | |- context [fold_loop ?st args ?e] =>
    let H := fresh "H" in
    pose proof (loop_sim slots envf (accept k) size_ok K st
                  (fun s scr a Ha L => stepl args tk tv _ s scr a Ha L) args slots0 (repeat MNone K) Hok eq_refl) as H;
    change e with (envf slots0 (repeat MNone K));
    unfold facade; rewrite assign_is_fold;
    destruct (fold_model (accept k) slots0 args) as [s'|];
    [ destruct H as (scr' & L' & E); rewrite E; cbv beta iota; apply (postl args tk tv _ s' scr' L')
    | rewrite H; reflexivity ]
  end.

Theorem gen_Stack_is_the_model : forall tk tv args, Forall size_ok args ->
  run_ctor gen_Stack tk tv args = out_map FO (facade FStack tk tv args).
Proof. ctor_main gen_Stack FStack env_stack 8%nat stack_step stack_post. Qed.

(* ====================================================================================================== *)
(* Queue                                                                                                    *)
(* ====================================================================================================== *)
Definition env_queue (s : slots) (scr : list mval) : menv :=
  [MArgV ANotation; MZ (s_size s); opt_slice (s_values s); opt_seq (s_seq s); src_of s] ++ scr.

Ltac step_tac scr a Ha n K :=
  destruct a; try (match goal with z : Z |- _ => destruct z as [|?p|?p]; [| |exfalso; cbn in Ha; lia] end);
    first [ eexists; split; [|lazy; reflexivity]; reflexivity
          | exists (repeat MNone K); split; [reflexivity|vm_compute; reflexivity] ].

Lemma queue_step : forall args0 tk tv f s scr a, size_ok a -> length scr = 8%nat ->
  exists scr', length scr' = 8%nat /\
    exec args0 (10 + f) (with_argument (ctx0 tk tv) a) (env_queue s scr) (loop_body gen_Queue) =
    match accept FQueue s a with Some s' => RNormal (env_queue s' scr') | None => RPanic end.
Proof. intros args0 tk tv f s scr a Ha L. explode scr 8. step_tac scr a Ha 8 8%nat. Qed.

Lemma queue_fill : forall args0 tk tv f (step : val -> menv -> mres) items,
  (forall x e, step x e = exec args0 (3 + f) (with_item (ctx0 tk tv) (MVal x)) e (iter_body_of gen_Queue 0)) ->
  forall acc e0 e1 e3 e4 e5 e6 e7 e8 e9 e10 e11 e12,
  fold_loop step items [e0; e1; MArgV (ASlice acc); e3; e4; e5; e6; e7; e8; e9; e10; e11; e12] =
  match convert_all tv items with
  | Some vs => RNormal [e0; e1; MArgV (ASlice (acc ++ vs)); e3; e4; e5; e6; e7; e8; e9; e10; e11; last_or e12 vs]
  | None => RPanic
  end.
Proof.
  intros args0 tk tv f step items Hstep. induction items as [|x r IH]; intros.
  - cbn [fold_loop convert_all last_or rev]. rewrite app_nil_r. reflexivity.
  - cbn [fold_loop convert_all]. rewrite Hstep. cbn [plus]. norm_body. xstep.
    destruct (as_type tv x) as [v|]; [|reflexivity]. xstep. cbn [exec].
    rewrite IH. destruct (convert_all tv r) as [vs|]; [|reflexivity].
    rewrite <- app_assoc, last_or_cons. reflexivity.
Qed.

Lemma queue_post : forall args0 tk tv f s scr, length scr = 8%nat ->
  result_of (exec args0 (30 + f) (ctx0 tk tv) (env_queue s scr) (post_body gen_Queue)) =
  out_map FO (out_map FObj (finish_queue tv s)).
Proof.
  intros args0 tk tv f s scr L. explode scr 8. destruct s as [sz hs vals sq txt prs cl asc mp asq].
  unfold env_queue, src_of, opt_slice, opt_seq. cbn [s_size s_has_size s_values s_seq s_text s_parsed app]. norm_body.
  slots_tree sz vals sq txt prs.
  all: cbn [plus].
  all: timeout 20 xstep. all: timeout 20 xstep. all: timeout 20 xstep.
  all: timeout 20 xstep. all: timeout 20 xstep. all: timeout 20 xstep.
  all: timeout 20 (erewrite (queue_fill args0 tk tv _ _ l (fun x e => eq_refl))).
  all: timeout 10 (unfold finish_queue, source_values).
  all: timeout 10 (cbn [s_size s_has_size s_values s_seq s_text s_parsed has_text nonempty parsed_items]).
  all: timeout 10 (destruct (convert_all tv l) as [vs|]); [|solve [timeout 10 fin]].
  all: timeout 20 fin.
  Unshelve. all: try exact O. all: try exact [].
Qed.

Theorem gen_Queue_is_the_model : forall tk tv args, Forall size_ok args ->
  run_ctor gen_Queue tk tv args = out_map FO (facade FQueue tk tv args).
Proof. ctor_main gen_Queue FQueue env_queue 8%nat queue_step queue_post. Qed.

(* ====================================================================================================== *)
(* Association                                                                                              *)
(* ====================================================================================================== *)
(* the arguments of an association call as the correspondence encodes them: notations, plain values, foreign *)
Definition assoc_arg (a : arg) : Prop := match a with ANotation | AVal _ | AOther => True | _ => False end.

Definition astate := (option val * option val)%type.
Definition astep (tk tv : ety) (st : astate) (a : arg) : option astate :=
  let '(key, value) := st in
  match a with
  | ANotation => Some st
  | _ =>
    match arg_val a with
    | None => None
    | Some x =>
      if has_ty tk x then
        match key, value with
        | Some _, None => if has_ty tv x then Some (key, Some x) else Some (Some x, value)
        | _, _ => Some (Some x, value)
        end
      else if has_ty tv x then Some (key, Some x)
      else None
    end
  end.

Lemma assoc_loop_is_fold : forall tk tv args key value,
  assoc_loop tk tv key value args = fold_model (astep tk tv) (key, value) args.
Proof.
  intros tk tv. induction args as [|a r IH]; intros key value; [reflexivity|].
  destruct a; cbn [assoc_loop fold_model astep arg_val]; try apply IH; try reflexivity;
    repeat match goal with
           | |- context [if ?c then _ else _] => destruct c
           | |- context [match ?o with Some _ => _ | None => _ end] => destruct o
           end; try apply IH; reflexivity.
Qed.

Definition env_assoc (tk tv : ety) (st : astate) (scr : list mval) : menv :=
  [MArgV ANotation;
   MVal (match fst st with Some x => x | None => zero_of tk end);
   MVal (match snd st with Some x => x | None => zero_of tv end);
   MB (match fst st with Some _ => true | None => false end);
   MB (match snd st with Some _ => true | None => false end)] ++ scr.

Local Opaque has_ty is_nil zero_of.

Ltac rw_has :=
  match goal with H : has_ty _ _ = _ |- _ => rewrite H end.
Ltac crunch :=
  repeat first [ rw_has | progress cbv beta iota | rewrite exec_nil | progress (unfold unbreak) | timeout 10 xstep ].
Lemma assoc_step : forall args0 tk tv f st scr a, assoc_arg a -> length scr = 7%nat ->
  exists scr', length scr' = 7%nat /\
    exec args0 (12 + f) (with_argument (ctx0 tk tv) a) (env_assoc tk tv st scr) (loop_body gen_Association) =
    match astep tk tv st a with Some st' => RNormal (env_assoc tk tv st' scr') | None => RPanic end.
Proof.
  intros args0 tk tv f st scr a Ha L. explode scr 7. destruct st as [[k|] [v|]]; destruct a; cbn [assoc_arg] in Ha; try contradiction.
  all: cbn [astep arg_val plus]; norm_body.
  all: repeat match goal with |- context [has_ty ?t ?w] => let E := fresh "E" in destruct (has_ty t w) eqn:E end.
  all: unfold env_assoc; cbn [fst snd app].
  all: first [ eexists; split; [|timeout 60 crunch; reflexivity]; reflexivity
             | exists (repeat MNone 7%nat); split; [reflexivity|timeout 60 crunch; reflexivity]
             | idtac ].
Qed.

Ltac rw_nil := match goal with H : is_nil _ = _ |- _ => rewrite H end.
Ltac crunch_nil :=
  repeat first [ rw_nil | progress cbv beta iota | rewrite exec_nil | progress (unfold unbreak) | timeout 10 xstep ].

Definition assoc_finish (tk tv : ety) (st : astate) : out fres :=
  let k := match fst st with Some x => x | None => zero_of tk end in
  let v := match snd st with Some x => x | None => zero_of tv end in
  if is_nil k || is_nil v then Panic else Ret (FAssoc k v).

Lemma assoc_post : forall args0 tk tv f st scr, length scr = 7%nat ->
  result_of (exec args0 (12 + f) (ctx0 tk tv) (env_assoc tk tv st scr) (post_body gen_Association)) =
  out_map FO (assoc_finish tk tv st).
Proof.
  intros args0 tk tv f st scr L. explode scr 7. destruct st as [[k|] [v|]].
  all: unfold env_assoc, assoc_finish; cbn [fst snd app plus]; norm_body.
  all: match goal with |- context [is_nil ?a || is_nil ?b] => destruct (is_nil a) eqn:N1; destruct (is_nil b) eqn:N2 end.
  all: timeout 60 crunch_nil; reflexivity.
Qed.

Theorem gen_Association_is_the_model : forall tk tv args, Forall assoc_arg args ->
  run_ctor gen_Association tk tv args = out_map FO (facade FAssociation tk tv args).
Proof.
  intros tk tv args Hok; unfold run_ctor, exec_fuel.
  let b := eval vm_compute in (g_body gen_Association) in change (g_body gen_Association) with b.
  let n := eval vm_compute in (g_locals gen_Association) in change (g_locals gen_Association) with n.
  cbn [repeat].
  repeat (lazymatch goal with |- context [exec _ _ _ _ (SArgLoop _ :: _)] => fail | |- _ => xstep end).
  rewrite exec_cons; cbn [exec1].
  match goal with
  | |- context [fold_loop ?st args ?e] =>
    pose proof (loop_sim astate (env_assoc tk tv) (astep tk tv) assoc_arg 7%nat st
                  (fun s scr a Ha L => assoc_step args tk tv _ s scr a Ha L) args (None, None) (repeat MNone 7%nat) Hok eq_refl) as H;
    change e with (env_assoc tk tv (None, None) (repeat MNone 7%nat))
  end.
  unfold facade, association. rewrite assoc_loop_is_fold.
  destruct (fold_model (astep tk tv) (None, None) args) as [[key value]|].
  - destruct H as (scr' & L' & E). rewrite E. cbv beta iota. apply (assoc_post args tk tv _ (key, value) scr' L').
  - rewrite H. reflexivity.
Qed.

(* ====================================================================================================== *)
(* the headline theorems of C20.v restated for the REGENERATED constructors                                 *)
(* ====================================================================================================== *)
Definition gen_of (k : fkind) : gen_ctor :=
  match k with
  | FAssociation => gen_Association | FArray => gen_Array | FCatalog => gen_Catalog | FList => gen_List
  | FMap => gen_Map | FQueue => gen_Queue | FSet => gen_Set | FStack => gen_Stack
  end.
Definition proved_kind (k : fkind) : Prop := k = FStack \/ k = FQueue.

Lemma with_notation_ok : forall (P : arg -> Prop) pos args, P ANotation -> Forall P args -> Forall P (with_notation pos args).
Proof.
  intros P pos args Hn F. destruct pos as [|[|pos]]; cbn [with_notation]; [exact F|constructor; assumption|].
  apply Forall_app. split; [exact F|constructor; [exact Hn|constructor]].
Qed.

Theorem gen_is_the_model : forall k tk tv args, proved_kind k -> Forall size_ok args ->
  run_ctor (gen_of k) tk tv args = out_map FO (facade k tk tv args).
Proof.
  intros k tk tv args [-> | ->] F; [apply gen_Stack_is_the_model|apply gen_Queue_is_the_model]; exact F.
Qed.

Theorem C20_gen_notation_is_transparent : forall k tk tv pos args, proved_kind k -> Forall size_ok args ->
  run_ctor (gen_of k) tk tv (with_notation pos args) = run_ctor (gen_of k) tk tv args.
Proof.
  intros k tk tv pos args Hk F. rewrite !(gen_is_the_model k tk tv _ Hk); [|exact F|apply with_notation_ok; [exact I|exact F]].
  rewrite facade_notation_transparent. reflexivity.
Qed.

Theorem C20_gen_association_notation_is_transparent : forall tk tv pos args, Forall assoc_arg args ->
  run_ctor gen_Association tk tv (with_notation pos args) = run_ctor gen_Association tk tv args.
Proof.
  intros tk tv pos args F. rewrite !gen_Association_is_the_model; [|exact F|apply with_notation_ok; [exact I|exact F]].
  rewrite facade_notation_transparent. reflexivity.
Qed.

Theorem C20_gen_association_key_value : forall tk tv k v pos, has_ty tk k = true -> has_ty tv v = true ->
  run_ctor gen_Association tk tv (with_notation pos [AVal k; AVal v]) = Ret (FO (FAssoc k v)).
Proof.
  intros tk tv k v pos Hk Hv. rewrite gen_Association_is_the_model.
  - rewrite (assoc_kv tk tv k v pos Hk Hv). reflexivity.
  - apply with_notation_ok; [exact I|]. repeat constructor.
Qed.

Theorem C20_gen_no_data_is_Make : forall k tk tv, proved_kind k ->
  run_ctor (gen_of k) tk tv [] = out_map FO (out_map FObj (class_ctor k tv CMake)).
Proof.
  intros k tk tv Hk. rewrite (gen_is_the_model k tk tv [] Hk (Forall_nil _)).
  destruct Hk as [-> | ->]; reflexivity.
Qed.

Theorem C20_gen_size_or_capacity : forall k tk tv n pos (as_int : bool), proved_kind k -> 0 <= n ->
  run_ctor (gen_of k) tk tv (with_notation pos [if as_int then AInt n else AUint n]) =
  out_map FO (out_map FObj (class_ctor k tv (CSize (Z.to_nat n)))).
Proof.
  intros k tk tv n pos as_int Hk Hn. rewrite (gen_is_the_model k tk tv _ Hk).
  - rewrite facade_agrees_size; [reflexivity| |exact Hn]. destruct Hk as [-> | ->]; unfold is_sized_kind; auto.
  - apply with_notation_ok; [exact I|]. constructor; [destruct as_int; exact Hn|constructor].
Qed.

Theorem C20_gen_go_array : forall k tk tv vs pos, proved_kind k ->
  run_ctor (gen_of k) tk tv (with_notation pos [ASlice vs]) = out_map FO (out_map FObj (class_ctor k tv (CFromArray vs))).
Proof.
  intros k tk tv vs pos Hk. rewrite (gen_is_the_model k tk tv _ Hk).
  - rewrite facade_agrees_slice; [reflexivity|]. destruct Hk as [-> | ->]; unfold is_seq_kind; auto.
  - apply with_notation_ok; [exact I|]. repeat constructor.
Qed.

Theorem C20_gen_sequence : forall k tk tv sk vs pos, proved_kind k ->
  run_ctor (gen_of k) tk tv (with_notation pos [ASeq sk vs]) = out_map FO (out_map FObj (class_ctor k tv (CFromSeq vs))).
Proof.
  intros k tk tv sk vs pos Hk. rewrite (gen_is_the_model k tk tv _ Hk).
  - rewrite facade_agrees_sequence; [reflexivity|]. destruct Hk as [-> | ->]; unfold is_seq_kind; auto.
  - apply with_notation_ok; [exact I|]. repeat constructor.
Qed.

(* the source form: what the parser itself builds from the items (kind, contents, order, capacity) *)
Theorem C20_gen_source_is_the_class_constructor_on_the_parsed_items : forall k tk tv text sk items pos,
  proved_kind k -> text <> [] -> sk <> KSlice -> convert_all tv items = Some items ->
  run_ctor (gen_of k) tk tv (with_notation pos [AString text (PColl (VSeq sk items))]) =
  out_map FO (out_map FObj (class_ctor k tv (CFromSeq items))).
Proof.
  intros k tk tv text sk items pos Hk Ht Hsk Hc. rewrite (gen_is_the_model k tk tv _ Hk).
  - rewrite facade_source_sequence; [reflexivity| |exact Ht|exact Hsk|exact Hc]. destruct Hk as [-> | ->]; unfold is_seq_kind; auto.
  - apply with_notation_ok; [exact I|]. repeat constructor.
Qed.

(* ---------- the remaining constructors: not yet proved for every argument list ---------- *)
(* Array, Catalog, List, Map, Set: the regenerated constructor and the model are compared BY EVALUATION on a
   fixed family of argument lists (every argument form alone, with a notation before / after, pairs of forms in
   both orders, sources of every parsed kind with a well- and an ill-typed item) — a weaker obligation than the
   theorems above, kept until their simulation proofs are written. *)
Definition sv (z : Z) : val := VInt 64 z.
Definition sample_forms : list arg :=
  [ANotation; AInt 0; AInt 3; AUint 0; AUint 2; ASlice []; ASlice [sv 2; sv 1; sv 2]; ASeq KList []; ASeq KSet [sv 1; sv 5];
   AGoMap [] []; AGoMap [(sv 1, sv 10); (sv 2, sv 20)] [sv 2; sv 1]; AAssocSlice []; AAssocSlice [(sv 1, sv 10); (sv 1, sv 11)];
   AAssocSeq [(sv 3, sv 30); (sv 1, sv 10)] []; ACollator 1; ACollator 0; AVal (sv 7); AOther;
   AString [] PPanic; AString [65] PPanic; AString [65] (PColl (VSeq KList [sv 3; sv 1; sv 3]));
   AString [65] (PColl (VSeq KSet [sv 1; VStr [66]])); AString [65] (PColl (VSeq KSlice [sv 1]));
   AString [65] (PColl (VMapping MCatalog [sv 1; sv 2; sv 1] [sv 10; sv 20; sv 30]));
   AString [65] (PColl (VMapping MMap [sv 1; VNil] [sv 10; sv 20])); AString [65] (PColl (VSeq KQueue [VNil; sv 1]))].
Definition sample_calls : list (list arg) :=
  [[]] ++ map (fun a => [a]) sample_forms ++ map (fun a => [ANotation; a]) sample_forms ++ map (fun a => [a; ANotation]) sample_forms
  ++ flat_map (fun a => map (fun b => [a; b]) sample_forms) sample_forms.
Definition out_fobj_eqb (a : out fobj) (b : out fres) : bool :=
  match a, b with
  | Ret (FO (FObj x)), Ret (FObj y) => obj_eqb x y
  | Ret (FO (FAssoc k v)), Ret (FAssoc k' v') => val_eqb k k' && val_eqb v v'
  | Panic, Panic => true
  | Hang, Hang => true
  | _, _ => false
  end.
Definition sample_agree (k : fkind) (tk tv : ety) : bool :=
  forallb (fun args => out_fobj_eqb (run_ctor (gen_of k) tk tv args) (facade k tk tv args)) sample_calls.

Lemma gen_remaining_agree_on_samples_partial :
  forallb (fun k => sample_agree k TInt64 TInt64 && sample_agree k TAny TAny) [FArray; FCatalog; FList; FMap; FSet] = true.
Proof. vm_compute. reflexivity. Qed.

(* every case type of the regenerated type switches is one the interpreter gives a meaning to *)
Lemma gen_case_types_known : forallb known_case_type (flat_map (fun g => case_types 10 (g_body g)) gen_ctors) = true.
Proof. vm_compute. reflexivity. Qed.

(* no statement or expression of the regenerated constructors is outside the language *)
Fixpoint has_unknown (fuel : nat) (ss : list mstmt) : bool :=
  match fuel with
  | O => true
  | S f => existsb (fun s => match s with
                             | SUnknown _ => true
                             | SIf _ a b => has_unknown f a || has_unknown f b
                             | SSwitch cases d => existsb (fun cb => has_unknown f (snd cb)) cases || match d with Some b => has_unknown f b | None => false end
                             | STypeSwitch cases d => existsb (fun cb => has_unknown f (snd cb)) cases || match d with Some b => has_unknown f b | None => false end
                             | SArgLoop b | SIterLoop _ b | SRange _ _ b => has_unknown f b
                             | _ => false
                             end) ss
  end.
Lemma gen_no_unknown_statement : existsb (fun g => has_unknown 10 (g_body g)) gen_ctors = false.
Proof. vm_compute. reflexivity. Qed.

Print Assumptions gen_Association_is_the_model.
Print Assumptions gen_Stack_is_the_model.
Print Assumptions gen_Queue_is_the_model.
Print Assumptions C20_gen_association_key_value.
Print Assumptions C20_gen_notation_is_transparent.
Print Assumptions C20_gen_size_or_capacity.
Print Assumptions C20_gen_source_is_the_class_constructor_on_the_parsed_items.
Print Assumptions gen_remaining_agree_on_samples_partial.
Print Assumptions gen_case_types_known.
