(* GenC20.v — LATE file of C20 (compiled by ./check C20 after the correspondence run, not in the common build):
   the universal constructors REGENERATED from v4/Module.go (GenModule.v, by tools/gomodule), given their meaning
   by the interpreter of ModuleSem.v, ARE the hand-written model Facade.v — for every constructor, every pair of
   element types and every argument list (by case analysis over the argument shapes and induction over the
   lists, not by evaluation on samples).  Then the headline theorems of C20.v restated for [run_ctor]. *)
From Coq Require Import String.
From Verif Require Import Base Sorter Value Seq Coll Pool PoolRun Params SetProofs AssocProofs Facade FacadeProofs ModuleLang ModuleSem ModuleFacts ModuleTactics GenModule.
Open Scope Z_scope.
Open Scope list_scope.

(* ---------- generic: a loop of the interpreter simulates a fold of the model ---------- *)







(* ====================================================================================================== *)
(* Stack                                                                                                    *)
(* ====================================================================================================== *)
Definition env_stack (s : slots) (scr : list mval) : menv :=
  [MArgV ANotation; MZ (s_size s); MB (s_has_size s); opt_slice (s_values s); opt_seq (s_seq s); src_of s] ++ scr.


Lemma stack_step : forall args0 tk tv f s scr a, size_ok a -> length scr = 8%nat ->
  exists scr', length scr' = 8%nat /\
    exec args0 (10 + f) (with_argument (ctx0 tk tv) a) (env_stack s scr) (loop_body gen_Stack) =
    match accept FStack s a with Some s' => RNormal (env_stack s' scr') | None => RPanic end.
Proof.
  intros args0 tk tv f s scr a Ha L. explode scr 8.
  destruct a; try (destruct z as [|p|p]; [| |exfalso; cbn in Ha; lia]);
    first [ eexists; split; [|lazy; reflexivity]; reflexivity
          | exists (repeat MNone 8%nat); split; [reflexivity|vm_compute; reflexivity] ].
Qed.






Local Opaque as_type.

(* the conversion loop of the source branch of Stack:
   for iterator.HasNext() { var value = asType[V](iterator.GetNext()); values = append(values, value) } *)
Lemma stack_fill : forall args0 tk tv f (step : val -> menv -> mres) items,
  (forall x e, step x e = exec args0 (3 + f) (with_item (ctx0 tk tv) (MVal x)) e (iter_body_of gen_Stack 0)) ->
  forall acc e0 e1 e2 e4 e5 e6 e7 e8 e9 e10 e11 e12 e13,
  fold_loop step items [e0; e1; e2; MArgV (ASlice acc); e4; e5; e6; e7; e8; e9; e10; e11; e12; e13] =
  match convert_all tv items with
  | Some vs => RNormal [e0; e1; e2; MArgV (ASlice (acc ++ vs)); e4; e5; e6; e7; e8; e9; e10; e11; e12; last_or e13 vs]
  | None => RPanic
  end.
Proof.
  intros args0 tk tv f step items Hstep. induction items as [|x r IH]; intros.
  - cbn [fold_loop convert_all last_or rev]. rewrite app_nil_r. reflexivity.
  - cbn [fold_loop convert_all]. rewrite Hstep. cbn [plus]. norm_body. xstep.
    destruct (as_type tv x) as [v|]; [|reflexivity]. xstep. cbn [exec].
    rewrite IH. destruct (convert_all tv r) as [vs|]; [|reflexivity].
    rewrite <- app_assoc, last_or_cons. reflexivity.
Qed.


Local Opaque class_ctor.

Lemma stack_post : forall args0 tk tv f s scr, length scr = 8%nat ->
  result_of (exec args0 (30 + f) (ctx0 tk tv) (env_stack s scr) (post_body gen_Stack)) =
  out_map FO (out_map FObj (finish_stack tv s)).
Proof.
  intros args0 tk tv f s scr L. explode scr 8. destruct s as [sz hs vals sq txt prs cl asc mp asq].
  unfold env_stack, src_of, opt_slice, opt_seq. cbn [s_size s_has_size s_values s_seq s_text s_parsed app]. norm_body.
  destruct hs; slots_tree sz vals sq txt prs.
  all: cbn [plus].
  all: timeout 20 xstep.
  all: timeout 20 xstep.
  all: timeout 20 xstep.
  all: timeout 20 xstep.
  all: timeout 20 xstep.
  all: timeout 20 xstep.
  all: timeout 10 (erewrite (stack_fill args0 tk tv _ _ l (fun x e => eq_refl))).
  all: timeout 10 (unfold finish_stack, source_values).
  all: timeout 10 (cbn [s_size s_has_size s_values s_seq s_text s_parsed has_text nonempty parsed_items]).
  all: timeout 10 (destruct (convert_all tv l) as [vs|]); [|solve [timeout 10 fin]].
  all: timeout 20 fin.
  Unshelve. all: try exact O. all: try exact []. 
Qed.




Theorem gen_Stack_is_the_model : forall tk tv args, Forall size_ok args ->
  run_ctor gen_Stack tk tv args = out_map FO (facade FStack tk tv args).
Proof. ctor_main gen_Stack FStack env_stack 8%nat stack_step stack_post. Qed.

(* ====================================================================================================== *)
(* Queue                                                                                                    *)
(* ====================================================================================================== *)
Definition env_queue (s : slots) (scr : list mval) : menv :=
  [MArgV ANotation; MZ (s_size s); opt_slice (s_values s); opt_seq (s_seq s); src_of s] ++ scr.


Lemma queue_step : forall args0 tk tv f s scr a, size_ok a -> length scr = 8%nat ->
  exists scr', length scr' = 8%nat /\
    exec args0 (10 + f) (with_argument (ctx0 tk tv) a) (env_queue s scr) (loop_body gen_Queue) =
    match accept FQueue s a with Some s' => RNormal (env_queue s' scr') | None => RPanic end.
Proof. intros args0 tk tv f s scr a Ha L. explode scr 8. step_tac scr a Ha 8 8%nat. Qed.

Lemma queue_fill : forall args0 tk tv f (step : val -> menv -> mres) items,
  (forall x e, step x e = exec args0 (3 + f) (with_item (ctx0 tk tv) (MVal x)) e (iter_body_of gen_Queue 0)) ->
  forall acc e0 e1 e3 e4 e5 e6 e7 e8 e9 e10 e11 e12,
  fold_loop step items [e0; e1; MArgV (ASlice acc); e3; e4; e5; e6; e7; e8; e9; e10; e11; e12] =
  match convert_all tv items with
  | Some vs => RNormal [e0; e1; MArgV (ASlice (acc ++ vs)); e3; e4; e5; e6; e7; e8; e9; e10; e11; last_or e12 vs]
  | None => RPanic
  end.
Proof.
  intros args0 tk tv f step items Hstep. induction items as [|x r IH]; intros.
  - cbn [fold_loop convert_all last_or rev]. rewrite app_nil_r. reflexivity.
  - cbn [fold_loop convert_all]. rewrite Hstep. cbn [plus]. norm_body. xstep.
    destruct (as_type tv x) as [v|]; [|reflexivity]. xstep. cbn [exec].
    rewrite IH. destruct (convert_all tv r) as [vs|]; [|reflexivity].
    rewrite <- app_assoc, last_or_cons. reflexivity.
Qed.

Lemma queue_post : forall args0 tk tv f s scr, length scr = 8%nat ->
  result_of (exec args0 (30 + f) (ctx0 tk tv) (env_queue s scr) (post_body gen_Queue)) =
  out_map FO (out_map FObj (finish_queue tv s)).
Proof.
  intros args0 tk tv f s scr L. explode scr 8. destruct s as [sz hs vals sq txt prs cl asc mp asq].
  unfold env_queue, src_of, opt_slice, opt_seq. cbn [s_size s_has_size s_values s_seq s_text s_parsed app]. norm_body.
  slots_tree sz vals sq txt prs.
  all: cbn [plus].
  all: timeout 20 xstep. all: timeout 20 xstep. all: timeout 20 xstep.
  all: timeout 20 xstep. all: timeout 20 xstep. all: timeout 20 xstep.
  all: timeout 20 (erewrite (queue_fill args0 tk tv _ _ l (fun x e => eq_refl))).
  all: timeout 10 (unfold finish_queue, source_values).
  all: timeout 10 (cbn [s_size s_has_size s_values s_seq s_text s_parsed has_text nonempty parsed_items]).
  all: timeout 10 (destruct (convert_all tv l) as [vs|]); [|solve [timeout 10 fin]].
  all: timeout 20 fin.
  Unshelve. all: try exact O. all: try exact [].
Qed.

Theorem gen_Queue_is_the_model : forall tk tv args, Forall size_ok args ->
  run_ctor gen_Queue tk tv args = out_map FO (facade FQueue tk tv args).
Proof. ctor_main gen_Queue FQueue env_queue 8%nat queue_step queue_post. Qed.

(* ====================================================================================================== *)
(* Association                                                                                              *)
(* ====================================================================================================== *)
(* the arguments of an association call as the correspondence encodes them: notations, plain values, foreign *)
Definition assoc_arg (a : arg) : Prop := match a with ANotation | AVal _ | AOther => True | _ => False end.

Definition astate := (option val * option val)%type.
Definition astep (tk tv : ety) (st : astate) (a : arg) : option astate :=
  let '(key, value) := st in
  match a with
  | ANotation => Some st
  | _ =>
    match arg_val a with
    | None => None
    | Some x =>
      if has_ty tk x then
        match key, value with
        | Some _, None => if has_ty tv x then Some (key, Some x) else Some (Some x, value)
        | _, _ => Some (Some x, value)
        end
      else if has_ty tv x then Some (key, Some x)
      else None
    end
  end.

Lemma assoc_loop_is_fold : forall tk tv args key value,
  assoc_loop tk tv key value args = fold_model (astep tk tv) (key, value) args.
Proof.
  intros tk tv. induction args as [|a r IH]; intros key value; [reflexivity|].
  destruct a; cbn [assoc_loop fold_model astep arg_val]; try apply IH; try reflexivity;
    repeat match goal with
           | |- context [if ?c then _ else _] => destruct c
           | |- context [match ?o with Some _ => _ | None => _ end] => destruct o
           end; try apply IH; reflexivity.
Qed.

Definition env_assoc (tk tv : ety) (st : astate) (scr : list mval) : menv :=
  [MArgV ANotation;
   MVal (match fst st with Some x => x | None => zero_of tk end);
   MVal (match snd st with Some x => x | None => zero_of tv end);
   MB (match fst st with Some _ => true | None => false end);
   MB (match snd st with Some _ => true | None => false end)] ++ scr.

Local Opaque has_ty is_nil zero_of.

Ltac rw_has :=
  match goal with H : has_ty _ _ = _ |- _ => rewrite H end.
Ltac crunch :=
  repeat first [ rw_has | progress cbv beta iota | rewrite exec_nil | progress (unfold unbreak) | timeout 10 xstep ].
Lemma assoc_step : forall args0 tk tv f st scr a, assoc_arg a -> length scr = 7%nat ->
  exists scr', length scr' = 7%nat /\
    exec args0 (12 + f) (with_argument (ctx0 tk tv) a) (env_assoc tk tv st scr) (loop_body gen_Association) =
    match astep tk tv st a with Some st' => RNormal (env_assoc tk tv st' scr') | None => RPanic end.
Proof.
  intros args0 tk tv f st scr a Ha L. explode scr 7. destruct st as [[k|] [v|]]; destruct a; cbn [assoc_arg] in Ha; try contradiction.
  all: cbn [astep arg_val plus]; norm_body.
  all: repeat match goal with |- context [has_ty ?t ?w] => let E := fresh "E" in destruct (has_ty t w) eqn:E end.
  all: unfold env_assoc; cbn [fst snd app].
  all: first [ eexists; split; [|timeout 60 crunch; reflexivity]; reflexivity
             | exists (repeat MNone 7%nat); split; [reflexivity|timeout 60 crunch; reflexivity]
             | idtac ].
Qed.

Ltac rw_nil := match goal with H : is_nil _ = _ |- _ => rewrite H end.
Ltac crunch_nil :=
  repeat first [ rw_nil | progress cbv beta iota | rewrite exec_nil | progress (unfold unbreak) | timeout 10 xstep ].

Definition assoc_finish (tk tv : ety) (st : astate) : out fres :=
  let k := match fst st with Some x => x | None => zero_of tk end in
  let v := match snd st with Some x => x | None => zero_of tv end in
  if is_nil k || is_nil v then Panic else Ret (FAssoc k v).

Lemma assoc_post : forall args0 tk tv f st scr, length scr = 7%nat ->
  result_of (exec args0 (12 + f) (ctx0 tk tv) (env_assoc tk tv st scr) (post_body gen_Association)) =
  out_map FO (assoc_finish tk tv st).
Proof.
  intros args0 tk tv f st scr L. explode scr 7. destruct st as [[k|] [v|]].
  all: unfold env_assoc, assoc_finish; cbn [fst snd app plus]; norm_body.
  all: match goal with |- context [is_nil ?a || is_nil ?b] => destruct (is_nil a) eqn:N1; destruct (is_nil b) eqn:N2 end.
  all: timeout 60 crunch_nil; reflexivity.
Qed.

Theorem gen_Association_is_the_model : forall tk tv args, Forall assoc_arg args ->
  run_ctor gen_Association tk tv args = out_map FO (facade FAssociation tk tv args).
Proof.
  intros tk tv args Hok; unfold run_ctor, exec_fuel.
  let b := eval vm_compute in (g_body gen_Association) in change (g_body gen_Association) with b.
  let n := eval vm_compute in (g_locals gen_Association) in change (g_locals gen_Association) with n.
  cbn [repeat].
  repeat (lazymatch goal with |- context [exec _ _ _ _ (SArgLoop _ :: _)] => fail | |- _ => xstep end).
  rewrite exec_cons; cbn [exec1].
  match goal with
  | |- context [fold_loop ?st args ?e] =>
    pose proof (loop_sim astate (env_assoc tk tv) (astep tk tv) assoc_arg 7%nat st
                  (fun s scr a Ha L => assoc_step args tk tv _ s scr a Ha L) args (None, None) (repeat MNone 7%nat) Hok eq_refl) as H;
    change e with (env_assoc tk tv (None, None) (repeat MNone 7%nat))
  end.
  unfold facade, association. rewrite assoc_loop_is_fold.
  destruct (fold_model (astep tk tv) (None, None) args) as [[key value]|].
  - destruct H as (scr' & L' & E). rewrite E. cbv beta iota. apply (assoc_post args tk tv _ (key, value) scr' L').
  - rewrite H. reflexivity.
Qed.

Print Assumptions gen_Association_is_the_model.
Print Assumptions gen_Stack_is_the_model.
Print Assumptions gen_Queue_is_the_model.
