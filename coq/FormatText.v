(* FormatText.v — the literal texts the formatter writes are inside the scanner's token
   languages: float (under the oracle hypothesis on the shape of Go's %G text), rune, string. *)
From Coq Require Import String Ascii.
From Verif Require Import Base Value Formatter FormatSpec.
Open Scope Z_scope.

(* ================= floats ================= *)
Lemma digit_not_dot c : digit c = true -> (c =? 46) = false.
Proof. unfold digit. intros H. apply andb_true_iff in H as [H1 H2]. apply Z.leb_le in H1. apply Z.eqb_neq. lia. Qed.
Lemma digit_not_E c : digit c = true -> (c =? 69) = false.
Proof. unfold digit. intros H. apply andb_true_iff in H as [H1 H2]. apply Z.leb_le in H2. apply Z.eqb_neq. lia. Qed.
Lemma digit_not_sign c : digit c = true -> is_sign c = false.
Proof.
  unfold digit, is_sign. intros H. apply andb_true_iff in H as [H1 H2]. apply Z.leb_le in H1.
  apply orb_false_iff. split; apply Z.eqb_neq; lia.
Qed.
Lemma digit19_digit c : digit19 c = true -> digit c = true.
Proof.
  unfold digit19, digit. intros H. apply andb_true_iff in H as [H1 H2].
  apply Z.leb_le in H1. apply Z.leb_le in H2. apply andb_true_iff. split; apply Z.leb_le; lia.
Qed.

Lemma int_part_digits ip : int_part_ok ip = true -> forallb digit ip = true.
Proof.
  destruct ip as [|d [|e r]]; simpl; intros H; try discriminate.
  - rewrite H. reflexivity.
  - apply andb_true_iff in H as [H1 H2]. rewrite (digit19_digit _ H1). exact H2.
Qed.
Lemma int_part_nonempty ip : int_part_ok ip = true -> ip <> [].
Proof. destruct ip; simpl; [discriminate|intros _ E; discriminate]. Qed.

Lemma span_digits_all ds rest :
  forallb digit ds = true -> (match rest with c :: _ => digit c = false | [] => True end) ->
  span_digits (ds ++ rest) = (ds, rest).
Proof.
  induction ds as [|d r IH]; simpl; intros Hd Hr.
  - destruct rest as [|c t]; [reflexivity|]. simpl. rewrite Hr. reflexivity.
  - apply andb_true_iff in Hd as [H1 H2]. rewrite H1, (IH H2 Hr). reflexivity.
Qed.

Lemma zmem_app c a b : zmem c (a ++ b) = zmem c a || zmem c b.
Proof. unfold zmem. apply existsb_app. Qed.
Lemma zmem_cons c d r : zmem c (d :: r) = (c =? d) || zmem c r.
Proof. reflexivity. Qed.
Lemma zmem_digits_dot ds : forallb digit ds = true -> zmem 46 ds = false.
Proof.
  induction ds as [|d r IH]; [reflexivity|]. intros H. cbn [forallb] in H.
  apply andb_true_iff in H as [H1 H2].
  rewrite zmem_cons, (IH H2), orb_false_r. rewrite Z.eqb_sym. apply digit_not_dot, H1.
Qed.

(* cut_dot splits at the first dot *)
Lemma cut_dot_spec m : forall ip fp, cut_dot m = (ip, fp) ->
  m = ip ++ match fp with Some f => 46 :: f | None => [] end.
Proof.
  induction m as [|c r IH]; simpl; intros ip fp H.
  - inversion H; reflexivity.
  - destruct (c =? 46) eqn:E.
    + inversion H; subst. apply Z.eqb_eq in E. subst. reflexivity.
    + destruct (cut_dot r) as [m' e'] eqn:E2. inversion H; subst. simpl. f_equal. apply IH. reflexivity.
Qed.

Lemma trim_zeros_digits ds : forallb digit ds = true -> forallb digit (trim_zeros ds) = true.
Proof.
  induction ds as [|d r IH]; simpl; [reflexivity|]. intros H. pose proof H as H'.
  apply andb_true_iff in H as [H1 H2]. destruct (d =? 48); [apply IH, H2|exact H'].
Qed.
Lemma trim_zeros_head ds : match trim_zeros ds with d :: _ => (d =? 48) = false | [] => True end.
Proof.
  induction ds as [|d r IH]; simpl; [exact I|]. destruct (d =? 48) eqn:E; [exact IH|exact E].
Qed.
Lemma ordinal_of_trim ds : forallb digit ds = true -> nonempty (trim_zeros ds) = true ->
  ordinal_ok (trim_zeros ds) = true.
Proof.
  intros Hd Hn. pose proof (trim_zeros_digits ds Hd) as H1. pose proof (trim_zeros_head ds) as H2.
  destruct (trim_zeros ds) as [|d r]; [discriminate|]. simpl in *.
  apply andb_true_iff in H1 as [Ha Hb]. rewrite Hb, andb_true_r.
  unfold digit in Ha. unfold digit19. apply andb_true_iff in Ha as [A B].
  apply Z.leb_le in A. apply Z.eqb_neq in H2. apply andb_true_iff. split; [apply Z.leb_le; lia|exact B].
Qed.

(* the float expression on a text without sign *)
Definition is_float_abs (t : list Z) : bool :=
  let (ip, r1) := span_digits t in
  int_part_ok ip &&
  match r1 with
  | c :: r2 => (c =? 46) &&
               (let (fp, r3) := span_digits r2 in
                nonempty fp && match r3 with [] => true | _ => is_exponent r3 end)
  | [] => false
  end.

Lemma is_float_abs_build ip fp tail :
  int_part_ok ip = true -> forallb digit fp = true -> nonempty fp = true ->
  (tail = [] \/ (is_exponent tail = true /\ match tail with c :: _ => digit c = false | [] => True end)) ->
  is_float_abs (ip ++ 46 :: fp ++ tail) = true.
Proof.
  intros Hip Hfp Hne Htail. unfold is_float_abs.
  rewrite (span_digits_all ip (46 :: fp ++ tail) (int_part_digits _ Hip)) by reflexivity.
  rewrite Hip. simpl.
  assert (Hsp : span_digits (fp ++ tail) = (fp, tail)).
  { apply span_digits_all; [exact Hfp|]. destruct Htail as [->|[_ Ht]]; [exact I|exact Ht]. }
  rewrite Hsp, Hne. simpl.
  destruct Htail as [->|[He _]]; [reflexivity|]. destruct tail; [reflexivity|exact He].
Qed.

Lemma fix_float_abs_ok b : g_shape_abs b = true -> is_float_abs (fix_float b) = true.
Proof.
  unfold g_shape_abs, fix_float. destruct (cut_E b) as [m e]. intros H.
  apply andb_true_iff in H as [Hm He]. unfold mant_ok in Hm.
  destruct (cut_dot m) as [ip fp] eqn:Ecd. apply andb_true_iff in Hm as [Hip Hfp].
  pose proof (cut_dot_spec m ip fp Ecd) as Em.
  (* the mantissa after the ".0" rule *)
  assert (Hm' : exists f, (if zmem 46 m then m else m ++ [46; 48]) = ip ++ 46 :: f
                          /\ forallb digit f = true /\ nonempty f = true).
  { destruct fp as [f|].
    - apply andb_true_iff in Hfp as [Hn Hd]. exists f. subst m.
      rewrite zmem_app, zmem_cons, Z.eqb_refl. cbn [orb]. rewrite orb_true_r. auto.
    - exists [48]. subst m. rewrite app_nil_r, (zmem_digits_dot ip (int_part_digits _ Hip)). auto. }
  destruct Hm' as [f [Ef [Hfd Hfn]]]. rewrite Ef.
  destruct e as [[|sg ds]|].
  - discriminate.
  - (* exponent *)
    unfold exp_ok in He. apply andb_true_iff in He as [He Hz]. apply andb_true_iff in He as [He Hd].
    apply andb_true_iff in He as [Hs Hn].
    cbv beta iota. rewrite <- app_assoc.
    change ((46 :: f) ++ 69 :: sg :: trim_zeros ds) with (46 :: f ++ 69 :: sg :: trim_zeros ds).
    apply is_float_abs_build; auto. right. split; [|reflexivity].
    unfold is_exponent. rewrite Z.eqb_refl, Hs. cbn [orb andb].
    pose proof (span_digits_all (trim_zeros ds) [] (trim_zeros_digits ds Hd) I) as Hsp.
    rewrite app_nil_r in Hsp. rewrite Hsp, (ordinal_of_trim ds Hd Hz). reflexivity.
  - cbv beta iota. replace (ip ++ 46 :: f) with (ip ++ 46 :: f ++ []) by (rewrite app_nil_r; reflexivity).
    apply is_float_abs_build; auto.
Qed.

Lemma cut_E_minus b : cut_E (45 :: b) = (45 :: fst (cut_E b), snd (cut_E b)).
Proof. simpl. destruct (cut_E b); reflexivity. Qed.
Lemma fix_float_minus b : fix_float (45 :: b) = 45 :: fix_float b.
Proof.
  unfold fix_float. rewrite cut_E_minus. destruct (cut_E b) as [m e]. simpl fst. simpl snd.
  change (zmem 46 (45 :: m)) with (zmem 46 m).
  destruct (zmem 46 m); destruct e as [[|sg ds]|]; reflexivity.
Qed.

Lemma is_float_abs_first_digit t : is_float_abs t = true ->
  match t with c :: _ => digit c = true | [] => False end.
Proof.
  unfold is_float_abs. destruct t as [|c r]; simpl.
  - intros H. discriminate.
  - destruct (digit c); [reflexivity|]. simpl. intros H; discriminate.
Qed.

(* float_text_ok: whenever strconv's text has the %G shape, what formatFloat writes is a float
   literal of the scanner *)
Theorem float_text_ok t : g_shape t = true -> is_float_literal (fix_float t) = true.
Proof.
  unfold g_shape. destruct t as [|c r]; [discriminate|].
  destruct (c =? 45) eqn:E.
  - apply Z.eqb_eq in E. subst c. intros H. rewrite fix_float_minus.
    unfold is_float_literal. simpl strip_sign. exact (fix_float_abs_ok r H).
  - intros H. pose proof (fix_float_abs_ok (c :: r) H) as H1.
    pose proof (is_float_abs_first_digit _ H1) as H2.
    unfold is_float_literal.
    destruct (fix_float (c :: r)) as [|d rest] eqn:Ef; [contradiction|].
    simpl strip_sign. rewrite (digit_not_sign d H2). exact H1.
Qed.

(* before the repair (D12): the %G texts with a bare mantissa or a padded exponent are not float
   literals *)
Theorem old_float_text_refuted :
  exists t, g_shape t = true /\ is_float_literal (old_float t) = false.
Proof. exists (s2z "1E+06"). vm_compute. split; reflexivity. Qed.


(* ================= complex numbers ================= *)
(* the shape of what the repaired formatFloat writes for a text of the %G shape without sign *)
Lemma fix_float_shape b : g_shape_abs b = true ->
  exists ip f tail, fix_float b = ip ++ 46 :: f ++ tail /\ int_part_ok ip = true /\
    forallb digit f = true /\ nonempty f = true /\
    (tail = [] \/ exists sg ds, tail = 69 :: sg :: ds /\ is_sign sg = true /\ ordinal_ok ds = true /\ forallb digit ds = true).
Proof.
  unfold g_shape_abs, fix_float. destruct (cut_E b) as [m e]. intros H.
  apply andb_true_iff in H as [Hm He]. unfold mant_ok in Hm.
  destruct (cut_dot m) as [ip fp] eqn:Ecd. apply andb_true_iff in Hm as [Hip Hfp].
  pose proof (cut_dot_spec m ip fp Ecd) as Em.
  assert (Hm' : exists f, (if zmem 46 m then m else m ++ [46; 48]) = ip ++ 46 :: f
                          /\ forallb digit f = true /\ nonempty f = true).
  { destruct fp as [f|].
    - apply andb_true_iff in Hfp as [Hn Hd]. exists f. subst m.
      rewrite zmem_app, zmem_cons, Z.eqb_refl. cbn [orb]. rewrite orb_true_r. auto.
    - exists [48]. subst m. rewrite app_nil_r, (zmem_digits_dot ip (int_part_digits _ Hip)). auto. }
  destruct Hm' as [f [Ef [Hfd Hfn]]]. rewrite Ef.
  destruct e as [[|sg ds]|].
  - discriminate.
  - unfold exp_ok in He. apply andb_true_iff in He as [He Hz]. apply andb_true_iff in He as [He Hd].
    apply andb_true_iff in He as [Hs Hn].
    exists ip, f, (69 :: sg :: trim_zeros ds). cbv beta iota. rewrite <- app_assoc.
    split; [reflexivity|]. repeat (split; [assumption|]). right.
    exists sg, (trim_zeros ds). repeat split; auto using ordinal_of_trim, trim_zeros_digits.
  - exists ip, f, []. cbv beta iota. rewrite app_nil_r. repeat (split; [auto|]). left; reflexivity.
Qed.

(* a character that ends a float inside a complex number: not a digit, not e / E *)
Definition stop (c : Z) : bool := negb (digit c) && negb (c =? 69) && negb (c =? 101).

Lemma float_prefix_abs_build ip f tail c rest :
  int_part_ok ip = true -> forallb digit f = true -> nonempty f = true ->
  (tail = [] \/ exists sg ds, tail = 69 :: sg :: ds /\ is_sign sg = true /\ ordinal_ok ds = true /\ forallb digit ds = true) ->
  stop c = true ->
  float_prefix_abs ((ip ++ 46 :: f ++ tail) ++ c :: rest) = Some (c :: rest).
Proof.
  intros Hip Hf Hn Htail Hc. unfold stop in Hc.
  apply andb_true_iff in Hc as [Hc H101]. apply andb_true_iff in Hc as [Hcd H69].
  apply negb_true_iff in Hcd. apply negb_true_iff in H69. apply negb_true_iff in H101.
  unfold float_prefix_abs. rewrite <- app_assoc. cbn [app].
  rewrite (span_digits_all ip (46 :: (f ++ tail) ++ c :: rest) (int_part_digits _ Hip)) by reflexivity.
  rewrite Hip, Z.eqb_refl. rewrite <- app_assoc.
  destruct Htail as [->|[sg [ds [-> [Hs [Ho Hd]]]]]].
  - cbn [app]. rewrite (span_digits_all f (c :: rest) Hf Hcd), Hn.
    destruct rest as [|c2 r]; [reflexivity|]. rewrite H69, H101. reflexivity.
  - rewrite (span_digits_all f ((69 :: sg :: ds) ++ c :: rest) Hf) by reflexivity.
    rewrite Hn. cbn [app]. rewrite Z.eqb_refl, Hs. cbn [orb andb].
    rewrite (span_digits_all ds (c :: rest) Hd Hcd), Ho. reflexivity.
Qed.

(* formatFloat's text followed by a stop character: float_ matches exactly that text *)
Lemma float_prefix_fix t c rest : g_shape t = true -> stop c = true ->
  float_prefix (fix_float t ++ c :: rest) = Some (c :: rest).
Proof.
  unfold g_shape. destruct t as [|a r]; [discriminate|].
  destruct (a =? 45) eqn:E.
  - apply Z.eqb_eq in E. subst a. intros H Hc. rewrite fix_float_minus.
    unfold float_prefix. cbn [app strip_sign]. change (is_sign 45) with true. cbv beta iota.
    destruct (fix_float_shape r H) as [ip [f [tail [Ef [Hip [Hf [Hn Ht]]]]]]]. rewrite Ef.
    apply float_prefix_abs_build; assumption.
  - intros H Hc.
    destruct (fix_float_shape (a :: r) H) as [ip [f [tail [Ef [Hip [Hf [Hn Ht]]]]]]]. rewrite Ef.
    unfold float_prefix.
    assert (Hs : strip_sign ((ip ++ 46 :: f ++ tail) ++ c :: rest) = (ip ++ 46 :: f ++ tail) ++ c :: rest).
    { destruct ip as [|d ip']; [discriminate|]. cbn [app strip_sign].
      assert (Hd : digit d = true).
      { pose proof (int_part_digits _ Hip) as Hall. cbn [forallb] in Hall. apply andb_true_iff in Hall as [Hd _]. exact Hd. }
      rewrite (digit_not_sign d Hd). reflexivity. }
    rewrite Hs. apply float_prefix_abs_build; assumption.
Qed.

(* complex_text_ok: under the %G-shape hypothesis on both parts (and: the text of a part that is
   not >= 0 starts with a minus sign) what formatComplex writes is a complex literal *)
Theorem complex_text_ok tr ti (nonneg : bool) :
  g_shape tr = true -> g_shape ti = true ->
  (nonneg = false -> exists r, ti = 45 :: r) ->
  is_complex_literal (40 :: fix_float tr ++ (if nonneg then [43] else []) ++ fix_float ti ++ [105; 41]) = true.
Proof.
  intros Hr Hi Hneg. unfold is_complex_literal. rewrite Z.eqb_refl. cbn [andb].
  destruct nonneg.
  - cbn [app]. rewrite (float_prefix_fix tr 43 (fix_float ti ++ [105; 41]) Hr eq_refl).
    change (is_sign 43) with true. cbn [andb].
    rewrite (float_prefix_fix ti 105 [41] Hi eq_refl). reflexivity.
  - destruct (Hneg eq_refl) as [r ->]. rewrite fix_float_minus. cbn [app].
    rewrite (float_prefix_fix tr 45 (fix_float r ++ [105; 41]) Hr eq_refl).
    change (is_sign 45) with true. cbn [andb].
    assert (Hr' : g_shape_abs r = true) by (unfold g_shape in Hi; rewrite Z.eqb_refl in Hi; exact Hi).
    destruct (fix_float_shape r Hr') as [ip [f [tail [Ef [Hip [Hf [Hn Ht]]]]]]]. rewrite Ef.
    unfold float_prefix.
    assert (Hs : strip_sign ((ip ++ 46 :: f ++ tail) ++ [105; 41]) = (ip ++ 46 :: f ++ tail) ++ [105; 41]).
    { destruct ip as [|d ip']; [discriminate|]. cbn [app strip_sign].
      assert (Hd : digit d = true).
      { pose proof (int_part_digits _ Hip) as Hall. cbn [forallb] in Hall. apply andb_true_iff in Hall as [Hd _]. exact Hd. }
      rewrite (digit_not_sign d Hd). reflexivity. }
    rewrite Hs, (float_prefix_abs_build ip f tail 105 [41] Hip Hf Hn Ht eq_refl). reflexivity.
Qed.

(* ================= runes and strings ================= *)
Lemma hexd_hexdig d : 0 <= d < 16 -> hexd (hexdig d) = true.
Proof.
  intros H. unfold hexdig, hexd, digit.
  destruct (d <? 10) eqn:E.
  - apply Z.ltb_lt in E. replace ((48 <=? 48 + d) && (48 + d <=? 57)) with true; [reflexivity|].
    symmetry. apply andb_true_iff. split; apply Z.leb_le; lia.
  - apply Z.ltb_ge in E. apply orb_true_iff. right. apply andb_true_iff. split; apply Z.leb_le; lia.
Qed.
Lemma hexd_mod r : hexd (hexdig (r mod 16)) = true.
Proof. apply hexd_hexdig. apply Z.mod_pos_bound. lia. Qed.

Lemma simple_esc_len c t : simple_esc c = true -> esc_len (c :: t) = Some 1%nat.
Proof.
  intros H. unfold esc_len.
  destruct (c =? 120) eqn:E1; [apply Z.eqb_eq in E1; subst; discriminate|].
  destruct (c =? 117) eqn:E2; [apply Z.eqb_eq in E2; subst; discriminate|].
  destruct (c =? 85) eqn:E3; [apply Z.eqb_eq in E3; subst; discriminate|].
  rewrite H. reflexivity.
Qed.

(* the pieces strconv writes for one rune, as the scanner's expression sees them *)
Inductive piece : list Z -> Prop :=
| PPlain c : (c =? 34) = false -> (c =? 10) = false -> (c =? 39) = false -> (c =? 92) = false -> piece [c]
| PQuote : piece [34]          (* only inside a rune literal *)
| PApos : piece [39]           (* only inside a string literal *)
| PSimple c : simple_esc c = true -> piece [92; c]
| PHex2 a b : hexd a = true -> hexd b = true -> piece [92; 120; a; b]
| PHex4 a b c d : hexd a = true -> hexd b = true -> hexd c = true -> hexd d = true -> piece [92; 117; a; b; c; d]
| PHex8 a b c d e f g h : hexd a = true -> hexd b = true -> hexd c = true -> hexd d = true ->
    hexd e = true -> hexd f = true -> hexd g = true -> hexd h = true -> piece [92; 85; a; b; c; d; e; f; g; h].

Section Quoting.
Variable printable : Z -> bool.

Lemma is_print_not_nl r : is_print printable r = true -> (r =? 10) = false.
Proof.
  unfold is_print. destruct (r <? 128) eqn:E.
  - intros H. apply andb_true_iff in H as [H1 _]. apply Z.leb_le in H1. apply Z.eqb_neq. lia.
  - intros _. apply Z.ltb_ge in E. apply Z.eqb_neq. lia.
Qed.

(* what appendEscapedRune writes is one piece; with the quote character q the piece is never the
   bare quote itself *)
Lemma esc_rune_piece q r : q = 34 \/ q = 39 ->
  piece (esc_rune printable q r) /\ esc_rune printable q r <> [q].
Proof.
  intros Hq. unfold esc_rune.
  destruct ((r =? q) || (r =? 92)) eqn:E0.
  { split; [|intros E; inversion E; lia]. apply PSimple.
    apply orb_true_iff in E0 as [E|E]; apply Z.eqb_eq in E; subst; destruct Hq; subst; reflexivity. }
  apply orb_false_iff in E0 as [Eq E92].
  destruct (is_print printable r) eqn:Ep.
  { split.
    - destruct (r =? 34) eqn:E34; [apply Z.eqb_eq in E34; subst; apply PQuote|].
      destruct (r =? 39) eqn:E39; [apply Z.eqb_eq in E39; subst; apply PApos|].
      apply PPlain; auto. apply (is_print_not_nl _ Ep).
    - intros E; inversion E; subst. rewrite Z.eqb_refl in Eq. discriminate. }
  assert (Hs : forall c, simple_esc c = true -> piece [92; c] /\ [92; c] <> [q])
    by (intros c Hc; split; [apply PSimple, Hc|intros E; discriminate]).
  destruct (r =? 7); [apply Hs; reflexivity|].
  destruct (r =? 8); [apply Hs; reflexivity|].
  destruct (r =? 12); [apply Hs; reflexivity|].
  destruct (r =? 10); [apply Hs; reflexivity|].
  destruct (r =? 13); [apply Hs; reflexivity|].
  destruct (r =? 9); [apply Hs; reflexivity|].
  destruct (r =? 11); [apply Hs; reflexivity|].
  destruct ((r <? 32) || (r =? 127)).
  { cbn [hex_fixed]. split; [apply PHex2; apply hexd_mod|intros E; discriminate]. }
  destruct (negb (valid_rune r)).
  { split; [apply PHex4; reflexivity|intros E; discriminate]. }
  destruct (r <? 65536).
  { cbn [hex_fixed]. split; [apply PHex4; apply hexd_mod|intros E; discriminate]. }
  cbn [hex_fixed]. split; [apply PHex8; apply hexd_mod|intros E; discriminate].
Qed.

(* ---- runes ---- *)
Lemma piece_rune p : piece p -> p <> [39] -> is_rune_literal (39 :: p ++ [39]) = true.
Proof.
  intros Hp Hne. destruct Hp as [c H34 H10 H39 H92| | |c Hc|a b Ha Hb|a b c d Ha Hb Hc Hd|a b c d e f g h Ha Hb Hc Hd He Hf Hg Hh].
  - simpl. rewrite H92, H39, H10. reflexivity.
  - reflexivity.
  - contradiction Hne; reflexivity.
  - cbn [app is_rune_literal]. rewrite !Z.eqb_refl, (simple_esc_len c [39] Hc). reflexivity.
  - cbn [app is_rune_literal esc_len]. rewrite !Z.eqb_refl, Ha, Hb. reflexivity.
  - cbn [app is_rune_literal esc_len]. rewrite !Z.eqb_refl. cbn [Z.eqb Pos.eqb]. rewrite Ha, Hb, Hc, Hd. reflexivity.
  - cbn [app is_rune_literal esc_len]. rewrite !Z.eqb_refl. cbn [Z.eqb Pos.eqb]. rewrite Ha, Hb, Hc, Hd, He, Hf, Hg, Hh. reflexivity.
Qed.

(* rune_text_ok: what formatRune writes (strconv.QuoteRune) is a rune literal of the scanner,
   for every int32 value and whatever IsPrint answers *)
Theorem rune_text_ok r : is_rune_literal (quote_rune printable r) = true.
Proof.
  unfold quote_rune.
  destruct (esc_rune_piece 39 (if valid_rune r then r else 65533) (or_intror eq_refl)) as [Hp Hne].
  apply piece_rune; assumption.
Qed.

(* ---- strings ---- *)
Lemma str_body_S k t :
  str_body (S k) t =
  match t with
  | [] => false
  | c :: r =>
    ((c =? 34) && negb (nonempty r))
    || ((c =? 92) && match esc_len r with Some n => str_body k (skipn n r) | None => false end)
    || (negb (c =? 34) && negb (c =? 10) && str_body k r)
  end.
Proof. reflexivity. Qed.

Lemma str_body_mono k : forall t, str_body k t = true -> str_body (S k) t = true.
Proof.
  induction k as [|k IH]; intros t H; [discriminate|].
  rewrite str_body_S in H. rewrite (str_body_S (S k)). destruct t as [|c r]; [discriminate|].
  apply orb_true_iff in H as [H|H]; [apply orb_true_iff in H as [H|H]|].
  - rewrite H. reflexivity.
  - apply andb_true_iff in H as [H1 H2]. rewrite H1.
    destruct (esc_len r) as [n|]; [|discriminate]. rewrite (IH _ H2). cbn [andb]. rewrite orb_true_r. reflexivity.
  - apply andb_true_iff in H as [H1 H2]. rewrite H1, (IH _ H2). cbn [andb]. rewrite orb_true_r. reflexivity.
Qed.
Lemma str_body_mono_le k k' t : (k <= k')%nat -> str_body k t = true -> str_body k' t = true.
Proof. induction 1 as [|m Hle IH]; [auto|]. intros Hb. apply str_body_mono. auto. Qed.

Lemma piece_string p k rest : piece p -> p <> [34] -> str_body k rest = true ->
  str_body (S k) (p ++ rest) = true.
Proof.
  intros Hp Hne Hr. destruct Hp as [c H34 H10 H39 H92| | |c Hc|a b Ha Hb|a b c d Ha Hb Hc Hd|a b c d e f g h Ha Hb Hc Hd He Hf Hg Hh].
  - cbn [app str_body]. rewrite H34, H10, Hr. cbn [negb andb]. rewrite orb_true_r. reflexivity.
  - contradiction Hne; reflexivity.
  - cbn [app str_body]. rewrite Hr. reflexivity.
  - cbn [app str_body]. rewrite Z.eqb_refl, (simple_esc_len c rest Hc). cbn [skipn andb]. rewrite Hr.
    rewrite orb_true_r. reflexivity.
  - cbn [app str_body esc_len]. rewrite !Z.eqb_refl, Ha, Hb. cbn [skipn andb]. rewrite Hr.
    rewrite orb_true_r. reflexivity.
  - cbn [app str_body esc_len]. rewrite !Z.eqb_refl. cbn [Z.eqb Pos.eqb]. rewrite Ha, Hb, Hc, Hd. cbn [skipn andb]. rewrite Hr.
    rewrite orb_true_r. reflexivity.
  - cbn [app str_body esc_len]. rewrite !Z.eqb_refl. cbn [Z.eqb Pos.eqb]. rewrite Ha, Hb, Hc, Hd, He, Hf, Hg, Hh. cbn [skipn andb]. rewrite Hr.
    rewrite orb_true_r. reflexivity.
Qed.

Inductive pieces34 : list Z -> Prop :=
| P34nil : pieces34 []
| P34cons p t : piece p -> p <> [34] -> pieces34 t -> pieces34 (p ++ t).

Lemma piece_nonempty p : piece p -> (1 <= length p)%nat.
Proof. destruct 1; simpl; lia. Qed.

Lemma pieces34_body w : pieces34 w -> str_body (S (length w)) (w ++ [34]) = true.
Proof.
  induction 1 as [|p t Hp Hne Ht IH]; [reflexivity|].
  rewrite <- app_assoc, app_length. apply piece_string; auto.
  apply (str_body_mono_le (S (length t))); [|exact IH]. pose proof (piece_nonempty p Hp). lia.
Qed.

Lemma esc34 r t : pieces34 t -> pieces34 (esc_rune printable 34 r ++ t).
Proof. intros Ht. destruct (esc_rune_piece 34 r (or_introl eq_refl)) as [Hp Hne]. constructor; assumption. Qed.
Lemma bad34 b t : pieces34 t -> pieces34 (92 :: 120 :: hex_fixed 2 b t).
Proof.
  intros Ht. cbn [hex_fixed].
  change (92 :: 120 :: hexdig (b / 16 mod 16) :: hexdig (b mod 16) :: t)
    with ([92; 120; hexdig (b / 16 mod 16); hexdig (b mod 16)] ++ t).
  constructor; [apply PHex2; apply hexd_mod|intros E; discriminate|exact Ht].
Qed.

Lemma quote_body_pieces : forall n s, (length s <= n)%nat -> pieces34 (quote_body printable s).
Proof.
  induction n as [|n IH]; intros s Hlen.
  - destruct s; [constructor|simpl in Hlen; lia].
  - destruct s as [|b0 t]; [constructor|]. cbn [length] in Hlen.
    assert (Ht : pieces34 (quote_body printable t)) by (apply IH; lia).
    cbn [quote_body].
    destruct (b0 <? 128); [apply esc34, Ht|].
    destruct ((194 <=? b0) && (b0 <=? 223)).
    { destruct t as [|b1 t1]; [apply bad34, Ht|].
      destruct (cont b1); [|apply bad34, Ht].
      apply esc34, IH. cbn [length] in Hlen. lia. }
    destruct ((224 <=? b0) && (b0 <=? 239)).
    { destruct t as [|b1 [|b2 t2]]; try (apply bad34, Ht).
      match goal with |- context [if ?c then _ else _] => destruct c end; [|apply bad34, Ht].
      apply esc34, IH. cbn [length] in Hlen. lia. }
    destruct ((240 <=? b0) && (b0 <=? 244)).
    { destruct t as [|b1 [|b2 [|b3 t3]]]; try (apply bad34, Ht).
      match goal with |- context [if ?c then _ else _] => destruct c end; [|apply bad34, Ht].
      apply esc34, IH. cbn [length] in Hlen. lia. }
    apply bad34, Ht.
Qed.

(* string_text_ok: what formatString writes (strconv.Quote) is a string literal of the scanner,
   for every byte string (invalid UTF-8 included) and whatever IsPrint answers *)
Theorem string_text_ok s : is_string_literal (quote_str printable s) = true.
Proof.
  unfold quote_str, is_string_literal. rewrite Z.eqb_refl, app_length. cbn [length andb].
  replace (length (quote_body printable s) + 1)%nat with (S (length (quote_body printable s))) by lia.
  apply pieces34_body. apply (quote_body_pieces (length s)). lia.
Qed.
End Quoting.

(* the model's complex text, under the oracle hypotheses on both parts *)
Theorem complex_intrinsic_ok (ftext : Z -> list Z) (printable : Z -> bool) w re im ab ph t :
  g_shape (ftext re) = true -> g_shape (ftext im) = true ->
  (f_nonneg im = false -> exists r, ftext im = 45 :: r) ->
  intrinsic_text ftext printable (VComplex w re im ab ph) = Some t ->
  is_complex_literal t = true.
Proof.
  intros Hr Hi Hneg H. simpl in H. inversion H; subst. unfold float_text.
  apply complex_text_ok; assumption.
Qed.

(* ================= integers ================= *)
Lemma digits_fuel_hexd fuel : forall z acc, forallb hexd acc = true ->
  forallb hexd (digits_fuel fuel 16 z acc) = true.
Proof.
  induction fuel as [|k IH]; intros z acc Ha; simpl; [exact Ha|].
  assert (Ha' : forallb hexd (hexdig (z mod 16) :: acc) = true)
    by (cbn [forallb]; rewrite hexd_mod, Ha; reflexivity).
  destruct (z / 16 =? 0); [exact Ha'|apply IH, Ha'].
Qed.
Lemma digits_fuel_nonempty fuel : forall base z acc, nonempty acc = true ->
  nonempty (digits_fuel fuel base z acc) = true.
Proof.
  induction fuel as [|k IH]; intros base z acc Ha; simpl; [exact Ha|].
  destruct (z / base =? 0); [reflexivity|apply IH; reflexivity].
Qed.

(* hex_text_ok: what formatUnsigned writes is a hexadecimal literal of the scanner *)
Theorem hex_text_ok z : is_hex_literal (hex_text z) = true.
Proof.
  unfold hex_text, is_hex_literal, digits. rewrite !Z.eqb_refl. cbn [andb].
  cbn [digits_fuel]. set (a := [hexdig (Z.abs z mod 16)]).
  assert (Hh : forallb hexd a = true) by (unfold a; cbn [forallb]; rewrite hexd_mod; reflexivity).
  destruct (Z.abs z / 16 =? 0).
  - unfold a at 1. cbn [nonempty andb]. exact Hh.
  - rewrite digits_fuel_nonempty by reflexivity. cbn [andb]. apply digits_fuel_hexd, Hh.
Qed.

Lemma digit_hexdig d : 0 <= d < 10 -> digit (hexdig d) = true.
Proof.
  intros H. unfold hexdig, digit. replace (d <? 10) with true by (symmetry; apply Z.ltb_lt; lia).
  apply andb_true_iff. split; apply Z.leb_le; lia.
Qed.
Lemma digit19_hexdig d : 0 < d < 10 -> digit19 (hexdig d) = true.
Proof.
  intros H. unfold hexdig, digit19. replace (d <? 10) with true by (symmetry; apply Z.ltb_lt; lia).
  apply andb_true_iff. split; apply Z.leb_le; lia.
Qed.

(* with enough fuel the decimal digits of a positive number start with a non-zero digit *)
Lemma digits_fuel_ordinal fuel : forall z acc, 0 < z < 2 ^ Z.of_nat fuel -> forallb digit acc = true ->
  ordinal_ok (digits_fuel fuel 10 z acc) = true.
Proof.
  induction fuel as [|k IH]; intros z acc Hz Ha.
  - simpl in Hz. lia.
  - cbn [digits_fuel].
    assert (Hm : 0 <= z mod 10 < 10) by (apply Z.mod_pos_bound; lia).
    assert (Ha' : forallb digit (hexdig (z mod 10) :: acc) = true)
      by (cbn [forallb]; rewrite (digit_hexdig _ Hm), Ha; reflexivity).
    destruct (z / 10 =? 0) eqn:E.
    + apply Z.eqb_eq in E.
      assert (Hsmall : z < 10) by (apply Z.div_small_iff in E; lia).
      rewrite (Z.mod_small z 10) by lia. cbn [ordinal_ok]. rewrite (digit19_hexdig z) by lia. exact Ha.
    + apply Z.eqb_neq in E. apply IH; [|exact Ha'].
      assert (H0 : 0 <= z / 10) by (apply Z.div_pos; lia).
      split; [lia|].
      apply Z.div_lt_upper_bound; [lia|].
      rewrite Nat2Z.inj_succ, Z.pow_succ_r in Hz by lia.
      assert (0 < 2 ^ Z.of_nat k) by (apply Z.pow_pos_nonneg; lia). lia.
Qed.

Lemma digits_ordinal z : 0 < z -> ordinal_ok (digits 10 z) = true.
Proof.
  intros Hz. unfold digits. apply digits_fuel_ordinal; [|reflexivity].
  split; [exact Hz|].
  rewrite Nat2Z.inj_succ, Z2Nat.id by (apply Z.log2_nonneg).
  apply Z.log2_spec, Hz.
Qed.

(* int_text_ok: what formatInteger writes is an integer literal of the scanner *)
Theorem int_text_ok z : is_integer_literal (dec_text z) = true.
Proof.
  unfold is_integer_literal, dec_text. destruct (z <? 0) eqn:E.
  - apply Z.ltb_lt in E. apply orb_true_iff. right.
    cbn [strip_sign]. change (is_sign 45) with true. cbv beta iota.
    apply digits_ordinal. lia.
  - apply Z.ltb_ge in E. destruct (Z.eq_dec z 0) as [->|Hn].
    + reflexivity.
    + apply orb_true_iff. right.
      pose proof (digits_ordinal z ltac:(lia)) as H.
      destruct (digits 10 z) as [|d r] eqn:Ed; [discriminate|].
      cbn [strip_sign]. cbn [ordinal_ok] in H. apply andb_true_iff in H as [H1 H2].
      rewrite (digit_not_sign d (digit19_digit d H1)). cbn [ordinal_ok]. rewrite H1, H2. reflexivity.
Qed.
