(* PipesFork.v — the Fork program family: global invariant, preservation by every micro-step,
   safety and closure consequences. *)
From Verif Require Import Base Conc Pipes PipesGen PipesRoles.
Close Scope Z_scope.
Open Scope nat_scope.

(* producer and consumer thread of every queue in the Fork and Split programs *)
Definition fP (q : nat) : nat := match q with 0 => 1 | _ => 0 end.
Definition fR (q : nat) : nat := match q with 0 => 0 | S _ => S q end.

Record fork_inv (vs : list Z) (k cap : nat) (c : config) : Prop := {
  fi_nt : length (threads c) = k + 3;
  fi_nq : length (queues c) = S k;
  fi_cap : forall q, q <= k -> qcap (getq c q) = cap;
  fi_h : forkh_ok vs k (gett c 0) (qpop (getq c 0)) (qclosed (getq c 0)) (view_app c) (view_cl c);
  fi_f : feeder_ok vs (gett c 1) (qapp (getq c 0)) (qclosed (getq c 0));
  fi_c : forall j, 1 <= j <= k ->
         consumer_ok j (gett c (S j)) (qpop (getq c j)) (qclosed (getq c j)) (qtok (getq c j));
  fi_w : waiter_ok (gett c (k + 2));
  fi_ch : forall q, q <= k -> chan c q (fP q) (fR q);
  fi_wg : wg_inv c
}.

(* ---------- the initial configuration ---------- *)
Lemma nth_map_seq {A} (f : nat -> A) s k i d : i < k -> nth i (map f (seq s k)) d = f (s + i).
Proof.
  intros H. rewrite nth_indep with (d' := f 0) by (now rewrite map_length, seq_length).
  rewrite map_nth. now rewrite seq_nth.
Qed.

Lemma nth_repeat_lt {A} (x d : A) n i : i < n -> nth i (repeat x n) d = x.
Proof. revert i; induction n; intros [|i] H; simpl; auto; try lia. apply IHn. lia. Qed.

Lemma nth_consumers k j w d : 1 <= j <= k -> nth (j - 1) (map consumer (outs k) ++ [w]) d = consumer j.
Proof.
  intros H. unfold outs. rewrite app_nth1 by (rewrite map_length, seq_length; lia).
  rewrite nth_map_seq by lia. f_equal. lia.
Qed.

Lemma nth_after_consumers k w d : nth k (map consumer (outs k) ++ [w]) d = w.
Proof.
  unfold outs. rewrite app_nth2 by (rewrite map_length, seq_length; lia).
  rewrite map_length, seq_length, Nat.sub_diag. reflexivity.
Qed.

Lemma sum_dones_consumers l : list_sum (map dones (map consumer l)) = 0.
Proof. induction l; simpl; auto. Qed.

Lemma ndone_feeder rest : ndone (map (CAdd 0) rest ++ [CClose 0]) = 0.
Proof. rewrite ndone_app, ndone_map_add by auto. reflexivity. Qed.

Lemma chan_init c q p r :
  getq c q = mkq (qcap (getq c q)) -> tph (gett c p) = PIdle -> tph (gett c r) = PIdle ->
  chan c q p r.
Proof.
  intros Hq Hp Hr. constructor; rewrite Hq, ?Hp, ?Hr; simpl; auto; try lia.
Qed.

Lemma feeder_init vs : feeder_ok vs (feeder vs) [] false.
Proof. apply FIdle with vs; auto. Qed.

Lemma consumer_init j : consumer_ok j (consumer j) [] false 0.
Proof. apply CIdle; simpl; auto. intros [v []]. Qed.

Lemma waiter_init : waiter_ok waiter.
Proof. unfold waiter_ok, waiter; simpl; auto. Qed.

Section ForkShape.
Variables (vs : list Z) (k cap : nat).
Hypothesis Hk : 1 <= k.

Let c0 := fork_prog vs k cap.

Lemma fork_init_getq q : q <= k -> getq c0 q = mkq cap.
Proof. intros H. unfold getq, c0, fork_prog; cbv beta iota delta [queues]. apply nth_repeat_lt. lia. Qed.

Lemma fork_init_consumer j : 1 <= j <= k -> gett c0 (S j) = consumer j.
Proof.
  intros H. unfold gett, c0, fork_prog; simpl threads. destruct j as [|j]; [lia|].
  change (nth (S (S j)) (fork_helper 0 (outs k) :: feeder vs :: map consumer (outs k) ++ [waiter]) dummyt)
    with (nth j (map consumer (outs k) ++ [waiter]) dummyt).
  replace j with (S j - 1) at 1 by lia. now apply nth_consumers.
Qed.

Lemma fork_init_waiter : gett c0 (k + 2) = waiter.
Proof.
  unfold gett, c0, fork_prog; simpl threads. replace (k + 2) with (S (S k)) by lia.
  change (nth (S (S k)) (fork_helper 0 (outs k) :: feeder vs :: map consumer (outs k) ++ [waiter]) dummyt)
    with (nth k (map consumer (outs k) ++ [waiter]) dummyt).
  apply nth_after_consumers.
Qed.

Lemma fork_init : fork_inv vs k cap c0.
Proof.
  constructor.
  - unfold c0, fork_prog, outs; simpl. rewrite app_length, map_length, seq_length. simpl. lia.
  - unfold c0, fork_prog; simpl. now rewrite repeat_length.
  - intros q Hq. now rewrite fork_init_getq.
  - rewrite fork_init_getq by lia. simpl.
    apply HF_run with k 0%Z; simpl; auto.
    + unfold fork_calls. now rewrite Nat.sub_diag.
    + intros j Hj. unfold view_app. now rewrite fork_init_getq by lia.
    + intros j Hj. lia.
    + intros j Hj. unfold view_cl. now rewrite fork_init_getq by lia.
  - rewrite fork_init_getq by lia. simpl. apply feeder_init.
  - intros j Hj. rewrite fork_init_getq, fork_init_consumer by lia. simpl. apply consumer_init.
  - rewrite fork_init_waiter. apply waiter_init.
  - intros q Hq. apply chan_init.
    + rewrite fork_init_getq by lia. reflexivity.
    + destruct q; reflexivity.
    + destruct q as [|q]; [reflexivity|]. unfold fR. now rewrite fork_init_consumer by lia.
  - unfold wg_inv, c0, fork_prog. simpl. rewrite map_app, list_sum_app, sum_dones_consumers.
    unfold dones at 1. simpl. now rewrite ndone_feeder.
Qed.

(* ---------- footprints ---------- *)
Lemma fork_fp c : fork_inv vs k cap c ->
  fp_all c fP fR /\ (forall t kk q, opof (gett c t) = Some (kk, q) -> q <= k).
Proof.
  intros I.
  assert (H : forall t kk q, opof (gett c t) = Some (kk, q) ->
     q <= k /\ match kk with
      | KAdd | KClose => t = fP q /\ qclosed (getq c q) = false
      | KSend => t = fP q
      | KTake | KPop => t = fR q
      | KRemAll | KDisc => False
      end).
  { intros t kk q Hop.
    destruct (Nat.eq_dec t 0) as [->|H0].
    { destruct (forkh_ops _ _ _ _ _ _ _ _ _ (fi_h _ _ _ _ I) Hop) as [(-> & [->| ->])|(Hq & Hkk & Hcl)].
      - split; [lia|reflexivity].
      - split; [lia|reflexivity].
      - split; [lia|]. unfold view_cl in Hcl. destruct q; [lia|].
        destruct Hkk as [->|[->| ->]]; simpl; auto. }
    destruct (Nat.eq_dec t 1) as [->|H1].
    { destruct (feeder_ops _ _ _ _ _ _ (fi_f _ _ _ _ I) Hop) as (-> & Hcl & Hkk).
      split; [lia|]. destruct Hkk as [->|[->| ->]]; simpl; auto. }
    destruct (Nat.le_gt_cases t (S k)) as [Hle|Hgt].
    { assert (Hj : 1 <= t - 1 <= k) by lia.
      pose proof (fi_c _ _ _ _ I (t - 1) Hj) as Hc. replace (S (t - 1)) with t in Hc by lia.
      destruct (consumer_ops _ _ _ _ _ _ _ Hc Hop) as (-> & Hkk).
      split; [lia|]. destruct (t - 1) eqn:E; [lia|].
      destruct Hkk as [->| ->]; simpl; lia. }
    destruct (Nat.eq_dec t (k + 2)) as [->|H2].
    { destruct (waiter_ops _ _ _ (fi_w _ _ _ _ I) Hop). }
    rewrite gett_out in Hop by (rewrite (fi_nt _ _ _ _ I); lia). discriminate. }
  split.
  - intros t kk q Hop. now apply H.
  - intros t kk q Hop. now apply (H t kk q).
Qed.

(* ---------- the input is drained when the helper sees it closed and empty ---------- *)
Lemma drained_input c f p :
  feeder_ok vs (gett c f) (qapp (getq c 0)) (qclosed (getq c 0)) -> chan c 0 f p ->
  tph (gett c p) = PIdle -> qclosed (getq c 0) = true -> qtok (getq c 0) = 0 ->
  qpop (getq c 0) = vs.
Proof.
  intros Hf [H1 H2 H3 H4] Hph Hcl Htok.
  rewrite (H4 Hcl), Hph, Htok in H2. simpl in H2.
  destruct (qvals (getq c 0)); [|discriminate]. rewrite app_nil_r in H1.
  destruct Hf as [rest ? ? ? ? Hc|v rest ? ? ? ? Hc|? ? ? Happ ?]; try congruence.
Qed.

(* ---------- preservation ---------- *)
Lemma fork_step c t c' : fork_inv vs k cap c -> step c t = Some c' -> fork_inv vs k cap c'.
Proof.
  intros I Hstep. destruct (fork_fp c I) as [Hfp Hrange].
  destruct (step_effect _ _ _ Hstep) as (Hnt & Hnq & Hother & _).
  assert (Hns : tph (gett c' t) <> PStuck).
  { apply step_nostuck with (c := c) (P := fP) (R := fR); auto.
    intros kk q Hop. split; [apply (fi_ch _ _ _ _ I); eauto|now apply fp_all_on]. }
  pose proof (fi_nq _ _ _ _ I) as Hlenq.
  constructor.
  - rewrite Hnt. apply (fi_nt _ _ _ _ I).
  - now rewrite Hnq.
  - intros q Hq. rewrite (step_qcap _ _ _ _ Hstep). now apply (fi_cap _ _ _ _ I).
  - (* helper *)
    destruct (Nat.eq_dec t 0) as [->|Hn].
    + apply forkh_step with c; auto; try lia. apply (fi_h _ _ _ _ I).
      intros Hph. apply drained_input with 1 0; auto. apply (fi_f _ _ _ _ I).
      apply (fi_ch _ _ _ _ I 0). lia.
    + rewrite Hother by auto.
      apply forkh_frame with (qpop (getq c 0)) (qclosed (getq c 0)) (view_app c) (view_cl c).
      * apply (fi_h _ _ _ _ I).
      * apply eff_not_consumer with t fP fR; auto.
      * apply step_closed_mono with t; auto.
      * intros j Hj. unfold view_app, view_cl. apply eff_not_producer with t fP fR; auto.
        destruct j; simpl; lia.
  - (* feeder *)
    destruct (Nat.eq_dec t 1) as [->|Hn].
    + apply feeder_step with c; auto; try lia. apply (fi_f _ _ _ _ I).
    + rewrite Hother by auto.
      destruct (eff_not_producer c t c' fP fR 0 Hstep Hfp) as [-> ->]; auto.
      apply (fi_f _ _ _ _ I).
  - (* readers *)
    intros j Hj. destruct (Nat.eq_dec t (S j)) as [->|Hn].
    + apply consumer_step with c; auto; try lia. now apply (fi_c _ _ _ _ I).
    + rewrite Hother by auto.
      apply consumer_frame with (qpop (getq c j)) (qclosed (getq c j)) (qtok (getq c j)).
      * now apply (fi_c _ _ _ _ I).
      * apply eff_not_consumer with t fP fR; auto. destruct j; simpl; lia.
      * intros Hcl. rewrite (eff_closed_stable c t c' fP fR j); auto.
        apply (fi_ch _ _ _ _ I). lia. destruct j; simpl; lia.
  - (* waiter *)
    destruct (Nat.eq_dec t (k + 2)) as [->|Hn].
    + apply waiter_step with c; auto. apply (fi_w _ _ _ _ I).
    + rewrite Hother by auto. apply (fi_w _ _ _ _ I).
  - intros q Hq. apply chan_step with c t; auto.
    + now apply (fi_ch _ _ _ _ I).
    + destruct q; simpl; lia.
    + lia.
    + now apply fp_all_on.
  - apply wg_step with c t; auto. apply (fi_wg _ _ _ _ I).
Qed.

Theorem fork_reachable sched : fork_inv vs k cap (run c0 sched).
Proof.
  apply run_invariant with (I := fork_inv vs k cap).
  - intros c t c'. apply fork_step.
  - apply fork_init.
Qed.

End ForkShape.
