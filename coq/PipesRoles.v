(* PipesRoles.v — local invariants of the thread roles occurring in the Fork / Split / Join
   programs (feeder, reader, waiter, the three helper goroutines), stated over the "view" each
   role has of the shared state, and their preservation by the role's own micro-steps. *)
From Verif Require Import Base Conc Pipes PipesGen.
Close Scope Z_scope.
Open Scope nat_scope.

Notation recv := received.
Notation saw_closed := told_closed.

Lemma recv_app a b : recv (a ++ b) = recv a ++ recv b.
Proof.
  induction a as [|x a IH]; simpl; auto. destruct x; auto. destruct ok; simpl; now rewrite ?IH.
Qed.

(* ---------- feeder: AddValue every element of vs to queue 0, then close it ---------- *)
Inductive feeder_ok (vs : list Z) (th : thread) (app : list Z) (closed : bool) : Prop :=
| FIdle rest : tph th = PIdle -> tcalls th = map (CAdd 0) rest ++ [CClose 0] -> tloop th = LNone ->
    app ++ rest = vs -> closed = false -> feeder_ok vs th app closed
| FSend v rest : tph th = PSend 0 -> tcalls th = CAdd 0 v :: map (CAdd 0) rest ++ [CClose 0] ->
    tloop th = LNone -> app ++ rest = vs -> closed = false -> feeder_ok vs th app closed
| FDone : tph th = PIdle -> tcalls th = [] -> tloop th = LNone -> app = vs -> closed = true ->
    feeder_ok vs th app closed.

Lemma feeder_step vs c t c' :
  feeder_ok vs (gett c t) (qapp (getq c 0)) (qclosed (getq c 0)) ->
  0 < length (queues c) -> step c t = Some c' -> tph (gett c' t) <> PStuck ->
  feeder_ok vs (gett c' t) (qapp (getq c' 0)) (qclosed (getq c' 0)).
Proof.
  intros Hok Hq Hstep Hns. pose proof (step_some_lt _ _ _ Hstep) as Ht. unfold step in Hstep.
  destruct Hok as [rest Hph Hc Hl Happ Hcl|v rest Hph Hc Hl Happ Hcl|Hph Hc Hl Happ Hcl];
    rewrite Hph, Hc in Hstep.
  - destruct rest as [|v rest]; simpl in Hstep.
    + rewrite Hcl in Hstep. injection Hstep as <-. gs. simpl.
      apply FDone; simpl; auto. now rewrite app_nil_r in Happ.
    + injection Hstep as <-. gs. simpl.
      apply FSend with v rest; simpl; auto. now rewrite <- app_assoc.
  - rewrite Hcl in Hstep. destruct (qtok (getq c 0) <? qcap (getq c 0)); [|discriminate].
    injection Hstep as <-. gs. simpl. apply FIdle with rest; simpl; auto.
  - discriminate.
Qed.

Lemma feeder_ops vs th app closed k q : feeder_ok vs th app closed -> opof th = Some (k, q) ->
  q = 0 /\ closed = false /\ (k = KAdd \/ k = KSend \/ k = KClose).
Proof.
  intros Hok. unfold opof.
  destruct Hok as [rest Hph Hc Hl Happ Hcl|v rest Hph Hc Hl Happ Hcl|Hph Hc Hl Happ Hcl];
    rewrite Hph, ?Hc.
  - destruct rest; simpl; intros E; injection E as <- <-; auto.
  - intros E; injection E as <- <-; auto.
  - discriminate.
Qed.

(* ---------- reader of queue q: RemoveHead until ok = false ---------- *)
Inductive consumer_ok (q : nat) (th : thread) (pop : list Z) (closed : bool) (tok : nat) : Prop :=
| CIdle : tph th = PIdle -> tcalls th = [CRemoveHead q] -> tloop th = LConsumer q ->
    recv (tres th) = pop -> ~ saw_closed (tres th) -> consumer_ok q th pop closed tok
| CPop : tph th = PPop q -> tcalls th = [CRemoveHead q] -> tloop th = LConsumer q ->
    recv (tres th) = pop -> ~ saw_closed (tres th) -> consumer_ok q th pop closed tok
| CFin : tph th = PIdle -> tcalls th = [] -> tloop th = LNone -> saw_closed (tres th) ->
    recv (tres th) = pop -> closed = true -> tok = 0 -> consumer_ok q th pop closed tok.

Lemma saw_closed_app a r : saw_closed (a ++ [r]) -> saw_closed a \/ exists v, r = RHead v false.
Proof.
  intros [v H]. apply in_app_or in H. destruct H as [H|[H|[]]].
  - left. now exists v.
  - right. now exists v.
Qed.

Lemma consumer_step q c t c' :
  let s := getq c q in
  consumer_ok q (gett c t) (qpop s) (qclosed s) (qtok s) ->
  q < length (queues c) -> step c t = Some c' -> tph (gett c' t) <> PStuck ->
  let s' := getq c' q in
  consumer_ok q (gett c' t) (qpop s') (qclosed s') (qtok s').
Proof.
  intros s Hok Hq Hstep Hns. subst s. pose proof (step_some_lt _ _ _ Hstep) as Ht.
  unfold step in Hstep.
  destruct Hok as [Hph Hc Hl Hr Hs|Hph Hc Hl Hr Hs|Hph Hc Hl Hsaw Hr Hcl Htok]; rewrite Hph, Hc in Hstep.
  - destruct (0 <? qtok (getq c q)) eqn:Htok.
    + injection Hstep as <-. simpl. gs. simpl. apply CPop; auto.
    + destruct (qclosed (getq c q)) eqn:Hcl; [|discriminate]. injection Hstep as <-. simpl. gs.
      unfold finish_head. rewrite Hl. simpl.
      apply CFin; simpl; auto.
      * exists 0%Z. apply in_or_app. simpl. auto.
      * rewrite recv_app. simpl. now rewrite app_nil_r.
      * apply Nat.ltb_ge in Htok. lia.
  - unfold pop_head in Hstep. destruct (qvals (getq c q)) as [|x vals] eqn:Hv.
    + injection Hstep as <-. gs. simpl in Hns. rewrite gett_sett_same in Hns by auto.
      simpl in Hns. congruence.
    + injection Hstep as <-. simpl. gs. unfold finish_head. rewrite Hl. simpl.
      apply CIdle; simpl; auto.
      * rewrite recv_app. simpl. now rewrite Hr.
      * intros H. apply saw_closed_app in H. destruct H as [H|[v H]]; [auto|discriminate].
  - discriminate.
Qed.

Lemma consumer_ops q th pop closed tok k q' : consumer_ok q th pop closed tok ->
  opof th = Some (k, q') -> q' = q /\ (k = KTake \/ k = KPop).
Proof.
  intros Hok. unfold opof.
  destruct Hok as [Hph Hc Hl Hr Hs|Hph Hc Hl Hr Hs|Hph Hc Hl Hsaw Hr Hcl Htok]; rewrite Hph, ?Hc.
  - intros E; injection E as <- <-; auto.
  - intros E; injection E as <- <-; auto.
  - discriminate.
Qed.

Lemma consumer_frame q th pop closed tok pop' closed' tok' :
  consumer_ok q th pop closed tok -> pop' = pop ->
  (closed = true -> closed' = true /\ tok' = tok) ->
  consumer_ok q th pop' closed' tok'.
Proof.
  intros Hok -> H.
  destruct Hok as [Hph Hc Hl Hr Hs|Hph Hc Hl Hr Hs|Hph Hc Hl Hsaw Hr Hcl Htok].
  - now apply CIdle.
  - now apply CPop.
  - destruct (H Hcl) as [-> ->]. now apply CFin.
Qed.

(* ---------- the caller waiting for the helpers ---------- *)
Definition waiter_ok (th : thread) : Prop :=
  tph th = PIdle /\ tloop th = LNone /\ (tcalls th = [CWait] \/ tcalls th = []).

Lemma waiter_step c t c' : waiter_ok (gett c t) -> step c t = Some c' -> waiter_ok (gett c' t).
Proof.
  intros (Hph & Hl & [Hc|Hc]) Hstep; pose proof (step_some_lt _ _ _ Hstep) as Ht;
    unfold step in Hstep; rewrite Hph, Hc in Hstep; [|discriminate].
  destruct (wg c =? 0); [|discriminate]. injection Hstep as <-. gs. unfold waiter_ok. simpl. auto.
Qed.

Lemma waiter_ops th k q : waiter_ok th -> opof th = Some (k, q) -> False.
Proof. intros (Hph & Hl & [Hc|Hc]); unfold opof; rewrite Hph, Hc; discriminate. Qed.

(* ---------- the Fork helper ---------- *)
Lemma seq_S_cons m k : m < k -> seq (S m) (k - m) = S m :: seq (S (S m)) (k - S m).
Proof. intros H. replace (k - m) with (S (k - S m)) by lia. reflexivity. Qed.

Definition fork_calls (k m : nat) (v : Z) : list call :=
  map (fun o => CAdd o v) (seq (S m) (k - m)) ++ [CRemoveHead 0].
Definition close_calls (k m : nat) : list call := map CClose (seq (S m) (k - m)) ++ [CDone].

Inductive forkh_ok (vs : list Z) (k : nat) (th : thread) (pop0 : list Z) (cl0 : bool)
          (app : nat -> list Z) (cl : nat -> bool) : Prop :=
| HF_run m v : tph th = PIdle -> tcalls th = fork_calls k m v -> tloop th = LFork 0 (seq 1 k) ->
    m <= k -> (forall j, 1 <= j <= m -> app j = pop0) ->
    (forall j, m < j <= k -> app j ++ [v] = pop0) ->
    (forall j, 1 <= j <= k -> cl j = false) -> forkh_ok vs k th pop0 cl0 app cl
| HF_send m v : tph th = PSend (S m) -> tcalls th = fork_calls k m v ->
    tloop th = LFork 0 (seq 1 k) ->
    m < k -> (forall j, 1 <= j <= S m -> app j = pop0) ->
    (forall j, S m < j <= k -> app j ++ [v] = pop0) ->
    (forall j, 1 <= j <= k -> cl j = false) -> forkh_ok vs k th pop0 cl0 app cl
| HF_pop : tph th = PPop 0 -> tcalls th = [CRemoveHead 0] -> tloop th = LFork 0 (seq 1 k) ->
    (forall j, 1 <= j <= k -> app j = pop0) ->
    (forall j, 1 <= j <= k -> cl j = false) -> forkh_ok vs k th pop0 cl0 app cl
| HF_close m : tph th = PIdle -> tcalls th = close_calls k m -> tloop th = LNone -> m <= k ->
    (forall j, 1 <= j <= k -> app j = pop0) -> pop0 = vs -> cl0 = true ->
    (forall j, 1 <= j <= m -> cl j = true) -> (forall j, m < j <= k -> cl j = false) ->
    forkh_ok vs k th pop0 cl0 app cl
| HF_done : tph th = PIdle -> tcalls th = [] -> tloop th = LNone -> In RDoneWg (tres th) ->
    (forall j, 1 <= j <= k -> app j = pop0) -> pop0 = vs -> cl0 = true ->
    (forall j, 1 <= j <= k -> cl j = true) -> forkh_ok vs k th pop0 cl0 app cl.

Definition view_app (c : config) (j : nat) : list Z := qapp (getq c j).
Definition view_cl (c : config) (j : nat) : bool := qclosed (getq c j).
Definition view_pop (c : config) (j : nat) : list Z := qpop (getq c j).

Lemma forkh_step vs k c t c' :
  1 <= k ->
  forkh_ok vs k (gett c t) (qpop (getq c 0)) (qclosed (getq c 0)) (view_app c) (view_cl c) ->
  S k <= length (queues c) ->
  (tph (gett c t) = PIdle -> qclosed (getq c 0) = true -> qtok (getq c 0) = 0 ->
     qpop (getq c 0) = vs) ->
  step c t = Some c' -> tph (gett c' t) <> PStuck ->
  forkh_ok vs k (gett c' t) (qpop (getq c' 0)) (qclosed (getq c' 0)) (view_app c') (view_cl c').
Proof.
  intros Hk Hok Hq Hdrain Hstep Hns. pose proof (step_some_lt _ _ _ Hstep) as Ht.
  unfold step in Hstep. unfold view_app, view_cl in *.
  destruct Hok as [m v Hph Hc Hl Hm Ha1 Ha2 Hop|m v Hph Hc Hl Hm Ha1 Ha2 Hop|Hph Hc Hl Ha Hop
                  |m Hph Hc Hl Hm Ha Hvs Hc0 Hc1 Hc2|Hph Hc Hl Hdn Ha Hvs Hc0 Hc1];
    rewrite Hph, Hc in Hstep.
  - (* HF_run *)
    destruct (Nat.eq_dec m k) as [->|Hne].
    + unfold fork_calls in Hstep. rewrite Nat.sub_diag in Hstep. simpl in Hstep.
      destruct (0 <? qtok (getq c 0)) eqn:Htok.
      * injection Hstep as <-. gs. simpl.
        apply HF_pop; simpl; auto.
        -- unfold fork_calls in Hc. rewrite Nat.sub_diag in Hc. exact Hc.
        -- intros j Hj. gs. now apply Ha1.
        -- intros j Hj. gs. now apply Hop.
      * destruct (qclosed (getq c 0)) eqn:Hcl; [|discriminate]. injection Hstep as <-. gs.
        unfold finish_head. rewrite Hl. simpl.
        apply Nat.ltb_ge in Htok.
        apply HF_close with 0; simpl; auto; try lia.
        -- unfold close_calls. now rewrite Nat.sub_0_r.
        -- apply Hdrain; auto. lia.
    + unfold fork_calls in Hstep. rewrite seq_S_cons in Hstep by lia. simpl in Hstep.
      injection Hstep as <-. gs. simpl.
      apply HF_send with m v; simpl; auto; try lia.
      * intros j Hj. destruct (Nat.eq_dec j (S m)) as [->|Hn]; gs; simpl.
        -- apply Ha2. lia.
        -- apply Ha1. lia.
      * intros j Hj. gs. apply Ha2. lia.
      * intros j Hj. destruct (Nat.eq_dec j (S m)) as [->|Hn]; gs; simpl; apply Hop; lia.
  - (* HF_send *)
    unfold fork_calls in Hstep. rewrite seq_S_cons in Hstep by lia. simpl in Hstep.
    rewrite (Hop (S m)) in Hstep by lia.
    destruct (qtok (getq c (S m)) <? qcap (getq c (S m))); [|discriminate].
    injection Hstep as <-. gs. simpl.
    apply HF_run with (S m) v; simpl; auto.
    + intros j Hj. destruct (Nat.eq_dec j (S m)) as [->|Hn]; gs; simpl; apply Ha1; lia.
    + intros j Hj. gs. apply Ha2. lia.
    + intros j Hj. destruct (Nat.eq_dec j (S m)) as [->|Hn]; gs; simpl; auto.
  - (* HF_pop *)
    unfold pop_head in Hstep. destruct (qvals (getq c 0)) as [|x vals] eqn:Hv.
    + injection Hstep as <-. rewrite gett_sett_same in Hns by auto. simpl in Hns. congruence.
    + injection Hstep as <-. gs. unfold finish_head. rewrite Hl. simpl.
      apply HF_run with 0 x; simpl; auto; try lia.
      * unfold fork_calls. now rewrite Nat.sub_0_r.
      * intros j Hj. gs. rewrite Ha by lia. reflexivity.
      * intros j Hj. gs. apply Hop. lia.
  - (* HF_close *)
    destruct (Nat.eq_dec m k) as [->|Hne].
    + unfold close_calls in Hstep. rewrite Nat.sub_diag in Hstep. simpl in Hstep.
      injection Hstep as <-. gs.
      apply HF_done; simpl; auto. apply in_or_app; simpl; auto.
    + unfold close_calls in Hstep. rewrite seq_S_cons in Hstep by lia. simpl in Hstep.
      rewrite (Hc2 (S m)) in Hstep by lia.
      injection Hstep as <-. gs. simpl.
      apply HF_close with (S m); simpl; auto; try lia.
      * intros j Hj. destruct (Nat.eq_dec j (S m)) as [->|Hn]; gs; simpl; apply Ha; lia.
      * intros j Hj. destruct (Nat.eq_dec j (S m)) as [->|Hn]; gs; simpl; auto. apply Hc1. lia.
      * intros j Hj. gs. apply Hc2. lia.
  - discriminate.
Qed.

Lemma forkh_ops vs k th pop0 cl0 app cl kk q :
  forkh_ok vs k th pop0 cl0 app cl -> opof th = Some (kk, q) ->
  (q = 0 /\ (kk = KTake \/ kk = KPop)) \/
  (1 <= q <= k /\ (kk = KAdd \/ kk = KSend \/ kk = KClose) /\ cl q = false).
Proof.
  intros Hok. unfold opof.
  destruct Hok as [m v Hph Hc Hl Hm Ha1 Ha2 Hop|m v Hph Hc Hl Hm Ha1 Ha2 Hop|Hph Hc Hl Ha Hop
                  |m Hph Hc Hl Hm Ha Hvs Hc0 Hc1 Hc2|Hph Hc Hl Hdn Ha Hvs Hc0 Hc1];
    rewrite Hph, ?Hc.
  - destruct (Nat.eq_dec m k) as [->|Hne]; unfold fork_calls.
    + rewrite Nat.sub_diag. simpl. intros E; injection E as <- <-. auto.
    + rewrite seq_S_cons by lia. simpl. intros E; injection E as <- <-. right.
      split; [lia|]. split; auto. apply Hop. lia.
  - intros E; injection E as <- <-. right. split; [lia|]. split; auto. apply Hop. lia.
  - intros E; injection E as <- <-. auto.
  - destruct (Nat.eq_dec m k) as [->|Hne]; unfold close_calls.
    + rewrite Nat.sub_diag. simpl. discriminate.
    + rewrite seq_S_cons by lia. simpl. intros E; injection E as <- <-. right.
      split; [lia|]. split; auto. apply Hc2. lia.
  - discriminate.
Qed.

Lemma forkh_frame vs k th pop0 cl0 app cl pop0' cl0' app' cl' :
  forkh_ok vs k th pop0 cl0 app cl -> pop0' = pop0 -> (cl0 = true -> cl0' = true) ->
  (forall j, 1 <= j <= k -> app' j = app j /\ cl' j = cl j) ->
  forkh_ok vs k th pop0' cl0' app' cl'.
Proof.
  intros Hok -> H0 H.
  assert (Ha : forall j, 1 <= j <= k -> app' j = app j) by (intros; now apply H).
  assert (Hcl : forall j, 1 <= j <= k -> cl' j = cl j) by (intros; now apply H).
  destruct Hok as [m v Hph Hc Hl Hm Ha1 Ha2 Hop|m v Hph Hc Hl Hm Ha1 Ha2 Hop|Hph Hc Hl Ha0 Hop
                  |m Hph Hc Hl Hm Ha0 Hvs Hc0 Hc1 Hc2|Hph Hc Hl Hdn Ha0 Hvs Hc0 Hc1].
  - apply HF_run with m v; auto; intros j Hj; rewrite ?Ha, ?Hcl by lia; auto.
  - apply HF_send with m v; auto; intros j Hj; rewrite ?Ha, ?Hcl by lia; auto.
  - apply HF_pop; auto; intros j Hj; rewrite ?Ha, ?Hcl by lia; auto.
  - apply HF_close with m; auto; intros j Hj; rewrite ?Ha, ?Hcl by lia; auto.
  - apply HF_done; auto; intros j Hj; rewrite ?Ha, ?Hcl by lia; auto.
Qed.

(* ---------- the Split helper ---------- *)
(* D is the stream distributed so far (appended to the outputs); pop0 is what was taken from the input *)
Inductive splith_ok (vs : list Z) (k : nat) (th : thread) (pop0 : list Z) (cl0 : bool)
          (app : nat -> list Z) (cl : nat -> bool) (D : list Z) : Prop :=
| HS_idle cur : tph th = PIdle -> tcalls th = [CRemoveHead 0] ->
    tloop th = LSplit 0 (seq 1 k) cur -> cur = length pop0 mod k -> D = pop0 ->
    (forall j, 1 <= j <= k -> app j = rr k (pred j) D) ->
    (forall j, 1 <= j <= k -> cl j = false) -> splith_ok vs k th pop0 cl0 app cl D
| HS_pop cur : tph th = PPop 0 -> tcalls th = [CRemoveHead 0] ->
    tloop th = LSplit 0 (seq 1 k) cur -> cur = length pop0 mod k -> D = pop0 ->
    (forall j, 1 <= j <= k -> app j = rr k (pred j) D) ->
    (forall j, 1 <= j <= k -> cl j = false) -> splith_ok vs k th pop0 cl0 app cl D
| HS_add v cu cur : tph th = PIdle -> tcalls th = [CAdd (S cu) v; CRemoveHead 0] ->
    tloop th = LSplit 0 (seq 1 k) cur -> cur = length pop0 mod k -> pop0 = D ++ [v] ->
    cu = length D mod k ->
    (forall j, 1 <= j <= k -> app j = rr k (pred j) D) ->
    (forall j, 1 <= j <= k -> cl j = false) -> splith_ok vs k th pop0 cl0 app cl D
| HS_send v cu cur : tph th = PSend (S cu) -> tcalls th = [CAdd (S cu) v; CRemoveHead 0] ->
    tloop th = LSplit 0 (seq 1 k) cur -> cur = length pop0 mod k -> D = pop0 -> cu < k ->
    (forall j, 1 <= j <= k -> app j = rr k (pred j) D) ->
    (forall j, 1 <= j <= k -> cl j = false) -> splith_ok vs k th pop0 cl0 app cl D
| HS_close m : tph th = PIdle -> tcalls th = close_calls k m -> tloop th = LNone -> m <= k ->
    D = pop0 -> (forall j, 1 <= j <= k -> app j = rr k (pred j) D) -> pop0 = vs -> cl0 = true ->
    (forall j, 1 <= j <= m -> cl j = true) -> (forall j, m < j <= k -> cl j = false) ->
    splith_ok vs k th pop0 cl0 app cl D
| HS_done : tph th = PIdle -> tcalls th = [] -> tloop th = LNone -> In RDoneWg (tres th) ->
    D = pop0 -> (forall j, 1 <= j <= k -> app j = rr k (pred j) D) -> pop0 = vs -> cl0 = true ->
    (forall j, 1 <= j <= k -> cl j = true) -> splith_ok vs k th pop0 cl0 app cl D.

Lemma nth_seq1 cu k : cu < k -> nth cu (seq 1 k) 0 = S cu.
Proof. intros H. now rewrite seq_nth. Qed.

Lemma splith_step vs k c t c' D :
  1 <= k ->
  splith_ok vs k (gett c t) (qpop (getq c 0)) (qclosed (getq c 0)) (view_app c) (view_cl c) D ->
  S k <= length (queues c) ->
  (tph (gett c t) = PIdle -> qclosed (getq c 0) = true -> qtok (getq c 0) = 0 ->
     qpop (getq c 0) = vs) ->
  step c t = Some c' -> tph (gett c' t) <> PStuck ->
  exists D', prefix D D' /\ splith_ok vs k (gett c' t) (qpop (getq c' 0)) (qclosed (getq c' 0))
                       (view_app c') (view_cl c') D'.
Proof.
  intros Hk Hok Hq Hdrain Hstep Hns. pose proof (step_some_lt _ _ _ Hstep) as Ht.
  unfold step in Hstep. unfold view_app, view_cl in *.
  destruct Hok as [cur Hph Hc Hl Hcur HD Ha Hop|cur Hph Hc Hl Hcur HD Ha Hop
                  |v cu cur Hph Hc Hl Hcur HD Hcu Ha Hop|v cu cur Hph Hc Hl Hcur HD Hcu Ha Hop
                  |m Hph Hc Hl Hm HD Ha Hvs Hc0 Hc1 Hc2|Hph Hc Hl Hdn HD Ha Hvs Hc0 Hc1];
    rewrite Hph, Hc in Hstep.
  - (* HS_idle *)
    destruct (0 <? qtok (getq c 0)) eqn:Htok.
    + injection Hstep as <-. exists D. split; [apply prefix_refl|]. gs. simpl.
      apply HS_pop with cur; simpl; auto; intros j Hj; gs; auto.
    + destruct (qclosed (getq c 0)) eqn:Hcl; [|discriminate]. injection Hstep as <-. exists D. split; [apply prefix_refl|]. gs.
      unfold finish_head. rewrite Hl. simpl. apply Nat.ltb_ge in Htok.
      apply HS_close with 0; simpl; auto; try lia.
      * unfold close_calls. now rewrite Nat.sub_0_r.
      * apply Hdrain; auto. lia.
  - (* HS_pop *)
    unfold pop_head in Hstep. destruct (qvals (getq c 0)) as [|x vals] eqn:Hv.
    + injection Hstep as <-. rewrite gett_sett_same in Hns by auto. simpl in Hns. congruence.
    + injection Hstep as <-. exists D. split; [apply prefix_refl|]. gs. unfold finish_head. rewrite Hl. simpl.
      assert (Hlt : cur < k) by (subst cur; apply Nat.mod_upper_bound; lia).
      rewrite nth_seq1 by auto. rewrite seq_length.
      apply HS_add with x cur (if S cur <? k then S cur else 0); simpl; auto.
      * rewrite app_length. simpl. rewrite Nat.add_1_r. rewrite mod_succ by lia. now rewrite <- Hcur.
      * now rewrite HD.
      * now rewrite HD.
      * intros j Hj. gs. now apply Ha.
      * intros j Hj. gs. now apply Hop.
  - (* HS_add *)
    injection Hstep as <-. exists (D ++ [v]). split; [apply prefix_app_l|]. gs. simpl.
    assert (Hlt : cu < k) by (subst cu; apply Nat.mod_upper_bound; lia).
    apply HS_send with v cu cur; simpl; auto.
    + intros j Hj. rewrite rr_snoc. rewrite <- Hcu.
      destruct (Nat.eq_dec j (S cu)) as [->|Hn]; gs; simpl.
      * rewrite Nat.eqb_refl. now rewrite Ha by lia.
      * destruct (Nat.eqb_spec cu (pred j)); [lia|]. apply Ha. lia.
    + intros j Hj. destruct (Nat.eq_dec j (S cu)) as [->|Hn]; gs; simpl; apply Hop; lia.
  - (* HS_send *)
    rewrite (Hop (S cu)) in Hstep by lia.
    destruct (qtok (getq c (S cu)) <? qcap (getq c (S cu))); [|discriminate].
    injection Hstep as <-. exists D. split; [apply prefix_refl|]. gs. simpl.
    apply HS_idle with cur; simpl; auto.
    + intros j Hj. destruct (Nat.eq_dec j (S cu)) as [->|Hn]; gs; simpl; apply Ha; lia.
    + intros j Hj. destruct (Nat.eq_dec j (S cu)) as [->|Hn]; gs; simpl; auto.
  - (* HS_close *)
    destruct (Nat.eq_dec m k) as [->|Hne].
    + unfold close_calls in Hstep. rewrite Nat.sub_diag in Hstep. simpl in Hstep.
      injection Hstep as <-. exists D. split; [apply prefix_refl|]. gs.
      apply HS_done; simpl; auto. apply in_or_app; simpl; auto.
    + unfold close_calls in Hstep. rewrite seq_S_cons in Hstep by lia. simpl in Hstep.
      rewrite (Hc2 (S m)) in Hstep by lia.
      injection Hstep as <-. exists D. split; [apply prefix_refl|]. gs. simpl.
      apply HS_close with (S m); simpl; auto; try lia.
      * intros j Hj. destruct (Nat.eq_dec j (S m)) as [->|Hn]; gs; simpl; apply Ha; lia.
      * intros j Hj. destruct (Nat.eq_dec j (S m)) as [->|Hn]; gs; simpl; auto. apply Hc1. lia.
      * intros j Hj. gs. apply Hc2. lia.
  - discriminate.
Qed.

Lemma splith_ops vs k th pop0 cl0 app cl D kk q :
  1 <= k ->
  splith_ok vs k th pop0 cl0 app cl D -> opof th = Some (kk, q) ->
  (q = 0 /\ (kk = KTake \/ kk = KPop)) \/
  (1 <= q <= k /\ (kk = KAdd \/ kk = KSend \/ kk = KClose) /\ cl q = false).
Proof.
  intros Hk Hok. unfold opof.
  destruct Hok as [cur Hph Hc Hl Hcur HD Ha Hop|cur Hph Hc Hl Hcur HD Ha Hop
                  |v cu cur Hph Hc Hl Hcur HD Hcu Ha Hop|v cu cur Hph Hc Hl Hcur HD Hcu Ha Hop
                  |m Hph Hc Hl Hm HD Ha Hvs Hc0 Hc1 Hc2|Hph Hc Hl Hdn HD Ha Hvs Hc0 Hc1];
    rewrite Hph, ?Hc.
  - intros E; injection E as <- <-. auto.
  - intros E; injection E as <- <-. auto.
  - assert (Hlt : cu < k) by (subst cu; apply Nat.mod_upper_bound; lia).
    intros E; injection E as <- <-. right. split; [lia|]. split; auto. apply Hop. lia.
  - intros E; injection E as <- <-. right. split; [lia|]. split; auto. apply Hop. lia.
  - destruct (Nat.eq_dec m k) as [->|Hne]; unfold close_calls.
    + rewrite Nat.sub_diag. simpl. discriminate.
    + rewrite seq_S_cons by lia. simpl. intros E; injection E as <- <-. right.
      split; [lia|]. split; auto. apply Hc2. lia.
  - discriminate.
Qed.

Lemma splith_frame vs k th pop0 cl0 app cl D pop0' cl0' app' cl' :
  splith_ok vs k th pop0 cl0 app cl D -> pop0' = pop0 -> (cl0 = true -> cl0' = true) ->
  (forall j, 1 <= j <= k -> app' j = app j /\ cl' j = cl j) ->
  splith_ok vs k th pop0' cl0' app' cl' D.
Proof.
  intros Hok -> H0 H.
  assert (Ha' : forall j, 1 <= j <= k -> app' j = app j) by (intros; now apply H).
  assert (Hcl : forall j, 1 <= j <= k -> cl' j = cl j) by (intros; now apply H).
  destruct Hok as [cur Hph Hc Hl Hcur HD Ha Hop|cur Hph Hc Hl Hcur HD Ha Hop
                  |v cu cur Hph Hc Hl Hcur HD Hcu Ha Hop|v cu cur Hph Hc Hl Hcur HD Hcu Ha Hop
                  |m Hph Hc Hl Hm HD Ha Hvs Hc0 Hc1 Hc2|Hph Hc Hl Hdn HD Ha Hvs Hc0 Hc1].
  - apply HS_idle with cur; auto; intros j Hj; rewrite ?Ha', ?Hcl by lia; auto.
  - apply HS_pop with cur; auto; intros j Hj; rewrite ?Ha', ?Hcl by lia; auto.
  - apply HS_add with v cu cur; auto; intros j Hj; rewrite ?Ha', ?Hcl by lia; auto.
  - apply HS_send with v cu cur; auto; intros j Hj; rewrite ?Ha', ?Hcl by lia; auto.
  - apply HS_close with m; auto; intros j Hj; rewrite ?Ha', ?Hcl by lia; auto.
  - apply HS_done; auto; intros j Hj; rewrite ?Ha', ?Hcl by lia; auto.
Qed.

Lemma splith_facts vs k th pop0 cl0 app cl D :
  splith_ok vs k th pop0 cl0 app cl D ->
  prefix D pop0 /\ (forall j, 1 <= j <= k -> app j = rr k (pred j) D).
Proof.
  intros Hok.
  destruct Hok as [cur Hph Hc Hl Hcur HD Ha Hop|cur Hph Hc Hl Hcur HD Ha Hop
                  |v cu cur Hph Hc Hl Hcur HD Hcu Ha Hop|v cu cur Hph Hc Hl Hcur HD Hcu Ha Hop
                  |m Hph Hc Hl Hm HD Ha Hvs Hc0 Hc1 Hc2|Hph Hc Hl Hdn HD Ha Hvs Hc0 Hc1];
    split; auto; subst; try apply prefix_refl. apply prefix_app_l.
Qed.

(* ---------- the Join helper ---------- *)
(* F is the stream forwarded so far (appended or about to be appended to the output S k) *)
Definition join_loop (k cur : nat) : loop := LJoin (seq 1 k) cur (S k).
Inductive joinh_ok (vs : list Z) (k : nat) (th : thread) (pops : nat -> list Z)
          (appo : list Z) (clo : bool) (F : list Z) : Prop :=
| HJ_idle cur : tph th = PIdle -> tcalls th = [CRemoveHead (S cur)] -> tloop th = join_loop k cur ->
    cur = length F mod k -> F = appo -> clo = false ->
    (forall j, 1 <= j <= k -> pops j = rr k (pred j) F) -> joinh_ok vs k th pops appo clo F
| HJ_pop cur : tph th = PPop (S cur) -> tcalls th = [CRemoveHead (S cur)] ->
    tloop th = join_loop k cur ->
    cur = length F mod k -> F = appo -> clo = false ->
    (forall j, 1 <= j <= k -> pops j = rr k (pred j) F) -> joinh_ok vs k th pops appo clo F
| HJ_add v cur : tph th = PIdle -> tcalls th = [CAdd (S k) v; CRemoveHead (S cur)] ->
    tloop th = join_loop k cur ->
    cur = length F mod k -> F = appo ++ [v] -> clo = false ->
    (forall j, 1 <= j <= k -> pops j = rr k (pred j) F) -> joinh_ok vs k th pops appo clo F
| HJ_send v cur : tph th = PSend (S k) -> tcalls th = [CAdd (S k) v; CRemoveHead (S cur)] ->
    tloop th = join_loop k cur ->
    cur = length F mod k -> F = appo -> clo = false ->
    (forall j, 1 <= j <= k -> pops j = rr k (pred j) F) -> joinh_ok vs k th pops appo clo F
| HJ_close : tph th = PIdle -> tcalls th = [CClose (S k); CDone] -> tloop th = LNone ->
    F = appo -> F = vs -> clo = false ->
    (forall j, 1 <= j <= k -> pops j = rr k (pred j) F) -> joinh_ok vs k th pops appo clo F
| HJ_done1 : tph th = PIdle -> tcalls th = [CDone] -> tloop th = LNone ->
    F = appo -> F = vs -> clo = true ->
    (forall j, 1 <= j <= k -> pops j = rr k (pred j) F) -> joinh_ok vs k th pops appo clo F
| HJ_done : tph th = PIdle -> tcalls th = [] -> tloop th = LNone -> In RDoneWg (tres th) ->
    F = appo -> F = vs -> clo = true ->
    (forall j, 1 <= j <= k -> pops j = rr k (pred j) F) -> joinh_ok vs k th pops appo clo F.

Lemma joinh_step vs k c t c' F :
  1 <= k ->
  joinh_ok vs k (gett c t) (view_pop c) (qapp (getq c (S k))) (qclosed (getq c (S k))) F ->
  S (S k) <= length (queues c) ->
  (forall cur, tph (gett c t) = PIdle -> tcalls (gett c t) = [CRemoveHead (S cur)] ->
     cur = length F mod k ->
     qclosed (getq c (S cur)) = true -> qtok (getq c (S cur)) = 0 -> F = vs) ->
  step c t = Some c' -> tph (gett c' t) <> PStuck ->
  exists F', joinh_ok vs k (gett c' t) (view_pop c') (qapp (getq c' (S k)))
                      (qclosed (getq c' (S k))) F' /\
     (F' = F \/ exists x cur vals, F' = F ++ [x] /\ cur = length F mod k /\
                  qvals (getq c (S cur)) = x :: vals).
Proof.
  intros Hk Hok Hq Hdrain Hstep Hns. pose proof (step_some_lt _ _ _ Hstep) as Ht.
  unfold step in Hstep. unfold view_pop in *.
  destruct Hok as [cur Hph Hc Hl Hcur HF Hcl Hp|cur Hph Hc Hl Hcur HF Hcl Hp
                  |v cur Hph Hc Hl Hcur HF Hcl Hp|v cur Hph Hc Hl Hcur HF Hcl Hp
                  |Hph Hc Hl HF Hvs Hcl Hp|Hph Hc Hl HF Hvs Hcl Hp|Hph Hc Hl Hdn HF Hvs Hcl Hp];
    pose proof Hc as Hc'; rewrite Hph, Hc in Hstep.
  - (* HJ_idle *)
    assert (Hlt : cur < k) by (subst cur; apply Nat.mod_upper_bound; lia).
    destruct (0 <? qtok (getq c (S cur))) eqn:Htok.
    + injection Hstep as <-. exists F. split; [|now left]. gs. simpl.
      apply HJ_pop with cur; simpl; auto.
      intros j Hj. destruct (Nat.eq_dec j (S cur)) as [->|Hn]; gs; simpl; apply Hp; lia.
    + destruct (qclosed (getq c (S cur))) eqn:Hcl'; [|discriminate]. injection Hstep as <-.
      exists F. split; [|now left]. gs. unfold finish_head. rewrite Hl. simpl. apply Nat.ltb_ge in Htok.
      apply HJ_close; simpl; auto.
      apply Hdrain with cur; auto. lia.
  - (* HJ_pop *)
    assert (Hlt : cur < k) by (subst cur; apply Nat.mod_upper_bound; lia).
    unfold pop_head in Hstep. destruct (qvals (getq c (S cur))) as [|x vals] eqn:Hv.
    + injection Hstep as <-. rewrite gett_sett_same in Hns by auto. simpl in Hns. congruence.
    + injection Hstep as <-. exists (F ++ [x]). split; [|right; exists x, cur, vals; auto]. gs. unfold finish_head. rewrite Hl. simpl.
      rewrite seq_length.
      assert (Hlt' : (if S cur <? k then S cur else 0) < k) by (destruct (Nat.ltb_spec (S cur) k); lia).
      rewrite nth_seq1 by auto.
      apply HJ_add with x (if S cur <? k then S cur else 0); simpl; auto.
      * rewrite app_length. simpl. rewrite Nat.add_1_r. rewrite mod_succ by lia. now rewrite <- Hcur.
      * now rewrite HF.
      * intros j Hj. rewrite rr_snoc. rewrite <- Hcur.
        destruct (Nat.eq_dec j (S cur)) as [->|Hn]; gs; simpl.
        -- rewrite Nat.eqb_refl. now rewrite Hp by lia.
        -- destruct (Nat.eqb_spec cur (pred j)); [lia|]. apply Hp. lia.
  - (* HJ_add *)
    injection Hstep as <-. exists F. split; [|now left]. gs. simpl.
    apply HJ_send with v cur; simpl; auto.
    intros j Hj. gs. now apply Hp.
  - (* HJ_send *)
    rewrite Hcl in Hstep.
    destruct (qtok (getq c (S k)) <? qcap (getq c (S k))); [|discriminate].
    injection Hstep as <-. exists F. split; [|now left]. gs. simpl.
    apply HJ_idle with cur; simpl; auto.
    intros j Hj. gs. now apply Hp.
  - (* HJ_close *)
    rewrite Hcl in Hstep. injection Hstep as <-. exists F. split; [|now left]. gs. simpl.
    apply HJ_done1; simpl; auto. intros j Hj. gs. now apply Hp.
  - injection Hstep as <-. exists F. split; [|now left]. gs. apply HJ_done; simpl; auto. apply in_or_app; simpl; auto.
  - discriminate.
Qed.

Lemma joinh_ops vs k th pops appo clo F kk q :
  1 <= k ->
  joinh_ok vs k th pops appo clo F -> opof th = Some (kk, q) ->
  (1 <= q <= k /\ (kk = KTake \/ kk = KPop)) \/
  (q = S k /\ (kk = KAdd \/ kk = KSend \/ kk = KClose) /\ clo = false).
Proof.
  intros Hk Hok. unfold opof.
  destruct Hok as [cur Hph Hc Hl Hcur HF Hcl Hp|cur Hph Hc Hl Hcur HF Hcl Hp
                  |v cur Hph Hc Hl Hcur HF Hcl Hp|v cur Hph Hc Hl Hcur HF Hcl Hp
                  |Hph Hc Hl HF Hvs Hcl Hp|Hph Hc Hl HF Hvs Hcl Hp|Hph Hc Hl Hdn HF Hvs Hcl Hp];
    rewrite Hph, ?Hc; try discriminate;
    try (assert (Hlt : cur < k) by (subst cur; apply Nat.mod_upper_bound; lia));
    intros E; injection E as <- <-; auto.
  all: try (left; split; [lia|auto]).
  all: try (right; split; auto; fail).

Qed.

Lemma joinh_frame vs k th pops appo clo F pops' appo' clo' :
  joinh_ok vs k th pops appo clo F -> appo' = appo -> clo' = clo ->
  (forall j, 1 <= j <= k -> pops' j = pops j) ->
  joinh_ok vs k th pops' appo' clo' F.
Proof.
  intros Hok -> -> H.
  destruct Hok as [cur Hph Hc Hl Hcur HF Hcl Hp|cur Hph Hc Hl Hcur HF Hcl Hp
                  |v cur Hph Hc Hl Hcur HF Hcl Hp|v cur Hph Hc Hl Hcur HF Hcl Hp
                  |Hph Hc Hl HF Hvs Hcl Hp|Hph Hc Hl HF Hvs Hcl Hp|Hph Hc Hl Hdn HF Hvs Hcl Hp].
  - apply HJ_idle with cur; auto; intros j Hj; rewrite H by lia; auto.
  - apply HJ_pop with cur; auto; intros j Hj; rewrite H by lia; auto.
  - apply HJ_add with v cur; auto; intros j Hj; rewrite H by lia; auto.
  - apply HJ_send with v cur; auto; intros j Hj; rewrite H by lia; auto.
  - apply HJ_close; auto; intros j Hj; rewrite H by lia; auto.
  - apply HJ_done1; auto; intros j Hj; rewrite H by lia; auto.
  - apply HJ_done; auto; intros j Hj; rewrite H by lia; auto.
Qed.
