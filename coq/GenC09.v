(* GenC09.v — property C09 for the GENERATED sorter (GenSrc.v, regenerated from v4/agent/sorter.go), continuing
   GenSort.v (mergeArrays = Sorter.merge; one chunk of a pass): the inner loop is Sorter.pass, the outer loop with the
   exchange of the two arrays is Sorter.sort_loop, SortValues = Sorter.sort_values for EVERY ranker, in place in the
   caller's slice; ReverseValues = Sorter.reverse_values; the Sort/Reverse methods of array_ and list_.
   Not part of the common build: compiled by ./check C09 after GenSort.v. *)
From Verif Require Import Base Sorter Seq SeqProofs SorterProofs MiniGo GenSrc GenRep GenLib GenSort.

Section GenC09.
Variable A : Type.
Variable zero : A.
Variable rank : A -> A -> comparison.
Notation ext := (rank_ext rank).
Notation call_at F := (i_call (interp_at A zero ext prog F)).
Notation seg := (GenSort.seg A).
Notation wtag := (GenSort.wtag A).

Section Pass.
Variables (cls : val A) (t : bool) (B : list A) (n w : nat).
Hypothesis HB : length B = n.
Hypothesis HW : 1 <= w.
Notation pi_run := (GenSort.pi_run A zero rank cls t B n w).
Notation pi_env := (GenSort.pi_env A cls t B n w).
Notation pi_exit := (GenSort.pi_exit A zero rank cls t B n w HB HW).
Notation pi_step := (GenSort.pi_step A zero rank cls t B n w HB HW).
Notation seg_length := (GenSort.seg_length A B n w HB HW).

Lemma firstn_min (k : nat) (l : list A) : firstn k l = firstn (Nat.min k (length l)) l.
Proof.
  destruct (le_gt_dec k (length l)); [rewrite Nat.min_l by lia; reflexivity|].
  rewrite Nat.min_r by lia. rewrite !firstn_all2 by lia. reflexivity.
Qed.

(* the inner loop is Sorter.pass on the buffer, written chunk by chunk into values; k bounds the chunks left *)
Lemma pi_sim : forall k left V T F, length V = n -> n <= left + k * (2 * w) -> k + n + 201 <= F ->
  exists left' T', pi_run F V left T =
    ROk (SgNormal, pi_env (firstn left V ++ pass rank k w (skipn left B)) left' ++ T').
Proof.
  induction k as [|k IH]; intros left V T F HV HK HF; (destruct F as [|F]; [lia|]).
  - rewrite pi_exit by lia. cbn [pass]. rewrite skipn_all2, app_nil_r, firstn_all2 by lia. eexists _, _. reflexivity.
  - destruct (le_gt_dec n left) as [HE|HE].
    + rewrite pi_exit by lia. rewrite (skipn_all2 B) by lia. rewrite (pass_nil rank), app_nil_r, firstn_all2 by lia.
      eexists _, _. reflexivity.
    + set (middle := Nat.min (left + w) n). set (right := Nat.min (middle + w) n).
      destruct (pi_step F V left T middle right eq_refl eq_refl ltac:(lia) HV ltac:(lia)) as [T1 ST]. rewrite ST.
      set (M1 := merge rank (right - left) (seg B left middle) (seg B middle right)).
      assert (LM1 : length M1 = right - left).
      { unfold M1. rewrite (merge_length0 rank) by (rewrite !seg_length by lia; lia). rewrite !seg_length by lia. lia. }
      set (V1 := firstn left V ++ M1 ++ skipn right V).
      assert (LV1 : length V1 = n) by (unfold V1; rewrite !app_length, firstn_length, skipn_length, LM1; lia).
      destruct (IH (left + 2 * w) V1 T1 F LV1 ltac:(lia) ltac:(lia)) as [left' [T' RUN]]. rewrite RUN.
      exists left', T'. do 3 f_equal.
      (* the list algebra: one chunk of Sorter.pass *)
      assert (NE : skipn left B <> []) by (intros E; apply (f_equal (@length A)) in E; rewrite skipn_length in E; cbn in E; lia).
      rewrite (pass_S_cons rank k w (skipn left B) NE).
      assert (E1 : firstn w (skipn left B) = seg B left middle).
      { unfold seg. rewrite firstn_min, skipn_length. f_equal. lia. }
      assert (E2 : firstn w (skipn w (skipn left B)) = seg B middle right).
      { rewrite (skipn_skipn' A). unfold seg. destruct (le_gt_dec (left + w) n).
        - replace middle with (left + w) by lia. rewrite firstn_min, skipn_length. f_equal. lia.
        - rewrite !(skipn_all2 B) by lia. destruct w, (right - middle); reflexivity. }
      rewrite E1, E2, !seg_length by lia. replace (middle - left + (right - middle)) with (right - left) by lia. fold M1.
      rewrite (skipn_skipn' A). replace (left + 2 * w) with (left + (w + w)) by lia.
      replace (left + (w + w)) with (left + 2 * w) by lia.
      unfold V1. f_equal.
      assert (EF : firstn (left + 2 * w) (firstn left V ++ M1 ++ skipn right V) ++ pass rank k w (skipn (left + 2 * w) B) =
                   (firstn left V ++ M1) ++ pass rank k w (skipn (left + 2 * w) B)).
      { destruct (le_gt_dec (left + 2 * w) n) as [C|C].
        - assert (right = left + 2 * w) by lia. f_equal.
          rewrite app_assoc, firstn_app.
          rewrite (firstn_all2 (firstn left V ++ M1)) by (rewrite app_length, firstn_length, LM1; lia).
          rewrite app_length, firstn_length, LM1. replace (left + 2 * w - (Init.Nat.min left (length V) + (right - left))) with 0 by lia.
          cbn [firstn]. apply app_nil_r.
        - assert (right = n) by lia. rewrite (skipn_all2 V) by lia. rewrite app_nil_r.
          rewrite firstn_all2 by (rewrite app_length, firstn_length, LM1; lia). reflexivity. }
      rewrite EF, <- app_assoc. reflexivity.
Qed.
End Pass.

(* ---------- the outer loop: "for width := 1; width < length; width *= 2 { pass; buffer, values = values, buffer }" ---------- *)
Definition po_cond : option expr := Eval cbv in match sv_outer with SFor _ c _ _ => c | _ => None end.
Definition po_post : option stmt := Eval cbv in match sv_outer with SFor _ _ p _ => p | _ => None end.
Definition po_body : list stmt := Eval cbv in match sv_outer with SFor _ _ _ b => b | _ => [] end.

Section Outer.
Variables (cls : val A) (n : nat).
(* X: what the variable buffer holds (the source of the next pass), Y: what values holds; t: the caller's array is
   the one values holds *)
Definition po_env (t : bool) (X Y : list A) (w : nat) : env A :=
  [(1%positive, srt_val cls); (2%positive, wtag t (VSlice (elems Y))); (3%positive, VInt (Z.of_nat n));
   (4%positive, wtag (negb t) (VSlice (elems X))); (5%positive, VInt (Z.of_nat w))].
Definition po_run F t X Y w T := i_loop (interp_at A zero ext prog F) po_cond po_post po_body (po_env t X Y w ++ T).
(* the variables of the inner loop, once declared, stay where they are: left is the first of them *)
Definition tail_ok (T : env A) : Prop := T = [] \/ exists x T0, T = (6%positive, x) :: T0.

Lemma po_exit F t X Y w T : 30 <= F -> n <= w ->
  po_run (S F) t X Y w T = ROk (SgNormal, po_env t X Y w ++ T).
Proof.
  intros HF H. unfold po_run. rewrite loop_S; unfold loop_step. fuel F 30. unfold po_cond, po_post, po_body, po_env. gogo. reflexivity.
Qed.

Lemma po_step F t X Y w T : 2 * n + 300 <= F -> length X = n -> length Y = n -> 1 <= w -> w < n -> tail_ok T ->
  exists T', po_run (S F) t X Y w T = po_run F (negb t) (pass rank n w X) X (2 * w) T' /\ tail_ok T'.
Proof.
  intros HF HX HY HW HL HT.
  unfold po_run. rewrite loop_S; unfold loop_step. fuel F 40. unfold po_cond, po_post, po_body, po_env.
  assert (S6 : exists T0, set 6%positive (VInt 0) T = (6%positive, VInt 0) :: T0 :> env A).
  { destruct HT as [->|[x [T0 ->]]]; eexists; reflexivity. }
  destruct S6 as [T0 S6].
  gogo. rewrite S6.
  match goal with |- context[i_loop (interp_at A zero ext prog ?FF) ?c ?p ?b ?en] =>
    destruct (pi_sim cls t X n w HX HW n 0 Y T0 FF HY ltac:(nia) ltac:(lia)) as [left' [T1 RUN]];
    change (i_loop (interp_at A zero ext prog FF) c p b en) with (GenSort.pi_run A zero rank cls t X n w FF Y 0 T0)
  end.
  rewrite RUN. cbn [firstn skipn app]. unfold GenSort.pi_env, GenSort.wtag.
  destruct t; cbn [negb]; gorun.
  all: eexists; split; [replace (Z.of_nat w * 2)%Z with (Z.of_nat (2 * w)) by lia; reflexivity|right; eexists _, _; reflexivity].
Qed.

(* the passes are Sorter.sort_loop; [f] is the model's fuel, enough for the width to reach n (n <= w * 2^f) *)
Lemma po_sim : forall f w t X Y T F, length X = n -> length Y = n -> 1 <= w -> n <= w * 2 ^ f -> tail_ok T ->
  f + 2 * n + 301 <= F ->
  exists t' Y' w' T', po_run F t X Y w T = ROk (SgNormal, po_env t' (sort_loop rank f w X) Y' w' ++ T') /\ length Y' = n.
Proof.
  induction f as [|f IH]; intros w t X Y T F HX HY HW HE HT HF; (destruct F as [|F]; [lia|]); cbn [sort_loop].
  - rewrite po_exit by (cbn in HE; lia). eexists _, _, _, _. split; [reflexivity|exact HY].
  - rewrite HX. destruct (Nat.ltb_spec w n) as [HL|HL].
    + destruct (po_step F t X Y w T ltac:(lia) HX HY HW HL HT) as [T1 [ST HT1]]. rewrite ST.
      apply IH; try assumption; try lia.
      * rewrite (pass_length0 rank). exact HX.
      * cbn [Nat.pow] in HE. nia.
    + rewrite po_exit by lia. eexists _, _, _, _. split; [reflexivity|exact HY].
Qed.
End Outer.

Lemma pow2_ge (n : nat) : n <= 1 * 2 ^ n.
Proof. pose proof (Nat.pow_gt_lin_r 2 n ltac:(lia)). lia. Qed.

(* sortValues(values) = Sorter.sort_values, in place: handed back as written-back parameter 1 *)
Lemma gen_sortValues cls (tg : bool) V F : (Z.of_nat (length V) < two63)%Z -> 3 * length V + 400 <= F ->
  call_at F (srt_val cls) id_sortValues [wtag tg (VSlice (elems V))] =
  ROk (VTuple [], VWb (srt_val cls) [(1, VSlice (elems (sort_values rank V)))]).
Proof.
  intros HL HF. unfold sort_values. fuel F 60. destruct tg; cbn [GenSort.wtag]; gocall; rewrite !elems_length; gogo.
  all: rewrite Nat2Z.id; rewrite zcopy_same by (rewrite repeat_length, elems_length; reflexivity).
  all: match goal with |- context[i_loop (interp_at A zero ext prog ?FF) ?c ?p ?b ?en] =>
    destruct (po_sim cls (length V) (length V) 1 true V V [] FF eq_refl eq_refl ltac:(lia) (pow2_ge _) ltac:(left; reflexivity) ltac:(lia))
      as [t' [Y' [w' [T' [RUN LY]]]]];
    change (i_loop (interp_at A zero ext prog FF) c p b en) with (po_run cls (length V) FF true V V 1 [])
  end.
  all: rewrite RUN; unfold po_env, GenSort.wtag.
  all: assert (LS : length (sort_loop rank (length V) 1 V) = length V) by apply (sort_length A rank V).
  all: destruct t'; cbn [negb]; gorun.
  all: rewrite ?zcopy_same by (rewrite !elems_length; unfold sort_values in LS; lia); reflexivity.
Qed.

Lemma gen_SortValues cls V F : (Z.of_nat (length V) < two63)%Z -> 3 * length V + 420 <= F ->
  call_at F (srt_val cls) id_SortValues [VSlice (elems V)] =
  ROk (VTuple [], VWb (srt_val cls) [(1, VSlice (elems (sort_values rank V)))]).
Proof.
  intros HL HF. fuel F 10. gocall. rewrite (gen_sortValues cls true V) by lia. gorun. reflexivity.
Qed.

(* ---------- ReverseValues: "for index := 0; index < half; index++ { values[index], values[length-index-1] = .. }" ---------- *)
Definition rv_loop : stmt := nth 2 (fn_body fn_sorter__ReverseValues) SBreak.
Definition rv_cond : option expr := Eval cbv in match rv_loop with SFor _ c _ _ => c | _ => None end.
Definition rv_post : option stmt := Eval cbv in match rv_loop with SFor _ _ p _ => p | _ => None end.
Definition rv_body : list stmt := Eval cbv in match rv_loop with SFor _ _ _ b => b | _ => [] end.
Definition rv_env cls (n half : nat) (V : list A) (idx : nat) : env A :=
  [(1%positive, srt_val cls); (2%positive, VTag 1 (VSlice (elems V))); (3%positive, VInt (Z.of_nat n));
   (4%positive, VInt (Z.of_nat half)); (5%positive, VInt (Z.of_nat idx))].
Definition rv_run cls n half F V idx := i_loop (interp_at A zero ext prog F) rv_cond rv_post rv_body (rv_env cls n half V idx).

Lemma rv_exit cls n half F V idx : 30 <= F -> half <= idx ->
  rv_run cls n half (S F) V idx = ROk (SgNormal, rv_env cls n half V idx).
Proof.
  intros HF H. unfold rv_run. rewrite loop_S; unfold loop_step. fuel F 30. unfold rv_cond, rv_post, rv_body, rv_env. gogo. reflexivity.
Qed.

Lemma rv_step cls n half F V idx (d : A) : 40 <= F -> length V = n -> idx < half -> 2 * half <= n ->
  rv_run cls n half (S F) V idx = rv_run cls n half F (swap_nth d idx (n - idx - 1) V) (S idx).
Proof.
  intros HF HV HI HH. unfold rv_run. rewrite loop_S; unfold loop_step. fuel F 40. unfold rv_cond, rv_post, rv_body, rv_env. gogo.
  rewrite (zidx_elems A zero) by lia. gorun. rewrite (zidx_elems A zero) by lia. gorun.
  rewrite zset_elems by lia. gorun. rewrite zset_elems by (rewrite set_nth_length; lia). gorun.
  unfold swap_nth.
  replace (Z.to_nat (Z.of_nat n - Z.of_nat idx - 1)) with (n - idx - 1) by lia. rewrite Nat2Z.id.
  rewrite (nth_indep V zero d) by lia. rewrite (nth_indep V zero d) by lia.
  replace (Z.of_nat idx + 1)%Z with (Z.of_nat (S idx)) by lia. reflexivity.
Qed.

Lemma rv_sim cls n half (d : A) : forall k F V idx, length V = n -> 2 * half <= n -> k = half - idx -> idx <= half -> k + 41 <= F ->
  exists idx', rv_run cls n half F V idx = ROk (SgNormal, rv_env cls n half (reverse_loop d k idx V) idx').
Proof.
  induction k as [|k IH]; intros F V idx HV HH HK HI HF; (destruct F as [|F]; [lia|]); cbn [reverse_loop].
  - rewrite rv_exit by lia. eexists; reflexivity.
  - rewrite (rv_step cls n half F V idx d) by lia. rewrite HV.
    apply IH; try lia. rewrite swap_nth_length. exact HV.
Qed.

Lemma quot2 (s : nat) : Z.quot (Z.of_nat s) 2 = Z.of_nat (s / 2).
Proof. rewrite Z.quot_div_nonneg by lia. rewrite (Nat2Z.inj_div s 2). reflexivity. Qed.

Lemma gen_ReverseValues cls (tg : bool) V F : length V + 100 <= F ->
  call_at F (srt_val cls) id_ReverseValues [wtag tg (VSlice (elems V))] =
  ROk (VTuple [], VWb (srt_val cls) [(1, VSlice (elems (reverse_values V)))]).
Proof.
  intros HF. fuel F 40. destruct V as [|d V'].
  - destruct tg; cbn [GenSort.wtag]; gocall; gogo; reflexivity.
  - change (reverse_values (d :: V')) with (reverse_loop d (length (d :: V') / 2) 0 (d :: V')).
    remember (d :: V') as V eqn:EV. clear EV V'.
    destruct tg; cbn [GenSort.wtag]; gocall; rewrite !elems_length; gogo.
    all: rewrite ?quot2.
    all: match goal with |- context[i_loop (interp_at A zero ext prog ?FF) ?c ?p ?b ?en] =>
      destruct (rv_sim cls (length V) (length V / 2) d (length V / 2) FF V 0 eq_refl
                  ltac:(pose proof (Nat.div_mod (length V) 2 ltac:(lia)); lia) ltac:(lia) ltac:(lia)
                  ltac:(pose proof (Nat.div_le_upper_bound (length V) 2 (length V) ltac:(lia) ltac:(lia)); lia)) as [idx' RUN];
      change (i_loop (interp_at A zero ext prog FF) c p b en) with (rv_run cls (length V) (length V / 2) FF V 0)
    end.
    all: rewrite RUN; unfold rv_env; gorun; reflexivity.
Qed.

(* ---------- the Sort / Reverse methods of array_ and list_: delegation to a sorter ---------- *)
Lemma gen_SortValues_arr cls V F : (Z.of_nat (length V) < two63)%Z -> 3 * length V + 420 <= F ->
  call_at F (srt_val cls) id_SortValues [arr_val V] =
  ROk (VTuple [], VWb (srt_val cls) [(1, VSlice (elems (sort_values rank V)))]).
Proof.
  intros HL HF. fuel F 10. gocall. rewrite (gen_sortValues cls true V) by lia. gorun. reflexivity.
Qed.
Lemma gen_ReverseValues_arr cls V F : length V + 100 <= F ->
  call_at F (srt_val cls) id_ReverseValues [arr_val V] =
  ROk (VTuple [], VWb (srt_val cls) [(1, VSlice (elems (reverse_values V)))]).
Proof.
  intros HF. pose proof (gen_ReverseValues cls false V F HF) as G. cbn [GenSort.wtag] in G.
  rewrite <- G. fuel F 2. gored. rewrite !call_S. gorun. reflexivity.
Qed.

Lemma sort_values_small (V : list A) : length V <= 1 -> sort_values rank V = V.
Proof. destruct V as [|a [|b V']]; cbn; try reflexivity; lia. Qed.

Lemma gen_array_SortValuesWithRanker V F : (Z.of_nat (length V) < two63)%Z -> 3 * length V + 460 <= F ->
  call_at F (arr_val V) id_SortValuesWithRanker [ranker_val] = ROk (VTuple [], arr_val (sort_values rank V)).
Proof.
  intros HL HF. fuel F 30. gocall. gocall. rewrite elems_length. gogo.
  - gocall. cbn [map]. gorun. rewrite (gen_SortValues_arr VNil V) by lia. gorun. reflexivity.
  - rewrite sort_values_small by lia. reflexivity.
Qed.

Lemma gen_array_SortValues V F : (Z.of_nat (length V) < two63)%Z -> 3 * length V + 480 <= F ->
  call_at F (arr_val V) id_SortValues [] = ROk (VTuple [], arr_val (sort_values rank V)).
Proof.
  intros HL HF. fuel F 15. gocall. gocall. rewrite gen_array_SortValuesWithRanker by lia. gorun. reflexivity.
Qed.

Lemma gen_array_ReverseValues V F : length V + 140 <= F ->
  call_at F (arr_val V) id_ReverseValues [] = ROk (VTuple [], arr_val (reverse_values V)).
Proof.
  intros HF. fuel F 30. gocall. gocall. gocall. gocall. cbn [map]. gorun.
  rewrite (gen_ReverseValues_arr VNil V) by lia. gorun. reflexivity.
Qed.

Lemma gen_list_SortValues nn V F : (Z.of_nat (length V) < two63)%Z -> 3 * length V + 500 <= F ->
  call_at F (lst_val nn V) id_SortValues [] = ROk (VTuple [], lst_val nn (sort_values rank V)).
Proof. intros HL HF. fuel F 10. gocall. rewrite gen_array_SortValues by lia. gorun. reflexivity. Qed.

Lemma gen_list_ReverseValues nn V F : length V + 160 <= F ->
  call_at F (lst_val nn V) id_ReverseValues [] = ROk (VTuple [], lst_val nn (reverse_values V)).
Proof. intros HF. fuel F 10. gocall. rewrite gen_array_ReverseValues by lia. gorun. reflexivity. Qed.
End GenC09.

(* ---------- statements for the generated code (closed by [exact]) ---------- *)
(* mergeArrays, as translated from sorter.go, for EVERY ranking function: it terminates (fuel len(merged) + 80),
   leaves the sorter unchanged and hands back merged = Sorter.merge left right *)
Theorem C09_gen_merge_arrays_is_the_model_merge :
  forall (A : Type) (zero : A) (rank : A -> A -> comparison) (cls : val A) (L R M : list A) (F : nat),
    length M = length L + length R -> length M + 80 <= F ->
    run_method A zero (rank_ext rank) prog F (srt_val cls) id_mergeArrays
      [VSlice (elems L); VSlice (elems R); VSlice (elems M)] =
    Ret (VTuple [], VWb (srt_val cls) [(3, VSlice (elems (merge rank (length M) L R)))]).
Proof.
  intros A zero rank cls L R M F HM HF. unfold run_method, call_at. rewrite gen_mergeArrays by assumption. reflexivity.
Qed.

(* hence, for every ranker, what mergeArrays writes into merged is a permutation of left ++ right *)
Theorem C09_gen_merge_arrays_permutes :
  forall (A : Type) (zero : A) (rank : A -> A -> comparison) (cls : val A) (L R M : list A) (F : nat),
    length M = length L + length R -> length M + 80 <= F ->
    exists M', run_method A zero (rank_ext rank) prog F (srt_val cls) id_mergeArrays
                 [VSlice (elems L); VSlice (elems R); VSlice (elems M)] =
               Ret (VTuple [], VWb (srt_val cls) [(3, VSlice (elems M'))]) /\
               Permutation.Permutation M' (L ++ R).
Proof.
  intros A zero rank cls L R M F HM HF. eexists. split.
  - apply C09_gen_merge_arrays_is_the_model_merge; assumption.
  - apply merge_perm. lia.
Qed.

(* non-vacuity: merging [1;3] and [2;2;5] under the order of Z, and under the inconsistent ranker "always greater" *)
Example C09_gen_merge_example :
  run_method Z 0%Z (rank_ext Z.compare) prog 100 (srt_val VNil) id_mergeArrays
    [VSlice (elems [1; 3]%Z); VSlice (elems [2; 2; 5]%Z); VSlice (elems [0; 0; 0; 0; 0]%Z)] =
  Ret (VTuple [], VWb (srt_val VNil) [(3%nat, VSlice (elems [1; 2; 2; 3; 5]%Z))]) /\
  run_method Z 0%Z (rank_ext (fun _ _ => Gt)) prog 100 (srt_val VNil) id_mergeArrays
    [VSlice (elems [1; 3]%Z); VSlice (elems [2; 2; 5]%Z); VSlice (elems [0; 0; 0; 0; 0]%Z)] =
  Ret (VTuple [], VWb (srt_val VNil) [(3%nat, VSlice (elems [2; 2; 5; 1; 3]%Z))]).
Proof. split; vm_compute; reflexivity. Qed.

Print Assumptions C09_gen_merge_arrays_is_the_model_merge.
Print Assumptions C09_gen_merge_arrays_permutes.

(* SortValues, as translated from sorter.go, for EVERY ranking function: it terminates (fuel 3 len + 420), leaves the
   sorter unchanged and hands back (written-back parameter 1, the caller's slice) Sorter.sort_values *)
Theorem C09_gen_sort_is_the_model_sort :
  forall (A : Type) (zero : A) (rank : A -> A -> comparison) (cls : val A) (V : list A) (F : nat),
    (Z.of_nat (length V) < two63)%Z -> 3 * length V + 420 <= F ->
    run_method A zero (rank_ext rank) prog F (srt_val cls) id_SortValues [VSlice (elems V)] =
    Ret (VTuple [], VWb (srt_val cls) [(1, VSlice (elems (sort_values rank V)))]).
Proof.
  intros A zero rank cls V F HL HF. unfold run_method, call_at. rewrite gen_SortValues by assumption. reflexivity.
Qed.

(* C09, first clause, for the generated code: for every ranker (consistent or not) SortValues returns and what it
   leaves in the caller's slice is a permutation of what was there *)
Theorem C09_gen_sort_terminates_and_permutes_for_every_ranker :
  forall (A : Type) (zero : A) (rank : A -> A -> comparison) (cls : val A) (V : list A) (F : nat),
    (Z.of_nat (length V) < two63)%Z -> 3 * length V + 420 <= F ->
    exists V', run_method A zero (rank_ext rank) prog F (srt_val cls) id_SortValues [VSlice (elems V)] =
               Ret (VTuple [], VWb (srt_val cls) [(1, VSlice (elems V'))]) /\ Permutation.Permutation V' V.
Proof.
  intros A zero rank cls V F HL HF. eexists. split.
  - apply C09_gen_sort_is_the_model_sort; assumption.
  - apply sort_perm.
Qed.

(* under a total preorder the result is ascending *)
Theorem C09_gen_sort_sorted_for_total_preorders :
  forall (A : Type) (zero : A) (rank : A -> A -> comparison), total_preorder rank ->
  forall (cls : val A) (V : list A) (F : nat),
    (Z.of_nat (length V) < two63)%Z -> 3 * length V + 420 <= F ->
    exists V', run_method A zero (rank_ext rank) prog F (srt_val cls) id_SortValues [VSlice (elems V)] =
               Ret (VTuple [], VWb (srt_val cls) [(1, VSlice (elems V'))]) /\
               Sorted.Sorted (not_gt rank) V' /\ Permutation.Permutation V' V.
Proof.
  intros A zero rank TP cls V F HL HF. eexists. split; [|split].
  - apply C09_gen_sort_is_the_model_sort; assumption.
  - apply sort_sorted. exact TP.
  - apply sort_perm.
Qed.

(* ReverseValues reverses in place, and twice is the identity *)
Theorem C09_gen_reverse_is_rev_and_involutive :
  forall (A : Type) (zero : A) (rank : A -> A -> comparison) (cls : val A) (V : list A) (F : nat),
    length V + 100 <= F ->
    run_method A zero (rank_ext rank) prog F (srt_val cls) id_ReverseValues [VSlice (elems V)] =
      Ret (VTuple [], VWb (srt_val cls) [(1, VSlice (elems (rev V)))]) /\
    run_method A zero (rank_ext rank) prog F (srt_val cls) id_ReverseValues [VSlice (elems (rev V))] =
      Ret (VTuple [], VWb (srt_val cls) [(1, VSlice (elems V))]).
Proof.
  intros A zero rank cls V F HF. unfold run_method, call_at.
  rewrite (gen_ReverseValues A zero rank cls false V) by assumption.
  rewrite (gen_ReverseValues A zero rank cls false (rev V)) by (rewrite rev_length; assumption).
  rewrite !reverse_spec, rev_involutive. split; reflexivity.
Qed.

(* the Sort / Reverse methods of Array and List (fresh default collator = the oracle) *)
Theorem C09_gen_collections_sort_and_reverse :
  forall (A : Type) (zero : A) (rank : A -> A -> comparison) (n : val A) (V : list A) (F : nat),
    (Z.of_nat (length V) < two63)%Z -> 3 * length V + 500 <= F ->
    run_method A zero (rank_ext rank) prog F (arr_val V) id_SortValues [] = Ret (VTuple [], arr_val (sort_values rank V)) /\
    run_method A zero (rank_ext rank) prog F (lst_val n V) id_SortValues [] = Ret (VTuple [], lst_val n (sort_values rank V)) /\
    run_method A zero (rank_ext rank) prog F (arr_val V) id_ReverseValues [] = Ret (VTuple [], arr_val (rev V)) /\
    run_method A zero (rank_ext rank) prog F (lst_val n V) id_ReverseValues [] = Ret (VTuple [], lst_val n (rev V)).
Proof.
  intros A zero rank n V F HL HF. unfold run_method, call_at.
  rewrite gen_array_SortValues, gen_list_SortValues, gen_array_ReverseValues, gen_list_ReverseValues by (assumption || lia).
  rewrite !reverse_spec. repeat split.
Qed.

(* non-vacuity: sorting [3;1;2;3;0] in place under the order of Z and under the inconsistent ranker "always lesser" *)
Example C09_gen_sort_example :
  run_method Z 0%Z (rank_ext Z.compare) prog 500 (srt_val VNil) id_SortValues [VSlice (elems [3; 1; 2; 3; 0]%Z)] =
    Ret (VTuple [], VWb (srt_val VNil) [(1%nat, VSlice (elems [0; 1; 2; 3; 3]%Z))]) /\
  exists V', run_method Z 0%Z (rank_ext (fun _ _ => Lt)) prog 500 (srt_val VNil) id_SortValues [VSlice (elems [3; 1; 2; 3; 0]%Z)] =
    Ret (VTuple [], VWb (srt_val VNil) [(1%nat, VSlice (elems V'))]) /\ Permutation.Permutation V' [3; 1; 2; 3; 0]%Z.
Proof.
  split; [vm_compute; reflexivity|]. apply C09_gen_sort_terminates_and_permutes_for_every_ranker; [vm_compute; reflexivity|vm_compute; lia].
Qed.

Print Assumptions C09_gen_sort_is_the_model_sort.
Print Assumptions C09_gen_sort_terminates_and_permutes_for_every_ranker.
Print Assumptions C09_gen_sort_sorted_for_total_preorders.
Print Assumptions C09_gen_reverse_is_rev_and_involutive.
Print Assumptions C09_gen_collections_sort_and_reverse.
