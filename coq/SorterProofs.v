From Verif Require Import Base Sorter.
From Coq Require Import Permutation Sorted.

Definition total_preorder {A} (rk : A -> A -> comparison) : Prop :=
  (forall a, rk a a = Eq) /\
  (forall a b, rk b a = CompOpp (rk a b)) /\
  (forall a b c, rk a b <> Gt -> rk b c <> Gt -> rk a c <> Gt).

Definition not_gt {A} (rk : A -> A -> comparison) (a b : A) : Prop := rk a b <> Gt.

(* ------------------------------------------------------------------ *)
(* Generic list helpers                                                *)
(* ------------------------------------------------------------------ *)

Lemma skipn_skipn_add {A} : forall (m n : nat) (l : list A),
  skipn n (skipn m l) = skipn (m + n) l.
Proof.
  induction m as [|m IH]; intros n l.
  - reflexivity.
  - destruct l as [|a t].
    + simpl. apply skipn_nil.
    + simpl. apply IH.
Qed.

Lemma split3 {A} : forall (w : nat) (l : list A),
  (firstn w l ++ firstn w (skipn w l)) ++ skipn (2 * w) l = l.
Proof.
  intros w l.
  replace (2 * w) with (w + w) by lia.
  rewrite <- skipn_skipn_add.
  rewrite <- app_assoc.
  rewrite (firstn_skipn w (skipn w l)).
  apply firstn_skipn.
Qed.

(* ------------------------------------------------------------------ *)
(* Permutation facts: any ranker                                        *)
(* ------------------------------------------------------------------ *)

Section PermFacts.
Context {A : Type} (rk : A -> A -> comparison).

Lemma merge_cases : forall f a l' b r',
  (rk a b = Lt /\
   merge rk (S f) (a :: l') (b :: r') = a :: merge rk f l' (b :: r')) \/
  (rk a b <> Lt /\
   merge rk (S f) (a :: l') (b :: r') = b :: merge rk f (a :: l') r').
Proof.
  intros f a l' b r'. simpl.
  destruct (rk a b); [right|left|right]; split;
    try reflexivity; try discriminate.
Qed.

Lemma merge_perm0 : forall fuel l r,
  length l + length r <= fuel -> Permutation (merge rk fuel l r) (l ++ r).
Proof.
  induction fuel as [|f IH]; intros l r Hlen.
  - destruct l as [|a l']; destruct r as [|b r']; simpl in Hlen; try lia.
    simpl. constructor.
  - destruct l as [|a l'].
    + simpl. apply Permutation_refl.
    + destruct r as [|b r'].
      * simpl. rewrite app_nil_r. apply Permutation_refl.
      * simpl in Hlen.
        destruct (merge_cases f a l' b r') as [[_ Heq]|[_ Heq]]; rewrite Heq.
        -- change ((a :: l') ++ b :: r') with (a :: (l' ++ b :: r')).
           constructor. apply IH. simpl. lia.
        -- apply Permutation_trans with (b :: (a :: l') ++ r').
           ++ constructor. apply IH. simpl. lia.
           ++ apply (Permutation_middle (a :: l') r' b).
Qed.

Lemma merge_length0 : forall fuel l r,
  length l + length r <= fuel ->
  length (merge rk fuel l r) = length l + length r.
Proof.
  intros fuel l r Hlen.
  rewrite (Permutation_length (merge_perm0 fuel l r Hlen)).
  apply app_length.
Qed.

Lemma pass_nil : forall fuel w, pass rk fuel w [] = [].
Proof. intros [|f] w; reflexivity. Qed.

Lemma pass_S_cons : forall f w l, l <> [] ->
  pass rk (S f) w l =
  merge rk (length (firstn w l) + length (firstn w (skipn w l)))
        (firstn w l) (firstn w (skipn w l))
  ++ pass rk f w (skipn (2 * w) l).
Proof.
  intros f w l Hne. destruct l as [|a t]; [congruence|reflexivity].
Qed.

Lemma pass_perm0 : forall fuel w l, Permutation (pass rk fuel w l) l.
Proof.
  induction fuel as [|f IH]; intros w l.
  - simpl. apply Permutation_refl.
  - destruct l as [|a t].
    + simpl. constructor.
    + rewrite pass_S_cons by discriminate.
      remember (a :: t) as l eqn:El.
      apply Permutation_trans with
        ((firstn w l ++ firstn w (skipn w l)) ++ skipn (2 * w) l).
      * apply Permutation_app.
        -- apply merge_perm0. apply le_n.
        -- apply IH.
      * rewrite split3. apply Permutation_refl.
Qed.

Lemma pass_length0 : forall fuel w l, length (pass rk fuel w l) = length l.
Proof. intros fuel w l. apply Permutation_length. apply pass_perm0. Qed.

Lemma sort_loop_perm : forall fuel w l, Permutation (sort_loop rk fuel w l) l.
Proof.
  induction fuel as [|f IH]; intros w l.
  - simpl. apply Permutation_refl.
  - simpl. destruct (w <? length l).
    + apply Permutation_trans with (pass rk (length l) w l).
      * apply IH.
      * apply pass_perm0.
    + apply Permutation_refl.
Qed.

End PermFacts.

(* ------------------------------------------------------------------ *)
(* Sortedness: total preorders                                          *)
(* ------------------------------------------------------------------ *)

Section SortedFacts.
Context {A : Type} (rk : A -> A -> comparison).
Hypothesis Htp : total_preorder rk.

Lemma nlt_not_gt : forall a b, rk a b <> Lt -> not_gt rk b a.
Proof.
  intros a b Hab. unfold not_gt.
  destruct Htp as [_ [Hopp _]].
  rewrite (Hopp a b).
  destruct (rk a b); simpl; congruence.
Qed.

Lemma lt_not_gt : forall a b, rk a b = Lt -> not_gt rk a b.
Proof. intros a b Hab. unfold not_gt. congruence. Qed.

Lemma not_gt_trans : forall a b c,
  not_gt rk a b -> not_gt rk b c -> not_gt rk a c.
Proof.
  destruct Htp as [_ [_ Htr]]. unfold not_gt. exact Htr.
Qed.

Lemma Forall_not_gt_trans : forall a b l,
  not_gt rk a b -> Forall (not_gt rk b) l -> Forall (not_gt rk a) l.
Proof.
  intros a b l Hab Hl.
  apply Forall_impl with (P := not_gt rk b); [|exact Hl].
  intros c Hbc. apply not_gt_trans with b; assumption.
Qed.

Lemma merge_Forall : forall (P : A -> Prop) fuel l r,
  length l + length r <= fuel ->
  Forall P l -> Forall P r -> Forall P (merge rk fuel l r).
Proof.
  intros P fuel l r Hlen Hl Hr.
  apply (Permutation_Forall (Permutation_sym (merge_perm0 rk fuel l r Hlen))).
  apply Forall_app. split; assumption.
Qed.

Lemma merge_ssorted : forall fuel l r,
  length l + length r <= fuel ->
  StronglySorted (not_gt rk) l -> StronglySorted (not_gt rk) r ->
  StronglySorted (not_gt rk) (merge rk fuel l r).
Proof.
  induction fuel as [|f IH]; intros l r Hlen Hl Hr.
  - simpl. constructor.
  - destruct l as [|a l']; [exact Hr|].
    destruct r as [|b r']; [exact Hl|].
    simpl in Hlen.
    destruct (StronglySorted_inv Hl) as [Hl' Hal].
    destruct (StronglySorted_inv Hr) as [Hr' Hbr].
    destruct (merge_cases rk f a l' b r') as [[Hab Heq]|[Hab Heq]]; rewrite Heq.
    + constructor.
      * apply IH; [simpl; lia|assumption|assumption].
      * apply merge_Forall; [simpl; lia|assumption|].
        constructor.
        -- apply lt_not_gt. exact Hab.
        -- apply Forall_not_gt_trans with b; [apply lt_not_gt; exact Hab|exact Hbr].
    + assert (Hba : not_gt rk b a) by (apply nlt_not_gt; exact Hab).
      constructor.
      * apply IH; [simpl; lia|assumption|assumption].
      * apply merge_Forall; [simpl; lia| |assumption].
        constructor.
        -- exact Hba.
        -- apply Forall_not_gt_trans with a; assumption.
Qed.

(* [blocks w l]: l is a concatenation of consecutive strongly sorted runs,
   each of length w except possibly the last one. *)
Inductive blocks (w : nat) : list A -> Prop :=
| blocks_nil : blocks w []
| blocks_cons : forall l, l <> [] ->
    StronglySorted (not_gt rk) (firstn w l) ->
    blocks w (skipn w l) -> blocks w l.

Lemma blocks_one : forall l, blocks 1 l.
Proof.
  induction l as [|a t IH].
  - constructor.
  - apply blocks_cons.
    + discriminate.
    + simpl. constructor; constructor.
    + simpl. exact IH.
Qed.

Lemma blocks_all : forall w l,
  length l <= w -> blocks w l -> StronglySorted (not_gt rk) l.
Proof.
  intros w l Hlen Hb.
  inversion Hb as [Hnil | l0 Hne Hfirst Hrest Heq].
  - constructor.
  - rewrite firstn_all2 in Hfirst by exact Hlen. exact Hfirst.
Qed.

Lemma blocks_app : forall w m rest,
  m <> [] -> StronglySorted (not_gt rk) m -> length m <= w ->
  (length m = w \/ rest = []) ->
  blocks w rest -> blocks w (m ++ rest).
Proof.
  intros w m rest Hne Hm Hle Hcase Hrest.
  apply blocks_cons.
  - destruct m as [|x m']; [congruence|discriminate].
  - destruct Hcase as [Hw | Hnil].
    + subst w. rewrite firstn_app, firstn_all, Nat.sub_diag.
      simpl. rewrite app_nil_r. exact Hm.
    + subst rest. rewrite app_nil_r. rewrite firstn_all2 by exact Hle. exact Hm.
  - destruct Hcase as [Hw | Hnil].
    + subst w. rewrite skipn_app, skipn_all, Nat.sub_diag.
      simpl. exact Hrest.
    + subst rest. rewrite app_nil_r. rewrite skipn_all2 by exact Hle.
      constructor.
Qed.

Lemma blocks_skipn : forall w l, blocks w l -> blocks w (skipn w l).
Proof.
  intros w l Hb.
  inversion Hb as [Hnil | l0 Hne Hfirst Hrest Heq].
  - rewrite skipn_nil. constructor.
  - exact Hrest.
Qed.

Lemma blocks_firstn : forall w l,
  blocks w l -> StronglySorted (not_gt rk) (firstn w l).
Proof.
  intros w l Hb.
  inversion Hb as [Hnil | l0 Hne Hfirst Hrest Heq].
  - rewrite firstn_nil. constructor.
  - exact Hfirst.
Qed.

Lemma pass_blocks : forall w, 1 <= w -> forall fuel l,
  length l <= fuel -> blocks w l -> blocks (2 * w) (pass rk fuel w l).
Proof.
  intros w Hw.
  induction fuel as [|f IH]; intros l Hlen Hb.
  - destruct l as [|a t]; simpl in Hlen; [|lia].
    simpl. constructor.
  - destruct l as [|a t].
    + simpl. constructor.
    + rewrite pass_S_cons by discriminate.
      remember (a :: t) as l eqn:El.
      assert (Hpos : 1 <= length l) by (subst l; simpl; lia).
      clear El a t.
      pose proof (firstn_length w l) as HlenL.
      pose proof (firstn_length w (skipn w l)) as HlenR.
      rewrite skipn_length in HlenR.
      set (L := firstn w l) in *.
      set (R := firstn w (skipn w l)) in *.
      assert (Hm : length (merge rk (length L + length R) L R)
                   = length L + length R)
        by (apply merge_length0; apply le_n).
      apply blocks_app.
      * intro Hnil. rewrite Hnil in Hm. simpl in Hm. lia.
      * apply merge_ssorted.
        -- apply le_n.
        -- apply blocks_firstn. exact Hb.
        -- apply blocks_firstn. apply blocks_skipn. exact Hb.
      * lia.
      * destruct (le_lt_dec (2 * w) (length l)) as [Hge | Hlt].
        -- left. lia.
        -- right. rewrite skipn_all2 by lia. apply pass_nil.
      * apply IH.
        -- rewrite skipn_length. lia.
        -- replace (2 * w) with (w + w) by lia.
           rewrite <- skipn_skipn_add.
           apply blocks_skipn. apply blocks_skipn. exact Hb.
Qed.

Lemma sort_loop_ssorted : forall fuel w l,
  1 <= w -> blocks w l -> length l <= w * 2 ^ fuel ->
  StronglySorted (not_gt rk) (sort_loop rk fuel w l).
Proof.
  induction fuel as [|f IH]; intros w l Hw Hb Hlen.
  - simpl in *. apply blocks_all with w; [lia|exact Hb].
  - simpl sort_loop.
    destruct (Nat.ltb_spec w (length l)) as [Hlt | Hge].
    + apply IH.
      * lia.
      * apply pass_blocks; [exact Hw|apply le_n|exact Hb].
      * rewrite pass_length0.
        rewrite Nat.pow_succ_r' in Hlen. lia.
    + apply blocks_all with w; assumption.
Qed.

Lemma sort_values_ssorted : forall l,
  StronglySorted (not_gt rk) (sort_values rk l).
Proof.
  intros l. unfold sort_values.
  apply sort_loop_ssorted.
  - apply le_n.
  - apply blocks_one.
  - pose proof (Nat.pow_gt_lin_r 2 (length l)) as Hpow. lia.
Qed.

End SortedFacts.

(* ------------------------------------------------------------------ *)
(* swap / reverse / shuffle helpers                                     *)
(* ------------------------------------------------------------------ *)

Section SwapFacts.
Context {A : Type}.

Lemma nth_set_nth : forall (d : A) l i v k,
  nth k (set_nth i v l) d =
  if (k =? i) && (i <? length l) then v else nth k l d.
Proof.
  intros d. induction l as [|h t IH]; intros i v k.
  - rewrite andb_false_r. destruct i; destruct k; reflexivity.
  - destruct i as [|i]; destruct k as [|k]; simpl; try reflexivity.
    rewrite IH. reflexivity.
Qed.

Lemma swap_nth_length : forall (d : A) i j l,
  length (swap_nth d i j l) = length l.
Proof.
  intros d i j l. unfold swap_nth. rewrite !set_nth_length. reflexivity.
Qed.

Lemma nth_swap_nth : forall (d : A) i j l k,
  i < length l -> j < length l ->
  nth k (swap_nth d i j l) d =
  if k =? j then nth i l d else if k =? i then nth j l d else nth k l d.
Proof.
  intros d i j l k Hi Hj. unfold swap_nth.
  rewrite !nth_set_nth, set_nth_length.
  apply Nat.ltb_lt in Hi. apply Nat.ltb_lt in Hj.
  rewrite Hi, Hj, !andb_true_r. reflexivity.
Qed.

Lemma nth_set_nth_perm : forall (d : A) a l j,
  j < length l -> Permutation (nth j l d :: set_nth j a l) (a :: l).
Proof.
  intros d a. induction l as [|b t IH]; intros j Hj.
  - simpl in Hj. lia.
  - destruct j as [|j]; simpl.
    + apply perm_swap.
    + simpl in Hj.
      apply Permutation_trans with (b :: nth j t d :: set_nth j a t).
      * apply perm_swap.
      * apply Permutation_trans with (b :: a :: t).
        -- constructor. apply IH. lia.
        -- apply perm_swap.
Qed.

Lemma set_set_perm : forall (d : A) l i j,
  i < length l -> j < length l ->
  Permutation (set_nth j (nth i l d) (set_nth i (nth j l d) l)) l.
Proof.
  intros d. induction l as [|a t IH]; intros i j Hi Hj.
  - simpl in Hi. lia.
  - simpl in Hi, Hj.
    destruct i as [|i]; destruct j as [|j]; simpl.
    + apply Permutation_refl.
    + apply nth_set_nth_perm. lia.
    + apply nth_set_nth_perm. lia.
    + constructor. apply IH; lia.
Qed.

Lemma swap_nth_perm : forall (d : A) i j l,
  i < length l -> j < length l -> Permutation (swap_nth d i j l) l.
Proof.
  intros d i j l Hi Hj. unfold swap_nth. apply set_set_perm; assumption.
Qed.

Lemma shuffle_loop_perm : forall (d : A) rs i l,
  Permutation (shuffle_loop d i rs l) l.
Proof.
  intros d. induction rs as [|r rs IH]; intros i l.
  - simpl. apply Permutation_refl.
  - simpl.
    destruct (Nat.ltb_spec i (length l)) as [Hi | Hi];
    destruct (Nat.ltb_spec r (length l)) as [Hr | Hr]; simpl;
      try apply IH.
    apply Permutation_trans with (swap_nth d i r l).
    + apply IH.
    + apply swap_nth_perm; assumption.
Qed.

Ltac break_bools :=
  repeat (match goal with
  | |- context [?a <=? ?b] => destruct (Nat.leb_spec a b)
  | |- context [?a <? ?b] => destruct (Nat.ltb_spec a b)
  | |- context [?a =? ?b] => destruct (Nat.eqb_spec a b)
  end; simpl; try (exfalso; lia)).

Lemma reverse_loop_spec : forall (d : A) n idx l,
  2 * (idx + n) <= length l ->
  length (reverse_loop d n idx l) = length l /\
  forall k, k < length l ->
    nth k (reverse_loop d n idx l) d =
    if ((idx <=? k) && (k <? idx + n))
       || ((length l - idx - n <=? k) && (k <? length l - idx))
    then nth (length l - 1 - k) l d else nth k l d.
Proof.
  intros d. induction n as [|n IH]; intros idx l Hlen.
  - simpl. split; [reflexivity|].
    intros k Hk. break_bools; reflexivity.
  - simpl reverse_loop.
    set (l' := swap_nth d idx (length l - idx - 1) l).
    assert (Hl' : length l' = length l) by apply swap_nth_length.
    destruct (IH (S idx) l') as [HlenIH HnthIH]; [rewrite Hl'; lia|].
    split; [rewrite HlenIH; exact Hl'|].
    intros k Hk.
    rewrite HnthIH by (rewrite Hl'; exact Hk).
    rewrite Hl'. unfold l'.
    rewrite !nth_swap_nth by lia.
    break_bools; first [reflexivity | f_equal; lia].
Qed.

Lemma reverse_loop_rev : forall (d : A) l,
  reverse_loop d (length l / 2) 0 l = rev l.
Proof.
  intros d l.
  pose proof (Nat.div_mod (length l) 2) as Hdm.
  pose proof (Nat.mod_upper_bound (length l) 2) as Hmod.
  set (h := length l / 2) in *.
  assert (Hh : 2 * h <= length l < 2 * h + 2) by lia.
  clear Hdm Hmod.
  destruct (reverse_loop_spec d h 0 l) as [Hlen Hnth]; [lia|].
  apply nth_ext with (d := d) (d' := d).
  - rewrite rev_length. exact Hlen.
  - intros k Hk. rewrite Hlen in Hk.
    rewrite Hnth by exact Hk.
    rewrite rev_nth by exact Hk.
    break_bools; f_equal; lia.
Qed.

End SwapFacts.

(* ------------------------------------------------------------------ *)
(* Main theorems                                                        *)
(* ------------------------------------------------------------------ *)

(* every ranker, consistent or not *)
Theorem merge_perm : forall A (rk : A -> A -> comparison) fuel l r,
  length l + length r <= fuel -> Permutation (merge rk fuel l r) (l ++ r).
Proof. intros A rk. apply merge_perm0. Qed.

Theorem pass_perm : forall A (rk : A -> A -> comparison) fuel w l,
  Permutation (pass rk fuel w l) l.
Proof. intros A rk. apply pass_perm0. Qed.

Theorem sort_perm : forall A (rk : A -> A -> comparison) l,
  Permutation (sort_values rk l) l.
Proof. intros A rk l. unfold sort_values. apply sort_loop_perm. Qed.

Theorem sort_length : forall A (rk : A -> A -> comparison) l,
  length (sort_values rk l) = length l.
Proof. intros A rk l. apply Permutation_length. apply sort_perm. Qed.

(* total preorders: the result is ascending; both the adjacent and the strong form *)
Theorem sort_strongly_sorted : forall A (rk : A -> A -> comparison), total_preorder rk ->
  forall l, StronglySorted (not_gt rk) (sort_values rk l).
Proof. intros A rk Htp l. apply sort_values_ssorted. exact Htp. Qed.

Theorem sort_sorted : forall A (rk : A -> A -> comparison), total_preorder rk ->
  forall l, Sorted (not_gt rk) (sort_values rk l).
Proof.
  intros A rk Htp l. apply StronglySorted_Sorted.
  apply sort_strongly_sorted. exact Htp.
Qed.

(* reverse and shuffle *)
Theorem reverse_spec : forall A (l : list A), reverse_values l = rev l.
Proof.
  intros A l. destruct l as [|a t].
  - reflexivity.
  - exact (reverse_loop_rev a (a :: t)).
Qed.

Theorem reverse_involutive : forall A (l : list A), reverse_values (reverse_values l) = l.
Proof. intros A l. rewrite !reverse_spec. apply rev_involutive. Qed.

Theorem shuffle_perm : forall A (rs : list nat) (l : list A), Permutation (shuffle_values rs l) l.
Proof.
  intros A rs l. destruct l as [|a t].
  - simpl. constructor.
  - unfold shuffle_values. apply shuffle_loop_perm.
Qed.

Print Assumptions sort_perm.
Print Assumptions sort_strongly_sorted.
Print Assumptions reverse_spec.
Print Assumptions shuffle_perm.
