(* C01.v — List and Array behave as an ordinal-indexed sequence under every history
   Statements only: every theorem is closed by [exact] of a lemma proved elsewhere, and its
   axioms are printed.  Generated once by tools/mkprop.py from the proved lemmas' statements. *)
From Verif Require Import Base Seq ListImpl ListMachine SeqProofs.

Theorem C01_history_refinement :
  forall (A : Type) (zero : A) (eqb : A -> A -> bool) (ops : list (lop A)) (l : list A),
         lrun (lstep_impl zero eqb) l ops = lrun (lstep_spec zero eqb) l ops.
Proof. exact C01_refines. Qed.

Theorem C01_every_call_returns :
  forall (A : Type) (zero : A) (eqb : A -> A -> bool) (ops : list (lop A)) (l : list A),
         ~ In LHang (snd (lrun (lstep_spec zero eqb) l ops)).
Proof. exact C01_no_hang. Qed.

Theorem C01_panic_leaves_unchanged :
  forall (A : Type) (zero : A) (eqb : A -> A -> bool) (l : list A) (o : lop A) (l' : list A),
         lstep_spec zero eqb l o = (l', LPanic) -> l' = l.
Proof. exact C01_panic_frame. Qed.

Theorem C01_index_meaning :
  forall (n : nat) (i : Z) (k : nat),
         pos n i = Some k ->
         k < n /\
         ((1 <= i <= Z.of_nat n)%Z /\ Z.of_nat k = (i - 1)%Z \/
          (- Z.of_nat n <= i <= -1)%Z /\ Z.of_nat k = (i + Z.of_nat n)%Z).
Proof. exact pos_some. Qed.

Theorem C01_index_panics_iff :
  forall (n : nat) (i : Z),
         pos n i = None <-> n = 0 \/ i = 0%Z \/ (i < - Z.of_nat n)%Z \/ (Z.of_nat n < i)%Z.
Proof. exact pos_none. Qed.

Theorem C01_insert_panics_iff :
  forall (A : Type) (l : list A) (slot : nat) (v : A),
         insert_value l slot v = Panic <-> length l < slot.
Proof. exact insert_value_panics_iff. Qed.

Theorem C01_insert_locality :
  forall (A : Type) (l : list A) (slot : nat) (v : A) (l' : list A) (d : A) (j : nat),
         insert_value l slot v = Ret l' ->
         length l' = S (length l) /\
         nth j l' d = (if j <? slot then nth j l d else if j =? slot then v else nth (j - 1) l d).
Proof. exact insert_value_nth. Qed.

Theorem C01_insert_values_locality :
  forall (A : Type) (l : list A) (slot : nat) (vs l' : list A) (d : A) (j : nat),
         insert_values l slot vs = Ret l' ->
         length l' = length l + length vs /\
         nth j l' d =
         (if j <? slot
          then nth j l d
          else if j <? slot + length vs then nth (j - slot) vs d else nth (j - length vs) l d).
Proof. exact insert_values_nth. Qed.

Theorem C01_set_value_locality :
  forall (A : Type) (l : list A) (i : Z) (v : A) (l' : list A) (k : nat) (d : A) (j : nat),
         set_value l i v = Ret l' ->
         pos (length l) i = Some k ->
         length l' = length l /\
         nth j l' d = (if j =? k then if j <? length l then v else d else nth j l d).
Proof. exact set_value_nth. Qed.

Theorem C01_set_values_locality :
  forall (A : Type) (l : list A) (i : Z) (src l' : list A) (k : nat) (d : A) (j : nat),
         set_values l i src = Ret l' ->
         pos (length l) i = Some k ->
         length l' = length l /\
         nth j l' d = (if (k <=? j) && (j <? k + length src) then nth (j - k) src d else nth j l d).
Proof. exact set_values_nth. Qed.

Theorem C01_set_values_panics_iff :
  forall (A : Type) (l : list A) (i : Z) (src : list A),
         set_values l i src = Panic <->
         pos (length l) i = None \/
         (exists k : nat, pos (length l) i = Some k /\ length l < k + length src).
Proof. exact set_values_panics_iff. Qed.

Theorem C01_remove_value_locality :
  forall (A : Type) (zero : A) (l : list A) (i : Z) (v : A) (l' : list A) (k : nat),
         remove_value zero l i = Ret (v, l') ->
         pos (length l) i = Some k ->
         v = nth k l zero /\ l = firstn k l' ++ v :: skipn k l' /\ length l' = length l - 1.
Proof. exact remove_value_spec. Qed.

Theorem C01_remove_values_locality :
  forall (A : Type) (l : list A) (i j : Z) (r l' : list A),
         remove_values l i j = Ret (r, l') ->
         exists a : nat, a <= length l' /\ l = firstn a l' ++ r ++ skipn a l'.
Proof. exact remove_values_spec. Qed.

Theorem C01_get_values_locality :
  forall (A : Type) (l : list A) (i j : Z) (r : list A),
         get_values l i j = Ret r -> exists a : nat, l = firstn a l ++ r ++ skipn (a + length r) l.
Proof. exact get_values_spec. Qed.

Theorem C01_insert_conserves :
  forall (A : Type) (l : list A) (slot : nat) (v : A) (l' : list A),
         insert_value l slot v = Ret l' -> Permutation.Permutation l' (v :: l).
Proof. exact insert_value_perm. Qed.

Theorem C01_insert_values_conserves :
  forall (A : Type) (l : list A) (slot : nat) (vs l' : list A),
         insert_values l slot vs = Ret l' -> Permutation.Permutation l' (vs ++ l).
Proof. exact insert_values_perm. Qed.

Theorem C01_remove_conserves :
  forall (A : Type) (zero : A) (l : list A) (i : Z) (v : A) (l' : list A),
         remove_value zero l i = Ret (v, l') -> Permutation.Permutation l (v :: l').
Proof. exact remove_value_perm. Qed.

Theorem C01_remove_values_conserves :
  forall (A : Type) (l : list A) (i j : Z) (r l' : list A),
         remove_values l i j = Ret (r, l') -> Permutation.Permutation l (r ++ l').
Proof. exact remove_values_perm. Qed.

Theorem C01_get_index_first_match :
  forall (A : Type) (eqb : A -> A -> bool) (l : list A) (v : A) (k : nat),
         get_index eqb l v = S k <->
         k < length l /\
         (forall d : A, eqb (nth k l d) v = true) /\
         (forall (j : nat) (d : A), j < k -> eqb (nth j l d) v = false).
Proof. exact get_index_spec. Qed.

Theorem C01_get_index_absent :
  forall (A : Type) (eqb : A -> A -> bool) (l : list A) (v : A),
         get_index eqb l v = 0 <-> (forall x : A, In x l -> eqb x v = false).
Proof. exact get_index_zero. Qed.


Print Assumptions C01_history_refinement.
Print Assumptions C01_every_call_returns.
Print Assumptions C01_panic_leaves_unchanged.
Print Assumptions C01_index_meaning.
Print Assumptions C01_index_panics_iff.
Print Assumptions C01_insert_panics_iff.
Print Assumptions C01_insert_locality.
Print Assumptions C01_insert_values_locality.
Print Assumptions C01_set_value_locality.
Print Assumptions C01_set_values_locality.
Print Assumptions C01_set_values_panics_iff.
Print Assumptions C01_remove_value_locality.
Print Assumptions C01_remove_values_locality.
Print Assumptions C01_get_values_locality.
Print Assumptions C01_insert_conserves.
Print Assumptions C01_insert_values_conserves.
Print Assumptions C01_remove_conserves.
Print Assumptions C01_remove_values_conserves.
Print Assumptions C01_get_index_first_match.
Print Assumptions C01_get_index_absent.
