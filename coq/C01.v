(* C01.v — List and Array behave as an ordinal-indexed sequence under every history
   Statements only: every theorem is closed by [exact] of a lemma proved elsewhere, and its
   axioms are printed.  Generated once by tools/mkprop.py from the proved lemmas' statements. 
   Round 2 (polish): an [Example] of non-vacuity beside every theorem (data in SeqProofs2.v), and the
   theorems from C01_append_locality on (SeqProofs2.v): locality and conservation for the remaining
   mutating operations, exact forms of the range operations, panic conditions of every indexed call,
   read-only operations, sizes, receiver-aliased operands. *)
From Verif Require Import Base Seq ListImpl ListMachine SeqProofs SeqProofs2.

Theorem C01_history_refinement :
  forall (A : Type) (zero : A) (eqb : A -> A -> bool) (ops : list (lop A)) (l : list A),
         lrun (lstep_impl zero eqb) l ops = lrun (lstep_spec zero eqb) l ops.
Proof. exact C01_refines. Qed.

(* non-vacuity: the 12-step history ex_lops on [10;20;30] — receiver-aliased InsertValues (the list
   inserted into itself at slot 1), SetValues and AppendValues with the receiver as operand, negative
   indices, an empty operand, the empty range (3,2), the inverted range (4,2), a slot past the end and
   index 0 — run on the loop-shaped machine and on the specification *)
Example C01_history_refinement_example :
  lrun (lstep_impl 0%Z Z.eqb) ex_list ex_lops = ([10; 30; 10; 30]%Z,
      [LUnit; LVal Z 30%Z; LVals Z [10; 20; 30; 20]%Z; LPanic; LUnit; LPanic; LUnit; LPanic;
       LNat Z 2; LBool Z true; LVals Z []; LPanic]) /\
  lrun (lstep_spec 0%Z Z.eqb) ex_list ex_lops = lrun (lstep_impl 0%Z Z.eqb) ex_list ex_lops.
Proof. split; [vm_compute; reflexivity|]. symmetry. apply C01_history_refinement. Qed.

Theorem C01_every_call_returns :
  forall (A : Type) (zero : A) (eqb : A -> A -> bool) (ops : list (lop A)) (l : list A),
         ~ In LHang (snd (lrun (lstep_spec zero eqb) l ops)).
Proof. exact C01_no_hang. Qed.

Example C01_every_call_returns_example :
  ~ In LHang (snd (lrun (lstep_impl 0%Z Z.eqb) ex_list ex_lops)) /\
  length (snd (lrun (lstep_impl 0%Z Z.eqb) ex_list ex_lops)) = 12.
Proof.
  split; [|vm_compute; reflexivity]. rewrite C01_history_refinement. apply C01_every_call_returns.
Qed.

Theorem C01_panic_leaves_unchanged :
  forall (A : Type) (zero : A) (eqb : A -> A -> bool) (l : list A) (o : lop A) (l' : list A),
         lstep_spec zero eqb l o = (l', LPanic) -> l' = l.
Proof. exact C01_panic_frame. Qed.

(* non-vacuity: four panicking calls (block that does not fit, index 0, inverted range, slot past the end) *)
Example C01_panic_leaves_unchanged_example :
  lstep_spec 0%Z Z.eqb ex_list (LSetValues Z 2 None) = (ex_list, LPanic) /\
  lstep_spec 0%Z Z.eqb ex_list (LGetValue Z 0) = (ex_list, LPanic) /\
  lstep_spec 0%Z Z.eqb ex_list (LRemoveValues Z 3 1) = (ex_list, LPanic) /\
  lstep_spec 0%Z Z.eqb ex_list (LInsertValue Z 4 7%Z) = (ex_list, LPanic).
Proof. repeat split; vm_compute; reflexivity. Qed.

Theorem C01_index_meaning :
  forall (n : nat) (i : Z) (k : nat),
         pos n i = Some k ->
         k < n /\
         ((1 <= i <= Z.of_nat n)%Z /\ Z.of_nat k = (i - 1)%Z \/
          (- Z.of_nat n <= i <= -1)%Z /\ Z.of_nat k = (i + Z.of_nat n)%Z).
Proof. exact pos_some. Qed.

Example C01_index_meaning_example :
  pos 3 (-1) = Some 2 /\ pos 3 2 = Some 1 /\ pos 3 (-3) = Some 0 /\ pos 3 3 = Some 2.
Proof. repeat split; vm_compute; reflexivity. Qed.

Theorem C01_index_panics_iff :
  forall (n : nat) (i : Z),
         pos n i = None <-> n = 0 \/ i = 0%Z \/ (i < - Z.of_nat n)%Z \/ (Z.of_nat n < i)%Z.
Proof. exact pos_none. Qed.

Example C01_index_panics_iff_example :
  pos 3 0 = None /\ pos 3 4 = None /\ pos 3 (-4) = None /\ pos 0 1 = None.
Proof. repeat split; vm_compute; reflexivity. Qed.

Theorem C01_insert_panics_iff :
  forall (A : Type) (l : list A) (slot : nat) (v : A),
         insert_value l slot v = Panic <-> length l < slot.
Proof. exact insert_value_panics_iff. Qed.

Example C01_insert_panics_iff_example :
  insert_value ex_list 4 7%Z = Panic /\ insert_value ex_list 3 7%Z = Ret [10; 20; 30; 7]%Z.
Proof. split; vm_compute; reflexivity. Qed.

Theorem C01_insert_locality :
  forall (A : Type) (l : list A) (slot : nat) (v : A) (l' : list A) (d : A) (j : nat),
         insert_value l slot v = Ret l' ->
         length l' = S (length l) /\
         nth j l' d = (if j <? slot then nth j l d else if j =? slot then v else nth (j - 1) l d).
Proof. exact insert_value_nth. Qed.

Example C01_insert_locality_example :
  insert_value ex_list 1 99%Z = Ret [10; 99; 20; 30]%Z /\
  (forall d j, nth j [10; 99; 20; 30]%Z d = (if j <? 1 then nth j ex_list d else if j =? 1 then 99%Z else nth (j - 1) ex_list d)).
Proof.
  split; [vm_compute; reflexivity|]. intros d j.
  apply (C01_insert_locality Z ex_list 1 99%Z [10; 99; 20; 30]%Z d j). vm_compute; reflexivity.
Qed.

Theorem C01_insert_values_locality :
  forall (A : Type) (l : list A) (slot : nat) (vs l' : list A) (d : A) (j : nat),
         insert_values l slot vs = Ret l' ->
         length l' = length l + length vs /\
         nth j l' d =
         (if j <? slot
          then nth j l d
          else if j <? slot + length vs then nth (j - slot) vs d else nth (j - length vs) l d).
Proof. exact insert_values_nth. Qed.

(* non-vacuity: the receiver as its own operand, and an empty operand *)
Example C01_insert_values_locality_example :
  insert_values ex_list 1 ex_list = Ret [10; 10; 20; 30; 20; 30]%Z /\
  insert_values ex_list 2 [] = Ret ex_list /\ insert_values ex_list 4 [] = Panic /\
  (forall d j, nth j [10; 10; 20; 30; 20; 30]%Z d =
     (if j <? 1 then nth j ex_list d else if j <? 1 + 3 then nth (j - 1) ex_list d else nth (j - 3) ex_list d)).
Proof.
  split; [vm_compute; reflexivity|]. split; [vm_compute; reflexivity|]. split; [vm_compute; reflexivity|].
  intros d j. apply (C01_insert_values_locality Z ex_list 1 ex_list [10; 10; 20; 30; 20; 30]%Z d j). vm_compute; reflexivity.
Qed.

Theorem C01_set_value_locality :
  forall (A : Type) (l : list A) (i : Z) (v : A) (l' : list A) (k : nat) (d : A) (j : nat),
         set_value l i v = Ret l' ->
         pos (length l) i = Some k ->
         length l' = length l /\
         nth j l' d = (if j =? k then if j <? length l then v else d else nth j l d).
Proof. exact set_value_nth. Qed.

Example C01_set_value_locality_example :
  set_value ex_list (-1) 99%Z = Ret [10; 20; 99]%Z /\ pos (length ex_list) (-1) = Some 2.
Proof. split; vm_compute; reflexivity. Qed.

Theorem C01_set_values_locality :
  forall (A : Type) (l : list A) (i : Z) (src l' : list A) (k : nat) (d : A) (j : nat),
         set_values l i src = Ret l' ->
         pos (length l) i = Some k ->
         length l' = length l /\
         nth j l' d = (if (k <=? j) && (j <? k + length src) then nth (j - k) src d else nth j l d).
Proof. exact set_values_nth. Qed.

Example C01_set_values_locality_example :
  set_values ex_list 2 [7; 8]%Z = Ret [10; 7; 8]%Z /\ pos (length ex_list) 2 = Some 1 /\
  set_values ex_list (-3) ex_list = Ret ex_list.
Proof. repeat split; vm_compute; reflexivity. Qed.

Theorem C01_set_values_panics_iff :
  forall (A : Type) (l : list A) (i : Z) (src : list A),
         set_values l i src = Panic <->
         pos (length l) i = None \/
         (exists k : nat, pos (length l) i = Some k /\ length l < k + length src).
Proof. exact set_values_panics_iff. Qed.

(* non-vacuity: a block that does not fit panics; an empty block at a valid index is a no-op; at index 0 it panics *)
Example C01_set_values_panics_iff_example :
  set_values ex_list 3 [7; 8]%Z = Panic /\ pos (length ex_list) 3 = Some 2 /\
  set_values ex_list 3 [] = Ret ex_list /\ set_values ex_list 0 [] = Panic.
Proof. repeat split; vm_compute; reflexivity. Qed.

Theorem C01_remove_value_locality :
  forall (A : Type) (zero : A) (l : list A) (i : Z) (v : A) (l' : list A) (k : nat),
         remove_value zero l i = Ret (v, l') ->
         pos (length l) i = Some k ->
         v = nth k l zero /\ l = firstn k l' ++ v :: skipn k l' /\ length l' = length l - 1.
Proof. exact remove_value_spec. Qed.

Example C01_remove_value_locality_example :
  remove_value 0%Z ex_list (-3) = Ret (10%Z, [20; 30]%Z) /\ pos (length ex_list) (-3) = Some 0.
Proof. split; vm_compute; reflexivity. Qed.

Theorem C01_remove_values_locality :
  forall (A : Type) (l : list A) (i j : Z) (r l' : list A),
         remove_values l i j = Ret (r, l') ->
         exists a : nat, a <= length l' /\ l = firstn a l' ++ r ++ skipn a l'.
Proof. exact remove_values_spec. Qed.

(* non-vacuity: a proper range, the empty range (2,1) and the inverted range (3,1) *)
Example C01_remove_values_locality_example :
  remove_values ex_list 2 3 = Ret ([20; 30]%Z, [10]%Z) /\
  remove_values ex_list 2 1 = Ret ([], ex_list) /\ remove_values ex_list 3 1 = Panic.
Proof. repeat split; vm_compute; reflexivity. Qed.

Theorem C01_get_values_locality :
  forall (A : Type) (l : list A) (i j : Z) (r : list A),
         get_values l i j = Ret r -> exists a : nat, l = firstn a l ++ r ++ skipn (a + length r) l.
Proof. exact get_values_spec. Qed.

Example C01_get_values_locality_example :
  get_values ex_list (-2) (-1) = Ret [20; 30]%Z /\ get_values ex_list 2 1 = Ret [] /\ get_values ex_list 3 1 = Panic.
Proof. repeat split; vm_compute; reflexivity. Qed.

Theorem C01_insert_conserves :
  forall (A : Type) (l : list A) (slot : nat) (v : A) (l' : list A),
         insert_value l slot v = Ret l' -> Permutation.Permutation l' (v :: l).
Proof. exact insert_value_perm. Qed.

Example C01_insert_conserves_example :
  insert_value ex_list 0 99%Z = Ret [99; 10; 20; 30]%Z /\ Permutation.Permutation [99; 10; 20; 30]%Z (99%Z :: ex_list).
Proof. split; [vm_compute; reflexivity|]. apply (C01_insert_conserves Z ex_list 0). vm_compute; reflexivity. Qed.

Theorem C01_insert_values_conserves :
  forall (A : Type) (l : list A) (slot : nat) (vs l' : list A),
         insert_values l slot vs = Ret l' -> Permutation.Permutation l' (vs ++ l).
Proof. exact insert_values_perm. Qed.

Example C01_insert_values_conserves_example :
  insert_values ex_list 3 ex_list = Ret (ex_list ++ ex_list) /\ Permutation.Permutation (ex_list ++ ex_list) (ex_list ++ ex_list).
Proof. split; [vm_compute; reflexivity|]. apply (C01_insert_values_conserves Z ex_list 3). vm_compute; reflexivity. Qed.

Theorem C01_remove_conserves :
  forall (A : Type) (zero : A) (l : list A) (i : Z) (v : A) (l' : list A),
         remove_value zero l i = Ret (v, l') -> Permutation.Permutation l (v :: l').
Proof. exact remove_value_perm. Qed.

Example C01_remove_conserves_example :
  remove_value 0%Z ex_list 2 = Ret (20%Z, [10; 30]%Z) /\ Permutation.Permutation ex_list (20%Z :: [10; 30]%Z).
Proof. split; [vm_compute; reflexivity|]. apply (C01_remove_conserves Z 0%Z ex_list 2). vm_compute; reflexivity. Qed.

Theorem C01_remove_values_conserves :
  forall (A : Type) (l : list A) (i j : Z) (r l' : list A),
         remove_values l i j = Ret (r, l') -> Permutation.Permutation l (r ++ l').
Proof. exact remove_values_perm. Qed.

Example C01_remove_values_conserves_example :
  remove_values ex_dup (-3) 3 = Ret ([20; 30]%Z, [10; 20]%Z) /\ Permutation.Permutation ex_dup ([20; 30]%Z ++ [10; 20]%Z).
Proof. split; [vm_compute; reflexivity|]. apply (C01_remove_values_conserves Z ex_dup (-3) 3). vm_compute; reflexivity. Qed.

Theorem C01_get_index_first_match :
  forall (A : Type) (eqb : A -> A -> bool) (l : list A) (v : A) (k : nat),
         get_index eqb l v = S k <->
         k < length l /\
         (forall d : A, eqb (nth k l d) v = true) /\
         (forall (j : nat) (d : A), j < k -> eqb (nth j l d) v = false).
Proof. exact get_index_spec. Qed.

(* non-vacuity: 20 occurs at ordinals 2 and 4 of [10;20;30;20]: the first is reported *)
Example C01_get_index_first_match_example : get_index Z.eqb ex_dup 20%Z = 2.
Proof. vm_compute; reflexivity. Qed.

Theorem C01_get_index_absent :
  forall (A : Type) (eqb : A -> A -> bool) (l : list A) (v : A),
         get_index eqb l v = 0 <-> (forall x : A, In x l -> eqb x v = false).
Proof. exact get_index_zero. Qed.

Example C01_get_index_absent_example :
  get_index Z.eqb ex_dup 99%Z = 0 /\ (forall x : Z, In x ex_dup -> Z.eqb x 99%Z = false).
Proof. split; [vm_compute; reflexivity|]. apply (C01_get_index_absent Z Z.eqb ex_dup 99%Z). vm_compute; reflexivity. Qed.

Theorem C01_append_locality :
  forall (A : Type) (l : list A) (v d : A) (j : nat),
         length (append_value l v) = S (length l) /\
         nth j (append_value l v) d =
         (if j <? length l then nth j l d else if j =? length l then v else d).
Proof. exact append_value_nth. Qed.

Theorem C01_append_values_locality :
  forall (A : Type) (l src : list A) (d : A) (j : nat),
         length (append_values l src) = length l + length src /\
         nth j (append_values l src) d =
         (if j <? length l then nth j l d else nth (j - length l) src d).
Proof. exact append_values_nth. Qed.

Theorem C01_append_conserves :
  forall (A : Type) (l : list A) (v : A), Permutation.Permutation (append_value l v) (v :: l).
Proof. exact append_value_perm. Qed.

Theorem C01_append_values_conserves :
  forall (A : Type) (l src : list A), Permutation.Permutation (append_values l src) (src ++ l).
Proof. exact append_values_perm. Qed.

Theorem C01_set_value_conserves :
  forall (A : Type) (zero : A) (l : list A) (i : Z) (v : A) (l' : list A) (k : nat),
         set_value l i v = Ret l' ->
         pos (length l) i = Some k -> Permutation.Permutation (nth k l zero :: l') (v :: l).
Proof. exact set_value_perm. Qed.

(* non-vacuity: the overwritten 30 is the only value lost, 99 the only one gained *)
Example C01_set_value_conserves_example :
  set_value ex_list (-1) 99%Z = Ret [10; 20; 99]%Z /\ pos (length ex_list) (-1) = Some 2 /\
  Permutation.Permutation (nth 2 ex_list 0%Z :: [10; 20; 99]%Z) (99%Z :: ex_list).
Proof.
  split; [vm_compute; reflexivity|]. split; [vm_compute; reflexivity|].
  apply (C01_set_value_conserves Z 0%Z ex_list (-1) 99%Z); vm_compute; reflexivity.
Qed.

Theorem C01_set_values_conserves :
  forall (A : Type) (l : list A) (i : Z) (src l' : list A) (k : nat),
         set_values l i src = Ret l' ->
         pos (length l) i = Some k ->
         Permutation.Permutation (firstn (length src) (skipn k l) ++ l') (src ++ l).
Proof. exact set_values_perm. Qed.

Example C01_set_values_conserves_example :
  set_values ex_list 2 [7; 8]%Z = Ret [10; 7; 8]%Z /\
  Permutation.Permutation (firstn 2 (skipn 1 ex_list) ++ [10; 7; 8]%Z) ([7; 8]%Z ++ ex_list).
Proof.
  split; [vm_compute; reflexivity|].
  apply (C01_set_values_conserves Z ex_list 2 [7; 8]%Z [10; 7; 8]%Z 1); vm_compute; reflexivity.
Qed.

Theorem C01_get_value_exact :
  forall (A : Type) (zero : A) (l : list A) (i : Z) (v : A),
         get_value zero l i = Ret v ->
         exists k : nat, pos (length l) i = Some k /\ k < length l /\ v = nth k l zero.
Proof. exact get_value_exact. Qed.

Theorem C01_get_values_exact :
  forall (A : Type) (l : list A) (i j : Z) (r : list A),
         get_values l i j = Ret r ->
         exists a b : nat,
           pos (length l) i = Some a /\
           pos (length l) j = Some b /\
           a <= S b /\
           S b <= length l /\
           r = firstn (S b - a) (skipn a l) /\
           length r = S b - a /\
           (forall (k : nat) (d : A), k < length r -> nth k r d = nth (a + k) l d).
Proof. exact get_values_exact. Qed.

Theorem C01_remove_values_exact :
  forall (A : Type) (l : list A) (i j : Z) (r l' : list A),
         remove_values l i j = Ret (r, l') ->
         exists a b : nat,
           pos (length l) i = Some a /\
           pos (length l) j = Some b /\
           a <= S b /\
           S b <= length l /\
           r = firstn (S b - a) (skipn a l) /\
           l' = firstn a l ++ skipn (S b) l /\
           length l' = length l - (S b - a) /\
           (forall (k : nat) (d : A),
            nth k l' d = (if k <? a then nth k l d else nth (k + (S b - a)) l d)).
Proof. exact remove_values_exact. Qed.

Example C01_remove_values_exact_example :
  remove_values ex_dup 2 (-2) = Ret ([20; 30]%Z, [10; 20]%Z) /\
  pos (length ex_dup) 2 = Some 1 /\ pos (length ex_dup) (-2) = Some 2.
Proof. repeat split; vm_compute; reflexivity. Qed.

Theorem C01_get_value_panics_iff :
  forall (A : Type) (zero : A) (l : list A) (i : Z),
         get_value zero l i = Panic <-> pos (length l) i = None.
Proof. exact get_value_panics_iff. Qed.

Theorem C01_set_value_panics_iff :
  forall (A : Type) (l : list A) (i : Z) (v : A),
         set_value l i v = Panic <-> pos (length l) i = None.
Proof. exact set_value_panics_iff. Qed.

Theorem C01_remove_value_panics_iff :
  forall (A : Type) (zero : A) (l : list A) (i : Z),
         remove_value zero l i = Panic <-> pos (length l) i = None.
Proof. exact remove_value_panics_iff. Qed.

Theorem C01_get_values_panics_iff :
  forall (A : Type) (l : list A) (i j : Z),
         get_values l i j = Panic <-> range_bad (length l) i j.
Proof. exact get_values_panics_iff. Qed.

Example C01_get_values_panics_iff_example :
  get_values ex_list 3 1 = Panic /\ range_bad (length ex_list) 3 1 /\ get_values ex_list 1 4 = Panic /\ get_values ex_list 0 2 = Panic.
Proof.
  split; [vm_compute; reflexivity|]. split; [|split; vm_compute; reflexivity].
  apply (C01_get_values_panics_iff Z ex_list 3 1). vm_compute; reflexivity.
Qed.

Theorem C01_remove_values_panics_iff :
  forall (A : Type) (l : list A) (i j : Z),
         remove_values l i j = Panic <-> range_bad (length l) i j.
Proof. exact remove_values_panics_iff. Qed.

Theorem C01_insert_values_panics_iff :
  forall (A : Type) (l : list A) (slot : nat) (vs : list A),
         insert_values l slot vs = Panic <-> length l < slot.
Proof. exact insert_values_panics_iff. Qed.

Theorem C01_reads_do_not_modify :
  forall (A : Type) (zero : A) (eqb : A -> A -> bool) (l : list A) (o : lop A),
         is_read A o = true -> fst (lstep_spec zero eqb l o) = l.
Proof. exact reads_do_not_modify. Qed.

Example C01_reads_do_not_modify_example :
  is_read Z (LGetValues Z 1 (-1)) = true /\ lstep_spec 0%Z Z.eqb ex_list (LGetValues Z 1 (-1)) = (ex_list, LVals Z ex_list) /\
  is_read Z (LContainsAny Z None) = true /\ lstep_spec 0%Z Z.eqb ex_list (LContainsAny Z None) = (ex_list, LBool Z true).
Proof. repeat split; vm_compute; reflexivity. Qed.

Theorem C01_views_agree :
  forall (A : Type) (zero : A) (eqb : A -> A -> bool) (l : list A),
         lstep_spec zero eqb l (LAsArray A) = (l, LVals A l) /\
         lstep_spec zero eqb l (LGetSize A) = (l, LNat A (length l)) /\
         lstep_spec zero eqb l (LIsEmpty A) = (l, LBool A (length l =? 0)).
Proof. exact views_agree. Qed.

Theorem C01_size_of_step :
  forall (A : Type) (zero : A) (eqb : A -> A -> bool) (l : list A) 
           (o : lop A) (l' : list A) (ob : lobs A),
         lstep_spec zero eqb l o = (l', ob) -> ob <> LPanic -> length l' = size_after A l o.
Proof. exact size_of_step. Qed.

(* non-vacuity: sizes after a receiver-aliased insertion (3+3) and after removing the range (2,-2) of six *)
Example C01_size_of_step_example :
  lstep_spec 0%Z Z.eqb ex_list (LInsertValues Z 1 None) = ([10; 10; 20; 30; 20; 30]%Z, LUnit) /\
  size_after Z ex_list (LInsertValues Z 1 None) = 6 /\
  size_after Z [10; 10; 20; 30; 20; 30]%Z (LRemoveValues Z 2 (-2)) = 2.
Proof. repeat split; vm_compute; reflexivity. Qed.

Theorem C01_self_operand_as_copy :
  forall (A : Type) (zero : A) (eqb : A -> A -> bool) (l : list A),
         (forall slot : nat,
          lstep_impl zero eqb l (LInsertValues A slot None) =
          lstep_spec zero eqb l (LInsertValues A slot (Some l))) /\
         lstep_impl zero eqb l (LAppendValues A None) =
         lstep_spec zero eqb l (LAppendValues A (Some l)) /\
         (forall i : Z,
          lstep_impl zero eqb l (LSetValues A i None) =
          lstep_spec zero eqb l (LSetValues A i (Some l))) /\
         lstep_impl zero eqb l (LContainsAny A None) =
         lstep_spec zero eqb l (LContainsAny A (Some l)) /\
         lstep_impl zero eqb l (LContainsAll A None) =
         lstep_spec zero eqb l (LContainsAll A (Some l)).
Proof. exact self_operand_as_copy. Qed.

Theorem C01_self_insert_values :
  forall (A : Type) (zero : A) (eqb : A -> A -> bool) (l : list A) (slot : nat),
         slot <= length l ->
         lstep_spec zero eqb l (LInsertValues A slot None) =
         (firstn slot l ++ l ++ skipn slot l, LUnit).
Proof. exact self_insert_values. Qed.

Example C01_self_insert_values_example :
  lstep_impl 0%Z Z.eqb ex_list (LInsertValues Z 1 None) = ([10; 10; 20; 30; 20; 30]%Z, LUnit) /\
  lstep_impl 0%Z Z.eqb ex_list (LInsertValues Z 1 (Some ex_list)) = ([10; 10; 20; 30; 20; 30]%Z, LUnit) /\
  lstep_impl 0%Z Z.eqb ex_list (LAppendValues Z None) = (ex_list ++ ex_list, LUnit).
Proof. repeat split; vm_compute; reflexivity. Qed.

Theorem C01_self_append_values :
  forall (A : Type) (zero : A) (eqb : A -> A -> bool) (l : list A),
         lstep_spec zero eqb l (LAppendValues A None) = (l ++ l, LUnit).
Proof. exact self_append_values. Qed.


Print Assumptions C01_history_refinement.
Print Assumptions C01_every_call_returns.
Print Assumptions C01_panic_leaves_unchanged.
Print Assumptions C01_index_meaning.
Print Assumptions C01_index_panics_iff.
Print Assumptions C01_insert_panics_iff.
Print Assumptions C01_insert_locality.
Print Assumptions C01_insert_values_locality.
Print Assumptions C01_set_value_locality.
Print Assumptions C01_set_values_locality.
Print Assumptions C01_set_values_panics_iff.
Print Assumptions C01_remove_value_locality.
Print Assumptions C01_remove_values_locality.
Print Assumptions C01_get_values_locality.
Print Assumptions C01_insert_conserves.
Print Assumptions C01_insert_values_conserves.
Print Assumptions C01_remove_conserves.
Print Assumptions C01_remove_values_conserves.
Print Assumptions C01_get_index_first_match.
Print Assumptions C01_get_index_absent.
Print Assumptions C01_append_locality.
Print Assumptions C01_append_values_locality.
Print Assumptions C01_append_conserves.
Print Assumptions C01_append_values_conserves.
Print Assumptions C01_set_value_conserves.
Print Assumptions C01_set_values_conserves.
Print Assumptions C01_get_value_exact.
Print Assumptions C01_get_values_exact.
Print Assumptions C01_remove_values_exact.
Print Assumptions C01_get_value_panics_iff.
Print Assumptions C01_set_value_panics_iff.
Print Assumptions C01_remove_value_panics_iff.
Print Assumptions C01_get_values_panics_iff.
Print Assumptions C01_remove_values_panics_iff.
Print Assumptions C01_insert_values_panics_iff.
Print Assumptions C01_reads_do_not_modify.
Print Assumptions C01_views_agree.
Print Assumptions C01_size_of_step.
Print Assumptions C01_self_operand_as_copy.
Print Assumptions C01_self_insert_values.
Print Assumptions C01_self_append_values.
