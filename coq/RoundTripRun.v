(* RoundTripRun.v — the composed round-trip theorem (C10_round_trip, C10_round_trip_equal,
   C10_text_fixpoint) evaluated on the cases of the formatter correspondence: for every call whose
   value the property holds to the round trip (FormatSpec.rt_class >= 1) the HYPOTHESES of the
   theorems are evaluated on the generated value — it lies in the universe rt_ok, the float
   hypothesis holds of the case's oracle table, every Set is listed in the constructor's order,
   on class 2 the parsed value with its oracle fields restored is the original one — and the
   CONCLUSION is re-computed on the text the REAL formatter returned: the scanner / parser models
   give PValue (canon v).  So the universe of the theorem is measured against the generated
   universe, and the scanner / parser models run on the real formatter's output.
   Oracles of a case: [ft_of] (Go's %G text per bit pattern, from the harness); ParseFloat is taken
   as the inverse of the repaired formatFloat on the table (the harness checks ParseFloat on the %G
   text of every entry and observes the real round trip); the collator's complex oracle fields are
   read off the value itself.  No proofs. *)
From Coq Require Import String Ascii.
From Verif Require Import Base Params Value Formatter FormatSpec FormatRun.
From Verif Require Lexer Literals Parser ParseRun RoundTrip.
Open Scope Z_scope.

(* strconv.ParseFloat on the texts the formatter can write for the floats of the case; the text
   behind the minus sign of a negative entry denotes the same number with the sign bit cleared *)
Definition fparse_of (tbl : list (Z * list Z)) (t : list Z) : option Z :=
  match find (fun p => list_eqb Z.eqb (fix_float (snd p)) t) tbl with
  | Some p => Some (fst p)
  | None =>
    match find (fun p => list_eqb Z.eqb (fix_float (snd p)) (45 :: t)) tbl with
    | Some p => Some (Literals.fneg (fst p))
    | None => None
    end
  end.

(* cmplx.Abs / cmplx.Phase of the complex numbers of a value, as the harness encoded them *)
Fixpoint cx_table (v : val) {struct v} : list (Z * Z * (Z * Z)) :=
  match v with
  | VComplex _ re im ab ph => [((re, im), (ab, ph))]
  | VSeq _ l => flat_map cx_table l
  | VAssoc k x => cx_table k ++ cx_table x
  | VMapping _ ks vs => flat_map cx_table ks ++ flat_map cx_table vs
  | _ => []
  end.
Definition crank_of (v : val) : val -> val -> option comparison := ParseRun.default_crank (cx_table v).

(* RoundTrip.sets_sorted as a boolean *)
Fixpoint sets_sortedb (crank : val -> val -> option comparison) (v : val) {struct v} : bool :=
  match v with
  | VSeq k l =>
      forallb (sets_sortedb crank) l &&
      match k with
      | KSet => match Parser.set_build crank [] (map (RoundTrip.canon crank) l) with
                | Some s => list_eqb val_eqb s (map (RoundTrip.canon crank) l)
                | None => false
                end
      | _ => true
      end
  | VMapping _ _ vs => forallb (sets_sortedb crank) vs
  | VAssoc _ x => sets_sortedb crank x
  | _ => true
  end.

(* 0 = fine; 3 = the value is outside rt_ok; 4 = floats_roundtrip fails; 5 = a Set is not listed in the
   constructor's order; 6 = class 2 but canon v (oracle fields restored) is not v; 7 = the scanner /
   parser models do not give PValue (canon v) on the observed text; 8 / 9 = an elided text is not
   rejected with a located diagnostic (model) / did not make the real ParseSource panic *)
Definition rt_model_code (c : fcase) (k : fcall) : nat :=
  match k with
  | FCall v obs rt rteq rttxt =>
    match obs with
    | OText t =>
      match rt_class (fc_max c) v with
      | O =>
        (* an ELIDED text (nested deeper than the limit): the scanner / parser models stop with a
           located diagnostic — for the first dot, or for an earlier token when the value holds
           something else the grammar has no sentence for (8 otherwise) —, and the real ParseSource
           did not return a value (9; the harness does not call it on a bare association) *)
        match tokens_of (ft_of (fc_ftext c)) (pr_of (fc_print c)) (fc_max c) v with
        | Some ts =>
          if has_elision ts then
            match Parser.parse_source (fparse_of (fc_ftext c)) (crank_of v) t with
            | Parser.PSyntax e => if rt =? 0 then 9%nat else O
            | _ => 8%nat
            end
          else O
        | None => O
        end
      | S cls' =>
        let crank := crank_of v in
        let ftext := ft_of (fc_ftext c) in
        let fparse := fparse_of (fc_ftext c) in
        if negb (RoundTrip.rt_ok crank (fc_max c) v) then 3%nat
        else if negb (RoundTrip.floats_roundtrip fparse ftext v) then 4%nat
        else if negb (sets_sortedb crank v) then 5%nat
        else if match cls' with O => false | _ => negb (val_eqb (ParseRun.decorate (cx_table v) (RoundTrip.canon crank v)) v) end then 6%nat
        else match Parser.parse_source fparse crank t with
             | Parser.PValue p => if val_eqb p (RoundTrip.canon crank v) then O else 7%nat
             | _ => 7%nat
             end
      end
    | _ => O
    end
  end.

Fixpoint first_bad_rt (c : fcase) (ks : list fcall) (i : nat) : option nat :=
  match ks with
  | [] => None
  | k :: t => match rt_model_code c k with O => first_bad_rt c t (S i) | code => Some (2000 + 10 * i + code)%nat end
  end.

(* (case, step): the steps of FormatRun.fmismatches, then 2000 + 10 * call + code of rt_model_code *)
Fixpoint rt_mismatches_from (n : nat) (cases : list fcase) : list (nat * nat) :=
  match cases with
  | [] => []
  | c :: t => match first_bad_rt c (fc_calls c) 0 with
              | Some s => (n, s) :: rt_mismatches_from (S n) t
              | None => rt_mismatches_from (S n) t
              end
  end.
Definition fmismatches_rt (cases : list fcase) : list (nat * nat) :=
  fmismatches cases ++ rt_mismatches_from 0 cases.

(* how many calls were held to the theorem (class >= 1 with a text) *)
Definition rt_checked (cases : list fcase) : nat :=
  length (filter (fun k => match k with FCall v (OText _) _ _ _ => true | _ => false end)
                 (flat_map (fun c => filter (fun k => match k with FCall v _ _ _ _ => negb (Nat.eqb (rt_class (fc_max c) v) 0) end) (fc_calls c)) cases)).

Definition rt_report (c : fcase) (step : nat) :=
  if (step <? 2000)%nat then None
  else match nth_error (fc_calls c) ((step - 2000) / 10) with
       | Some (FCall v obs rt rteq rttxt as k) =>
           let crank := crank_of v in
           Some (rt_class (fc_max c) v, RoundTrip.rt_ok crank (fc_max c) v,
                 RoundTrip.floats_roundtrip (fparse_of (fc_ftext c)) (ft_of (fc_ftext c)) v, sets_sortedb crank v,
                 RoundTrip.canon crank v,
                 match obs with OText t => Some (Parser.parse_source (fparse_of (fc_ftext c)) crank t) | _ => None end,
                 rt_model_code c k)
       | None => None
       end.
