(* C14.v — Map behaves exactly like a Go map and its views stay coherent
   Statements only: every theorem is closed by [exact] of a lemma proved elsewhere, and its
   axioms are printed.  Generated once by tools/mkprop.py from the proved lemmas' statements. *)
From Verif Require Import Base Seq Coll AssocProofs.

Theorem C14_every_history_refines_the_abstract_map :
  forall (K V : Type) (keq : K -> K -> bool),
         (forall a b : K, keq a b = keq b a) ->
         (forall a b c : K, keq a b = true -> keq b c = true -> keq a c = true) ->
         forall (ops : list (aop K V)) (m : list (K * V)),
         wfm K V keq m ->
         forall x : K, a_get keq (arun K V keq m ops) x = frun K V keq (a_get keq m) ops x.
Proof. exact C03_refines. Qed.

Theorem C14_keys_stay_distinct :
  forall (K V : Type) (keq : K -> K -> bool),
         (forall a b : K, keq a b = keq b a) ->
         forall (ops : list (aop K V)) (m : list (K * V)),
         wfm K V keq m -> wfm K V keq (arun K V keq m ops).
Proof. exact C03_inv. Qed.

Theorem C14_each_association_once :
  forall (K V : Type) (keq : K -> K -> bool),
         (forall k : K, keq k k = true) ->
         (forall a b : K, keq a b = keq b a) ->
         forall m : list (K * V),
         wfm K V keq m -> forall (k : K) (v : V), In (k, v) m -> a_get keq m k = Some v.
Proof. exact C03_views. Qed.

Theorem C14_each_association_once_conv :
  forall (K V : Type) (keq : K -> K -> bool) (m : list (K * V)) (x : K) (v : V),
         a_get keq m x = Some v -> exists k : K, In (k, v) m /\ keq x k = true.
Proof. exact C03_views_conv. Qed.

Theorem C14_absent_reads_zero :
  forall (K V : Type) (vzero : V) (keq : K -> K -> bool) (m : list (K * V)) (k : K),
         a_get keq m k = None -> a_get_or_zero vzero keq m k = vzero.
Proof. exact a_get_or_zero_absent. Qed.

Theorem C14_lookup_after_set :
  forall (K V : Type) (keq : K -> K -> bool),
         (forall a b : K, keq a b = keq b a) ->
         (forall a b c : K, keq a b = true -> keq b c = true -> keq a c = true) ->
         forall (m : list (K * V)) (k : K) (v : V) (x : K),
         a_get keq (a_set keq m k v) x = (if keq x k then Some v else a_get keq m x).
Proof. exact a_get_set. Qed.

Theorem C14_lookup_after_remove :
  forall (K V : Type) (keq : K -> K -> bool),
         (forall a b : K, keq a b = keq b a) ->
         (forall a b c : K, keq a b = true -> keq b c = true -> keq a c = true) ->
         forall (m : list (K * V)) (k x : K),
         wfm K V keq m -> a_get keq (a_remove keq m k) x = (if keq x k then None else a_get keq m x).
Proof. exact a_get_remove. Qed.

Theorem C14_bulk_remove :
  forall (K V : Type) (vzero : V) (keq : K -> K -> bool),
         (forall a b : K, keq a b = keq b a) ->
         (forall a b c : K, keq a b = true -> keq b c = true -> keq a c = true) ->
         forall (ks : list K) (m : list (K * V)),
         wfm K V keq m ->
         wfm K V keq (snd (a_remove_all vzero keq m ks)) /\
         length (fst (a_remove_all vzero keq m ks)) = length ks /\
         (forall x : K,
          a_get keq (snd (a_remove_all vzero keq m ks)) x =
          (if existsb (keq x) ks then None else a_get keq m x)).
Proof. exact a_remove_all_spec. Qed.

Theorem C14_constructors_last_wins :
  forall (K V : Type) (keq : K -> K -> bool),
         (forall a b : K, keq a b = keq b a) ->
         (forall a b c : K, keq a b = true -> keq b c = true -> keq a c = true) ->
         forall (kvs m : list (K * V)) (x : K),
         a_get keq (a_set_all keq m kvs) x =
         match a_get keq (rev kvs) x with
         | Some v => Some v
         | None => a_get keq m x
         end.
Proof. exact a_set_all_get. Qed.

Theorem C14_constructors_distinct :
  forall (K V : Type) (keq : K -> K -> bool),
         (forall a b : K, keq a b = keq b a) ->
         forall kvs m : list (K * V), wfm K V keq m -> wfm K V keq (a_set_all keq m kvs).
Proof. exact a_set_all_wf. Qed.

Theorem C14_unordered_views :
  forall (K V : Type) (keq : K -> K -> bool),
         (forall a b : K, keq a b = keq b a) ->
         (forall a b c : K, keq a b = true -> keq b c = true -> keq a c = true) ->
         forall m m' : list (K * V),
         wfm K V keq m ->
         Permutation.Permutation m m' -> forall x : K, a_get keq m' x = a_get keq m x.
Proof. exact a_get_perm. Qed.


Print Assumptions C14_every_history_refines_the_abstract_map.
Print Assumptions C14_keys_stay_distinct.
Print Assumptions C14_each_association_once.
Print Assumptions C14_each_association_once_conv.
Print Assumptions C14_absent_reads_zero.
Print Assumptions C14_lookup_after_set.
Print Assumptions C14_lookup_after_remove.
Print Assumptions C14_bulk_remove.
Print Assumptions C14_constructors_last_wins.
Print Assumptions C14_constructors_distinct.
Print Assumptions C14_unordered_views.
