(* C14.v — Map behaves exactly like a Go map and its views stay coherent
   Statements only: every theorem is closed by [exact] of a lemma proved elsewhere, and its
   axioms are printed.  Generated once by tools/mkprop.py from the proved lemmas' statements. 
   Round 2 (polish): an [Example] of non-vacuity beside the theorems with hypotheses (data in AssocProofs2.v);
   from C14_go_key_equality_is_symmetric on: the hypotheses on "==" discharged for the pool's keys, the Map
   operations and constructors of the pool machine, views as new objects that survive later updates. *)
From Verif Require Import Base Sorter SorterProofs Value Seq Coll Pool PoolFrame AssocProofs SorterProofs2 AssocProofs2 ReorderProofs.
Local Open Scope nat_scope.

Theorem C14_every_history_refines_the_abstract_map :
  forall (K V : Type) (keq : K -> K -> bool),
         (forall a b : K, keq a b = keq b a) ->
         (forall a b c : K, keq a b = true -> keq b c = true -> keq a c = true) ->
         forall (ops : list (aop K V)) (m : list (K * V)),
         wfm K V keq m ->
         forall x : K, a_get keq (arun K V keq m ops) x = frun K V keq (a_get keq m) ops x.
Proof. exact C03_refines. Qed.

(* non-vacuity: the map a:1 b:2 c:3 (Go string keys; Value.keq is symmetric and transitive) and the history
   set d, overwrite b, remove a, remove the absent z, set a again; lookups agree with the abstract Go map *)
Example C14_every_history_refines_the_abstract_map_example :
  (forall a b : val, keq a b = keq b a) /\
  (forall a b c : val, keq a b = true -> keq b c = true -> keq a c = true) /\ wfm val val keq ex_cat /\
  (forall x : val, a_get keq (arun val val keq ex_cat ex_aops) x = frun val val keq (a_get keq ex_cat) ex_aops x) /\
  a_get keq (arun val val keq ex_cat ex_aops) kb = Some (iv 20) /\
  a_get keq (arun val val keq ex_cat ex_aops) (ks [122]%Z) = None.
Proof.
  split; [exact keq_sym|]. split; [exact keq_trans|]. split; [exact (distinctb_ok val val keq ex_cat eq_refl)|].
  split; [|split; vm_compute; reflexivity].
  apply (C14_every_history_refines_the_abstract_map val val keq keq_sym keq_trans). exact (distinctb_ok val val keq ex_cat eq_refl).
Qed.

Theorem C14_keys_stay_distinct :
  forall (K V : Type) (keq : K -> K -> bool),
         (forall a b : K, keq a b = keq b a) ->
         forall (ops : list (aop K V)) (m : list (K * V)),
         wfm K V keq m -> wfm K V keq (arun K V keq m ops).
Proof. exact C03_inv. Qed.

Example C14_keys_stay_distinct_example :
  wfm val val keq ex_cat /\ wfm val val keq (arun val val keq ex_cat ex_aops) /\
  length (arun val val keq ex_cat ex_aops) = 4.
Proof.
  split; [exact (distinctb_ok val val keq ex_cat eq_refl)|]. split; [|vm_compute; reflexivity].
  apply (C14_keys_stay_distinct val val keq keq_sym). exact (distinctb_ok val val keq ex_cat eq_refl).
Qed.

Theorem C14_each_association_once :
  forall (K V : Type) (keq : K -> K -> bool),
         (forall k : K, keq k k = true) ->
         (forall a b : K, keq a b = keq b a) ->
         forall m : list (K * V),
         wfm K V keq m -> forall (k : K) (v : V), In (k, v) m -> a_get keq m k = Some v.
Proof. exact C03_views. Qed.

(* non-vacuity: reflexivity of "==" for ALL keys holds for int keys; for the pool's keys see
   C14_each_association_once_at_self_equal_keys (NaN keys are not equal to themselves) *)
Example C14_each_association_once_example :
  (forall k : Z, Z.eqb k k = true) /\ (forall a b : Z, Z.eqb a b = Z.eqb b a) /\
  wfm Z Z Z.eqb [(1, 10); (2, 20)]%Z /\ a_get Z.eqb [(1, 10); (2, 20)]%Z 2%Z = Some 20%Z.
Proof.
  split; [exact Z.eqb_refl|]. split; [exact Z.eqb_sym|]. split; [apply (distinctb_ok Z Z Z.eqb); reflexivity|reflexivity].
Qed.

Theorem C14_each_association_once_conv :
  forall (K V : Type) (keq : K -> K -> bool) (m : list (K * V)) (x : K) (v : V),
         a_get keq m x = Some v -> exists k : K, In (k, v) m /\ keq x k = true.
Proof. exact C03_views_conv. Qed.

Example C14_each_association_once_conv_example :
  a_get keq ex_cat kb = Some (iv 2) /\ In (kb, iv 2) ex_cat /\ keq kb kb = true.
Proof. split; [vm_compute; reflexivity|]. split; [right; left; reflexivity|vm_compute; reflexivity]. Qed.

Theorem C14_absent_reads_zero :
  forall (K V : Type) (vzero : V) (keq : K -> K -> bool) (m : list (K * V)) (k : K),
         a_get keq m k = None -> a_get_or_zero vzero keq m k = vzero.
Proof. exact a_get_or_zero_absent. Qed.

Example C14_absent_reads_zero_example :
  a_get keq ex_cat kd = None /\ a_get_or_zero (iv 0) keq ex_cat kd = iv 0 /\
  a_remove keq ex_cat kd = ex_cat.
Proof. repeat split; vm_compute; reflexivity. Qed.

Theorem C14_lookup_after_set :
  forall (K V : Type) (keq : K -> K -> bool),
         (forall a b : K, keq a b = keq b a) ->
         (forall a b c : K, keq a b = true -> keq b c = true -> keq a c = true) ->
         forall (m : list (K * V)) (k : K) (v : V) (x : K),
         a_get keq (a_set keq m k v) x = (if keq x k then Some v else a_get keq m x).
Proof. exact a_get_set. Qed.

Example C14_lookup_after_set_example :
  (forall a b : val, keq a b = keq b a) /\
  (forall a b c : val, keq a b = true -> keq b c = true -> keq a c = true) /\
  a_get keq (a_set keq ex_cat kb (iv 20)) kb = Some (iv 20) /\ a_get keq (a_set keq ex_cat kb (iv 20)) kc = Some (iv 3).
Proof. split; [exact keq_sym|]. split; [exact keq_trans|]. split; vm_compute; reflexivity. Qed.

Theorem C14_lookup_after_remove :
  forall (K V : Type) (keq : K -> K -> bool),
         (forall a b : K, keq a b = keq b a) ->
         (forall a b c : K, keq a b = true -> keq b c = true -> keq a c = true) ->
         forall (m : list (K * V)) (k x : K),
         wfm K V keq m -> a_get keq (a_remove keq m k) x = (if keq x k then None else a_get keq m x).
Proof. exact a_get_remove. Qed.

Example C14_lookup_after_remove_example :
  wfm val val keq ex_cat /\ a_get keq (a_remove keq ex_cat kb) kb = None /\ a_get keq (a_remove keq ex_cat kb) kc = Some (iv 3).
Proof. split; [exact (distinctb_ok val val keq ex_cat eq_refl)|]. split; vm_compute; reflexivity. Qed.

Theorem C14_bulk_remove :
  forall (K V : Type) (vzero : V) (keq : K -> K -> bool),
         (forall a b : K, keq a b = keq b a) ->
         (forall a b c : K, keq a b = true -> keq b c = true -> keq a c = true) ->
         forall (ks : list K) (m : list (K * V)),
         wfm K V keq m ->
         wfm K V keq (snd (a_remove_all vzero keq m ks)) /\
         length (fst (a_remove_all vzero keq m ks)) = length ks /\
         (forall x : K,
          a_get keq (snd (a_remove_all vzero keq m ks)) x =
          (if existsb (keq x) ks then None else a_get keq m x)).
Proof. exact a_remove_all_spec. Qed.

(* non-vacuity: RemoveValues([c, z, a, c]): duplicate key c and absent key z read as the zero value *)
Example C14_bulk_remove_example :
  wfm val val keq ex_cat /\
  a_remove_all (iv 0) keq ex_cat ex_req = ([iv 3; iv 0; iv 1; iv 0], [(kb, iv 2)]).
Proof. split; [exact (distinctb_ok val val keq ex_cat eq_refl)|vm_compute; reflexivity]. Qed.

Theorem C14_constructors_last_wins :
  forall (K V : Type) (keq : K -> K -> bool),
         (forall a b : K, keq a b = keq b a) ->
         (forall a b c : K, keq a b = true -> keq b c = true -> keq a c = true) ->
         forall (kvs m : list (K * V)) (x : K),
         a_get keq (a_set_all keq m kvs) x =
         match a_get keq (rev kvs) x with
         | Some v => Some v
         | None => a_get keq m x
         end.
Proof. exact a_set_all_get. Qed.

Example C14_constructors_last_wins_example :
  a_set_all keq [] [(ka, iv 1); (kb, iv 2); (ka, iv 7)] = [(ka, iv 7); (kb, iv 2)] /\
  a_get keq (a_set_all keq [] [(ka, iv 1); (kb, iv 2); (ka, iv 7)]) ka = Some (iv 7).
Proof. split; vm_compute; reflexivity. Qed.

Theorem C14_constructors_distinct :
  forall (K V : Type) (keq : K -> K -> bool),
         (forall a b : K, keq a b = keq b a) ->
         forall kvs m : list (K * V), wfm K V keq m -> wfm K V keq (a_set_all keq m kvs).
Proof. exact a_set_all_wf. Qed.

Example C14_constructors_distinct_example :
  wfm val val keq (a_set_all keq [] [(ka, iv 1); (kb, iv 2); (ka, iv 7)]).
Proof. apply (C14_constructors_distinct val val keq keq_sym). exact I. Qed.

Theorem C14_unordered_views :
  forall (K V : Type) (keq : K -> K -> bool),
         (forall a b : K, keq a b = keq b a) ->
         (forall a b c : K, keq a b = true -> keq b c = true -> keq a c = true) ->
         forall m m' : list (K * V),
         wfm K V keq m ->
         Permutation.Permutation m m' -> forall x : K, a_get keq m' x = a_get keq m x.
Proof. exact a_get_perm. Qed.

(* non-vacuity: any iteration order (a permutation) of the map describes the same associations *)
Example C14_unordered_views_example :
  wfm val val keq ex_cat /\ Permutation.Permutation ex_cat [(kc, iv 3); (ka, iv 1); (kb, iv 2)] /\
  (forall x : val, a_get keq [(kc, iv 3); (ka, iv 1); (kb, iv 2)] x = a_get keq ex_cat x).
Proof.
  assert (P : Permutation.Permutation ex_cat [(kc, iv 3); (ka, iv 1); (kb, iv 2)]).
  { unfold ex_cat. apply Permutation.Permutation_sym. apply (Permutation.Permutation_cons_app [(ka, iv 1); (kb, iv 2)] []). apply Permutation.Permutation_refl. }
  split; [exact (distinctb_ok val val keq ex_cat eq_refl)|]. split; [exact P|].
  apply (C14_unordered_views val val keq keq_sym keq_trans ex_cat _ (distinctb_ok val val keq ex_cat eq_refl) P).
Qed.

Theorem C14_go_key_equality_is_symmetric :
  forall a b : val, keq a b = keq b a.
Proof. exact keq_sym. Qed.

Theorem C14_go_key_equality_is_transitive :
  forall a b c : val, keq a b = true -> keq b c = true -> keq a c = true.
Proof. exact keq_trans. Qed.

Theorem C14_each_association_once_at_self_equal_keys :
  forall (K V : Type) (keq : K -> K -> bool),
         (forall a b : K, keq a b = keq b a) ->
         forall m : list (K * V),
         wfm K V keq m ->
         forall (k : K) (v : V), In (k, v) m -> keq k k = true -> a_get keq m k = Some v.
Proof. exact views_agree_at. Qed.

Theorem C14_remove_returns_the_stored_value :
  forall (K V : Type) (vzero : V) (keq : K -> K -> bool) (m : list (K * V)) (k : K) (v : V),
         a_get keq m k = Some v -> a_get_or_zero vzero keq m k = v.
Proof. exact a_get_or_zero_present. Qed.

Theorem C14_bulk_remove_values_in_key_order :
  forall (K V : Type) (vzero : V) (keq : K -> K -> bool) (m : list (K * V)) 
           (k : K) (ks : list K),
         a_remove_all vzero keq m (k :: ks) =
         (a_get_or_zero vzero keq m k :: fst (a_remove_all vzero keq (a_remove keq m k) ks),
          snd (a_remove_all vzero keq (a_remove keq m k) ks)).
Proof. exact a_remove_all_cons. Qed.

Theorem C14_pool_keys_history_refines_the_abstract_map :
  forall (ops : list (aop val val)) (m : list (val * val)),
         wfm val val keq m ->
         forall x : val, a_get keq (arun val val keq m ops) x = frun val val keq (a_get keq m) ops x.
Proof. exact val_history_refines_the_abstract_map. Qed.

Theorem C14_pool_map_operations :
  forall (zero : val) (p : list obj) (o : nat) (m : list (val * val)) (k v : val),
         o < length p ->
         get p o = OMap m ->
         nth o (fst (step zero p (Pool.ASet o k v))) ODead = OMap (a_set keq m k v) /\
         (nth o (fst (step zero p (Pool.ARemove o k))) ODead = OMap (a_remove keq m k) /\
          snd (step zero p (Pool.ARemove o k)) = RVal (a_get_or_zero zero keq m k)) /\
         snd (step zero p (AGet o k)) = RVal (a_get_or_zero zero keq m k) /\
         nth o (fst (step zero p (RemoveAll o))) ODead = OMap [] /\
         snd (step zero p (GetSize o)) = RInt (Z.of_nat (length m)).
Proof. exact pool_map_ops. Qed.

Theorem C14_pool_bulk_remove :
  forall (zero : val) (p : list obj) (o keys : nat) (ks : list val),
         o < length p ->
         seq_plain (get p keys) = Some ks ->
         (forall m : list (val * val),
          get p o = OCat m ->
          step zero p (ARemoveValues o keys) =
          (put p o (OCat (snd (a_remove_all zero keq m ks))) ++
           [OLst (fst (a_remove_all zero keq m ks))], RNew)) /\
         (forall m : list (val * val),
          get p o = OMap m ->
          step zero p (ARemoveValues o keys) =
          (put p o (OMap (snd (a_remove_all zero keq m ks))) ++
           [OArr (fst (a_remove_all zero keq m ks))], RNew)).
Proof. exact pool_remove_values. Qed.

Theorem C14_pool_constructors_last_wins :
  forall (zero : val) (l : list val) (kvs : list (val * val)),
         vals_assoc l = Some kvs ->
         build zero CCatalog l = Ret (OCat (a_set_all keq [] kvs)) /\
         build zero CMap l = Ret (OMap (a_set_all keq [] kvs)) /\
         wfm val val keq (a_set_all keq [] kvs) /\
         (forall x : val, a_get keq (a_set_all keq [] kvs) x = a_get keq (rev kvs) x).
Proof. exact pool_assoc_constructors. Qed.

Theorem C14_views_are_new_objects :
  forall (zero : val) (p : pool) (o : op) (p' : pool) (r : ret),
         writes o = None ->
         step zero p o = (p', r) -> forall i : nat, i < length p -> nth i p' ODead = nth i p ODead.
Proof. exact no_receiver_changes_nothing. Qed.

Theorem C14_snapshots_survive_later_updates :
  forall (zero : val) (ops : list op) (p : list obj) (i : nat),
         i < length p ->
         (forall o : op, In o ops -> writes o <> Some i) ->
         nth i (run zero p ops) ODead = nth i p ODead.
Proof. exact run_frame. Qed.

(* non-vacuity at pool level: a Map built from an array of associations with a repeated key (last wins), a key
   snapshot taken (GetKeys -> slot 2), then RemoveAll while holding the snapshot, and a bulk removal with a
   duplicate key on a second map: the snapshot is unchanged *)
Example C14_pool_example :
  run (iv 0) [] [NewSlice [VAssoc ka (iv 1); VAssoc kb (iv 2); VAssoc ka (iv 7)]; FromArray CMap 0;
                 AKeys 1 [ka; kb]; RemoveAll 1; Pool.ASet 1 kc (iv 3)] =
    [OSlice [VAssoc ka (iv 1); VAssoc kb (iv 2); VAssoc ka (iv 7)]; OMap [(kc, iv 3)]; OArr [ka; kb]] /\
  run (iv 0) [OMap ex_cat; OSlice ex_req] [FromArray CList 1; ARemoveValues 0 2] =
    [OMap [(kb, iv 2)]; OSlice ex_req; OLst ex_req; OArr [iv 3; iv 0; iv 1; iv 0]].
Proof. split; vm_compute; reflexivity. Qed.


(* ====================================================================================================
   Round 3: Go's map iteration order is an oracle (the observed key list [okeys] of each call);
   [reorder m okeys = Some m'] lists the associations of m in that order.  For EVERY oracle: m' is a
   permutation of m up to the spelling of "=="-equal keys, the mapping and the size are unchanged, the keys
   stay distinct.  Hence the unordered views contain each association exactly once whatever order Go
   chooses, and MakeFromMap yields exactly the associations of the Go map.
   ==================================================================================================== *)
Theorem C14_oracle_order_is_a_permutation :
  forall (okeys : list val) (m m' : list (val * val)),
  reorder m okeys = Some m' ->
  exists m'' : list (val * val), Permutation.Permutation m m'' /\ Forall2 same_assoc m'' m'.
Proof. exact reorder_perm_keq. Qed.

(* with the keys spelled as they are stored (the Go runtime hands out the stored key): literally a permutation *)
Theorem C14_oracle_order_is_a_permutation_of_the_stored_associations :
  forall (okeys : list val) (m m' : list (val * val)),
  spelled_as_stored m okeys -> reorder m okeys = Some m' -> Permutation.Permutation m m'.
Proof. exact reorder_perm. Qed.

(* the literal statement without that proviso is false of the model: {+0.0: 1} listed under the key -0.0 *)
Theorem C14_oracle_order_is_a_permutation_refuted :
  exists (m : list (val * val)) (okeys : list val) (m' : list (val * val)),
    reorder m okeys = Some m' /\ ~ Permutation.Permutation m m'.
Proof. exact reorder_perm_refuted. Qed.

Theorem C14_oracle_order_keeps_the_mapping :
  forall (okeys : list val) (m m' : list (val * val)),
  wfm val val keq m -> reorder m okeys = Some m' ->
  (forall x : val, a_get keq m' x = a_get keq m x) /\
  wfm val val keq m' /\ length m' = length m /\ Permutation.Permutation (map snd m) (map snd m').
Proof. exact reorder_keeps_mapping. Qed.

(* non-vacuity: a:1 b:2 c:3 iterated as c, a, b *)
Example C14_oracle_order_example :
  wfm val val keq ex_cat /\ reorder ex_cat [kc; ka; kb] = Some [(kc, iv 3); (ka, iv 1); (kb, iv 2)] /\
  spelled_as_stored ex_cat [kc; ka; kb] /\ reorder ex_cat [kc; ka] = None /\ reorder ex_cat [kc; ka; kb; kd] = None.
Proof.
  split; [exact (distinctb_ok val val keq ex_cat eq_refl)|]. split; [vm_compute; reflexivity|].
  split; [|split; vm_compute; reflexivity].
  intros k k' Hk Hk' E. cbn in Hk, Hk'.
  destruct Hk as [<-|[<-|[<-|[]]]]; destruct Hk' as [<-|[<-|[<-|[]]]]; try reflexivity; vm_compute in E; discriminate.
Qed.

(* the unordered views of a Map (GetKeys, AsArray, hence iteration) under ANY oracle order: each
   association of the map exactly once (as many entries as the map has; every listed pair is looked up to
   its value; every key that is looked up is listed) *)
Theorem C14_unordered_views_contain_each_association_exactly_once :
  forall (zero : val) (p : pool) (o : nat) (okeys : list val) (m m' : list (val * val)),
  get p o = OMap m -> wfm val val keq m -> reorder m okeys = Some m' ->
  step zero p (AKeys o okeys) = (p ++ [OArr (map fst m')], RNew) /\
  step zero p (AsArray o okeys) = (p ++ [OSlice (assoc_vals m')], RNew) /\
  length m' = length m /\ wfm val val keq m' /\
  (forall k v : val, In (k, v) m' -> keq k k = true -> a_get keq m k = Some v) /\
  (forall x v : val, a_get keq m x = Some v -> exists k : val, In (k, v) m' /\ keq x k = true).
Proof. exact map_views_each_association_once. Qed.

(* MakeFromMap (Map and Catalog): exactly the associations of the Go map *)
Theorem C14_from_map_exact :
  forall (zero : val) (p : pool) (src : nat) (okeys : list val) (m m' : list (val * val)),
  get p src = OGoMap m -> wfm val val keq m -> reorder m okeys = Some m' ->
  step zero p (FromMap CCatalog src okeys) = (p ++ [OCat m'], RNew) /\
  step zero p (FromMap CMap src okeys) = (p ++ [OMap m'], RNew) /\
  (forall x : val, a_get keq m' x = a_get keq m x) /\
  wfm val val keq m' /\ length m' = length m /\
  (exists m'' : list (val * val), Permutation.Permutation m m'' /\ Forall2 same_assoc m'' m') /\
  (spelled_as_stored m okeys -> Permutation.Permutation m m').
Proof. exact from_map_exact. Qed.

Example C14_from_map_exact_example :
  run (iv 0) [] [NewGoMap [(ka, iv 1); (kb, iv 2); (ka, iv 10)]; FromMap CMap 0 [kb; ka]; AKeys 1 [ka; kb]] =
    [OGoMap [(ka, iv 10); (kb, iv 2)]; OMap [(kb, iv 2); (ka, iv 10)]; OArr [ka; kb]].
Proof. vm_compute. reflexivity. Qed.

Print Assumptions C14_every_history_refines_the_abstract_map.
Print Assumptions C14_keys_stay_distinct.
Print Assumptions C14_each_association_once.
Print Assumptions C14_each_association_once_conv.
Print Assumptions C14_absent_reads_zero.
Print Assumptions C14_lookup_after_set.
Print Assumptions C14_lookup_after_remove.
Print Assumptions C14_bulk_remove.
Print Assumptions C14_constructors_last_wins.
Print Assumptions C14_constructors_distinct.
Print Assumptions C14_unordered_views.
Print Assumptions C14_go_key_equality_is_symmetric.
Print Assumptions C14_go_key_equality_is_transitive.
Print Assumptions C14_each_association_once_at_self_equal_keys.
Print Assumptions C14_remove_returns_the_stored_value.
Print Assumptions C14_bulk_remove_values_in_key_order.
Print Assumptions C14_pool_keys_history_refines_the_abstract_map.
Print Assumptions C14_pool_map_operations.
Print Assumptions C14_pool_bulk_remove.
Print Assumptions C14_pool_constructors_last_wins.
Print Assumptions C14_views_are_new_objects.
Print Assumptions C14_snapshots_survive_later_updates.
Print Assumptions C14_oracle_order_is_a_permutation.
Print Assumptions C14_oracle_order_is_a_permutation_of_the_stored_associations.
Print Assumptions C14_oracle_order_is_a_permutation_refuted.
Print Assumptions C14_oracle_order_keeps_the_mapping.
Print Assumptions C14_unordered_views_contain_each_association_exactly_once.
Print Assumptions C14_from_map_exact.
