(* PipesLive.v — property C06, liveness: a configuration of the Fork / Split / Split-then-Join
   programs in which no thread can move is final (so no reachable configuration is
   deadlocked) and has delivered exactly the expected streams; every micro-step decreases a
   measure, so every strict run is bounded. *)
From Verif Require Import Base Conc Pipes PipesGen PipesRoles PipesFork PipesSplit PipesSJ PipesProofs.
Close Scope Z_scope.
Open Scope nat_scope.

(* ---------- when a micro-step is enabled ---------- *)
Lemma en_add c t q v rest :
  tph (gett c t) = PIdle -> tcalls (gett c t) = CAdd q v :: rest -> step c t <> None.
Proof. intros Hp Hc. unfold step. rewrite Hp, Hc. discriminate. Qed.

Lemma en_send c t q q' v rest :
  tph (gett c t) = PSend q -> tcalls (gett c t) = CAdd q' v :: rest ->
  qclosed (getq c q) = false -> qtok (getq c q) < qcap (getq c q) -> step c t <> None.
Proof.
  intros Hp Hc Hcl Hlt. unfold step. rewrite Hp, Hc, Hcl.
  apply Nat.ltb_lt in Hlt. rewrite Hlt. discriminate.
Qed.

Lemma en_take c t q rest :
  tph (gett c t) = PIdle -> tcalls (gett c t) = CRemoveHead q :: rest ->
  0 < qtok (getq c q) \/ qclosed (getq c q) = true -> step c t <> None.
Proof.
  intros Hp Hc H. unfold step. rewrite Hp, Hc.
  destruct (Nat.ltb_spec 0 (qtok (getq c q))); [discriminate|].
  destruct H as [H|H]; [lia|]. rewrite H. discriminate.
Qed.

Lemma en_pop c t q q' rest :
  tph (gett c t) = PPop q -> tcalls (gett c t) = CRemoveHead q' :: rest -> step c t <> None.
Proof.
  intros Hp Hc. unfold step. rewrite Hp, Hc. destruct (pop_head (getq c q)) as [[v s']|]; discriminate.
Qed.

Lemma en_close c t q rest :
  tph (gett c t) = PIdle -> tcalls (gett c t) = CClose q :: rest -> step c t <> None.
Proof. intros Hp Hc. unfold step. rewrite Hp, Hc. destruct (qclosed (getq c q)); discriminate. Qed.

Lemma en_done c t rest :
  tph (gett c t) = PIdle -> tcalls (gett c t) = CDone :: rest -> step c t <> None.
Proof. intros Hp Hc. unfold step. rewrite Hp, Hc. discriminate. Qed.

Lemma en_wait c t rest :
  tph (gett c t) = PIdle -> tcalls (gett c t) = CWait :: rest -> wg c = 0 -> step c t <> None.
Proof. intros Hp Hc Hw. unfold step. rewrite Hp, Hc, Hw. discriminate. Qed.

Definition quiescent (c : config) : Prop := forall t, step c t = None.

Lemma final_of_threads c :
  (forall t, t < length (threads c) -> thread_done (gett c t) = true) -> final c = true.
Proof.
  intros H. unfold final. apply forallb_forall. intros th Hin.
  destruct (In_nth _ _ dummyt Hin) as (t & Ht & <-). now apply H.
Qed.

Lemma not_deadlocked c : (quiescent c -> final c = true) -> deadlocked c = false.
Proof.
  intros H. unfold deadlocked. destruct (final c) eqn:Hf; auto. simpl.
  destruct (forallb _ _) eqn:E; auto. exfalso.
  assert (Hq : quiescent c).
  { intros t. destruct (Nat.lt_ge_cases t (length (threads c))) as [Hlt|Hge].
    - rewrite forallb_forall in E. specialize (E t). rewrite in_seq in E.
      specialize (E ltac:(lia)). unfold enabled in E. destruct (step c t); [discriminate|auto].
    - unfold step. now rewrite gett_out. }
  specialize (H Hq). discriminate.
Qed.

Lemma chan_drained c q p r :
  chan c q p r -> qapp (getq c q) = qpop (getq c q) ->
  qvals (getq c q) = [] /\ qtok (getq c q) = 0.
Proof.
  intros [H1 H2 _ _] E. rewrite E in H1. rewrite <- (app_nil_r (qpop (getq c q))) in H1 at 1.
  apply app_inv_head in H1. rewrite <- H1 in H2. simpl in H2. split; auto. lia.
Qed.

Lemma thread_done_idle th : tph th = PIdle -> tcalls th = [] -> thread_done th = true.
Proof. intros Hp Hc. unfold thread_done. now rewrite Hp, Hc. Qed.

(* what the idle feeder / reader / waiter look like when they cannot move *)
Lemma feeder_quiescent vs c t :
  feeder_ok vs (gett c t) (qapp (getq c 0)) (qclosed (getq c 0)) ->
  step c t = None ->
  (tph (gett c t) = PIdle /\ tcalls (gett c t) = [] /\ qapp (getq c 0) = vs /\ qclosed (getq c 0) = true) \/
  (tph (gett c t) = PSend 0 /\ qclosed (getq c 0) = false /\ qcap (getq c 0) <= qtok (getq c 0)).
Proof.
  intros Hf Hs.
  destruct Hf as [rest Hp Hc Hl Happ Hcl|v rest Hp Hc Hl Happ Hcl|Hp Hc Hl Happ Hcl].
  - exfalso. destruct rest as [|v rest]; simpl in Hc.
    + now apply (en_close c t 0 [] Hp Hc).
    + now apply (en_add c t 0 v _ Hp Hc).
  - right. split; auto. split; auto.
    destruct (Nat.lt_ge_cases (qtok (getq c 0)) (qcap (getq c 0))); auto.
    exfalso. now apply (en_send c t 0 0 v _ Hp Hc Hcl).
  - left. auto.
Qed.

Lemma consumer_quiescent q c t :
  consumer_ok q (gett c t) (qpop (getq c q)) (qclosed (getq c q)) (qtok (getq c q)) ->
  step c t = None ->
  (tph (gett c t) = PIdle /\ tcalls (gett c t) = []) \/
  (tph (gett c t) = PIdle /\ qtok (getq c q) = 0 /\ qclosed (getq c q) = false).
Proof.
  intros Hc Hs.
  destruct Hc as [Hp Hcl Hl Hr Hsc|Hp Hcl Hl Hr Hsc|Hp Hcl Hl Hsaw Hr Hclosed Htok].
  - right. split; auto.
    destruct (Nat.eq_dec (qtok (getq c q)) 0) as [E|E];
      [|exfalso; apply (en_take c t q [] Hp Hcl); auto; lia].
    split; auto. destruct (qclosed (getq c q)) eqn:Ec; auto.
    exfalso. apply (en_take c t q [] Hp Hcl); auto.
  - exfalso. now apply (en_pop c t q q [] Hp Hcl).
  - left. auto.
Qed.

Lemma waiter_quiescent c t :
  waiter_ok (gett c t) -> step c t = None -> wg c = 0 ->
  tph (gett c t) = PIdle /\ tcalls (gett c t) = [].
Proof.
  intros (Hp & Hl & [Hc|Hc]) Hs Hw; auto. exfalso. now apply (en_wait c t [] Hp Hc Hw).
Qed.

(* ================= Fork ================= *)
Section ForkLive.
Variables (vs : list Z) (k cap : nat).
Hypothesis Hk : 1 <= k.
Hypothesis Hcap : 1 <= cap.

Lemma fork_quiescent_done c : fork_inv vs k cap c -> quiescent c ->
  tcalls (gett c 0) = [].
Proof.
  intros I Hq. unfold quiescent in Hq. pose proof (fi_h _ _ _ _ I) as Hh. unfold view_app, view_cl in Hh.
  destruct Hh as [m v Hph Hc Hl Hm Ha1 Ha2 Hop|m v Hph Hc Hl Hm Ha1 Ha2 Hop|Hph Hc Hl Ha Hop
                  |m Hph Hc Hl Hm Ha Hvs Hc0 Hc1 Hc2|Hph Hc Hl Hdn Ha Hvs Hc0 Hc1]; auto; exfalso.
  - destruct (Nat.eq_dec m k) as [->|Hne].
    + unfold fork_calls in Hc. rewrite Nat.sub_diag in Hc. simpl in Hc.
      destruct (feeder_quiescent vs c 1 (fi_f _ _ _ _ I) (Hq 1)) as [(_ & _ & _ & Hcl)|(Hp1 & Hcl & Hfull)].
      * apply (en_take c 0 0 [] Hph Hc); auto.
      * rewrite (fi_cap _ _ _ _ I 0) in Hfull by lia.
        apply (en_take c 0 0 [] Hph Hc); auto. left. lia.
    + unfold fork_calls in Hc. rewrite seq_S_cons in Hc by lia. simpl in Hc.
      apply (en_add c 0 _ _ _ Hph Hc); auto.
  - unfold fork_calls in Hc. rewrite seq_S_cons in Hc by lia. simpl in Hc.
    destruct (Nat.lt_ge_cases (qtok (getq c (S m))) (qcap (getq c (S m)))) as [Hlt|Hge].
    + apply (en_send c 0 _ _ _ _ Hph Hc); auto. apply Hop. lia.
    + rewrite (fi_cap _ _ _ _ I (S m)) in Hge by lia.
      destruct (consumer_quiescent (S m) c (S (S m)) (fi_c _ _ _ _ I (S m) ltac:(lia)) (Hq _))
        as [(Hp & Hcc)|(Hp & Htok & Hcl)]; [|lia].
      destruct (reader_complete c (S m) 0 (S (S m))) as (_ & _ & Hcl & _); auto.
      * apply (fi_ch _ _ _ _ I (S m)). lia.
      * apply (fi_c _ _ _ _ I (S m)). lia.
      * rewrite Hop in Hcl by lia. discriminate.
  - apply (en_pop c 0 0 0 [] Hph Hc); auto.
  - destruct (Nat.eq_dec m k) as [->|Hne]; unfold close_calls in Hc.
    + rewrite Nat.sub_diag in Hc. simpl in Hc. apply (en_done c 0 [] Hph Hc); auto.
    + rewrite seq_S_cons in Hc by lia. simpl in Hc. apply (en_close c 0 _ _ Hph Hc); auto.
Qed.

Theorem fork_quiescent_final c : fork_inv vs k cap c -> quiescent c ->
  final c = true /\ no_stuck c /\ wg c = 0 /\ all_closed_empty c /\
  forall j, 1 <= j <= k ->
    qapp (getq c j) = vs /\ received (tres (gett c (S j))) = vs /\ told_closed (tres (gett c (S j))).
Proof.
  intros I Hq. pose proof (fork_quiescent_done c I Hq) as Hd0.
  destruct (forkh_alive _ _ _ _ _ _ _ (fi_h _ _ _ _ I)) as [_ [[Hne _]|(_ & Hdn & Hp0 & _ & Hpop & Hcl0 & Hall)]];
    [contradiction|].
  assert (Hwg : wg c = 0) by (rewrite (fork_wg vs k cap); auto).
  assert (Hf : tph (gett c 1) = PIdle /\ tcalls (gett c 1) = [] /\ qapp (getq c 0) = vs).
  { destruct (feeder_quiescent vs c 1 (fi_f _ _ _ _ I) (Hq 1)) as [(? & ? & ? & ?)|(_ & Hcl & _)]; auto.
    congruence. }
  assert (Hc : forall j, 1 <= j <= k -> tph (gett c (S j)) = PIdle /\ tcalls (gett c (S j)) = []).
  { intros j Hj.
    destruct (consumer_quiescent j c (S j) (fi_c _ _ _ _ I j Hj) (Hq _)) as [?|(_ & _ & Hcl)]; auto.
    destruct (Hall j Hj) as [_ Hclj]. unfold view_cl in Hclj. congruence. }
  destruct (waiter_quiescent c (k + 2) (fi_w _ _ _ _ I) (Hq _) Hwg) as [Hpw Hcw].
  assert (Hrc : forall j, 1 <= j <= k ->
     received (tres (gett c (S j))) = qapp (getq c j) /\ qvals (getq c j) = [] /\
     qclosed (getq c j) = true /\ qtok (getq c j) = 0).
  { intros j Hj. apply (reader_complete c j 0 (S j)).
    - replace 0 with (fP j) by (destruct j; simpl; lia).
      replace (S j) with (fR j) by (destruct j; simpl; lia). apply (fi_ch _ _ _ _ I). lia.
    - now apply (fi_c _ _ _ _ I).
    - right. now apply Hc. }
  split; [|split; [|split; [|split]]]; auto.
  - apply final_of_threads. intros t Ht. rewrite (fi_nt _ _ _ _ I) in Ht.
    destruct (Nat.eq_dec t 0) as [->|H0]; [now apply thread_done_idle|].
    destruct (Nat.eq_dec t 1) as [->|H1]; [apply thread_done_idle; tauto|].
    destruct (Nat.le_gt_cases t (S k)) as [Hle|Hgt].
    { destruct (Hc (t - 1) ltac:(lia)) as [? ?]. replace (S (t - 1)) with t in * by lia.
      now apply thread_done_idle. }
    replace t with (k + 2) by lia. now apply thread_done_idle.
  - now apply (fork_no_stuck vs k cap).
  - intros q Hlt. rewrite (fi_nq _ _ _ _ I) in Hlt.
    destruct q as [|q].
    + split; auto. apply (chan_drained c 0 _ _ (fi_ch _ _ _ _ I 0 ltac:(lia))).
      destruct Hf as (_ & _ & ->). auto.
    + destruct (Hrc (S q) ltac:(lia)) as (_ & ? & ? & ?). auto.
  - intros j Hj. destruct (Hall j Hj) as [Ha _]. unfold view_app in Ha.
    destruct (Hrc j Hj) as (Hr & _). split; auto. split; [congruence|].
    pose proof (fi_c _ _ _ _ I j Hj) as Hcj. destruct (Hc j Hj) as [_ Hcalls].
    destruct Hcj as [? Hx ? ? ?|? Hx ? ? ?|? ? ? ? ? ? ?]; try congruence.
Qed.

End ForkLive.

(* ================= Split ================= *)
Section SplitLive.
Variables (vs : list Z) (k cap : nat).
Hypothesis Hk : 1 <= k.
Hypothesis Hcap : 1 <= cap.

Lemma split_quiescent_done c : split_inv vs k cap c -> quiescent c ->
  tcalls (gett c 0) = [].
Proof.
  intros I Hq. unfold quiescent in Hq. destruct (si_h _ _ _ _ I) as [D Hh].
  unfold view_app, view_cl in Hh.
  destruct Hh as [cur Hph Hc Hl Hcur HD Ha Hop|cur Hph Hc Hl Hcur HD Ha Hop
                  |v cu cur Hph Hc Hl Hcur HD Hcu Ha Hop|v cu cur Hph Hc Hl Hcur HD Hcu Ha Hop
                  |m Hph Hc Hl Hm HD Ha Hvs Hc0 Hc1 Hc2|Hph Hc Hl Hdn HD Ha Hvs Hc0 Hc1]; auto; exfalso.
  - destruct (feeder_quiescent vs c 1 (si_f _ _ _ _ I) (Hq 1)) as [(_ & _ & _ & Hcl)|(Hp1 & Hcl & Hfull)].
    + apply (en_take c 0 0 [] Hph Hc); auto.
    + rewrite (si_cap _ _ _ _ I 0) in Hfull by lia.
      apply (en_take c 0 0 [] Hph Hc); auto. left. lia.
  - apply (en_pop c 0 0 0 [] Hph Hc); auto.
  - apply (en_add c 0 _ _ _ Hph Hc); auto.
  - destruct (Nat.lt_ge_cases (qtok (getq c (S cu))) (qcap (getq c (S cu)))) as [Hlt|Hge].
    + apply (en_send c 0 _ _ _ _ Hph Hc); auto. apply Hop. lia.
    + rewrite (si_cap _ _ _ _ I (S cu)) in Hge by lia.
      destruct (consumer_quiescent (S cu) c (S (S cu)) (si_c _ _ _ _ I (S cu) ltac:(lia)) (Hq _))
        as [(Hp & Hcc)|(Hp & Htok & Hcl)]; [|lia].
      destruct (reader_complete c (S cu) 0 (S (S cu))) as (_ & _ & Hcl & _); auto.
      * apply (si_ch _ _ _ _ I (S cu)). lia.
      * apply (si_c _ _ _ _ I (S cu)). lia.
      * rewrite Hop in Hcl by lia. discriminate.
  - destruct (Nat.eq_dec m k) as [->|Hne]; unfold close_calls in Hc.
    + rewrite Nat.sub_diag in Hc. simpl in Hc. apply (en_done c 0 [] Hph Hc); auto.
    + rewrite seq_S_cons in Hc by lia. simpl in Hc. apply (en_close c 0 _ _ Hph Hc); auto.
Qed.

Theorem split_quiescent_final c : split_inv vs k cap c -> quiescent c ->
  final c = true /\ no_stuck c /\ wg c = 0 /\ all_closed_empty c /\
  forall j, 1 <= j <= k ->
    qapp (getq c j) = rr k (j - 1) vs /\ received (tres (gett c (S j))) = rr k (j - 1) vs /\
    told_closed (tres (gett c (S j))).
Proof.
  intros I Hq. pose proof (split_quiescent_done c I Hq) as Hd0.
  destruct (si_h _ _ _ _ I) as [D HD].
  destruct (splith_alive _ _ _ _ _ _ _ _ HD) as [_ [[Hne _]|(_ & Hdn & Hp0 & _ & Hpop & Hcl0 & Hall)]];
    [contradiction|].
  assert (Hwg : wg c = 0) by (rewrite (split_wg vs k cap); auto).
  assert (Hf : tph (gett c 1) = PIdle /\ tcalls (gett c 1) = [] /\ qapp (getq c 0) = vs).
  { destruct (feeder_quiescent vs c 1 (si_f _ _ _ _ I) (Hq 1)) as [(? & ? & ? & ?)|(_ & Hcl & _)]; auto.
    congruence. }
  assert (Hc : forall j, 1 <= j <= k -> tph (gett c (S j)) = PIdle /\ tcalls (gett c (S j)) = []).
  { intros j Hj.
    destruct (consumer_quiescent j c (S j) (si_c _ _ _ _ I j Hj) (Hq _)) as [?|(_ & _ & Hcl)]; auto.
    destruct (Hall j Hj) as [_ Hclj]. unfold view_cl in Hclj. congruence. }
  destruct (waiter_quiescent c (k + 2) (si_w _ _ _ _ I) (Hq _) Hwg) as [Hpw Hcw].
  assert (Hrc : forall j, 1 <= j <= k ->
     received (tres (gett c (S j))) = qapp (getq c j) /\ qvals (getq c j) = [] /\
     qclosed (getq c j) = true /\ qtok (getq c j) = 0).
  { intros j Hj. apply (reader_complete c j 0 (S j)).
    - replace 0 with (fP j) by (destruct j; simpl; lia).
      replace (S j) with (fR j) by (destruct j; simpl; lia). apply (si_ch _ _ _ _ I). lia.
    - now apply (si_c _ _ _ _ I).
    - right. now apply Hc. }
  split; [|split; [|split; [|split]]]; auto.
  - apply final_of_threads. intros t Ht. rewrite (si_nt _ _ _ _ I) in Ht.
    destruct (Nat.eq_dec t 0) as [->|H0]; [now apply thread_done_idle|].
    destruct (Nat.eq_dec t 1) as [->|H1]; [apply thread_done_idle; tauto|].
    destruct (Nat.le_gt_cases t (S k)) as [Hle|Hgt].
    { destruct (Hc (t - 1) ltac:(lia)) as [? ?]. replace (S (t - 1)) with t in * by lia.
      now apply thread_done_idle. }
    replace t with (k + 2) by lia. now apply thread_done_idle.
  - now apply (split_no_stuck vs k cap).
  - intros q Hlt. rewrite (si_nq _ _ _ _ I) in Hlt.
    destruct q as [|q].
    + split; auto. apply (chan_drained c 0 _ _ (si_ch _ _ _ _ I 0 ltac:(lia))).
      destruct Hf as (_ & _ & ->). auto.
    + destruct (Hrc (S q) ltac:(lia)) as (_ & ? & ? & ?). auto.
  - intros j Hj. destruct (Hall j Hj) as [Ha _]. unfold view_app in Ha.
    replace (j - 1) with (pred j) by lia.
    destruct (Hrc j Hj) as (Hr & _). split; auto. split; [congruence|].
    pose proof (si_c _ _ _ _ I j Hj) as Hcj. destruct (Hc j Hj) as [_ Hcalls].
    destruct Hcj as [? Hx ? ? ?|? Hx ? ? ?|? ? ? ? ? ? ?]; try congruence.
Qed.

End SplitLive.

(* ================= Split followed by Join ================= *)
Section SJLive.
Variables (vs : list Z) (k cap : nat).
Hypothesis Hk : 1 <= k.
Hypothesis Hcap : 1 <= cap.

Lemma sj_jPR j : 1 <= j <= k -> jP k j = 0 /\ jR k j = 1.
Proof. intros Hj. unfold jP, jR. destruct j; [lia|]. destruct (Nat.leb_spec (S j) k); [auto|lia]. Qed.
Lemma sj_jPRo : jP k (S k) = 1 /\ jR k (S k) = 3.
Proof. unfold jP, jR. destruct (Nat.leb_spec (S k) k); [lia|auto]. Qed.

Lemma sj_D_prefix c D : sj_inv vs k cap c ->
  splith_ok vs k (gett c 0) (qpop (getq c 0)) (qclosed (getq c 0)) (view_app c) (view_cl c) D ->
  prefix D vs.
Proof.
  intros I HD. destruct (splith_facts _ _ _ _ _ _ _ _ HD) as [HDp _].
  apply prefix_trans with (qpop (getq c 0)); auto.
  apply prefix_trans with (qapp (getq c 0)).
  - apply (chan_pop_prefix c 0 _ _ (ji_ch _ _ _ _ I 0 ltac:(lia))).
  - apply (feeder_prefix _ _ _ _ (ji_f _ _ _ _ I)).
Qed.

(* the reader of the join output cannot leave Join blocked in its send *)
Lemma sj_out_not_full c : sj_inv vs k cap c -> quiescent c ->
  qclosed (getq c (S k)) = false -> qtok (getq c (S k)) < cap.
Proof.
  intros I Hq Hcl. destruct (Nat.lt_ge_cases (qtok (getq c (S k))) cap) as [|Hge]; auto. exfalso.
  destruct (consumer_quiescent (S k) c 3 (ji_c _ _ _ _ I) (Hq 3)) as [(Hp & Hc)|(Hp & Htok & _)]; [|lia].
  destruct (reader_complete c (S k) (jP k (S k)) 3) as (_ & _ & Hcl' & _); auto.
  - pose proof (ji_ch _ _ _ _ I (S k) ltac:(lia)) as Hch. rewrite (proj2 sj_jPRo) in Hch. exact Hch.
  - apply (ji_c _ _ _ _ I).
  - congruence.
Qed.

Lemma sj_quiescent_done c : sj_inv vs k cap c -> quiescent c ->
  tcalls (gett c 0) = [] /\ tcalls (gett c 1) = [].
Proof.
  intros I Hq. pose proof Hq as Hq'. unfold quiescent in Hq.
  destruct (ji_h _ _ _ _ I) as (D & F & HD & HF & HFD).
  pose proof (sj_D_prefix c D I HD) as HDv.
  pose proof (sj_out_not_full c I Hq') as Hout. pose proof HF as HF0.
  assert (Hcapo : qcap (getq c (S k)) = cap) by (apply (ji_cap _ _ _ _ I); lia).
  (* Join is never stuck in a state other than waiting on an input *)
  assert (HJ : tcalls (gett c 1) = [] \/
     exists cur, tph (gett c 1) = PIdle /\ tcalls (gett c 1) = [CRemoveHead (S cur)] /\
       cur = length F mod k /\ cur < k /\
       qtok (getq c (S cur)) = 0 /\ qclosed (getq c (S cur)) = false).
  { destruct HF as [cur Hph Hc Hl Hcur HF Hcl Hp|cur Hph Hc Hl Hcur HF Hcl Hp
                  |v cur Hph Hc Hl Hcur HF Hcl Hp|v cur Hph Hc Hl Hcur HF Hcl Hp
                  |Hph Hc Hl HF Hvs Hcl Hp|Hph Hc Hl HF Hvs Hcl Hp|Hph Hc Hl Hdn HF Hvs Hcl Hp]; auto.
    - right. exists cur. assert (Hlt : cur < k) by (subst cur; apply Nat.mod_upper_bound; lia).
      repeat split; auto.
      + destruct (Nat.eq_dec (qtok (getq c (S cur))) 0); auto.
        exfalso. apply (en_take c 1 (S cur) [] Hph Hc); auto. left. lia.
      + destruct (qclosed (getq c (S cur))) eqn:E; auto.
        exfalso. apply (en_take c 1 (S cur) [] Hph Hc); auto.
    - exfalso. apply (en_pop c 1 _ _ _ Hph Hc); auto.
    - exfalso. apply (en_add c 1 _ _ _ Hph Hc); auto.
    - exfalso. apply (en_send c 1 _ _ _ _ Hph Hc); auto. rewrite Hcapo. auto.
    - exfalso. apply (en_close c 1 _ _ Hph Hc); auto.
    - exfalso. apply (en_done c 1 _ Hph Hc); auto. }
  assert (H0 : tcalls (gett c 0) = []).
  { pose proof HD as HD0. unfold view_app, view_cl in HD.
    destruct HD as [cur Hph Hc Hl Hcur HDe Ha Hop|cur Hph Hc Hl Hcur HDe Ha Hop
                  |v cu cur Hph Hc Hl Hcur HDe Hcu Ha Hop|v cu cur Hph Hc Hl Hcur HDe Hcu Ha Hop
                  |m Hph Hc Hl Hm HDe Ha Hvs Hc0 Hc1 Hc2|Hph Hc Hl Hdn HDe Ha Hvs Hc0 Hc1]; auto; exfalso.
    - destruct (feeder_quiescent vs c 2 (ji_f _ _ _ _ I) (Hq 2)) as [(_ & _ & _ & Hcl)|(Hp1 & Hcl & Hfull)].
      + apply (en_take c 0 0 [] Hph Hc); auto.
      + rewrite (ji_cap _ _ _ _ I 0) in Hfull by lia.
        apply (en_take c 0 0 [] Hph Hc); auto. left. lia.
    - apply (en_pop c 0 0 0 [] Hph Hc); auto.
    - apply (en_add c 0 _ _ _ Hph Hc); auto.
    - (* Split blocked in its send to queue S cu: that queue is full *)
      destruct (Nat.lt_ge_cases (qtok (getq c (S cu))) (qcap (getq c (S cu)))) as [Hlt|Hge].
      { apply (en_send c 0 _ _ _ _ Hph Hc); auto. apply Hop. lia. }
      rewrite (ji_cap _ _ _ _ I (S cu)) in Hge by lia.
      destruct (ji_ch _ _ _ _ I (S cu) ltac:(lia)) as [_ Hlen _ _].
      destruct (sj_jPR (S cu) ltac:(lia)) as [E1 E2]. rewrite E1, E2, Hph, isSend_same in Hlen.
      pose proof (sj_mid vs k cap Hk c D F (S cu) I HD0 HF0 ltac:(lia)) as Hmid. simpl in Hmid.
      assert (HFD' : F = D).
      { destruct HJ as [Hj|(cur1 & Hp1 & Hc1 & Hcur1 & Hlt & Htok & Hcl)].
        - destruct (joinh_alive _ _ _ _ _ _ _ HF0) as [_ [[Hne _]|(_ & _ & _ & _ & HFv & _)]];
            [contradiction|].
          apply prefix_same_length; auto. subst F. now apply prefix_length.
        - destruct (Nat.eq_dec cur1 cu) as [->|Hne]; [lia|].
          destruct (ji_ch _ _ _ _ I (S cur1) ltac:(lia)) as [_ Hlen' _ _].
          destruct (sj_jPR (S cur1) ltac:(lia)) as [E1' E2']. rewrite E1', E2', Hph, Hp1, Htok in Hlen'.
          rewrite isSend_other in Hlen' by lia. simpl in Hlen'.
          pose proof (sj_mid vs k cap Hk c D F (S cur1) I HD0 HF0 ltac:(lia)) as Hmid'. simpl in Hmid'.
          destruct (qvals (getq c (S cur1))); [|discriminate]. rewrite app_nil_r in Hmid'.
          now apply join_empty_eq with k cur1. }
      rewrite HFD' in Hmid. rewrite <- (app_nil_r (rr k cu D)) in Hmid at 1.
      apply app_inv_head in Hmid. rewrite <- Hmid in Hlen. simpl in Hlen. lia.
    - destruct (Nat.eq_dec m k) as [->|Hne]; unfold close_calls in Hc.
      + rewrite Nat.sub_diag in Hc. simpl in Hc. apply (en_done c 0 [] Hph Hc); auto.
      + rewrite seq_S_cons in Hc by lia. simpl in Hc. apply (en_close c 0 _ _ Hph Hc); auto. }
  split; auto.
  destruct HJ as [Hj|(cur & Hp1 & Hc1 & Hcur1 & Hlt & Htok & Hcl)]; auto. exfalso.
  destruct (splith_alive _ _ _ _ _ _ _ _ HD) as [_ [[Hne _]|(_ & _ & _ & _ & _ & _ & Hall)]];
    [contradiction|].
  destruct (Hall (S cur) ltac:(lia)) as [_ Hc]. unfold view_cl in Hc. congruence.
Qed.

Theorem sj_quiescent_final c : sj_inv vs k cap c -> quiescent c ->
  final c = true /\ no_stuck c /\ wg c = 0 /\ all_closed_empty c /\
  qapp (getq c (S k)) = vs /\ received (tres (gett c 3)) = vs /\ told_closed (tres (gett c 3)).
Proof.
  intros I Hq. destruct (sj_quiescent_done c I Hq) as [Hd0 Hd1].
  destruct (ji_h _ _ _ _ I) as (D & F & HD & HF & HFD).
  destruct (splith_alive _ _ _ _ _ _ _ _ HD) as [_ [[Hne _]|(_ & Hdn0 & Hp0 & _ & Hpop & Hcl0 & Hall)]];
    [contradiction|].
  destruct (joinh_alive _ _ _ _ _ _ _ HF) as [_ [[Hne _]|(_ & Hdn1 & Hp1 & _ & HFv & Happo & Hclo)]];
    [contradiction|].
  assert (Hwg : wg c = 0) by (rewrite (sj_wg vs k cap); auto; lia).
  assert (Hf : tph (gett c 2) = PIdle /\ tcalls (gett c 2) = [] /\ qapp (getq c 0) = vs).
  { destruct (feeder_quiescent vs c 2 (ji_f _ _ _ _ I) (Hq 2)) as [(? & ? & ? & ?)|(_ & Hcl & _)]; auto.
    congruence. }
  assert (Hc : tph (gett c 3) = PIdle /\ tcalls (gett c 3) = []).
  { destruct (consumer_quiescent (S k) c 3 (ji_c _ _ _ _ I) (Hq _)) as [?|(_ & _ & Hcl)]; auto.
    congruence. }
  destruct (waiter_quiescent c 4 (ji_w _ _ _ _ I) (Hq _) Hwg) as [Hpw Hcw].
  assert (Hrc : received (tres (gett c 3)) = qapp (getq c (S k)) /\ qvals (getq c (S k)) = [] /\
     qclosed (getq c (S k)) = true /\ qtok (getq c (S k)) = 0).
  { apply (reader_complete c (S k) (jP k (S k)) 3).
    - pose proof (ji_ch _ _ _ _ I (S k) ltac:(lia)) as Hch. rewrite (proj2 sj_jPRo) in Hch. exact Hch.
    - apply (ji_c _ _ _ _ I).
    - right. apply Hc. }
  assert (HDv : D = vs).
  { destruct (splith_closed_D _ _ _ _ _ _ _ _ 1 HD ltac:(lia)) as [? _]; auto. apply (Hall 1). lia. }
  split; [|split; [|split; [|split; [|split; [|split]]]]]; auto.
  - apply final_of_threads. intros t Ht. rewrite (ji_nt _ _ _ _ I) in Ht.
    destruct (Nat.eq_dec t 0) as [->|H0]; [now apply thread_done_idle|].
    destruct (Nat.eq_dec t 1) as [->|H1]; [now apply thread_done_idle|].
    destruct (Nat.eq_dec t 2) as [->|H2]; [apply thread_done_idle; tauto|].
    destruct (Nat.eq_dec t 3) as [->|H3]; [apply thread_done_idle; tauto|].
    replace t with 4 by lia. now apply thread_done_idle.
  - now apply (sj_no_stuck vs k cap).
  - intros q Hlt. rewrite (ji_nq _ _ _ _ I) in Hlt.
    destruct (Nat.eq_dec q 0) as [->|Hq0].
    { split; auto. apply (chan_drained c 0 _ _ (ji_ch _ _ _ _ I 0 ltac:(lia))).
      destruct Hf as (_ & _ & ->). auto. }
    destruct (Nat.eq_dec q (S k)) as [->|Hqo].
    { destruct Hrc as (_ & ? & ? & ?). auto. }
    destruct (Hall q ltac:(lia)) as [_ Hclq]. unfold view_cl in Hclq. split; auto.
    pose proof (sj_mid vs k cap Hk c D F q I HD HF ltac:(lia)) as Hmid.
    rewrite HDv, HFv in Hmid. rewrite <- (app_nil_r (rr k (pred q) vs)) in Hmid at 1.
    apply app_inv_head in Hmid. split; auto.
    destruct (ji_ch _ _ _ _ I q ltac:(lia)) as [_ Hlen _ _]. rewrite <- Hmid in Hlen. simpl in Hlen. lia.
  - destruct Hrc as [-> _]. congruence.
  - pose proof (ji_c _ _ _ _ I) as Hcj. destruct Hc as [_ Hcalls].
    destruct Hcj as [? Hx ? ? ?|? Hx ? ? ?|? ? ? ? ? ? ?]; try congruence.
Qed.

End SJLive.

(* ================= deadlock freedom ================= *)
Theorem fork_deadlock_free vs k cap sched :
  1 <= k -> 1 <= cap -> deadlocked (run (fork_prog vs k cap) sched) = false.
Proof.
  intros Hk Hcap. apply not_deadlocked. intros Hq.
  apply (fork_quiescent_final vs k cap Hk Hcap); auto. now apply fork_reachable.
Qed.

Theorem split_deadlock_free vs k cap sched :
  1 <= k -> 1 <= cap -> deadlocked (run (split_prog vs k cap) sched) = false.
Proof.
  intros Hk Hcap. apply not_deadlocked. intros Hq.
  apply (split_quiescent_final vs k cap Hk Hcap); auto. now apply split_reachable.
Qed.

Theorem splitjoin_deadlock_free vs k cap sched :
  1 <= k -> 1 <= cap -> deadlocked (run (splitjoin_prog vs k cap) sched) = false.
Proof.
  intros Hk Hcap. apply not_deadlocked. intros Hq.
  apply (sj_quiescent_final vs k cap Hk Hcap); auto. now apply sj_reachable.
Qed.
