(* PipesLive.v — property C06, liveness: a configuration of the Fork / Split / Split-then-Join
   programs in which no thread can move is final (so no reachable configuration is
   deadlocked) and has delivered exactly the expected streams; every micro-step decreases a
   measure, so every strict run is bounded. *)
From Verif Require Import Base Conc Pipes PipesGen PipesRoles PipesFork PipesSplit PipesSJ PipesProofs.
Close Scope Z_scope.
Open Scope nat_scope.

(* ---------- when a micro-step is enabled ---------- *)
Lemma en_add c t q v rest :
  tph (gett c t) = PIdle -> tcalls (gett c t) = CAdd q v :: rest -> step c t <> None.
Proof. intros Hp Hc. unfold step. rewrite Hp, Hc. discriminate. Qed.

Lemma en_send c t q q' v rest :
  tph (gett c t) = PSend q -> tcalls (gett c t) = CAdd q' v :: rest ->
  qclosed (getq c q) = false -> qtok (getq c q) < qcap (getq c q) -> step c t <> None.
Proof.
  intros Hp Hc Hcl Hlt. unfold step. rewrite Hp, Hc, Hcl.
  apply Nat.ltb_lt in Hlt. rewrite Hlt. discriminate.
Qed.

Lemma en_take c t q rest :
  tph (gett c t) = PIdle -> tcalls (gett c t) = CRemoveHead q :: rest ->
  0 < qtok (getq c q) \/ qclosed (getq c q) = true -> step c t <> None.
Proof.
  intros Hp Hc H. unfold step. rewrite Hp, Hc.
  destruct (Nat.ltb_spec 0 (qtok (getq c q))); [discriminate|].
  destruct H as [H|H]; [lia|]. rewrite H. discriminate.
Qed.

Lemma en_pop c t q q' rest :
  tph (gett c t) = PPop q -> tcalls (gett c t) = CRemoveHead q' :: rest -> step c t <> None.
Proof.
  intros Hp Hc. unfold step. rewrite Hp, Hc. destruct (pop_head (getq c q)) as [[v s']|]; discriminate.
Qed.

Lemma en_close c t q rest :
  tph (gett c t) = PIdle -> tcalls (gett c t) = CClose q :: rest -> step c t <> None.
Proof. intros Hp Hc. unfold step. rewrite Hp, Hc. destruct (qclosed (getq c q)); discriminate. Qed.

Lemma en_done c t rest :
  tph (gett c t) = PIdle -> tcalls (gett c t) = CDone :: rest -> step c t <> None.
Proof. intros Hp Hc. unfold step. rewrite Hp, Hc. discriminate. Qed.

Lemma en_wait c t rest :
  tph (gett c t) = PIdle -> tcalls (gett c t) = CWait :: rest -> wg c = 0 -> step c t <> None.
Proof. intros Hp Hc Hw. unfold step. rewrite Hp, Hc, Hw. discriminate. Qed.

Definition quiescent (c : config) : Prop := forall t, step c t = None.

Lemma final_of_threads c :
  (forall t, t < length (threads c) -> thread_done (gett c t) = true) -> final c = true.
Proof.
  intros H. unfold final. apply forallb_forall. intros th Hin.
  destruct (In_nth _ _ dummyt Hin) as (t & Ht & <-). now apply H.
Qed.

Lemma not_deadlocked c : (quiescent c -> final c = true) -> deadlocked c = false.
Proof.
  intros H. unfold deadlocked. destruct (final c) eqn:Hf; auto. simpl.
  destruct (forallb _ _) eqn:E; auto. exfalso.
  assert (Hq : quiescent c).
  { intros t. destruct (Nat.lt_ge_cases t (length (threads c))) as [Hlt|Hge].
    - rewrite forallb_forall in E. specialize (E t). rewrite in_seq in E.
      specialize (E ltac:(lia)). unfold enabled in E. destruct (step c t); [discriminate|auto].
    - unfold step. now rewrite gett_out. }
  specialize (H Hq). discriminate.
Qed.

Lemma chan_drained c q p r :
  chan c q p r -> qapp (getq c q) = qpop (getq c q) ->
  qvals (getq c q) = [] /\ qtok (getq c q) = 0.
Proof.
  intros [H1 H2 _ _] E. rewrite E in H1. rewrite <- (app_nil_r (qpop (getq c q))) in H1 at 1.
  apply app_inv_head in H1. rewrite <- H1 in H2. simpl in H2. split; auto. lia.
Qed.

Lemma thread_done_idle th : tph th = PIdle -> tcalls th = [] -> thread_done th = true.
Proof. intros Hp Hc. unfold thread_done. now rewrite Hp, Hc. Qed.

(* what the idle feeder / reader / waiter look like when they cannot move *)
Lemma feeder_quiescent vs c t :
  feeder_ok vs (gett c t) (qapp (getq c 0)) (qclosed (getq c 0)) ->
  step c t = None ->
  (tph (gett c t) = PIdle /\ tcalls (gett c t) = [] /\ qapp (getq c 0) = vs /\ qclosed (getq c 0) = true) \/
  (tph (gett c t) = PSend 0 /\ qclosed (getq c 0) = false /\ qcap (getq c 0) <= qtok (getq c 0)).
Proof.
  intros Hf Hs.
  destruct Hf as [rest Hp Hc Hl Happ Hcl|v rest Hp Hc Hl Happ Hcl|Hp Hc Hl Happ Hcl].
  - exfalso. destruct rest as [|v rest]; simpl in Hc.
    + now apply (en_close c t 0 [] Hp Hc).
    + now apply (en_add c t 0 v _ Hp Hc).
  - right. split; auto. split; auto.
    destruct (Nat.lt_ge_cases (qtok (getq c 0)) (qcap (getq c 0))); auto.
    exfalso. now apply (en_send c t 0 0 v _ Hp Hc Hcl).
  - left. auto.
Qed.

Lemma consumer_quiescent q c t :
  consumer_ok q (gett c t) (qpop (getq c q)) (qclosed (getq c q)) (qtok (getq c q)) ->
  step c t = None ->
  (tph (gett c t) = PIdle /\ tcalls (gett c t) = []) \/
  (tph (gett c t) = PIdle /\ qtok (getq c q) = 0 /\ qclosed (getq c q) = false).
Proof.
  intros Hc Hs.
  destruct Hc as [Hp Hcl Hl Hr Hsc|Hp Hcl Hl Hr Hsc|Hp Hcl Hl Hsaw Hr Hclosed Htok].
  - right. split; auto.
    destruct (Nat.eq_dec (qtok (getq c q)) 0) as [E|E];
      [|exfalso; apply (en_take c t q [] Hp Hcl); auto; lia].
    split; auto. destruct (qclosed (getq c q)) eqn:Ec; auto.
    exfalso. apply (en_take c t q [] Hp Hcl); auto.
  - exfalso. now apply (en_pop c t q q [] Hp Hcl).
  - left. auto.
Qed.

Lemma waiter_quiescent c t :
  waiter_ok (gett c t) -> step c t = None -> wg c = 0 ->
  tph (gett c t) = PIdle /\ tcalls (gett c t) = [].
Proof.
  intros (Hp & Hl & [Hc|Hc]) Hs Hw; auto. exfalso. now apply (en_wait c t [] Hp Hc Hw).
Qed.

(* ================= Fork ================= *)
Section ForkLive.
Variables (vs : list Z) (k cap : nat).
Hypothesis Hk : 1 <= k.
Hypothesis Hcap : 1 <= cap.

Lemma fork_quiescent_done c : fork_inv vs k cap c -> quiescent c ->
  tcalls (gett c 0) = [].
Proof.
  intros I Hq. unfold quiescent in Hq. pose proof (fi_h _ _ _ _ I) as Hh. unfold view_app, view_cl in Hh.
  destruct Hh as [m v Hph Hc Hl Hm Ha1 Ha2 Hop|m v Hph Hc Hl Hm Ha1 Ha2 Hop|Hph Hc Hl Ha Hop
                  |m Hph Hc Hl Hm Ha Hvs Hc0 Hc1 Hc2|Hph Hc Hl Hdn Ha Hvs Hc0 Hc1]; auto; exfalso.
  - destruct (Nat.eq_dec m k) as [->|Hne].
    + unfold fork_calls in Hc. rewrite Nat.sub_diag in Hc. simpl in Hc.
      destruct (feeder_quiescent vs c 1 (fi_f _ _ _ _ I) (Hq 1)) as [(_ & _ & _ & Hcl)|(Hp1 & Hcl & Hfull)].
      * apply (en_take c 0 0 [] Hph Hc); auto.
      * rewrite (fi_cap _ _ _ _ I 0) in Hfull by lia.
        apply (en_take c 0 0 [] Hph Hc); auto. left. lia.
    + unfold fork_calls in Hc. rewrite seq_S_cons in Hc by lia. simpl in Hc.
      apply (en_add c 0 _ _ _ Hph Hc); auto.
  - unfold fork_calls in Hc. rewrite seq_S_cons in Hc by lia. simpl in Hc.
    destruct (Nat.lt_ge_cases (qtok (getq c (S m))) (qcap (getq c (S m)))) as [Hlt|Hge].
    + apply (en_send c 0 _ _ _ _ Hph Hc); auto. apply Hop. lia.
    + rewrite (fi_cap _ _ _ _ I (S m)) in Hge by lia.
      destruct (consumer_quiescent (S m) c (S (S m)) (fi_c _ _ _ _ I (S m) ltac:(lia)) (Hq _))
        as [(Hp & Hcc)|(Hp & Htok & Hcl)]; [|lia].
      destruct (reader_complete c (S m) 0 (S (S m))) as (_ & _ & Hcl & _); auto.
      * apply (fi_ch _ _ _ _ I (S m)). lia.
      * apply (fi_c _ _ _ _ I (S m)). lia.
      * rewrite Hop in Hcl by lia. discriminate.
  - apply (en_pop c 0 0 0 [] Hph Hc); auto.
  - destruct (Nat.eq_dec m k) as [->|Hne]; unfold close_calls in Hc.
    + rewrite Nat.sub_diag in Hc. simpl in Hc. apply (en_done c 0 [] Hph Hc); auto.
    + rewrite seq_S_cons in Hc by lia. simpl in Hc. apply (en_close c 0 _ _ Hph Hc); auto.
Qed.

Theorem fork_quiescent_final c : fork_inv vs k cap c -> quiescent c ->
  final c = true /\ no_stuck c /\ wg c = 0 /\ all_closed_empty c /\
  forall j, 1 <= j <= k ->
    qapp (getq c j) = vs /\ received (tres (gett c (S j))) = vs /\ told_closed (tres (gett c (S j))).
Proof.
  intros I Hq. pose proof (fork_quiescent_done c I Hq) as Hd0.
  destruct (forkh_alive _ _ _ _ _ _ _ (fi_h _ _ _ _ I)) as [_ [[Hne _]|(_ & Hdn & Hp0 & _ & Hpop & Hcl0 & Hall)]];
    [contradiction|].
  assert (Hwg : wg c = 0) by (rewrite (fork_wg vs k cap); auto).
  assert (Hf : tph (gett c 1) = PIdle /\ tcalls (gett c 1) = [] /\ qapp (getq c 0) = vs).
  { destruct (feeder_quiescent vs c 1 (fi_f _ _ _ _ I) (Hq 1)) as [(? & ? & ? & ?)|(_ & Hcl & _)]; auto.
    congruence. }
  assert (Hc : forall j, 1 <= j <= k -> tph (gett c (S j)) = PIdle /\ tcalls (gett c (S j)) = []).
  { intros j Hj.
    destruct (consumer_quiescent j c (S j) (fi_c _ _ _ _ I j Hj) (Hq _)) as [?|(_ & _ & Hcl)]; auto.
    destruct (Hall j Hj) as [_ Hclj]. unfold view_cl in Hclj. congruence. }
  destruct (waiter_quiescent c (k + 2) (fi_w _ _ _ _ I) (Hq _) Hwg) as [Hpw Hcw].
  assert (Hrc : forall j, 1 <= j <= k ->
     received (tres (gett c (S j))) = qapp (getq c j) /\ qvals (getq c j) = [] /\
     qclosed (getq c j) = true /\ qtok (getq c j) = 0).
  { intros j Hj. apply (reader_complete c j 0 (S j)).
    - replace 0 with (fP j) by (destruct j; simpl; lia).
      replace (S j) with (fR j) by (destruct j; simpl; lia). apply (fi_ch _ _ _ _ I). lia.
    - now apply (fi_c _ _ _ _ I).
    - right. now apply Hc. }
  split; [|split; [|split; [|split]]]; auto.
  - apply final_of_threads. intros t Ht. rewrite (fi_nt _ _ _ _ I) in Ht.
    destruct (Nat.eq_dec t 0) as [->|H0]; [now apply thread_done_idle|].
    destruct (Nat.eq_dec t 1) as [->|H1]; [apply thread_done_idle; tauto|].
    destruct (Nat.le_gt_cases t (S k)) as [Hle|Hgt].
    { destruct (Hc (t - 1) ltac:(lia)) as [? ?]. replace (S (t - 1)) with t in * by lia.
      now apply thread_done_idle. }
    replace t with (k + 2) by lia. now apply thread_done_idle.
  - now apply (fork_no_stuck vs k cap).
  - intros q Hlt. rewrite (fi_nq _ _ _ _ I) in Hlt.
    destruct q as [|q].
    + split; auto. apply (chan_drained c 0 _ _ (fi_ch _ _ _ _ I 0 ltac:(lia))).
      destruct Hf as (_ & _ & ->). auto.
    + destruct (Hrc (S q) ltac:(lia)) as (_ & ? & ? & ?). auto.
  - intros j Hj. destruct (Hall j Hj) as [Ha _]. unfold view_app in Ha.
    destruct (Hrc j Hj) as (Hr & _). split; auto. split; [congruence|].
    pose proof (fi_c _ _ _ _ I j Hj) as Hcj. destruct (Hc j Hj) as [_ Hcalls].
    destruct Hcj as [? Hx ? ? ?|? Hx ? ? ?|? ? ? ? ? ? ?]; try congruence.
Qed.

End ForkLive.

(* ================= Split ================= *)
Section SplitLive.
Variables (vs : list Z) (k cap : nat).
Hypothesis Hk : 1 <= k.
Hypothesis Hcap : 1 <= cap.

Lemma split_quiescent_done c : split_inv vs k cap c -> quiescent c ->
  tcalls (gett c 0) = [].
Proof.
  intros I Hq. unfold quiescent in Hq. destruct (si_h _ _ _ _ I) as [D Hh].
  unfold view_app, view_cl in Hh.
  destruct Hh as [cur Hph Hc Hl Hcur HD Ha Hop|cur Hph Hc Hl Hcur HD Ha Hop
                  |v cu cur Hph Hc Hl Hcur HD Hcu Ha Hop|v cu cur Hph Hc Hl Hcur HD Hcu Ha Hop
                  |m Hph Hc Hl Hm HD Ha Hvs Hc0 Hc1 Hc2|Hph Hc Hl Hdn HD Ha Hvs Hc0 Hc1]; auto; exfalso.
  - destruct (feeder_quiescent vs c 1 (si_f _ _ _ _ I) (Hq 1)) as [(_ & _ & _ & Hcl)|(Hp1 & Hcl & Hfull)].
    + apply (en_take c 0 0 [] Hph Hc); auto.
    + rewrite (si_cap _ _ _ _ I 0) in Hfull by lia.
      apply (en_take c 0 0 [] Hph Hc); auto. left. lia.
  - apply (en_pop c 0 0 0 [] Hph Hc); auto.
  - apply (en_add c 0 _ _ _ Hph Hc); auto.
  - destruct (Nat.lt_ge_cases (qtok (getq c (S cu))) (qcap (getq c (S cu)))) as [Hlt|Hge].
    + apply (en_send c 0 _ _ _ _ Hph Hc); auto. apply Hop. lia.
    + rewrite (si_cap _ _ _ _ I (S cu)) in Hge by lia.
      destruct (consumer_quiescent (S cu) c (S (S cu)) (si_c _ _ _ _ I (S cu) ltac:(lia)) (Hq _))
        as [(Hp & Hcc)|(Hp & Htok & Hcl)]; [|lia].
      destruct (reader_complete c (S cu) 0 (S (S cu))) as (_ & _ & Hcl & _); auto.
      * apply (si_ch _ _ _ _ I (S cu)). lia.
      * apply (si_c _ _ _ _ I (S cu)). lia.
      * rewrite Hop in Hcl by lia. discriminate.
  - destruct (Nat.eq_dec m k) as [->|Hne]; unfold close_calls in Hc.
    + rewrite Nat.sub_diag in Hc. simpl in Hc. apply (en_done c 0 [] Hph Hc); auto.
    + rewrite seq_S_cons in Hc by lia. simpl in Hc. apply (en_close c 0 _ _ Hph Hc); auto.
Qed.

Theorem split_quiescent_final c : split_inv vs k cap c -> quiescent c ->
  final c = true /\ no_stuck c /\ wg c = 0 /\ all_closed_empty c /\
  forall j, 1 <= j <= k ->
    qapp (getq c j) = rr k (j - 1) vs /\ received (tres (gett c (S j))) = rr k (j - 1) vs /\
    told_closed (tres (gett c (S j))).
Proof.
  intros I Hq. pose proof (split_quiescent_done c I Hq) as Hd0.
  destruct (si_h _ _ _ _ I) as [D HD].
  destruct (splith_alive _ _ _ _ _ _ _ _ HD) as [_ [[Hne _]|(_ & Hdn & Hp0 & _ & Hpop & Hcl0 & Hall)]];
    [contradiction|].
  assert (Hwg : wg c = 0) by (rewrite (split_wg vs k cap); auto).
  assert (Hf : tph (gett c 1) = PIdle /\ tcalls (gett c 1) = [] /\ qapp (getq c 0) = vs).
  { destruct (feeder_quiescent vs c 1 (si_f _ _ _ _ I) (Hq 1)) as [(? & ? & ? & ?)|(_ & Hcl & _)]; auto.
    congruence. }
  assert (Hc : forall j, 1 <= j <= k -> tph (gett c (S j)) = PIdle /\ tcalls (gett c (S j)) = []).
  { intros j Hj.
    destruct (consumer_quiescent j c (S j) (si_c _ _ _ _ I j Hj) (Hq _)) as [?|(_ & _ & Hcl)]; auto.
    destruct (Hall j Hj) as [_ Hclj]. unfold view_cl in Hclj. congruence. }
  destruct (waiter_quiescent c (k + 2) (si_w _ _ _ _ I) (Hq _) Hwg) as [Hpw Hcw].
  assert (Hrc : forall j, 1 <= j <= k ->
     received (tres (gett c (S j))) = qapp (getq c j) /\ qvals (getq c j) = [] /\
     qclosed (getq c j) = true /\ qtok (getq c j) = 0).
  { intros j Hj. apply (reader_complete c j 0 (S j)).
    - replace 0 with (fP j) by (destruct j; simpl; lia).
      replace (S j) with (fR j) by (destruct j; simpl; lia). apply (si_ch _ _ _ _ I). lia.
    - now apply (si_c _ _ _ _ I).
    - right. now apply Hc. }
  split; [|split; [|split; [|split]]]; auto.
  - apply final_of_threads. intros t Ht. rewrite (si_nt _ _ _ _ I) in Ht.
    destruct (Nat.eq_dec t 0) as [->|H0]; [now apply thread_done_idle|].
    destruct (Nat.eq_dec t 1) as [->|H1]; [apply thread_done_idle; tauto|].
    destruct (Nat.le_gt_cases t (S k)) as [Hle|Hgt].
    { destruct (Hc (t - 1) ltac:(lia)) as [? ?]. replace (S (t - 1)) with t in * by lia.
      now apply thread_done_idle. }
    replace t with (k + 2) by lia. now apply thread_done_idle.
  - now apply (split_no_stuck vs k cap).
  - intros q Hlt. rewrite (si_nq _ _ _ _ I) in Hlt.
    destruct q as [|q].
    + split; auto. apply (chan_drained c 0 _ _ (si_ch _ _ _ _ I 0 ltac:(lia))).
      destruct Hf as (_ & _ & ->). auto.
    + destruct (Hrc (S q) ltac:(lia)) as (_ & ? & ? & ?). auto.
  - intros j Hj. destruct (Hall j Hj) as [Ha _]. unfold view_app in Ha.
    replace (j - 1) with (pred j) by lia.
    destruct (Hrc j Hj) as (Hr & _). split; auto. split; [congruence|].
    pose proof (si_c _ _ _ _ I j Hj) as Hcj. destruct (Hc j Hj) as [_ Hcalls].
    destruct Hcj as [? Hx ? ? ?|? Hx ? ? ?|? ? ? ? ? ? ?]; try congruence.
Qed.

End SplitLive.
