(* AliasStatic.v - the obligations on the aliasing tables that tools/gofootprint regenerates from the Go sources
   (ParamsFoot.v: foot_api, foot_storage_writes, foot_field_sets, foot_publish_once, foot_shared_edges), proved BY
   COMPUTATION, and the static theorems of C18.v and C17.v closed with them.  NOT part of the common build: compiled by
   ./check C18 and ./check C17 after the differential run ("late_files" in tools/props.d/C18.json, C17.json), so that a
   change of the sources that breaks one of these lemmas is reported for those properties only.
   Each lemma names the kind of change that breaks it (seed names refer to seeded/). *)
From Coq Require Import String.
From Verif Require Import Base Value Seq Coll Pool PoolFrame IterProofs ParamsFoot AliasFacts AliasProofs C17 C18.

(* BREAKS WHEN tools/gofootprint cannot load or type-check the library (ParamsFoot.foot_tool_error says why). *)
Lemma alias_tool_ran : foot_tool_ok = true.
Proof. vm_compute. reflexivity. Qed.

(* (a) BREAKS WHEN a result the property names is not memory of its own: GetValues returns the receiver for the full
   range (C18-A); a class function returns an operand when the other is empty (C18-B, C15-B, C16-A, C01-A); a
   constructor returns or adopts the storage of a same-kind argument (C14-B, C13-B); a result is a slice of an array
   that the receiver keeps as well (C18-D); GetIterator hands the live array to the iterator (C02-D). *)
Lemma alias_results_fresh_current : alias_results_fresh = true.
Proof. vm_compute. reflexivity. Qed.

(* (b) BREAKS WHEN a constructor / class function / bulk operation keeps, returns or writes a Go slice or Go map
   argument, or when ANY row of the API table that is neither fresh nor not-retained is not one of the reviewed ones:
   a sorter keeping the caller's array (C09-C), a stack adopting the list of another stack (C13-B), ... *)
Lemma alias_params_not_retained_current : alias_params_not_retained = true.
Proof. vm_compute. reflexivity. Qed.

(* (c) BREAKS WHEN storage reachable before a call is written in place by a method that is not one of the reviewed
   ones, or a storage field is set to memory that is not freshly allocated: append on the internal array of a list
   (C15-D, C18-D), shifting in place and reslicing (C02-D), keeping the caller's array as a buffer (C09-C); or when
   the array of an iterator / the runes of a scanner are written after construction. *)
Lemma alias_in_place_discipline_current : alias_in_place_discipline = true.
Proof. vm_compute. reflexivity. Qed.

(* (d) BREAKS WHEN a result contains element objects held by the receiver or an argument: the iterator of a catalog
   over the catalog's own association objects (C17-B), AsArray handing out cached association objects (C18-C). *)
Lemma alias_no_shared_elements_current : alias_no_shared_elements = true.
Proof. vm_compute. reflexivity. Qed.

(* (e) BREAKS WHEN some GetIterator does not build its iterator over a fresh copy: the live array (C02-D), a cached
   snapshot kept in a field of the collection (C17-D, C13-C, C18-C). *)
Lemma alias_iterators_over_copies_current : alias_iterators_over_copies = true.
Proof. vm_compute. reflexivity. Qed.

Lemma alias_ok_current : alias_ok = true.
Proof. vm_compute. reflexivity. Qed.

(* non-vacuity: the tables are not empty and say what one expects of some well-known entry points *)
Example C18_static_tables_nonempty :
  (100 <= List.length foot_api)%nat /\
  (60 <= List.length (filter (fun r => c18_named r && api_is_result r) foot_api))%nat /\
  forallb (fun row => existsb (api_row_eqb row) foot_api)
    [("collection.(*list_).AsArray", "result 1", "fresh");
     ("collection.(*catalog_).GetIterator", "result 1", "fresh");
     ("collection.(*listClass_).MakeFromArray", "parameter 1 [slice]", "not-retained");
     ("collection.(*mapClass_).MakeFromMap", "parameter 1 [map]", "not-retained");
     ("collection.(*set_).GetCollator", "result 1", "aliases receiver field collection.set_.CollatorLike0")]%string = true.
Proof. vm_compute. repeat split; try reflexivity; repeat constructor. Qed.

Theorem C18_static_no_shared_storage_closed :
  ((forall r, In r foot_api -> c18_named r = true -> api_is_result r = true ->
              api_clean r = true \/ keeps_only_a_collator r = true) /\
   filter (fun r => negb (api_clean r)) foot_api = expected_api_exceptions /\
   foot_storage_writes = expected_storage_writes /\ foot_field_sets = [] /\
   (forall r, In r foot_api -> contains shared_elements_phrase (api_verdict r) = false)) /\
  (forall (zero : val) (p : pool) (o : op) (p' : pool) (r : ret),
     step zero p o = (p', r) ->
     (List.length p <= List.length p' <= S (List.length p))%nat /\
     (forall i : nat, (i < List.length p)%nat -> writes o <> Some i -> nth i p' ODead = nth i p ODead)).
Proof. exact (C18_static_no_shared_storage alias_ok_current). Qed.

Theorem C17_static_iterator_snapshot_closed :
  (In iterator_values_field foot_publish_once /\
   (forall r, In r foot_api -> ends_with get_iterator_suffix (api_fun r) = true -> api_is_result r = true -> api_clean r = true)) /\
  (forall (A : Type) (zero : A) (i : iter A) (ms : list move), it_vals (walk A zero i ms) = it_vals i).
Proof. exact (C17_static_iterator_snapshot alias_ok_current). Qed.

Print Assumptions C18_static_no_shared_storage_closed.
Print Assumptions C17_static_iterator_snapshot_closed.
