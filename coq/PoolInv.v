(* PoolInv.v — a pool-wide invariant of the API-history interpreter (Pool.v), for C13:
   in every pool reachable by ANY history from the empty pool (or from any pool that satisfies it), every
   stack object holds at most as many values as its capacity.  One theorem, composed from: what each
   constructor yields ([build], MakeEmpty, MakeCap), the three ops that write a stack (Push, Pop, RemoveAll:
   [stack_push] / [stack_pop]) and the shape of a step (every other op leaves every stack alone or creates a
   non-stack object). *)
From Verif Require Import Base Sorter Value Seq Coll Pool PoolFrame StackProofs StackProofs2.
Local Open Scope nat_scope.

Definition stack_ok (o : obj) : Prop :=
  match o with OStk cap l => length l <= cap | _ => True end.
Definition pool_ok (p : pool) : Prop := Forall stack_ok p.

Lemma get_ok : forall p i, pool_ok p -> stack_ok (get p i).
Proof.
  intros p i H. unfold get. destruct (Nat.lt_ge_cases i (length p)) as [L|L].
  - unfold pool_ok in H. rewrite Forall_forall in H. apply H. apply nth_In. exact L.
  - rewrite nth_overflow by exact L. exact I.
Qed.

Lemma put_ok : forall p s x, pool_ok p -> stack_ok x -> pool_ok (put p s x).
Proof.
  unfold pool_ok, put. intros p s x H Hx. revert s. induction H as [|a t Ha Ht IH]; intros [|s]; cbn [set_nth]; constructor; auto.
Qed.

Lemma push_ok : forall p x, pool_ok p -> stack_ok x -> pool_ok (p ++ [x]).
Proof. unfold pool_ok. intros p x H Hx. apply Forall_app. split; [exact H|constructor; [exact Hx|constructor]]. Qed.

(* constructors from an array / a sequence *)
Lemma build_ok : forall zero k l x, build zero k l = Ret x -> stack_ok x.
Proof.
  intros zero k l x H. destruct k; cbn [build] in H.
  - injection H as <-. exact I.
  - injection H as <-. exact I.
  - destruct (set_add_all zero rk_default [] l); cbn [out_map] in H; try discriminate. injection H as <-. exact I.
  - injection H as <-. exact (proj1 (proj2 (pool_stack_constructors_within_capacity zero l))).
  - injection H as <-. exact I.
  - destruct (vals_assoc l); try discriminate. injection H as <-. exact I.
  - destruct (vals_assoc l); try discriminate. injection H as <-. exact I.
Qed.

Lemma stack_push_ok : forall cap (l : list val) v l', length l <= cap -> stack_push cap l v = Ret l' -> length l' <= cap.
Proof.
  intros cap l v l' H E. unfold stack_push in E. destruct (Nat.eqb_spec (length l) cap) as [X|X]; [discriminate|].
  injection E as <-. cbn [length]. lia.
Qed.

Lemma stack_pop_ok : forall cap (l : list val) r, length l <= cap -> stack_pop l = Ret r -> length (snd r) <= cap.
Proof.
  intros cap l r H E. destruct l as [|x t]; cbn [stack_pop] in E; [discriminate|]. injection E as <-. cbn [snd length] in *. lia.
Qed.

Lemma set_like_ok : forall o l, stack_ok o -> stack_ok (set_like o l).
Proof. intros o l H. destruct o; try exact I. exact H. Qed.

Ltac stack_fact :=
  match goal with
  | Hp : pool_ok ?p, Hg : get ?p ?o = OStk ?cap ?l |- _ =>
    let Hs := fresh "Hs" in pose proof (get_ok p o Hp) as Hs; rewrite Hg in Hs; cbn [stack_ok] in Hs
  end.

(* ONE STEP keeps the invariant *)
Theorem step_pool_ok : forall zero p o p' r, step zero p o = (p', r) -> pool_ok p -> pool_ok p'.
Proof.
  intros zero p o p' r H Hp.
  destruct o; cbn [step] in H; unfold push_obj, of_out in H; brk; try assumption;
    repeat first [apply push_ok | apply put_ok]; try assumption; try exact I;
    try (eapply build_ok; eassumption);
    cbn [stack_ok with_contents]; try lia; try exact I.
  all: try (cbn [length]; apply Nat.le_0_l).
  all: try (match goal with H : seq_contents ?x = Some _ |- stack_ok (with_contents ?x _) => destruct x; try discriminate H; exact I end).
  all: try (stack_fact; first [eapply stack_push_ok; eassumption | eapply (stack_pop_ok _ _ _ Hs); eassumption]).
  all: try (apply set_like_ok; apply get_ok; assumption).
  all: try (match goal with H : set_operand (OStk _ _) = Some _ |- _ => discriminate H end).
Qed.

(* EVERY HISTORY *)
Theorem run_pool_ok : forall zero ops p, pool_ok p -> pool_ok (run zero p ops).
Proof.
  intros zero ops. induction ops as [|o rest IH]; intros p Hp; cbn [run]; [exact Hp|].
  apply IH. destruct (step zero p o) as [p' r] eqn:E. cbn [fst]. apply (step_pool_ok zero p o p' r E Hp).
Qed.

Theorem pool_invariant : forall zero ops i cap l,
  nth i (run zero [] ops) ODead = OStk cap l -> length l <= cap.
Proof.
  intros zero ops i cap l H.
  pose proof (get_ok (run zero [] ops) i (run_pool_ok zero ops [] (Forall_nil _))) as G.
  unfold get in G. rewrite H in G. exact G.
Qed.

Print Assumptions pool_invariant.
