From Verif Require Import Base Seq Coll.
From Coq Require Import Sorted Permutation.

Section SetProofs.
Variable A : Type.
Variable zero : A.
Variable rank : A -> A -> comparison.

Definition total_preorder : Prop :=
  (forall a, rank a a = Eq) /\
  (forall a b, rank b a = CompOpp (rank a b)) /\
  (forall a b c, rank a b <> Gt -> rank b c <> Gt -> rank a c <> Gt).
Definition equiv (a b : A) : Prop := rank a b = Eq.
Definition eqv (a b : A) : bool := match rank a b with Eq => true | _ => false end.
Definition mem (x : A) (l : list A) : Prop := exists y, In y l /\ equiv x y.
Definition StrictSorted (l : list A) : Prop := StronglySorted (fun a b => rank a b = Lt) l.

Inductive sop := SAdd (v : A) | SRemove (v : A) | SAddAll (vs : list A) | SRemoveAll (vs : list A) | SClear.
Definition sstep (l : list A) (o : sop) : out (list A) :=
  match o with
  | SAdd v => set_add zero rank l v
  | SRemove v => set_remove zero rank l v
  | SAddAll vs => set_add_all zero rank l vs
  | SRemoveAll vs => set_remove_all zero rank l vs
  | SClear => Ret []
  end.
Fixpoint srun (l : list A) (ops : list sop) : out (list A) :=
  match ops with
  | [] => Ret l
  | o :: rest => out_bind (sstep l o) (fun l' => srun l' rest)
  end.
(* the mathematical set: x is a member iff it was added and not subsequently removed (up to rank-equality) *)
Fixpoint spec_member (ops : list sop) (x : A) (m : bool) : bool :=
  match ops with
  | [] => m
  | SAdd v :: r => spec_member r x (m || eqv x v)
  | SRemove v :: r => spec_member r x (m && negb (eqv x v))
  | SAddAll vs :: r => spec_member r x (m || existsb (eqv x) vs)
  | SRemoveAll vs :: r => spec_member r x (m && negb (existsb (eqv x) vs))
  | SClear :: r => spec_member r x false
  end.

(* ------------------------------------------------------------------ *)
(* Order facts derived from total_preorder                             *)
(* ------------------------------------------------------------------ *)

Lemma rk_refl : total_preorder -> forall a, rank a a = Eq.
Proof. intros (R & _ & _); exact R. Qed.

Lemma rk_opp : total_preorder -> forall a b, rank b a = CompOpp (rank a b).
Proof. intros (_ & O & _); exact O. Qed.

Lemma rk_le_trans : total_preorder ->
  forall a b c, rank a b <> Gt -> rank b c <> Gt -> rank a c <> Gt.
Proof. intros (_ & _ & T); exact T. Qed.

Lemma rk_eq_sym : total_preorder -> forall a b, rank a b = Eq -> rank b a = Eq.
Proof. intros TP a b H. rewrite (rk_opp TP a b), H. reflexivity. Qed.

Lemma rk_lt_gt : total_preorder -> forall a b, rank a b = Lt -> rank b a = Gt.
Proof. intros TP a b H. rewrite (rk_opp TP a b), H. reflexivity. Qed.

Lemma rk_gt_lt : total_preorder -> forall a b, rank a b = Gt -> rank b a = Lt.
Proof. intros TP a b H. rewrite (rk_opp TP a b), H. reflexivity. Qed.

Lemma rk_le_lt_trans : total_preorder ->
  forall a b c, rank a b <> Gt -> rank b c = Lt -> rank a c = Lt.
Proof.
  intros TP a b c H1 H2.
  assert (H3 : rank a c <> Gt).
  { apply (rk_le_trans TP a b c); auto. congruence. }
  destruct (rank a c) eqn:E; auto; try congruence.
  exfalso.
  assert (H4 : rank c a <> Gt).
  { rewrite (rk_opp TP a c), E. discriminate. }
  assert (H5 : rank c b <> Gt).
  { apply (rk_le_trans TP c a b); auto. }
  apply H5. apply (rk_lt_gt TP). exact H2.
Qed.

Lemma rk_lt_le_trans : total_preorder ->
  forall a b c, rank a b = Lt -> rank b c <> Gt -> rank a c = Lt.
Proof.
  intros TP a b c H1 H2.
  assert (H3 : rank a c <> Gt).
  { apply (rk_le_trans TP a b c); auto. congruence. }
  destruct (rank a c) eqn:E; auto; try congruence.
  exfalso.
  assert (H4 : rank c a <> Gt).
  { rewrite (rk_opp TP a c), E. discriminate. }
  assert (H5 : rank b a <> Gt).
  { apply (rk_le_trans TP b c a); auto. }
  apply H5. apply (rk_lt_gt TP). exact H1.
Qed.

Lemma rk_lt_trans : total_preorder ->
  forall a b c, rank a b = Lt -> rank b c = Lt -> rank a c = Lt.
Proof.
  intros TP a b c H1 H2. apply (rk_lt_le_trans TP a b c); auto. congruence.
Qed.

Lemma rk_lt_eq_trans : total_preorder ->
  forall a b c, rank a b = Lt -> rank b c = Eq -> rank a c = Lt.
Proof.
  intros TP a b c H1 H2. apply (rk_lt_le_trans TP a b c); auto. congruence.
Qed.

Lemma rk_eq_lt_trans : total_preorder ->
  forall a b c, rank a b = Eq -> rank b c = Lt -> rank a c = Lt.
Proof.
  intros TP a b c H1 H2. apply (rk_le_lt_trans TP a b c); auto. congruence.
Qed.

Lemma rk_eq_trans : total_preorder ->
  forall a b c, rank a b = Eq -> rank b c = Eq -> rank a c = Eq.
Proof.
  intros TP a b c H1 H2.
  assert (H3 : rank a c <> Gt).
  { apply (rk_le_trans TP a b c); congruence. }
  assert (H4 : rank c a <> Gt).
  { apply (rk_le_trans TP c b a).
    - rewrite (rk_eq_sym TP _ _ H2). discriminate.
    - rewrite (rk_eq_sym TP _ _ H1). discriminate. }
  destruct (rank a c) eqn:E; auto; try congruence.
  exfalso. apply H4. apply (rk_lt_gt TP). exact E.
Qed.

Lemma equiv_refl : total_preorder -> forall a, equiv a a.
Proof. intros TP a. apply (rk_refl TP). Qed.

Lemma equiv_sym : total_preorder -> forall a b, equiv a b -> equiv b a.
Proof. intros TP a b. apply (rk_eq_sym TP). Qed.

Lemma equiv_trans : total_preorder -> forall a b c, equiv a b -> equiv b c -> equiv a c.
Proof. intros TP a b c. apply (rk_eq_trans TP). Qed.

Lemma eqv_true : forall a b, eqv a b = true <-> equiv a b.
Proof.
  intros a b. unfold eqv, equiv. destruct (rank a b); split; intro H; congruence.
Qed.

Lemma mem_equiv : total_preorder -> forall x y l, equiv x y -> mem y l -> mem x l.
Proof.
  intros TP x y l Hxy (z & Hz & Hyz). exists z. split; auto.
  apply (equiv_trans TP x y z); auto.
Qed.

Lemma mem_nil : forall x, ~ mem x [].
Proof. intros x (y & [] & _). Qed.

Lemma mem_cons : forall x a l, mem x (a :: l) <-> equiv x a \/ mem x l.
Proof.
  intros x a l. split.
  - intros (y & [Hy | Hy] & He).
    + subst. left; auto.
    + right. exists y; auto.
  - intros [He | (y & Hy & He)].
    + exists a. split; simpl; auto.
    + exists y. split; simpl; auto.
Qed.

Lemma mem_app : forall x l1 l2, mem x (l1 ++ l2) <-> mem x l1 \/ mem x l2.
Proof.
  intros x l1 l2. split.
  - intros (y & Hy & He). apply in_app_or in Hy. destruct Hy as [Hy | Hy].
    + left; exists y; auto.
    + right; exists y; auto.
  - intros [(y & Hy & He) | (y & Hy & He)]; exists y; split; auto; apply in_or_app; auto.
Qed.

Lemma mem_existsb : forall x vs, existsb (eqv x) vs = true <-> mem x vs.
Proof.
  intros x vs. rewrite existsb_exists. unfold mem. split.
  - intros (y & Hy & He). exists y. split; auto. apply eqv_true; auto.
  - intros (y & Hy & He). exists y. split; auto. apply eqv_true; auto.
Qed.

(* ------------------------------------------------------------------ *)
(* List facts                                                           *)
(* ------------------------------------------------------------------ *)

Lemma SS_app : forall (R : A -> A -> Prop) l1 l2,
  StronglySorted R (l1 ++ l2) <->
  StronglySorted R l1 /\ StronglySorted R l2 /\ (forall x y, In x l1 -> In y l2 -> R x y).
Proof.
  intros R l1 l2. induction l1 as [|a l1 IH]; simpl.
  - split.
    + intro H. repeat split; auto. constructor. intros x y [].
    + intros (_ & H & _); auto.
  - split.
    + intro H. inversion H as [|a' l' Hs Hf]; subst.
      apply IH in Hs. destruct Hs as (Hs1 & Hs2 & Hc).
      rewrite Forall_forall in Hf.
      repeat split; auto.
      * constructor; auto. rewrite Forall_forall. intros x Hx. apply Hf. apply in_or_app; auto.
      * intros x y [Hx | Hx] Hy.
        -- subst. apply Hf. apply in_or_app; auto.
        -- apply Hc; auto.
    + intros (Hs1 & Hs2 & Hc). inversion Hs1 as [|a' l' Hs Hf]; subst.
      constructor.
      * apply IH. repeat split; auto.
      * rewrite Forall_forall in *. intros x Hx. apply in_app_or in Hx. destruct Hx as [Hx | Hx]; auto.
Qed.

Lemma SS_nth : forall l, StrictSorted l ->
  forall i j, i < j -> j < length l -> rank (nth i l zero) (nth j l zero) = Lt.
Proof.
  intros l H. induction H as [|a l Hs IH Hf]; intros i j Hij Hj; simpl in *.
  - lia.
  - destruct j as [|j]; [lia|]. destruct i as [|i].
    + rewrite Forall_forall in Hf. apply Hf. apply nth_In. lia.
    + apply IH; lia.
Qed.

Lemma split_nth : forall (l : list A) k, k < length l ->
  l = firstn k l ++ nth k l zero :: skipn (S k) l.
Proof.
  induction l as [|a l IH]; intros k Hk; simpl in *; [lia|].
  destruct k as [|k]; simpl; auto.
  f_equal. apply IH. lia.
Qed.

Lemma remove_nth_split : forall (l : list A) k,
  remove_nth k l = firstn k l ++ skipn (S k) l.
Proof.
  induction l as [|a l IH]; intros k; simpl.
  - destruct k; reflexivity.
  - destruct k as [|k]; simpl; auto. f_equal. apply IH.
Qed.

Lemma Forall_firstn_nth : forall (P : A -> Prop) s (l : list A),
  (forall j, j < s -> j < length l -> P (nth j l zero)) -> Forall P (firstn s l).
Proof.
  intros P s. induction s as [|s IH]; intros l H; simpl.
  - constructor.
  - destruct l as [|a l]; [constructor|].
    constructor.
    + apply (H 0); simpl; lia.
    + apply IH. intros j Hj Hl. apply (H (S j)); simpl; lia.
Qed.

Lemma Forall_skipn_nth : forall (P : A -> Prop) s (l : list A),
  (forall j, s <= j -> j < length l -> P (nth j l zero)) -> Forall P (skipn s l).
Proof.
  intros P s. induction s as [|s IH]; intros l H; simpl.
  - induction l as [|a l IHl]; constructor.
    + apply (H 0); simpl; lia.
    + apply IHl. intros j Hj Hl. apply (H (S j)); simpl; lia.
  - destruct l as [|a l]; [constructor|].
    apply IH. intros j Hj Hl. apply (H (S j)); simpl; lia.
Qed.

(* ------------------------------------------------------------------ *)
(* Binary search                                                        *)
(* ------------------------------------------------------------------ *)

Lemma fil_unfold : forall f l v first last size,
  find_index_loop zero rank (S f) l v first last size =
  if size =? 0 then Ret (last, false) else
    match rank v (nth (first + size / 2 - 1) l zero) with
    | Lt => find_index_loop zero rank f l v first (first + size / 2 - 1) (first + size / 2 - first)
    | Eq => Ret (first + size / 2, true)
    | Gt => find_index_loop zero rank f l v (first + size / 2 + 1) last (last - (first + size / 2))
    end.
Proof. reflexivity. Qed.

Lemma fil_zero : forall l v first last size,
  find_index_loop zero rank 0 l v first last size =
  if size =? 0 then Ret (last, false) else Hang.
Proof. reflexivity. Qed.

Lemma half_lt : forall n, n <> 0 -> n / 2 < n.
Proof. intros n Hn. apply Nat.div_lt; lia. Qed.

Lemma loop_returns : forall fuel l v first last size,
  size < fuel -> 1 <= first -> last + 1 = first + size -> last <= length l ->
  exists k b, find_index_loop zero rank fuel l v first last size = Ret (k, b) /\
              k <= length l /\ (b = true -> 1 <= k).
Proof.
  induction fuel as [|fuel IH]; intros l v first last size Hf H1 Hinv Hlast; [lia|].
  rewrite fil_unfold.
  destruct (size =? 0) eqn:Ez.
  - exists last, false. repeat split; auto. discriminate.
  - apply Nat.eqb_neq in Ez.
    pose proof (half_lt size Ez) as Hh.
    remember (size / 2) as h eqn:Eh.
    destruct (rank v (nth (first + h - 1) l zero)).
    + exists (first + h), true. repeat split; auto; lia.
    + apply IH; lia.
    + apply IH; lia.
Qed.

Theorem find_index_returns : forall l v, exists k b,
  find_index zero rank l v = Ret (k, b) /\ k <= length l /\ (b = true -> 1 <= k).
Proof.
  intros l v. unfold find_index. apply loop_returns; lia.
Qed.

Lemma loop_correct : total_preorder -> forall l v, StrictSorted l ->
  forall fuel first last size k b,
  1 <= first -> last + 1 = first + size -> last <= length l ->
  (forall j, j + 1 < first -> rank (nth j l zero) v = Lt) ->
  (forall j, last <= j < length l -> rank v (nth j l zero) = Lt) ->
  find_index_loop zero rank fuel l v first last size = Ret (k, b) ->
  (b = true -> 1 <= k <= length l /\ rank v (nth (k - 1) l zero) = Eq) /\
  (b = false -> k <= length l /\
     (forall j, j < k -> rank (nth j l zero) v = Lt) /\
     (forall j, k <= j < length l -> rank v (nth j l zero) = Lt)).
Proof.
  intros TP l v HS.
  induction fuel as [|fuel IH]; intros first last size k b H1 Hinv Hlast Hlo Hhi Hr.
  - rewrite fil_zero in Hr. destruct (size =? 0) eqn:Ez; [|discriminate].
    apply Nat.eqb_eq in Ez. inversion Hr; subst. split; [discriminate|].
    intros _. repeat split; auto. intros j Hj. apply Hlo. lia.
  - rewrite fil_unfold in Hr. destruct (size =? 0) eqn:Ez.
    + apply Nat.eqb_eq in Ez. inversion Hr; subst. split; [discriminate|].
      intros _. repeat split; auto. intros j Hj. apply Hlo. lia.
    + apply Nat.eqb_neq in Ez.
      pose proof (half_lt size Ez) as Hh.
      remember (size / 2) as h eqn:Eh.
      destruct (rank v (nth (first + h - 1) l zero)) eqn:Ec.
      * inversion Hr; subst k b. split; [|discriminate].
        intros _. split; [lia|]. exact Ec.
      * assert (Hhi' : forall j, first + h - 1 <= j < length l -> rank v (nth j l zero) = Lt).
        { intros j Hj.
          destruct (Nat.eq_dec j (first + h - 1)) as [Ej | Ej].
          - subst j. exact Ec.
          - apply (rk_lt_trans TP _ (nth (first + h - 1) l zero)); auto.
            apply SS_nth; auto; lia. }
        apply (IH first (first + h - 1) (first + h - first) k b); auto; lia.
      * assert (Hlo' : forall j, j + 1 < first + h + 1 -> rank (nth j l zero) v = Lt).
        { intros j Hj.
          destruct (Nat.eq_dec j (first + h - 1)) as [Ej | Ej].
          - subst j. apply (rk_gt_lt TP). exact Ec.
          - apply (rk_lt_trans TP _ (nth (first + h - 1) l zero)).
            + apply SS_nth; auto; lia.
            + apply (rk_gt_lt TP). exact Ec. }
        apply (IH (first + h + 1) last (last - (first + h)) k b); auto; lia.
Qed.

Lemma find_index_correct : total_preorder -> forall l v k b, StrictSorted l ->
  find_index zero rank l v = Ret (k, b) ->
  (b = true -> 1 <= k <= length l /\ rank v (nth (k - 1) l zero) = Eq) /\
  (b = false -> k <= length l /\
     (forall j, j < k -> rank (nth j l zero) v = Lt) /\
     (forall j, k <= j < length l -> rank v (nth j l zero) = Lt)).
Proof.
  intros TP l v k b HS Hr. unfold find_index in Hr.
  apply (loop_correct TP l v HS) in Hr; auto; try lia.
Qed.

Theorem find_index_found : total_preorder -> forall l v k, StrictSorted l ->
  find_index zero rank l v = Ret (k, true) -> 1 <= k <= length l /\ rank v (nth (k - 1) l zero) = Eq.
Proof.
  intros TP l v k HS Hr. apply (find_index_correct TP l v k true HS Hr). reflexivity.
Qed.

Theorem find_index_absent : total_preorder -> forall l v s, StrictSorted l ->
  find_index zero rank l v = Ret (s, false) ->
  s <= length l /\ (forall j, j < s -> rank (nth j l zero) v = Lt) /\ (forall j, s <= j < length l -> rank v (nth j l zero) = Lt).
Proof.
  intros TP l v s HS Hr. apply (find_index_correct TP l v s false HS Hr). reflexivity.
Qed.

Lemma found_mem : total_preorder -> forall l v k, StrictSorted l ->
  find_index zero rank l v = Ret (k, true) -> mem v l.
Proof.
  intros TP l v k HS Hr. destruct (find_index_found TP l v k HS Hr) as (Hk & He).
  exists (nth (k - 1) l zero). split; auto. apply nth_In. lia.
Qed.

Lemma absent_not_mem : total_preorder -> forall l v s, StrictSorted l ->
  find_index zero rank l v = Ret (s, false) -> ~ mem v l.
Proof.
  intros TP l v s HS Hr (y & Hy & He).
  destruct (find_index_absent TP l v s HS Hr) as (Hs & Hlo & Hhi).
  destruct (In_nth l y zero Hy) as (j & Hj & Ej). subst y. unfold equiv in He.
  destruct (Nat.lt_ge_cases j s) as [Hc | Hc].
  - specialize (Hlo j Hc). apply (rk_eq_sym TP) in He. congruence.
  - specialize (Hhi j (conj Hc Hj)). congruence.
Qed.

Theorem find_index_iff_mem : total_preorder -> forall l v, StrictSorted l ->
  (mem v l <-> exists k, find_index zero rank l v = Ret (k, true)).
Proof.
  intros TP l v HS. split.
  - intros Hm. destruct (find_index_returns l v) as (k & b & Hr & _).
    destruct b.
    + exists k; auto.
    + exfalso. apply (absent_not_mem TP l v k HS Hr Hm).
  - intros (k & Hr). apply (found_mem TP l v k HS Hr).
Qed.

Theorem strict_sorted_unique : total_preorder -> forall l i j, StrictSorted l ->
  i < length l -> j < length l -> rank (nth i l zero) (nth j l zero) = Eq -> i = j.
Proof.
  intros TP l i j HS Hi Hj He.
  destruct (Nat.lt_trichotomy i j) as [H | [H | H]]; auto; exfalso.
  - pose proof (SS_nth l HS i j H Hj). congruence.
  - pose proof (SS_nth l HS j i H Hi) as H0. apply (rk_eq_sym TP) in He. congruence.
Qed.

(* ------------------------------------------------------------------ *)
(* add / remove                                                         *)
(* ------------------------------------------------------------------ *)

Lemma StrictSorted_app : forall l1 l2,
  StrictSorted (l1 ++ l2) <->
  StrictSorted l1 /\ StrictSorted l2 /\ (forall x y, In x l1 -> In y l2 -> rank x y = Lt).
Proof. intros l1 l2. unfold StrictSorted. apply SS_app. Qed.

Lemma StrictSorted_cons_inv : forall a l,
  StrictSorted (a :: l) -> StrictSorted l /\ (forall y, In y l -> rank a y = Lt).
Proof.
  intros a l H. inversion H as [|a' l' Hs Hf]. split; auto.
  rewrite Forall_forall in Hf. exact Hf.
Qed.

Lemma StrictSorted_nil : StrictSorted [].
Proof. constructor. Qed.

Theorem set_add_spec : total_preorder -> forall l v, StrictSorted l ->
  exists l', set_add zero rank l v = Ret l' /\ StrictSorted l' /\
    (forall x, mem x l' <-> (equiv x v \/ mem x l)) /\ (mem v l -> l' = l) /\
    (~ mem v l -> Permutation l' (v :: l)).
Proof.
  intros TP l v HS. unfold set_add.
  destruct (find_index_returns l v) as (k & b & Hr & Hk & _).
  rewrite Hr. destruct b.
  - pose proof (found_mem TP l v k HS Hr) as Hm.
    exists l. split; [reflexivity|]. split; [exact HS|]. split; [|split].
    + intros x. split.
      * intros Hx. right; exact Hx.
      * intros [He | Hx]; auto. apply (mem_equiv TP x v l); auto.
    + intros _. reflexivity.
    + intros Hn. contradiction.
  - destruct (find_index_absent TP l v k HS Hr) as (Hs & Hlo & Hhi).
    pose proof (absent_not_mem TP l v k HS Hr) as Hn.
    unfold insert_value.
    destruct (length l <? k) eqn:E; [apply Nat.ltb_lt in E; lia|].
    exists (firstn k l ++ v :: skipn k l).
    assert (HP : Permutation (firstn k l ++ v :: skipn k l) (v :: l)).
    { apply Permutation_sym.
      apply Permutation_trans with (v :: firstn k l ++ skipn k l).
      - rewrite firstn_skipn. apply Permutation_refl.
      - apply Permutation_middle. }
    split; [reflexivity|]. split; [|split; [|split]].
    + assert (HS' : StrictSorted (firstn k l ++ skipn k l)).
      { rewrite firstn_skipn. exact HS. }
      apply StrictSorted_app in HS'. destruct HS' as (S1 & S2 & S12).
      assert (F1 : Forall (fun y => rank y v = Lt) (firstn k l)).
      { apply Forall_firstn_nth. intros j Hj _. apply Hlo; auto. }
      assert (F2 : Forall (fun y => rank v y = Lt) (skipn k l)).
      { apply Forall_skipn_nth. intros j Hj Hl. apply Hhi; auto. }
      rewrite Forall_forall in F1, F2.
      apply StrictSorted_app. split; [exact S1|]. split.
      * constructor; auto. rewrite Forall_forall. exact F2.
      * intros x y Hx [Hy | Hy].
        -- subst y. apply F1; auto.
        -- apply S12; auto.
    + intros x. split.
      * intros (y & Hy & He). apply (Permutation_in _ HP) in Hy.
        destruct Hy as [Hy | Hy].
        -- subst y. left; exact He.
        -- right. exists y; auto.
      * intros [He | (y & Hy & He)].
        -- exists v. split; auto.
           apply (Permutation_in _ (Permutation_sym HP)). left; reflexivity.
        -- exists y. split; auto.
           apply (Permutation_in _ (Permutation_sym HP)). right; exact Hy.
    + intros Hm. contradiction.
    + intros _. exact HP.
Qed.

Lemma remove_value_at : forall (l : list A) k, 1 <= k <= length l ->
  remove_value zero l (Z.of_nat k) = Ret (nth (k - 1) l zero, remove_nth (k - 1) l).
Proof.
  intros l k Hk. unfold remove_value, pos.
  destruct (length l =? 0) eqn:E0; [apply Nat.eqb_eq in E0; lia|].
  destruct (Z.of_nat k =? 0)%Z eqn:E1; [apply Z.eqb_eq in E1; lia|].
  destruct ((Z.of_nat k <? - Z.of_nat (length l)) || (Z.of_nat (length l) <? Z.of_nat k))%Z eqn:E2.
  { apply orb_true_iff in E2. destruct E2 as [E2 | E2]; apply Z.ltb_lt in E2; lia. }
  destruct (Z.of_nat k <? 0)%Z eqn:E3; [apply Z.ltb_lt in E3; lia|].
  replace (Z.to_nat (Z.of_nat k - 1)) with (k - 1) by lia. reflexivity.
Qed.

Theorem set_remove_spec : total_preorder -> forall l v, StrictSorted l ->
  exists l', set_remove zero rank l v = Ret l' /\ StrictSorted l' /\
    (forall x, mem x l' <-> (mem x l /\ ~ equiv x v)) /\ (forall y, In y l' -> In y l) /\ (~ mem v l -> l' = l).
Proof.
  intros TP l v HS. unfold set_remove.
  destruct (find_index_returns l v) as (k & b & Hr & Hk & _).
  rewrite Hr. destruct b.
  - destruct (find_index_found TP l v k HS Hr) as (Hk1 & He).
    pose proof (found_mem TP l v k HS Hr) as Hm.
    rewrite (remove_value_at l k Hk1). simpl. rewrite remove_nth_split.
    assert (Hl : l = firstn (k - 1) l ++ nth (k - 1) l zero :: skipn (S (k - 1)) l).
    { apply split_nth. lia. }
    remember (nth (k - 1) l zero) as c eqn:Heqc.
    remember (firstn (k - 1) l) as l1 eqn:Heql1.
    remember (skipn (S (k - 1)) l) as l2 eqn:Heql2.
    clear Heqc Heql1 Heql2.
    assert (HS' : StrictSorted (l1 ++ c :: l2)) by (rewrite <- Hl; exact HS).
    apply StrictSorted_app in HS'. destruct HS' as (S1 & Sc & S12).
    apply StrictSorted_cons_inv in Sc. destruct Sc as (S2 & Hc2).
    assert (Hc1 : forall y, In y l1 -> rank y c = Lt).
    { intros y Hy. apply S12; auto. left; reflexivity. }
    exists (l1 ++ l2). split; [reflexivity|]. split; [|split; [|split]].
    + apply StrictSorted_app. split; [exact S1|]. split; [exact S2|].
      intros x y Hx Hy. apply S12; auto. right; exact Hy.
    + intros x. split.
      * intros (y & Hy & Hxy). apply in_app_or in Hy. split.
        -- exists y. split; auto. rewrite Hl. apply in_or_app.
           destruct Hy as [Hy | Hy]; [left | right; right]; auto.
        -- intros Hxv.
           assert (Hyc : rank y c = Eq).
           { apply (rk_eq_trans TP y x c).
             - apply (rk_eq_sym TP). exact Hxy.
             - apply (rk_eq_trans TP x v c); auto. }
           destruct Hy as [Hy | Hy].
           ++ rewrite (Hc1 y Hy) in Hyc. discriminate.
           ++ apply (rk_eq_sym TP) in Hyc. rewrite (Hc2 y Hy) in Hyc. discriminate.
      * intros ((y & Hy & Hxy) & Hn). rewrite Hl in Hy.
        apply in_app_or in Hy. destruct Hy as [Hy | [Hy | Hy]].
        -- exists y. split; auto. apply in_or_app; left; exact Hy.
        -- subst y. exfalso. apply Hn.
           apply (rk_eq_trans TP x c v); auto. apply (rk_eq_sym TP). exact He.
        -- exists y. split; auto. apply in_or_app; right; exact Hy.
    + intros y Hy. rewrite Hl. apply in_app_or in Hy. apply in_or_app.
      destruct Hy as [Hy | Hy]; [left | right; right]; auto.
    + intros Hn. contradiction.
  - pose proof (absent_not_mem TP l v k HS Hr) as Hn.
    exists l. split; [reflexivity|]. split; [exact HS|]. split; [|split].
    + intros x. split.
      * intros Hx. split; auto. intros Hxv. apply Hn.
        apply (mem_equiv TP v x l); auto. apply (equiv_sym TP); exact Hxv.
      * intros (Hx & _). exact Hx.
    + intros y Hy. exact Hy.
    + intros _. reflexivity.
Qed.

Lemma set_add_all_spec : total_preorder -> forall vs l, StrictSorted l ->
  exists l', set_add_all zero rank l vs = Ret l' /\ StrictSorted l' /\
    (forall x, mem x l' <-> (mem x l \/ mem x vs)).
Proof.
  intros TP vs. induction vs as [|v vs IH]; intros l HS; simpl.
  - exists l. split; [reflexivity|]. split; [exact HS|].
    intros x. split; auto. intros [Hx | Hx]; auto. destruct (mem_nil x Hx).
  - destruct (set_add_spec TP l v HS) as (l1 & H1 & S1 & M1 & _).
    rewrite H1. simpl.
    destruct (IH l1 S1) as (l' & H' & S' & M').
    exists l'. split; [exact H'|]. split; [exact S'|].
    intros x. rewrite M', M1, mem_cons. tauto.
Qed.

Lemma set_remove_all_spec : total_preorder -> forall vs l, StrictSorted l ->
  exists l', set_remove_all zero rank l vs = Ret l' /\ StrictSorted l' /\
    (forall x, mem x l' <-> (mem x l /\ ~ mem x vs)).
Proof.
  intros TP vs. induction vs as [|v vs IH]; intros l HS; simpl.
  - exists l. split; [reflexivity|]. split; [exact HS|].
    intros x. split.
    + intros Hx. split; auto. apply mem_nil.
    + intros (Hx & _); exact Hx.
  - destruct (set_remove_spec TP l v HS) as (l1 & H1 & S1 & M1 & _).
    rewrite H1. simpl.
    destruct (IH l1 S1) as (l' & H' & S' & M').
    exists l'. split; [exact H'|]. split; [exact S'|].
    intros x. rewrite M', M1, mem_cons. tauto.
Qed.

(* ------------------------------------------------------------------ *)
(* Histories                                                            *)
(* ------------------------------------------------------------------ *)

Definition sm_step (o : sop) (x : A) (m : bool) : bool :=
  match o with
  | SAdd v => m || eqv x v
  | SRemove v => m && negb (eqv x v)
  | SAddAll vs => m || existsb (eqv x) vs
  | SRemoveAll vs => m && negb (existsb (eqv x) vs)
  | SClear => false
  end.

Lemma spec_member_cons : forall o r x m,
  spec_member (o :: r) x m = spec_member r x (sm_step o x m).
Proof. intros o r x m. destruct o; reflexivity. Qed.

Lemma negb_true_not : forall b, negb b = true <-> ~ b = true.
Proof. intros b. destruct b; simpl; split; intro H; try congruence; try (exfalso; apply H; reflexivity). Qed.

Lemma sstep_spec : total_preorder -> forall o l, StrictSorted l ->
  exists l', sstep l o = Ret l' /\ StrictSorted l' /\
    (forall x m, (mem x l <-> m = true) -> (mem x l' <-> sm_step o x m = true)).
Proof.
  intros TP o l HS. destruct o as [v | v | vs | vs |]; simpl.
  - destruct (set_add_spec TP l v HS) as (l1 & H1 & S1 & M1 & _).
    exists l1. split; [exact H1|]. split; [exact S1|].
    intros x m Hm. rewrite M1, orb_true_iff, eqv_true, Hm. tauto.
  - destruct (set_remove_spec TP l v HS) as (l1 & H1 & S1 & M1 & _).
    exists l1. split; [exact H1|]. split; [exact S1|].
    intros x m Hm. rewrite M1, andb_true_iff, negb_true_not, eqv_true, Hm. tauto.
  - destruct (set_add_all_spec TP vs l HS) as (l1 & H1 & S1 & M1).
    exists l1. split; [exact H1|]. split; [exact S1|].
    intros x m Hm. rewrite M1, orb_true_iff, mem_existsb, Hm. tauto.
  - destruct (set_remove_all_spec TP vs l HS) as (l1 & H1 & S1 & M1).
    exists l1. split; [exact H1|]. split; [exact S1|].
    intros x m Hm. rewrite M1, andb_true_iff, negb_true_not, mem_existsb, Hm. tauto.
  - exists []. split; [reflexivity|]. split; [apply StrictSorted_nil|].
    intros x m _. split.
    + intros Hx. destruct (mem_nil x Hx).
    + discriminate.
Qed.

Theorem C02_inv : total_preorder -> forall ops l, StrictSorted l ->
  exists l', srun l ops = Ret l' /\ StrictSorted l'.
Proof.
  intros TP ops. induction ops as [|o ops IH]; intros l HS; simpl.
  - exists l. split; auto.
  - destruct (sstep_spec TP o l HS) as (l1 & H1 & S1 & _).
    rewrite H1. simpl. apply IH. exact S1.
Qed.

Theorem C02_membership : total_preorder -> forall ops l l', StrictSorted l -> srun l ops = Ret l' ->
  forall x m, (mem x l <-> m = true) -> (mem x l' <-> spec_member ops x m = true).
Proof.
  intros TP ops. induction ops as [|o ops IH]; intros l l' HS Hrun x m Hm.
  - simpl in *. inversion Hrun; subst l'. exact Hm.
  - rewrite spec_member_cons. simpl in Hrun.
    destruct (sstep_spec TP o l HS) as (l1 & H1 & S1 & M1).
    rewrite H1 in Hrun. simpl in Hrun.
    apply (IH l1 l' S1 Hrun x (sm_step o x m)).
    apply M1. exact Hm.
Qed.

Corollary C02_membership_empty : total_preorder -> forall ops l', srun [] ops = Ret l' ->
  forall x, mem x l' <-> spec_member ops x false = true.
Proof.
  intros TP ops l' Hrun x.
  apply (C02_membership TP ops [] l' StrictSorted_nil Hrun x false).
  split.
  - intros Hx. destruct (mem_nil x Hx).
  - discriminate.
Qed.

(* ------------------------------------------------------------------ *)
(* Views                                                                *)
(* ------------------------------------------------------------------ *)

Theorem set_contains_spec : total_preorder -> forall l v, StrictSorted l ->
  exists b, set_contains zero rank l v = Ret b /\ (b = true <-> mem v l).
Proof.
  intros TP l v HS. unfold set_contains.
  destruct (find_index_returns l v) as (k & b & Hr & _).
  rewrite Hr. simpl. exists b. split; [reflexivity|].
  destruct b; split; auto.
  - intros _. apply (found_mem TP l v k HS Hr).
  - discriminate.
  - intros Hm. exfalso. apply (absent_not_mem TP l v k HS Hr Hm).
Qed.

Theorem set_get_index_spec : total_preorder -> forall l v, StrictSorted l ->
  exists n, set_get_index zero rank l v = Ret n /\
    (n = 0 <-> ~ mem v l) /\ (forall k, n = S k -> k < length l /\ rank v (nth k l zero) = Eq) /\
    (forall k, k < length l -> rank v (nth k l zero) = Eq -> n = S k).
Proof.
  intros TP l v HS. unfold set_get_index.
  destruct (find_index_returns l v) as (k & b & Hr & _).
  rewrite Hr. simpl. destruct b.
  - destruct (find_index_found TP l v k HS Hr) as (Hk & He).
    pose proof (found_mem TP l v k HS Hr) as Hm.
    exists k. split; [reflexivity|]. split; [|split].
    + split.
      * intros Hz. lia.
      * intros Hn. contradiction.
    + intros k' Hk'. subst k. replace (S k' - 1) with k' in He by lia.
      split; [lia | exact He].
    + intros k' Hk' He'.
      assert (Hq : k' = k - 1).
      { apply (strict_sorted_unique TP l k' (k - 1) HS); [lia | lia |].
        apply (rk_eq_trans TP _ v _); auto. apply (rk_eq_sym TP). exact He'. }
      lia.
  - pose proof (absent_not_mem TP l v k HS Hr) as Hn.
    exists 0. split; [reflexivity|]. split; [|split].
    + split; auto.
    + intros k' Hk'. discriminate.
    + intros k' Hk' He'. exfalso. apply Hn.
      exists (nth k' l zero). split; auto. apply nth_In; auto.
Qed.

Theorem set_contains_any_spec : total_preorder -> forall l vs, StrictSorted l ->
  exists b, set_contains_any zero rank l vs = Ret b /\ (b = true <-> exists v, In v vs /\ mem v l).
Proof.
  intros TP l vs HS. induction vs as [|v vs IH]; simpl.
  - exists false. split; [reflexivity|]. split.
    + discriminate.
    + intros (v & [] & _).
  - destruct (set_contains_spec TP l v HS) as (b & Hb & Mb).
    rewrite Hb. simpl. destruct b.
    + exists true. split; [reflexivity|]. split; auto.
      intros _. exists v. split; auto. apply Mb; reflexivity.
    + destruct IH as (b' & Hb' & Mb').
      exists b'. split; [exact Hb'|]. split.
      * intros Ht. apply Mb' in Ht. destruct Ht as (w & Hw & Hm).
        exists w. split; auto.
      * intros (w & [Hw | Hw] & Hm).
        -- subst w. apply Mb in Hm. discriminate.
        -- apply Mb'. exists w; auto.
Qed.

Theorem set_contains_all_spec : total_preorder -> forall l vs, StrictSorted l ->
  exists b, set_contains_all zero rank l vs = Ret b /\ (b = true <-> forall v, In v vs -> mem v l).
Proof.
  intros TP l vs HS. induction vs as [|v vs IH]; simpl.
  - exists true. split; [reflexivity|]. split; auto.
    intros _ v [].
  - destruct (set_contains_spec TP l v HS) as (b & Hb & Mb).
    rewrite Hb. simpl. destruct b.
    + destruct IH as (b' & Hb' & Mb').
      exists b'. split; [exact Hb'|]. split.
      * intros Ht w [Hw | Hw].
        -- subst w. apply Mb; reflexivity.
        -- apply Mb'; auto.
      * intros Hall. apply Mb'. intros w Hw. apply Hall. right; exact Hw.
    + exists false. split; [reflexivity|]. split.
      * discriminate.
      * intros Hall. apply Mb. apply Hall. left; reflexivity.
Qed.

(* ------------------------------------------------------------------ *)
(* Set algebra                                                          *)
(* ------------------------------------------------------------------ *)

Lemma and_loop_spec : total_preorder -> forall xs acc b, StrictSorted acc -> StrictSorted b ->
  exists r, and_loop A zero rank rank acc xs b = Ret r /\ StrictSorted r /\
    (forall x, mem x r <-> (mem x acc \/ (mem x xs /\ mem x b))).
Proof.
  intros TP xs. induction xs as [|y xs IH]; intros acc b Sa Sb; simpl.
  - exists acc. split; [reflexivity|]. split; [exact Sa|].
    intros x. split; auto. intros [Hx | (Hx & _)]; auto. destruct (mem_nil x Hx).
  - destruct (set_contains_spec TP b y Sb) as (c & Hc & Mc).
    rewrite Hc. simpl. destruct c.
    + destruct (set_add_spec TP acc y Sa) as (acc1 & H1 & S1 & M1 & _).
      rewrite H1. simpl.
      destruct (IH acc1 b S1 Sb) as (r & Hr & Sr & Mr).
      exists r. split; [exact Hr|]. split; [exact Sr|].
      assert (Hyb : mem y b) by (apply Mc; reflexivity).
      intros x. rewrite Mr, M1, mem_cons. split.
      * intros [[He | Hx] | (Hx & Hb)]; auto.
        right. split; auto. apply (mem_equiv TP x y b); auto.
      * intros [Hx | ([He | Hx] & Hb)]; auto.
    + destruct (IH acc b Sa Sb) as (r & Hr & Sr & Mr).
      exists r. split; [exact Hr|]. split; [exact Sr|].
      assert (Hyb : ~ mem y b).
      { intros Hm. apply Mc in Hm. discriminate. }
      intros x. rewrite Mr, mem_cons. split.
      * intros [Hx | (Hx & Hb)]; auto.
      * intros [Hx | ([He | Hx] & Hb)]; auto.
        exfalso. apply Hyb. apply (mem_equiv TP y x b); auto. apply (equiv_sym TP); exact He.
Qed.

Theorem set_and_spec : total_preorder -> forall a b, StrictSorted a -> StrictSorted b ->
  exists r, set_and zero rank rank a b = Ret r /\ StrictSorted r /\ (forall x, mem x r <-> (mem x a /\ mem x b)).
Proof.
  intros TP a b Sa Sb. unfold set_and.
  destruct (and_loop_spec TP a [] b StrictSorted_nil Sb) as (r & Hr & Sr & Mr).
  exists r. split; [exact Hr|]. split; [exact Sr|].
  intros x. rewrite Mr. split.
  - intros [Hx | Hx]; auto. destruct (mem_nil x Hx).
  - intros Hx. right; exact Hx.
Qed.

Theorem set_or_spec : total_preorder -> forall a b, StrictSorted a -> StrictSorted b ->
  exists r, set_or zero rank a b = Ret r /\ StrictSorted r /\ (forall x, mem x r <-> (mem x a \/ mem x b)).
Proof.
  intros TP a b Sa Sb. unfold set_or.
  destruct (set_add_all_spec TP a [] StrictSorted_nil) as (r1 & H1 & S1 & M1).
  rewrite H1. simpl.
  destruct (set_add_all_spec TP b r1 S1) as (r & Hr & Sr & Mr).
  exists r. split; [exact Hr|]. split; [exact Sr|].
  intros x. rewrite Mr, M1. pose proof (mem_nil x). tauto.
Qed.

Theorem set_sans_spec : total_preorder -> forall a b, StrictSorted a -> StrictSorted b ->
  exists r, set_sans zero rank a b = Ret r /\ StrictSorted r /\ (forall x, mem x r <-> (mem x a /\ ~ mem x b)).
Proof.
  intros TP a b Sa Sb. unfold set_sans.
  destruct (set_add_all_spec TP a [] StrictSorted_nil) as (r1 & H1 & S1 & M1).
  rewrite H1. simpl.
  destruct (set_remove_all_spec TP b r1 S1) as (r & Hr & Sr & Mr).
  exists r. split; [exact Hr|]. split; [exact Sr|].
  intros x. rewrite Mr, M1. pose proof (mem_nil x). tauto.
Qed.

Theorem set_xor_spec : total_preorder -> forall a b, StrictSorted a -> StrictSorted b ->
  exists r, set_xor zero rank rank a b = Ret r /\ StrictSorted r /\
    (forall x, mem x r <-> ((mem x a /\ ~ mem x b) \/ (mem x b /\ ~ mem x a))).
Proof.
  intros TP a b Sa Sb. unfold set_xor.
  destruct (set_sans_spec TP a b Sa Sb) as (r1 & H1 & S1 & M1).
  destruct (set_sans_spec TP b a Sb Sa) as (r2 & H2 & S2 & M2).
  rewrite H1. simpl. rewrite H2. simpl.
  destruct (set_or_spec TP r1 r2 S1 S2) as (r & Hr & Sr & Mr).
  exists r. split; [exact Hr|]. split; [exact Sr|].
  intros x. rewrite Mr, M1, M2. tauto.
Qed.

End SetProofs.

(* ------------------------------------------------------------------ *)
(* Non-vacuity: a coarse ranker on nat                                  *)
(* ------------------------------------------------------------------ *)

Definition coarse (a b : nat) : comparison := Nat.compare (a / 10) (b / 10).

Lemma coarse_total_preorder : total_preorder nat coarse.
Proof.
  unfold total_preorder, coarse. split; [|split].
  - intros a. apply Nat.compare_refl.
  - intros a b. apply Nat.compare_antisym.
  - intros a b c H1 H2.
    rewrite Nat.compare_gt_iff in *. lia.
Qed.

Example coarse_history :
  srun nat 0 coarse [] [SAdd nat 5; SAdd nat 17; SAdd nat 12; SAdd nat 3; SRemove nat 19] = Ret [5].
Proof. vm_compute. reflexivity. Qed.

Example coarse_history_member :
  forall x, mem nat coarse x [5] <->
    spec_member nat coarse [SAdd nat 5; SAdd nat 17; SAdd nat 12; SAdd nat 3; SRemove nat 19] x false = true.
Proof.
  intros x. apply (C02_membership_empty nat 0 coarse coarse_total_preorder).
  exact coarse_history.
Qed.

Example coarse_history_mixed :
  srun nat 0 coarse [] [SAdd nat 25; SAddAll nat [7; 31; 12; 18]; SRemove nat 39; SAdd nat 44; SRemoveAll nat [0; 99]]
  = Ret [12; 25; 44].
Proof. vm_compute. reflexivity. Qed.

Print Assumptions C02_inv.
Print Assumptions C02_membership_empty.
Print Assumptions set_xor_spec.
