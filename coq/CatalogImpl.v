(* CatalogImpl.v — the Catalog AS THE CODE HAS IT (v4/collection/catalog.go, current tree, i.e. after
   the fix: commits 0d7f9f0, a628294, 5269313): two structures over a heap of mutable association objects.

     catalog_.associations_  ListLike[AssociationLike[K,V]]   ordered list of POINTERS   -> [c_assocs : list id]
     catalog_.keys_          map[K]AssociationLike[K,V]       key -> the same pointer     -> [c_keys : list (K * id)]
     association_{key_, value_}  (association.go; SetValue mutates value_)              -> a heap cell

   Heap: a partial function id -> option (key * value), [h_get]; the ids are handed out by a counter
   ([h_alloc]: the next id is the number of cells allocated so far).  It is represented by the list of
   its cells (cell i = the object with id i), so that the machine runs under vm_compute and states print.
   A Go map keyed by K is a finite map under Go's "==" ([keq]): Coll.v's [a_get] / [a_set] / [a_remove]
   at value type [id] are lookup "m[k]" / assignment "m[k] = x" / "delete(m, k)".
   A nil dereference (reading an id that is not allocated) is [Panic]; the one loop of catalog.go that is
   not a bounded iteration over a snapshot by construction (RemoveValue's search) carries fuel, out of
   fuel = [Hang].  Definitions only; the proofs are in CatalogProofs.v. *)
From Verif Require Import Base Sorter Seq Coll.

Section CatalogImpl.
Variables K V : Type.
Variable vzero : V.                         (* Go's zero value of V *)
Variable keq : K -> K -> bool.              (* Go's "==" on K *)

Definition id := nat.
Definition heap := list (K * V).
Definition h_get (h : heap) (i : id) : option (K * V) := nth_error h i.
(* Association.Make(key, value): a new object *)
Definition h_alloc (h : heap) (k : K) (v : V) : heap * id := (h ++ [(k, v)], length h).
(* association.SetValue(value): the key of an association never changes *)
Definition h_set_value (h : heap) (i : id) (v : V) : heap :=
  match h_get h i with Some (k, _) => set_nth i (k, v) h | None => h end.

Record cat := { c_assocs : list id; c_keys : list (K * id) }.

(* read a Go array of association pointers: GetKey()/GetValue() on each *)
Fixpoint read_all (h : heap) (ids : list id) : out (list (K * V)) :=
  match ids with
  | [] => Ret []
  | i :: t => match h_get h i with
              | Some kv => out_map (cons kv) (read_all h t)
              | None => Panic
              end
  end.

(* Make() *)
Definition c_make : cat := {| c_assocs := []; c_keys := [] |}.

(* GetValue(key) *)
Definition c_get_value (h : heap) (c : cat) (k : K) : out V :=
  match a_get keq (c_keys c) k with
  | Some i => match h_get h i with Some (_, v) => Ret v | None => Panic end
  | None => Ret vzero
  end.

(* SetValue(key, value) *)
Definition c_set_value (h : heap) (c : cat) (k : K) (v : V) : out (heap * cat) :=
  match a_get keq (c_keys c) k with
  | Some i =>                                        (* association.SetValue(value) *)
    match h_get h i with Some _ => Ret (h_set_value h i v, c) | None => Panic end
  | None =>
    let '(h', i) := h_alloc h k v in                 (* Association.Make(key, value) *)
    Ret (h', {| c_assocs := c_assocs c ++ [i];       (* associations_.AppendValue(association) *)
                c_keys := a_set keq (c_keys c) k i |})   (* keys_[key] = association *)
  end.

(* GetKeys(): iterate over associations_, GetKey() of each *)
Definition c_get_keys (h : heap) (c : cat) : out (list K) := out_map (map fst) (read_all h (c_assocs c)).

(* GetValues(keys) *)
Fixpoint c_get_values (h : heap) (c : cat) (ks : list K) : out (list V) :=
  match ks with
  | [] => Ret []
  | k :: t => out_bind (c_get_value h c k) (fun v => out_map (cons v) (c_get_values h c t))
  end.

(* the search of RemoveValue:
     var index int; for iterator.HasNext() { index++; if iterator.GetNext() == association { break } }
   "==" on two AssociationLike interface values holding pointers is pointer identity. *)
Fixpoint search_loop (fuel : nat) (it : iter id) (target : id) (index : nat) : out nat :=
  if has_next it then
    match fuel with
    | 0 => Hang
    | S f => let '(x, it') := get_next 0 it in
             if Nat.eqb x target then Ret (S index) else search_loop f it' target (S index)
    end
  else Ret index.

(* RemoveValue(key): (old value, new catalog); associations_.RemoveValue(index) is list.go's (Seq.remove_value:
   panics for index 0 / an empty list) *)
Definition c_remove_value (h : heap) (c : cat) (k : K) : out (V * cat) :=
  match a_get keq (c_keys c) k with
  | Some i =>
    out_bind (search_loop (S (length (c_assocs c))) (it_make (c_assocs c)) i 0) (fun index =>
    out_bind (remove_value 0 (c_assocs c) (Z.of_nat index)) (fun r =>
    match h_get h i with                              (* old = association.GetValue() *)
    | Some (_, v) => Ret (v, {| c_assocs := snd r; c_keys := a_remove keq (c_keys c) k |})   (* delete(keys_, key) *)
    | None => Panic
    end))
  | None => Ret (vzero, c)
  end.

(* RemoveValues(keys) *)
Fixpoint c_remove_values (h : heap) (c : cat) (ks : list K) : out (list V * cat) :=
  match ks with
  | [] => Ret ([], c)
  | k :: t => out_bind (c_remove_value h c k) (fun r =>
              out_map (fun r' : list V * cat => (fst r :: fst r', snd r')) (c_remove_values h (snd r) t))
  end.

(* RemoveAll() *)
Definition c_remove_all (c : cat) : cat := c_make.

Definition c_get_size (c : cat) : nat := length (c_assocs c).
Definition c_is_empty (c : cat) : bool := length (c_assocs c) =? 0.

(* AsArray(): associations_.AsArray() (a copy of the pointer array), then every pointer is replaced by a
   NEW association with the same key and value; the result is the array of the new pointers *)
Fixpoint copy_all (h : heap) (ids : list id) : out (heap * list id) :=
  match ids with
  | [] => Ret (h, [])
  | i :: t =>
    match h_get h i with
    | Some (k, v) => let '(h', j) := h_alloc h k v in
                     out_map (fun r : heap * list id => (fst r, j :: snd r)) (copy_all h' t)
    | None => Panic
    end
  end.
Definition c_as_array (h : heap) (c : cat) : out (heap * list id) := copy_all h (c_assocs c).
(* GetIterator(): Iterator.MakeFromArray(v.AsArray()) *)
Definition c_get_iterator (h : heap) (c : cat) : out (heap * iter id) :=
  out_map (fun r : heap * list id => (fst r, it_make (snd r))) (c_as_array h c).

(* the code BEFORE fix 5269313: the pointers themselves *)
Definition c_as_array_before_fix (h : heap) (c : cat) : out (heap * list id) := Ret (h, c_assocs c).

(* Sortable: the list of pointers is handed to the sorter; the ranking function looks at the objects *)
Definition rk_opt (rk : K * V -> K * V -> comparison) (a b : option (K * V)) : comparison :=
  match a, b with Some x, Some y => rk x y | _, _ => Eq end.
Definition rk_through (rk : K * V -> K * V -> comparison) (h : heap) (i j : id) : comparison :=
  rk_opt rk (h_get h i) (h_get h j).
Definition c_sort (rk : K * V -> K * V -> comparison) (h : heap) (c : cat) : cat :=
  {| c_assocs := sort_values (rk_through rk h) (c_assocs c); c_keys := c_keys c |}.
Definition c_reverse (c : cat) : cat := {| c_assocs := reverse_values (c_assocs c); c_keys := c_keys c |}.
Definition c_shuffle (rs : list nat) (c : cat) : cat := {| c_assocs := shuffle_values rs (c_assocs c); c_keys := c_keys c |}.

(* the loop shared by MakeFromSequence and Merge:
     for iterator.HasNext() { association := iterator.GetNext(); catalog.SetValue(association.GetKey(), association.GetValue()) }
   over an array of association pointers, each read at the moment it is reached *)
Fixpoint c_load (h : heap) (c : cat) (arr : list id) : out (heap * cat) :=
  match arr with
  | [] => Ret (h, c)
  | i :: t => match h_get h i with
              | Some (k, v) => out_bind (c_set_value h c k v) (fun r => c_load (fst r) (snd r) t)
              | None => Panic
              end
  end.
(* MakeFromSequence(associations) for a sequence whose iterator yields the pointers [arr]; MakeFromArray(array)
   wraps the Go array in an Array and calls MakeFromSequence *)
Definition c_from_sequence (h : heap) (arr : list id) : out (heap * cat) := c_load h c_make arr.
Definition c_from_array := c_from_sequence.
(* MakeFromMap(m): "for key, value := range m { catalog.SetValue(key, value) }"; [m] lists the Go map in
   the order the range statement visits it (an oracle) *)
Fixpoint c_set_all (h : heap) (c : cat) (kvs : list (K * V)) : out (heap * cat) :=
  match kvs with
  | [] => Ret (h, c)
  | (k, v) :: t => out_bind (c_set_value h c k v) (fun r => c_set_all (fst r) (snd r) t)
  end.
Definition c_from_map (h : heap) (m : list (K * V)) : out (heap * cat) := c_set_all h c_make m.

(* Merge(first, second): MakeFromSequence(first) — first.GetIterator() copies first's associations —
   then the same loop over second.GetIterator() *)
Definition c_merge (h : heap) (a b : cat) : out (heap * cat) :=
  out_bind (c_as_array h a) (fun r1 =>
  out_bind (c_from_sequence (fst r1) (snd r1)) (fun r2 =>
  out_bind (c_as_array (fst r2) b) (fun r3 =>
  c_load (fst r3) (snd r2) (snd r3)))).

(* Extract(catalog, keys): existing := map[K]V{} filled from catalog.GetIterator(); then for each key
   "value, exists := existing[key]; if exists { result.SetValue(key, value) }" *)
Fixpoint extract_fill (h : heap) (existing : list (K * V)) (arr : list id) : out (list (K * V)) :=
  match arr with
  | [] => Ret existing
  | i :: t => match h_get h i with
              | Some (k, v) => extract_fill h (a_set keq existing k v) t
              | None => Panic
              end
  end.
Fixpoint extract_loop (h : heap) (existing : list (K * V)) (result : cat) (ks : list K) : out (heap * cat) :=
  match ks with
  | [] => Ret (h, result)
  | k :: t => match a_get keq existing k with
              | Some v => out_bind (c_set_value h result k v) (fun r => extract_loop (fst r) existing (snd r) t)
              | None => extract_loop h existing result t
              end
  end.
Definition c_extract (h : heap) (c : cat) (ks : list K) : out (heap * cat) :=
  out_bind (c_as_array h c) (fun r1 =>
  out_bind (extract_fill (fst r1) [] (snd r1)) (fun existing =>
  extract_loop (fst r1) existing c_make ks)).

(* the code BEFORE fix 0d7f9f0: the position was looked up with the structural List.GetIndex
   (CompareValues of the list's collator on the association objects: [seq]) *)
Definition c_remove_value_before_fix (seq : K * V -> K * V -> bool) (h : heap) (c : cat) (k : K) : out (V * cat) :=
  match a_get keq (c_keys c) k with
  | Some i =>
    match h_get h i with
    | Some target =>
      out_bind (read_all h (c_assocs c)) (fun objs =>
      let index := get_index (fun x y => seq x y) objs target in
      out_bind (remove_value 0 (c_assocs c) (Z.of_nat index)) (fun r =>
      Ret (snd target, {| c_assocs := snd r; c_keys := a_remove keq (c_keys c) k |})))
    | None => Panic
    end
  | None => Ret (vzero, c)
  end.

(* ---------- the two-structure machine over histories ---------- *)
Inductive cop :=
| CSet (k : K) (v : V) | CRemove (k : K) | CClear
| CGet (k : K) | CKeys | CGetValues (ks : list K) | CRemoveValues (ks : list K)
| CSize | CAsArray | CIterate
| CSort (rk : K * V -> K * V -> comparison) | CReverse | CShuffle (rs : list nat).

(* what a call lets the caller observe *)
Inductive cobs :=
| BUnit | BVal (v : V) | BVals (l : list V) | BKeys (l : list K) | BSize (n : nat) | BPairs (l : list (K * V)).

(* drain an iterator over association pointers: HasNext()/GetNext(), GetKey()/GetValue() of each *)
Fixpoint drain (fuel : nat) (h : heap) (it : iter id) : out (list (K * V)) :=
  if has_next it then
    match fuel with
    | 0 => Hang
    | S f => let '(x, it') := get_next 0 it in
             match h_get h x with
             | Some kv => out_map (cons kv) (drain f h it')
             | None => Panic
             end
    end
  else Ret [].

Definition cstep (st : heap * cat) (o : cop) : out ((heap * cat) * cobs) :=
  let '(h, c) := st in
  match o with
  | CSet k v => out_map (fun r => (r, BUnit)) (c_set_value h c k v)
  | CRemove k => out_map (fun r : V * cat => ((h, snd r), BVal (fst r))) (c_remove_value h c k)
  | CClear => Ret ((h, c_remove_all c), BUnit)
  | CGet k => out_map (fun v => ((h, c), BVal v)) (c_get_value h c k)
  | CKeys => out_map (fun l => ((h, c), BKeys l)) (c_get_keys h c)
  | CGetValues ks => out_map (fun l => ((h, c), BVals l)) (c_get_values h c ks)
  | CRemoveValues ks => out_map (fun r : list V * cat => ((h, snd r), BVals (fst r))) (c_remove_values h c ks)
  | CSize => Ret ((h, c), BSize (c_get_size c))
  | CAsArray => out_bind (c_as_array h c) (fun r =>
                out_map (fun ps => ((fst r, c), BPairs ps)) (read_all (fst r) (snd r)))
  | CIterate => out_bind (c_get_iterator h c) (fun r =>
                out_map (fun ps => ((fst r, c), BPairs ps)) (drain (S (it_size (snd r))) (fst r) (snd r)))
  | CSort rk => Ret ((h, c_sort rk h c), BUnit)
  | CReverse => Ret ((h, c_reverse c), BUnit)
  | CShuffle rs => Ret ((h, c_shuffle rs c), BUnit)
  end.

Fixpoint crun (st : heap * cat) (ops : list cop) : out ((heap * cat) * list cobs) :=
  match ops with
  | [] => Ret (st, [])
  | o :: t => out_bind (cstep st o) (fun r =>
              out_map (fun r' : (heap * cat) * list cobs => (fst r', snd r :: snd r')) (crun (fst r) t))
  end.

(* the abstract machine: ONE association list (Coll.v section Assoc) *)
Definition sstep (m : list (K * V)) (o : cop) : list (K * V) * cobs :=
  match o with
  | CSet k v => (a_set keq m k v, BUnit)
  | CRemove k => (a_remove keq m k, BVal (a_get_or_zero vzero keq m k))
  | CClear => ([], BUnit)
  | CGet k => (m, BVal (a_get_or_zero vzero keq m k))
  | CKeys => (m, BKeys (map fst m))
  | CGetValues ks => (m, BVals (map (a_get_or_zero vzero keq m) ks))
  | CRemoveValues ks => let r := a_remove_all vzero keq m ks in (snd r, BVals (fst r))
  | CSize => (m, BSize (length m))
  | CAsArray => (m, BPairs m)
  | CIterate => (m, BPairs m)
  | CSort rk => (sort_values rk m, BUnit)
  | CReverse => (reverse_values m, BUnit)
  | CShuffle rs => (shuffle_values rs m, BUnit)
  end.
Fixpoint srun (m : list (K * V)) (ops : list cop) : list (K * V) * list cobs :=
  match ops with
  | [] => (m, [])
  | o :: t => let r := sstep m o in let r' := srun (fst r) t in (fst r', snd r :: snd r')
  end.

Definition cinit : heap * cat := ([], c_make).

End CatalogImpl.

Arguments h_get {K V}. Arguments h_alloc {K V}. Arguments h_set_value {K V}.
Arguments c_assocs {K}. Arguments c_keys {K}. Arguments Build_cat {K}.
Arguments read_all {K V}. Arguments c_make {K}. Arguments c_get_value {K V}. Arguments c_set_value {K V}.
Arguments c_get_keys {K V}. Arguments c_get_values {K V}. Arguments c_remove_value {K V}.
Arguments c_remove_values {K V}. Arguments c_remove_all {K}. Arguments c_get_size {K}. Arguments c_is_empty {K}.
Arguments copy_all {K V}. Arguments c_as_array {K V}. Arguments c_get_iterator {K V}. Arguments c_as_array_before_fix {K V}.
Arguments rk_opt {K V}. Arguments rk_through {K V}. Arguments c_sort {K V}. Arguments c_reverse {K}. Arguments c_shuffle {K}.
Arguments c_load {K V}. Arguments c_from_sequence {K V}. Arguments c_from_array {K V}. Arguments c_set_all {K V}.
Arguments c_from_map {K V}. Arguments c_merge {K V}. Arguments extract_fill {K V}. Arguments extract_loop {K V}.
Arguments c_extract {K V}. Arguments c_remove_value_before_fix {K V}.
Arguments CSet {K V}. Arguments CRemove {K V}. Arguments CClear {K V}. Arguments CGet {K V}. Arguments CKeys {K V}.
Arguments CGetValues {K V}. Arguments CRemoveValues {K V}. Arguments CSize {K V}. Arguments CAsArray {K V}.
Arguments CIterate {K V}. Arguments CSort {K V}. Arguments CReverse {K V}. Arguments CShuffle {K V}.
Arguments BUnit {K V}. Arguments BVal {K V}. Arguments BVals {K V}. Arguments BKeys {K V}. Arguments BSize {K V}. Arguments BPairs {K V}.
Arguments drain {K V}. Arguments cstep {K V}. Arguments crun {K V}. Arguments sstep {K V}. Arguments srun {K V}.
Arguments cinit {K V}.
