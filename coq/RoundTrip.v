(* RoundTrip.v — definitions for the composed CDCN round-trip theorem (property C10): what the
   parser builds from the text of a value ([canon]), the universe of values the theorem ranges
   over ([rt_ok]) and the oracle hypothesis on the two strconv float conversions
   ([floats_roundtrip]).  Definitions only; the proofs are in RoundTripLit.v (literal inverses),
   RoundTripLeaf.v, RoundTripScan.v, RoundTripDeriv.v and RoundTripProofs.v. *)
From Coq Require Import String Ascii.
From Verif Require Import Base Params Value Coll Formatter FormatSpec Lexer Literals Parser LexRender RoundTripLit.
Close Scope string_scope.
Open Scope Z_scope.

(* ---------- the two token vocabularies ---------- *)
(* the formatter's token types (FormatSpec.ttype) as the scanner's (Lexer.ttype); "..." is no
   token of the grammar: the scanner reports the first dot as an Error token *)
Definition lty (t : FormatSpec.ttype) : Lexer.ttype :=
  match t with
  | FormatSpec.TBoolean => Lexer.TBoolean
  | FormatSpec.TComplex => Lexer.TComplex
  | FormatSpec.TDelimiter => Lexer.TDelimiter
  | FormatSpec.TEOL => Lexer.TEOL
  | FormatSpec.TFloat => Lexer.TFloat
  | FormatSpec.THexadecimal => Lexer.THexadecimal
  | FormatSpec.TInteger => Lexer.TInteger
  | FormatSpec.TNil => Lexer.TNil
  | FormatSpec.TRune => Lexer.TRune
  | FormatSpec.TSpace => Lexer.TSpace
  | FormatSpec.TString => Lexer.TString
  | FormatSpec.TType => Lexer.TType
  | FormatSpec.TElision => Lexer.TError
  end.
Definition conv (t : ftoken) : rtok := (lty (tk_type t), tk_text t).
Definition convs (ts : list ftoken) : list rtok := map conv ts.

(* the visible tokens of a rendering as parser tokens (any line and position: derivations do
   not look at them) *)
Definition mk (x : rtok) : token := mkTok (fst x) (rename (snd x)) 0 0.
Definition vis (ts : list ftoken) : list token := map mk (filter visible (convs ts)).

(* ---------- what the parser builds ---------- *)
(* literals: every integer comes back as int64, every unsigned number as uint64, floats as
   float64, complex numbers as complex128 (their collator oracle fields are not part of the
   text: 0, as Literals.literal_value leaves them) *)
Definition canon_leaf (v : val) : val :=
  match v with
  | VInt _ z => VInt 64 z
  | VUint _ z => VUint 64 z
  | VByte z => VUint 64 z
  | VFloat _ b => VFloat 64 b
  | VComplex _ re im _ _ => VComplex 128 re im 0 0
  | _ => v
  end.

(* well-formed literal values of the round-trip universe: the number fits its Go type, the rune
   is a valid Unicode code point (QuoteRune writes U+FFFD for any other), the string is a list
   of bytes.  Floats and complex numbers: see floats_roundtrip. *)
Definition leaf_ok (v : val) : bool :=
  match v with
  | VNil | VBool _ | VFloat _ _ | VComplex _ _ _ _ _ => true
  | VInt _ z => (min_int64 <=? z) && (z <=? max_int64)
  | VUint _ z | VByte z => (0 <=? z) && (z <? two64)
  | VRune r => Formatter.valid_rune r
  | VStr s => forallb is_byte s
  | _ => false
  end.

(* keys that are pairwise different for Go's == ([seen] = the keys before them) *)
Fixpoint fresh_keys (seen ks : list val) : bool :=
  match ks with
  | [] => true
  | k :: t => negb (existsb (keq k) seen) && fresh_keys (k :: seen) t
  end.

Section Canon.
Variable crank : val -> val -> option comparison.   (* the collator ranking used by (Set) *)

(* Go slices come back as Arrays, Go maps as Maps, a Set in the order its constructor gives the
   members (Parser.set_build: binary-search insertion under [crank]); Lists, Stacks, Queues,
   Catalogs and Maps keep the order of the text *)
Fixpoint canon (v : val) {struct v} : val :=
  match v with
  | VSeq k l =>
      let l' := map canon l in
      match k with
      | KSlice | KArray => VSeq KArray l'
      | KSet => VSeq KSet (match set_build crank [] l' with Some s => s | None => l' end)
      | _ => VSeq k l'
      end
  | VNilSlice => VSeq KArray []
  | VNilMap => VMapping MMap [] []
  | VMapping k ks vs =>
      VMapping (match k with MCatalog => MCatalog | _ => MMap end) (map canon_leaf ks) (map canon vs)
  | VAssoc k x => VAssoc (canon_leaf k) (canon x)
  | _ => canon_leaf v
  end.

(* the same without re-ordering Sets *)
Fixpoint canon_keep (v : val) {struct v} : val :=
  match v with
  | VSeq k l => VSeq (match k with KSlice => KArray | _ => k end) (map canon_keep l)
  | VNilSlice => VSeq KArray []
  | VNilMap => VMapping MMap [] []
  | VMapping k ks vs =>
      VMapping (match k with MCatalog => MCatalog | _ => MMap end) (map canon_leaf ks) (map canon_keep vs)
  | VAssoc k x => VAssoc (canon_leaf k) (canon_keep x)
  | _ => canon_leaf v
  end.

(* the Set constructor does not panic (collator depth limit) on the members of this Set *)
Definition set_builds (k : skind) (l : list val) : bool :=
  match k with
  | KSet => match set_build crank [] l with Some _ => true | None => false end
  | _ => true
  end.
(* a value in VALUE position (an item of a sequence, the value of an association): an intrinsic
   literal or a collection of such values; associations only as the entries of a Catalog / Map
   (inside another sequence the parser merges them by key); the keys of a Catalog / Map are
   intrinsic literals that are still pairwise different after the round trip (int8(5) and
   int16(5) are two keys for Go and one key once both have come back as int64) *)
Fixpoint rt_val (v : val) {struct v} : bool :=
  match v with
  | VSeq k l => forallb rt_val l && set_builds k (map canon l)
  | VNilSlice | VNilMap => true
  | VMapping _ ks vs =>
      (length ks =? length vs)%nat && forallb leaf_ok ks && forallb rt_val vs
      && fresh_keys [] (map canon_leaf ks)
  | VAssoc _ _ | VPtr _ _ => false
  | _ => leaf_ok v
  end.

(* every Set lists its members in the order the Set constructor gives them: building the Set
   from the (canonical) members in the listed order leaves the list as it is.  (The model of a
   Set value carries the members in collator order.  A Set whose order depends on a type name
   the round trip changes — uint8 "byte" / "unsigned", Go slice "array" / Array — does not
   satisfy this: fixes/known-set-order-depends-on-width.json.) *)
Fixpoint sets_sorted (v : val) {struct v} : Prop :=
  match v with
  | VSeq k l => fold_right (fun x P => sets_sorted x /\ P) True l
                /\ (k = KSet -> set_build crank [] (map canon l) = Some (map canon l))
  | VMapping _ _ vs => fold_right (fun x P => sets_sorted x /\ P) True vs
  | VAssoc _ x => sets_sorted x
  | _ => True
  end.

(* THE ROUND-TRIP UNIVERSE: a collection (ParseSource accepts collections only) within the
   formatter's depth limit, made of well-formed values *)
Definition rt_ok (maximum : nat) (v : val) : bool :=
  is_collection v && rt_val v && (nest_depth v <=? maximum)%nat.
End Canon.

(* the canonical dynamic types: what the parser produces, so that nothing changes *)
Definition canonical_leaf (v : val) : bool :=
  match v with
  | VNil | VBool _ | VRune _ | VStr _ => true
  | VInt w _ | VUint w _ | VFloat w _ => w =? 64
  | VComplex w _ _ ab ph => (w =? 128) && (ab =? 0) && (ph =? 0)
  | _ => false
  end.
Fixpoint canonical (v : val) {struct v} : bool :=
  match v with
  | VSeq k l => negb (skind_eqb k KSlice) && forallb canonical l
  | VMapping k ks vs => negb (mkind_eqb k MGoMap) && forallb canonical_leaf ks && forallb canonical vs
  | VAssoc k x => canonical_leaf k && canonical x
  | _ => canonical_leaf v
  end.

(* ---------- the oracle hypothesis on floats ---------- *)
Section Floats.
Variable fparse : list Z -> option Z.    (* strconv.ParseFloat(text, 64): bits, None = error *)
Variable ftext : Z -> list Z.            (* strconv.FormatFloat(f, 'G', -1, 64) of the float with these bits *)

(* for the float with these bits: Go's %G text has the %G shape, and ParseFloat gives the bits
   back from what formatFloat makes of it.  The C10 harness checks exactly this on every float
   of every generated value (ParseFloat(FormatFloat(f)) == f; g_shape by Coq per oracle entry) *)
Definition float_rt (b : Z) : bool :=
  g_shape (ftext b) && match fparse (fix_float (ftext b)) with Some x => x =? b | None => false end.
(* the imaginary part: printed after a "+" when it is >= 0; otherwise its own minus sign is the
   separator, the scanner hands the parser the text behind it, and the parser negates *)
Definition imag_rt (im : Z) : bool :=
  if f_nonneg im then float_rt im
  else match ftext im with
       | c :: r => (c =? 45) && g_shape_abs r &&
                   match fparse (fix_float r) with Some x => fneg x =? im | None => false end
       | [] => false
       end.
Definition leaf_floats (v : val) : bool :=
  match v with
  | VFloat _ b => float_rt b
  | VComplex _ re im _ _ => float_rt re && imag_rt im
  | _ => true
  end.
Fixpoint floats_roundtrip (v : val) {struct v} : bool :=
  match v with
  | VSeq _ l => forallb floats_roundtrip l
  | VAssoc k x => leaf_floats k && floats_roundtrip x
  | VMapping _ ks vs => forallb leaf_floats ks && forallb floats_roundtrip vs
  | _ => leaf_floats v
  end.
End Floats.

(* what may follow a value in formatter output: "]", a newline or ":" *)
Definition follow (r : list Z) : Prop :=
  match r with c :: _ => c = 93 \/ c = 10 \/ c = 58 | [] => False end.
