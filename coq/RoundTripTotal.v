(* RoundTripTotal.v — FormatValue accepts every value of the round-trip universe: for rt_val v the
   token view exists (no pointer, every key an intrinsic), so format0 returns a text. *)
From Coq Require Import String Ascii.
From Verif Require Import Base Params Value Coll Formatter FormatSpec FormatProofs.
From Verif Require Lexer Literals Parser LexRender RoundTripLit.
From Verif Require Import RoundTrip.
From Verif Require RoundTripProofs.
Close Scope string_scope.
Open Scope Z_scope.

Section Total.
Variable crank : val -> val -> option comparison.
Variable ftext : Z -> list Z.
Variable printable : Z -> bool.
Variable maximum : nat.
Notation tokens_at := (tokens_at ftext printable maximum).
Notation leaf_token := (leaf_token ftext printable).
Notation rt_val := (rt_val crank).

Definition GT (v : val) : Prop := forall d n, rt_val v = true -> exists ts, tokens_at d n v = Some ts.

Lemma leaf_ok_token k : leaf_ok k = true -> exists t, leaf_token k = Some t.
Proof. destruct k; try discriminate; intros _; eexists; reflexivity. Qed.

Lemma tassoc_T k x d n : GT x -> leaf_ok k = true -> rt_val x = true ->
  exists ts, tassoc ftext printable tokens_at d n k x = Some ts.
Proof.
  intros Gx Hk Hx. unfold tassoc. destruct (leaf_ok_token k Hk) as [kt ->]. destruct (Gx d n Hx) as [vt ->]. eexists; reflexivity.
Qed.

Lemma tlines_T l : Forall GT l -> forall d n, forallb rt_val l = true -> exists b, tlines tokens_at d n l = Some b.
Proof.
  induction 1 as [|x t Gx Gt IH]; intros d n Hl; [eexists; reflexivity|].
  cbn [forallb] in Hl. apply andb_true_iff in Hl as [Hx Ht]. cbn [tlines].
  destruct (Gx d n Hx) as [a ->]. destruct (IH d n Ht) as [b ->]. eexists; reflexivity.
Qed.

Lemma talines_T vs : Forall GT vs -> forall ks d n, length ks = length vs ->
  forallb leaf_ok ks = true -> forallb rt_val vs = true ->
  exists b, talines ftext printable tokens_at d n ks vs = Some b.
Proof.
  induction 1 as [|x t Gx Gt IH]; intros ks d n Hl Hk Hv; [eexists; reflexivity|].
  destruct ks as [|k ks']; [discriminate|]. cbn [forallb] in Hk, Hv.
  apply andb_true_iff in Hk as [Hk Hks]. apply andb_true_iff in Hv as [Hx Ht]. cbn [talines hd tl].
  destruct (tassoc_T k x d n Gx Hk Hx) as [a ->]. destruct (IH ks' d n ltac:(simpl in Hl; lia) Hks Ht) as [b ->].
  eexists; reflexivity.
Qed.

Lemma titems_T l : Forall GT l -> forall d n, forallb rt_val l = true -> exists b, titems maximum tokens_at d n l = Some b.
Proof.
  intros Gl d n Hl. unfold titems. destruct (maximum <? n)%nat; [eexists; reflexivity|].
  destruct l as [|x [|y t]]; [eexists; reflexivity| |].
  - inversion Gl as [|? ? Gx _]; subst. cbn [forallb] in Hl. apply andb_true_iff in Hl as [Hx _]. apply (Gx d n Hx).
  - destruct (tlines_T _ Gl (S d) n Hl) as [b ->]. eexists; reflexivity.
Qed.

Lemma tentries_T vs : Forall GT vs -> forall ks d n, length ks = length vs ->
  forallb leaf_ok ks = true -> forallb rt_val vs = true ->
  exists b, tentries ftext printable maximum tokens_at d n ks vs = Some b.
Proof.
  intros Gl ks d n Hl Hk Hv. unfold tentries. destruct (maximum <? n)%nat; [eexists; reflexivity|].
  destruct vs as [|x [|y t]]; [eexists; reflexivity| |].
  - destruct ks as [|k [|k2 ks']]; try discriminate. inversion Gl as [|? ? Gx _]; subst.
    cbn [forallb] in Hk, Hv. apply andb_true_iff in Hk as [Hk _]. apply andb_true_iff in Hv as [Hx _].
    cbn [hd]. apply (tassoc_T k x d n Gx Hk Hx).
  - destruct (talines_T _ Gl ks (S d) n Hl Hk Hv) as [b ->]. eexists; reflexivity.
Qed.

Theorem tokens_exist : forall v, GT v.
Proof.
  induction v as [ | | | bo | w z | w z | z | z | w bits | w re im ab ph | s | i x | kd l IHl | key x IHkey IHx | kd ks vs IHks IHvs ] using val_ind2;
    intros d n H; try discriminate; try (eexists; reflexivity).
  - cbn [FormatSpec.tokens_at]. destruct (titems_T [] (Forall_nil _) d (S n) eq_refl) as [b ->]. eexists; reflexivity.
  - cbn [FormatSpec.tokens_at]. destruct (tentries_T [] (Forall_nil _) [] d (S n) eq_refl eq_refl eq_refl) as [b ->]. eexists; reflexivity.
  - cbn [RoundTrip.rt_val] in H. apply andb_true_iff in H as [Hl _]. cbn [FormatSpec.tokens_at].
    destruct (titems_T l IHl d (S n) Hl) as [b ->]. eexists; reflexivity.
  - cbn [RoundTrip.rt_val] in H. apply andb_true_iff in H as [H _]. apply andb_true_iff in H as [H Hv].
    apply andb_true_iff in H as [Hl Hk]. apply Nat.eqb_eq in Hl. cbn [FormatSpec.tokens_at].
    destruct (tentries_T vs IHvs ks d (S n) Hl Hk Hv) as [b ->]. eexists; reflexivity.
Qed.

(* FormatValue returns a text for every value of the universe *)
Theorem format0_accepts v : rt_val v = true -> exists text, format0 ftext printable maximum v = Ret text.
Proof.
  intros H. rewrite format0_tokens. unfold tokens_of. destruct (tokens_exist v 0%nat 0%nat H) as [ts ->].
  eexists; reflexivity.
Qed.
End Total.

(* ParseSource(FormatValue(v)) succeeds and gives canon v *)
Theorem round_trip_total fparse crank ftext printable maximum v :
  rt_ok crank maximum v = true -> floats_roundtrip fparse ftext v = true ->
  exists text, format0 ftext printable maximum v = Ret text /\
               Parser.parse_source fparse crank text = Parser.PValue (canon crank v).
Proof.
  intros Hok Fl. destruct (RoundTripProofs.rt_ok_inv crank maximum v Hok) as (_ & Hv & _).
  destruct (format0_accepts crank ftext printable maximum v Hv) as [text Ht].
  exists text. split; [exact Ht|]. exact (RoundTripProofs.round_trip fparse crank ftext printable maximum v text Hok Fl Ht).
Qed.
