(* GrammarLit.v — the literal forms of GrammarText.v: (1) the MEANING of every form — the value
   Literals.literal_value (the model of parseIntrinsic: strconv.ParseInt / ParseUint /
   ParseFloat / UnquoteChar / Unquote) gives to the text is the value [lit_value] states for the
   form; (2) every well-formed literal text, followed by a separator, is picked by the scanner
   as exactly that token; (3) emitToken's renaming leaves it alone. *)
From Coq Require Import String Ascii.
From Verif Require Import Base Params Value Coll Lexer Literals Parser LexerProofs LexBridge LexBridge2 LexBridge3 LiteralProofs.
From Verif Require AssocProofs2.
From Verif Require Import ParserProofs Complete StripInv LexRender RoundTripLeaf GrammarText.
Close Scope string_scope.
Open Scope Z_scope.

(* ---------- digits ---------- *)
Lemma ordinalb_inv ds : ordinalb ds = true ->
  exists d t, ds = d :: t /\ is_nz d = true /\ forallb is_digit t = true.
Proof. destruct ds as [|d t]; [discriminate|]. cbn [ordinalb]. intros H. apply andb_true_iff in H. exists d, t. tauto. Qed.

Lemma is_nz_is_digit d : is_nz d = true -> is_digit d = true.
Proof.
  unfold is_nz, is_digit. intros H. apply andb_true_iff in H as [A B]. apply Z.leb_le in A.
  apply andb_true_iff. split; [apply Z.leb_le; lia|exact B].
Qed.

Lemma ordinalb_digits ds : ordinalb ds = true -> ds <> [] /\ all_digits ds = true.
Proof.
  intros H. destruct (ordinalb_inv ds H) as (d & t & -> & Hd & Ht). split; [discriminate|].
  unfold all_digits. cbn [forallb]. rewrite (is_nz_is_digit d Hd), Ht. reflexivity.
Qed.

Lemma int_text_of s ds : ordinalb ds = true -> int_text (sign_text s ++ ds).
Proof.
  intros H. destruct (ordinalb_inv ds H) as (d & t & -> & Hd & Ht). right. exists (sign_text s), d, t.
  split; [destruct s; auto|]. auto.
Qed.

Lemma is_hex_hexval c : is_hex c = true -> exists x, hexval c = Some x.
Proof.
  unfold is_hex, hexval. intros H. destruct (is_digit c); [eexists; reflexivity|]. cbn [orb] in H. rewrite H. eexists; reflexivity.
Qed.
Lemma hex_val_some hs : forallb is_hex hs = true -> forall a, exists v, hex_val a hs = Some v.
Proof.
  induction hs as [|c t IH]; intros H a; [eexists; reflexivity|]. cbn [forallb] in H. apply andb_true_iff in H as [Hc Ht].
  destruct (is_hex_hexval c Hc) as [x Ex]. cbn [hex_val]. rewrite Ex. apply IH, Ht.
Qed.

(* ---------- floats ---------- *)
Lemma wf_float_text f : wf_float f = true -> float_text (gfloat_text f).
Proof.
  unfold wf_float. intros H. apply andb_true_iff in H as [H He]. apply andb_true_iff in H as [H Hfd].
  apply andb_true_iff in H as [Hi Hfn].
  exists (sign_text (gf_sign f)), (gf_int f), (gf_frac f), (gexp_text (gf_exp f)).
  split; [destruct (gf_sign f); auto|]. split; [|split; [|reflexivity]].
  - split; [|split; [|exact Hfd]].
    + apply orb_true_iff in Hi as [Hi|Hi].
      * left. apply AssocProofs2.list_eqb_Z_eq in Hi. exact Hi.
      * right. destruct (ordinalb_inv _ Hi) as (d & t & E & Hd & Ht). exists d, t. auto.
    + destruct (gf_frac f); [discriminate|discriminate].
  - destruct (gf_exp f) as [[[letter minus] ds]|]; [|left; reflexivity].
    apply andb_true_iff in He as [Hl Ho]. destruct (ordinalb_inv _ Ho) as (d & t & -> & Hd & Ht).
    right. exists letter, (if minus then 45 else 43), d, t. repeat split; auto. destruct minus; reflexivity.
Qed.

(* the value of a complex token: both groups through ParseFloat, the imaginary part negated for a
   "-" separator *)
Lemma complex_value_split fparse f1 s f2 : float_text f1 -> is_sign s = true -> float_text f2 ->
  complex_value fparse (40 :: f1 ++ s :: f2 ++ [105; 41]) =
  match fparse f1, fparse f2 with
  | Some re, Some im => Some (re, if s =? 45 then fneg im else im)
  | _, _ => None
  end.
Proof.
  intros F1 Hs F2. unfold complex_value.
  rewrite (m_complex_parts_text f1 s f2 [] F1 Hs F2).
  cbn [skipn]. rewrite firstn_app_length.
  replace (nth (1 + length f1) (40 :: f1 ++ s :: f2 ++ [105; 41]) 0) with s
    by (cbn [Nat.add nth]; rewrite app_nth2 by lia; rewrite Nat.sub_diag; reflexivity).
  replace (skipn (2 + length f1) (40 :: f1 ++ s :: f2 ++ [105; 41])) with (f2 ++ [105; 41]).
  2:{ change (skipn (2 + length f1) (40 :: f1 ++ s :: f2 ++ [105; 41])) with (skipn (S (length f1)) (f1 ++ s :: f2 ++ [105; 41])).
      replace (f1 ++ s :: f2 ++ [105; 41]) with ((f1 ++ [s]) ++ f2 ++ [105; 41]) by (rewrite <- app_assoc; reflexivity).
      replace (S (length f1)) with (length (f1 ++ [s])) by (rewrite app_length; cbn [length]; lia).
      rewrite skipn_app_length. reflexivity. }
  rewrite firstn_app_length. reflexivity.
Qed.

(* ---------- pieces of rune and string literals ---------- *)
Lemma hex_n_val : forall hs a tail, hex_n (length hs) a (hs ++ tail) = option_map (fun v => (v, tail)) (hex_val a hs).
Proof.
  induction hs as [|c t IH]; intros a tail; [reflexivity|]. cbn [length hex_n app hex_val].
  destruct (hexval c); [apply IH|reflexivity].
Qed.

Lemma flat3_one p tail : flat3 [p] ++ tail =
  match p with PChar c => c :: tail | PEsc e => 92 :: e :: tail | PHex c hs => 92 :: c :: hs ++ tail end.
Proof. unfold flat3. cbn [flat_map]. rewrite app_nil_r. destruct p; reflexivity. Qed.

(* strconv.UnquoteChar on one piece: its value, or ErrSyntax exactly when the piece has none *)
Lemma uq_piece q p tail : q = 34 \/ q = 39 -> wf_piece q p = true ->
  unquote_char q (flat3 [p] ++ tail) =
  match piece_value q p with Some (v, mb) => Some (v, mb, tail) | None => None end.
Proof.
  intros Hq Hw. rewrite flat3_one. destruct p as [c|e|c hs].
  - cbn [wf_piece] in Hw. apply andb_true_iff in Hw as [Hw _]. apply andb_true_iff in Hw as [H1 H2].
    apply negb_true_iff in H1. apply negb_true_iff in H2.
    cbn [piece_value]. unfold unquote_char. rewrite H1. destruct (128 <=? c); [reflexivity|]. rewrite H2. reflexivity.
  - cbn [wf_piece piece_good] in Hw. apply is_simple_esc_cases in Hw.
    destruct Hq; subst q; decompose [or] Hw; subst e; reflexivity.
  - cbn [wf_piece] in Hw. pose proof (piece_hex_inv c hs Hw) as Hf.
    destruct Hf as [[-> [Hl Hh]]|[[-> [Hl Hh]]|[-> [Hl Hh]]]]; cbn [piece_value];
      destruct (hex_val_some hs Hh 0) as [v Ev]; rewrite Ev;
      pose proof (hex_n_val hs 0 tail) as Hn; rewrite Hl, Ev in Hn; cbn [option_map] in Hn;
      destruct Hq; subst q; unfold unquote_char; cbn -[hex_n Literals.valid_rune]; rewrite Hn; try reflexivity;
      destruct (Literals.valid_rune v); reflexivity.
Qed.

Lemma wf_piece_head p tail : wf_piece 34 p = true ->
  exists c t, flat3 [p] ++ tail = c :: t /\ (c =? 34) = false /\ (c =? 10) = false.
Proof.
  intros Hw. rewrite flat3_one. destruct p as [c|e|c hs]; [|eexists _, _; repeat split; reflexivity..].
  cbn [wf_piece] in Hw. apply andb_true_iff in Hw as [Hw Hc]. apply andb_true_iff in Hw as [H1 _].
  apply negb_true_iff in H1. exists c, tail. repeat split; auto.
  apply negb_true_iff in Hc. unfold is_control in Hc. apply orb_false_iff in Hc as [Hc _]. apply Z.ltb_ge in Hc.
  apply Z.eqb_neq. lia.
Qed.

Lemma flat3_cons p r : flat3 (p :: r) = flat3 [p] ++ flat3 r.
Proof. unfold flat3. cbn [flat_map]. rewrite app_nil_r. reflexivity. Qed.
Lemma flat3_one_len p : (1 <= length (flat3 [p]))%nat.
Proof. pose proof (flat3_one p []) as H. rewrite app_nil_r in H. rewrite H. destruct p; simpl; lia. Qed.

(* strconv.Unquote on a sequence of pieces *)
Lemma unq_pieces : forall ps fuel acc, forallb (wf_piece 34) ps = true -> (length (flat3 ps) < fuel)%nat ->
  unq_loop fuel (flat3 ps ++ [34]) acc = option_map (app acc) (pieces_bytes ps).
Proof.
  induction ps as [|p r IH]; intros fuel acc Hw Hf.
  - destruct fuel; [simpl in Hf; lia|]. simpl. rewrite app_nil_r. reflexivity.
  - cbn [forallb] in Hw. apply andb_true_iff in Hw as [Hp Hr].
    rewrite flat3_cons, <- app_assoc in *. destruct fuel as [|f]; [simpl in Hf; lia|].
    destruct (wf_piece_head p (flat3 r ++ [34]) Hp) as (c & t & E & H34 & H10).
    cbn [unq_loop]. rewrite E, H34, H10, <- E.
    rewrite (uq_piece 34 p _ (or_introl eq_refl) Hp). cbn [pieces_bytes].
    destruct (piece_value 34 p) as [[v mb]|]; [|reflexivity].
    rewrite IH; [|exact Hr|rewrite app_length in Hf; pose proof (flat3_one_len p); lia].
    destruct (pieces_bytes r); [|reflexivity]. cbn [option_map]. rewrite app_assoc. reflexivity.
Qed.

(* ---------- (1) THE MEANING of every literal form ---------- *)
Theorem lit_meaning fparse l : wf_lit l = true ->
  literal_value fparse (lit_type l) (lit_text l) = lit_value fparse l.
Proof.
  intros Hw. destruct l as [b| | |s ds|hs|f|f1 m f2|p|ps]; cbn [lit_type lit_text lit_value wf_lit] in *.
  - destruct b; reflexivity.
  - reflexivity.
  - reflexivity.
  - destruct (ordinalb_digits ds Hw) as [Hne Hd]. cbn [literal_value].
    destruct s; cbn [sign_text app].
    + rewrite (parse_int_unsigned ds Hne Hd). destruct (dec_val 0 ds <=? max_int64); reflexivity.
    + rewrite (parse_int_plus ds Hne Hd). destruct (dec_val 0 ds <=? max_int64); reflexivity.
    + rewrite (parse_int_minus ds Hne Hd). destruct (dec_val 0 ds <=? 9223372036854775808); reflexivity.
  - apply andb_true_iff in Hw as [Hne Hh]. destruct (hex_val_some hs Hh 0) as [v Ev]. cbn [literal_value].
    rewrite (parse_hex_meaning hs v); [|destruct hs; [discriminate|discriminate]|exact Ev].
    rewrite Ev. destruct (v <? two64); reflexivity.
  - reflexivity.
  - apply andb_true_iff in Hw as [H1 H2]. cbn [literal_value].
    rewrite (complex_value_split fparse (gfloat_text f1) (if m then 45 else 43) (gfloat_text f2)
               (wf_float_text f1 H1) ltac:(destruct m; reflexivity) (wf_float_text f2 H2)).
    destruct (fparse (gfloat_text f1)); [|reflexivity]. destruct (fparse (gfloat_text f2)); [|reflexivity].
    destruct m; reflexivity.
  - cbn [literal_value]. unfold rune_value. rewrite Z.eqb_refl.
    rewrite (uq_piece 39 p [39] (or_intror eq_refl) Hw).
    destruct (piece_value 39 p) as [[v mb]|]; reflexivity.
  - cbn [literal_value]. unfold string_value. rewrite Z.eqb_refl.
    rewrite (unq_pieces ps _ [] Hw); [|rewrite app_length; cbn [length]; lia].
    destruct (pieces_bytes ps); reflexivity.
Qed.

(* ---------- (2) every well-formed literal text is scanned as its token ---------- *)
Lemma wf_piece_good p : wf_piece 34 p = true -> piece_good p = true.
Proof.
  destruct p as [c|e|c hs]; auto. cbn [wf_piece piece_good]. intros Hw.
  apply andb_true_iff in Hw as [Hw Hc]. apply andb_true_iff in Hw as [H1 H2].
  unfold plain_char. rewrite H1, H2, andb_true_r. cbn [andb].
  apply negb_true_iff in Hc. unfold is_control in Hc. apply orb_false_iff in Hc as [Hc _]. apply Z.ltb_ge in Hc.
  apply negb_true_iff, Z.eqb_neq. lia.
Qed.

Lemma lit_scan l rest : wf_lit l = true -> scannable rest -> sep_start (render_toks rest) ->
  scannable (lit_tok l :: rest).
Proof.
  intros Hw Sc Sp. unfold lit_tok.
  destruct l as [b| | |s ds|hs|f|f1 m f2|p|ps]; cbn [lit_type lit_text wf_lit] in *.
  - destruct b; [apply sc_true|apply sc_false]; auto.
  - apply sc_nil_word; auto.
  - apply sc_integer; auto. left; reflexivity.
  - apply sc_integer; auto. apply int_text_of, Hw.
  - apply andb_true_iff in Hw as [Hne Hh]. apply sc_hex; auto. destruct hs; [discriminate|discriminate].
  - apply sc_float; auto. apply wf_float_text, Hw.
  - apply andb_true_iff in Hw as [H1 H2]. apply sc_complex; auto using wf_float_text. destruct m; reflexivity.
  - rewrite flat3_one. destruct p as [c|e|c hs].
    + cbn [wf_piece] in Hw. apply andb_true_iff in Hw as [Hw Hc]. apply andb_true_iff in Hw as [H1 H2].
      apply negb_true_iff in H1. apply negb_true_iff in H2. apply negb_true_iff in Hc.
      unfold is_control in Hc. apply orb_false_iff in Hc as [Hc _]. apply Z.ltb_ge in Hc.
      apply sc_rune_plain; auto; try (apply Z.eqb_neq; assumption). lia.
    + apply sc_rune_escape; auto.
    + cbn [wf_piece] in Hw. destruct (piece_hex_inv c hs Hw) as [[-> Hh]|[[-> Hh]|[-> Hh]]];
        [apply sc_rune_x|apply sc_rune_u|apply sc_rune_U]; auto.
  - apply sc_string; auto. apply forallb_forall. intros p Hp. apply wf_piece_good.
    rewrite forallb_forall in Hw. apply Hw, Hp.
Qed.

(* ---------- (3) the first character; renaming ---------- *)
Lemma lit_text_head l : wf_lit l = true -> exists c t, lit_text l = c :: t /\ 14 <= c.
Proof.
  intros Hw. destruct l as [b| | |s ds|hs|f|f1 m f2|p|ps]; cbn [lit_text wf_lit] in *;
    try (eexists _, _; split; [reflexivity|lia]).
  - destruct b; [exists 116, (zs "rue")|exists 102, (zs "alse")]; (split; [reflexivity|lia]).
  - exists 110, (zs "il"). split; [reflexivity|lia].
  - apply (int_text_head _ (int_text_of s ds Hw)).
  - apply (float_text_head _ (wf_float_text f Hw)).
Qed.
Lemma lit_rename l : wf_lit l = true -> rename (lit_text l) = lit_text l.
Proof. intros Hw. destruct (lit_text_head l Hw) as (c & t & -> & Hc). apply rename_id, Hc. Qed.
Lemma lit_is_lit l : is_lit (lit_type l) = true.
Proof. destruct l; reflexivity. Qed.
