(* Base.v — outcomes and small list helpers shared by every model file.
   No proofs of properties here: only definitions and a few structural lemmas. *)
From Coq Require Export List Arith ZArith Lia Bool.
Export ListNotations.

(* Outcome of a modelled call.  [Hang] exists because a loop of the code may
   fail to terminate (fuel exhausted in the code-shaped models); every theorem
   that speaks about results excludes it in its statement. *)
Inductive out (A : Type) := Ret (a : A) | Panic | Hang.
Arguments Ret {A} a.
Arguments Panic {A}.
Arguments Hang {A}.

Definition out_bind {A B} (o : out A) (f : A -> out B) : out B :=
  match o with Ret a => f a | Panic => Panic | Hang => Hang end.

Definition out_map {A B} (f : A -> B) (o : out A) : out B :=
  match o with Ret a => Ret (f a) | Panic => Panic | Hang => Hang end.

Definition is_ret {A} (o : out A) : bool :=
  match o with Ret _ => true | _ => false end.

(* replace position k (0-based); out of range: unchanged *)
Fixpoint set_nth {A} (k : nat) (v : A) (l : list A) : list A :=
  match l, k with
  | [], _ => []
  | _ :: t, 0 => v :: t
  | h :: t, S k' => h :: set_nth k' v t
  end.

(* remove position k (0-based); out of range: unchanged *)
Fixpoint remove_nth {A} (k : nat) (l : list A) : list A :=
  match l, k with
  | [], _ => []
  | _ :: t, 0 => t
  | h :: t, S k' => h :: remove_nth k' t
  end.

Lemma set_nth_length {A} k (v : A) l : length (set_nth k v l) = length l.
Proof. revert k; induction l as [|h t IH]; intros [|k]; simpl; auto. Qed.

Lemma remove_nth_length {A} k (l : list A) :
  k < length l -> length (remove_nth k l) = length l - 1.
Proof.
  revert k; induction l as [|h t IH]; intros [|k] H; simpl in *; try lia.
  rewrite IH by lia. lia.
Qed.

Fixpoint list_eqb {A} (eqb : A -> A -> bool) (a b : list A) : bool :=
  match a, b with
  | [], [] => true
  | x :: a', y :: b' => eqb x y && list_eqb eqb a' b'
  | _, _ => false
  end.

(* index (0-based) of the first element satisfying p *)
Fixpoint find_pos {A} (p : A -> bool) (l : list A) : option nat :=
  match l with
  | [] => None
  | x :: t => if p x then Some 0 else option_map S (find_pos p t)
  end.

Definition comparison_eqb (a b : comparison) : bool :=
  match a, b with Eq, Eq | Lt, Lt | Gt, Gt => true | _, _ => false end.
