(* C13.v — Stack is LIFO and never holds more values than its capacity
   Statements only: every theorem is closed by [exact] of a lemma proved elsewhere, and its
   axioms are printed.  Generated once by tools/mkprop.py from the proved lemmas' statements. 
   Round 2 (polish): an [Example] of non-vacuity beside every theorem with hypotheses (data in
   StackProofs2.v) and, from C13_histories_compose on, the stack discipline for arbitrary interleavings
   (frame rule, matching push), the top-to-bottom view, and the pool-level constructors/operations. *)
From Verif Require Import Base Sorter Value Seq Coll Pool PoolFrame StackProofs StackProofs2 PoolInv StackImpl StackImplProofs.
Local Open Scope nat_scope.

Theorem C13_never_exceeds_capacity :
  forall (A : Type) (cap : nat) (ops : list (kop A)) (l : list A),
         length l <= cap -> length (fst (krun A cap l ops)) <= cap.
Proof. exact C13_bound. Qed.

(* non-vacuity: a stack AT capacity (3 values, capacity 3; top = 3) and a 9-step history pushing past
   capacity and popping past empty *)
Example C13_never_exceeds_capacity_example :
  (length ex_stack <= 3)%nat /\
  krun Z 3 ex_stack ex_kops =
    ([7]%Z, [KPanic Z; KVal Z 3%Z; KUnit Z; KPanic Z; KVal Z 5%Z; KVal Z 2%Z; KVal Z 1%Z; KPanic Z; KUnit Z]) /\
  (length (fst (krun Z 3 ex_stack ex_kops)) <= 3)%nat.
Proof.
  split; [vm_compute; lia|]. split; [vm_compute; reflexivity|].
  apply C13_never_exceeds_capacity. vm_compute; lia.
Qed.

Theorem C13_push_on_full_panics_unchanged :
  forall (A : Type) (cap : nat) (l : list A) (v : A),
         length l = cap -> kstep A cap l (KPush A v) = (l, KPanic A).
Proof. exact C13_push_full_panics. Qed.

Example C13_push_on_full_panics_unchanged_example :
  length ex_stack = 3%nat /\ kstep Z 3 ex_stack (KPush Z 4%Z) = (ex_stack, KPanic Z).
Proof. split; reflexivity. Qed.

Theorem C13_push_adds_on_top :
  forall (A : Type) (cap : nat) (l : list A) (v : A),
         length l < cap -> kstep A cap l (KPush A v) = (v :: l, KUnit A).
Proof. exact C13_push_ok. Qed.

Example C13_push_adds_on_top_example :
  (length [2; 1]%Z < 3)%nat /\ kstep Z 3 [2; 1]%Z (KPush Z 9%Z) = ([9; 2; 1]%Z, KUnit Z).
Proof. split; [vm_compute; lia|reflexivity]. Qed.

Theorem C13_pop_on_empty_panics_unchanged :
  forall (A : Type) (cap : nat), kstep A cap [] (KPop A) = ([], KPanic A).
Proof. exact C13_pop_empty_panics. Qed.

Theorem C13_pop_returns_most_recent :
  forall (A : Type) (cap : nat) (l : list A) (v : A),
         kstep A cap (v :: l) (KPop A) = (l, KVal A v).
Proof. exact C13_pop_lifo. Qed.

Example C13_pop_returns_most_recent_example : kstep Z 3 ex_stack (KPop Z) = ([2; 1]%Z, KVal Z 3%Z).
Proof. reflexivity. Qed.

Theorem C13_push_then_pop :
  forall (A : Type) (cap : nat) (l : list A) (v : A),
         length l < cap -> krun A cap l [KPush A v; KPop A] = (l, [KUnit A; KVal A v]).
Proof. exact C13_push_pop. Qed.

Example C13_push_then_pop_example :
  (length [2; 1]%Z < 3)%nat /\ krun Z 3 [2; 1]%Z [KPush Z 9%Z; KPop Z] = ([2; 1]%Z, [KUnit Z; KVal Z 9%Z]).
Proof. split; [vm_compute; lia|reflexivity]. Qed.

Theorem C13_panic_leaves_unchanged :
  forall (A : Type) (cap : nat) (l : list A) (o : kop A) (l' : list A),
         kstep A cap l o = (l', KPanic A) -> l' = l.
Proof. exact C13_panic_frame. Qed.

Example C13_panic_leaves_unchanged_example :
  kstep Z 3 ex_stack (KPush Z 4%Z) = (ex_stack, KPanic Z) /\ kstep Z 3 [] (KPop Z) = ([], KPanic Z).
Proof. split; reflexivity. Qed.

Theorem C13_constructor_capacity_covers_size :
  forall (A : Type) (dflt : nat) (vs : list A), length vs <= Nat.max dflt (length vs).
Proof. exact C13_ctor_bound. Qed.

(* non-vacuity: 33 = 2*16+1 initial values (more than the default capacity 16): the constructor of the
   pool model gives capacity 33, not 16 *)
Example C13_constructor_capacity_covers_size_example :
  let d := default_stack_cap in
  build (VInt 0 0) CStack (repeat (VInt 0 5) (2 * d + 1)) = Ret (OStk (2 * d + 1) (repeat (VInt 0 5) (2 * d + 1))) /\
  build (VInt 0 0) CStack (repeat (VInt 0 5) 2) = Ret (OStk (Nat.max d 2) (repeat (VInt 0 5) 2)).
Proof. split; vm_compute; reflexivity. Qed.

Theorem C13_histories_compose :
  forall (A : Type) (cap : nat) (ops1 ops2 : list (kop A)) (l : list A),
         krun A cap l (ops1 ++ ops2) =
         (fst (krun A cap (fst (krun A cap l ops1)) ops2),
          snd (krun A cap l ops1) ++ snd (krun A cap (fst (krun A cap l ops1)) ops2)).
Proof. exact krun_app. Qed.

Theorem C13_what_lies_below_is_never_touched :
  forall (A : Type) (ops : list (kop A)) (c : nat) (u l : list A),
         no_clear A ops ->
         ~ In (KPanic A) (snd (krun A c u ops)) ->
         krun A (c + length l) (u ++ l) ops = (fst (krun A c u ops) ++ l, snd (krun A c u ops)).
Proof. exact stack_frame_rule. Qed.

(* non-vacuity: the balanced interleaving ex_mid = push 8, push 9, pop, pop, push 10, pop needs capacity 2
   on its own; on top of the three values of ex_stack (capacity 2+3) it gives the same results *)
Example C13_what_lies_below_is_never_touched_example :
  no_clear Z ex_mid /\ ~ In (KPanic Z) (snd (krun Z 2 [] ex_mid)) /\
  krun Z 2 [] ex_mid = ([], [KUnit Z; KUnit Z; KVal Z 9%Z; KVal Z 8%Z; KUnit Z; KVal Z 10%Z]) /\
  krun Z (2 + length ex_stack) ([] ++ ex_stack) ex_mid = (fst (krun Z 2 [] ex_mid) ++ ex_stack, snd (krun Z 2 [] ex_mid)).
Proof.
  assert (NC : no_clear Z ex_mid) by (intros H; vm_compute in H; intuition discriminate).
  assert (NP : ~ In (KPanic Z) (snd (krun Z 2 [] ex_mid))) by (intros H; vm_compute in H; intuition discriminate).
  split; [exact NC|]. split; [exact NP|]. split; [vm_compute; reflexivity|].
  apply C13_what_lies_below_is_never_touched; assumption.
Qed.

Theorem C13_pop_returns_matching_push_for_every_interleaving :
  forall (A : Type) (c : nat) (mid : list (kop A)) (l : list A) (v : A),
         no_clear A mid ->
         ~ In (KPanic A) (snd (krun A c [] mid)) ->
         fst (krun A c [] mid) = [] ->
         krun A (c + S (length l)) l (KPush A v :: mid ++ [KPop A]) =
         (l, KUnit A :: snd (krun A c [] mid) ++ [KVal A v]).
Proof. exact pop_returns_matching_push. Qed.

(* non-vacuity: push 4, the interleaving ex_mid, pop — on the stack [3;2;1] with capacity 2+4: the last pop returns 4 *)
Example C13_pop_returns_matching_push_example :
  krun Z 6 ex_stack (KPush Z 4%Z :: ex_mid ++ [KPop Z]) =
    (ex_stack, [KUnit Z; KUnit Z; KUnit Z; KVal Z 9%Z; KVal Z 8%Z; KUnit Z; KVal Z 10%Z; KVal Z 4%Z]).
Proof. vm_compute; reflexivity. Qed.

Theorem C13_view_lists_top_to_bottom :
  forall (A : Type) (vs : list A) (cap : nat) (l : list A),
         length vs + length l <= cap ->
         krun A cap l (map (KPush A) vs) = (rev vs ++ l, map (fun _ : A => KUnit A) vs).
Proof. exact pushes_view. Qed.

Example C13_view_lists_top_to_bottom_example :
  krun Z 5 [1]%Z (map (KPush Z) [2; 3; 4]%Z) = ([4; 3; 2; 1]%Z, [KUnit Z; KUnit Z; KUnit Z]).
Proof. vm_compute; reflexivity. Qed.

Theorem C13_popping_everything_yields_top_to_bottom :
  forall (A : Type) (l : list A) (cap : nat),
         krun A cap l (repeat (KPop A) (S (length l))) = ([], map (KVal A) l ++ [KPanic A]).
Proof. exact pops_drain. Qed.

Theorem C13_pool_constructors_within_capacity :
  forall (zero : val) (l : list val),
         build zero CStack l = Ret (OStk (Nat.max default_stack_cap (length l)) l) /\
         length l <= Nat.max default_stack_cap (length l) /\
         default_stack_cap <= Nat.max default_stack_cap (length l).
Proof. exact pool_stack_constructors_within_capacity. Qed.

Theorem C13_pool_make_stack :
  forall (zero : val) (p : pool) (cap : nat),
         step zero p (MakeEmpty CStack) = (p ++ [OStk default_stack_cap []], RNew) /\
         (cap <> 0 -> step zero p (MakeCap CStack cap) = (p ++ [OStk cap []], RNew)) /\
         step zero p (MakeCap CStack 0) = (p, RPanic).
Proof. exact pool_make_stack. Qed.

Theorem C13_pool_stack_ops_are_the_stack_machine :
  forall (zero : val) (p : list obj) (o cap : nat) (l : list val) (v : val),
         o < length p ->
         get p o = OStk cap l ->
         (nth o (fst (step zero p (Push o v))) ODead = OStk cap (fst (kstep val cap l (KPush val v))) /\
          snd (step zero p (Push o v)) = kobs_ret (snd (kstep val cap l (KPush val v)))) /\
         (nth o (fst (step zero p (Pop o))) ODead = OStk cap (fst (kstep val cap l (KPop val))) /\
          snd (step zero p (Pop o)) = kobs_ret (snd (kstep val cap l (KPop val)))) /\
         (nth o (fst (step zero p (RemoveAll o))) ODead = OStk cap [] /\
          snd (step zero p (RemoveAll o)) = RUnit) /\
         snd (step zero p (GetCapacity o)) = RInt (Z.of_nat cap) /\ seq_plain (get p o) = Some l.
Proof. exact pool_stack_step. Qed.

(* non-vacuity at pool level: a stack built from a Go slice of two values with MakeFromArray (capacity 16),
   one with capacity 1 pushed twice (the second push panics and changes nothing) *)
Example C13_pool_example :
  run (VInt 0 0) [] [NewSlice [VInt 0 1; VInt 0 2]; FromArray CStack 0; Push 1 (VInt 0 3); Pop 1;
                     MakeCap CStack 1; Push 2 (VInt 0 7); Push 2 (VInt 0 8)] =
    [OSlice [VInt 0 1; VInt 0 2]; OStk (Nat.max default_stack_cap 2) [VInt 0 1; VInt 0 2]; OStk 1 [VInt 0 7]] /\
  snd (step (VInt 0 0) [OStk 1 [VInt 0 7]] (Push 0 (VInt 0 8))) = RPanic /\
  snd (step (VInt 0 0) [OStk 1 []] (Pop 0)) = RPanic.
Proof. repeat split; vm_compute; reflexivity. Qed.


(* Round 3: the pool-wide invariant as ONE theorem.  In every pool reachable by ANY history (all 80 ops of the
   pool machine: constructors of every kind, class functions, every method of every collection, caller-side
   writes, iterators) from the empty pool, every stack holds at most as many values as its capacity. *)
Theorem C13_pool_invariant :
  forall (zero : val) (ops : list op) (i cap : nat) (l : list val),
  nth i (run zero [] ops) ODead = OStk cap l -> length l <= cap.
Proof. exact pool_invariant. Qed.

(* ... and from any pool that satisfies it (pool_ok p := every OStk cap l of p has length l <= cap) *)
Theorem C13_pool_invariant_is_inductive :
  forall (zero : val) (ops : list op) (p : pool), pool_ok p -> pool_ok (run zero p ops).
Proof. exact run_pool_ok. Qed.

(* non-vacuity: a history that builds stacks in every possible way (Make, MakeWithCapacity, MakeFromArray of one
   value more than the default capacity, MakeFromSequence of a stack), pushes past capacity, pops,
   clears; the stacks of the final pool with their capacities *)
Example C13_pool_invariant_example :
  let d := default_stack_cap in
  let ops := [NewSlice (map (fun n => VInt 0 (Z.of_nat n)) (seq 1 (S d))); FromArray CStack 0;
              MakeCap CStack 1; Push 2 (VInt 0 7); Push 2 (VInt 0 8); FromSeq CStack 2 []; MakeEmpty CStack;
              Push 4 (VInt 0 1); Push 1 (VInt 0 (-1)); Pop 1; RemoveAll 3] in
  map (fun o => match o with OStk cap l => Some (cap, length l) | _ => None end) (run (VInt 0 0) [] ops) =
    [None; Some (S d, d); Some (1, 1); Some (d, 0); Some (d, 1)] /\
  pool_ok (run (VInt 0 0) [] ops).
Proof. split; [vm_compute; reflexivity|]. apply C13_pool_invariant_is_inductive. constructor. Qed.

(* Round 3: stack.go's own shape (StackImpl.v: a capacity and a List; AddValue = capacity test + InsertValue(0, v),
   RemoveTop = IsEmpty test + RemoveValue(1), through the List methods of Seq.v) IS the stack machine above, for
   every history; so the code-shaped stack never exceeds its capacity *)
Theorem C13_impl_stack_over_list_is_the_stack_machine :
  forall (A : Type) (zero : A) (ops : list (kop A)) (s : stk A),
  irun A zero s ops =
  ({| s_cap := s_cap s; s_values := fst (krun A (s_cap s) (s_values s) ops) |}, snd (krun A (s_cap s) (s_values s) ops)).
Proof. exact irun_is_krun. Qed.

Theorem C13_impl_never_exceeds_capacity :
  forall (A : Type) (zero : A) (ops : list (kop A)) (s : stk A),
  length (s_values s) <= s_cap s ->
  length (s_values (fst (irun A zero s ops))) <= s_cap (fst (irun A zero s ops)) /\
  s_cap (fst (irun A zero s ops)) = s_cap s.
Proof. exact impl_never_exceeds_capacity. Qed.

Theorem C13_impl_constructors_within_capacity :
  forall (A : Type) (dflt : nat) (l : list A),
  length (s_values (s_make_from dflt l)) <= s_cap (s_make_from dflt l) /\
  s_cap (s_make_from dflt l) = Nat.max dflt (length l) /\
  s_values (s_make_from dflt l) = l /\
  s_make_with_capacity 0 = (Panic : out (stk A)) /\
  (forall cap : nat, cap <> 0 -> s_make_with_capacity cap = Ret {| s_cap := cap; s_values := ([] : list A) |}).
Proof. exact constructors_within_capacity. Qed.

Example C13_impl_example :
  length (s_values (s_make_from 3 ex_stack)) <= s_cap (s_make_from 3 ex_stack) /\
  irun Z 0%Z (s_make_from 3 ex_stack) ex_kops =
    ({| s_cap := 3; s_values := [7]%Z |},
     [KPanic Z; KVal Z 3%Z; KUnit Z; KPanic Z; KVal Z 5%Z; KVal Z 2%Z; KVal Z 1%Z; KPanic Z; KUnit Z]).
Proof. split; [vm_compute; lia|vm_compute; reflexivity]. Qed.

Print Assumptions C13_never_exceeds_capacity.
Print Assumptions C13_push_on_full_panics_unchanged.
Print Assumptions C13_push_adds_on_top.
Print Assumptions C13_pop_on_empty_panics_unchanged.
Print Assumptions C13_pop_returns_most_recent.
Print Assumptions C13_push_then_pop.
Print Assumptions C13_panic_leaves_unchanged.
Print Assumptions C13_constructor_capacity_covers_size.
Print Assumptions C13_histories_compose.
Print Assumptions C13_what_lies_below_is_never_touched.
Print Assumptions C13_pop_returns_matching_push_for_every_interleaving.
Print Assumptions C13_view_lists_top_to_bottom.
Print Assumptions C13_popping_everything_yields_top_to_bottom.
Print Assumptions C13_pool_constructors_within_capacity.
Print Assumptions C13_pool_make_stack.
Print Assumptions C13_pool_stack_ops_are_the_stack_machine.
Print Assumptions C13_pool_invariant.
Print Assumptions C13_pool_invariant_is_inductive.
Print Assumptions C13_impl_stack_over_list_is_the_stack_machine.
Print Assumptions C13_impl_never_exceeds_capacity.
Print Assumptions C13_impl_constructors_within_capacity.
