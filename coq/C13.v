(* C13.v — Stack is LIFO and never holds more values than its capacity
   Statements only: every theorem is closed by [exact] of a lemma proved elsewhere, and its
   axioms are printed.  Generated once by tools/mkprop.py from the proved lemmas' statements. *)
From Verif Require Import Base Seq Coll StackProofs.

Theorem C13_never_exceeds_capacity :
  forall (A : Type) (cap : nat) (ops : list (kop A)) (l : list A),
         length l <= cap -> length (fst (krun A cap l ops)) <= cap.
Proof. exact C13_bound. Qed.

Theorem C13_push_on_full_panics_unchanged :
  forall (A : Type) (cap : nat) (l : list A) (v : A),
         length l = cap -> kstep A cap l (KPush A v) = (l, KPanic A).
Proof. exact C13_push_full_panics. Qed.

Theorem C13_push_adds_on_top :
  forall (A : Type) (cap : nat) (l : list A) (v : A),
         length l < cap -> kstep A cap l (KPush A v) = (v :: l, KUnit A).
Proof. exact C13_push_ok. Qed.

Theorem C13_pop_on_empty_panics_unchanged :
  forall (A : Type) (cap : nat), kstep A cap [] (KPop A) = ([], KPanic A).
Proof. exact C13_pop_empty_panics. Qed.

Theorem C13_pop_returns_most_recent :
  forall (A : Type) (cap : nat) (l : list A) (v : A),
         kstep A cap (v :: l) (KPop A) = (l, KVal A v).
Proof. exact C13_pop_lifo. Qed.

Theorem C13_push_then_pop :
  forall (A : Type) (cap : nat) (l : list A) (v : A),
         length l < cap -> krun A cap l [KPush A v; KPop A] = (l, [KUnit A; KVal A v]).
Proof. exact C13_push_pop. Qed.

Theorem C13_panic_leaves_unchanged :
  forall (A : Type) (cap : nat) (l : list A) (o : kop A) (l' : list A),
         kstep A cap l o = (l', KPanic A) -> l' = l.
Proof. exact C13_panic_frame. Qed.

Theorem C13_constructor_capacity_covers_size :
  forall (A : Type) (dflt : nat) (vs : list A), length vs <= Nat.max dflt (length vs).
Proof. exact C13_ctor_bound. Qed.


Print Assumptions C13_never_exceeds_capacity.
Print Assumptions C13_push_on_full_panics_unchanged.
Print Assumptions C13_push_adds_on_top.
Print Assumptions C13_pop_on_empty_panics_unchanged.
Print Assumptions C13_pop_returns_most_recent.
Print Assumptions C13_push_then_pop.
Print Assumptions C13_panic_leaves_unchanged.
Print Assumptions C13_constructor_capacity_covers_size.
