(* StackProofs.v — C13: the bounded LIFO stack (stack.go), over an abstract element type. *)
From Verif Require Import Base Seq Coll.

Section StackProofs.
Variable A : Type.

Inductive kop := KPush (v : A) | KPop | KClear.
Inductive kobs := KUnit | KVal (v : A) | KPanic.
Definition kstep (cap : nat) (l : list A) (o : kop) : list A * kobs :=
  match o with
  | KPush v => match stack_push cap l v with Ret l' => (l', KUnit) | _ => (l, KPanic) end
  | KPop => match stack_pop l with Ret (v, l') => (l', KVal v) | _ => (l, KPanic) end
  | KClear => ([], KUnit)
  end.
Fixpoint krun (cap : nat) (l : list A) (ops : list kop) : list A * list kobs :=
  match ops with
  | [] => (l, [])
  | o :: rest => let '(l', ob) := kstep cap l o in let '(lf, obs) := krun cap l' rest in (lf, ob :: obs)
  end.
(* the abstract LIFO: an unbounded list of the values pushed and not yet popped, most recent first,
   where a push is refused exactly when [cap] values are held *)

Lemma kstep_bound : forall cap l o, length l <= cap -> length (fst (kstep cap l o)) <= cap.
Proof.
  intros cap l o H. destruct o as [v| |]; simpl.
  - unfold stack_push. destruct (length l =? cap) eqn:E; simpl.
    + exact H.
    + apply Nat.eqb_neq in E. lia.
  - destruct l as [|x t]; simpl in *; lia.
  - lia.
Qed.

(* never more values than the capacity, for every history *)
Theorem C13_bound : forall cap ops l, length l <= cap -> length (fst (krun cap l ops)) <= cap.
Proof.
  intros cap ops. induction ops as [|o rest IH]; intros l H.
  - simpl. exact H.
  - simpl. pose proof (kstep_bound cap l o H) as Hs.
    destruct (kstep cap l o) as [l' ob]. simpl in Hs.
    specialize (IH l' Hs).
    destruct (krun cap l' rest) as [lf obs]. simpl in *. exact IH.
Qed.

Theorem C13_push_full_panics : forall cap l v, length l = cap -> kstep cap l (KPush v) = (l, KPanic).
Proof.
  intros cap l v H. simpl. unfold stack_push.
  apply Nat.eqb_eq in H. rewrite H. reflexivity.
Qed.

Theorem C13_push_ok : forall cap l v, length l < cap -> kstep cap l (KPush v) = (v :: l, KUnit).
Proof.
  intros cap l v H. simpl. unfold stack_push.
  assert (E : (length l =? cap) = false) by (apply Nat.eqb_neq; lia).
  rewrite E. reflexivity.
Qed.

Theorem C13_pop_empty_panics : forall cap, kstep cap [] KPop = ([], KPanic).
Proof. intros; reflexivity. Qed.

(* most recently added value not yet removed *)
Theorem C13_pop_lifo : forall cap l v, kstep cap (v :: l) KPop = (l, KVal v).
Proof. intros; reflexivity. Qed.

Theorem C13_push_pop : forall cap l v, length l < cap ->
  krun cap l [KPush v; KPop] = (l, [KUnit; KVal v]).
Proof.
  intros cap l v H. cbn [krun].
  rewrite (C13_push_ok cap l v H). rewrite C13_pop_lifo. reflexivity.
Qed.

Theorem C13_panic_frame : forall cap l o l', kstep cap l o = (l', KPanic) -> l' = l.
Proof.
  intros cap l o l' H. destruct o as [v| |]; simpl in H.
  - destruct (stack_push cap l v); inversion H; reflexivity.
  - destruct (stack_pop l) as [[x t]| |]; inversion H; reflexivity.
  - inversion H.
Qed.

(* constructors: capacity = max(default, number of initial values) never below the size *)
Theorem C13_ctor_bound : forall (dflt : nat) (vs : list A), length vs <= Nat.max dflt (length vs).
Proof. intros. apply Nat.le_max_r. Qed.

End StackProofs.

Print Assumptions C13_bound.
