(* Registry.v — the get-or-create protocol of the generic class accessors (List[V](), Set[V](),
   Collator[V](), Sorter[V](), ... : v4/collection/list.go:30-54 and the same pattern in every
   class file) as a small interleaving model.  Definitions only; proofs in RegistryProofs.v.

   One registry: a map from type keys to classes, a mutex, and an allocator of fresh class
   identities (a class is a newly allocated object: its identity is a fresh number).  A thread
   is a list of keys it will ask for, one accessor call after the other.  A call is four
   micro-steps:  0 Lock (not enabled while another thread holds the mutex);  1 lookup
   [value = registry[name]];  2 if absent allocate a class and insert it;  3 Unlock and
   return.  With [locked = false] the same code without the mutex (steps 0 and 3 do not
   touch the lock) — the contrast case. *)
From Verif Require Import Base.

Record rthread := {
  rt_todo : list nat;          (* keys still to ask for; the head is the call in progress *)
  rt_pc : nat;
  rt_local : option nat;       (* the class found or created by the call in progress *)
  rt_rets : list (nat * nat)   (* (key, class returned) of the finished calls *)
}.

Record rstate := {
  r_lock : option nat;         (* the thread holding the mutex *)
  r_map : list (nat * nat);    (* the registry map: key -> class *)
  r_next : nat;                (* the next fresh class identity *)
  r_thr : nat -> rthread
}.

Definition rupd (f : nat -> rthread) (t : nat) (x : rthread) : nat -> rthread :=
  fun u => if Nat.eqb t u then x else f u.

Fixpoint lookup (k : nat) (m : list (nat * nat)) : option nat :=
  match m with
  | [] => None
  | (k', c) :: r => if Nat.eqb k k' then Some c else lookup k r
  end.

Definition rstep (locked : bool) (s : rstate) (t : nat) : rstate :=
  let th := r_thr s t in
  match rt_todo th with
  | [] => s
  | k :: rest =>
    match rt_pc th with
    | 0 =>
      let th' := {| rt_todo := rt_todo th; rt_pc := 1; rt_local := None; rt_rets := rt_rets th |} in
      if locked then
        match r_lock s with
        | Some _ => s     (* blocked *)
        | None => {| r_lock := Some t; r_map := r_map s; r_next := r_next s; r_thr := rupd (r_thr s) t th' |}
        end
      else {| r_lock := r_lock s; r_map := r_map s; r_next := r_next s; r_thr := rupd (r_thr s) t th' |}
    | 1 =>
      {| r_lock := r_lock s; r_map := r_map s; r_next := r_next s;
         r_thr := rupd (r_thr s) t {| rt_todo := rt_todo th; rt_pc := 2; rt_local := lookup k (r_map s); rt_rets := rt_rets th |} |}
    | 2 =>
      match rt_local th with
      | Some c =>
        {| r_lock := r_lock s; r_map := r_map s; r_next := r_next s;
           r_thr := rupd (r_thr s) t {| rt_todo := rt_todo th; rt_pc := 3; rt_local := Some c; rt_rets := rt_rets th |} |}
      | None =>
        {| r_lock := r_lock s; r_map := (k, r_next s) :: r_map s; r_next := S (r_next s);
           r_thr := rupd (r_thr s) t {| rt_todo := rt_todo th; rt_pc := 3; rt_local := Some (r_next s); rt_rets := rt_rets th |} |}
      end
    | _ =>
      match rt_local th with
      | Some c =>
        {| r_lock := if locked then None else r_lock s; r_map := r_map s; r_next := r_next s;
           r_thr := rupd (r_thr s) t {| rt_todo := rest; rt_pc := 0; rt_local := None; rt_rets := rt_rets th ++ [(k, c)] |} |}
      | None => s
      end
    end
  end.

Definition rrun (locked : bool) (s : rstate) (sched : list nat) : rstate := fold_left (rstep locked) sched s.

Definition rinit (todos : list (list nat)) : rstate :=
  {| r_lock := None; r_map := []; r_next := 0;
     r_thr := fun t => {| rt_todo := nth t todos []; rt_pc := 0; rt_local := None; rt_rets := [] |} |}.

Definition rdone (n : nat) (s : rstate) : bool :=
  forallb (fun t => match rt_todo (r_thr s t) with [] => true | _ => false end) (seq 0 n).

(* number of classes created for key k *)
Definition classes_for (k : nat) (s : rstate) : nat :=
  length (filter (fun p => Nat.eqb (fst p) k) (r_map s)).
