(* SetPool.v — the Set operations of the pool machine (Pool.v) for C02 / C15:
   the class functions And / Or / Sans / Xor produce a NEW object from the operands' contents
   (also when both operands are the same object), leave every existing object unchanged, and
   later changes to one side do not reach the other (instances of PoolFrame). *)
From Verif Require Import Base Sorter Value Seq Coll CollP CollPProofs Pool PoolFrame.
Local Open Scope nat_scope.

Definition new_set (p : pool) (c : nat) (o : out (list val)) : pool * ret :=
  match o with Ret r => (p ++ [OSet c r], RNew) | Panic => (p, RPanic) | Hang => (p, RHang) end.

Theorem pool_set_algebra : forall zero p a b c1 c2 x y,
  get p a = OSet c1 x -> get p b = OSet c2 y ->
  step zero p (SAnd a b) = new_set p c1 (set_and zero (ranker c1) (ranker c2) x y) /\
  step zero p (SOr a b) = new_set p c1 (set_or zero (ranker c1) x y) /\
  step zero p (SSans a b) = new_set p c1 (set_sans zero (ranker c1) x y) /\
  step zero p (SXor a b) = new_set p c1 (set_xor zero (ranker c1) (ranker c2) x y).
Proof.
  intros zero p a b c1 c2 x y Ga Gb. cbn [step]. rewrite Ga, Gb. unfold of_out, new_set, push_obj.
  repeat split.
Qed.

Definition is_set_algebra (o : op) : bool :=
  match o with SAnd _ _ | SOr _ _ | SSans _ _ | SXor _ _ => true | _ => false end.

(* the operands — and every other object of the pool — are left unchanged *)
Theorem set_algebra_changes_nothing : forall zero p o p' r, is_set_algebra o = true ->
  step zero p o = (p', r) -> forall i, i < length p -> nth i p' ODead = nth i p ODead.
Proof.
  intros zero p o p' r Ho H i Hi.
  destruct (step_frame _ _ _ _ _ H) as [_ Hn]. apply Hn; [exact Hi|].
  destruct o; try discriminate Ho; cbn [writes]; discriminate.
Qed.

(* later changes to an operand do not affect the result, and later changes to the result do not
   affect the operands *)
Theorem set_algebra_result_independent : forall zero p o p' ops src, is_set_algebra o = true ->
  step zero p o = (p', RNew) -> src < length p ->
  (forall o', In o' ops -> writes o' = Some src \/ writes o' = None) ->
  nth (length p) (run zero p' ops) ODead = nth (length p) p' ODead.
Proof.
  intros zero p o p' ops src Ho H Hs Hops.
  assert (L : length p' = S (length p)).
  { destruct o; try discriminate Ho; cbn [step] in H;
      repeat match goal with
      | H : context [match ?x with _ => _ end] |- _ => destruct x eqn:?; try discriminate H
      end; unfold of_out, push_obj in H;
      repeat match goal with
      | H : context [match ?x with _ => _ end] |- _ => destruct x eqn:?; try discriminate H
      end; inversion H; subst; rewrite app_length; cbn [length]; lia. }
  apply run_frame; [lia|].
  intros o' Ho'. destruct (Hops o' Ho') as [W|W]; rewrite W; [|discriminate].
  intros E. inversion E. lia.
Qed.

Theorem set_algebra_operand_independent : forall zero p o p' ops src, is_set_algebra o = true ->
  step zero p o = (p', RNew) -> src < length p ->
  (forall o', In o' ops -> writes o' = Some (length p) \/ writes o' = None) ->
  nth src (run zero p' ops) ODead = nth src p ODead.
Proof.
  intros zero p o p' ops src Ho H Hs Hops.
  destruct (step_frame _ _ _ _ _ H) as [[Hl _] Hn].
  rewrite run_frame.
  - apply Hn; [exact Hs|]. destruct o; try discriminate Ho; cbn [writes]; discriminate.
  - lia.
  - intros o' Ho'. destruct (Hops o' Ho') as [W|W]; rewrite W; [|discriminate].
    intros E. inversion E. lia.
Qed.


(* ---------- round 3: Sets whose collator may panic (a small maximum traversal depth), nil operands ---------- *)

(* the class functions over operands whose collators may panic are the verified class functions of Coll.v whenever
   the two rankings never panic *)
Theorem limited_collator_agrees : forall (zero : val) (rank1 rank2 : val -> val -> comparison)
  (rk1 rk2 : val -> val -> option comparison),
  (forall a b, rk1 a b = Some (rank1 a b)) -> (forall a b, rk2 a b = Some (rank2 a b)) ->
  forall a b,
    set_and_p zero rk1 rk2 a b = set_and zero rank1 rank2 a b /\
    set_or_p zero rk1 a b = set_or zero rank1 a b /\
    set_sans_p zero rk1 a b = set_sans zero rank1 a b /\
    set_xor_p zero rk1 rk2 a b = set_xor zero rank1 rank2 a b.
Proof.
  intros zero rank1 rank2 rk1 rk2 T1 T2 a b. repeat split.
  - apply (set_and_p_agrees val zero rank1 rank2 rk1 rk2 T1 T2).
  - apply (set_or_p_agrees val zero rank1 rk1 T1).
  - apply (set_sans_p_agrees val zero rank1 rk1 T1).
  - apply (set_xor_p_agrees val zero rank1 rank2 rk1 rk2 T1 T2).
Qed.

(* what the pool machine computes for the class functions when an operand is a depth-limited Set *)
Definition new_like (p : pool) (o : obj) (r : out (list val)) : pool * ret :=
  match r with Ret l => (p ++ [set_like o l], RNew) | Panic => (p, RPanic) | Hang => (p, RHang) end.

Theorem pool_set_algebra_limited : forall zero p a b m x r2 y,
  get p a = OSetL m x -> set_operand (get p b) = Some (r2, y) ->
  step zero p (SAnd a b) = new_like p (OSetL m x) (set_and_p zero (rk_lim m) r2 x y) /\
  step zero p (SOr a b) = new_like p (OSetL m x) (set_or_p zero (rk_lim m) x y) /\
  step zero p (SSans a b) = new_like p (OSetL m x) (set_sans_p zero (rk_lim m) x y) /\
  step zero p (SXor a b) = new_like p (OSetL m x) (set_xor_p zero (rk_lim m) r2 x y).
Proof.
  intros zero p a b m x r2 y Ga Gb. cbn [step]. rewrite Ga. cbn [set_operand]. rewrite Gb.
  unfold of_out, new_like, push_obj. repeat split;
    match goal with |- match ?o with _ => _ end = match ?o with _ => _ end => destruct o; reflexivity end.
Qed.

Definition is_class_call (o : op) : bool :=
  match o with SAnd _ _ | SOr _ _ | SSans _ _ | SXor _ _ | Concat _ _ | Merge _ _ | Extract _ _ | NilCall _ _ _ => true | _ => false end.

(* a class function that panics (midway, or at once on a nil operand) leaves the pool exactly as it was: nothing of
   what it gathered before the panic exists afterwards, so the next call starts from the operands alone *)
Theorem failed_class_call_changes_nothing : forall zero p o p',
  is_class_call o = true -> step zero p o = (p', RPanic) -> p' = p.
Proof. intros zero p o p' _ H. apply (step_panic_frame zero p o p' RPanic H). left. reflexivity. Qed.

(* data for the Example: the empty slice and two slices nested two levels deep; a Set with maximum depth 1 *)
Definition lv_e : val := VSeq KSlice [].
Definition lv_d1 : val := VSeq KSlice [VSeq KSlice [VInt 0 1]].
Definition lv_d2 : val := VSeq KSlice [VSeq KSlice [VInt 0 2]].
Definition ex_lim_pool : pool := [OSet 0 [lv_e; lv_d2]; OSetL 1 [lv_e; lv_d1]].

(* data for the Examples: two Sets of Go ints built from slices, all four operations, the same
   Set passed twice, then the first operand and a result are mutated *)
Definition si (z : Z) : val := VInt 0 z.
Definition ex_alg_ops : list op :=
  [NewSlice [si 3; si 1; si 2; si 3]; NewSlice [si 2; si 5; si 3];
   FromArray CSet 0; FromArray CSet 1;            (* slots 2 = {1,2,3}, 3 = {2,3,5} *)
   SAnd 2 3; SOr 2 3; SSans 2 3; SXor 2 3;        (* slots 4..7 *)
   SXor 2 2; SAnd 2 2;                            (* slots 8, 9: aliased operands *)
   AddValue 2 (si 9); DelValue 4 (si 2)].         (* mutate an operand and a result *)
