(* SetPool.v — the Set operations of the pool machine (Pool.v) for C02 / C15:
   the class functions And / Or / Sans / Xor produce a NEW object from the operands' contents
   (also when both operands are the same object), leave every existing object unchanged, and
   later changes to one side do not reach the other (instances of PoolFrame). *)
From Verif Require Import Base Sorter Value Seq Coll Pool PoolFrame.
Local Open Scope nat_scope.

Definition new_set (p : pool) (c : nat) (o : out (list val)) : pool * ret :=
  match o with Ret r => (p ++ [OSet c r], RNew) | Panic => (p, RPanic) | Hang => (p, RHang) end.

Theorem pool_set_algebra : forall zero p a b c1 c2 x y,
  get p a = OSet c1 x -> get p b = OSet c2 y ->
  step zero p (SAnd a b) = new_set p c1 (set_and zero (ranker c1) (ranker c2) x y) /\
  step zero p (SOr a b) = new_set p c1 (set_or zero (ranker c1) x y) /\
  step zero p (SSans a b) = new_set p c1 (set_sans zero (ranker c1) x y) /\
  step zero p (SXor a b) = new_set p c1 (set_xor zero (ranker c1) (ranker c2) x y).
Proof.
  intros zero p a b c1 c2 x y Ga Gb. cbn [step]. rewrite Ga, Gb. unfold of_out, new_set, push_obj.
  repeat split.
Qed.

Definition is_set_algebra (o : op) : bool :=
  match o with SAnd _ _ | SOr _ _ | SSans _ _ | SXor _ _ => true | _ => false end.

(* the operands — and every other object of the pool — are left unchanged *)
Theorem set_algebra_changes_nothing : forall zero p o p' r, is_set_algebra o = true ->
  step zero p o = (p', r) -> forall i, i < length p -> nth i p' ODead = nth i p ODead.
Proof.
  intros zero p o p' r Ho H i Hi.
  destruct (step_frame _ _ _ _ _ H) as [_ Hn]. apply Hn; [exact Hi|].
  destruct o; try discriminate Ho; cbn [writes]; discriminate.
Qed.

(* later changes to an operand do not affect the result, and later changes to the result do not
   affect the operands *)
Theorem set_algebra_result_independent : forall zero p o p' ops src, is_set_algebra o = true ->
  step zero p o = (p', RNew) -> src < length p ->
  (forall o', In o' ops -> writes o' = Some src \/ writes o' = None) ->
  nth (length p) (run zero p' ops) ODead = nth (length p) p' ODead.
Proof.
  intros zero p o p' ops src Ho H Hs Hops.
  assert (L : length p' = S (length p)).
  { destruct o; try discriminate Ho; cbn [step] in H;
      repeat match goal with
      | H : context [match ?x with _ => _ end] |- _ => destruct x eqn:?; try discriminate H
      end; unfold of_out, push_obj in H;
      repeat match goal with
      | H : context [match ?x with _ => _ end] |- _ => destruct x eqn:?; try discriminate H
      end; inversion H; subst; rewrite app_length; cbn [length]; lia. }
  apply run_frame; [lia|].
  intros o' Ho'. destruct (Hops o' Ho') as [W|W]; rewrite W; [|discriminate].
  intros E. inversion E. lia.
Qed.

Theorem set_algebra_operand_independent : forall zero p o p' ops src, is_set_algebra o = true ->
  step zero p o = (p', RNew) -> src < length p ->
  (forall o', In o' ops -> writes o' = Some (length p) \/ writes o' = None) ->
  nth src (run zero p' ops) ODead = nth src p ODead.
Proof.
  intros zero p o p' ops src Ho H Hs Hops.
  destruct (step_frame _ _ _ _ _ H) as [[Hl _] Hn].
  rewrite run_frame.
  - apply Hn; [exact Hs|]. destruct o; try discriminate Ho; cbn [writes]; discriminate.
  - lia.
  - intros o' Ho'. destruct (Hops o' Ho') as [W|W]; rewrite W; [|discriminate].
    intros E. inversion E. lia.
Qed.

(* data for the Examples: two Sets of Go ints built from slices, all four operations, the same
   Set passed twice, then the first operand and a result are mutated *)
Definition si (z : Z) : val := VInt 0 z.
Definition ex_alg_ops : list op :=
  [NewSlice [si 3; si 1; si 2; si 3]; NewSlice [si 2; si 5; si 3];
   FromArray CSet 0; FromArray CSet 1;            (* slots 2 = {1,2,3}, 3 = {2,3,5} *)
   SAnd 2 3; SOr 2 3; SSans 2 3; SXor 2 3;        (* slots 4..7 *)
   SXor 2 2; SAnd 2 2;                            (* slots 8, 9: aliased operands *)
   AddValue 2 (si 9); DelValue 4 (si 2)].         (* mutate an operand and a result *)
