(* ReorderProofs.v — the oracle order of an unordered view (Pool.reorder) for C14 / C03:
   Go's map iteration order is supplied per call as the observed key list [okeys];
   [reorder m okeys = Some m'] lists the associations of [m] in that order.  Proved here for EVERY oracle:
   m' is a permutation of m in which each key may have been replaced by a key that is "==" to it (the
   oracle's spelling of the key: +0.0 for -0.0), hence — keys spelled as stored — a permutation of m; the
   mapping is unchanged (every lookup agrees), distinct keys stay distinct, the size is the same.  So "the
   unordered views contain each association exactly once" holds for every iteration order Go may choose, and
   MakeFromMap yields exactly the associations of the Go map. *)
From Verif Require Import Base Sorter Value Seq Coll Pool PoolFrame AssocProofs AssocProofs2.
From Coq Require Import Permutation.
Local Open Scope nat_scope.

(* the same value under a key that is "==" to the original one *)
Definition same_assoc (a b : val * val) : Prop := keq (fst b) (fst a) = true /\ snd b = snd a.

Lemma a_get_split : forall (m : list (val * val)) k v, a_get keq m k = Some v ->
  exists k', keq k k' = true /\ Permutation m ((k', v) :: a_remove keq m k).
Proof.
  induction m as [|[k0 v0] t IH]; intros k v H; cbn [a_get a_remove] in *; [discriminate|].
  destruct (keq k k0) eqn:E.
  - injection H as <-. exists k0. split; [exact E|apply Permutation_refl].
  - destruct (IH k v H) as (k' & Hk & P). exists k'. split; [exact Hk|].
    apply Permutation_trans with ((k0, v0) :: (k', v) :: a_remove keq t k); [constructor; exact P|apply perm_swap].
Qed.

Theorem reorder_perm_keq : forall okeys m m', reorder m okeys = Some m' ->
  exists m'', Permutation m m'' /\ Forall2 same_assoc m'' m'.
Proof.
  induction okeys as [|k ks IH]; intros m m' H; cbn [reorder] in H.
  - destruct m; [|discriminate]. injection H as <-. exists []. split; constructor.
  - destruct (a_get keq m k) as [v|] eqn:G; [|discriminate].
    destruct (reorder (a_remove keq m k) ks) as [r|] eqn:R; [|discriminate]. cbn [option_map] in H. injection H as <-.
    destruct (a_get_split m k v G) as (k' & Hk & P). destruct (IH _ _ R) as (r'' & P' & F).
    exists ((k', v) :: r''). split.
    + apply (Permutation_trans P). constructor. exact P'.
    + constructor; [split; [exact Hk|reflexivity]|exact F].
Qed.

Lemma same_assoc_get : forall m'' m', Forall2 same_assoc m'' m' -> forall x, a_get keq m' x = a_get keq m'' x.
Proof.
  induction 1 as [|[k1 v1] [k2 v2] t1 t2 [Hk Hv] F IH]; intros x; cbn [a_get]; [reflexivity|].
  cbn [fst snd] in Hk, Hv. subst v2.
  rewrite (keq_congr_r val keq keq_sym keq_trans k2 k1 x Hk). rewrite IH. reflexivity.
Qed.

Lemma Forall2_in_right : forall (A B : Type) (R : A -> B -> Prop) l1 l2 b, Forall2 R l1 l2 -> In b l2 ->
  exists a, In a l1 /\ R a b.
Proof.
  intros A B R l1 l2 b F. induction F as [|x y t1 t2 Hxy F IH]; intros Hin; [destruct Hin|].
  destruct Hin as [<-|Hin]; [exists x; split; [left; reflexivity|exact Hxy]|].
  destruct (IH Hin) as (a & Ha & Hr). exists a. split; [right; exact Ha|exact Hr].
Qed.

Lemma Forall2_len : forall (A B : Type) (R : A -> B -> Prop) l1 l2, Forall2 R l1 l2 -> length l1 = length l2.
Proof. intros A B R l1 l2 F. induction F; cbn [length]; [reflexivity|]. rewrite IHF. reflexivity. Qed.

Lemma Forall2_eq : forall (A : Type) (R : A -> A -> Prop) l1 l2, Forall2 R l1 l2 ->
  (forall a b, In a l1 -> In b l2 -> R a b -> a = b) -> l1 = l2.
Proof.
  intros A R l1 l2 F. induction F as [|a b t1 t2 Hab F IH]; intros S; [reflexivity|]. f_equal.
  - apply S; [left; reflexivity|left; reflexivity|exact Hab].
  - apply IH. intros x y Hx Hy. apply S; right; assumption.
Qed.

Lemma same_assoc_wf : forall m'' m', Forall2 same_assoc m'' m' -> wfm val val keq m'' -> wfm val val keq m'.
Proof.
  unfold wfm, keys. induction 1 as [|[k1 v1] [k2 v2] t1 t2 [Hk Hv] F IH]; intros W; cbn [map fst distinct] in *; [exact I|].
  destruct W as [W1 W2]. split; [|apply IH; exact W2].
  intros k' Hin. apply in_map_iff in Hin. destruct Hin as ([ka va] & <- & Hin). cbn [fst].
  destruct (Forall2_in_right _ _ _ _ _ _ F Hin) as ([kb vb] & Hinb & [Hkb _]). cbn [fst] in Hkb.
  rewrite (keq_congr_l val keq keq_sym keq_trans k2 k1 ka Hk).
  rewrite (keq_congr_r val keq keq_sym keq_trans ka kb k1 Hkb).
  apply W1. apply (in_map fst t1 (kb, vb)). exact Hinb.
Qed.

(* the mapping is unchanged, the keys stay distinct, the size is the same — for every oracle order *)
Theorem reorder_keeps_mapping : forall okeys m m', wfm val val keq m -> reorder m okeys = Some m' ->
  (forall x, a_get keq m' x = a_get keq m x) /\ wfm val val keq m' /\ length m' = length m /\
  Permutation (map snd m) (map snd m').
Proof.
  intros okeys m m' W H. destruct (reorder_perm_keq okeys m m' H) as (m'' & P & F).
  pose proof (wfm_perm val val keq keq_sym m m'' W P) as W''. split; [|split; [|split]].
  - intros x. rewrite (same_assoc_get m'' m' F x). apply (a_get_perm val val keq keq_sym keq_trans m m'' W P).
  - apply (same_assoc_wf m'' m' F W'').
  - rewrite <- (Forall2_len _ _ _ _ _ F). symmetry. apply Permutation_length. exact P.
  - apply (Permutation_trans (Permutation_map snd P)).
    assert (E : map snd m'' = map snd m').
    { clear - F. induction F as [|a b t1 t2 [_ Hv] F IH]; cbn [map]; [reflexivity|]. rewrite Hv, IH. reflexivity. }
    rewrite E. apply Permutation_refl.
Qed.

(* keys spelled as they are stored (what the Go runtime hands out: the stored key itself): a permutation *)
Definition spelled_as_stored (m : list (val * val)) (okeys : list val) : Prop :=
  forall k k', In k okeys -> In k' (map fst m) -> keq k k' = true -> k = k'.

Lemma reorder_keys : forall okeys m m', reorder m okeys = Some m' -> map fst m' = okeys.
Proof.
  induction okeys as [|k ks IH]; intros m m' H; cbn [reorder] in H.
  - destruct m; [|discriminate]. injection H as <-. reflexivity.
  - destruct (a_get keq m k) as [v|]; [|discriminate].
    destruct (reorder (a_remove keq m k) ks) as [r|] eqn:R; [|discriminate]. cbn [option_map] in H. injection H as <-.
    cbn [map fst]. rewrite (IH _ _ R). reflexivity.
Qed.

Theorem reorder_perm : forall okeys m m', spelled_as_stored m okeys -> reorder m okeys = Some m' -> Permutation m m'.
Proof.
  intros okeys m m' S H. destruct (reorder_perm_keq okeys m m' H) as (m'' & P & F).
  assert (E : m'' = m').
  { pose proof (reorder_keys okeys m m' H) as K.
    assert (S' : forall a b, In a m'' -> In b m' -> same_assoc a b -> a = b).
    { intros [k1 v1] [k2 v2] Ha Hb [Hk Hv]. cbn [fst snd] in Hk, Hv. subst v2. f_equal. symmetry. apply S.
      - rewrite <- K. apply (in_map fst m' (k2, v1)). exact Hb.
      - apply (in_map fst m (k1, v1)). apply (Permutation_in _ (Permutation_sym P)). exact Ha.
      - exact Hk. }
    apply (Forall2_eq _ _ _ _ F S'). }
  rewrite <- E. exact P.
Qed.

(* without that proviso the literal statement fails: the Go map {+0.0: 1} listed under the oracle key -0.0 *)
Theorem reorder_perm_refuted : exists m okeys m', reorder m okeys = Some m' /\ ~ Permutation m m'.
Proof.
  exists [(VFloat 64 0, VInt 0 1)], [VFloat 64 9223372036854775808], [(VFloat 64 9223372036854775808, VInt 0 1)].
  split; [vm_compute; reflexivity|]. intros P. apply Permutation_length_1_inv in P. discriminate.
Qed.

(* MakeFromMap (Catalog and Map): the new object holds exactly the associations of the Go map *)
Theorem from_map_exact : forall zero p src okeys m m', get p src = OGoMap m -> wfm val val keq m ->
  reorder m okeys = Some m' ->
  step zero p (FromMap CCatalog src okeys) = (p ++ [OCat m'], RNew) /\
  step zero p (FromMap CMap src okeys) = (p ++ [OMap m'], RNew) /\
  (forall x, a_get keq m' x = a_get keq m x) /\ wfm val val keq m' /\ length m' = length m /\
  (exists m'', Permutation m m'' /\ Forall2 same_assoc m'' m') /\
  (spelled_as_stored m okeys -> Permutation m m').
Proof.
  intros zero p src okeys m m' G W R. cbn [step]. rewrite G, R. split; [reflexivity|]. split; [reflexivity|].
  destruct (reorder_keeps_mapping okeys m m' W R) as (H1 & H2 & H3 & _).
  split; [exact H1|]. split; [exact H2|]. split; [exact H3|]. split; [apply (reorder_perm_keq okeys m m' R)|].
  intros S. apply (reorder_perm okeys m m' S R).
Qed.

(* the unordered views of a Map (GetKeys / AsArray / iteration under ANY oracle order): each association once *)
Theorem map_views_each_association_once : forall zero p o okeys m m', get p o = OMap m -> wfm val val keq m ->
  reorder m okeys = Some m' ->
  step zero p (AKeys o okeys) = (p ++ [OArr (map fst m')], RNew) /\
  step zero p (AsArray o okeys) = (p ++ [OSlice (assoc_vals m')], RNew) /\
  length m' = length m /\ wfm val val keq m' /\
  (forall k v, In (k, v) m' -> keq k k = true -> a_get keq m k = Some v) /\
  (forall x v, a_get keq m x = Some v -> exists k, In (k, v) m' /\ keq x k = true).
Proof.
  intros zero p o okeys m m' G W R. cbn [step]. rewrite G. cbn [seq_view]. rewrite R. cbn [option_map].
  split; [reflexivity|]. split; [reflexivity|].
  destruct (reorder_keeps_mapping okeys m m' W R) as (H1 & H2 & H3 & _).
  split; [exact H3|]. split; [exact H2|]. split.
  - intros k v Hin Hr. rewrite <- H1. apply (views_agree_at val val keq keq_sym m' H2 k v Hin Hr).
  - intros x v Hx. rewrite <- H1 in Hx. apply (C03_views_conv val val keq m' x v Hx).
Qed.

Print Assumptions from_map_exact.
Print Assumptions map_views_each_association_once.
Print Assumptions reorder_perm_refuted.
