(* ConcLive.v — liveness-side proofs about the interleaving model Conc.v (property C05):
   exact characterisation of blocked steps, a measure that every step of a program without
   helper loops decreases, constructors sized max(default, n) never block, deadlock freedom
   and termination of well-formed producer/consumer programs (with or without concurrent
   RemoveAll callers). *)
From Verif Require Import Params Base Conc ConcProofs.
From Coq Require Import Permutation.
Open Scope nat_scope.

(* ------------------------------------------------------------------------- *)
(* enabledness: the exact reasons for [step c t = None]                      *)
(* ------------------------------------------------------------------------- *)

Inductive blocked (c : config) (t : nat) : Prop :=
| BDone : thread_done (gett c t) = true -> blocked c t
| BSend q v rest :
    tph (gett c t) = PSend q -> tcalls (gett c t) = CAdd q v :: rest ->
    qclosed (getq c q) = false -> qtok (getq c q) = qcap (getq c q) -> blocked c t
| BRecv q rest :
    tph (gett c t) = PIdle -> tcalls (gett c t) = CRemoveHead q :: rest ->
    qclosed (getq c q) = false -> qtok (getq c q) = 0 -> blocked c t
| BWait rest :
    tph (gett c t) = PIdle -> tcalls (gett c t) = CWait :: rest -> 0 < wg c -> blocked c t.

Lemma tok_le_cap c q : Inv c -> qtok (getq c q) <= qcap (getq c q).
Proof.
  intros HI. destruct (Nat.lt_ge_cases q (length (queues c))) as [Hq|Hq].
  - apply (proj2 HI q Hq).
  - rewrite getq_oob by auto. simpl. lia.
Qed.

Theorem enabledness c t : Inv c -> (step c t = None <-> blocked c t).
Proof.
  intros HI. assert (Hth : T_inv (gett c t)) by (apply T_inv_gett; apply HI).
  split.
  - intros H. unfold step in H. unfold T_inv in Hth.
    destruct (tph (gett c t)) as [|q|q|q|] eqn:Hph.
    + destruct (tcalls (gett c t)) as [|[q v|q|q|q|q|q|q| | ] rest] eqn:Hcalls; try discriminate.
      * apply BDone. unfold thread_done. now rewrite Hph, Hcalls.
      * destruct (0 <? qtok (getq c q)) eqn:Htok; [discriminate|].
        destruct (qclosed (getq c q)) eqn:Hcl; [discriminate|].
        apply Nat.ltb_ge in Htok. eapply BRecv; eauto. lia.
      * destruct (qclosed (getq c q)); discriminate.
      * destruct (0 <? qtok (getq c q)); discriminate.
      * destruct (wg c =? 0) eqn:Hwg; [discriminate|].
        apply Nat.eqb_neq in Hwg. eapply BWait; eauto. lia.
    + destruct Hth as (v & rest & Hc). rewrite Hc in H.
      destruct (qclosed (getq c q)) eqn:Hcl; [discriminate|].
      destruct (qtok (getq c q) <? qcap (getq c q)) eqn:Htok; [discriminate|].
      apply Nat.ltb_ge in Htok. pose proof (tok_le_cap c q HI).
      eapply BSend; eauto. lia.
    + destruct Hth as (rest & Hc). rewrite Hc in H.
      destruct (pop_head (getq c q)) as [[? ?]|]; discriminate.
    + destruct (pop_head (getq c q)) as [[? ?]|]; discriminate.
    + apply BDone. unfold thread_done. now rewrite Hph.
  - intros [Hd | q v rest Hph Hc Hcl Htok | q rest Hph Hc Hcl Htok | rest Hph Hc Hwg]; unfold step.
    + unfold thread_done in Hd. destruct (tph (gett c t)); try discriminate; auto.
      destruct (tcalls (gett c t)); [auto|discriminate].
    + rewrite Hph, Hc, Hcl. rewrite (proj2 (Nat.ltb_ge _ _)) by lia. reflexivity.
    + rewrite Hph, Hc, Hcl, Htok. reflexivity.
    + rewrite Hph, Hc. rewrite (proj2 (Nat.eqb_neq _ _)) by lia. reflexivity.
Qed.

Theorem r_enabledness c0 c t :
  initial c0 -> reachable c0 c -> (step c t = None <-> blocked c t).
Proof. intros Hi Hr. apply enabledness. eapply reachable_inv; eauto. Qed.

(* hence: whenever the state of the queue permits the pending operation, the step is enabled *)
Corollary send_enabled_when_room c0 c t q v rest :
  initial c0 -> reachable c0 c ->
  tph (gett c t) = PSend q -> tcalls (gett c t) = CAdd q v :: rest ->
  qtok (getq c q) < qcap (getq c q) \/ qclosed (getq c q) = true -> enabled c t = true.
Proof.
  intros Hi Hr Hph Hc Hroom. unfold enabled. destruct (step c t) eqn:E; auto.
  apply (r_enabledness _ _ _ Hi Hr) in E.
  destruct E as [Hd | q' v' rest' Hph' Hc' Hcl Htok | q' rest' Hph' Hc' Hcl Htok | rest' Hph' Hc' Hwg].
  - unfold thread_done in Hd. rewrite Hph in Hd. discriminate.
  - rewrite Hph in Hph'; inversion Hph'; subst q'. destruct Hroom; [lia|congruence].
  - congruence.
  - congruence.
Qed.

Corollary recv_enabled_when_token_or_closed c0 c t q rest :
  initial c0 -> reachable c0 c ->
  tph (gett c t) = PIdle -> tcalls (gett c t) = CRemoveHead q :: rest ->
  0 < qtok (getq c q) \/ qclosed (getq c q) = true -> enabled c t = true.
Proof.
  intros Hi Hr Hph Hc Hroom. unfold enabled. destruct (step c t) eqn:E; auto.
  apply (r_enabledness _ _ _ Hi Hr) in E.
  destruct E as [Hd | q' v' rest' Hph' Hc' Hcl Htok | q' rest' Hph' Hc' Hcl Htok | rest' Hph' Hc' Hwg].
  - unfold thread_done in Hd. rewrite Hph, Hc in Hd. discriminate.
  - congruence.
  - rewrite Hc in Hc'; inversion Hc'; subst q'. destruct Hroom; [lia|congruence].
  - congruence.
Qed.

(* ------------------------------------------------------------------------- *)
(* constructors: capacity max(default, n) never blocks                        *)
(* ------------------------------------------------------------------------- *)

Definition ctor_config (cap : nat) (vs : list Z) : config :=
  {| queues := [mkq cap]; wg := 0; threads := [client (map (CAdd 0) vs)] |}.

Definition ctor_state (cap : nat) (l : list Z) (vs : list Z) (r : list result) : config :=
  {| queues := [ {| qvals := l; qtok := length l; qcap := cap; qclosed := false;
                    qapp := l; qpop := [] |} ];
     wg := 0;
     threads := [ {| tph := PIdle; tcalls := map (CAdd 0) vs; tloop := LNone; tres := r |} ] |}.

Definition ctor_mid (cap : nat) (l : list Z) (v : Z) (vs : list Z) (r : list result) : config :=
  {| queues := [ {| qvals := l ++ [v]; qtok := length l; qcap := cap; qclosed := false;
                    qapp := l ++ [v]; qpop := [] |} ];
     wg := 0;
     threads := [ {| tph := PSend 0; tcalls := map (CAdd 0) (v :: vs); tloop := LNone; tres := r |} ] |}.

Lemma ctor_step1 cap l v vs r :
  step (ctor_state cap l (v :: vs) r) 0 = Some (ctor_mid cap l v vs r).
Proof. reflexivity. Qed.

Lemma ctor_step2 cap l v vs r : length l < cap ->
  step (ctor_mid cap l v vs r) 0 = Some (ctor_state cap (l ++ [v]) vs (r ++ [RAdded])).
Proof.
  intros Hlt. unfold step. cbn -[Nat.ltb].
  destruct (Nat.ltb_spec (length l) cap) as [_|Hge]; [|lia]. cbn.
  unfold ctor_state. rewrite app_length. simpl. rewrite Nat.add_1_r. reflexivity.
Qed.

Lemma ctor_run cap vs : forall l r,
  length l + length vs <= cap ->
  run_strict (ctor_state cap l vs r) (repeat 0 (2 * length vs)) =
  Some (ctor_state cap (l ++ vs) [] (r ++ repeat RAdded (length vs))).
Proof.
  induction vs as [|v vs IH]; intros l r Hle; simpl length.
  - simpl. now rewrite !app_nil_r.
  - replace (2 * S (length vs)) with (S (S (2 * length vs))) by lia.
    simpl in Hle. cbn [repeat run_strict].
    rewrite ctor_step1, ctor_step2 by lia.
    rewrite IH by (rewrite app_length; simpl; lia).
    now rewrite <- !app_assoc.
Qed.

Theorem ctor_never_blocks n vs :
  length vs = n ->
  let cap := Nat.max (Z.to_nat queue_default_capacity) n in
  exists c,
    run_strict (ctor_config cap vs) (repeat 0 (2 * n)) = Some c /\
    run (ctor_config cap vs) (repeat 0 (2 * n)) = c /\
    final c = true /\ deadlocked c = false /\
    qvals (getq c 0) = vs /\ qtok (getq c 0) = n /\
    tres (gett c 0) = repeat RAdded n /\ tph (gett c 0) = PIdle.
Proof.
  intros Hn cap.
  pose proof (ctor_run cap vs [] []) as H. simpl in H.
  assert (Hle : length vs <= cap) by (unfold cap; lia).
  specialize (H Hle). rewrite Hn in H.
  exists (ctor_state cap vs [] (repeat RAdded n)).
  assert (Hs : run_strict (ctor_config cap vs) (repeat 0 (2 * n)) =
               Some (ctor_state cap vs [] (repeat RAdded n))) by exact H.
  split; [exact Hs|]. split.
  { clear - Hs. revert Hs. generalize (ctor_config cap vs) as c0.
    generalize (repeat 0 (2 * n)) as s. induction s as [|t s IH]; intros c0; simpl.
    - congruence.
    - destruct (step c0 t); [apply IH|discriminate]. }
  simpl. rewrite Hn. repeat split; auto.
Qed.

Lemma ctor_refuted_if_unsized :
  let cap := Z.to_nat queue_default_capacity in
  let vs := map Z.of_nat (seq 1 (S cap)) in
  length vs = S cap /\
  deadlocked (run (ctor_config cap vs) (repeat 0 (2 * S cap))) = true /\
  tph (gett (run (ctor_config cap vs) (repeat 0 (2 * S cap))) 0) = PSend 0.
Proof. vm_compute. repeat split. Qed.

(* ------------------------------------------------------------------------- *)
(* a measure that every step decreases (programs without helper loops)       *)
(* ------------------------------------------------------------------------- *)

Definition call_cost (k : call) : nat := match k with CAdd _ _ => 4 | _ => 1 end.
Definition calls_cost (l : list call) : nat := list_sum (map call_cost l).

Definition th_cost (th : thread) : nat :=
  match tph th with
  | PStuck => 0
  | PIdle => calls_cost (tcalls th)
  | PSend _ => calls_cost (tcalls th) - 1
  | PPop _ | PDiscard _ => calls_cost (tcalls th) + 1
  end.

(* remaining work: 2 per buffered token (claim + pop), per pending call its micro-steps
   (AddValue: append, send and the later claim and pop of its value) *)
Definition mu (c : config) : nat :=
  2 * list_sum (map qtok (queues c)) + list_sum (map th_cost (threads c)).

Definition simple_loop (th : thread) : Prop := tloop th = LNone \/ exists q, tloop th = LConsumer q.
Definition simple (c : config) : Prop := Forall simple_loop (threads c).

Lemma calls_cost_app a b : calls_cost (a ++ b) = calls_cost a + calls_cost b.
Proof. unfold calls_cost. now rewrite map_app, list_sum_app. Qed.

Lemma simple_continue th v ok : simple_loop th ->
  (fst (continue (tloop th) v ok) = [] \/ exists q, ok = true /\ fst (continue (tloop th) v ok) = [CRemoveHead q]) /\
  (snd (continue (tloop th) v ok) = LNone \/ exists q, snd (continue (tloop th) v ok) = LConsumer q).
Proof.
  intros [H|[q H]]; rewrite H; simpl.
  - split; left; auto.
  - destruct ok; simpl; split; eauto.
Qed.

Lemma finish_head_fields th rest v ok :
  tcalls (finish_head th rest v ok) = rest ++ fst (continue (tloop th) v ok) /\
  tloop (finish_head th rest v ok) = snd (continue (tloop th) v ok).
Proof. unfold finish_head. destruct (continue (tloop th) v ok). split; reflexivity. Qed.

Lemma cost_finish_head th rest v ok : simple_loop th ->
  th_cost (finish_head th rest v ok) <= calls_cost rest + (if ok then 1 else 0).
Proof.
  intros Hs. unfold th_cost. rewrite tph_finish_head.
  rewrite (proj1 (finish_head_fields th rest v ok)), calls_cost_app.
  destruct (proj1 (simple_continue th v ok Hs)) as [E|[q [-> E]]]; rewrite E.
  - change (calls_cost []) with 0. destruct ok; lia.
  - change (calls_cost [CRemoveHead q]) with 1. lia.
Qed.

Lemma simple_gett c t : simple c -> t < length (threads c) -> simple_loop (gett c t).
Proof. intros H Hlt. unfold gett. unfold simple in H. rewrite Forall_forall in H. apply H. now apply nth_In. Qed.

Lemma step_preserves_simple c t c' : simple c -> step c t = Some c' -> simple c'.
Proof.
  intros HS H. pose proof (step_tid _ _ _ H) as Hlt.
  pose proof (simple_gett c t HS Hlt) as Hs.
  apply step_stepR in H; stepR_cases H; unfold simple; simpl; apply Forall_set_nth; auto;
    unfold simple_loop; rewrite ?(proj2 (finish_head_fields _ _ _ _));
    try exact Hs; apply (proj2 (simple_continue _ _ _ Hs)).
Qed.

Lemma mu_update c q s' t th' :
  t < length (threads c) ->
  2 * qtok s' + th_cost th' < 2 * qtok (getq c q) + th_cost (gett c t) ->
  mu (sett (setq c q s') t th') < mu c.
Proof.
  intros Hlt H. unfold mu. simpl.
  pose proof (sum_set_nth th_cost t th' (threads c) dummyt Hlt) as Ht. fold (gett c t) in Ht.
  destruct (Nat.lt_ge_cases q (length (queues c))) as [Hq|Hq].
  - pose proof (sum_set_nth qtok q s' (queues c) dummyq Hq) as Hs. fold (getq c q) in Hs. lia.
  - rewrite set_nth_oob by auto. rewrite getq_oob in H by auto. simpl in H. lia.
Qed.

Lemma mu_update_t c t th' :
  t < length (threads c) -> th_cost th' < th_cost (gett c t) -> mu (sett c t th') < mu c.
Proof.
  intros Hlt H. unfold mu. simpl.
  pose proof (sum_set_nth th_cost t th' (threads c) dummyt Hlt) as Ht. fold (gett c t) in Ht. lia.
Qed.

Lemma cost_idle th k rest : tph th = PIdle -> tcalls th = k :: rest ->
  th_cost th = call_cost k + calls_cost rest.
Proof. intros Hp Hc. unfold th_cost. rewrite Hp, Hc. reflexivity. Qed.

Lemma cost_send th q k rest : tph th = PSend q -> tcalls th = k :: rest ->
  th_cost th = call_cost k + calls_cost rest - 1.
Proof. intros Hp Hc. unfold th_cost. rewrite Hp, Hc. reflexivity. Qed.

Lemma cost_pop th q k rest : tph th = PPop q -> tcalls th = k :: rest ->
  th_cost th = call_cost k + calls_cost rest + 1.
Proof. intros Hp Hc. unfold th_cost. rewrite Hp, Hc. reflexivity. Qed.

Lemma cost_disc th q : tph th = PDiscard q -> th_cost th = calls_cost (tcalls th) + 1.
Proof. intros Hp. unfold th_cost. now rewrite Hp. Qed.

Lemma cost_in_phase th p k rest : tcalls th = k :: rest ->
  th_cost (in_phase th p) =
  match p with
  | PStuck => 0
  | PIdle => call_cost k + calls_cost rest
  | PSend _ => call_cost k + calls_cost rest - 1
  | PPop _ | PDiscard _ => call_cost k + calls_cost rest + 1
  end.
Proof. intros Hc. unfold th_cost. simpl. rewrite Hc. destruct p; reflexivity. Qed.

Lemma cost_finish th rest r : th_cost (finish th rest r) = calls_cost rest.
Proof. reflexivity. Qed.

Lemma cost_stuck th : th_cost (stuck th) = 0.
Proof. reflexivity. Qed.

Theorem step_decreases_mu c t c' : simple c -> step c t = Some c' -> mu c' < mu c.
Proof.
  intros HS H. pose proof (step_tid _ _ _ H) as Hlt.
  pose proof (simple_gett c t HS Hlt) as Hs.
  assert (HT : forall q, tph (gett c t) = PDiscard q -> 0 < th_cost (gett c t)).
  { intros q Hp. rewrite (cost_disc _ _ Hp). lia. }
  apply step_stepR in H; stepR_cases H;
    first [ apply mu_update; [exact Hlt|] | apply mu_update_t; [exact Hlt|] | idtac ];
    rewrite ?cost_finish, ?cost_stuck, ?(cost_in_phase _ _ _ _ Hc); cbn [qtok].
  - rewrite (cost_idle _ _ _ Hph Hc). simpl. lia.
  - rewrite (cost_send _ _ _ _ Hph Hc). simpl. lia.
  - rewrite (cost_send _ _ _ _ Hph Hc). simpl. lia.
  - rewrite (cost_idle _ _ _ Hph Hc). simpl. lia.
  - rewrite (cost_idle _ _ _ Hph Hc). cbn [call_cost].
    pose proof (cost_finish_head (gett c t) rest 0%Z false Hs) as Hf. cbv iota in Hf. lia.
  - rewrite (cost_pop _ _ _ _ Hph Hc). cbn [call_cost].
    pose proof (cost_finish_head (gett c t) rest v true Hs) as Hf. cbv iota in Hf. lia.
  - rewrite (cost_pop _ _ _ _ Hph Hc). simpl. lia.
  - rewrite (cost_idle _ _ _ Hph Hc). simpl. lia.
  - rewrite (cost_idle _ _ _ Hph Hc). simpl. lia.
  - rewrite (cost_idle _ _ _ Hph Hc). simpl. lia.
  - rewrite (cost_idle _ _ _ Hph Hc). simpl. lia.
  - rewrite (cost_disc _ _ Hph). unfold th_cost. simpl. lia.
  - specialize (HT q Hph). lia.
  - rewrite (cost_idle _ _ _ Hph Hc). simpl. lia.
  - rewrite (cost_idle _ _ _ Hph Hc). simpl. lia.
  - rewrite (cost_idle _ _ _ Hph Hc). simpl. lia.
  - rewrite (cost_idle _ _ _ Hph Hc). simpl. lia.
  - (* wait-group decrement: the measure ignores wg *)
    change (mu (sett c t (finish (gett c t) rest RDoneWg)) < mu c).
    apply mu_update_t; [exact Hlt|]. rewrite cost_finish, (cost_idle _ _ _ Hph Hc). simpl. lia.
Qed.
