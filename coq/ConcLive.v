(* ConcLive.v — liveness-side proofs about the interleaving model Conc.v (property C05):
   exact characterisation of blocked steps, a measure that every step of a program without
   helper loops decreases, constructors sized max(default, n) never block, deadlock freedom
   and termination of well-formed producer/consumer programs (with or without concurrent
   RemoveAll callers). *)
From Verif Require Import Params Base Conc ConcProofs.
From Coq Require Import Permutation.
Open Scope nat_scope.

(* ------------------------------------------------------------------------- *)
(* enabledness: the exact reasons for [step c t = None]                      *)
(* ------------------------------------------------------------------------- *)

Inductive blocked (c : config) (t : nat) : Prop :=
| BDone : thread_done (gett c t) = true -> blocked c t
| BSend q v rest :
    tph (gett c t) = PSend q -> tcalls (gett c t) = CAdd q v :: rest ->
    qclosed (getq c q) = false -> qtok (getq c q) = qcap (getq c q) -> blocked c t
| BRecv q rest :
    tph (gett c t) = PIdle -> tcalls (gett c t) = CRemoveHead q :: rest ->
    qclosed (getq c q) = false -> qtok (getq c q) = 0 -> blocked c t
| BWait rest :
    tph (gett c t) = PIdle -> tcalls (gett c t) = CWait :: rest -> 0 < wg c -> blocked c t.

Lemma tok_le_cap c q : Inv c -> qtok (getq c q) <= qcap (getq c q).
Proof.
  intros HI. destruct (Nat.lt_ge_cases q (length (queues c))) as [Hq|Hq].
  - apply (proj2 HI q Hq).
  - rewrite getq_oob by auto. simpl. lia.
Qed.

Theorem enabledness c t : Inv c -> (step c t = None <-> blocked c t).
Proof.
  intros HI. assert (Hth : T_inv (gett c t)) by (apply T_inv_gett; apply HI).
  split.
  - intros H. unfold step in H. unfold T_inv in Hth.
    destruct (tph (gett c t)) as [|q|q|q|] eqn:Hph.
    + destruct (tcalls (gett c t)) as [|[q v|q|q|q|q|q|q| | ] rest] eqn:Hcalls; try discriminate.
      * apply BDone. unfold thread_done. now rewrite Hph, Hcalls.
      * destruct (0 <? qtok (getq c q)) eqn:Htok; [discriminate|].
        destruct (qclosed (getq c q)) eqn:Hcl; [discriminate|].
        apply Nat.ltb_ge in Htok. eapply BRecv; eauto. lia.
      * destruct (qclosed (getq c q)); discriminate.
      * destruct (0 <? qtok (getq c q)); discriminate.
      * destruct (wg c =? 0) eqn:Hwg; [discriminate|].
        apply Nat.eqb_neq in Hwg. eapply BWait; eauto. lia.
    + destruct Hth as (v & rest & Hc). rewrite Hc in H.
      destruct (qclosed (getq c q)) eqn:Hcl; [discriminate|].
      destruct (qtok (getq c q) <? qcap (getq c q)) eqn:Htok; [discriminate|].
      apply Nat.ltb_ge in Htok. pose proof (tok_le_cap c q HI).
      eapply BSend; eauto. lia.
    + destruct Hth as (rest & Hc). rewrite Hc in H.
      destruct (pop_head (getq c q)) as [[? ?]|]; discriminate.
    + destruct (pop_head (getq c q)) as [[? ?]|]; discriminate.
    + apply BDone. unfold thread_done. now rewrite Hph.
  - intros [Hd | q v rest Hph Hc Hcl Htok | q rest Hph Hc Hcl Htok | rest Hph Hc Hwg]; unfold step.
    + unfold thread_done in Hd. destruct (tph (gett c t)); try discriminate; auto.
      destruct (tcalls (gett c t)); [auto|discriminate].
    + rewrite Hph, Hc, Hcl. rewrite (proj2 (Nat.ltb_ge _ _)) by lia. reflexivity.
    + rewrite Hph, Hc, Hcl, Htok. reflexivity.
    + rewrite Hph, Hc. rewrite (proj2 (Nat.eqb_neq _ _)) by lia. reflexivity.
Qed.

Theorem r_enabledness c0 c t :
  initial c0 -> reachable c0 c -> (step c t = None <-> blocked c t).
Proof. intros Hi Hr. apply enabledness. eapply reachable_inv; eauto. Qed.

(* hence: whenever the state of the queue permits the pending operation, the step is enabled *)
Corollary send_enabled_when_room c0 c t q v rest :
  initial c0 -> reachable c0 c ->
  tph (gett c t) = PSend q -> tcalls (gett c t) = CAdd q v :: rest ->
  qtok (getq c q) < qcap (getq c q) \/ qclosed (getq c q) = true -> enabled c t = true.
Proof.
  intros Hi Hr Hph Hc Hroom. unfold enabled. destruct (step c t) eqn:E; auto.
  apply (r_enabledness _ _ _ Hi Hr) in E.
  destruct E as [Hd | q' v' rest' Hph' Hc' Hcl Htok | q' rest' Hph' Hc' Hcl Htok | rest' Hph' Hc' Hwg].
  - unfold thread_done in Hd. rewrite Hph in Hd. discriminate.
  - rewrite Hph in Hph'; inversion Hph'; subst q'. destruct Hroom; [lia|congruence].
  - congruence.
  - congruence.
Qed.

Corollary recv_enabled_when_token_or_closed c0 c t q rest :
  initial c0 -> reachable c0 c ->
  tph (gett c t) = PIdle -> tcalls (gett c t) = CRemoveHead q :: rest ->
  0 < qtok (getq c q) \/ qclosed (getq c q) = true -> enabled c t = true.
Proof.
  intros Hi Hr Hph Hc Hroom. unfold enabled. destruct (step c t) eqn:E; auto.
  apply (r_enabledness _ _ _ Hi Hr) in E.
  destruct E as [Hd | q' v' rest' Hph' Hc' Hcl Htok | q' rest' Hph' Hc' Hcl Htok | rest' Hph' Hc' Hwg].
  - unfold thread_done in Hd. rewrite Hph, Hc in Hd. discriminate.
  - congruence.
  - rewrite Hc in Hc'; inversion Hc'; subst q'. destruct Hroom; [lia|congruence].
  - congruence.
Qed.

(* ------------------------------------------------------------------------- *)
(* constructors: capacity max(default, n) never blocks                        *)
(* ------------------------------------------------------------------------- *)

Definition ctor_config (cap : nat) (vs : list Z) : config :=
  {| queues := [mkq cap]; wg := 0; threads := [client (map (CAdd 0) vs)] |}.

Definition ctor_state (cap : nat) (l : list Z) (vs : list Z) (r : list result) : config :=
  {| queues := [ {| qvals := l; qtok := length l; qcap := cap; qclosed := false;
                    qapp := l; qpop := [] |} ];
     wg := 0;
     threads := [ {| tph := PIdle; tcalls := map (CAdd 0) vs; tloop := LNone; tres := r |} ] |}.

Definition ctor_mid (cap : nat) (l : list Z) (v : Z) (vs : list Z) (r : list result) : config :=
  {| queues := [ {| qvals := l ++ [v]; qtok := length l; qcap := cap; qclosed := false;
                    qapp := l ++ [v]; qpop := [] |} ];
     wg := 0;
     threads := [ {| tph := PSend 0; tcalls := map (CAdd 0) (v :: vs); tloop := LNone; tres := r |} ] |}.

Lemma ctor_step1 cap l v vs r :
  step (ctor_state cap l (v :: vs) r) 0 = Some (ctor_mid cap l v vs r).
Proof. reflexivity. Qed.

Lemma ctor_step2 cap l v vs r : length l < cap ->
  step (ctor_mid cap l v vs r) 0 = Some (ctor_state cap (l ++ [v]) vs (r ++ [RAdded])).
Proof.
  intros Hlt. unfold step. cbn -[Nat.ltb].
  destruct (Nat.ltb_spec (length l) cap) as [_|Hge]; [|lia]. cbn.
  unfold ctor_state. rewrite app_length. simpl. rewrite Nat.add_1_r. reflexivity.
Qed.

Lemma ctor_run cap vs : forall l r,
  length l + length vs <= cap ->
  run_strict (ctor_state cap l vs r) (repeat 0 (2 * length vs)) =
  Some (ctor_state cap (l ++ vs) [] (r ++ repeat RAdded (length vs))).
Proof.
  induction vs as [|v vs IH]; intros l r Hle; simpl length.
  - simpl. now rewrite !app_nil_r.
  - replace (2 * S (length vs)) with (S (S (2 * length vs))) by lia.
    simpl in Hle. cbn [repeat run_strict].
    rewrite ctor_step1, ctor_step2 by lia.
    rewrite IH by (rewrite app_length; simpl; lia).
    now rewrite <- !app_assoc.
Qed.

Theorem ctor_never_blocks n vs :
  length vs = n ->
  let cap := Nat.max (Z.to_nat queue_default_capacity) n in
  exists c,
    run_strict (ctor_config cap vs) (repeat 0 (2 * n)) = Some c /\
    run (ctor_config cap vs) (repeat 0 (2 * n)) = c /\
    final c = true /\ deadlocked c = false /\
    qvals (getq c 0) = vs /\ qtok (getq c 0) = n /\
    tres (gett c 0) = repeat RAdded n /\ tph (gett c 0) = PIdle.
Proof.
  intros Hn cap.
  pose proof (ctor_run cap vs [] []) as H. simpl in H.
  assert (Hle : length vs <= cap) by (unfold cap; lia).
  specialize (H Hle). rewrite Hn in H.
  exists (ctor_state cap vs [] (repeat RAdded n)).
  assert (Hs : run_strict (ctor_config cap vs) (repeat 0 (2 * n)) =
               Some (ctor_state cap vs [] (repeat RAdded n))) by exact H.
  split; [exact Hs|]. split.
  { clear - Hs. revert Hs. generalize (ctor_config cap vs) as c0.
    generalize (repeat 0 (2 * n)) as s. induction s as [|t s IH]; intros c0; simpl.
    - congruence.
    - destruct (step c0 t); [apply IH|discriminate]. }
  simpl. rewrite Hn. repeat split; auto.
Qed.

Lemma ctor_refuted_if_unsized :
  let cap := Z.to_nat queue_default_capacity in
  let vs := map Z.of_nat (seq 1 (S cap)) in
  length vs = S cap /\
  deadlocked (run (ctor_config cap vs) (repeat 0 (2 * S cap))) = true /\
  tph (gett (run (ctor_config cap vs) (repeat 0 (2 * S cap))) 0) = PSend 0.
Proof. vm_compute. repeat split. Qed.

(* ------------------------------------------------------------------------- *)
(* a measure that every step decreases (programs without helper loops)       *)
(* ------------------------------------------------------------------------- *)

Definition call_cost (k : call) : nat := match k with CAdd _ _ => 4 | _ => 1 end.
Definition calls_cost (l : list call) : nat := list_sum (map call_cost l).

Definition th_cost (th : thread) : nat :=
  match tph th with
  | PStuck => 0
  | PIdle => calls_cost (tcalls th)
  | PSend _ => calls_cost (tcalls th) - 1
  | PPop _ | PDiscard _ => calls_cost (tcalls th) + 1
  end.

(* remaining work: 2 per buffered token (claim + pop), per pending call its micro-steps
   (AddValue: append, send and the later claim and pop of its value) *)
Definition mu (c : config) : nat :=
  2 * list_sum (map qtok (queues c)) + list_sum (map th_cost (threads c)).

Definition simple_loop (th : thread) : Prop := tloop th = LNone \/ exists q, tloop th = LConsumer q.
Definition simple (c : config) : Prop := Forall simple_loop (threads c).

Lemma calls_cost_app a b : calls_cost (a ++ b) = calls_cost a + calls_cost b.
Proof. unfold calls_cost. now rewrite map_app, list_sum_app. Qed.

Lemma simple_continue th v ok : simple_loop th ->
  (fst (continue (tloop th) v ok) = [] \/ exists q, ok = true /\ fst (continue (tloop th) v ok) = [CRemoveHead q]) /\
  (snd (continue (tloop th) v ok) = LNone \/ exists q, snd (continue (tloop th) v ok) = LConsumer q).
Proof.
  intros [H|[q H]]; rewrite H; simpl.
  - split; left; auto.
  - destruct ok; simpl; split; eauto.
Qed.

Lemma finish_head_fields th rest v ok :
  tcalls (finish_head th rest v ok) = rest ++ fst (continue (tloop th) v ok) /\
  tloop (finish_head th rest v ok) = snd (continue (tloop th) v ok).
Proof. unfold finish_head. destruct (continue (tloop th) v ok). split; reflexivity. Qed.

Lemma cost_finish_head th rest v ok : simple_loop th ->
  th_cost (finish_head th rest v ok) <= calls_cost rest + (if ok then 1 else 0).
Proof.
  intros Hs. unfold th_cost. rewrite tph_finish_head.
  rewrite (proj1 (finish_head_fields th rest v ok)), calls_cost_app.
  destruct (proj1 (simple_continue th v ok Hs)) as [E|[q [-> E]]]; rewrite E.
  - change (calls_cost []) with 0. destruct ok; lia.
  - change (calls_cost [CRemoveHead q]) with 1. lia.
Qed.

Lemma simple_gett c t : simple c -> t < length (threads c) -> simple_loop (gett c t).
Proof. intros H Hlt. unfold gett. unfold simple in H. rewrite Forall_forall in H. apply H. now apply nth_In. Qed.

Lemma step_preserves_simple c t c' : simple c -> step c t = Some c' -> simple c'.
Proof.
  intros HS H. pose proof (step_tid _ _ _ H) as Hlt.
  pose proof (simple_gett c t HS Hlt) as Hs.
  apply step_stepR in H; stepR_cases H; unfold simple; simpl; apply Forall_set_nth; auto;
    unfold simple_loop; rewrite ?(proj2 (finish_head_fields _ _ _ _));
    try exact Hs; apply (proj2 (simple_continue _ _ _ Hs)).
Qed.

Lemma mu_update c q s' t th' :
  t < length (threads c) ->
  2 * qtok s' + th_cost th' < 2 * qtok (getq c q) + th_cost (gett c t) ->
  mu (sett (setq c q s') t th') < mu c.
Proof.
  intros Hlt H. unfold mu. simpl.
  pose proof (sum_set_nth th_cost t th' (threads c) dummyt Hlt) as Ht. fold (gett c t) in Ht.
  destruct (Nat.lt_ge_cases q (length (queues c))) as [Hq|Hq].
  - pose proof (sum_set_nth qtok q s' (queues c) dummyq Hq) as Hs. fold (getq c q) in Hs. lia.
  - rewrite set_nth_oob by auto. rewrite getq_oob in H by auto. simpl in H. lia.
Qed.

Lemma mu_update_t c t th' :
  t < length (threads c) -> th_cost th' < th_cost (gett c t) -> mu (sett c t th') < mu c.
Proof.
  intros Hlt H. unfold mu. simpl.
  pose proof (sum_set_nth th_cost t th' (threads c) dummyt Hlt) as Ht. fold (gett c t) in Ht. lia.
Qed.

Lemma cost_idle th k rest : tph th = PIdle -> tcalls th = k :: rest ->
  th_cost th = call_cost k + calls_cost rest.
Proof. intros Hp Hc. unfold th_cost. rewrite Hp, Hc. reflexivity. Qed.

Lemma cost_send th q k rest : tph th = PSend q -> tcalls th = k :: rest ->
  th_cost th = call_cost k + calls_cost rest - 1.
Proof. intros Hp Hc. unfold th_cost. rewrite Hp, Hc. reflexivity. Qed.

Lemma cost_pop th q k rest : tph th = PPop q -> tcalls th = k :: rest ->
  th_cost th = call_cost k + calls_cost rest + 1.
Proof. intros Hp Hc. unfold th_cost. rewrite Hp, Hc. reflexivity. Qed.

Lemma cost_disc th q : tph th = PDiscard q -> th_cost th = calls_cost (tcalls th) + 1.
Proof. intros Hp. unfold th_cost. now rewrite Hp. Qed.

Lemma cost_in_phase th p k rest : tcalls th = k :: rest ->
  th_cost (in_phase th p) =
  match p with
  | PStuck => 0
  | PIdle => call_cost k + calls_cost rest
  | PSend _ => call_cost k + calls_cost rest - 1
  | PPop _ | PDiscard _ => call_cost k + calls_cost rest + 1
  end.
Proof. intros Hc. unfold th_cost. simpl. rewrite Hc. destruct p; reflexivity. Qed.

Lemma cost_finish th rest r : th_cost (finish th rest r) = calls_cost rest.
Proof. reflexivity. Qed.

Lemma cost_stuck th : th_cost (stuck th) = 0.
Proof. reflexivity. Qed.

Theorem step_decreases_mu c t c' : simple c -> step c t = Some c' -> mu c' < mu c.
Proof.
  intros HS H. pose proof (step_tid _ _ _ H) as Hlt.
  pose proof (simple_gett c t HS Hlt) as Hs.
  assert (HT : forall q, tph (gett c t) = PDiscard q -> 0 < th_cost (gett c t)).
  { intros q Hp. rewrite (cost_disc _ _ Hp). lia. }
  apply step_stepR in H; stepR_cases H;
    first [ apply mu_update; [exact Hlt|] | apply mu_update_t; [exact Hlt|] | idtac ];
    rewrite ?cost_finish, ?cost_stuck, ?(cost_in_phase _ _ _ _ Hc); cbn [qtok].
  - rewrite (cost_idle _ _ _ Hph Hc). simpl. lia.
  - rewrite (cost_send _ _ _ _ Hph Hc). simpl. lia.
  - rewrite (cost_send _ _ _ _ Hph Hc). simpl. lia.
  - rewrite (cost_idle _ _ _ Hph Hc). simpl. lia.
  - rewrite (cost_idle _ _ _ Hph Hc). cbn [call_cost].
    pose proof (cost_finish_head (gett c t) rest 0%Z false Hs) as Hf. cbv iota in Hf. lia.
  - rewrite (cost_pop _ _ _ _ Hph Hc). cbn [call_cost].
    pose proof (cost_finish_head (gett c t) rest v true Hs) as Hf. cbv iota in Hf. lia.
  - rewrite (cost_pop _ _ _ _ Hph Hc). simpl. lia.
  - rewrite (cost_idle _ _ _ Hph Hc). simpl. lia.
  - rewrite (cost_idle _ _ _ Hph Hc). simpl. lia.
  - rewrite (cost_idle _ _ _ Hph Hc). simpl. lia.
  - rewrite (cost_idle _ _ _ Hph Hc). simpl. lia.
  - rewrite (cost_disc _ _ Hph). unfold th_cost. simpl. lia.
  - specialize (HT q Hph). lia.
  - rewrite (cost_idle _ _ _ Hph Hc). simpl. lia.
  - rewrite (cost_idle _ _ _ Hph Hc). simpl. lia.
  - rewrite (cost_idle _ _ _ Hph Hc). simpl. lia.
  - rewrite (cost_idle _ _ _ Hph Hc). simpl. lia.
  - (* wait-group decrement: the measure ignores wg *)
    change (mu (sett c t (finish (gett c t) rest RDoneWg)) < mu c).
    apply mu_update_t; [exact Hlt|]. rewrite cost_finish, (cost_idle _ _ _ Hph Hc). simpl. lia.
Qed.

Lemma run_strict_run c s c' : run_strict c s = Some c' -> run c s = c'.
Proof.
  revert c; induction s as [|t s IH]; intros c; simpl.
  - congruence.
  - destruct (step c t); [apply IH|discriminate].
Qed.

Lemma run_preserves_simple c s : simple c -> simple (run c s).
Proof. apply run_ind_inv. intros; eapply step_preserves_simple; eauto. Qed.

(* a schedule that only names enabled threads is no longer than the measure *)
Theorem run_strict_bound c s c' :
  simple c -> run_strict c s = Some c' -> length s + mu c' <= mu c.
Proof.
  revert c; induction s as [|t s IH]; intros c HS; simpl.
  - intros E; inversion E; lia.
  - destruct (step c t) as [c1|] eqn:E; [|discriminate]. intros H.
    pose proof (step_decreases_mu _ _ _ HS E).
    specialize (IH c1 (step_preserves_simple _ _ _ HS E) H). lia.
Qed.

(* ------------------------------------------------------------------------- *)
(* well-formed producer/consumer programs                                    *)
(* ------------------------------------------------------------------------- *)

Definition producer (vs : list Z) : thread := client (map (CAdd 0) vs ++ [CDone]).
Definition closer : thread := client [CWait; CClose 0].
Definition drainer : thread := client [CRemoveAll 0].

(* producers, one closer behind the wait group, nc >= 1 consumers, nd RemoveAll callers *)
Definition pc_config (cap : nat) (vss : list (list Z)) (nc nd : nat) : config :=
  {| queues := [mkq cap]; wg := length vss;
     threads := map producer vss ++ [closer] ++ repeat (consumer 0) nc ++ repeat drainer nd |}.

Definition is_done (k : call) : bool := match k with CDone => true | _ => false end.
Definition is_wait (k : call) : bool := match k with CWait => true | _ => false end.
Definition is_close (k : call) : bool := match k with CClose _ => true | _ => false end.
Definition has_done (th : thread) : bool := existsb is_done (tcalls th).
Definition has_wait (th : thread) : bool := existsb is_wait (tcalls th).
Definition has_close (th : thread) : bool := existsb is_close (tcalls th).
Definition is_cons (th : thread) : bool := match tloop th with LConsumer _ => true | _ => false end.

(* the states a thread of such a program can be in *)
Inductive shape (th : thread) : Prop :=
| ShP1 ws : tloop th = LNone -> tph th = PIdle ->
            tcalls th = map (CAdd 0) ws ++ [CDone] -> shape th
| ShP2 w ws : tloop th = LNone -> tph th = PSend 0 ->
              tcalls th = CAdd 0 w :: map (CAdd 0) ws ++ [CDone] -> shape th
| ShK0 : tloop th = LNone -> tph th = PIdle -> tcalls th = [CWait; CClose 0] -> shape th
| ShK1 : tloop th = LNone -> tph th = PIdle -> tcalls th = [CClose 0] -> shape th
| ShC1 : tloop th = LConsumer 0 -> tph th = PIdle -> tcalls th = [CRemoveHead 0] -> shape th
| ShC2 : tloop th = LConsumer 0 -> tph th = PPop 0 -> tcalls th = [CRemoveHead 0] -> shape th
| ShD1 : tloop th = LNone -> tph th = PIdle -> tcalls th = [CRemoveAll 0] -> shape th
| ShD2 : tloop th = LNone -> tph th = PDiscard 0 -> tcalls th = [CRemoveAll 0] -> shape th
| ShZ : tloop th = LNone -> tph th = PIdle -> tcalls th = [] -> shape th.

Record W (c : config) : Prop := {
  W_inv : Inv2 c;
  W_len : length (queues c) = 1;
  W_cap : 1 <= qcap (getq c 0);
  W_shape : Forall shape (threads c);
  W_wg : wg c = cnt has_done (threads c);
  W_close : cnt has_close (threads c) + b2n (qclosed (getq c 0)) = 1;
  W_wait : cnt has_wait (threads c) = 0 -> wg c = 0;
  W_cons : 1 <= cnt is_cons (threads c) \/ (qclosed (getq c 0) = true /\ qtok (getq c 0) = 0)
}.

Lemma existsb_adds f ws : (forall v, f (CAdd 0 v) = false) -> existsb f (map (CAdd 0) ws) = false.
Proof. intros Hf. induction ws as [|w ws IH]; simpl; auto. now rewrite Hf, IH. Qed.

Definition cls (th : thread) : bool * bool * bool * bool :=
  (has_done th, has_wait th, has_close th, is_cons th).

Lemma cls_P th ws : tloop th = LNone -> tcalls th = map (CAdd 0) ws ++ [CDone] ->
  cls th = (true, false, false, false).
Proof.
  intros Hl Hc. unfold cls, has_done, has_wait, has_close, is_cons. rewrite Hl, Hc.
  rewrite !existsb_app, !existsb_adds by reflexivity. reflexivity.
Qed.

Lemma cls_lit th l lp : tloop th = lp -> tcalls th = l ->
  cls th = (existsb is_done l, existsb is_wait l, existsb is_close l,
            match lp with LConsumer _ => true | _ => false end).
Proof. intros Hl Hc. unfold cls, has_done, has_wait, has_close, is_cons. now rewrite Hl, Hc. Qed.

Lemma cnt_upd p c t th' a b :
  t < length (threads c) -> p (gett c t) = a -> p th' = b ->
  cnt p (set_nth t th' (threads c)) + b2n a = cnt p (threads c) + b2n b.
Proof. intros Hlt <- <-. now apply cnt_set_nth. Qed.

Lemma cls_upd c t th' a1 a2 a3 a4 b1 b2 b3 b4 :
  t < length (threads c) -> cls (gett c t) = (a1, a2, a3, a4) -> cls th' = (b1, b2, b3, b4) ->
  cnt has_done (set_nth t th' (threads c)) + b2n a1 = cnt has_done (threads c) + b2n b1 /\
  cnt has_wait (set_nth t th' (threads c)) + b2n a2 = cnt has_wait (threads c) + b2n b2 /\
  cnt has_close (set_nth t th' (threads c)) + b2n a3 = cnt has_close (threads c) + b2n b3 /\
  cnt is_cons (set_nth t th' (threads c)) + b2n a4 = cnt is_cons (threads c) + b2n b4.
Proof.
  intros Hlt Ho Hn. unfold cls in *. inversion Ho; inversion Hn.
  repeat split; apply cnt_upd; auto.
Qed.

Lemma finish_head_cons_true th rest v : tloop th = LConsumer 0 ->
  finish_head th rest v true =
  {| tph := PIdle; tcalls := rest ++ [CRemoveHead 0]; tloop := LConsumer 0;
     tres := tres th ++ [RHead v true] |}.
Proof. intros H. unfold finish_head. rewrite H. reflexivity. Qed.

Lemma finish_head_cons_false th rest v : tloop th = LConsumer 0 ->
  finish_head th rest v false =
  {| tph := PIdle; tcalls := rest ++ []; tloop := LNone; tres := tres th ++ [RHead v false] |}.
Proof. intros H. unfold finish_head. rewrite H. reflexivity. Qed.

Lemma shape_gett c t : Forall shape (threads c) -> t < length (threads c) -> shape (gett c t).
Proof. intros H Hlt. unfold gett. rewrite Forall_forall in H. apply H. now apply nth_In. Qed.

Lemma W_intro c c' t th' (a1 a2 a3 a4 b1 b2 b3 b4 : bool) :
  t < length (threads c) -> threads c' = set_nth t th' (threads c) ->
  Inv2 c' -> length (queues c') = 1 -> 1 <= qcap (getq c' 0) ->
  Forall shape (threads c) -> shape th' ->
  cls (gett c t) = (a1, a2, a3, a4) -> cls th' = (b1, b2, b3, b4) ->
  (forall d w k cs,
     d + b2n a1 = cnt has_done (threads c) + b2n b1 ->
     w + b2n a2 = cnt has_wait (threads c) + b2n b2 ->
     k + b2n a3 = cnt has_close (threads c) + b2n b3 ->
     cs + b2n a4 = cnt is_cons (threads c) + b2n b4 ->
     wg c' = d /\ k + b2n (qclosed (getq c' 0)) = 1 /\ (w = 0 -> wg c' = 0) /\
     (1 <= cs \/ (qclosed (getq c' 0) = true /\ qtok (getq c' 0) = 0))) ->
  W c'.
Proof.
  intros Hlt Hth HI Hlen Hcap Hsh Hsh' Ho Hn Har.
  destruct (cls_upd c t th' _ _ _ _ _ _ _ _ Hlt Ho Hn) as (E1 & E2 & E3 & E4).
  rewrite <- Hth in E1, E2, E3, E4.
  destruct (Har _ _ _ _ E1 E2 E3 E4) as (A & B & C & D).
  constructor; auto. rewrite Hth. now apply Forall_set_nth.
Qed.

Ltac w_intro c t :=
  match goal with
  | HI' : Inv2 _, Hql : length (queues _) = length (queues c),
    Hcap : qcap (getq _ 0) = qcap (getq c 0) |- _ =>
    eapply (W_intro c _ t);
    [ eassumption | reflexivity | exact HI' | congruence | rewrite Hcap; assumption
    | eassumption | | | | ]
  end.

Ltac w_arith3 c HWt :=
  intros Hz; first [ lia | (assert (Hz' : cnt has_wait (threads c) = 0) by lia;
                             specialize (HWt Hz'); simpl; lia) ].
Ltac w_arith4 Hcons :=
  first [ (right; split; [assumption | lia])
        | (destruct Hcons as [Hc1|[Hc2 Hc3]];
           [ left; lia
           | first [ lia | discriminate | congruence | (right; split; [assumption | lia]) ] ]) ].
Ltac w_arith c HWt Hcons :=
  split; [ lia | split; [ lia | split; [ w_arith3 c HWt | w_arith4 Hcons ] ] ].

Lemma step_preserves_W c t c' : W c -> step c t = Some c' -> W c'.
Proof.
  intros HW H.
  assert (HI' : Inv2 c') by (eapply step_preserves_inv2; eauto; apply HW).
  pose proof (step_tid _ _ _ H) as Hlt.
  pose proof (step_queues_length _ _ _ H) as Hql.
  pose proof (step_cap _ _ _ 0 H) as Hcap.
  destruct HW as [HI Hlen Hcap1 Hsh HWg Hk HWt Hcons].
  pose proof (shape_gett c t Hsh Hlt) as Hs.
  assert (Hq0 : 0 < length (queues c)) by lia.
  assert (Hle : qtok (getq c 0) <= qcap (getq c 0)) by (apply tok_le_cap; apply HI).
  apply step_stepR in H. revert HI' Hql Hcap.
  destruct Hs as [ws Hl Hp Hcs | w ws Hl Hp Hcs | Hl Hp Hcs | Hl Hp Hcs | Hl Hp Hcs
                 | Hl Hp Hcs | Hl Hp Hcs | Hl Hp Hcs | Hl Hp Hcs].
  - (* producer between calls *)
    destruct ws as [|w ws]; simpl in Hcs; stepR_cases H; try congruence;
      rewrite Hcs in Hc; inversion Hc; subst; intros HI' Hql Hcap.
    + (* Done *)
      w_intro c t.
      * apply ShZ; auto.
      * apply (cls_P _ [] Hl Hcs).
      * apply (cls_lit _ [] LNone); auto.
      * intros d w k cs E1 E2 E3 E4. simpl in E1, E2, E3, E4.
        change (getq (sett _ t _) 0) with (getq c 0). simpl wg.
        w_arith c HWt Hcons.
    + (* append *)
      w_intro c t.
      * apply (ShP2 _ v ws); auto.
      * apply (cls_P _ (v :: ws) Hl Hcs).
      * apply (cls_P _ (v :: ws) Hl Hcs).
      * intros d w0 k cs E1 E2 E3 E4. simpl in E1, E2, E3, E4.
        rewrite getq_sett, getq_setq_eq by lia. simpl.
        w_arith c HWt Hcons.
  - (* producer before its send *)
    stepR_cases H; try congruence; rewrite Hcs in Hc; inversion Hc; subst;
      rewrite Hp in Hph; inversion Hph; subst; intros HI' Hql Hcap.
    + (* send *)
      w_intro c t.
      * apply (ShP1 _ ws); auto.
      * apply (cls_P _ (v :: ws) Hl Hcs).
      * apply (cls_P (finish (gett c t) (map (CAdd 0) ws ++ [CDone]) RAdded) ws); auto.
      * intros d w0 k cs E1 E2 E3 E4. simpl in E1, E2, E3, E4.
        rewrite getq_sett, getq_setq_eq by lia. simpl. rewrite Hcl in *. simpl in Hk.
        w_arith c HWt Hcons.
    + (* send on a closed queue: impossible, the closer waits for this producer *)
      exfalso. rewrite Hcl in Hk. simpl in Hk.
      assert (Hz : cnt has_wait (threads c) = 0).
      { assert (Hkz : cnt has_close (threads c) = 0) by lia.
        destruct (Nat.eq_dec (cnt has_wait (threads c)) 0) as [|Hne]; auto.
        destruct (cnt_pos_ex has_wait (threads c) ltac:(lia)) as (t' & Hlt' & Ht').
        pose proof (shape_gett c t' Hsh Hlt') as Hs'. unfold gett in Hs'.
        exfalso. apply (cnt_zero_all has_close (threads c) t' Hkz); auto.
        unfold has_wait in Ht'. unfold has_close.
        destruct Hs' as [ws' ? ? E | w' ws' ? ? E | ? ? E | ? ? E | ? ? E | ? ? E | ? ? E | ? ? E | ? ? E];
          rewrite E in *; try reflexivity; try (simpl in Ht'; discriminate).
        - rewrite existsb_app, existsb_adds in Ht' by reflexivity. discriminate.
        - simpl in Ht'. rewrite existsb_app, existsb_adds in Ht' by reflexivity. discriminate. }
      specialize (HWt Hz).
      assert (Hpos : 0 < cnt has_done (threads c)).
      { apply (cnt_ex_pos has_done (threads c) t Hlt).
        fold (gett c t). pose proof (cls_P _ (v :: ws) Hl Hcs) as Hcls. now inversion Hcls. }
      lia.
  - (* closer waiting *)
    stepR_cases H; try congruence; rewrite Hcs in Hc; inversion Hc; subst; intros HI' Hql Hcap.
    w_intro c t.
    + apply ShK1; auto.
    + apply (cls_lit _ [CWait; CClose 0] LNone); auto.
    + apply (cls_lit _ [CClose 0] LNone); auto.
    + intros d w k cs E1 E2 E3 E4. simpl in E1, E2, E3, E4.
      change (getq (sett _ t _) 0) with (getq c 0). simpl wg.
      w_arith c HWt Hcons.
  - (* closer closing *)
    stepR_cases H; try congruence; rewrite Hcs in Hc; inversion Hc; subst; intros HI' Hql Hcap.
    + w_intro c t.
      * apply ShZ; auto.
      * apply (cls_lit _ [CClose 0] LNone); auto.
      * apply (cls_lit _ [] LNone); auto.
      * intros d w k cs E1 E2 E3 E4. simpl in E1, E2, E3, E4.
        rewrite getq_sett, getq_setq_eq by lia. simpl. rewrite Hcl in *. simpl in Hk.
        assert (Hkk : 1 <= cnt has_close (threads c)).
        { apply (cnt_ex_pos has_close (threads c) t Hlt). fold (gett c t).
          unfold has_close. rewrite Hcs. reflexivity. }
        split; [lia | split; [lia | split; [|w_arith4 Hcons]]].
        { intros _. apply HWt.
          (* the only thread that can still wait is the closer itself, which is past it *)
          destruct (Nat.eq_dec (cnt has_wait (threads c)) 0) as [|Hne]; auto. exfalso.
          destruct (cnt_pos_ex has_wait (threads c) ltac:(lia)) as (t' & Hlt' & Ht').
          destruct (Nat.eq_dec t' t) as [->|Hnet].
          - fold (gett c t) in Ht'. unfold has_wait in Ht'. rewrite Hcs in Ht'. discriminate.
          - (* a second thread with a pending close contradicts the count *)
            assert (Hc2 : has_close (nth t' (threads c) dummyt) = true).
            { pose proof (shape_gett c t' Hsh Hlt') as Hs'. unfold gett in Hs'.
              unfold has_wait in Ht'. unfold has_close.
              destruct Hs' as [ws' ? ? E | w' ws' ? ? E | ? ? E | ? ? E | ? ? E | ? ? E | ? ? E | ? ? E | ? ? E];
                rewrite E in *; try reflexivity; try (simpl in Ht'; discriminate).
              - rewrite existsb_app, existsb_adds in Ht' by reflexivity. discriminate.
              - simpl in Ht'. rewrite existsb_app, existsb_adds in Ht' by reflexivity. discriminate. }
            pose proof (cnt_set_nth has_close t dummyt (threads c) Hlt) as Hrm.
            fold (gett c t) in Hrm.
            assert (Hct : has_close (gett c t) = true) by (unfold has_close; rewrite Hcs; reflexivity).
            rewrite Hct in Hrm. simpl in Hrm.
            assert (Hpos : 0 < cnt has_close (set_nth t dummyt (threads c))).
            { apply (cnt_ex_pos _ _ t'); [now rewrite set_nth_length|].
              rewrite nth_set_nth_neq by auto. exact Hc2. }
            lia. }
    + (* close of a closed queue: there is only one closer *)
      exfalso. rewrite Hcl in Hk. simpl in Hk.
      assert (Hkk : 1 <= cnt has_close (threads c)).
      { apply (cnt_ex_pos has_close (threads c) t Hlt). fold (gett c t).
        unfold has_close. rewrite Hcs. reflexivity. }
      lia.
  - (* consumer about to receive *)
    stepR_cases H; try congruence; rewrite Hcs in Hc; inversion Hc; subst; intros HI' Hql Hcap.
    + (* claim *)
      w_intro c t.
      * apply ShC2; auto.
      * apply (cls_lit _ [CRemoveHead 0] (LConsumer 0)); auto.
      * apply (cls_lit _ [CRemoveHead 0] (LConsumer 0)); auto.
      * intros d w k cs E1 E2 E3 E4. simpl in E1, E2, E3, E4.
        rewrite getq_sett, getq_setq_eq by lia. simpl.
        w_arith c HWt Hcons.
    + (* closed and drained: the consumer finishes *)
      rewrite (finish_head_cons_false _ _ _ Hl) in *.
      w_intro c t.
      * apply ShZ; auto.
      * apply (cls_lit _ [CRemoveHead 0] (LConsumer 0)); auto.
      * apply (cls_lit _ [] LNone); auto.
      * intros d w k cs E1 E2 E3 E4. simpl in E1, E2, E3, E4.
        change (getq (sett _ t _) 0) with (getq c 0). simpl wg.
        w_arith c HWt Hcons.
  - (* consumer about to pop *)
    stepR_cases H; try congruence; rewrite Hcs in Hc; inversion Hc; subst;
      rewrite Hp in Hph; inversion Hph; subst; intros HI' Hql Hcap.
    + rewrite (finish_head_cons_true _ _ _ Hl) in *.
      w_intro c t.
      * apply ShC1; auto.
      * apply (cls_lit _ [CRemoveHead 0] (LConsumer 0)); auto.
      * apply (cls_lit _ [CRemoveHead 0] (LConsumer 0)); auto.
      * intros d w k cs E1 E2 E3 E4. simpl in E1, E2, E3, E4.
        rewrite getq_sett, getq_setq_eq by lia. simpl.
        w_arith c HWt Hcons.
    + (* pop on an empty list: excluded by the queue invariant *)
      exfalso. pose proof (holds_le_vals c 0 t (proj1 HI) Hq0 Hlt) as Hle'.
      rewrite (holds_pop 0 0 _ Hp), Hv in Hle'. simpl in Hle'. lia.
  - (* RemoveAll between rounds *)
    stepR_cases H; try congruence; rewrite Hcs in Hc; inversion Hc; subst; intros HI' Hql Hcap.
    + w_intro c t.
      * apply ShD2; auto.
      * apply (cls_lit _ [CRemoveAll 0] LNone); auto.
      * apply (cls_lit _ [CRemoveAll 0] LNone); auto.
      * intros d w k cs E1 E2 E3 E4. simpl in E1, E2, E3, E4.
        rewrite getq_sett, getq_setq_eq by lia. simpl.
        w_arith c HWt Hcons.
    + w_intro c t.
      * apply ShZ; auto.
      * apply (cls_lit _ [CRemoveAll 0] LNone); auto.
      * apply (cls_lit _ [] LNone); auto.
      * intros d w k cs E1 E2 E3 E4. simpl in E1, E2, E3, E4.
        change (getq (sett _ t _) 0) with (getq c 0). simpl wg.
        w_arith c HWt Hcons.
  - (* RemoveAll about to discard *)
    stepR_cases H; try congruence; rewrite Hp in Hph; inversion Hph; subst; intros HI' Hql Hcap.
    + w_intro c t.
      * apply ShD1; auto.
      * apply (cls_lit _ [CRemoveAll 0] LNone); auto.
      * apply (cls_lit _ [CRemoveAll 0] LNone); auto.
      * intros d w k cs E1 E2 E3 E4. simpl in E1, E2, E3, E4.
        rewrite getq_sett, getq_setq_eq by lia. simpl.
        w_arith c HWt Hcons.
    + exfalso. pose proof (holds_le_vals c 0 t (proj1 HI) Hq0 Hlt) as Hle'.
      rewrite (holds_disc 0 0 _ Hp), Hv in Hle'. simpl in Hle'. lia.
  - (* finished thread: no step *)
    stepR_cases H; congruence.
Qed.

(* ------------------------------------------------------------------------- *)
(* the initial configuration of a producer/consumer program satisfies W      *)
(* ------------------------------------------------------------------------- *)

Lemma cnt_app p a b : cnt p (a ++ b) = cnt p a + cnt p b.
Proof. unfold cnt. now rewrite filter_app, app_length. Qed.

Lemma cnt_const p (b : bool) l : (forall x, In x l -> p x = b) -> cnt p l = if b then length l else 0.
Proof.
  unfold cnt. induction l as [|h tl IH]; intros H; simpl.
  - now destruct b.
  - rewrite (H h (or_introl eq_refl)). specialize (IH (fun x Hx => H x (or_intror Hx))).
    destruct b; simpl; lia.
Qed.

Lemma cls_producer vs : cls (producer vs) = (true, false, false, false).
Proof. apply (cls_P _ vs); reflexivity. Qed.

Lemma pc_threads_cls cap vss nc nd :
  let ths := threads (pc_config cap vss nc nd) in
  cnt has_done ths = length vss /\ cnt has_wait ths = 1 /\ cnt has_close ths = 1 /\
  cnt is_cons ths = nc.
Proof.
  intros ths; subst ths. unfold pc_config. cbn [threads]. rewrite !cnt_app.
  assert (P : forall x, In x (map producer vss) -> cls x = (true, false, false, false)).
  { intros x Hx. apply in_map_iff in Hx. destruct Hx as (vs & <- & _). apply cls_producer. }
  assert (C : forall x, In x (repeat (consumer 0) nc) -> cls x = (false, false, false, true)).
  { intros x Hx. apply repeat_spec in Hx. now subst. }
  assert (D : forall x, In x (repeat drainer nd) -> cls x = (false, false, false, false)).
  { intros x Hx. apply repeat_spec in Hx. now subst. }
  unfold cls in P, C, D.
  repeat split.
  - rewrite (cnt_const has_done true (map producer vss)) by (intros x Hx; specialize (P x Hx); congruence).
    rewrite (cnt_const has_done false (repeat _ nc)) by (intros x Hx; specialize (C x Hx); congruence).
    rewrite (cnt_const has_done false (repeat _ nd)) by (intros x Hx; specialize (D x Hx); congruence).
    rewrite map_length. unfold cnt; simpl. lia.
  - rewrite (cnt_const has_wait false (map producer vss)) by (intros x Hx; specialize (P x Hx); congruence).
    rewrite (cnt_const has_wait false (repeat _ nc)) by (intros x Hx; specialize (C x Hx); congruence).
    rewrite (cnt_const has_wait false (repeat _ nd)) by (intros x Hx; specialize (D x Hx); congruence).
    unfold cnt; simpl. lia.
  - rewrite (cnt_const has_close false (map producer vss)) by (intros x Hx; specialize (P x Hx); congruence).
    rewrite (cnt_const has_close false (repeat _ nc)) by (intros x Hx; specialize (C x Hx); congruence).
    rewrite (cnt_const has_close false (repeat _ nd)) by (intros x Hx; specialize (D x Hx); congruence).
    unfold cnt; simpl. lia.
  - rewrite (cnt_const is_cons false (map producer vss)) by (intros x Hx; specialize (P x Hx); congruence).
    rewrite (cnt_const is_cons true (repeat _ nc)) by (intros x Hx; specialize (C x Hx); congruence).
    rewrite (cnt_const is_cons false (repeat _ nd)) by (intros x Hx; specialize (D x Hx); congruence).
    rewrite repeat_length. unfold cnt; simpl. lia.
Qed.

Lemma pc_initial cap vss nc nd : initial (pc_config cap vss nc nd).
Proof.
  split; [exists [cap]; reflexivity|]. unfold pc_config. cbn [threads].
  repeat (apply Forall_app; split); try (repeat constructor; fail).
  - apply Forall_forall. intros x Hx. apply in_map_iff in Hx. destruct Hx as (vs & <- & _). split; reflexivity.
  - apply Forall_forall. intros x Hx. apply repeat_spec in Hx. subst. split; reflexivity.
  - apply Forall_forall. intros x Hx. apply repeat_spec in Hx. subst. split; reflexivity.
Qed.

Lemma pc_W cap vss nc nd : 1 <= cap -> 1 <= nc -> W (pc_config cap vss nc nd).
Proof.
  intros Hcap Hnc. destruct (pc_threads_cls cap vss nc nd) as (A & B & C & D).
  pose proof (pc_initial cap vss nc nd) as Hi.
  constructor.
  - split; [now apply initial_inv | now apply initial_rng].
  - reflexivity.
  - exact Hcap.
  - unfold pc_config. cbn [threads]. repeat (apply Forall_app; split).
    + apply Forall_forall. intros x Hx. apply in_map_iff in Hx. destruct Hx as (vs & <- & _).
      apply (ShP1 _ vs); reflexivity.
    + constructor; [apply ShK0; reflexivity | constructor].
    + apply Forall_forall. intros x Hx. apply repeat_spec in Hx. subst. apply ShC1; reflexivity.
    + apply Forall_forall. intros x Hx. apply repeat_spec in Hx. subst. apply ShD1; reflexivity.
  - rewrite A. reflexivity.
  - rewrite C. reflexivity.
  - rewrite B. discriminate.
  - left. rewrite D. exact Hnc.
Qed.

Theorem reachable_W cap vss nc nd c :
  1 <= cap -> 1 <= nc -> reachable (pc_config cap vss nc nd) c -> W c.
Proof.
  intros Hcap Hnc [s <-]. apply (run_ind_inv W).
  - intros; eapply step_preserves_W; eauto.
  - now apply pc_W.
Qed.

(* ------------------------------------------------------------------------- *)
(* deadlock freedom                                                          *)
(* ------------------------------------------------------------------------- *)

Ltac kill_blocked Hb Hp Hcs :=
  destruct Hb as [Hd | q v rest Hph Hc Hcl Htok | q rest Hph Hc Hcl Htok | rest Hph Hc Hwg];
  [ unfold thread_done in Hd; rewrite Hp, ?Hcs in Hd; try discriminate
  | try congruence | try congruence | try congruence ].

Ltac kill_blocked2 Hb Hp Hcs :=
  destruct Hb as [Hd2 | q2 v2 rest2 Hph2 Hc2 Hcl2 Htok2 | q2 rest2 Hph2 Hc2 Hcl2 Htok2 | rest2 Hph2 Hc2 Hwg2];
  [ unfold thread_done in Hd2; rewrite Hp, ?Hcs in Hd2; try discriminate
  | try congruence | try congruence | try congruence ].

Section AllBlocked.
Variable c : config.
Hypothesis HW : W c.
Hypothesis Hall : forall t, t < length (threads c) -> step c t = None.

Let HI : Inv c := proj1 (W_inv c HW).

Lemma blk t : t < length (threads c) -> blocked c t.
Proof. intros Hlt. apply (enabledness c t HI). now apply Hall. Qed.

Lemma adds_done_nonnil ws : map (CAdd 0) ws ++ [CDone] <> [].
Proof. destruct ws; discriminate. Qed.

(* a producer between calls is never blocked *)
Lemma no_P1 t ws : t < length (threads c) ->
  tph (gett c t) = PIdle -> tcalls (gett c t) = map (CAdd 0) ws ++ [CDone] -> False.
Proof.
  intros Hlt Hp Hcs. pose proof (blk t Hlt) as Hb.
  destruct ws as [|w ws]; simpl in Hcs; kill_blocked Hb Hp Hcs.
Qed.

(* a producer blocked on its send: the buffer is full, so a live consumer can claim *)
Lemma no_P2 t w ws : t < length (threads c) ->
  tph (gett c t) = PSend 0 -> tcalls (gett c t) = CAdd 0 w :: map (CAdd 0) ws ++ [CDone] -> False.
Proof.
  intros Hlt Hp Hcs. pose proof (blk t Hlt) as Hb. kill_blocked Hb Hp Hcs.
  rewrite Hp in Hph; inversion Hph; subst q.
  pose proof (W_cap c HW) as Hcap.
  destruct (W_cons c HW) as [Hc1|[Hc2 _]]; [|congruence].
  destruct (cnt_pos_ex is_cons (threads c) ltac:(lia)) as (t' & Hlt' & Ht').
  pose proof (shape_gett c t' (W_shape c HW) Hlt') as Hs'. fold (gett c t') in Ht'.
  unfold is_cons in Ht'.
  pose proof (blk t' Hlt') as Hb'.
  destruct Hs' as [ws' Hl' ? E | w' ws' Hl' ? E | Hl' ? E | Hl' ? E | Hl' Hp' E | Hl' Hp' E
                  | Hl' ? E | Hl' ? E | Hl' ? E]; rewrite Hl' in Ht'; try discriminate.
  - (* C1 *) kill_blocked2 Hb' Hp' E.
    rewrite E in Hc2; inversion Hc2; subst q2. lia.
  - (* C2 *) kill_blocked2 Hb' Hp' E.
Qed.

(* the closer blocked on the wait group: some producer has not finished, and is not blocked *)
Lemma no_K0 t : t < length (threads c) ->
  tph (gett c t) = PIdle -> tcalls (gett c t) = [CWait; CClose 0] -> False.
Proof.
  intros Hlt Hp Hcs. pose proof (blk t Hlt) as Hb. kill_blocked Hb Hp Hcs.
  rewrite (W_wg c HW) in Hwg.
  destruct (cnt_pos_ex has_done (threads c) Hwg) as (t' & Hlt' & Ht').
  pose proof (shape_gett c t' (W_shape c HW) Hlt') as Hs'. fold (gett c t') in Ht'.
  unfold has_done in Ht'.
  destruct Hs' as [ws' Hl' Hp' E | w' ws' Hl' Hp' E | Hl' ? E | Hl' ? E | Hl' ? E | Hl' ? E
                  | Hl' ? E | Hl' ? E | Hl' ? E]; try (rewrite E in Ht'; simpl in Ht'; discriminate).
  - eapply no_P1; eauto.
  - eapply no_P2; eauto.
Qed.

Lemma no_K1 t : t < length (threads c) ->
  tph (gett c t) = PIdle -> tcalls (gett c t) = [CClose 0] -> False.
Proof. intros Hlt Hp Hcs. pose proof (blk t Hlt) as Hb. kill_blocked Hb Hp Hcs. Qed.

(* a consumer blocked on an empty open queue: the closer is still to come, and is not blocked *)
Lemma no_C1 t : t < length (threads c) ->
  tph (gett c t) = PIdle -> tcalls (gett c t) = [CRemoveHead 0] -> False.
Proof.
  intros Hlt Hp Hcs. pose proof (blk t Hlt) as Hb. kill_blocked Hb Hp Hcs.
  rewrite Hcs in Hc; inversion Hc; subst q.
  pose proof (W_close c HW) as Hk. rewrite Hcl in Hk. simpl in Hk.
  destruct (cnt_pos_ex has_close (threads c) ltac:(lia)) as (t' & Hlt' & Ht').
  pose proof (shape_gett c t' (W_shape c HW) Hlt') as Hs'. fold (gett c t') in Ht'.
  unfold has_close in Ht'.
  destruct Hs' as [ws' Hl' Hp' E | w' ws' Hl' Hp' E | Hl' Hp' E | Hl' Hp' E | Hl' ? E | Hl' ? E
                  | Hl' ? E | Hl' ? E | Hl' ? E]; try (rewrite E in Ht'; simpl in Ht'; discriminate).
  - rewrite E, existsb_app, existsb_adds in Ht' by reflexivity. discriminate.
  - rewrite E in Ht'. simpl in Ht'. rewrite existsb_app, existsb_adds in Ht' by reflexivity. discriminate.
  - eapply no_K0; eauto.
  - eapply no_K1; eauto.
Qed.

Lemma all_blocked_final : final c = true.
Proof.
  unfold final. apply forallb_forall. intros th Hin.
  destruct (In_nth _ _ dummyt Hin) as (t & Hlt & Ht). fold (gett c t) in Ht.
  pose proof (shape_gett c t (W_shape c HW) Hlt) as Hs. rewrite Ht in Hs.
  pose proof (blk t Hlt) as Hb. rewrite <- Ht.
  rewrite <- Ht in Hs.
  destruct Hs as [ws Hl Hp E | w ws Hl Hp E | Hl Hp E | Hl Hp E | Hl Hp E | Hl Hp E
                 | Hl Hp E | Hl Hp E | Hl Hp E].
  - exfalso; eapply no_P1; eauto.
  - exfalso; eapply no_P2; eauto.
  - exfalso; eapply no_K0; eauto.
  - exfalso; eapply no_K1; eauto.
  - exfalso; eapply no_C1; eauto.
  - exfalso. kill_blocked Hb Hp E.
  - exfalso. kill_blocked Hb Hp E.
  - exfalso. kill_blocked Hb Hp E.
  - unfold thread_done. now rewrite Hp, E.
Qed.
End AllBlocked.

Theorem W_deadlock_free c : W c -> deadlocked c = false.
Proof.
  intros HW. unfold deadlocked.
  destruct (final c) eqn:Hf; simpl; auto.
  destruct (forallb _ _) eqn:Hall; auto. exfalso.
  rewrite forallb_forall in Hall.
  assert (Hn : forall t, t < length (threads c) -> step c t = None).
  { intros t Hlt. specialize (Hall t). rewrite in_seq in Hall. specialize (Hall ltac:(lia)).
    unfold enabled in Hall. destruct (step c t); [discriminate|reflexivity]. }
  pose proof (all_blocked_final c HW Hn). congruence.
Qed.

(* in a non-final configuration some thread can take a step *)
Theorem W_progress c : W c -> final c = false ->
  exists t, t < length (threads c) /\ enabled c t = true.
Proof.
  intros HW Hf. pose proof (W_deadlock_free c HW) as Hd. unfold deadlocked in Hd.
  rewrite Hf in Hd. simpl in Hd.
  assert (Hex : existsb (enabled c) (seq 0 (length (threads c))) = true).
  { clear - Hd. induction (seq 0 (length (threads c))) as [|h tl IH]; simpl in *; [discriminate|].
    destruct (enabled c h); simpl in *; auto. }
  apply existsb_exists in Hex. destruct Hex as (t & Hin & He).
  apply in_seq in Hin. exists t; split; [lia|auto].
Qed.

(* ------------------------------------------------------------------------- *)
(* conservation of values: appended + still to be appended = the program's   *)
(* ------------------------------------------------------------------------- *)

Fixpoint adds (q : nat) (l : list call) : list Z :=
  match l with
  | [] => []
  | CAdd q' v :: r => if q' =? q then v :: adds q r else adds q r
  | _ :: r => adds q r
  end.

(* values this thread will still append to queue q (the head AddValue of a thread in PSend,
   or of a thread that panicked in its send, is already appended) *)
Definition pend_th (q : nat) (th : thread) : list Z :=
  adds q (match tph th with PSend _ | PStuck => tl (tcalls th) | _ => tcalls th end).
Definition pending (q : nat) (c : config) : list Z := concat (map (pend_th q) (threads c)).

Lemma adds_app q a b : adds q (a ++ b) = adds q a ++ adds q b.
Proof.
  induction a as [|k a IH]; simpl; auto.
  destruct k; auto. destruct (q0 =? q); simpl; now rewrite IH.
Qed.

Lemma adds_continue q th v ok : simple_loop th -> adds q (fst (continue (tloop th) v ok)) = [].
Proof.
  intros Hs. destruct (proj1 (simple_continue th v ok Hs)) as [E|[q' [_ E]]]; now rewrite E.
Qed.

Lemma concat_set_nth_ext2 {A B} (f : A -> list B) t x l d ex :
  t < length l -> f (nth t l d) = ex ++ f x ->
  Permutation (concat (map f l)) (ex ++ concat (map f (set_nth t x l))).
Proof.
  intros Hlt Hf. pose proof (concat_set_nth_perm f t x l d Hlt) as H. rewrite Hf in H.
  rewrite app_assoc in H. apply Permutation_app_inv_r in H.
  symmetry. etransitivity; [apply Permutation_app_comm|exact H].
Qed.

Lemma pending_upd q c c' t th' ex :
  threads c' = set_nth t th' (threads c) -> t < length (threads c) ->
  pend_th q (gett c t) = ex ++ pend_th q th' ->
  Permutation (pending q c) (ex ++ pending q c').
Proof.
  intros E Hlt H. unfold pending. rewrite E.
  apply (concat_set_nth_ext2 (pend_th q) t th' (threads c) dummyt ex); auto.
Qed.

Lemma step_pending c t c' qa :
  Inv c -> simple c -> qa < length (queues c) -> step c t = Some c' ->
  exists l, qapp (getq c' qa) = qapp (getq c qa) ++ l /\
            Permutation (pending qa c) (l ++ pending qa c').
Proof.
  intros HI HS Hqa H. pose proof (step_tid _ _ _ H) as Hlt.
  pose proof (simple_gett c t HS Hlt) as Hs.
  assert (Hth : T_inv (gett c t)) by (apply T_inv_gett; apply HI).
  apply step_stepR in H; stepR_cases H;
    try (exists []; split;
         [ rewrite app_nil_r; frame_field qapp
         | eapply pending_upd; [reflexivity | exact Hlt |];
           unfold pend_th; rewrite ?tph_finish_head, ?(proj1 (finish_head_fields _ _ _ _));
           rewrite Hph; simpl tph; simpl tcalls; cbv iota; rewrite ?Hc; simpl tl; simpl;
           rewrite ?adds_app, ?(adds_continue _ _ _ _ Hs), ?app_nil_r; reflexivity ]; fail).
  - (* append *)
    destruct (Nat.eqb_spec q qa) as [->|Hne].
    + exists [v]. split.
      * rewrite getq_sett, getq_setq_eq by auto. reflexivity.
      * eapply pending_upd; [reflexivity | exact Hlt |].
        unfold pend_th. rewrite Hph. simpl. rewrite Hc. simpl. now rewrite Nat.eqb_refl.
    + exists []. split.
      * rewrite app_nil_r, getq_sett. now rewrite getq_setq_neq by auto.
      * eapply pending_upd; [reflexivity | exact Hlt |].
        unfold pend_th. rewrite Hph. simpl. rewrite Hc. simpl.
        destruct (Nat.eqb_spec q qa); [congruence|reflexivity].
  - (* discard on an empty list *)
    exists []. split; [now rewrite app_nil_r|].
    eapply pending_upd; [reflexivity | exact Hlt |].
    unfold T_inv in Hth; rewrite Hph in Hth. destruct Hth as (rest' & E).
    unfold pend_th. rewrite Hph. simpl. rewrite E. reflexivity.
Qed.

Theorem values_conserved c0 c qa :
  initial c0 -> simple c0 -> qa < length (queues c0) -> reachable c0 c ->
  Permutation (qapp (getq c qa) ++ pending qa c) (pending qa c0).
Proof.
  intros Hi HS Hqa [s <-].
  cut (Inv (run c0 s) /\ simple (run c0 s) /\ qa < length (queues (run c0 s)) /\
       Permutation (qapp (getq (run c0 s) qa) ++ pending qa (run c0 s)) (pending qa c0)); [tauto|].
  apply (run_ind_inv (fun c => Inv c /\ simple c /\ qa < length (queues c) /\
           Permutation (qapp (getq c qa) ++ pending qa c) (pending qa c0))).
  - intros c t c' (HI & HSc & Hq & HP) H.
    split; [eapply step_preserves_inv; eauto|].
    split; [eapply step_preserves_simple; eauto|].
    split; [now rewrite (step_queues_length _ _ _ H)|].
    destruct (step_pending c t c' qa HI HSc Hq H) as (l & A & B).
    rewrite A, <- app_assoc, <- B. exact HP.
  - split; [now apply initial_inv|]. split; auto. split; auto.
    destruct (initial_open c0 qa Hi) as [_ _].
    destruct Hi as [[caps Hq] _]. unfold getq. rewrite Hq. change dummyq with (mkq 0).
    rewrite map_nth. simpl. apply Permutation_refl.
Qed.

Lemma adds_map0 vs : adds 0 (map (CAdd 0) vs ++ [CDone]) = vs.
Proof. induction vs as [|v vs IH]; simpl; auto. now rewrite IH. Qed.

Lemma concat_map_nil {A B} (f : A -> list B) l : (forall x, In x l -> f x = []) -> concat (map f l) = [].
Proof.
  induction l as [|h tl IH]; intros H; simpl; auto.
  rewrite (H h (or_introl eq_refl)), IH; auto. intros x Hx; apply H; now right.
Qed.

Lemma pc_pending cap vss nc nd : pending 0 (pc_config cap vss nc nd) = concat vss.
Proof.
  unfold pending, pc_config. cbn [threads]. rewrite !map_app, !concat_app.
  rewrite (concat_map_nil (pend_th 0) (repeat (consumer 0) nc))
    by (intros x Hx; apply repeat_spec in Hx; now subst).
  rewrite (concat_map_nil (pend_th 0) (repeat drainer nd))
    by (intros x Hx; apply repeat_spec in Hx; now subst).
  simpl. rewrite !app_nil_r. rewrite map_map. f_equal.
  transitivity (map (fun x : list Z => x) vss); [|apply map_id].
  apply map_ext. intros vs. unfold pend_th, producer. simpl. apply adds_map0.
Qed.

Lemma shape_simple th : shape th -> simple_loop th.
Proof. intros [ws Hl | w ws Hl | Hl | Hl | Hl | Hl | Hl | Hl | Hl]; unfold simple_loop; eauto. Qed.

Lemma W_simple c : W c -> simple c.
Proof. intros HW. eapply Forall_impl; [|apply (W_shape c HW)]. apply shape_simple. Qed.

Lemma shape_not_stuck th : shape th -> tph th <> PStuck.
Proof. intros [ws ? Hp | w ws ? Hp | ? Hp | ? Hp | ? Hp | ? Hp | ? Hp | ? Hp | ? Hp]; rewrite Hp; discriminate. Qed.

(* ------------------------------------------------------------------------- *)
(* the same programs with their goroutines numbered in any order             *)
(* ------------------------------------------------------------------------- *)

Definition pc_wf (cap : nat) (vss : list (list Z)) (nc nd : nat) (c0 : config) : Prop :=
  queues c0 = [mkq cap] /\ wg c0 = length vss /\
  Permutation (threads c0) (threads (pc_config cap vss nc nd)).

Lemma pc_wf_refl cap vss nc nd : pc_wf cap vss nc nd (pc_config cap vss nc nd).
Proof. repeat split. apply Permutation_refl. Qed.

Lemma cnt_perm p l l' : Permutation l l' -> cnt p l = cnt p l'.
Proof.
  unfold cnt. induction 1 as [|x l l' _ IH|x y l|l l' l'' _ IH1 _ IH2]; simpl; auto.
  - destruct (p x); simpl; lia.
  - destruct (p x), (p y); simpl; lia.
  - lia.
Qed.

Lemma concat_map_perm {A B} (f : A -> list B) l l' :
  Permutation l l' -> Permutation (concat (map f l)) (concat (map f l')).
Proof.
  induction 1 as [|x l l' _ IH|x y l|l l' l'' _ IH1 _ IH2]; simpl; auto.
  - now apply Permutation_app_head.
  - rewrite !app_assoc. apply Permutation_app_tail, Permutation_app_comm.
  - etransitivity; eauto.
Qed.

Lemma list_sum_map_perm {A} (f : A -> nat) l l' :
  Permutation l l' -> list_sum (map f l) = list_sum (map f l').
Proof.
  induction 1 as [|x l l' _ IH|x y l|l l' l'' _ IH1 _ IH2]; simpl; auto; lia.
Qed.

Lemma pc_wf_initial cap vss nc nd c0 : pc_wf cap vss nc nd c0 -> initial c0.
Proof.
  intros (Hq & _ & Hp). split; [exists [cap]; exact Hq|].
  apply (Permutation_Forall (Permutation_sym Hp)). apply pc_initial.
Qed.

Lemma pc_wf_W cap vss nc nd c0 :
  1 <= cap -> 1 <= nc -> pc_wf cap vss nc nd c0 -> W c0.
Proof.
  intros Hcap Hnc Hwf. pose proof (pc_wf_initial _ _ _ _ _ Hwf) as Hi.
  destruct Hwf as (Hq & Hwg & Hp).
  destruct (pc_threads_cls cap vss nc nd) as (A & B & C & D). cbv zeta in A, B, C, D.
  assert (G : getq c0 0 = mkq cap) by (unfold getq; now rewrite Hq).
  constructor.
  - split; [now apply initial_inv | now apply initial_rng].
  - now rewrite Hq.
  - rewrite G. exact Hcap.
  - apply (Permutation_Forall (Permutation_sym Hp)). apply (W_shape _ (pc_W cap vss nc nd Hcap Hnc)).
  - now rewrite Hwg, (cnt_perm _ _ _ Hp), A.
  - rewrite G, (cnt_perm _ _ _ Hp), C. reflexivity.
  - rewrite (cnt_perm _ _ _ Hp), B. discriminate.
  - left. now rewrite (cnt_perm _ _ _ Hp), D.
Qed.

Theorem wf_reachable_W cap vss nc nd c0 c :
  1 <= cap -> 1 <= nc -> pc_wf cap vss nc nd c0 -> reachable c0 c -> W c.
Proof.
  intros Hcap Hnc Hwf [s <-]. apply (run_ind_inv W).
  - intros; eapply step_preserves_W; eauto.
  - apply (pc_wf_W cap vss nc nd c0 Hcap Hnc Hwf).
Qed.

Lemma pc_wf_pending cap vss nc nd c0 :
  pc_wf cap vss nc nd c0 -> Permutation (pending 0 c0) (concat vss).
Proof.
  intros (_ & _ & Hp). rewrite <- (pc_pending cap vss nc nd). unfold pending.
  now apply concat_map_perm.
Qed.

Lemma pc_no_removeall cap vss nc : no_removeall (pc_config cap vss nc 0).
Proof.
  unfold no_removeall, pc_config. cbn [threads]. simpl repeat. rewrite app_nil_r.
  repeat (apply Forall_app; split).
  - apply Forall_forall. intros x Hx. apply in_map_iff in Hx. destruct Hx as (vs & <- & _).
    split; [intros; discriminate|]. intros q Hin. simpl in Hin. apply in_app_or in Hin.
    destruct Hin as [Hin|[Hin|[]]]; [|discriminate].
    apply in_map_iff in Hin. destruct Hin as (? & ? & _). discriminate.
  - constructor; [|constructor]. split; [intros; discriminate|].
    intros q Hin. simpl in Hin. intuition discriminate.
  - apply Forall_forall. intros x Hx. apply repeat_spec in Hx. subst.
    split; [intros; discriminate|]. intros q Hin. simpl in Hin. intuition discriminate.
Qed.

Lemma pc_wf_no_removeall cap vss nc c0 : pc_wf cap vss nc 0 c0 -> no_removeall c0.
Proof.
  intros (_ & _ & Hp). apply (Permutation_Forall (Permutation_sym Hp)). apply pc_no_removeall.
Qed.

Lemma popped_single c :
  length (queues c) = 1 -> popped c = qpop (getq c 0).
Proof.
  intros Hl. unfold popped, getq. destruct (queues c) as [|s0 [|s1 r]]; simpl in Hl; try discriminate.
  simpl. now rewrite app_nil_r.
Qed.

(* a configuration of a well-formed program in which nothing can move: everything finished,
   nothing panicked, the queue is closed and empty and every value was popped exactly once;
   the delivered values are all of them when nobody calls RemoveAll, and otherwise all of them
   except those some RemoveAll discarded *)
Theorem pc_terminal cap vss nc nd c0 c :
  1 <= cap -> 1 <= nc -> pc_wf cap vss nc nd c0 -> reachable c0 c ->
  (forall t, step c t = None) ->
  final c = true /\ no_stuck c /\
  qclosed (getq c 0) = true /\ qtok (getq c 0) = 0 /\ qvals (getq c 0) = [] /\
  qpop (getq c 0) = qapp (getq c 0) /\
  Permutation (qapp (getq c 0)) (concat vss) /\
  (exists discarded, Permutation (delivered c ++ discarded) (concat vss)) /\
  (nd = 0 -> Permutation (delivered c) (concat vss)).
Proof.
  intros Hcap Hnc Hwf Hr Hall.
  pose proof (wf_reachable_W _ _ _ _ _ _ Hcap Hnc Hwf Hr) as HW.
  pose proof (pc_wf_initial _ _ _ _ _ Hwf) as Hi.
  assert (Hf : final c = true) by (apply all_blocked_final; auto).
  assert (Hns : no_stuck c).
  { eapply Forall_impl; [|apply (W_shape c HW)]. apply shape_not_stuck. }
  (* every thread is finished: its pending list is empty *)
  assert (Hz : forall th, In th (threads c) -> tcalls th = [] /\ tloop th = LNone).
  { intros th Hin. unfold final in Hf. rewrite forallb_forall in Hf. specialize (Hf th Hin).
    pose proof (W_shape c HW) as Hsh. rewrite Forall_forall in Hsh. specialize (Hsh th Hin).
    unfold thread_done in Hf.
    destruct Hsh as [ws Hl Hp E | w ws Hl Hp E | Hl Hp E | Hl Hp E | Hl Hp E | Hl Hp E
                    | Hl Hp E | Hl Hp E | Hl Hp E]; rewrite Hp, ?E in Hf; try discriminate; auto.
    destruct ws; discriminate. }
  assert (Hcons : cnt is_cons (threads c) = 0).
  { rewrite (cnt_const is_cons false); auto. intros th Hin. unfold is_cons.
    now rewrite (proj2 (Hz th Hin)). }
  destruct (W_cons c HW) as [Hc1|[Hcl Htok]]; [lia|].
  destruct (final_accounting _ _ 0 Hi Hr Hf Hns) as [Happ Hlen].
  rewrite Htok in Hlen. destruct (qvals (getq c 0)) eqn:Hv; [|discriminate].
  rewrite app_nil_r in Happ.
  assert (Hpend : pending 0 c = []).
  { unfold pending. apply concat_map_nil. intros th Hin. unfold pend_th.
    rewrite (proj1 (Hz th Hin)). destruct (tph th); reflexivity. }
  assert (Hq0 : 0 < length (queues c0)) by (rewrite (proj1 Hwf); simpl; lia).
  assert (Hperm : Permutation (qapp (getq c 0)) (concat vss)).
  { pose proof (values_conserved _ c 0 Hi (W_simple _ (pc_wf_W _ _ _ _ _ Hcap Hnc Hwf)) Hq0 Hr) as HP.
    rewrite Hpend, app_nil_r in HP. rewrite HP. now apply (pc_wf_pending cap vss nc nd). }
  assert (Hpop : popped c = qpop (getq c 0)) by (apply (popped_single c); apply (W_len c HW)).
  repeat split; auto.
  - destruct (at_most_once _ _ Hi Hr) as [d Hd]. exists d.
    rewrite Hd, Hpop, <- Happ. exact Hperm.
  - intros ->.
    pose proof (exactly_once _ c Hi (pc_wf_no_removeall _ _ _ _ Hwf) Hr) as HD.
    rewrite HD, Hpop, <- Happ. exact Hperm.
Qed.

(* termination: schedules of enabled steps are bounded, and a run to a final configuration
   always exists from every reachable configuration *)
Lemma W_can_finish : forall n c, mu c <= n -> W c ->
  exists s c', run_strict c s = Some c' /\ final c' = true.
Proof.
  induction n as [|n IH]; intros c Hmu HW.
  - destruct (final c) eqn:Hf; [exists [], c; auto|].
    destruct (W_progress c HW Hf) as (t & _ & He). unfold enabled in He.
    destruct (step c t) as [c1|] eqn:E; [|discriminate].
    pose proof (step_decreases_mu _ _ _ (W_simple c HW) E). lia.
  - destruct (final c) eqn:Hf; [exists [], c; auto|].
    destruct (W_progress c HW Hf) as (t & _ & He). unfold enabled in He.
    destruct (step c t) as [c1|] eqn:E; [|discriminate].
    pose proof (step_decreases_mu _ _ _ (W_simple c HW) E).
    destruct (IH c1 ltac:(lia) (step_preserves_W _ _ _ HW E)) as (s & c' & Hs & Hf').
    exists (t :: s), c'. simpl. rewrite E. auto.
Qed.

Theorem pc_terminates cap vss nc nd c0 :
  1 <= cap -> 1 <= nc -> pc_wf cap vss nc nd c0 ->
  (* every step from a reachable configuration decreases the measure *)
  (forall c t c', reachable c0 c -> step c t = Some c' -> mu c' < mu c) /\
  (* so a schedule that only names enabled threads is no longer than mu c0 *)
  (forall s c, run_strict c0 s = Some c -> length s <= mu c0) /\
  (* no reachable configuration is deadlocked *)
  (forall c, reachable c0 c -> deadlocked c = false) /\
  (* from every reachable configuration some schedule runs to a final configuration *)
  (forall c, reachable c0 c -> exists s c', run_strict c s = Some c' /\ final c' = true).
Proof.
  intros Hcap Hnc Hwf. repeat split.
  - intros c t c' Hr H. apply (step_decreases_mu c t c'); auto.
    apply W_simple. apply (wf_reachable_W cap vss nc nd c0 c Hcap Hnc Hwf Hr).
  - intros s c H.
    pose proof (run_strict_bound _ s c (W_simple _ (pc_wf_W _ _ _ _ _ Hcap Hnc Hwf)) H). lia.
  - intros c Hr. apply W_deadlock_free. apply (wf_reachable_W cap vss nc nd c0 c Hcap Hnc Hwf Hr).
  - intros c Hr. apply (W_can_finish (mu c)); auto.
    apply (wf_reachable_W cap vss nc nd c0 c Hcap Hnc Hwf Hr).
Qed.

(* a maximal run (strict schedule after which nothing is enabled) ends as pc_terminal says *)
Theorem pc_maximal_run cap vss nc nd c0 s c :
  1 <= cap -> 1 <= nc -> pc_wf cap vss nc nd c0 ->
  run_strict c0 s = Some c -> (forall t, enabled c t = false) ->
  length s <= mu c0 /\
  final c = true /\ no_stuck c /\
  qclosed (getq c 0) = true /\ qtok (getq c 0) = 0 /\ qvals (getq c 0) = [] /\
  qpop (getq c 0) = qapp (getq c 0) /\
  Permutation (qapp (getq c 0)) (concat vss) /\
  (exists discarded, Permutation (delivered c ++ discarded) (concat vss)) /\
  (nd = 0 -> Permutation (delivered c) (concat vss)).
Proof.
  intros Hcap Hnc Hwf Hs Hen. split.
  - apply (proj1 (proj2 (pc_terminates cap vss nc nd c0 Hcap Hnc Hwf)) s c Hs).
  - apply (pc_terminal cap vss nc nd c0 c Hcap Hnc Hwf).
    + exists s. now apply run_strict_run.
    + intros t. specialize (Hen t). unfold enabled in Hen. destruct (step c t); [discriminate|auto].
Qed.

Lemma mu_pc cap vss nc nd :
  mu (pc_config cap vss nc nd) = 4 * length (concat vss) + length vss + 2 + nc + nd.
Proof.
  unfold mu, pc_config. cbn [queues threads]. simpl list_sum at 1.
  rewrite !map_app, !list_sum_app.
  assert (P : list_sum (map th_cost (map producer vss)) = 4 * length (concat vss) + length vss).
  { induction vss as [|vs vss IH]; simpl; auto. rewrite app_length.
    rewrite IH. unfold th_cost at 1. simpl. rewrite calls_cost_app.
    assert (Q : calls_cost (map (CAdd 0) vs) = 4 * length vs).
    { clear. induction vs as [|v vs IH]; auto. unfold calls_cost in *. simpl. rewrite IH. lia. }
    rewrite Q. unfold calls_cost. simpl. lia. }
  rewrite P.
  assert (C : list_sum (map th_cost (repeat (consumer 0) nc)) = nc).
  { induction nc as [|n IH]; auto. simpl. rewrite IH. reflexivity. }
  assert (D : list_sum (map th_cost (repeat drainer nd)) = nd).
  { induction nd as [|n IH]; auto. simpl. rewrite IH. reflexivity. }
  rewrite C, D. simpl. lia.
Qed.

Lemma mu_pc_wf cap vss nc nd c0 : pc_wf cap vss nc nd c0 ->
  mu c0 = 4 * length (concat vss) + length vss + 2 + nc + nd.
Proof.
  intros (Hq & _ & Hp). rewrite <- (mu_pc cap vss nc nd). unfold mu. rewrite Hq.
  now rewrite (list_sum_map_perm th_cost _ _ Hp).
Qed.

(* ------------------------------------------------------------------------- *)
(* statements as used by C05.v                                               *)
(* ------------------------------------------------------------------------- *)

Theorem pc_deadlock_free cap vss nc nd c0 c :
  1 <= cap -> 1 <= nc -> pc_wf cap vss nc nd c0 -> reachable c0 c -> deadlocked c = false.
Proof. intros Hcap Hnc Hwf Hr. apply W_deadlock_free. apply (wf_reachable_W cap vss nc nd c0 c Hcap Hnc Hwf Hr). Qed.

Theorem pc_progress cap vss nc nd c0 c :
  1 <= cap -> 1 <= nc -> pc_wf cap vss nc nd c0 -> reachable c0 c -> final c = false ->
  exists t, t < length (threads c) /\ enabled c t = true.
Proof. intros Hcap Hnc Hwf Hr. apply W_progress. apply (wf_reachable_W cap vss nc nd c0 c Hcap Hnc Hwf Hr). Qed.

Theorem pc_no_panic cap vss nc nd c0 c :
  1 <= cap -> 1 <= nc -> pc_wf cap vss nc nd c0 -> reachable c0 c -> no_stuck c.
Proof.
  intros Hcap Hnc Hwf Hr. pose proof (wf_reachable_W cap vss nc nd c0 c Hcap Hnc Hwf Hr) as HW.
  eapply Forall_impl; [|apply (W_shape c HW)]. apply shape_not_stuck.
Qed.

(* ------------------------------------------------------------------------- *)
(* constructors, both directions: the N AddValue calls return iff N <= capacity *)
(* ------------------------------------------------------------------------- *)

Definition ctor_J (cap : nat) (xs : list Z) (c : config) : Prop :=
  exists k th s, threads c = [th] /\ queues c = [s] /\ tloop th = LNone /\
    tcalls th = map (CAdd 0) (skipn k xs) /\ qclosed s = false /\ qtok s = k /\ qcap s = cap /\
    (tph th = PIdle \/ (tph th = PSend 0 /\ k < length xs)).

Lemma skipn_cons_S {A} k (l : list A) a r : skipn k l = a :: r -> skipn (S k) l = r /\ k < length l.
Proof.
  revert l; induction k as [|k IH]; intros [|h tl] H; simpl in *; try discriminate.
  - inversion H; subst. split; [reflexivity|lia].
  - destruct (IH tl H) as [A1 A2]. split; [exact A1|lia].
Qed.

Lemma ctor_J_step cap xs c t c' : ctor_J cap xs c -> step c t = Some c' -> ctor_J cap xs c'.
Proof.
  intros (k & th & s & Hths & Hqs & Hl & Hcalls & Hclo & Htk & Hcp & Hphase) H.
  pose proof (step_tid _ _ _ H) as Hlt. rewrite Hths in Hlt. simpl in Hlt.
  assert (t = 0) by lia. subst t.
  assert (Gt : gett c 0 = th) by (unfold gett; now rewrite Hths).
  assert (Gq : getq c 0 = s) by (unfold getq; now rewrite Hqs).
  subst th s.
  apply step_stepR in H.
  destruct Hphase as [Hp|[Hp Hk]].
  - (* between calls *)
    stepR_cases H; try congruence; rewrite Hcalls in Hc;
      destruct (skipn k xs) as [|z zs] eqn:Hsk; simpl in Hc; try discriminate;
      inversion Hc; subst q v rest.
    destruct (skipn_cons_S _ _ _ _ Hsk) as [Hsk' Hk].
    exists k, (in_phase (gett c 0) (PSend 0)),
      {| qvals := qvals (getq c 0) ++ [z]; qtok := qtok (getq c 0);
         qcap := qcap (getq c 0); qclosed := qclosed (getq c 0);
         qapp := qapp (getq c 0) ++ [z]; qpop := qpop (getq c 0) |}.
    simpl. rewrite Hths, Hqs. simpl. rewrite Hcalls, Hsk. simpl. repeat split; auto.
  - (* before the send *)
    stepR_cases H; try congruence; rewrite Hp in Hph; inversion Hph; subst q;
      rewrite Hcalls in Hc;
      destruct (skipn k xs) as [|z zs] eqn:Hsk; simpl in Hc; try discriminate;
      inversion Hc; subst q1 v rest.
    destruct (skipn_cons_S _ _ _ _ Hsk) as [Hsk' _].
      exists (S k), (finish (gett c 0) (map (CAdd 0) zs) RAdded),
        {| qvals := qvals (getq c 0); qtok := S (qtok (getq c 0)); qcap := qcap (getq c 0);
           qclosed := false; qapp := qapp (getq c 0); qpop := qpop (getq c 0) |}.
      rewrite Hsk'. simpl. rewrite Hths, Hqs. simpl. repeat split; auto.
Qed.

Lemma ctor_J_init cap xs : ctor_J cap xs (ctor_config cap xs).
Proof.
  exists 0, (client (map (CAdd 0) xs)), (mkq cap). simpl. repeat split; auto.
Qed.

(* with fewer slots than values the constructor never returns, under any schedule *)
Theorem ctor_unsized_never_returns cap xs sched :
  cap < length xs -> final (run (ctor_config cap xs) sched) = false.
Proof.
  intros Hlt.
  assert (HJ : ctor_J cap xs (run (ctor_config cap xs) sched)).
  { apply (run_ind_inv (ctor_J cap xs)); [apply ctor_J_step | apply ctor_J_init]. }
  assert (HI : Inv (run (ctor_config cap xs) sched)).
  { apply run_inv. apply initial_inv. split; [exists [cap]; reflexivity | repeat constructor]. }
  destruct HJ as (k & th & s & Hths & Hqs & Hl & Hcalls & Hclo & Htk & Hcp & Hphase).
  pose proof (tok_le_cap _ 0 HI) as Hle. unfold getq in Hle. rewrite Hqs in Hle. simpl in Hle.
  unfold final. rewrite Hths. simpl. rewrite andb_true_r. unfold thread_done.
  destruct Hphase as [Hp|[Hp Hk]]; rewrite Hp; auto.
  rewrite Hcalls. destruct (skipn k xs) as [|z zs] eqn:Hsk; auto.
  exfalso. assert (length (skipn k xs) = 0) by now rewrite Hsk.
  rewrite skipn_length in H. lia.
Qed.

Theorem ctor_returns_iff cap xs :
  (exists sched, final (run (ctor_config cap xs) sched) = true) <-> length xs <= cap.
Proof.
  split.
  - intros [sched Hf]. destruct (Nat.le_gt_cases (length xs) cap) as [|Hgt]; auto.
    rewrite (ctor_unsized_never_returns cap xs sched Hgt) in Hf. discriminate.
  - intros Hle. exists (repeat 0 (2 * length xs)).
    pose proof (ctor_run cap xs [] [] Hle) as H. apply run_strict_run in H.
    change (ctor_state cap [] xs []) with (ctor_config cap xs) in H. rewrite H. reflexivity.
Qed.
