(* IndepProofs.v — proofs about Indep.v (property C19).
   Part 1: the general independence theorem [indep_commutes] for n threads.
   Part 2: the footprint table: operations on distinct instances do not conflict when the
   structural facts are those of the repaired tree; with the pre-repair facts they do, and
   an explicit interleaving corrupts a result. *)
From Verif Require Import Base Params Indep.
Open Scope Z_scope.

Section MachineProofs.
  Variable cell : Type.
  Variable cell_eqb : cell -> cell -> bool.
  Hypothesis cell_eqb_spec : forall a b, cell_eqb a b = true <-> a = b.

  Notation store := (store cell).
  Notation op := (op cell).
  Notation thread := (thread cell).
  Notation touches := (touches cell).
  Notation op_wf := (op_wf cell).
  Notation run_thread := (run_thread cell).
  Notation run_seq := (run_seq cell).
  Notation thread_touches := (thread_touches cell).
  Notation thread_writes := (thread_writes cell).
  Notation no_conflict := (no_conflict cell).
  Notation pairwise_no_conflict := (pairwise_no_conflict cell).
  Notation step := (step cell).
  Notation run := (run cell).
  Notation init := (init cell).
  Notation finished := (finished cell).
  Notation threads_of := (threads_of cell).

  Lemma cell_eq_dec : forall a b : cell, {a = b} + {a <> b}.
  Proof.
    intros a b. destruct (cell_eqb a b) eqn:E.
    - left. apply cell_eqb_spec; exact E.
    - right. intro H. apply cell_eqb_spec in H. congruence.
  Qed.

  Lemma memb_In c l : memb cell cell_eqb c l = true <-> In c l.
  Proof.
    unfold memb. rewrite existsb_exists. split.
    - intros [x [Hin He]]. apply cell_eqb_spec in He. subst; exact Hin.
    - intros Hin. exists c. split; [exact Hin | apply cell_eqb_spec; reflexivity].
  Qed.

  Lemma overlap_false a b :
    overlap cell cell_eqb a b = false -> forall c, In c a -> ~ In c b.
  Proof.
    unfold overlap. intros H c Ha Hb.
    assert (E : existsb (fun c0 => memb cell cell_eqb c0 b) a = true).
    { apply existsb_exists. exists c. split; [exact Ha | apply memb_In; exact Hb]. }
    congruence.
  Qed.

  Lemma conflicts_false (a b : fp cell) :
    conflicts cell cell_eqb a b = false ->
    (forall c, In c (writes a) -> ~ In c (touches b)) /\
    (forall c, In c (writes b) -> ~ In c (touches a)).
  Proof.
    unfold conflicts. intros H. apply orb_false_elim in H. destruct H as [H1 H2].
    split; apply overlap_false; assumption.
  Qed.

  Lemma writes_in_touches (t : thread) c : In c (thread_writes t) -> In c (thread_touches t).
  Proof.
    unfold Indep.thread_writes, Indep.thread_touches. rewrite !in_flat_map.
    intros [o [Ho Hc]]. exists o. split; [exact Ho|]. unfold Indep.touches. apply in_or_app. right; exact Hc.
  Qed.

  (* boolean test on the declared footprints  =>  the Prop used by the theorem *)
  Lemma threads_conflict_false (a b : thread) :
    threads_conflict cell cell_eqb a b = false -> no_conflict a b.
  Proof.
    unfold threads_conflict. intros H.
    assert (P : forall x y, In x a -> In y b -> conflicts cell cell_eqb (op_fp x) (op_fp y) = false).
    { intros x y Hx Hy. destruct (conflicts cell cell_eqb (op_fp x) (op_fp y)) eqn:E; [|reflexivity].
      assert (K : existsb (fun x0 => existsb (fun y0 => conflicts cell cell_eqb (op_fp x0) (op_fp y0)) b) a = true).
      { apply existsb_exists. exists x. split; [exact Hx|]. apply existsb_exists. exists y. split; assumption. }
      congruence. }
    split.
    - intros c Hc Hc'. unfold Indep.thread_writes in Hc. unfold Indep.thread_touches in Hc'.
      apply in_flat_map in Hc. apply in_flat_map in Hc'.
      destruct Hc as [x [Hx Hcx]]. destruct Hc' as [y [Hy Hcy]].
      destruct (conflicts_false _ _ (P x y Hx Hy)) as [K _]. exact (K c Hcx Hcy).
    - intros c Hc Hc'. unfold Indep.thread_writes in Hc. unfold Indep.thread_touches in Hc'.
      apply in_flat_map in Hc. apply in_flat_map in Hc'.
      destruct Hc as [y [Hy Hcy]]. destruct Hc' as [x [Hx Hcx]].
      destruct (conflicts_false _ _ (P x y Hx Hy)) as [_ K]. exact (K c Hcy Hcx).
  Qed.

  (* ---------- a thread run alone is itself an operation obeying the discipline ---------- *)

  Lemma run_thread_app s (a : thread) o :
    run_thread s (a ++ [o]) =
    (fst (act o (fst (run_thread s a))), snd (run_thread s a) ++ [snd (act o (fst (run_thread s a)))]).
  Proof.
    revert s. induction a as [|x a IH]; intros s; simpl.
    - reflexivity.
    - rewrite IH. simpl. reflexivity.
  Qed.

  Lemma thread_frame (t : thread) :
    Forall op_wf t -> forall s c, ~ In c (thread_writes t) -> fst (run_thread s t) c = s c.
  Proof.
    induction t as [|o r IH]; intros Hwf s c Hn; simpl.
    - reflexivity.
    - inversion Hwf as [|? ? Ho Hr]; subst.
      unfold Indep.thread_writes in Hn. simpl in Hn.
      rewrite IH; [| exact Hr | intro K; apply Hn; apply in_or_app; right; exact K].
      destruct Ho as [Hf _]. apply Hf. intro K; apply Hn; apply in_or_app; left; exact K.
  Qed.

  Lemma thread_dep (t : thread) :
    Forall op_wf t ->
    forall (X : cell -> Prop) s s',
      (forall c, In c (thread_touches t) -> X c) ->
      (forall c, X c -> s c = s' c) ->
      snd (run_thread s t) = snd (run_thread s' t) /\
      (forall c, X c -> fst (run_thread s t) c = fst (run_thread s' t) c).
  Proof.
    induction t as [|o r IH]; intros Hwf X s s' Hsub Hag; simpl.
    - split; [reflexivity | exact Hag].
    - inversion Hwf as [|? ? Ho Hr]; subst.
      destruct Ho as [Hf Hd].
      assert (Hto : forall c, In c (touches (op_fp o)) -> s c = s' c).
      { intros c Hc. apply Hag. apply Hsub. unfold Indep.thread_touches. simpl. apply in_or_app. left; exact Hc. }
      destruct (Hd s s' Hto) as [Hres Hwr].
      assert (Hag1 : forall c, X c -> fst (act o s) c = fst (act o s') c).
      { intros c Hx. destruct (in_dec cell_eq_dec c (writes (op_fp o))) as [Hin|Hnin].
        - apply Hwr; exact Hin.
        - rewrite (Hf s c Hnin), (Hf s' c Hnin). apply Hag; exact Hx. }
      assert (Hsub1 : forall c, In c (thread_touches r) -> X c).
      { intros c Hc. apply Hsub. unfold Indep.thread_touches. simpl. apply in_or_app. right; exact Hc. }
      destruct (IH Hr X _ _ Hsub1 Hag1) as [R1 R2].
      split; [rewrite Hres, R1; reflexivity | exact R2].
  Qed.

  (* ---------- the invariant of every interleaving ---------- *)

  Section Interleave.
    Variable ts : list thread.
    Variable s0 : store.
    Hypothesis Hwf : forall t, In t ts -> Forall op_wf t.
    Hypothesis Hnc : pairwise_no_conflict ts.

    Let T := threads_of ts.

    Lemma T_wf i : Forall op_wf (T i).
    Proof.
      unfold T, Indep.threads_of. destruct (nth_in_or_default i ts []) as [H|H].
      - apply Hwf; exact H.
      - rewrite H. constructor.
    Qed.

    Lemma no_conflict_nil_l (b : thread) : no_conflict [] b.
    Proof. split; intros c H; simpl in *; try contradiction. intro K. simpl in K. contradiction. Qed.

    Lemma no_conflict_sym (a b : thread) : no_conflict a b -> no_conflict b a.
    Proof. intros [H1 H2]; split; assumption. Qed.

    Lemma pairwise_nth (l : list thread) :
      ForallOrdPairs no_conflict l -> forall i j, i <> j -> no_conflict (nth i l []) (nth j l []).
    Proof.
      induction 1 as [|a l Ha Hl IH]; intros i j Hij.
      - destruct i, j; simpl; apply no_conflict_nil_l.
      - destruct i as [|i], j as [|j]; simpl.
        + congruence.
        + destruct (nth_in_or_default j l []) as [K|K].
          * rewrite Forall_forall in Ha. apply Ha; exact K.
          * rewrite K. apply no_conflict_sym, no_conflict_nil_l.
        + destruct (nth_in_or_default i l []) as [K|K].
          * rewrite Forall_forall in Ha. apply no_conflict_sym. apply Ha; exact K.
          * rewrite K. apply no_conflict_nil_l.
        + apply IH. congruence.
    Qed.

    Lemma T_nc i j : i <> j -> no_conflict (T i) (T j).
    Proof. intros H. unfold T, Indep.threads_of. apply pairwise_nth; [exact Hnc | exact H]. Qed.

    Definition Inv (c : cfg cell) : Prop :=
      (forall i, exists done,
          T i = done ++ pend c i /\
          res c i = snd (run_thread s0 done) /\
          (forall x, In x (thread_touches (T i)) -> st c x = fst (run_thread s0 done) x)) /\
      (forall x, (forall i, ~ In x (thread_writes (T i))) -> st c x = s0 x).

    Lemma Inv_init : Inv (init s0 ts).
    Proof.
      split.
      - intros i. exists []. simpl. repeat split; reflexivity.
      - intros x _. reflexivity.
    Qed.

    Lemma Inv_step c t : Inv c -> Inv (step c t).
    Proof.
      intros [HI HG]. unfold Indep.step. destruct (pend c t) as [|o rest] eqn:Ep.
      - split; assumption.
      - destruct (HI t) as [done [Ht [Hr Hs]]]. rewrite Ep in Ht.
        assert (Hin_o : In o (T t)). { rewrite Ht. apply in_or_app. right. left. reflexivity. }
        assert (Hwo : op_wf o). { pose proof (T_wf t) as W. rewrite Forall_forall in W. apply W; exact Hin_o. }
        destruct Hwo as [Hf Hd].
        assert (Hw_sub : forall x, In x (writes (op_fp o)) -> In x (thread_writes (T t))).
        { intros x Hx. unfold Indep.thread_writes. apply in_flat_map. exists o. split; assumption. }
        assert (Ht_sub : forall x, In x (touches (op_fp o)) -> In x (thread_touches (T t))).
        { intros x Hx. unfold Indep.thread_touches. apply in_flat_map. exists o. split; assumption. }
        set (s1 := fst (run_thread s0 done)) in *.
        assert (Hag : forall x, In x (touches (op_fp o)) -> st c x = s1 x).
        { intros x Hx. apply Hs. apply Ht_sub; exact Hx. }
        destruct (Hd (st c) s1 Hag) as [Hres Hwr].
        split.
        + intros i. simpl. unfold Indep.fupd. destruct (Nat.eqb t i) eqn:Eti.
          * apply Nat.eqb_eq in Eti. subst i.
            exists (done ++ [o]). split; [| split].
            -- rewrite Ht. rewrite <- app_assoc. reflexivity.
            -- rewrite run_thread_app. simpl. fold s1. rewrite Hr, Hres. reflexivity.
            -- intros x Hx. rewrite run_thread_app. simpl. fold s1.
               destruct (in_dec cell_eq_dec x (writes (op_fp o))) as [Hin|Hnin].
               ++ apply Hwr; exact Hin.
               ++ rewrite (Hf (st c) x Hnin), (Hf s1 x Hnin). apply Hs; exact Hx.
          * apply Nat.eqb_neq in Eti.
            destruct (HI i) as [d [Hti [Hri Hsi]]].
            exists d. split; [exact Hti | split; [exact Hri|]].
            intros x Hx. rewrite <- (Hsi x Hx). apply Hf.
            intro Hxw. destruct (T_nc t i Eti) as [N1 _].
            exact (N1 x (Hw_sub x Hxw) Hx).
        + intros x Hx. simpl. rewrite <- (HG x Hx). apply Hf.
          intro Hxw. exact (Hx t (Hw_sub x Hxw)).
    Qed.

    Lemma Inv_run sched : forall c, Inv c -> Inv (run c sched).
    Proof.
      unfold Indep.run. induction sched as [|t r IH]; intros c H; simpl.
      - exact H.
      - apply IH. apply Inv_step. exact H.
    Qed.

    (* what every finished interleaving yields *)
    Lemma finished_char sched :
      let c := run (init s0 ts) sched in
      finished c ->
      (forall i, res c i = snd (run_thread s0 (T i))) /\
      (forall i x, In x (thread_touches (T i)) -> st c x = fst (run_thread s0 (T i)) x) /\
      (forall x, (forall i, ~ In x (thread_writes (T i))) -> st c x = s0 x).
    Proof.
      intros c Hfin. destruct (Inv_run sched _ Inv_init) as [HI HG]. fold c in HI, HG.
      assert (D : forall i, exists done, T i = done /\ res c i = snd (run_thread s0 done) /\
                  (forall x, In x (thread_touches (T i)) -> st c x = fst (run_thread s0 done) x)).
      { intros i. destruct (HI i) as [d [H1 [H2 H3]]]. exists d. rewrite (Hfin i), app_nil_r in H1. auto. }
      split; [| split].
      - intros i. destruct (D i) as [d [H1 [H2 _]]]. rewrite H1. exact H2.
      - intros i x Hx. destruct (D i) as [d [H1 [_ H3]]]. rewrite (H3 x Hx), <- H1. reflexivity.
      - exact HG.
    Qed.
  End Interleave.

  (* ---------- the same characterisation for "one after the other" ---------- *)

  Lemma seq_char (s0 : store) (ts : list thread) :
    (forall t, In t ts -> Forall op_wf t) ->
    pairwise_no_conflict ts ->
    forall s, (forall t x, In t ts -> In x (thread_touches t) -> s x = s0 x) ->
    snd (run_seq s ts) = map (fun t => snd (run_thread s0 t)) ts /\
    (forall t x, In t ts -> In x (thread_touches t) -> fst (run_seq s ts) x = fst (run_thread s0 t) x) /\
    (forall x, (forall t, In t ts -> ~ In x (thread_writes t)) -> fst (run_seq s ts) x = s x).
  Proof.
    induction ts as [|a r IH]; intros Hwf Hnc s Hag; simpl.
    - repeat split; try reflexivity. intros t x [].
    - inversion Hnc as [|? ? Ha Hr]; subst.
      assert (Wa : Forall op_wf a) by (apply Hwf; left; reflexivity).
      destruct (thread_dep a Wa (fun x => In x (thread_touches a)) s s0 (fun c H => H)
                  (fun c H => Hag a c (or_introl eq_refl) H)) as [Ra Sa].
      set (s1 := fst (run_thread s a)) in *.
      assert (Hag1 : forall t x, In t r -> In x (thread_touches t) -> s1 x = s0 x).
      { intros t x Ht Hx. rewrite <- (Hag t x (or_intror Ht) Hx). unfold s1. apply thread_frame; [exact Wa|].
        intro K. rewrite Forall_forall in Ha. destruct (Ha t Ht) as [N _]. exact (N x K Hx). }
      destruct (IH (fun t H => Hwf t (or_intror H)) Hr s1 Hag1) as [R1 [R2 R3]].
      split; [| split].
      + rewrite Ra, R1. reflexivity.
      + intros t x [Ht|Ht] Hx.
        * subst t. rewrite R3.
          -- apply Sa; exact Hx.
          -- intros t Ht K. rewrite Forall_forall in Ha. destruct (Ha t Ht) as [_ N]. exact (N x K Hx).
        * apply R2; assumption.
      + intros x Hx. rewrite R3.
        * unfold s1. apply thread_frame; [exact Wa|]. apply Hx. left; reflexivity.
        * intros t Ht. apply Hx. right; exact Ht.
  Qed.

  (* ---------- the general theorem ---------- *)

  Theorem indep_commutes (ts : list thread) (s0 : store) :
    (forall t, In t ts -> Forall op_wf t) ->
    pairwise_no_conflict ts ->
    forall sched,
      let c := run (init s0 ts) sched in
      finished c ->
      (* every thread obtains the results it obtains when run alone from the initial store *)
      (forall i, res c i = snd (run_thread s0 (nth i ts []))) /\
      (* so do the threads run one after the other *)
      snd (run_seq s0 ts) = map (fun t => snd (run_thread s0 t)) ts /\
      (* and the final store is that of running them one after the other *)
      (forall x, st c x = fst (run_seq s0 ts) x).
  Proof.
    intros Hwf Hnc sched c Hfin.
    destruct (finished_char ts s0 Hwf Hnc sched Hfin) as [F1 [F2 F3]]. fold c in F1, F2, F3.
    destruct (seq_char s0 ts Hwf Hnc s0 (fun _ _ _ _ => eq_refl)) as [S1 [S2 S3]].
    split; [exact F1 | split; [exact S1|]].
    intros x.
    destruct (in_dec cell_eq_dec x (flat_map thread_touches ts)) as [Hin|Hnin].
    - apply in_flat_map in Hin. destruct Hin as [t [Ht Hx]].
      destruct (In_nth ts t [] Ht) as [i [_ Hi]].
      rewrite (S2 t x Ht Hx). rewrite <- Hi. apply F2. unfold Indep.threads_of. rewrite Hi. exact Hx.
    - assert (N : forall t, In t ts -> ~ In x (thread_writes t)).
      { intros t Ht K. apply Hnin. apply in_flat_map. exists t. split; [exact Ht | apply writes_in_touches; exact K]. }
      rewrite S3 by exact N. apply F3. intros i K.
      unfold Indep.threads_of in K. destruct (nth_in_or_default i ts []) as [H|H].
      + exact (N _ H K).
      + rewrite H in K. exact K.
  Qed.

  (* any two finished interleavings agree *)
  Corollary schedule_independent (ts : list thread) (s0 : store) :
    (forall t, In t ts -> Forall op_wf t) ->
    pairwise_no_conflict ts ->
    forall sched1 sched2,
      finished (run (init s0 ts) sched1) -> finished (run (init s0 ts) sched2) ->
      (forall i, res (run (init s0 ts) sched1) i = res (run (init s0 ts) sched2) i) /\
      (forall x, st (run (init s0 ts) sched1) x = st (run (init s0 ts) sched2) x).
  Proof.
    intros Hwf Hnc a b Fa Fb.
    destruct (indep_commutes ts s0 Hwf Hnc a Fa) as [A1 [_ A3]].
    destruct (indep_commutes ts s0 Hwf Hnc b Fb) as [B1 [_ B3]].
    split; intros; [rewrite A1, B1 | rewrite A3, B3]; reflexivity.
  Qed.

  (* the diamond for two operations *)
  Corollary ops_commute (a b : op) (s : store) :
    op_wf a -> op_wf b -> conflicts cell cell_eqb (op_fp a) (op_fp b) = false ->
    snd (act a s) = snd (act a (fst (act b s))) /\
    snd (act b s) = snd (act b (fst (act a s))) /\
    (forall x, fst (act b (fst (act a s))) x = fst (act a (fst (act b s))) x).
  Proof.
    intros Wa Wb Hc.
    assert (Hwf : forall t, In t [[a]; [b]] -> Forall op_wf t).
    { intros t [H|[H|[]]]; subst; constructor; auto. }
    assert (Hnc : pairwise_no_conflict [[a]; [b]]).
    { constructor; [| constructor; [constructor | constructor]].
      constructor; [| constructor]. apply threads_conflict_false. unfold threads_conflict. simpl.
      rewrite Hc. reflexivity. }
    assert (F01 : finished (run (init s [[a]; [b]]) [0; 1]%nat)).
    { intros i. simpl. unfold Indep.step; simpl. unfold Indep.fupd.
      destruct i as [|[|[|i]]]; reflexivity. }
    assert (F10 : finished (run (init s [[a]; [b]]) [1; 0]%nat)).
    { intros i. simpl. unfold Indep.step; simpl. unfold Indep.fupd.
      destruct i as [|[|[|i]]]; reflexivity. }
    destruct (schedule_independent _ s Hwf Hnc _ _ F01 F10) as [R S].
    destruct (indep_commutes _ s Hwf Hnc _ F10) as [A _].
    destruct (indep_commutes _ s Hwf Hnc _ F01) as [B _].
    split; [| split].
    - pose proof (A 0%nat) as K. simpl in K. unfold Indep.step in K; simpl in K. unfold Indep.fupd in K; simpl in K.
      inversion K. reflexivity.
    - pose proof (B 1%nat) as K. simpl in K. unfold Indep.step in K; simpl in K. unfold Indep.fupd in K; simpl in K.
      inversion K. reflexivity.
    - intros x. pose proof (S x) as K. simpl in K. unfold Indep.step in K; simpl in K. exact K.
  Qed.
End MachineProofs.
