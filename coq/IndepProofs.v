(* IndepProofs.v — proofs about Indep.v (property C19).
   Part 1: the general independence theorem [indep_commutes] for n threads.
   Part 2: the footprint table: operations on distinct instances do not conflict when the
   structural facts are those of the repaired tree; with the pre-repair facts they do, and
   an explicit interleaving corrupts a result. *)
From Verif Require Import Base Params ParamsFoot Indep IndepFacts.
Open Scope Z_scope.

Section MachineProofs.
  Variable cell : Type.
  Variable cell_eqb : cell -> cell -> bool.
  Hypothesis cell_eqb_spec : forall a b, cell_eqb a b = true <-> a = b.

  Notation store := (store cell).
  Notation op := (op cell).
  Notation thread := (thread cell).
  Notation touches := (touches cell).
  Notation op_wf := (op_wf cell).
  Notation run_thread := (run_thread cell).
  Notation run_seq := (run_seq cell).
  Notation thread_touches := (thread_touches cell).
  Notation thread_writes := (thread_writes cell).
  Notation no_conflict := (no_conflict cell).
  Notation pairwise_no_conflict := (pairwise_no_conflict cell).
  Notation step := (step cell).
  Notation run := (run cell).
  Notation init := (init cell).
  Notation finished := (finished cell).
  Notation threads_of := (threads_of cell).

  Lemma cell_eq_dec : forall a b : cell, {a = b} + {a <> b}.
  Proof.
    intros a b. destruct (cell_eqb a b) eqn:E.
    - left. apply cell_eqb_spec; exact E.
    - right. intro H. apply cell_eqb_spec in H. congruence.
  Qed.

  Lemma memb_In c l : memb cell cell_eqb c l = true <-> In c l.
  Proof.
    unfold memb. rewrite existsb_exists. split.
    - intros [x [Hin He]]. apply cell_eqb_spec in He. subst; exact Hin.
    - intros Hin. exists c. split; [exact Hin | apply cell_eqb_spec; reflexivity].
  Qed.

  Lemma overlap_false a b :
    overlap cell cell_eqb a b = false -> forall c, In c a -> ~ In c b.
  Proof.
    unfold overlap. intros H c Ha Hb.
    assert (E : existsb (fun c0 => memb cell cell_eqb c0 b) a = true).
    { apply existsb_exists. exists c. split; [exact Ha | apply memb_In; exact Hb]. }
    congruence.
  Qed.

  Lemma conflicts_false (a b : fp cell) :
    conflicts cell cell_eqb a b = false ->
    (forall c, In c (writes a) -> ~ In c (touches b)) /\
    (forall c, In c (writes b) -> ~ In c (touches a)).
  Proof.
    unfold conflicts. intros H. apply orb_false_elim in H. destruct H as [H1 H2].
    split; apply overlap_false; assumption.
  Qed.

  Lemma writes_in_touches (t : thread) c : In c (thread_writes t) -> In c (thread_touches t).
  Proof.
    unfold Indep.thread_writes, Indep.thread_touches. rewrite !in_flat_map.
    intros [o [Ho Hc]]. exists o. split; [exact Ho|]. unfold Indep.touches. apply in_or_app. right; exact Hc.
  Qed.

  (* boolean test on the declared footprints  =>  the Prop used by the theorem *)
  Lemma threads_conflict_false (a b : thread) :
    threads_conflict cell cell_eqb a b = false -> no_conflict a b.
  Proof.
    unfold threads_conflict. intros H.
    assert (P : forall x y, In x a -> In y b -> conflicts cell cell_eqb (op_fp x) (op_fp y) = false).
    { intros x y Hx Hy. destruct (conflicts cell cell_eqb (op_fp x) (op_fp y)) eqn:E; [|reflexivity].
      assert (K : existsb (fun x0 => existsb (fun y0 => conflicts cell cell_eqb (op_fp x0) (op_fp y0)) b) a = true).
      { apply existsb_exists. exists x. split; [exact Hx|]. apply existsb_exists. exists y. split; assumption. }
      congruence. }
    split.
    - intros c Hc Hc'. unfold Indep.thread_writes in Hc. unfold Indep.thread_touches in Hc'.
      apply in_flat_map in Hc. apply in_flat_map in Hc'.
      destruct Hc as [x [Hx Hcx]]. destruct Hc' as [y [Hy Hcy]].
      destruct (conflicts_false _ _ (P x y Hx Hy)) as [K _]. exact (K c Hcx Hcy).
    - intros c Hc Hc'. unfold Indep.thread_writes in Hc. unfold Indep.thread_touches in Hc'.
      apply in_flat_map in Hc. apply in_flat_map in Hc'.
      destruct Hc as [y [Hy Hcy]]. destruct Hc' as [x [Hx Hcx]].
      destruct (conflicts_false _ _ (P x y Hx Hy)) as [_ K]. exact (K c Hcy Hcx).
  Qed.

  (* ---------- a thread run alone is itself an operation obeying the discipline ---------- *)

  Lemma run_thread_app s (a : thread) o :
    run_thread s (a ++ [o]) =
    (fst (act o (fst (run_thread s a))), snd (run_thread s a) ++ [snd (act o (fst (run_thread s a)))]).
  Proof.
    revert s. induction a as [|x a IH]; intros s; simpl.
    - reflexivity.
    - rewrite IH. simpl. reflexivity.
  Qed.

  Lemma thread_frame (t : thread) :
    Forall op_wf t -> forall s c, ~ In c (thread_writes t) -> fst (run_thread s t) c = s c.
  Proof.
    induction t as [|o r IH]; intros Hwf s c Hn; simpl.
    - reflexivity.
    - inversion Hwf as [|? ? Ho Hr]; subst.
      unfold Indep.thread_writes in Hn. simpl in Hn.
      rewrite IH; [| exact Hr | intro K; apply Hn; apply in_or_app; right; exact K].
      destruct Ho as [Hf _]. apply Hf. intro K; apply Hn; apply in_or_app; left; exact K.
  Qed.

  Lemma thread_dep (t : thread) :
    Forall op_wf t ->
    forall (X : cell -> Prop) s s',
      (forall c, In c (thread_touches t) -> X c) ->
      (forall c, X c -> s c = s' c) ->
      snd (run_thread s t) = snd (run_thread s' t) /\
      (forall c, X c -> fst (run_thread s t) c = fst (run_thread s' t) c).
  Proof.
    induction t as [|o r IH]; intros Hwf X s s' Hsub Hag; simpl.
    - split; [reflexivity | exact Hag].
    - inversion Hwf as [|? ? Ho Hr]; subst.
      destruct Ho as [Hf Hd].
      assert (Hto : forall c, In c (touches (op_fp o)) -> s c = s' c).
      { intros c Hc. apply Hag. apply Hsub. unfold Indep.thread_touches. simpl. apply in_or_app. left; exact Hc. }
      destruct (Hd s s' Hto) as [Hres Hwr].
      assert (Hag1 : forall c, X c -> fst (act o s) c = fst (act o s') c).
      { intros c Hx. destruct (in_dec cell_eq_dec c (writes (op_fp o))) as [Hin|Hnin].
        - apply Hwr; exact Hin.
        - rewrite (Hf s c Hnin), (Hf s' c Hnin). apply Hag; exact Hx. }
      assert (Hsub1 : forall c, In c (thread_touches r) -> X c).
      { intros c Hc. apply Hsub. unfold Indep.thread_touches. simpl. apply in_or_app. right; exact Hc. }
      destruct (IH Hr X _ _ Hsub1 Hag1) as [R1 R2].
      split; [rewrite Hres, R1; reflexivity | exact R2].
  Qed.

  (* ---------- the invariant of every interleaving ---------- *)

  Section Interleave.
    Variable ts : list thread.
    Variable s0 : store.
    Hypothesis Hwf : forall t, In t ts -> Forall op_wf t.
    Hypothesis Hnc : pairwise_no_conflict ts.

    Let T := threads_of ts.

    Lemma T_wf i : Forall op_wf (T i).
    Proof.
      unfold T, Indep.threads_of. destruct (nth_in_or_default i ts []) as [H|H].
      - apply Hwf; exact H.
      - rewrite H. constructor.
    Qed.

    Lemma no_conflict_nil_l (b : thread) : no_conflict [] b.
    Proof. split; intros c H; simpl in *; try contradiction. intro K. simpl in K. contradiction. Qed.

    Lemma no_conflict_sym (a b : thread) : no_conflict a b -> no_conflict b a.
    Proof. intros [H1 H2]; split; assumption. Qed.

    Lemma pairwise_nth (l : list thread) :
      ForallOrdPairs no_conflict l -> forall i j, i <> j -> no_conflict (nth i l []) (nth j l []).
    Proof.
      induction 1 as [|a l Ha Hl IH]; intros i j Hij.
      - destruct i, j; simpl; apply no_conflict_nil_l.
      - destruct i as [|i], j as [|j]; simpl.
        + congruence.
        + destruct (nth_in_or_default j l []) as [K|K].
          * rewrite Forall_forall in Ha. apply Ha; exact K.
          * rewrite K. apply no_conflict_sym, no_conflict_nil_l.
        + destruct (nth_in_or_default i l []) as [K|K].
          * rewrite Forall_forall in Ha. apply no_conflict_sym. apply Ha; exact K.
          * rewrite K. apply no_conflict_nil_l.
        + apply IH. congruence.
    Qed.

    Lemma T_nc i j : i <> j -> no_conflict (T i) (T j).
    Proof. intros H. unfold T, Indep.threads_of. apply pairwise_nth; [exact Hnc | exact H]. Qed.

    Definition Inv (c : cfg cell) : Prop :=
      (forall i, exists done,
          T i = done ++ pend c i /\
          res c i = snd (run_thread s0 done) /\
          (forall x, In x (thread_touches (T i)) -> st c x = fst (run_thread s0 done) x)) /\
      (forall x, (forall i, ~ In x (thread_writes (T i))) -> st c x = s0 x).

    Lemma Inv_init : Inv (init s0 ts).
    Proof.
      split.
      - intros i. exists []. simpl. repeat split; reflexivity.
      - intros x _. reflexivity.
    Qed.

    Lemma Inv_step c t : Inv c -> Inv (step c t).
    Proof.
      intros [HI HG]. unfold Indep.step. destruct (pend c t) as [|o rest] eqn:Ep.
      - split; assumption.
      - destruct (HI t) as [done [Ht [Hr Hs]]]. rewrite Ep in Ht.
        assert (Hin_o : In o (T t)). { rewrite Ht. apply in_or_app. right. left. reflexivity. }
        assert (Hwo : op_wf o). { pose proof (T_wf t) as W. rewrite Forall_forall in W. apply W; exact Hin_o. }
        destruct Hwo as [Hf Hd].
        assert (Hw_sub : forall x, In x (writes (op_fp o)) -> In x (thread_writes (T t))).
        { intros x Hx. unfold Indep.thread_writes. apply in_flat_map. exists o. split; assumption. }
        assert (Ht_sub : forall x, In x (touches (op_fp o)) -> In x (thread_touches (T t))).
        { intros x Hx. unfold Indep.thread_touches. apply in_flat_map. exists o. split; assumption. }
        set (s1 := fst (run_thread s0 done)) in *.
        assert (Hag : forall x, In x (touches (op_fp o)) -> st c x = s1 x).
        { intros x Hx. apply Hs. apply Ht_sub; exact Hx. }
        destruct (Hd (st c) s1 Hag) as [Hres Hwr].
        split.
        + intros i. simpl. unfold Indep.fupd. destruct (Nat.eqb t i) eqn:Eti.
          * apply Nat.eqb_eq in Eti. subst i.
            exists (done ++ [o]). split; [| split].
            -- rewrite Ht. rewrite <- app_assoc. reflexivity.
            -- rewrite run_thread_app. simpl. fold s1. rewrite Hr, Hres. reflexivity.
            -- intros x Hx. rewrite run_thread_app. simpl. fold s1.
               destruct (in_dec cell_eq_dec x (writes (op_fp o))) as [Hin|Hnin].
               ++ apply Hwr; exact Hin.
               ++ rewrite (Hf (st c) x Hnin), (Hf s1 x Hnin). apply Hs; exact Hx.
          * apply Nat.eqb_neq in Eti.
            destruct (HI i) as [d [Hti [Hri Hsi]]].
            exists d. split; [exact Hti | split; [exact Hri|]].
            intros x Hx. rewrite <- (Hsi x Hx). apply Hf.
            intro Hxw. destruct (T_nc t i Eti) as [N1 _].
            exact (N1 x (Hw_sub x Hxw) Hx).
        + intros x Hx. simpl. rewrite <- (HG x Hx). apply Hf.
          intro Hxw. exact (Hx t (Hw_sub x Hxw)).
    Qed.

    Lemma Inv_run sched : forall c, Inv c -> Inv (run c sched).
    Proof.
      unfold Indep.run. induction sched as [|t r IH]; intros c H; simpl.
      - exact H.
      - apply IH. apply Inv_step. exact H.
    Qed.

    (* what every finished interleaving yields *)
    Lemma finished_char sched :
      let c := run (init s0 ts) sched in
      finished c ->
      (forall i, res c i = snd (run_thread s0 (T i))) /\
      (forall i x, In x (thread_touches (T i)) -> st c x = fst (run_thread s0 (T i)) x) /\
      (forall x, (forall i, ~ In x (thread_writes (T i))) -> st c x = s0 x).
    Proof.
      intros c Hfin. destruct (Inv_run sched _ Inv_init) as [HI HG]. fold c in HI, HG.
      assert (D : forall i, exists done, T i = done /\ res c i = snd (run_thread s0 done) /\
                  (forall x, In x (thread_touches (T i)) -> st c x = fst (run_thread s0 done) x)).
      { intros i. destruct (HI i) as [d [H1 [H2 H3]]]. exists d. rewrite (Hfin i), app_nil_r in H1. auto. }
      split; [| split].
      - intros i. destruct (D i) as [d [H1 [H2 _]]]. rewrite H1. exact H2.
      - intros i x Hx. destruct (D i) as [d [H1 [_ H3]]]. rewrite (H3 x Hx), <- H1. reflexivity.
      - exact HG.
    Qed.
  End Interleave.

  (* ---------- the same characterisation for "one after the other" ---------- *)

  Lemma seq_char (s0 : store) (ts : list thread) :
    (forall t, In t ts -> Forall op_wf t) ->
    pairwise_no_conflict ts ->
    forall s, (forall t x, In t ts -> In x (thread_touches t) -> s x = s0 x) ->
    snd (run_seq s ts) = map (fun t => snd (run_thread s0 t)) ts /\
    (forall t x, In t ts -> In x (thread_touches t) -> fst (run_seq s ts) x = fst (run_thread s0 t) x) /\
    (forall x, (forall t, In t ts -> ~ In x (thread_writes t)) -> fst (run_seq s ts) x = s x).
  Proof.
    induction ts as [|a r IH]; intros Hwf Hnc s Hag; simpl.
    - repeat split; try reflexivity. intros t x [].
    - inversion Hnc as [|? ? Ha Hr]; subst.
      assert (Wa : Forall op_wf a) by (apply Hwf; left; reflexivity).
      destruct (thread_dep a Wa (fun x => In x (thread_touches a)) s s0 (fun c H => H)
                  (fun c H => Hag a c (or_introl eq_refl) H)) as [Ra Sa].
      set (s1 := fst (run_thread s a)) in *.
      assert (Hag1 : forall t x, In t r -> In x (thread_touches t) -> s1 x = s0 x).
      { intros t x Ht Hx. rewrite <- (Hag t x (or_intror Ht) Hx). unfold s1. apply thread_frame; [exact Wa|].
        intro K. rewrite Forall_forall in Ha. destruct (Ha t Ht) as [N _]. exact (N x K Hx). }
      destruct (IH (fun t H => Hwf t (or_intror H)) Hr s1 Hag1) as [R1 [R2 R3]].
      split; [| split].
      + rewrite Ra, R1. reflexivity.
      + intros t x [Ht|Ht] Hx.
        * subst t. rewrite R3.
          -- apply Sa; exact Hx.
          -- intros t Ht K. rewrite Forall_forall in Ha. destruct (Ha t Ht) as [_ N]. exact (N x K Hx).
        * apply R2; assumption.
      + intros x Hx. rewrite R3.
        * unfold s1. apply thread_frame; [exact Wa|]. apply Hx. left; reflexivity.
        * intros t Ht. apply Hx. right; exact Ht.
  Qed.

  (* ---------- the general theorem ---------- *)

  Theorem indep_commutes (ts : list thread) (s0 : store) :
    (forall t, In t ts -> Forall op_wf t) ->
    pairwise_no_conflict ts ->
    forall sched,
      let c := run (init s0 ts) sched in
      finished c ->
      (* every thread obtains the results it obtains when run alone from the initial store *)
      (forall i, res c i = snd (run_thread s0 (nth i ts []))) /\
      (* so do the threads run one after the other *)
      snd (run_seq s0 ts) = map (fun t => snd (run_thread s0 t)) ts /\
      (* and the final store is that of running them one after the other *)
      (forall x, st c x = fst (run_seq s0 ts) x).
  Proof.
    intros Hwf Hnc sched c Hfin.
    destruct (finished_char ts s0 Hwf Hnc sched Hfin) as [F1 [F2 F3]]. fold c in F1, F2, F3.
    destruct (seq_char s0 ts Hwf Hnc s0 (fun _ _ _ _ => eq_refl)) as [S1 [S2 S3]].
    split; [exact F1 | split; [exact S1|]].
    intros x.
    destruct (in_dec cell_eq_dec x (flat_map thread_touches ts)) as [Hin|Hnin].
    - apply in_flat_map in Hin. destruct Hin as [t [Ht Hx]].
      destruct (In_nth ts t [] Ht) as [i [_ Hi]].
      rewrite (S2 t x Ht Hx). rewrite <- Hi. apply F2. unfold Indep.threads_of. rewrite Hi. exact Hx.
    - assert (N : forall t, In t ts -> ~ In x (thread_writes t)).
      { intros t Ht K. apply Hnin. apply in_flat_map. exists t. split; [exact Ht | apply writes_in_touches; exact K]. }
      rewrite S3 by exact N. apply F3. intros i K.
      unfold Indep.threads_of in K. destruct (nth_in_or_default i ts []) as [H|H].
      + exact (N _ H K).
      + rewrite H in K. exact K.
  Qed.

  (* any two finished interleavings agree *)
  Corollary schedule_independent (ts : list thread) (s0 : store) :
    (forall t, In t ts -> Forall op_wf t) ->
    pairwise_no_conflict ts ->
    forall sched1 sched2,
      finished (run (init s0 ts) sched1) -> finished (run (init s0 ts) sched2) ->
      (forall i, res (run (init s0 ts) sched1) i = res (run (init s0 ts) sched2) i) /\
      (forall x, st (run (init s0 ts) sched1) x = st (run (init s0 ts) sched2) x).
  Proof.
    intros Hwf Hnc a b Fa Fb.
    destruct (indep_commutes ts s0 Hwf Hnc a Fa) as [A1 [_ A3]].
    destruct (indep_commutes ts s0 Hwf Hnc b Fb) as [B1 [_ B3]].
    split; intros; [rewrite A1, B1 | rewrite A3, B3]; reflexivity.
  Qed.

  (* the diamond for two operations *)
  Corollary ops_commute (a b : op) (s : store) :
    op_wf a -> op_wf b -> conflicts cell cell_eqb (op_fp a) (op_fp b) = false ->
    snd (act a s) = snd (act a (fst (act b s))) /\
    snd (act b s) = snd (act b (fst (act a s))) /\
    (forall x, fst (act b (fst (act a s))) x = fst (act a (fst (act b s))) x).
  Proof.
    intros Wa Wb Hc.
    assert (Hwf : forall t, In t [[a]; [b]] -> Forall op_wf t).
    { intros t [H|[H|[]]]; subst; constructor; auto. }
    assert (Hnc : pairwise_no_conflict [[a]; [b]]).
    { constructor; [| constructor; [constructor | constructor]].
      constructor; [| constructor]. apply threads_conflict_false. unfold threads_conflict. simpl.
      rewrite Hc. reflexivity. }
    assert (F01 : finished (run (init s [[a]; [b]]) [0; 1]%nat)).
    { intros i. simpl. unfold Indep.step; simpl. unfold Indep.fupd.
      destruct i as [|[|[|i]]]; reflexivity. }
    assert (F10 : finished (run (init s [[a]; [b]]) [1; 0]%nat)).
    { intros i. simpl. unfold Indep.step; simpl. unfold Indep.fupd.
      destruct i as [|[|[|i]]]; reflexivity. }
    destruct (schedule_independent _ s Hwf Hnc _ _ F01 F10) as [R S].
    destruct (indep_commutes _ s Hwf Hnc _ F10) as [A _].
    destruct (indep_commutes _ s Hwf Hnc _ F01) as [B _].
    split; [| split].
    - pose proof (A 0%nat) as K. simpl in K. unfold Indep.step in K; simpl in K. unfold Indep.fupd in K; simpl in K.
      inversion K. reflexivity.
    - pose proof (B 1%nat) as K. simpl in K. unfold Indep.step in K; simpl in K. unfold Indep.fupd in K; simpl in K.
      inversion K. reflexivity.
    - intros x. pose proof (S x) as K. simpl in K. unfold Indep.step in K; simpl in K. exact K.
  Qed.
End MachineProofs.

(* ------------------------------------------------------------------------------------ *)
(* Part 2: the footprint table                                                           *)
(* ------------------------------------------------------------------------------------ *)

Lemma cell_eqb_spec : forall a b : cell, cell_eqb a b = true <-> a = b.
Proof.
  intros a b; destruct a, b; simpl; split; intro H; try discriminate; try congruence;
    try (apply Nat.eqb_eq in H; congruence);
    try (apply andb_true_iff in H; destruct H as [H1 H2]; apply Nat.eqb_eq in H1; apply Nat.eqb_eq in H2; congruence);
    try (inversion H; subst; rewrite ?Nat.eqb_refl; reflexivity).
Qed.

Lemma overlap_false_iff (a b : list cell) :
  overlap cell cell_eqb a b = false <-> (forall c, In c a -> ~ In c b).
Proof.
  split.
  - apply overlap_false. exact cell_eqb_spec.
  - intros H. unfold overlap. destruct (existsb (fun c => memb cell cell_eqb c b) a) eqn:E; [|reflexivity].
    apply existsb_exists in E. destruct E as [c [Ha Hb]].
    apply (memb_In cell cell_eqb cell_eqb_spec) in Hb. exfalso. exact (H c Ha Hb).
Qed.

Definition is_repaired (F : facts) : Prop :=
  f_registries_locked F = true /\ f_notation_shares_formatter F = false /\
  f_notation_shares_parser F = false /\ f_sorter_shares_collator F = false.

Lemma shared_cells_repaired F d : is_repaired F -> shared_cells F d = [].
Proof.
  intros [_ [H1 [H2 H3]]]. unfold shared_cells. rewrite H1, H2, H3.
  destruct (od_fam d), (od_via d); reflexivity.
Qed.

Lemma in_reg_cells d c : In c (reg_cells d) -> exists k t, c = CReg k t.
Proof.
  unfold reg_cells. rewrite in_map_iff. intros [k [H _]]. exists k, (od_ety d). symmetry; exact H.
Qed.

Lemma in_opt_cells o c : In c (opt_cells o) -> exists i, o = Some i /\ c = CInst i.
Proof.
  destruct o as [i|]; simpl; [|contradiction]. intros [H|[]]. exists i. split; [reflexivity | symmetry; exact H].
Qed.

Lemma insts_recv d : In (od_recv d) (insts d).
Proof. unfold insts. left. reflexivity. Qed.
Lemma insts_aux d i : od_aux d = Some i -> In i (insts d).
Proof. unfold insts. intros H. rewrite H. right. apply in_or_app. left. left. reflexivity. Qed.
Lemma insts_coll d i : od_coll d = Some i -> In i (insts d).
Proof. unfold insts. intros H. rewrite H. right. apply in_or_app. right. left. reflexivity. Qed.

(* after the repairs an operation touches only registry entries and the cells of its own instances *)
Lemma touches_repaired F d c :
  is_repaired F -> In c (touches cell (fp_of F d)) ->
  (exists k t, c = CReg k t) \/ (exists i, In i (insts d) /\ c = CInst i).
Proof.
  intros HF. unfold fp_of, touches. rewrite (shared_cells_repaired F d HF).
  assert (R : In c (reg_cells d) -> (exists k t, c = CReg k t) \/ (exists i, In i (insts d) /\ c = CInst i)).
  { intros H. left. apply in_reg_cells in H. exact H. }
  assert (V : CInst (od_recv d) = c -> (exists k t, c = CReg k t) \/ (exists i, In i (insts d) /\ c = CInst i)).
  { intros H. right. exists (od_recv d). split; [apply insts_recv | symmetry; exact H]. }
  assert (A : In c (opt_cells (od_aux d)) -> (exists k t, c = CReg k t) \/ (exists i, In i (insts d) /\ c = CInst i)).
  { intros H. right. apply in_opt_cells in H. destruct H as [i [H1 H2]]. exists i. split; [apply insts_aux; exact H1 | exact H2]. }
  assert (C : In c (opt_cells (od_coll d)) -> (exists k t, c = CReg k t) \/ (exists i, In i (insts d) /\ c = CInst i)).
  { intros H. right. apply in_opt_cells in H. destruct H as [i [H1 H2]]. exists i. split; [apply insts_coll; exact H1 | exact H2]. }
  assert (K : In c (if od_cold d then reg_cells d else []) -> (exists k t, c = CReg k t) \/ (exists i, In i (insts d) /\ c = CInst i)).
  { destruct (od_cold d); [exact R | intros []]. }
  destruct (f_collator_shares_depth F); destruct (od_fam d); cbn [reads writes app]; rewrite ?in_app_iff; cbn [In]; rewrite ?in_app_iff;
    intuition; try match goal with H : In _ [] |- _ => destruct H end.
Qed.

(* when the classes exist already, it writes only cells of its own instances *)
Lemma writes_repaired_warm F d c :
  is_repaired F -> od_cold d = false -> In c (writes (fp_of F d)) ->
  exists i, In i (insts d) /\ c = CInst i.
Proof.
  intros HF Hc. unfold fp_of. rewrite (shared_cells_repaired F d HF), Hc.
  assert (V : CInst (od_recv d) = c -> exists i, In i (insts d) /\ c = CInst i).
  { intros H. exists (od_recv d). split; [apply insts_recv | symmetry; exact H]. }
  assert (A : In c (opt_cells (od_aux d)) -> exists i, In i (insts d) /\ c = CInst i).
  { intros H. apply in_opt_cells in H. destruct H as [i [H1 H2]]. exists i. split; [apply insts_aux; exact H1 | exact H2]. }
  assert (C : In c (opt_cells (od_coll d)) -> exists i, In i (insts d) /\ c = CInst i).
  { intros H. apply in_opt_cells in H. destruct H as [i [H1 H2]]. exists i. split; [apply insts_coll; exact H1 | exact H2]. }
  destruct (f_collator_shares_depth F); destruct (od_fam d); cbn [reads writes app]; rewrite ?in_app_iff; cbn [In]; rewrite ?in_app_iff;
    intuition; match goal with H : In _ [] |- _ => destruct H end.
Qed.

Lemma disjoint_insts_spec a b :
  disjoint_insts a b = true -> forall i, In i (insts a) -> ~ In i (insts b).
Proof.
  unfold disjoint_insts. intros H i Ha Hb. apply negb_true_iff in H.
  assert (E : existsb (fun i0 => existsb (Nat.eqb i0) (insts b)) (insts a) = true).
  { apply existsb_exists. exists i. split; [exact Ha|]. apply existsb_exists. exists i. split; [exact Hb | apply Nat.eqb_refl]. }
  congruence.
Qed.

Lemma disjoint_insts_sym a b : disjoint_insts a b = true -> disjoint_insts b a = true.
Proof.
  intros H. unfold disjoint_insts. apply negb_true_iff.
  destruct (existsb (fun i => existsb (Nat.eqb i) (insts a)) (insts b)) eqn:E; [|reflexivity].
  apply existsb_exists in E. destruct E as [i [Hb E]]. apply existsb_exists in E. destruct E as [j [Ha E]].
  apply Nat.eqb_eq in E. subst j. exfalso. exact (disjoint_insts_spec a b H i Ha Hb).
Qed.

Lemma filter_unguarded F c l :
  In c (filter (fun c0 => negb (guarded F c0)) l) -> In c l /\ guarded F c = false.
Proof. rewrite filter_In. intros [H1 H2]. split; [exact H1 | apply negb_true_iff; exact H2]. Qed.

Lemma half_racy F a b :
  is_repaired F -> disjoint_insts a b = true ->
  overlap cell cell_eqb (filter (fun c => negb (guarded F c)) (writes (fp_of F a)))
                        (filter (fun c => negb (guarded F c)) (touches cell (fp_of F b))) = false.
Proof.
  intros HF Hd. apply overlap_false_iff. intros c Ha Hb.
  apply filter_unguarded in Ha. apply filter_unguarded in Hb. destruct Ha as [Ha Hg]. destruct Hb as [Hb _].
  assert (Ha' : In c (touches cell (fp_of F a))) by (unfold touches; apply in_or_app; right; exact Ha).
  destruct (touches_repaired F a c HF Ha') as [[k [t E]]|[i [Hi E]]].
  - subst c. simpl in Hg. destruct HF as [L _]. congruence.
  - destruct (touches_repaired F b c HF Hb) as [[k [t E']]|[j [Hj E']]].
    + congruence.
    + assert (i = j) by congruence. subst j. exact (disjoint_insts_spec a b Hd i Hi Hj).
Qed.

Lemma half_warm F a b :
  is_repaired F -> disjoint_insts a b = true -> od_cold a = false ->
  overlap cell cell_eqb (writes (fp_of F a)) (touches cell (fp_of F b)) = false.
Proof.
  intros HF Hd Hc. apply overlap_false_iff. intros c Ha Hb.
  destruct (writes_repaired_warm F a c HF Hc Ha) as [i [Hi E]].
  destruct (touches_repaired F b c HF Hb) as [[k [t E']]|[j [Hj E']]].
  - congruence.
  - assert (i = j) by congruence. subst j. exact (disjoint_insts_spec a b Hd i Hi Hj).
Qed.

(* operations on distinct instances: no conflict outside the registry critical sections, and
   no conflict at all once the classes exist *)
Theorem distinct_instances_disjoint (F : facts) (a b : opdesc) :
  is_repaired F -> disjoint_insts a b = true ->
  racy_conflict F a b = false /\
  (od_cold a = false -> od_cold b = false -> conflict F a b = false).
Proof.
  intros HF Hd. pose proof (disjoint_insts_sym a b Hd) as Hd'. split.
  - unfold racy_conflict, conflicts_except. rewrite (half_racy F a b HF Hd), (half_racy F b a HF Hd'). reflexivity.
  - intros Ca Cb. unfold conflict, conflicts. rewrite (half_warm F a b HF Hd Ca), (half_warm F b a HF Hd' Cb). reflexivity.
Qed.

(* THE obligation that ties the theorem to the sources: the facts regenerated by
   tools/genparams.py from the Go files are those of the repaired tree *)
Lemma current_facts_repaired : is_repaired current_facts.
Proof. repeat split; vm_compute; reflexivity. Qed.

Theorem distinct_instances_disjoint_current (a b : opdesc) :
  disjoint_insts a b = true ->
  racy_conflict current_facts a b = false /\
  (od_cold a = false -> od_cold b = false -> conflict current_facts a b = false).
Proof. apply distinct_instances_disjoint. exact current_facts_repaired. Qed.

(* ---------- programs written against the table ---------- *)

(* [sem] is ANY implementation of the operation descriptors whose actions respect the
   table's footprints.  Threads whose operations are on pairwise distinct instances (and
   whose classes exist) then commute under every interleaving. *)
Definition threads_disjoint (ta tb : list opdesc) : Prop :=
  forall a b, In a ta -> In b tb -> disjoint_insts a b = true.
Definition warm (t : list opdesc) : Prop := forall a, In a t -> od_cold a = false.

Lemma no_conflict_of_table F (sem : opdesc -> op cell) (ta tb : list opdesc) :
  is_repaired F -> (forall d, op_fp (sem d) = fp_of F d) ->
  warm ta -> warm tb -> threads_disjoint ta tb ->
  no_conflict cell (map sem ta) (map sem tb).
Proof.
  intros HF Hfp Wa Wb Hd.
  apply (threads_conflict_false cell cell_eqb cell_eqb_spec).
  unfold threads_conflict.
  destruct (existsb _ (map sem ta)) eqn:E; [|reflexivity].
  apply existsb_exists in E. destruct E as [x [Hx E]]. apply existsb_exists in E. destruct E as [y [Hy E]].
  apply in_map_iff in Hx. destruct Hx as [a [Ea Ha]]. apply in_map_iff in Hy. destruct Hy as [b [Eb Hb]].
  subst x y. rewrite !Hfp in E.
  destruct (distinct_instances_disjoint F a b HF (Hd a b Ha Hb)) as [_ K].
  unfold conflict in K. rewrite (K (Wa a Ha) (Wb b Hb)) in E. discriminate.
Qed.

Theorem table_programs_independent F (sem : opdesc -> op cell) (dts : list (list opdesc)) (s0 : store cell) :
  is_repaired F ->
  (forall d, op_fp (sem d) = fp_of F d) -> (forall d, op_wf cell (sem d)) ->
  (forall t, In t dts -> warm t) ->
  ForallOrdPairs threads_disjoint dts ->
  forall sched,
    let ts := map (map sem) dts in
    let c := run cell (init cell s0 ts) sched in
    finished cell c ->
    (forall i, res c i = snd (run_thread cell s0 (nth i ts []))) /\
    snd (run_seq cell s0 ts) = map (fun t => snd (run_thread cell s0 t)) ts /\
    (forall x, st c x = fst (run_seq cell s0 ts) x).
Proof.
  intros HF Hfp Hwf Hwarm Hpw sched ts c Hfin.
  apply (indep_commutes cell cell_eqb cell_eqb_spec ts s0).
  - intros t Ht. unfold ts in Ht. apply in_map_iff in Ht. destruct Ht as [dt [E _]]. subst t.
    apply Forall_forall. intros o Ho. apply in_map_iff in Ho. destruct Ho as [d [E _]]. subst o. apply Hwf.
  - unfold ts. clear ts c Hfin. induction Hpw as [|a l Ha Hl IH].
    + constructor.
    + simpl. constructor.
      * apply Forall_forall. intros t Ht. apply in_map_iff in Ht. destruct Ht as [b [E Hb]]. subst t.
        rewrite Forall_forall in Ha.
        apply (no_conflict_of_table F sem a b HF Hfp).
        -- apply Hwarm. left; reflexivity.
        -- apply Hwarm. right; exact Hb.
        -- apply Ha; exact Hb.
      * apply IH. intros t Ht. apply Hwarm. right; exact Ht.
  - exact Hfin.
Qed.

(* ---------- the tree before the repairs: the same table says "conflict" ---------- *)

Definition str_a : opdesc := OD FFormat KList (VNota 1) 0 101 None None false.
Definition str_b : opdesc := OD FFormat KList (VNota 1) 0 201 None None false.
Definition srt_a : opdesc := OD FSort KSlice VDefault 2 101 (Some 102%nat) None false.
Definition srt_b : opdesc := OD FSort KSlice VDefault 2 201 (Some 202%nat) None false.
Definition par_a : opdesc := OD FParse KList (VNota 1) 0 101 None None false.
Definition par_b : opdesc := OD FParse KList (VNota 1) 0 201 None None false.

(* String()/FormatValue on two different lists of one element type: the two operations are
   on distinct instances, yet both write the formatter inside the one notation; and there is
   an interleaving of the two FormatValue calls (texts 123 and 45) in which both return a
   corrupted text *)
Theorem string_shared_refuted_prefix :
  disjoint_insts str_a str_b = true /\
  racy_conflict prefix_facts str_a str_b = true /\
  (forall c, In c (thread_touches cell (format_program 1 [1; 2; 3])) -> In c (writes (fp_of prefix_facts str_a))) /\
  (forall c, In c (thread_touches cell (format_program 1 [4; 5])) -> In c (writes (fp_of prefix_facts str_b))) /\
  alone (format_program 1 [1; 2; 3]) = [0; 0; 0; 123] /\
  alone (format_program 1 [4; 5]) = [0; 0; 45] /\
  exists sched,
    finishedb cell 2 (run cell (init cell zero_store [format_program 1 [1; 2; 3]; format_program 1 [4; 5]]) sched) = true /\
    results2 (format_program 1 [1; 2; 3]) (format_program 1 [4; 5]) sched = ([0; 0; 0; 3], [0; 0; 1425]).
Proof.
  split; [reflexivity|]. split; [reflexivity|].
  split; [simpl; intuition|]. split; [simpl; intuition|].
  split; [reflexivity|]. split; [reflexivity|].
  exists [0; 1; 0; 1; 1; 0; 0]%nat. split; vm_compute; reflexivity.
Qed.

(* the same for ParseSource through one notation *)
Theorem parse_shared_refuted_prefix :
  disjoint_insts par_a par_b = true /\ racy_conflict prefix_facts par_a par_b = true.
Proof. split; reflexivity. Qed.

(* two default sorters of one element type: distinct sorter instances and distinct slices,
   yet both write the depth counter of the one collator behind the class's default ranker;
   and there is an interleaving of two RankValues calls on values nested 10 deep in which
   one of them ends in the depth-limit panic (-1) although neither does when run alone *)
Theorem default_sorter_shared_refuted_prefix :
  disjoint_insts srt_a srt_b = true /\
  racy_conflict prefix_facts srt_a srt_b = true /\
  (forall c, In c (thread_touches cell (rank_program 2 10)) -> In c (writes (fp_of prefix_facts srt_a))) /\
  ~ In (-1) (alone (rank_program 2 10)) /\
  exists sched,
    finishedb cell 2 (run cell (init cell zero_store [rank_program 2 10; rank_program 2 10]) sched) = true /\
    In (-1) (snd (results2 (rank_program 2 10) (rank_program 2 10) sched)).
Proof.
  split; [reflexivity|]. split; [reflexivity|].
  split.
  { intros c H. vm_compute in H. vm_compute. intuition. }
  split.
  { vm_compute. intuition; discriminate. }
  exists (1%nat :: repeat 0%nat 11 ++ repeat 1%nat 20 ++ repeat 0%nat 10). split.
  - vm_compute. reflexivity.
  - vm_compute. intuition.
Qed.

(* after the repairs the very same pairs do not conflict *)
Example repaired_pairs_clean :
  racy_conflict repaired_facts str_a str_b = false /\ conflict repaired_facts str_a str_b = false /\
  racy_conflict repaired_facts par_a par_b = false /\ conflict repaired_facts srt_a srt_b = false.
Proof. repeat split; reflexivity. Qed.

(* D29 (repaired): Set.And/Or/Sans/Xor give the result the collator INSTANCE of their first
   operand.  While a collator kept its depth counter in the instance, searching the operand
   and the result from two goroutines were operations on two distinct collections that both
   WROTE that one collator.  The descriptor of such an operation names the collator it uses,
   so the instance sets overlap and [distinct_instances_disjoint] does not apply; with the
   pre-repair facts the table says "conflict". *)
Definition set_a : opdesc := OD FSearch KSet VColl 0 101 None (Some 103%nat) false.
Definition set_r : opdesc := OD FSearch KSet VColl 0 201 None (Some 103%nat) false.
Definition rank_a : opdesc := OD FRank KSlice VAgent 2 101 (Some 102%nat) None false.
Definition rank_b : opdesc := OD FRank KSlice VAgent 2 201 (Some 102%nat) None false.
Theorem derived_set_shares_collator_refuted_prefix :
  od_recv set_a <> od_recv set_r /\ disjoint_insts set_a set_r = false /\
  racy_conflict prefix_facts set_a set_r = true /\
  racy_conflict prefix_facts rank_a rank_b = true.
Proof. split; [discriminate|]. repeat split; reflexivity. Qed.

(* After the repair a public call of a collator works on a per-call copy: using a collator
   (searching a Set, ranking or comparing with a collator agent) writes nothing.  Searches and
   rankings therefore never conflict with one another, whatever collections AND collators the
   goroutines share: in particular the operand and the result of a set operation. *)
Definition read_only_fam (d : opdesc) : Prop := od_fam d = FSearch \/ od_fam d = FRank.

Lemma read_only_writes F d :
  is_repaired F -> f_collator_shares_depth F = false -> read_only_fam d -> od_cold d = false ->
  writes (fp_of F d) = [].
Proof.
  intros HF Hs [Hf|Hf] Hc; unfold fp_of; rewrite (shared_cells_repaired F d HF), Hs, Hc, Hf; reflexivity.
Qed.

Theorem searches_and_rankings_share_freely F a b :
  is_repaired F -> f_collator_shares_depth F = false ->
  read_only_fam a -> read_only_fam b -> od_cold a = false -> od_cold b = false ->
  conflict F a b = false.
Proof.
  intros HF Hs Ra Rb Ca Cb. unfold conflict, conflicts.
  rewrite (read_only_writes F a HF Hs Ra Ca), (read_only_writes F b HF Hs Rb Cb). reflexivity.
Qed.

(* the obligation tying this to the sources: CompareValues/RankValues of collator.go do not
   touch the receiver's depth counter (fact regenerated by tools/genparams.py) *)
Lemma current_collator_reentrant : f_collator_shares_depth current_facts = false.
Proof. vm_compute. reflexivity. Qed.

Theorem searches_and_rankings_share_freely_current a b :
  read_only_fam a -> read_only_fam b -> od_cold a = false -> od_cold b = false ->
  conflict current_facts a b = false.
Proof. apply searches_and_rankings_share_freely; [exact current_facts_repaired | exact current_collator_reentrant]. Qed.

Example derived_set_clean_current :
  read_only_fam set_a /\ read_only_fam set_r /\ read_only_fam rank_a /\
  conflict current_facts set_a set_r = false /\ conflict current_facts rank_a rank_b = false /\
  reads (fp_of current_facts set_a) <> [].
Proof. repeat split; try (left; reflexivity); try (right; reflexivity); try reflexivity; discriminate. Qed.

(* non-vacuity of [distinct_instances_disjoint]: a pair satisfying its hypotheses, and the
   footprints involved are not empty *)
Example disjoint_example :
  disjoint_insts str_a srt_b = true /\ writes (fp_of repaired_facts srt_b) <> [] /\
  reads (fp_of repaired_facts str_a) <> [].
Proof. split; [reflexivity|]. split; discriminate. Qed.

(* ---------- a concrete instance of the hypotheses of [indep_commutes] ---------- *)

Lemma inst_add_wf i z : op_wf cell (inst_add i z).
Proof.
  split.
  - intros s c Hn. simpl in *. unfold cupd, upd. destruct (cell_eqb (CInst i) c) eqn:E; [|reflexivity].
    apply cell_eqb_spec in E. exfalso. apply Hn. left. exact E.
  - intros s s' Hag. assert (E : s (CInst i) = s' (CInst i)) by (apply Hag; left; reflexivity).
    simpl. split; [exact E|]. intros c [Hc|[]]. subst c. unfold cupd, upd.
    assert (R : cell_eqb (CInst i) (CInst i) = true) by (apply cell_eqb_spec; reflexivity).
    rewrite R, E. reflexivity.
Qed.

Definition demo_threads : list (thread cell) :=
  [[inst_add 1 5; inst_add 1 7]; [inst_add 2 1]; [inst_add 3 2; inst_add 3 2; inst_add 3 2]].

Lemma demo_threads_wf : forall t, In t demo_threads -> Forall (op_wf cell) t.
Proof.
  intros t [H|[H|[H|[]]]]; subst t; repeat (apply Forall_cons; [apply inst_add_wf|]); apply Forall_nil.
Qed.

Lemma demo_threads_no_conflict : pairwise_no_conflict cell demo_threads.
Proof.
  unfold demo_threads, pairwise_no_conflict.
  repeat (constructor; [repeat constructor; apply (threads_conflict_false cell cell_eqb cell_eqb_spec); reflexivity |]).
  constructor.
Qed.

(* ---------- the inventory of package-level state ---------- *)

(* The package-level variables of the library are exactly the expected ones: eleven registries
   (each with its mutex, each found locked), class singletons that are never assigned, one
   constant map, the test hook.  A new package-level variable - the way hidden state shared by
   all instances gets into the library - changes Params.package_vars and breaks this proof. *)
Theorem package_state_inventory :
  Params.package_vars = expected_package_vars /\
  forallb (fun p => benign_kind (snd p)) Params.package_vars = true /\
  forallb registry_is_locked Params.package_vars = true /\
  length (filter is_registry Params.package_vars) = length Params.registry_locked.
Proof. repeat split; vm_compute; reflexivity. Qed.

(* ---------- the static footprint extraction (tools/gofootprint -> ParamsFoot.v) ---------- *)

(* What follows does NOT compute on the regenerated tables: these implications hold whatever the
   tables are, so a change of the Go sources never breaks this file.  That the premise
   [static_ok = true] holds for the current sources is proved by computation in IndepStatic.v,
   which only ./check C19 compiles. *)

Lemma is_nil_true {A} (l : list A) : is_nil l = true -> l = [].
Proof. destruct l; [reflexivity | discriminate]. Qed.

Lemma strs_eqb_eq a b : strs_eqb a b = true -> a = b.
Proof.
  revert b. induction a as [|x a IH]; intros [|y b] H; simpl in H; try discriminate; [reflexivity|].
  apply andb_true_iff in H. destruct H as [H1 H2]. apply String.eqb_eq in H1. subst y. f_equal. exact (IH b H2).
Qed.

Lemma pairs_eqb_eq a b : pairs_eqb a b = true -> a = b.
Proof.
  revert b. induction a as [|[x1 x2] a IH]; intros [|[y1 y2] b] H; simpl in H; try discriminate; [reflexivity|].
  apply andb_true_iff in H. destruct H as [H12 H3]. apply andb_true_iff in H12. destruct H12 as [H1 H2].
  apply String.eqb_eq in H1. apply String.eqb_eq in H2. subst y1 y2. f_equal. exact (IH b H3).
Qed.

Lemma facts_eqb_eq a b :
  facts_eqb a b = true ->
  f_registries_locked a = f_registries_locked b /\ f_notation_shares_formatter a = f_notation_shares_formatter b /\
  f_notation_shares_parser a = f_notation_shares_parser b /\ f_sorter_shares_collator a = f_sorter_shares_collator b /\
  f_collator_shares_depth a = f_collator_shares_depth b.
Proof.
  unfold facts_eqb. intros H.
  apply andb_true_iff in H. destruct H as [H H5]. apply andb_true_iff in H. destruct H as [H H4].
  apply andb_true_iff in H. destruct H as [H H3]. apply andb_true_iff in H. destruct H as [H1 H2].
  repeat split; apply Bool.eqb_prop; assumption.
Qed.

Lemma facts_repaired_b_spec F :
  facts_repaired_b F = true -> is_repaired F /\ f_collator_shares_depth F = false.
Proof.
  unfold facts_repaired_b, is_repaired. intros H.
  apply andb_true_iff in H. destruct H as [H H5]. apply andb_true_iff in H. destruct H as [H H4].
  apply andb_true_iff in H. destruct H as [H H3]. apply andb_true_iff in H. destruct H as [H1 H2].
  apply negb_true_iff in H2, H3, H4, H5. repeat split; assumption.
Qed.

Lemma static_ok_parts :
  static_ok = true ->
  foot_tool_ok = true /\ static_no_class_mutable = true /\ static_no_foreign_writes = true /\
  static_shared_edges_expected = true /\ static_pkgvars_guarded = true /\ static_accessors_disciplined = true /\
  static_methods_write_own = true /\ static_facts_agree = true.
Proof.
  unfold static_ok. intros H.
  repeat (apply andb_true_iff in H; let H' := fresh "P" in destruct H as [H H']).
  repeat split; assumption.
Qed.

(* the structural facts behind the table, obtained from the regular expressions of genparams.py,
   are confirmed by the typed analysis and are those of the repaired tree *)
Lemma static_ok_repaired :
  static_ok = true -> is_repaired current_facts /\ f_collator_shares_depth current_facts = false.
Proof.
  intros H. apply static_ok_parts in H. destruct H as [_ [_ [_ [_ [_ [_ [_ H]]]]]]].
  unfold static_facts_agree in H. apply andb_true_iff in H. destruct H as [R E].
  apply facts_repaired_b_spec in R. destruct R as [[R1 [R2 [R3 R4]]] R5].
  apply facts_eqb_eq in E. destruct E as [E1 [E2 [E3 [E4 E5]]]].
  unfold is_repaired. rewrite <- E1, <- E2, <- E3, <- E4, <- E5. repeat split; assumption.
Qed.

(* with the static obligations discharged, every cell an operation of the table writes is the cell of
   one of its own instances, or a registry entry, which is only accessed inside the accessor's
   critical section *)
Theorem static_facts_justify_table :
  static_ok = true ->
  forall (d : opdesc) (c : cell), In c (writes (fp_of current_facts d)) ->
    (exists i, In i (insts d) /\ c = CInst i) \/
    (exists k t, c = CReg k t /\ guarded current_facts c = true).
Proof.
  intros H d c Hc. destruct (static_ok_repaired H) as [R _].
  assert (Ht : In c (touches cell (fp_of current_facts d))) by (unfold touches; apply in_or_app; right; exact Hc).
  destruct (touches_repaired current_facts d c R Ht) as [[k [t E]]|[i [Hi E]]].
  - right. exists k, t. split; [exact E|]. subst c. simpl. destruct R as [L _]. exact L.
  - left. exists i. split; assumption.
Qed.

(* what the static premise says about the sources, in words of the tables *)
Theorem static_ok_meaning :
  static_ok = true ->
  foot_class_mutable = [] /\ foot_foreign_writes = [] /\
  foot_shared_edges = expected_shared_edges /\ foot_escapes = expected_escapes /\
  foot_pkgvar_unguarded = [] /\ foot_verif_pkgvar_unguarded = [] /\
  foot_exported_vars = [] /\ foot_verif_exported_vars = expected_verif_exported_vars /\
  (forall r, In r foot_accessors -> accessor_ok r = true) /\
  map (fun r : accessor_row => fst (fst r)) foot_accessors = map fst Params.registry_locked /\
  (forall m, In m foot_methods -> method_writes_own m = true).
Proof.
  intros H. apply static_ok_parts in H. destruct H as [_ [A [B [C [D [E [F _]]]]]]].
  unfold static_no_class_mutable in A. unfold static_no_foreign_writes in B. unfold static_shared_edges_expected in C.
  unfold static_pkgvars_guarded in D. unfold static_accessors_disciplined, static_registries_locked in E.
  unfold static_methods_write_own in F.
  apply andb_true_iff in D. destruct D as [D D5]. apply andb_true_iff in D. destruct D as [D D4].
  apply andb_true_iff in D. destruct D as [D D3]. apply andb_true_iff in D. destruct D as [D1 D2].
  apply andb_true_iff in E. destruct E as [E E3]. apply andb_true_iff in E. destruct E as [E1 E2].
  apply andb_true_iff in F. destruct F as [F F3]. apply andb_true_iff in F. destruct F as [F1 F2].
  split; [exact (is_nil_true _ A)|]. split; [exact (is_nil_true _ B)|].
  split; [exact (pairs_eqb_eq _ _ C)|]. split; [exact (pairs_eqb_eq _ _ F3)|].
  split; [exact (is_nil_true _ D1)|]. split; [exact (is_nil_true _ D2)|].
  split; [exact (strs_eqb_eq _ _ D3)|]. split; [exact (strs_eqb_eq _ _ D4)|].
  split; [intros r Hr; exact (proj1 (forallb_forall _ _) E1 r Hr)|].
  split; [exact (strs_eqb_eq _ _ E3)|].
  intros m Hm. exact (proj1 (forallb_forall _ _) F1 m Hm).
Qed.

(* C19_distinct_instances_disjoint_current with the static extraction as the (computed) premise *)
Theorem static_distinct_instances_disjoint :
  static_ok = true ->
  forall a b : opdesc,
    disjoint_insts a b = true ->
    racy_conflict current_facts a b = false /\
    (od_cold a = false -> od_cold b = false -> conflict current_facts a b = false).
Proof. intros H a b. apply distinct_instances_disjoint. exact (proj1 (static_ok_repaired H)). Qed.

Theorem static_searches_and_rankings_share_freely :
  static_ok = true ->
  forall a b : opdesc,
    read_only_fam a -> read_only_fam b -> od_cold a = false -> od_cold b = false ->
    conflict current_facts a b = false.
Proof.
  intros H a b. destruct (static_ok_repaired H) as [R D]. apply searches_and_rankings_share_freely; assumption.
Qed.
