(* RoundTripDeriv.v — the visible tokens of the formatter's output (Space tokens dropped, the
   newline renamed as emitToken does) are a DERIVATION of Syntax.cdsn (Complete.dcoll) whose
   value is [canon v]: every literal converts to its value at the canonical width
   (RoundTripLeaf.leaf_litv), "[ ]" is the empty value list, "[:]" the empty association list,
   one item is the inline form, several items the multi-line form, and the collection
   constructor of the written type name builds [canon v] from the items. *)
From Coq Require Import String Ascii.
From Verif Require Import Base Params Value Coll Formatter FormatSpec FormatProofs FormatText FormatBound.
From Verif Require Import Lexer Literals Parser LexerProofs LexBridge LexBridge2 LexBridge3 ParserProofs Complete StripInv LexRender.
From Verif Require Import RoundTripLit RoundTrip RoundTripLeaf RoundTripScan.
Close Scope string_scope.
Open Scope Z_scope.

(* ---------- the visible tokens ---------- *)
Definition eolT : token := mkTok Lexer.TEOL (zs "<EOLN>") 0 0.
Definition dT (c : Z) : token := mkTok Lexer.TDelimiter [c] 0 0.

Lemma vis_app a b : vis (a ++ b) = vis a ++ vis b.
Proof. unfold vis, convs. rewrite map_app, filter_app, map_app. reflexivity. Qed.
Lemma vis_nl d : vis (nl_toks d) = [eolT].
Proof. destruct d; reflexivity. Qed.
Lemma vis_cons_space s r : vis (tok FormatSpec.TSpace s :: r) = vis r.
Proof. reflexivity. Qed.
Lemma vis_cons_lit t r : is_lit (lty (tk_type t)) = true -> vis (t :: r) = mk (conv t) :: vis r.
Proof.
  intros H. unfold vis, convs. cbn [map filter]. unfold visible at 1, conv at 1. cbn [fst].
  destruct (lty (tk_type t)); try discriminate; reflexivity.
Qed.
Lemma dl_dT c : dl c (dT c).
Proof. split; reflexivity. Qed.
Lemma eolt_eolT : eolt eolT.
Proof. reflexivity. Qed.

(* ---------- keys that are pairwise different are neither merged nor re-ordered ---------- *)
Lemma existsb_incl {A} (f : A -> bool) l seen :
  (forall x, In x l -> In x seen) -> existsb f seen = false -> existsb f l = false.
Proof.
  intros Hi Hs. destruct (existsb f l) eqn:E; [|reflexivity].
  apply existsb_exists in E as (x & Hx & Hf).
  assert (existsb f seen = true) by (apply existsb_exists; exists x; auto). congruence.
Qed.

Lemma a_set_fresh (acc : list (val * val)) k v : existsb (keq k) (map fst acc) = false ->
  a_set keq acc k v = acc ++ [(k, v)].
Proof.
  induction acc as [|(k', v') t IH]; [reflexivity|]. cbn [map fst existsb a_set]. intros H.
  apply orb_false_iff in H as [H1 H2]. rewrite H1, (IH H2). reflexivity.
Qed.
Lemma m_set_fresh (acc : list (val * val)) k v : existsb (keq k) (map fst acc) = false ->
  m_set acc k v = acc ++ [(k, v)].
Proof.
  induction acc as [|(k', v') t IH]; [reflexivity|]. cbn [map fst existsb m_set]. intros H.
  apply orb_false_iff in H as [H1 H2]. rewrite H1, (IH H2). reflexivity.
Qed.

Lemma a_set_all_fresh kvs : forall (acc : list (val * val)) seen,
  (forall x, In x (map fst acc) -> In x seen) -> fresh_keys seen (map fst kvs) = true ->
  a_set_all keq acc kvs = acc ++ kvs.
Proof.
  induction kvs as [|(k, v) t IH]; intros acc seen Hi Hf; [rewrite app_nil_r; reflexivity|].
  cbn [map fst fresh_keys] in Hf. apply andb_true_iff in Hf as [Hk Ht]. apply negb_true_iff in Hk.
  unfold a_set_all. cbn [fold_left fst snd]. rewrite (a_set_fresh acc k v (existsb_incl _ _ _ Hi Hk)).
  fold (a_set_all keq (acc ++ [(k, v)]) t). rewrite (IH (acc ++ [(k, v)]) (k :: seen)); [rewrite <- app_assoc; reflexivity| |exact Ht].
  intros x Hx. rewrite map_app in Hx. apply in_app_or in Hx as [Hx|[Hx|[]]]; [right; auto|left; auto].
Qed.
Lemma m_set_all_fresh kvs : forall (acc : list (val * val)) seen,
  (forall x, In x (map fst acc) -> In x seen) -> fresh_keys seen (map fst kvs) = true ->
  fold_left (fun a kv => m_set a (fst kv) (snd kv)) kvs acc = acc ++ kvs.
Proof.
  induction kvs as [|(k, v) t IH]; intros acc seen Hi Hf; [rewrite app_nil_r; reflexivity|].
  cbn [map fst fresh_keys] in Hf. apply andb_true_iff in Hf as [Hk Ht]. apply negb_true_iff in Hk.
  cbn [fold_left fst snd]. rewrite (m_set_fresh acc k v (existsb_incl _ _ _ Hi Hk)).
  rewrite (IH (acc ++ [(k, v)]) (k :: seen)); [rewrite <- app_assoc; reflexivity| |exact Ht].
  intros x Hx. rewrite map_app in Hx. apply in_app_or in Hx as [Hx|[Hx|[]]]; [right; auto|left; auto].
Qed.

Lemma zipkv_fst : forall ks vs, length ks = length vs -> map fst (zipkv ks vs) = ks.
Proof. induction ks as [|k t IH]; intros [|v r] H; try discriminate; [reflexivity|]. cbn [zipkv map fst]. rewrite IH by (simpl in H; lia). reflexivity. Qed.
Lemma zipkv_snd : forall ks vs, length ks = length vs -> map snd (zipkv ks vs) = vs.
Proof. induction ks as [|k t IH]; intros [|v r] H; try discriminate; [reflexivity|]. cbn [zipkv map snd]. rewrite IH by (simpl in H; lia). reflexivity. Qed.
Lemma as_pairs_assocs kvs : as_pairs (map (fun kv => VAssoc (fst kv) (snd kv)) kvs) = Some kvs.
Proof. induction kvs as [|(k, v) t IH]; [reflexivity|]. cbn [map as_pairs fst snd]. rewrite IH. reflexivity. Qed.

Lemma assocs_of_fresh kvs : fresh_keys [] (map fst kvs) = true ->
  assocs_of kvs = map (fun kv => VAssoc (fst kv) (snd kv)) kvs.
Proof. intros H. unfold assocs_of. rewrite (a_set_all_fresh kvs [] []); [reflexivity|intros x []|exact H]. Qed.

Section Deriv.
Variable fparse : list Z -> option Z.
Variable crank : val -> val -> option comparison.
Variable ftext : Z -> list Z.
Variable printable : Z -> bool.
Variable maximum : nat.
Notation tokens_at := (tokens_at ftext printable maximum).
Notation leaf_token := (leaf_token ftext printable).
Notation canon := (canon crank).
Notation rt_val := (rt_val crank).
Notation dvalue := (dvalue fparse crank).
Notation dcoll := (dcoll fparse crank).
Notation ditems := (ditems fparse crank).
Notation floats := (floats_roundtrip fparse ftext).
Notation lfloats := (leaf_floats fparse ftext).

(* the collection constructors on the canonical items *)
Lemma build_seq k l : set_builds crank k (map canon l) = true ->
  build crank (seq_type k) (map canon l) = BVal (canon (VSeq k l)).
Proof.
  intros H. destruct k; try reflexivity. cbn [set_builds] in H.
  change (build crank (seq_type KSet) (map canon l))
    with (match set_build crank [] (map canon l) with Some s => BVal (VSeq KSet s) | None => BCollator end).
  change (canon (VSeq KSet l))
    with (VSeq KSet (match set_build crank [] (map canon l) with Some s => s | None => map canon l end)).
  destruct (set_build crank [] (map canon l)); [reflexivity|discriminate].
Qed.

Lemma build_mapping k ks vs : length ks = length vs -> fresh_keys [] (map canon_leaf ks) = true ->
  build crank (map_type k) (assocs_of (zipkv (map canon_leaf ks) (map canon vs))) = BVal (canon (VMapping k ks vs)).
Proof.
  intros Hl Hf. set (kvs := zipkv (map canon_leaf ks) (map canon vs)).
  assert (Hl' : length (map canon_leaf ks) = length (map canon vs)) by (rewrite !map_length; exact Hl).
  assert (Hk : map fst kvs = map canon_leaf ks) by (apply zipkv_fst; exact Hl').
  assert (Hv : map snd kvs = map canon vs) by (apply zipkv_snd; exact Hl').
  assert (Hf' : fresh_keys [] (map fst kvs) = true) by (rewrite Hk; exact Hf).
  rewrite (assocs_of_fresh kvs Hf').
  destruct k.
  - change (build crank (map_type MGoMap) (map (fun kv => VAssoc (fst kv) (snd kv)) kvs))
      with (match as_pairs (map (fun kv => VAssoc (fst kv) (snd kv)) kvs) with
            | Some kvs0 => let m := fold_left (fun acc kv => m_set acc (fst kv) (snd kv)) kvs0 [] in
                           BVal (VMapping MMap (map fst m) (map snd m))
            | None => BNotAssociations end).
    rewrite as_pairs_assocs. cbv zeta. rewrite (m_set_all_fresh kvs [] []); [|intros x []|exact Hf'].
    cbn [app]. rewrite Hk, Hv. reflexivity.
  - change (build crank (map_type MMap) (map (fun kv => VAssoc (fst kv) (snd kv)) kvs))
      with (match as_pairs (map (fun kv => VAssoc (fst kv) (snd kv)) kvs) with
            | Some kvs0 => let m := fold_left (fun acc kv => m_set acc (fst kv) (snd kv)) kvs0 [] in
                           BVal (VMapping MMap (map fst m) (map snd m))
            | None => BNotAssociations end).
    rewrite as_pairs_assocs. cbv zeta. rewrite (m_set_all_fresh kvs [] []); [|intros x []|exact Hf'].
    cbn [app]. rewrite Hk, Hv. reflexivity.
  - change (build crank (map_type MCatalog) (map (fun kv => VAssoc (fst kv) (snd kv)) kvs))
      with (match as_pairs (map (fun kv => VAssoc (fst kv) (snd kv)) kvs) with
            | Some kvs0 => let m := a_set_all keq [] kvs0 in BVal (VMapping MCatalog (map fst m) (map snd m))
            | None => BNotAssociations end).
    rewrite as_pairs_assocs. cbv zeta. rewrite (a_set_all_fresh kvs [] []); [|intros x []|exact Hf'].
    cbn [app]. rewrite Hk, Hv. reflexivity.
Qed.

(* what the induction proves of a value *)
Definition GC (v : val) : Prop := forall d n ts,
  tokens_at d n v = Some ts -> has_elision ts = false -> rt_val v = true -> floats v = true ->
  dvalue (vis ts) (canon v) /\ (is_collection v = true -> dcoll (vis ts) (canon v)).

Lemma tlines_cons_inv x t d n b : tlines tokens_at d n (x :: t) = Some b ->
  exists a b', tokens_at d n x = Some a /\ tlines tokens_at d n t = Some b' /\ b = nl_toks d ++ a ++ b'.
Proof.
  cbn [tlines]. destruct (tokens_at d n x) as [a|]; [|discriminate].
  destruct (tlines tokens_at d n t) as [b'|]; [|discriminate]. intros H. injection H as H.
  exists a, b'. auto.
Qed.
Lemma talines_cons_inv k ks x t d n b : talines ftext printable tokens_at d n (k :: ks) (x :: t) = Some b ->
  exists a b', tassoc ftext printable tokens_at d n k x = Some a /\
               talines ftext printable tokens_at d n ks t = Some b' /\ b = nl_toks d ++ a ++ b'.
Proof.
  cbn [talines hd tl]. destruct (tassoc ftext printable tokens_at d n k x) as [a|]; [|discriminate].
  destruct (talines ftext printable tokens_at d n ks t) as [b'|]; [|discriminate]. intros H. injection H as H.
  exists a, b'. auto.
Qed.

Lemma tassoc_C k x : GC x -> forall d n ts,
  tassoc ftext printable tokens_at d n k x = Some ts -> has_elision ts = false ->
  leaf_ok k = true -> rt_val x = true -> lfloats k = true -> floats x = true ->
  dassoc fparse crank (vis ts) (canon_leaf k, canon x).
Proof.
  intros Gx d n ts H He Ok Rx Fk Fx. unfold tassoc in H.
  destruct (leaf_token k) as [kt|] eqn:Ek; [|discriminate].
  destruct (tokens_at d n x) as [vt|] eqn:Ex; [|discriminate]. inversion H; subst ts. clear H.
  rewrite !has_elision_cons in He. apply orb_false_iff in He as [_ He]. apply orb_false_iff in He as [_ He].
  apply orb_false_iff in He as [_ He].
  rewrite (vis_cons_lit kt _ (leaf_token_type ftext printable k kt Ek)).
  change (vis (FormatSpec.delim 58 :: tok FormatSpec.TSpace [32] :: vt)) with (dT 58 :: vis vt).
  apply da; [apply (leaf_litv fparse ftext printable k kt Ek Ok Fk)|apply dl_dT|].
  apply (Gx d n vt Ex He Rx Fx).
Qed.

Lemma tlines_C l : Forall GC l -> forall d n b,
  tlines tokens_at d n l = Some b -> has_elision b = false -> forallb rt_val l = true -> forallb floats l = true ->
  forall tail vs', dvtail_m fparse crank tail vs' -> dvtail_m fparse crank (vis b ++ tail) (map canon l ++ vs').
Proof.
  induction 1 as [|x t Gx Gt IH]; intros d n b H He Rl Fl tail vs' Dt.
  - inversion H. exact Dt.
  - cbn [tlines] in H. destruct (tokens_at d n x) as [a|] eqn:Ex; [|discriminate].
    destruct (tlines tokens_at d n t) as [b'|] eqn:Et; [|discriminate]. inversion H; subst b. clear H.
    rewrite !has_elision_app in He. apply orb_false_iff in He as [_ He]. apply orb_false_iff in He as [Ha Hb].
    cbn [forallb] in Rl, Fl. apply andb_true_iff in Rl as [Rx Rt]. apply andb_true_iff in Fl as [Fx Ft].
    rewrite !vis_app, vis_nl, <- !app_assoc. cbn [app map].
    apply vtm_cons; [apply eolt_eolT|apply (Gx d n a Ex Ha Rx Fx)|apply (IH d n b' Et Hb Rt Ft tail vs' Dt)].
Qed.

Lemma talines_C vs : Forall GC vs -> forall ks d n b, length ks = length vs ->
  talines ftext printable tokens_at d n ks vs = Some b -> has_elision b = false ->
  forallb leaf_ok ks = true -> forallb rt_val vs = true -> forallb lfloats ks = true -> forallb floats vs = true ->
  forall tail kvs', datail_m fparse crank tail kvs' ->
  datail_m fparse crank (vis b ++ tail) (zipkv (map canon_leaf ks) (map canon vs) ++ kvs').
Proof.
  induction 1 as [|x t Gx Gt IH]; intros ks d n b Hl H He Ok Rl Fk Fl tail kvs' Dt.
  - inversion H. destruct ks; [exact Dt|discriminate].
  - destruct ks as [|k ks']; [discriminate|]. cbn [talines hd tl] in H.
    destruct (tassoc ftext printable tokens_at d n k x) as [a|] eqn:Ex; [|discriminate].
    destruct (talines ftext printable tokens_at d n ks' t) as [b'|] eqn:Et; [|discriminate]. inversion H; subst b. clear H.
    rewrite !has_elision_app in He. apply orb_false_iff in He as [_ He]. apply orb_false_iff in He as [Ha Hb].
    cbn [forallb] in Ok, Rl, Fk, Fl. apply andb_true_iff in Ok as [Okk Okt]. apply andb_true_iff in Rl as [Rx Rt].
    apply andb_true_iff in Fk as [Fkk Fkt]. apply andb_true_iff in Fl as [Fx Ft].
    rewrite !vis_app, vis_nl, <- !app_assoc. cbn [app map zipkv].
    apply atm_cons; [apply eolt_eolT|apply (tassoc_C k x Gx d n a Ex Ha Okk Rx Fkk Fx)|].
    apply (IH ks' d n b' ltac:(simpl in Hl; lia) Et Hb Okt Rt Fkt Ft tail kvs' Dt).
Qed.

Lemma titems_C l : Forall GC l -> forall d n b,
  titems maximum tokens_at d n l = Some b -> has_elision b = false -> forallb rt_val l = true -> forallb floats l = true ->
  ditems (vis b) (map canon l).
Proof.
  intros Gl d n b H He Rl Fl. unfold titems in H.
  destruct (maximum <? n)%nat; [inversion H; subst b; discriminate|].
  destruct l as [|x [|y t]].
  - inversion H; subst b. apply di_empty.
  - inversion Gl as [|? ? Gx _]; subst. cbn [forallb] in Rl, Fl.
    apply andb_true_iff in Rl as [Rx _]. apply andb_true_iff in Fl as [Fx _].
    rewrite <- (app_nil_r (vis b)). cbn [map]. apply di_vi; [apply (Gx d n b H He Rx Fx)|apply vti_nil].
  - destruct (tlines tokens_at (S d) n (x :: y :: t)) as [b0|] eqn:Eb; [|discriminate]. inversion H; subst b. clear H.
    rewrite has_elision_app in He. apply orb_false_iff in He as [He0 _].
    destruct (tlines_cons_inv _ _ _ _ _ Eb) as (a & b1 & Ex & Et & ->). clear Eb.
    rewrite !has_elision_app in He0. apply orb_false_iff in He0 as [_ He0]. apply orb_false_iff in He0 as [Ha Hb].
    inversion Gl as [|? ? Gx Gt]; subst. cbn [forallb] in Rl, Fl.
    apply andb_true_iff in Rl as [Rx Rt]. apply andb_true_iff in Fl as [Fx Ft].
    rewrite !vis_app, !vis_nl, <- !app_assoc. cbn [app map].
    apply di_vm; [apply eolt_eolT|apply (Gx (S d) n a Ex Ha Rx Fx)|].
    rewrite <- (app_nil_r (canon y :: map canon t)).
    apply (tlines_C (y :: t) Gt (S d) n b1 Et Hb Rt Ft [eolT] []). apply vtm_end, eolt_eolT.
Qed.

Lemma tentries_C vs : Forall GC vs -> forall ks d n b, length ks = length vs ->
  tentries ftext printable maximum tokens_at d n ks vs = Some b -> has_elision b = false ->
  forallb leaf_ok ks = true -> forallb rt_val vs = true -> forallb lfloats ks = true -> forallb floats vs = true ->
  ditems (vis b) (assocs_of (zipkv (map canon_leaf ks) (map canon vs))).
Proof.
  intros Gl ks d n b Hl H He Ok Rl Fk Fl. unfold tentries in H.
  destruct (maximum <? n)%nat; [inversion H; subst b; discriminate|].
  destruct vs as [|x [|y t]].
  - inversion H; subst b. destruct ks; [|discriminate]. apply (di_colon fparse crank (dT 58)), dl_dT.
  - destruct ks as [|k [|k2 ks']]; try discriminate. cbn [hd] in H.
    inversion Gl as [|? ? Gx _]; subst. cbn [forallb] in Ok, Rl, Fk, Fl.
    apply andb_true_iff in Ok as [Okk _]. apply andb_true_iff in Rl as [Rx _].
    apply andb_true_iff in Fk as [Fkk _]. apply andb_true_iff in Fl as [Fx _].
    rewrite <- (app_nil_r (vis b)). cbn [map zipkv].
    apply (di_ai fparse crank (vis b) (canon_leaf k, canon x) [] []); [|apply ati_nil].
    apply (tassoc_C k x Gx d n b H He Okk Rx Fkk Fx).
  - destruct (talines ftext printable tokens_at (S d) n ks (x :: y :: t)) as [b0|] eqn:Eb; [|discriminate]. inversion H; subst b. clear H.
    rewrite has_elision_app in He. apply orb_false_iff in He as [He0 _].
    destruct ks as [|k ks']; [discriminate|].
    destruct (talines_cons_inv _ _ _ _ _ _ _ Eb) as (a & b1 & Ex & Et & ->). clear Eb.
    rewrite !has_elision_app in He0. apply orb_false_iff in He0 as [_ He0]. apply orb_false_iff in He0 as [Ha Hb].
    inversion Gl as [|? ? Gx Gt]; subst. cbn [forallb] in Ok, Rl, Fk, Fl.
    apply andb_true_iff in Ok as [Okk Okt]. apply andb_true_iff in Rl as [Rx Rt].
    apply andb_true_iff in Fk as [Fkk Fkt]. apply andb_true_iff in Fl as [Fx Ft].
    rewrite !vis_app, !vis_nl, <- !app_assoc. cbn [app].
    change (zipkv (map canon_leaf (k :: ks')) (map canon (x :: y :: t)))
      with ((canon_leaf k, canon x) :: zipkv (map canon_leaf ks') (map canon (y :: t))).
    apply di_am; [apply eolt_eolT|apply (tassoc_C k x Gx (S d) n a Ex Ha Okk Rx Fkk Fx)|].
    rewrite <- (app_nil_r (zipkv (map canon_leaf ks') (map canon (y :: t)))).
    apply (talines_C (y :: t) Gt ks' (S d) n b1 ltac:(simpl in Hl |- *; lia) Et Hb Okt Rt Fkt Ft [eolT] []).
    apply atm_end, eolt_eolT.
Qed.

(* "[" items "]" "(" Type ")" *)
Lemma tcoll_C body ty items v ts :
  tcoll body ty = Some ts -> has_elision ts = false -> rename ty = ty ->
  (forall b, body = Some b -> has_elision b = false -> ditems (vis b) items) ->
  build crank ty items = BVal v -> dcoll (vis ts) v.
Proof.
  intros H He Hr Hb Bu. unfold tcoll in H. destruct body as [b|]; [|discriminate]. inversion H; subst ts. clear H.
  rewrite has_elision_cons, has_elision_app in He. apply orb_false_iff in He as [_ He]. apply orb_false_iff in He as [He _].
  change (vis (FormatSpec.delim 91 :: b ++ ctx_toks ty)) with (dT 91 :: vis (b ++ ctx_toks ty)).
  rewrite vis_app.
  change (vis (ctx_toks ty)) with [dT 93; dT 40; mkTok Lexer.TType (rename ty) 0 0; dT 41]. rewrite Hr.
  apply (dc fparse crank (dT 91) (vis b) items (dT 93) (dT 40) (mkTok Lexer.TType ty 0 0) (dT 41) v);
    auto using dl_dT.
Qed.

Lemma seq_type_rename k : rename (seq_type k) = seq_type k.
Proof. destruct k; reflexivity. Qed.
Lemma map_type_rename k : rename (map_type k) = map_type k.
Proof. destruct k; reflexivity. Qed.

Lemma GC_leaf v :
  (forall d n, tokens_at d n v = option_map (fun t => [t]) (leaf_token v)) ->
  floats v = lfloats v -> rt_val v = leaf_ok v -> canon v = canon_leaf v -> is_collection v = false -> GC v.
Proof.
  intros E1 E2 E3 E4 E5 d n ts H He Rv Fl. rewrite E1 in H.
  destruct (leaf_token v) as [t|] eqn:E; [|discriminate]. inversion H; subst ts.
  rewrite E5. split; [|discriminate].
  rewrite (vis_cons_lit t [] (leaf_token_type ftext printable v t E)). rewrite E4.
  apply dv_lit. apply (leaf_litv fparse ftext printable v t E); [rewrite <- E3; exact Rv|rewrite <- E2; exact Fl].
Qed.

Theorem tokens_derive : forall v, GC v.
Proof.
  induction v as [ | | | bo | w z | w z | z | z | w bits | w re im ab ph | s | i x | kd l IHl | key x IHkey IHx | kd ks vs IHks IHvs ] using val_ind2;
    try (apply GC_leaf; [intros; reflexivity|reflexivity|reflexivity|reflexivity|reflexivity]);
    intros d n ts H He Rv Fl.
  - (* VNilSlice *) cbn [FormatSpec.tokens_at] in H.
    assert (D : dcoll (vis ts) (canon VNilSlice)).
    { apply (tcoll_C _ _ [] _ ts H He (seq_type_rename KSlice)); [|reflexivity].
      intros b Hb Heb. apply (titems_C [] (Forall_nil _) d (S n) b Hb Heb eq_refl eq_refl). }
    split; [apply dv_coll; exact D|intros _; exact D].
  - (* VNilMap *) cbn [FormatSpec.tokens_at] in H.
    assert (D : dcoll (vis ts) (canon VNilMap)).
    { apply (tcoll_C _ _ (assocs_of []) _ ts H He (map_type_rename MGoMap)); [|reflexivity].
      intros b Hb Heb. apply (tentries_C [] (Forall_nil _) [] d (S n) b eq_refl Hb Heb eq_refl eq_refl eq_refl eq_refl). }
    split; [apply dv_coll; exact D|intros _; exact D].
  - (* VSeq *) cbn [FormatSpec.tokens_at] in H. cbn [RoundTrip.rt_val] in Rv. apply andb_true_iff in Rv as [Rl Sb].
    cbn [floats_roundtrip] in Fl.
    assert (D : dcoll (vis ts) (canon (VSeq kd l))).
    { apply (tcoll_C _ _ (map canon l) _ ts H He (seq_type_rename kd)); [|apply build_seq; exact Sb].
      intros b Hb Heb. apply (titems_C l IHl d (S n) b Hb Heb Rl Fl). }
    split; [apply dv_coll; exact D|intros _; exact D].
  - (* VAssoc *) discriminate.
  - (* VMapping *) cbn [FormatSpec.tokens_at] in H. cbn [RoundTrip.rt_val] in Rv.
    apply andb_true_iff in Rv as [Rv Fr]. apply andb_true_iff in Rv as [Rv Rl]. apply andb_true_iff in Rv as [Hl Ok].
    apply Nat.eqb_eq in Hl. cbn [floats_roundtrip] in Fl. apply andb_true_iff in Fl as [Fk Fv].
    assert (D : dcoll (vis ts) (canon (VMapping kd ks vs))).
    { apply (tcoll_C _ _ (assocs_of (zipkv (map canon_leaf ks) (map canon vs))) _ ts H He (map_type_rename kd));
        [|apply build_mapping; assumption].
      intros b Hb Heb. apply (tentries_C vs IHvs ks d (S n) b Hl Hb Heb Ok Rl Fk Fv). }
    split; [apply dv_coll; exact D|intros _; exact D].
Qed.
End Deriv.
