(* C17.v — Iterators are bidirectional cursors over an immutable snapshot
   Statements only: every theorem is closed by [exact] of a lemma proved elsewhere, and its
   axioms are printed.  Generated once by tools/mkprop.py from the proved lemmas' statements. *)
From Verif Require Import Base Seq IterProofs.

Theorem C17_slot_within_bounds :
  forall (A : Type) (zero : A) (l : list A) (ms : list move),
         it_slot (walk A zero (it_make l) ms) <= length l.
Proof. exact C17_slot_inv. Qed.

Theorem C17_moves_never_change_the_snapshot :
  forall (A : Type) (zero : A) (i : iter A) (ms : list move),
         it_vals (walk A zero i ms) = it_vals i.
Proof. exact C17_snapshot. Qed.

Theorem C17_has_next_iff :
  forall (A : Type) (i : iter A), has_next i = true <-> it_slot i < it_size i.
Proof. exact has_next_iff. Qed.

Theorem C17_has_prev_iff :
  forall (A : Type) (i : iter A), has_prev i = true <-> 0 < it_slot i.
Proof. exact has_prev_iff. Qed.

Theorem C17_get_next :
  forall (A : Type) (zero : A) (i : iter A),
         wf A i ->
         has_next i = true ->
         fst (get_next zero i) = nth (it_slot i) (it_vals i) zero /\
         it_slot (snd (get_next zero i)) = S (it_slot i).
Proof. exact get_next_some. Qed.

Theorem C17_get_next_at_end :
  forall (A : Type) (zero : A) (i : iter A), has_next i = false -> get_next zero i = (zero, i).
Proof. exact get_next_end. Qed.

Theorem C17_get_prev :
  forall (A : Type) (zero : A) (i : iter A),
         has_prev i = true ->
         fst (get_prev zero i) = nth (it_slot i - 1) (it_vals i) zero /\
         it_slot (snd (get_prev zero i)) = it_slot i - 1.
Proof. exact get_prev_some. Qed.

Theorem C17_get_prev_at_start :
  forall (A : Type) (zero : A) (i : iter A), has_prev i = false -> get_prev zero i = (zero, i).
Proof. exact get_prev_start. Qed.

Theorem C17_next_then_prev :
  forall (A : Type) (zero : A) (i : iter A),
         has_next i = true ->
         let '(v, i') := get_next zero i in fst (get_prev zero i') = v /\ snd (get_prev zero i') = i.
Proof. exact next_prev_id. Qed.

Theorem C17_prev_then_next :
  forall (A : Type) (zero : A) (i : iter A),
         wf A i ->
         has_prev i = true ->
         let '(v, i') := get_prev zero i in fst (get_next zero i') = v /\ snd (get_next zero i') = i.
Proof. exact prev_next_id. Qed.

Theorem C17_to_slot :
  forall (A : Type) (i : iter A) (k : Z),
         let n := Z.of_nat (it_size i) in
         Z.of_nat (it_slot (to_slot i k)) =
         (if (n <? k)%Z
          then n
          else if (0 <=? k)%Z then k else if (k <? - n)%Z then Z.min 1 n else (k + n + 1)%Z).
Proof. exact to_slot_spec_exact. Qed.

Theorem C17_to_start :
  forall (A : Type) (i : iter A), it_slot (to_start i) = 0.
Proof. exact to_start_slot. Qed.

Theorem C17_to_end :
  forall (A : Type) (i : iter A), it_slot (to_end i) = it_size i.
Proof. exact to_end_slot. Qed.

Theorem C17_enumerates_snapshot_in_order :
  forall (A : Type) (zero : A) (l : list A), drain A zero (S (length l)) (it_make l) = l.
Proof. exact drain_all. Qed.


Print Assumptions C17_slot_within_bounds.
Print Assumptions C17_moves_never_change_the_snapshot.
Print Assumptions C17_has_next_iff.
Print Assumptions C17_has_prev_iff.
Print Assumptions C17_get_next.
Print Assumptions C17_get_next_at_end.
Print Assumptions C17_get_prev.
Print Assumptions C17_get_prev_at_start.
Print Assumptions C17_next_then_prev.
Print Assumptions C17_prev_then_next.
Print Assumptions C17_to_slot.
Print Assumptions C17_to_start.
Print Assumptions C17_to_end.
Print Assumptions C17_enumerates_snapshot_in_order.
