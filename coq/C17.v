(* C17.v — Iterators are bidirectional cursors over an immutable snapshot
   Statements only: every theorem is closed by [exact] of a lemma proved elsewhere, and its
   axioms are printed.  Generated once by tools/mkprop.py from the proved lemmas' statements. 
   Round 2 (polish): an [Example] of non-vacuity beside every theorem (data in IterProofs2.v), and the
   pool-level theorems (IterProofs2.v, PoolFrame.v) from C17_get_iterator_starts_over_the_current_view on:
   the snapshot clause ("enumerates the collection as it was when the iterator was obtained; several
   iterators do not influence each other") stated on the pool machine that the correspondence executes. *)
From Verif Require Import Base Sorter Value Seq Coll Pool PoolFrame IterProofs IterProofs2 ParamsFoot AliasFacts AliasProofs.
Local Open Scope nat_scope.

Theorem C17_slot_within_bounds :
  forall (A : Type) (zero : A) (l : list A) (ms : list move),
         it_slot (walk A zero (it_make l) ms) <= length l.
Proof. exact C17_slot_inv. Qed.

(* non-vacuity: an iterator over the 4 values [11;22;33;44] and the 7-move walk
   Next, Next, Prev, ToSlot(-1), Next (at the end: stays), ToSlot(9) (clamped), Prev: the slots visited *)
Example C17_slot_within_bounds_example :
  walk_trace 0%Z (it_make ex_vals) ex_moves = [0; 1; 2; 1; 4; 4; 4; 3] /\
  walk Z 0%Z (it_make ex_vals) ex_moves = {| it_vals := ex_vals; it_slot := 3 |} /\
  it_slot (walk Z 0%Z (it_make ex_vals) ex_moves) <= length ex_vals.
Proof. split; [vm_compute; reflexivity|]. split; [vm_compute; reflexivity|]. apply C17_slot_within_bounds. Qed.

Theorem C17_moves_never_change_the_snapshot :
  forall (A : Type) (zero : A) (i : iter A) (ms : list move),
         it_vals (walk A zero i ms) = it_vals i.
Proof. exact C17_snapshot. Qed.

Example C17_moves_never_change_the_snapshot_example :
  it_vals (walk Z 0%Z ex_mid ex_moves) = ex_vals.
Proof. apply (C17_moves_never_change_the_snapshot Z 0%Z ex_mid ex_moves). Qed.

Theorem C17_has_next_iff :
  forall (A : Type) (i : iter A), has_next i = true <-> it_slot i < it_size i.
Proof. exact has_next_iff. Qed.

Example C17_has_next_iff_example :
  has_next ex_mid = true /\ has_next ex_end = false /\ has_next (it_make (@nil Z)) = false.
Proof. repeat split. Qed.

Theorem C17_has_prev_iff :
  forall (A : Type) (i : iter A), has_prev i = true <-> 0 < it_slot i.
Proof. exact has_prev_iff. Qed.

Example C17_has_prev_iff_example :
  has_prev ex_mid = true /\ has_prev (it_make ex_vals) = false /\ has_prev ex_end = true.
Proof. repeat split. Qed.

Theorem C17_get_next :
  forall (A : Type) (zero : A) (i : iter A),
         wf A i ->
         has_next i = true ->
         fst (get_next zero i) = nth (it_slot i) (it_vals i) zero /\
         it_slot (snd (get_next zero i)) = S (it_slot i).
Proof. exact get_next_some. Qed.

(* non-vacuity: at slot 2 of 4, GetNext returns the third value and moves to slot 3 *)
Example C17_get_next_example :
  wf Z ex_mid /\ has_next ex_mid = true /\
  get_next 0%Z ex_mid = (33%Z, {| it_vals := ex_vals; it_slot := 3 |}).
Proof. split; [vm_compute; lia|]. split; reflexivity. Qed.

Theorem C17_get_next_at_end :
  forall (A : Type) (zero : A) (i : iter A), has_next i = false -> get_next zero i = (zero, i).
Proof. exact get_next_end. Qed.

Example C17_get_next_at_end_example :
  has_next ex_end = false /\ get_next 0%Z ex_end = (0%Z, ex_end).
Proof. split; reflexivity. Qed.

Theorem C17_get_prev :
  forall (A : Type) (zero : A) (i : iter A),
         has_prev i = true ->
         fst (get_prev zero i) = nth (it_slot i - 1) (it_vals i) zero /\
         it_slot (snd (get_prev zero i)) = it_slot i - 1.
Proof. exact get_prev_some. Qed.

Example C17_get_prev_example :
  has_prev ex_mid = true /\ get_prev 0%Z ex_mid = (22%Z, {| it_vals := ex_vals; it_slot := 1 |}).
Proof. split; reflexivity. Qed.

Theorem C17_get_prev_at_start :
  forall (A : Type) (zero : A) (i : iter A), has_prev i = false -> get_prev zero i = (zero, i).
Proof. exact get_prev_start. Qed.

Example C17_get_prev_at_start_example :
  has_prev (it_make ex_vals) = false /\ get_prev 0%Z (it_make ex_vals) = (0%Z, it_make ex_vals).
Proof. split; reflexivity. Qed.

Theorem C17_next_then_prev :
  forall (A : Type) (zero : A) (i : iter A),
         has_next i = true ->
         let '(v, i') := get_next zero i in fst (get_prev zero i') = v /\ snd (get_prev zero i') = i.
Proof. exact next_prev_id. Qed.

Example C17_next_then_prev_example :
  has_next ex_mid = true /\
  get_prev 0%Z (snd (get_next 0%Z ex_mid)) = (fst (get_next 0%Z ex_mid), ex_mid).
Proof. split; reflexivity. Qed.

Theorem C17_prev_then_next :
  forall (A : Type) (zero : A) (i : iter A),
         wf A i ->
         has_prev i = true ->
         let '(v, i') := get_prev zero i in fst (get_next zero i') = v /\ snd (get_next zero i') = i.
Proof. exact prev_next_id. Qed.

Example C17_prev_then_next_example :
  wf Z ex_end /\ has_prev ex_end = true /\
  get_next 0%Z (snd (get_prev 0%Z ex_end)) = (44%Z, ex_end).
Proof. split; [vm_compute; lia|]. split; reflexivity. Qed.

Theorem C17_to_slot :
  forall (A : Type) (i : iter A) (k : Z),
         let n := Z.of_nat (it_size i) in
         Z.of_nat (it_slot (to_slot i k)) =
         (if (n <? k)%Z
          then n
          else if (0 <=? k)%Z then k else if (k <? - n)%Z then Z.min 1 n else (k + n + 1)%Z).
Proof. exact to_slot_spec_exact. Qed.

(* non-vacuity: size 4, ToSlot(k) for k = -6, -5, -4, -1, 0, 1, 4, 5, 6 (negative slots count from the end,
   out-of-range slots clamp) *)
Example C17_to_slot_example :
  map (fun k => it_slot (to_slot ex_mid k)) [-6; -5; -4; -1; 0; 1; 4; 5; 6]%Z = [1; 1; 1; 4; 0; 1; 4; 4; 4] /\
  it_slot (to_slot (it_make (@nil Z)) (-3)) = 0.
Proof. split; vm_compute; reflexivity. Qed.

Theorem C17_to_start :
  forall (A : Type) (i : iter A), it_slot (to_start i) = 0.
Proof. exact to_start_slot. Qed.

Theorem C17_to_end :
  forall (A : Type) (i : iter A), it_slot (to_end i) = it_size i.
Proof. exact to_end_slot. Qed.

Theorem C17_enumerates_snapshot_in_order :
  forall (A : Type) (zero : A) (l : list A), drain A zero (S (length l)) (it_make l) = l.
Proof. exact drain_all. Qed.

Example C17_enumerates_snapshot_in_order_example : drain Z 0%Z 5 (it_make ex_vals) = ex_vals.
Proof. vm_compute; reflexivity. Qed.

Theorem C17_get_iterator_starts_over_the_current_view :
  forall (zero : val) (p : pool) (o : nat) (okeys : list val) (p' : pool) (r : ret),
         step zero p (GetIterator o okeys) = (p', r) ->
         r = RNew ->
         exists (z : val) (l : list val),
           seq_view (get p o) okeys = Some l /\ p' = p ++ [OIter z l 0].
Proof. exact get_iterator_snapshot. Qed.

Theorem C17_pool_move_is_the_iterator_move :
  forall (zero : val) (p : list obj) (i : nat) (z : val) (s : list val) (k : nat) (m : move),
         i < length p ->
         nth i p ODead = OIter z s k ->
         fst (step zero p (op_of_move i m)) =
         put p i (OIter z s (it_slot (apply_move val z (mk_iter s k) m))).
Proof. exact pool_move. Qed.

Theorem C17_pool_move_results :
  forall (zero : val) (p : list obj) (i : nat) (z : val) (s : list val) (k : nat),
         nth i p ODead = OIter z s k ->
         snd (step zero p (INext i)) = RVal (fst (get_next z (mk_iter s k))) /\
         snd (step zero p (IPrev i)) = RVal (fst (get_prev z (mk_iter s k))) /\
         snd (step zero p (IHasNext i)) = RBool (has_next (mk_iter s k)) /\
         snd (step zero p (IHasPrev i)) = RBool (has_prev (mk_iter s k)) /\
         snd (step zero p (IGetSlot i)) = RInt (Z.of_nat k) /\
         snd (step zero p (IGetSize i)) = RInt (Z.of_nat (length s)).
Proof. exact pool_move_result. Qed.

Theorem C17_pool_history_keeps_snapshot_and_slot_bounds :
  forall (zero : val) (ops : list op) (p : list obj) (i : nat) (z : val) 
           (s : list val) (k : nat),
         nth i p ODead = OIter z s k ->
         k <= length s ->
         exists k' : nat, nth i (run zero p ops) ODead = OIter z s k' /\ k' <= length s.
Proof. exact pool_iter_invariant. Qed.

(* non-vacuity: pool history — a list [1;2;3] built from a Go slice, an iterator over it (slot 2 of the
   pool) moved once, then the list is mutated (append 9, remove first), a second iterator is obtained
   (slot 3 of the pool: it sees [2;3;9]) and moved to its end, the list is emptied, the first iterator moves
   again: it still yields the values of [1;2;3] and both slots are within bounds *)
Example C17_pool_history_example :
  run (vi 0) [] ex_pool_ops =
    [OSlice [vi 1; vi 2; vi 3]; OLst []; OIter (vi 0) [vi 1; vi 2; vi 3] 2; OIter (vi 0) [vi 2; vi 3; vi 9] 3] /\
  snd (step (vi 0) (run (vi 0) [] ex_pool_ops) (INext 2)) = RVal (vi 3).
Proof. split; vm_compute; reflexivity. Qed.

Theorem C17_fresh_iterator_in_every_later_history :
  forall (zero : val) (p : pool) (o : nat) (okeys : list val) (p' : pool) (ops : list op),
         step zero p (GetIterator o okeys) = (p', RNew) ->
         exists (z : val) (l : list val) (k' : nat),
           seq_view (get p o) okeys = Some l /\
           nth (length p) (run zero p' ops) ODead = OIter z l k' /\ k' <= length l.
Proof. exact fresh_iterator_invariant. Qed.

Theorem C17_iterators_do_not_influence_each_other :
  forall (zero : val) (p : list obj) (i j : nat) (ms : list move),
         i < length p -> i <> j -> nth i (run zero p (map (op_of_move j) ms)) ODead = nth i p ODead.
Proof. exact other_iterators_untouched. Qed.

Theorem C17_iterator_moves_change_nothing_else :
  forall (zero : val) (p : list obj) (i : nat) (m : move) (x : nat),
         x < length p -> x <> i -> nth x (fst (step zero p (op_of_move i m))) ODead = nth x p ODead.
Proof. exact iterator_moves_change_nothing_else. Qed.

Theorem C17_ops_not_addressing_an_object_leave_it :
  forall (zero : val) (ops : list op) (p : list obj) (i : nat),
         i < length p ->
         (forall o : op, In o ops -> writes o <> Some i) ->
         nth i (run zero p ops) ODead = nth i p ODead.
Proof. exact run_frame. Qed.


(* with the static aliasing extraction as the premise (closed in AliasStatic.v, compiled by ./check C17): the array of
   an iterator is never written after its constructor (publish-once) and every GetIterator of the library builds it
   afresh - the code-side reading of "an iterator walks an immutable snapshot" - next to the model-side statement *)
Theorem C17_static_iterator_snapshot :
  alias_ok = true ->
  (In iterator_values_field foot_publish_once /\
   (forall r, In r foot_api -> ends_with get_iterator_suffix (api_fun r) = true -> api_is_result r = true -> api_clean r = true)) /\
  (forall (A : Type) (zero : A) (i : iter A) (ms : list move), it_vals (walk A zero i ms) = it_vals i).
Proof. exact alias_static_iterator_snapshot. Qed.

Print Assumptions C17_slot_within_bounds.
Print Assumptions C17_moves_never_change_the_snapshot.
Print Assumptions C17_has_next_iff.
Print Assumptions C17_has_prev_iff.
Print Assumptions C17_get_next.
Print Assumptions C17_get_next_at_end.
Print Assumptions C17_get_prev.
Print Assumptions C17_get_prev_at_start.
Print Assumptions C17_next_then_prev.
Print Assumptions C17_prev_then_next.
Print Assumptions C17_to_slot.
Print Assumptions C17_to_start.
Print Assumptions C17_to_end.
Print Assumptions C17_enumerates_snapshot_in_order.
Print Assumptions C17_get_iterator_starts_over_the_current_view.
Print Assumptions C17_pool_move_is_the_iterator_move.
Print Assumptions C17_pool_move_results.
Print Assumptions C17_pool_history_keeps_snapshot_and_slot_bounds.
Print Assumptions C17_fresh_iterator_in_every_later_history.
Print Assumptions C17_iterators_do_not_influence_each_other.
Print Assumptions C17_iterator_moves_change_nothing_else.
Print Assumptions C17_ops_not_addressing_an_object_leave_it.
Print Assumptions C17_static_iterator_snapshot.
