(* Seq.v — the abstract ordinal-indexed sequence (specification of Array and List),
   and the iterator model of v4/agent/iterator.go.  Definitions only. *)
From Verif Require Import Base.

Section Seq.
Variable A : Type.
Variable zero : A.                     (* Go's zero value of the element type *)
Variable eqb : A -> A -> bool.         (* CompareValues of a fresh default collator *)

(* ---------- iterator.go ---------- *)
Record iter := { it_vals : list A; it_slot : nat }.
Definition it_make (l : list A) : iter := {| it_vals := l; it_slot := 0 |}.
Definition it_size (i : iter) : nat := length (it_vals i).
Definition has_next (i : iter) : bool := it_slot i <? it_size i.
Definition has_prev (i : iter) : bool := 0 <? it_slot i.
Definition get_next (i : iter) : A * iter :=
  if has_next i
  then (nth (it_slot i) (it_vals i) zero, {| it_vals := it_vals i; it_slot := S (it_slot i) |})
  else (zero, i).
Definition get_prev (i : iter) : A * iter :=
  if has_prev i
  then (nth (it_slot i - 1) (it_vals i) zero, {| it_vals := it_vals i; it_slot := it_slot i - 1 |})
  else (zero, i).
Definition to_start (i : iter) : iter := {| it_vals := it_vals i; it_slot := 0 |}.
Definition to_end (i : iter) : iter := {| it_vals := it_vals i; it_slot := it_size i |}.
Definition to_slot (i : iter) (k : Z) : iter :=
  let n := Z.of_nat (it_size i) in
  let k1 := if (n <? k)%Z then n else k in
  let k2 := if (k1 <? - n)%Z then (- n)%Z else k1 in
  let k3 := if (k2 <? 0)%Z then (k2 + n + 1)%Z else k2 in
  {| it_vals := it_vals i; it_slot := Z.to_nat k3 |}.

(* ---------- ordinal indexing (array.go: toZeroBased; list.go: toNormalized) ---------- *)
(* [pos n i] is the 0-based position addressed by ordinal i in a sequence of n values;
   None = the call panics (empty sequence, zero, out of range) *)
Definition pos (n : nat) (i : Z) : option nat :=
  if (n =? 0) then None
  else if (i =? 0)%Z then None
  else if ((i <? - Z.of_nat n) || (Z.of_nat n <? i))%Z then None
  else if (i <? 0)%Z then Some (Z.to_nat (i + Z.of_nat n))
  else Some (Z.to_nat (i - 1)).

(* ---------- specification of the sequence operations ---------- *)
Definition get_value (l : list A) (i : Z) : out A :=
  match pos (length l) i with
  | Some k => Ret (nth k l zero)
  | None => Panic
  end.

(* GetValues(first, last): both ordinals valid; first = last+1 is the empty range,
   first > last+1 panics (Go slice bounds) *)
Definition get_values (l : list A) (i j : Z) : out (list A) :=
  match pos (length l) i, pos (length l) j with
  | Some a, Some b =>
    if S b <? a then Panic else Ret (firstn (S b - a) (skipn a l))
  | _, _ => Panic
  end.

Definition set_value (l : list A) (i : Z) (v : A) : out (list A) :=
  match pos (length l) i with
  | Some k => Ret (set_nth k v l)
  | None => Panic
  end.

(* SetValues(index, values): the whole block must fit; an empty block at a valid index is a no-op *)
Definition set_values (l : list A) (i : Z) (src : list A) : out (list A) :=
  match pos (length l) i with
  | Some k =>
    if length l <? k + length src then Panic
    else Ret (firstn k l ++ src ++ skipn (k + length src) l)
  | None => Panic
  end.

Definition insert_value (l : list A) (slot : nat) (v : A) : out (list A) :=
  if length l <? slot then Panic else Ret (firstn slot l ++ v :: skipn slot l).

Definition insert_values (l : list A) (slot : nat) (src : list A) : out (list A) :=
  if length l <? slot then Panic else Ret (firstn slot l ++ src ++ skipn slot l).

Definition append_value (l : list A) (v : A) : list A := l ++ [v].
Definition append_values (l src : list A) : list A := l ++ src.

Definition remove_value (l : list A) (i : Z) : out (A * list A) :=
  match pos (length l) i with
  | Some k => Ret (nth k l zero, remove_nth k l)
  | None => Panic
  end.

(* RemoveValues(first, last): returns (removed, remaining); first = last+1 removes nothing;
   first > last+1 panics *)
Definition remove_values (l : list A) (i j : Z) : out (list A * list A) :=
  match pos (length l) i, pos (length l) j with
  | Some a, Some b =>
    if S b <? a then Panic
    else Ret (firstn (S b - a) (skipn a l), firstn a l ++ skipn (S b) l)
  | _, _ => Panic
  end.

(* GetIndex: ordinal of the first value equal to v, 0 when absent *)
Definition get_index (l : list A) (v : A) : nat :=
  match find_pos (fun x => eqb x v) l with
  | Some k => S k
  | None => 0
  end.
Definition contains_value (l : list A) (v : A) : bool := 0 <? get_index l v.
Definition contains_any (l src : list A) : bool := existsb (contains_value l) src.
Definition contains_all (l src : list A) : bool := forallb (contains_value l) src.

End Seq.

Arguments it_vals {A}. Arguments it_slot {A}. Arguments it_make {A}. Arguments it_size {A}.
Arguments has_next {A}. Arguments has_prev {A}. Arguments get_next {A}. Arguments get_prev {A}.
Arguments to_start {A}. Arguments to_end {A}. Arguments to_slot {A}.
Arguments get_value {A}. Arguments get_values {A}. Arguments set_value {A}. Arguments set_values {A}.
Arguments insert_value {A}. Arguments insert_values {A}. Arguments append_value {A}.
Arguments append_values {A}. Arguments remove_value {A}. Arguments remove_values {A}.
Arguments get_index {A}. Arguments contains_value {A}. Arguments contains_any {A}. Arguments contains_all {A}.
