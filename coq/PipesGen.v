(* PipesGen.v — generic lemmas about the interleaving model Conc.v used by the pipeline proofs
   (C06): getters/setters, what one micro-step can change, the single-producer /
   single-consumer channel invariant, the wait-group invariant, prefixes and the round-robin
   selection [rr]. *)
From Verif Require Import Base Conc.
Close Scope Z_scope.
Open Scope nat_scope.

(* ---------- lists ---------- *)
Lemma nth_set_nth_eq {A} k (v d : A) l : k < length l -> nth k (set_nth k v l) d = v.
Proof.
  revert k; induction l as [|h t IH]; intros [|k] H; simpl in *; try lia; auto.
  apply IH; lia.
Qed.

Lemma nth_set_nth_neq {A} k k' (v d : A) l : k <> k' -> nth k' (set_nth k v l) d = nth k' l d.
Proof.
  revert k k'; induction l as [|h t IH]; intros [|k] [|k'] H; simpl in *; auto; try lia.
Qed.

Definition prefix {A} (a b : list A) : Prop := exists r, b = a ++ r.

Lemma prefix_refl {A} (a : list A) : prefix a a.
Proof. exists []. now rewrite app_nil_r. Qed.
Lemma prefix_nil {A} (a : list A) : prefix [] a.
Proof. now exists a. Qed.
Lemma prefix_trans {A} (a b c : list A) : prefix a b -> prefix b c -> prefix a c.
Proof. intros [r ->] [r' ->]. exists (r ++ r'). now rewrite app_assoc. Qed.
Lemma prefix_app_l {A} (a b : list A) : prefix a (a ++ b).
Proof. now exists b. Qed.
Lemma prefix_length {A} (a b : list A) : prefix a b -> length a <= length b.
Proof. intros [r ->]. rewrite app_length. lia. Qed.
Lemma prefix_same_length {A} (a b : list A) : prefix a b -> length b <= length a -> a = b.
Proof.
  intros [r ->] H. rewrite app_length in H. destruct r; simpl in H; try lia. now rewrite app_nil_r.
Qed.
Lemma prefix_total {A} (a b c : list A) :
  prefix a c -> prefix b c -> length a <= length b -> prefix a b.
Proof.
  revert b c; induction a as [|x a IH]; intros b c Ha Hb Hl.
  - apply prefix_nil.
  - destruct Ha as [ra ->]. destruct Hb as [rb Hb].
    destruct b as [|y b]; simpl in Hl; try lia.
    simpl in Hb. injection Hb as -> Hb.
    destruct (IH b (a ++ ra)) as [r ->]; try lia.
    + apply prefix_app_l.
    + now exists rb.
    + exists r. reflexivity.
Qed.

(* ---------- getters and setters ---------- *)
Lemma gett_sett_same c t th : t < length (threads c) -> gett (sett c t th) t = th.
Proof. intros H. unfold gett, sett; simpl. now apply nth_set_nth_eq. Qed.
Lemma gett_sett_other c t t' th : t <> t' -> gett (sett c t th) t' = gett c t'.
Proof. intros H. unfold gett, sett; simpl. now apply nth_set_nth_neq. Qed.
Lemma gett_setq c q s t : gett (setq c q s) t = gett c t.
Proof. reflexivity. Qed.
Lemma getq_sett c t th q : getq (sett c t th) q = getq c q.
Proof. reflexivity. Qed.
Lemma getq_setq_same c q s : q < length (queues c) -> getq (setq c q s) q = s.
Proof. intros H. unfold getq, setq; simpl. now apply nth_set_nth_eq. Qed.
Lemma getq_setq_other c q q' s : q <> q' -> getq (setq c q s) q' = getq c q'.
Proof. intros H. unfold getq, setq; simpl. now apply nth_set_nth_neq. Qed.
Lemma threads_sett_length c t th : length (threads (sett c t th)) = length (threads c).
Proof. unfold sett; simpl. apply set_nth_length. Qed.
Lemma queues_setq_length c q s : length (queues (setq c q s)) = length (queues c).
Proof. unfold setq; simpl. apply set_nth_length. Qed.

Lemma gett_out c t : length (threads c) <= t -> gett c t = dummyt.
Proof. intros H. unfold gett. now apply nth_overflow. Qed.

Lemma step_some_lt c t c' : step c t = Some c' -> t < length (threads c).
Proof.
  intros H. destruct (Nat.lt_ge_cases t (length (threads c))) as [|Hge]; auto.
  unfold step in H. rewrite (gett_out _ _ Hge) in H. simpl in H. discriminate.
Qed.

(* ---------- the operation a thread is about to perform ---------- *)
Inductive opk := KAdd | KSend | KClose | KTake | KPop | KRemAll | KDisc.

Definition opof (th : thread) : option (opk * nat) :=
  match tph th with
  | PSend q => Some (KSend, q)
  | PPop q => Some (KPop, q)
  | PDiscard q => Some (KDisc, q)
  | PStuck => None
  | PIdle =>
    match tcalls th with
    | CAdd q _ :: _ => Some (KAdd, q)
    | CRemoveHead q :: _ => Some (KTake, q)
    | CClose q :: _ => Some (KClose, q)
    | CRemoveAll q :: _ => Some (KRemAll, q)
    | _ => None
    end
  end.

Definition isSend (q : nat) (p : phase) : nat :=
  match p with PSend q' => if q' =? q then 1 else 0 | _ => 0 end.
Definition isPop (q : nat) (p : phase) : nat :=
  match p with PPop q' => if q' =? q then 1 else 0 | _ => 0 end.

(* single-producer (thread p) / single-consumer (thread r) channel invariant of queue q *)
Record chan (c : config) (q p r : nat) : Prop := {
  ch_app : qapp (getq c q) = qpop (getq c q) ++ qvals (getq c q);
  ch_len : length (qvals (getq c q)) =
           qtok (getq c q) + isSend q (tph (gett c p)) + isPop q (tph (gett c r));
  ch_cap : qtok (getq c q) <= qcap (getq c q);
  ch_closed : qclosed (getq c q) = true -> isSend q (tph (gett c p)) = 0
}.

(* who may do what on queue q: only p produces (and only while q is open), only r consumes *)
Definition fp_on (c : config) (t q p r : nat) : Prop :=
  forall k, opof (gett c t) = Some (k, q) ->
    match k with
    | KAdd | KClose => t = p /\ qclosed (getq c q) = false
    | KSend => t = p
    | KTake | KPop => t = r
    | KRemAll | KDisc => False
    end.

Lemma chan_frame c c' q p r :
  getq c' q = getq c q ->
  isSend q (tph (gett c' p)) = isSend q (tph (gett c p)) ->
  isPop q (tph (gett c' r)) = isPop q (tph (gett c r)) ->
  chan c q p r -> chan c' q p r.
Proof.
  intros Hq Hp Hr [H1 H2 H3 H4]. constructor; rewrite ?Hq, ?Hp, ?Hr; auto.
Qed.

Lemma isSend_other q q' : q' <> q -> isSend q (PSend q') = 0.
Proof. intros H. simpl. destruct (Nat.eqb_spec q' q); congruence. Qed.
Lemma isPop_other q q' : q' <> q -> isPop q (PPop q') = 0.
Proof. intros H. simpl. destruct (Nat.eqb_spec q' q); congruence. Qed.
Lemma isSend_same q : isSend q (PSend q) = 1.
Proof. simpl. now rewrite Nat.eqb_refl. Qed.
Lemma isPop_same q : isPop q (PPop q) = 1.
Proof. simpl. now rewrite Nat.eqb_refl. Qed.


Lemma tph_finish_head th rest v ok : tph (finish_head th rest v ok) = PIdle.
Proof. unfold finish_head. destruct (continue (tloop th) v ok). reflexivity. Qed.

Ltac gs :=
  repeat first
    [ rewrite getq_sett
    | rewrite gett_setq
    | rewrite gett_sett_same by (simpl; auto; lia)
    | rewrite getq_setq_same by (simpl; auto; lia)
    | rewrite gett_sett_other by (simpl; auto; lia)
    | rewrite getq_setq_other by (simpl; auto; lia)
    | rewrite tph_finish_head ].

(* a step of thread t whose new phase has the same indicators for q leaves chan q alone,
   provided queue q itself is untouched *)
Lemma chan_frame_thread c cq t th' q p r :
  t < length (threads cq) ->
  getq cq q = getq c q ->
  (forall u, gett cq u = gett c u) ->
  isSend q (tph th') = isSend q (tph (gett c t)) ->
  isPop q (tph th') = isPop q (tph (gett c t)) ->
  chan c q p r -> chan (sett cq t th') q p r.
Proof.
  intros Ht Hq Hu Hs Hp Hch. apply chan_frame with c; auto.
  - destruct (Nat.eq_dec t p) as [->|Hn]; gs; auto. now rewrite Hu.
  - destruct (Nat.eq_dec t r) as [->|Hn]; gs; auto. now rewrite Hu.
Qed.

Lemma chan_step c t c' q p r :
  chan c q p r -> p <> r -> q < length (queues c) ->
  fp_on c t q p r ->
  step c t = Some c' -> chan c' q p r.
Proof.
  intros Hch Hne Hq Hfp Hstep. pose proof (step_some_lt _ _ _ Hstep) as Ht.
  unfold step in Hstep. unfold fp_on, opof in Hfp.
  destruct (tph (gett c t)) eqn:Hph.
  - (* PIdle *)
    destruct (tcalls (gett c t)) as [|cl rest] eqn:Hc; [discriminate|].
    destruct cl as [q0 v|q0|q0|q0|q0|q0|q0| |].
    + (* CAdd *)
      injection Hstep as <-. destruct (Nat.eq_dec q0 q) as [->|Hn].
      * destruct (Hfp KAdd eq_refl) as [-> Hop]. destruct Hch as [H1 H2 H3 H4].
        rewrite Hph in H2. simpl in H2.
        constructor; gs; simpl; rewrite ?isSend_same, ?Nat.eqb_refl.
        -- rewrite H1. now rewrite app_assoc.
        -- rewrite app_length. simpl. lia.
        -- auto.
        -- congruence.
      * apply chan_frame_thread with (c := c); auto; gs; auto; simpl; rewrite Hph; simpl; auto.
        destruct (Nat.eqb_spec q0 q); congruence.
    + (* CRemoveHead *)
      destruct (Nat.eq_dec q0 q) as [->|Hn].
      * pose proof (Hfp KTake eq_refl) as ->.
        destruct (0 <? qtok (getq c q)) eqn:Htok.
        -- injection Hstep as <-. apply Nat.ltb_lt in Htok. destruct Hch as [H1 H2 H3 H4].
           rewrite Hph in H2. simpl in H2.
           constructor; gs; simpl; rewrite ?isPop_same, ?Nat.eqb_refl; auto; lia.
        -- destruct (qclosed (getq c q)); [|discriminate]. injection Hstep as <-.
           apply chan_frame_thread with (c := c); auto; gs; rewrite Hph; auto.
      * destruct (0 <? qtok (getq c q0)).
        -- injection Hstep as <-.
           apply chan_frame_thread with (c := c); auto; gs; auto; simpl; rewrite Hph; simpl; auto.
           destruct (Nat.eqb_spec q0 q); congruence.
        -- destruct (qclosed (getq c q0)); [|discriminate]. injection Hstep as <-.
           apply chan_frame_thread with (c := c); auto; gs; rewrite Hph; auto.
    + (* CClose *)
      destruct (Nat.eq_dec q0 q) as [->|Hn].
      * destruct (Hfp KClose eq_refl) as [-> Hop]. rewrite Hop in Hstep. injection Hstep as <-.
        destruct Hch as [H1 H2 H3 H4]. rewrite Hph in H2. simpl in H2.
        constructor; gs; simpl; auto; lia.
      * destruct (qclosed (getq c q0)); injection Hstep as <-;
          apply chan_frame_thread with (c := c); auto; gs; auto; simpl; rewrite Hph; auto.
    + (* CRemoveAll *)
      destruct (Nat.eq_dec q0 q) as [->|Hn].
      * destruct (Hfp KRemAll eq_refl).
      * destruct (0 <? qtok (getq c q0)); injection Hstep as <-;
          apply chan_frame_thread with (c := c); auto; gs; auto; simpl; rewrite Hph; auto.
    + injection Hstep as <-. apply chan_frame_thread with (c := c); auto; gs; auto; simpl; rewrite Hph; auto.
    + injection Hstep as <-. apply chan_frame_thread with (c := c); auto; gs; auto; simpl; rewrite Hph; auto.
    + injection Hstep as <-. apply chan_frame_thread with (c := c); auto; gs; auto; simpl; rewrite Hph; auto.
    + destruct (wg c =? 0); [|discriminate]. injection Hstep as <-.
      apply chan_frame_thread with (c := c); auto; gs; auto; simpl; rewrite Hph; auto.
    + injection Hstep as <-. apply chan_frame_thread with (c := c); auto; simpl; rewrite Hph; auto.
  - (* PSend *)
    destruct (tcalls (gett c t)) as [|cl rest] eqn:Hc; [discriminate|].
    destruct cl; try discriminate.
    destruct (Nat.eq_dec q0 q) as [->|Hn].
    + pose proof (Hfp KSend eq_refl) as ->. destruct Hch as [H1 H2 H3 H4].
      rewrite Hph in H2, H4. rewrite isSend_same in H2, H4.
      destruct (qclosed (getq c q)) eqn:Hcl; [specialize (H4 eq_refl); discriminate|].
      destruct (qtok (getq c q) <? qcap (getq c q)) eqn:Hlt; [|discriminate].
      injection Hstep as <-. apply Nat.ltb_lt in Hlt.
      constructor; gs; simpl; auto; lia.
    + destruct (qclosed (getq c q0)).
      * injection Hstep as <-. apply chan_frame_thread with (c := c); auto; simpl; rewrite Hph; auto.
        now rewrite isSend_other.
      * destruct (qtok (getq c q0) <? qcap (getq c q0)); [|discriminate].
        injection Hstep as <-. apply chan_frame_thread with (c := c); auto; gs; auto; simpl; rewrite Hph; auto.
        now rewrite isSend_other.
  - (* PPop *)
    destruct (tcalls (gett c t)) as [|cl rest] eqn:Hc; [discriminate|].
    destruct cl; try discriminate.
    destruct (Nat.eq_dec q0 q) as [->|Hn].
    + pose proof (Hfp KPop eq_refl) as ->. destruct Hch as [H1 H2 H3 H4].
      rewrite Hph in H2. rewrite isPop_same in H2.
      unfold pop_head in Hstep. destruct (qvals (getq c q)) as [|x vals] eqn:Hv; [simpl in H2; lia|].
      injection Hstep as <-. simpl in H2.
      constructor; gs; simpl; auto; try lia.
      rewrite H1. now rewrite <- app_assoc.
    + unfold pop_head in Hstep. destruct (qvals (getq c q0)) as [|x vals]; injection Hstep as <-.
      * apply chan_frame_thread with (c := c); auto; simpl; rewrite Hph; auto. now rewrite isPop_other.
      * apply chan_frame_thread with (c := c); auto; gs; auto; rewrite Hph; auto. now rewrite isPop_other.
  - (* PDiscard *)
    destruct (Nat.eq_dec q0 q) as [->|Hn].
    + destruct (Hfp KDisc eq_refl).
    + unfold pop_head in Hstep. destruct (qvals (getq c q0)) as [|x vals]; injection Hstep as <-;
        apply chan_frame_thread with (c := c); auto; gs; auto; simpl; rewrite Hph; auto.
  - discriminate.
Qed.

(* ---------- what a step can change ---------- *)
Lemma getq_setq_out c q s : length (queues c) <= q -> setq c q s = c.
Proof.
  intros H. unfold setq. destruct c as [qs w ts]; simpl in *. f_equal.
  revert q H; induction qs as [|h tl IH]; intros [|q] H; simpl in *; auto; try lia.
  f_equal. apply IH. lia.
Qed.

Lemma eff_q c q0 s' q :
  getq (setq c q0 s') q = getq c q \/
  (q = q0 /\ q0 < length (queues c) /\ getq (setq c q0 s') q = s').
Proof.
  destruct (Nat.eq_dec q0 q) as [->|Hn].
  - destruct (Nat.lt_ge_cases q (length (queues c))) as [Hl|Hg].
    + right. split; auto. split; auto. now apply getq_setq_same.
    + left. now rewrite getq_setq_out.
  - left. now apply getq_setq_other.
Qed.

Definition qeffect (k : opk) (s s' : qstate) : Prop :=
  qcap s' = qcap s /\
  match k with
  | KAdd => qpop s' = qpop s /\ qclosed s' = qclosed s /\ qtok s' = qtok s
  | KSend => qpop s' = qpop s /\ qclosed s' = qclosed s /\ qapp s' = qapp s
  | KClose => qpop s' = qpop s /\ qapp s' = qapp s /\ qtok s' = qtok s /\ qclosed s' = true
  | KTake => qapp s' = qapp s /\ qclosed s' = qclosed s /\ qpop s' = qpop s
  | KPop => qapp s' = qapp s /\ qclosed s' = qclosed s /\ exists x, qpop s' = qpop s ++ [x]
  | KRemAll | KDisc => qapp s' = qapp s /\ qclosed s' = qclosed s
  end.

Lemma step_effect c t c' : step c t = Some c' ->
  length (threads c') = length (threads c) /\ length (queues c') = length (queues c) /\
  (forall u, u <> t -> gett c' u = gett c u) /\
  (forall q, getq c' q = getq c q \/
     (q < length (queues c) /\ exists k, opof (gett c t) = Some (k, q) /\ qeffect k (getq c q) (getq c' q))).
Proof.
  intros Hstep. pose proof (step_some_lt _ _ _ Hstep) as Ht.
  unfold step in Hstep. unfold opof, qeffect.
  assert (Hgen : forall q0 s' th',
     (q0 < length (queues c) ->
         exists k, opof (gett c t) = Some (k, q0) /\ qeffect k (getq c q0) s') ->
     let c' := sett (setq c q0 s') t th' in
     length (threads c') = length (threads c) /\ length (queues c') = length (queues c) /\
     (forall u, u <> t -> gett c' u = gett c u) /\
     (forall q, getq c' q = getq c q \/
       (q < length (queues c) /\ exists k, opof (gett c t) = Some (k, q) /\ qeffect k (getq c q) (getq c' q)))).
  { intros q0 s' th' H. simpl. split; [apply set_nth_length|]. split; [apply set_nth_length|].
    split; [intros u Hu; now gs|].
    intros q. rewrite getq_sett. destruct (eff_q c q0 s' q) as [E|(-> & Hl & E)]; [now left|].
    right. split; auto. rewrite E. now apply H. }
  assert (Hnoq : forall th',
     let c' := sett c t th' in
     length (threads c') = length (threads c) /\ length (queues c') = length (queues c) /\
     (forall u, u <> t -> gett c' u = gett c u) /\
     (forall q, getq c' q = getq c q \/
       (q < length (queues c) /\ exists k, opof (gett c t) = Some (k, q) /\ qeffect k (getq c q) (getq c' q)))).
  { intros th'. simpl. split; [apply set_nth_length|]. split; auto.
    split; [intros u Hu; now gs|]. intros q. now left. }
  unfold opof, qeffect in Hgen, Hnoq.
  destruct (tph (gett c t)) eqn:Hph.
  - destruct (tcalls (gett c t)) as [|cl rest] eqn:Hc; [discriminate|].
    destruct cl as [q0 v|q0|q0|q0|q0|q0|q0| |].
    + injection Hstep as <-. apply Hgen. intros Hl. exists KAdd. simpl. auto.
    + destruct (0 <? qtok (getq c q0)).
      * injection Hstep as <-. apply Hgen. intros Hl. exists KTake. simpl. auto.
      * destruct (qclosed (getq c q0)); [|discriminate]. injection Hstep as <-. apply Hnoq.
    + destruct (qclosed (getq c q0)).
      * injection Hstep as <-. apply Hnoq.
      * injection Hstep as <-. apply Hgen. intros Hl. exists KClose. simpl. auto 6.
    + destruct (0 <? qtok (getq c q0)).
      * injection Hstep as <-. apply Hgen. intros Hl. exists KRemAll. simpl. auto.
      * injection Hstep as <-. apply Hnoq.
    + injection Hstep as <-. apply Hnoq.
    + injection Hstep as <-. apply Hnoq.
    + injection Hstep as <-. apply Hnoq.
    + destruct (wg c =? 0); [|discriminate]. injection Hstep as <-. apply Hnoq.
    + injection Hstep as <-. simpl. split; [apply set_nth_length|]. split; auto.
      split; [intros u Hu; unfold gett; simpl; apply nth_set_nth_neq; congruence|]. intros q. now left.
  - destruct (tcalls (gett c t)) as [|cl rest] eqn:Hc; [discriminate|].
    destruct cl; try discriminate.
    destruct (qclosed (getq c q)) eqn:Hcl.
    + injection Hstep as <-. apply Hnoq.
    + destruct (qtok (getq c q) <? qcap (getq c q)); [|discriminate].
      injection Hstep as <-. apply Hgen. intros Hl. exists KSend. simpl. auto.
  - destruct (tcalls (gett c t)) as [|cl rest] eqn:Hc; [discriminate|].
    destruct cl; try discriminate.
    unfold pop_head in Hstep. destruct (qvals (getq c q)) as [|x vals]; injection Hstep as <-.
    + apply Hnoq.
    + apply Hgen. intros Hl. exists KPop. simpl. repeat split; auto. now exists x.
  - unfold pop_head in Hstep. destruct (qvals (getq c q)) as [|x vals]; injection Hstep as <-.
    + apply Hnoq.
    + apply Hgen. intros Hl. exists KDisc. simpl. auto.
  - discriminate.
Qed.

Lemma step_closed_mono c t c' q :
  step c t = Some c' -> qclosed (getq c q) = true -> qclosed (getq c' q) = true.
Proof.
  intros Hs Hc. destruct (step_effect _ _ _ Hs) as (_ & _ & _ & H).
  destruct (H q) as [E|(_ & k & _ & Hk)]; [now rewrite E|].
  unfold qeffect in Hk. destruct Hk as [_ Hk].
  destruct k; intuition congruence.
Qed.

(* no thread panics as long as the footprint discipline and the channel invariants hold *)
Lemma step_nostuck c t c' (P R : nat -> nat) :
  step c t = Some c' ->
  (forall k q, opof (gett c t) = Some (k, q) ->
     chan c q (P q) (R q) /\ fp_on c t q (P q) (R q)) ->
  tph (gett c' t) <> PStuck.
Proof.
  intros Hstep H. pose proof (step_some_lt _ _ _ Hstep) as Ht.
  unfold step in Hstep. unfold fp_on in H. unfold opof in H.
  destruct (tph (gett c t)) eqn:Hph.
  - destruct (tcalls (gett c t)) as [|cl rest] eqn:Hc; [discriminate|].
    destruct cl as [q0 v|q0|q0|q0|q0|q0|q0| |].
    + injection Hstep as <-. gs. simpl. discriminate.
    + destruct (0 <? qtok (getq c q0)).
      * injection Hstep as <-. gs. simpl. discriminate.
      * destruct (qclosed (getq c q0)); [|discriminate]. injection Hstep as <-. gs. discriminate.
    + destruct (H KClose q0 eq_refl) as [_ Hf]. destruct (Hf KClose eq_refl) as [_ Hop].
      rewrite Hop in Hstep. injection Hstep as <-. gs. simpl. discriminate.
    + destruct (H KRemAll q0 eq_refl) as [_ Hf]. destruct (Hf KRemAll eq_refl).
    + injection Hstep as <-. gs. simpl. discriminate.
    + injection Hstep as <-. gs. simpl. discriminate.
    + injection Hstep as <-. gs. simpl. discriminate.
    + destruct (wg c =? 0); [|discriminate]. injection Hstep as <-. gs. simpl. discriminate.
    + injection Hstep as <-. gs. simpl. discriminate.
  - destruct (tcalls (gett c t)) as [|cl rest] eqn:Hc; [discriminate|].
    destruct cl; try discriminate.
    destruct (H KSend q eq_refl) as [[_ _ _ H4] Hf]. pose proof (Hf KSend eq_refl) as E.
    rewrite <- E, Hph, isSend_same in H4.
    destruct (qclosed (getq c q)); [specialize (H4 eq_refl); discriminate|].
    destruct (qtok (getq c q) <? qcap (getq c q)); [|discriminate].
    injection Hstep as <-. gs. simpl. discriminate.
  - destruct (tcalls (gett c t)) as [|cl rest] eqn:Hc; [discriminate|].
    destruct cl; try discriminate.
    destruct (H KPop q eq_refl) as [[_ H2 _ _] Hf]. pose proof (Hf KPop eq_refl) as E.
    rewrite <- E, Hph, isPop_same in H2.
    unfold pop_head in Hstep. destruct (qvals (getq c q)) as [|x vals]; [simpl in H2; lia|].
    injection Hstep as <-. gs. discriminate.
  - destruct (H KDisc q eq_refl) as [_ Hf]. destruct (Hf KDisc eq_refl).
  - discriminate.
Qed.

(* ---------- the wait group ---------- *)
Definition is_done (cl : call) : bool := match cl with CDone => true | _ => false end.
Definition loop_dones (l : loop) : nat :=
  match l with LFork _ _ | LSplit _ _ _ | LJoin _ _ _ => 1 | _ => 0 end.
Definition ndone (l : list call) : nat := length (filter is_done l).
Definition dones (th : thread) : nat := ndone (tcalls th) + loop_dones (tloop th).
Definition wg_inv (c : config) : Prop := wg c = list_sum (map dones (threads c)).

Lemma ndone_app a b : ndone (a ++ b) = ndone a + ndone b.
Proof. unfold ndone. now rewrite filter_app, app_length. Qed.
Lemma ndone_map_add {A} (f : A -> call) l : (forall o, is_done (f o) = false) -> ndone (map f l) = 0.
Proof. intros H. unfold ndone. induction l; simpl; auto. now rewrite H. Qed.

Lemma dones_finish_head th q rest v ok :
  tcalls th = CRemoveHead q :: rest -> dones (finish_head th rest v ok) = dones th.
Proof.
  intros Hc. unfold dones, finish_head. rewrite Hc.
  destruct (tloop th) as [|q'|i o|i o cu|i cu o]; destruct ok; simpl;
    rewrite ?ndone_app, ?ndone_map_add; simpl; auto; try lia.
  all: unfold ndone at 1; simpl; try lia.
Qed.

Lemma sum_set_nth {A} (f : A -> nat) t x d l :
  t < length l -> list_sum (map f (set_nth t x l)) + f (nth t l d) = list_sum (map f l) + f x.
Proof.
  revert t; induction l as [|h tl IH]; intros [|t] H; simpl in *; try lia.
  specialize (IH t ltac:(lia)). lia.
Qed.

Lemma sum_ge_nth {A} (f : A -> nat) t d l : t < length l -> f (nth t l d) <= list_sum (map f l).
Proof.
  revert t; induction l as [|h tl IH]; intros [|t] H; simpl in *; try lia.
  specialize (IH t ltac:(lia)). lia.
Qed.

Lemma wg_step c t c' : wg_inv c -> step c t = Some c' -> wg_inv c'.
Proof.
  unfold wg_inv. intros Hw Hstep. pose proof (step_some_lt _ _ _ Hstep) as Ht.
  pose proof (sum_ge_nth dones t dummyt (threads c) Ht) as Hge.
  assert (Hsame : forall cq th', queues cq = queues cq -> threads cq = threads c -> wg cq = wg c ->
            dones th' = dones (gett c t) ->
            wg (sett cq t th') = list_sum (map dones (threads (sett cq t th')))).
  { intros cq th' _ Hthr Hwg Hd. simpl. rewrite Hthr.
    pose proof (sum_set_nth dones t th' dummyt (threads c) Ht) as E.
    unfold gett in Hd. lia. }
  unfold step in Hstep.
  destruct (tph (gett c t)) eqn:Hph.
  - destruct (tcalls (gett c t)) as [|cl rest] eqn:Hc; [discriminate|].
    destruct cl as [q0 v|q0|q0|q0|q0|q0|q0| |].
    + injection Hstep as <-. apply Hsame; auto.
    + destruct (0 <? qtok (getq c q0)).
      * injection Hstep as <-. apply Hsame; auto.
      * destruct (qclosed (getq c q0)); [|discriminate]. injection Hstep as <-.
        apply Hsame; auto. now apply dones_finish_head with q0.
    + destruct (qclosed (getq c q0)); injection Hstep as <-; apply Hsame; auto.
      unfold dones. simpl. rewrite Hc. reflexivity.
    + destruct (0 <? qtok (getq c q0)); injection Hstep as <-; apply Hsame; auto.
      unfold dones. simpl. rewrite Hc. reflexivity.
    + injection Hstep as <-. apply Hsame; auto. unfold dones. simpl. rewrite Hc. reflexivity.
    + injection Hstep as <-. apply Hsame; auto. unfold dones. simpl. rewrite Hc. reflexivity.
    + injection Hstep as <-. apply Hsame; auto. unfold dones. simpl. rewrite Hc. reflexivity.
    + destruct (wg c =? 0); [|discriminate]. injection Hstep as <-. apply Hsame; auto.
      unfold dones. simpl. rewrite Hc. reflexivity.
    + injection Hstep as <-. simpl.
      pose proof (sum_set_nth dones t (finish (gett c t) rest RDoneWg) dummyt (threads c) Ht) as E.
      unfold gett in *. unfold dones at 2 in E. unfold dones at 3 in E. unfold dones in Hge.
      rewrite Hc in E, Hge. simpl in E, Hge. unfold ndone in *. simpl in *. lia.
  - destruct (tcalls (gett c t)) as [|cl rest] eqn:Hc; [discriminate|].
    destruct cl; try discriminate.
    destruct (qclosed (getq c q)).
    + injection Hstep as <-. apply Hsame; auto.
    + destruct (qtok (getq c q) <? qcap (getq c q)); [|discriminate].
      injection Hstep as <-. apply Hsame; auto. unfold dones. simpl. rewrite Hc. reflexivity.
  - destruct (tcalls (gett c t)) as [|cl rest] eqn:Hc; [discriminate|].
    destruct cl; try discriminate.
    unfold pop_head in Hstep. destruct (qvals (getq c q)) as [|x vals]; injection Hstep as <-.
    + apply Hsame; auto.
    + apply Hsame; auto. now apply dones_finish_head with q0.
  - unfold pop_head in Hstep. destruct (qvals (getq c q)) as [|x vals]; injection Hstep as <-;
      apply Hsame; auto.
  - discriminate.
Qed.

(* ---------- round-robin selection ---------- *)
(* the elements of l whose position (counted from i) is congruent to j modulo k *)
Fixpoint rr_aux (k j i : nat) (l : list Z) : list Z :=
  match l with
  | [] => []
  | x :: t => if (i mod k =? j) then x :: rr_aux k j (S i) t else rr_aux k j (S i) t
  end.
Definition rr (k j : nat) (l : list Z) : list Z := rr_aux k j 0 l.

Lemma rr_aux_app k j i a b :
  rr_aux k j i (a ++ b) = rr_aux k j i a ++ rr_aux k j (i + length a) b.
Proof.
  revert i; induction a as [|x a IH]; intros i; simpl.
  - now rewrite Nat.add_0_r.
  - rewrite IH. replace (S i + length a) with (i + S (length a)) by lia.
    destruct (i mod k =? j); reflexivity.
Qed.

Lemma rr_snoc k j l v :
  rr k j (l ++ [v]) = if (length l mod k =? j) then rr k j l ++ [v] else rr k j l.
Proof.
  unfold rr. rewrite rr_aux_app. simpl. destruct (length l mod k =? j); auto using app_nil_r.
Qed.

Lemma rr_prefix k j a b : prefix a b -> prefix (rr k j a) (rr k j b).
Proof. intros [r ->]. unfold rr. rewrite rr_aux_app. apply prefix_app_l. Qed.

Lemma rr_nil k j : rr k j [] = [].
Proof. reflexivity. Qed.

Lemma mod_succ n k : 1 <= k -> S n mod k = if S (n mod k) <? k then S (n mod k) else 0.
Proof.
  intros Hk. pose proof (Nat.mod_upper_bound n k ltac:(lia)) as Hb.
  pose proof (Nat.div_mod n k ltac:(lia)) as Hd.
  destruct (Nat.ltb_spec (S (n mod k)) k) as [Hlt|Hge].
  - symmetry. apply Nat.mod_unique with (n / k); lia.
  - symmetry. apply Nat.mod_unique with (S (n / k)); lia.
Qed.

(* position-wise meaning of rr: the q-th element of class j is element q*k+j of the stream *)
Lemma rr_aux_nth k j : 1 <= k -> j < k -> forall l i q d, i mod k = 0 ->
  nth q (rr_aux k j i l) d = nth (q * k + j) l d.
Proof.
  intros Hk Hj.
  assert (Hgen : forall l i off q d, off < k -> i mod k = off ->
     nth q (rr_aux k j i l) d =
     nth (if off <=? j then q * k + (j - off) else q * k + (k - off + j)) l d).
  { induction l as [|x l IH]; intros i off q d Ho Hi.
    - assert (E : forall n, nth n (@nil Z) d = d) by (intros [|n]; reflexivity).
      simpl rr_aux. now rewrite !E.
    - cbn [rr_aux]. rewrite Hi.
      assert (HS : S i mod k = if S off <? k then S off else 0).
      { rewrite mod_succ by lia. now rewrite Hi. }
      assert (Hc : forall n (r : list Z), nth (S n) (x :: r) d = nth n r d) by reflexivity.
      destruct (Nat.eqb_spec off j) as [->|Hne].
      + rewrite Nat.leb_refl. rewrite Nat.sub_diag, Nat.add_0_r.
        destruct q as [|q]; [reflexivity|]. rewrite Hc.
        destruct (Nat.ltb_spec (S j) k) as [Hlt|Hge].
        * rewrite (IH (S i) (S j) q d Hlt HS).
          destruct (Nat.leb_spec (S j) j); try lia.
          replace (S q * k) with (S (q * k + (k - S j + j))) by lia. now rewrite Hc.
        * assert (S j = k) by lia. rewrite (IH (S i) 0 q d ltac:(lia) HS).
          cbn [Nat.leb].
          replace (S q * k) with (S (q * k + (j - 0))) by lia. now rewrite Hc.
      + destruct (Nat.ltb_spec (S off) k) as [Hlt|Hge].
        * rewrite (IH (S i) (S off) q d Hlt HS).
          destruct (Nat.leb_spec off j), (Nat.leb_spec (S off) j); try lia.
          -- replace (q * k + (j - off)) with (S (q * k + (j - S off))) by lia. now rewrite Hc.
          -- replace (q * k + (k - off + j)) with (S (q * k + (k - S off + j))) by lia. now rewrite Hc.
        * assert (S off = k) by lia. rewrite (IH (S i) 0 q d ltac:(lia) HS).
          cbn [Nat.leb].
          destruct (Nat.leb_spec off j); try lia.
          replace (q * k + (k - off + j)) with (S (q * k + (j - 0))) by lia. now rewrite Hc. }
  intros l i q d Hi. rewrite (Hgen l i 0 q d ltac:(lia) Hi). simpl. now rewrite Nat.sub_0_r.
Qed.

Lemma rr_nth k j l q d : 1 <= k -> j < k -> nth q (rr k j l) d = nth (q * k + j) l d.
Proof. intros Hk Hj. unfold rr. apply rr_aux_nth; auto. now apply Nat.mod_0_l; lia. Qed.

(* ---------- footprint discipline of a whole configuration and the frames it gives ---------- *)
Definition fp_all (c : config) (P R : nat -> nat) : Prop :=
  forall t k q, opof (gett c t) = Some (k, q) ->
    match k with
    | KAdd | KClose => t = P q /\ qclosed (getq c q) = false
    | KSend => t = P q
    | KTake | KPop => t = R q
    | KRemAll | KDisc => False
    end.

Lemma fp_all_on c P R t q : fp_all c P R -> fp_on c t q (P q) (R q).
Proof. intros H k Hk. exact (H t k q Hk). Qed.

Lemma step_qcap c t c' q : step c t = Some c' -> qcap (getq c' q) = qcap (getq c q).
Proof.
  intros Hs. destruct (step_effect _ _ _ Hs) as (_ & _ & _ & H).
  destruct (H q) as [E|(_ & k & _ & Hk & _)]; [now rewrite E|auto].
Qed.

(* a step of a thread that is not the producer of q leaves the producer-side fields of q alone *)
Lemma eff_not_producer c t c' P R q :
  step c t = Some c' -> fp_all c P R -> t <> P q ->
  qapp (getq c' q) = qapp (getq c q) /\ qclosed (getq c' q) = qclosed (getq c q).
Proof.
  intros Hs Hfp Hne. destruct (step_effect _ _ _ Hs) as (_ & _ & _ & H).
  destruct (H q) as [E|(_ & k & Hop & _ & Hk)]; [now rewrite E|].
  specialize (Hfp t k q Hop). destruct k; intuition congruence.
Qed.

Lemma eff_not_consumer c t c' P R q :
  step c t = Some c' -> fp_all c P R -> t <> R q -> qpop (getq c' q) = qpop (getq c q).
Proof.
  intros Hs Hfp Hne. destruct (step_effect _ _ _ Hs) as (_ & _ & _ & H).
  destruct (H q) as [E|(_ & k & Hop & _ & Hk)]; [now rewrite E|].
  specialize (Hfp t k q Hop). destruct k; intuition congruence.
Qed.

(* once q is closed only its consumer can change it *)
Lemma eff_closed_stable c t c' P R q :
  step c t = Some c' -> fp_all c P R -> chan c q (P q) (R q) -> t <> R q ->
  qclosed (getq c q) = true -> getq c' q = getq c q.
Proof.
  intros Hs Hfp Hch Hne Hcl. destruct (step_effect _ _ _ Hs) as (_ & _ & _ & H).
  destruct (H q) as [E|(_ & k & Hop & _ & Hk)]; [auto|].
  pose proof (Hfp t k q Hop) as Hf. destruct k; try intuition congruence.
  (* KSend *)
  subst t. destruct Hch as [_ _ _ H4]. specialize (H4 Hcl).
  unfold opof in Hop. destruct (tph (gett c (P q))) eqn:Hph; try discriminate.
  - destruct (tcalls (gett c (P q))) as [|[] ?]; discriminate.
  - injection Hop as ->. rewrite isSend_same in H4. discriminate.
Qed.

Lemma run_app c s1 s2 : run c (s1 ++ s2) = run (run c s1) s2.
Proof.
  revert c; induction s1 as [|t s1 IH]; intros c; simpl; auto.
  destruct (step c t); apply IH.
Qed.

(* an invariant of steps holds along every schedule *)
Lemma run_invariant (I : config -> Prop) :
  (forall c t c', I c -> step c t = Some c' -> I c') ->
  forall sched c, I c -> I (run c sched).
Proof.
  intros Hstep. induction sched as [|t s IH]; intros c Hc; simpl; auto.
  destruct (step c t) eqn:E; auto. apply IH. eapply Hstep; eauto.
Qed.
