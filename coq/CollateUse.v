(* CollateUse.v — the collator's ranking, restricted to the universe, discharges the
   "total_preorder" hypothesis of the sorter (C09) and of the set (C02) theorems. *)
From Verif Require Import Base Sorter Value SorterProofs Seq Coll SetProofs CollateOrd CollateBase CollateRank.
From Coq Require Import Permutation Sorted.

Theorem rank_total_preorder_for_sets : forall M, SetProofs.total_preorder (U M) (rkU M).
Proof. intros M. exact (rank_total_preorder M). Qed.

(* sorting universe members with the collator's ranking yields an ascending permutation *)
Theorem sort_with_collator_sorted : forall M (l : list (U M)),
  StronglySorted (not_gt (rkU M)) (sort_values (rkU M) l) /\ Permutation (sort_values (rkU M) l) l.
Proof.
  intros M l. split.
  - apply sort_strongly_sorted. apply rank_total_preorder.
  - apply sort_perm.
Qed.

(* the set's binary search with the collator's ranking finds exactly the rank-equal member *)
Theorem set_search_with_collator : forall M (zero : U M) (l : list (U M)) (v : U M) (k : nat),
  StrictSorted (U M) (rkU M) l ->
  find_index zero (rkU M) l v = Ret (k, true) ->
  1 <= k <= length l /\ rkU M v (nth (k - 1) l zero) = Eq.
Proof.
  intros M zero l v k. apply find_index_found. apply rank_total_preorder_for_sets.
Qed.
