(* ScanSweep.v — search for a concrete source on which the scanner REGENERATED from
   v4/cdcn/scanner.go (ScanSem.gen_scan over GenScan.v) and the hand-written model Lexer.lex differ:
   all strings up to length 5 over a six-character alphabet that contains a two-byte rune, a
   newline, a double quote, a digit, a space and a character that starts no token.  Used by the
   driver only to EXPLAIN a broken proof obligation of GenC12.v with a concrete input (a search,
   not a proof).  On the unchanged tree the sweep is empty.  Definitions only. *)
From Coq Require Import ZArith List String Bool.
From Verif Require Import Base Params Lexer ScanLang GenScan ScanSem.
Import ListNotations.
Open Scope Z_scope.

Definition sweep_alphabet : list Z := [233; 10; 34; 49; 32; 120].     (* e-acute, newline, double quote, 1, space, x *)

Fixpoint strings_of_length (n : nat) : list (list Z) :=
  match n with
  | O => [[]]
  | S m => flat_map (fun s => map (fun c => c :: s) sweep_alphabet) (strings_of_length m)
  end.
Definition sweep_sources : list (list Z) := flat_map strings_of_length [0; 1; 2; 3; 4; 5]%nat.

Definition differs (src : list Z) : bool :=
  match gen_scan src with
  | Some toks => negb (list_eqb token_eqb toks (lex src))
  | None => true
  end.

(* the first three sources (shortest first) on which the two differ: (source runes, tokens of the regenerated scanner
   (None: it panics, runs out of fuel or leaves the subset), tokens of the model) *)
Definition scan_sweep : list (list Z * option (list token) * list token) :=
  map (fun src => (src, gen_scan src, lex src)) (firstn 3 (filter differs sweep_sources)).
