(* GrammarTextProofs.v — every source text of the grammar language of GrammarText.v is accepted
   by parse_source with the value gdenote states (text_complete), and a literal without an
   exact value is rejected with the diagnostic for its token (inexact_*_rejected).
   Route: the token list gtokens t n is scannable (the separator premises of the first-token
   lemmas come from the grammar: a literal is followed by "," "]" ":" or a newline, a run of
   spaces by a token, "(" by a type name); its visible tokens are a derivation Complete.dcoll
   of gdenote t; LexRender.parse_render_strip composes scanner and parser completeness. *)
From Coq Require Import String Ascii.
From Verif Require Import Base Params Value Coll Lexer Literals Parser LexerProofs LexBridge LexBridge2 LexBridge3.
From Verif Require Import ParserProofs Complete StripInv LexRender RoundTrip RoundTripLeaf RoundTripScan RoundTripDeriv.
From Verif Require Import GrammarText GrammarLit.
Close Scope string_scope.
Open Scope Z_scope.

(* ---------- induction over derivation trees ---------- *)
Section GInd.
Variable P : gtree -> Prop.
Hypothesis HLit : forall l, P (GLit l).
Hypothesis HAssoc : forall k g v, P v -> P (GAssoc k g v).
Hypothesis HEmpty : forall b n c, P (GEmpty b n c).
Hypothesis HInline : forall f rest c, P f -> Forall (fun x => P (snd x)) rest -> P (GInline f rest c).
Hypothesis HMulti : forall items cl c, Forall (fun x => P (snd x)) items -> P (GMulti items cl c).
Fixpoint gtree_ind2 (t : gtree) : P t :=
  let fix all (l : list (nat * gtree)) : Forall (fun x => P (snd x)) l :=
    match l with
    | [] => Forall_nil _
    | (n, t') :: r => Forall_cons (n, t') (gtree_ind2 t') (all r)
    end in
  match t with
  | GLit l => HLit l
  | GAssoc k g v => HAssoc k g v (gtree_ind2 v)
  | GEmpty b n c => HEmpty b n c
  | GInline f rest c => HInline f rest c (gtree_ind2 f) (all rest)
  | GMulti items cl c => HMulti items cl c (all items)
  end.
End GInd.

(* ====================================================================== *)
(* A. Scannability                                                        *)
(* ====================================================================== *)
Definition gfollow (r : list Z) : Prop :=
  match r with c :: _ => c = 93 \/ c = 10 \/ c = 58 \/ c = 44 | [] => False end.
Lemma gfollow_sep r : gfollow r -> sep_start r.
Proof. destruct r as [|c t]; [contradiction|]. simpl. intros [ -> | [ -> | [ -> | -> ] ] ]; auto. Qed.
Lemma gfollow_ns r : gfollow r -> span is_space r = 0%nat.
Proof. destruct r as [|c t]; [contradiction|]. simpl. intros [ -> | [ -> | [ -> | -> ] ] ]; reflexivity. Qed.

Lemma gap_S n rest : scannable rest -> span is_space (render_toks rest) = 0%nat -> scannable (gap n ++ rest).
Proof. intros Sc Ns. destruct n as [|k]; [exact Sc|]. apply (sc_spaces k); auto. Qed.

Lemma gtoks_head t : exists ty text r, gtoks t = (ty, text) :: r /\ ty <> TSpace.
Proof.
  destruct t; cbn [gtoks]; unfold lit_tok, dtok; eexists _, _, _; (split; [reflexivity|]); try discriminate;
    intros E; match goal with l : glit |- _ => pose proof (lit_is_lit l) as L; rewrite E in L; discriminate end.
Qed.
Lemma gtoks_ns t rest : scannable (gtoks t ++ rest) -> span is_space (render_toks (gtoks t ++ rest)) = 0%nat.
Proof. destruct (gtoks_head t) as (ty & text & r & -> & Hty). cbn [app]. intros Sc. apply scannable_ns; auto. Qed.

Lemma ctx_in_names c : In (ctx_name c) type_names.
Proof. destruct c; simpl; tauto. Qed.
Lemma closing_S c rest : scannable rest -> scannable (closing c ++ rest).
Proof.
  intros Sc. cbn [closing app]. unfold dtok, ctx_text.
  apply sc_delim; [reflexivity|lia|]. apply sc_open_paren; [apply ctx_in_names|]. apply sc_type; [apply ctx_in_names|].
  apply sc_delim; [reflexivity|lia|]. exact Sc.
Qed.
Lemma closing_follow c rest : gfollow (render_toks (closing c ++ rest)).
Proof. simpl. auto. Qed.

(* what the induction proves: a Value that is a literal needs a separator behind it *)
Definition GS (t : gtree) : Prop := wf t = true -> forall rest, scannable rest ->
  (is_coll t = true \/ gfollow (render_toks rest)) -> scannable (gtoks t ++ rest).

Lemma inline_S rest : Forall (fun x => GS (snd x)) rest -> forallb (fun x => wf (snd x)) rest = true ->
  forall tail, scannable tail -> gfollow (render_toks tail) ->
  scannable (flat_map (fun x => dtok 44 :: gap (fst x) ++ gtoks (snd x)) rest ++ tail) /\
  gfollow (render_toks (flat_map (fun x => dtok 44 :: gap (fst x) ++ gtoks (snd x)) rest ++ tail)).
Proof.
  induction 1 as [|[g v] r Gv Gr IH]; intros Hw tail Sc Fo; [split; assumption|].
  cbn [forallb snd] in Hw. apply andb_true_iff in Hw as [Hv Hr]. destruct (IH Hr tail Sc Fo) as [S1 F1].
  cbn [flat_map fst snd app]. rewrite <- !app_assoc. split; [|simpl; auto].
  pose proof (Gv Hv _ S1 (or_intror F1)) as S2.
  unfold dtok. apply sc_delim; [reflexivity|lia|]. apply gap_S; auto. apply gtoks_ns, S2.
Qed.

Lemma multi_S items : Forall (fun x => GS (snd x)) items -> forallb (fun x => wf (snd x)) items = true ->
  forall tail, scannable tail -> gfollow (render_toks tail) ->
  scannable (flat_map (fun x => eoltok :: gap (fst x) ++ gtoks (snd x)) items ++ tail) /\
  gfollow (render_toks (flat_map (fun x => eoltok :: gap (fst x) ++ gtoks (snd x)) items ++ tail)).
Proof.
  induction 1 as [|[g v] r Gv Gr IH]; intros Hw tail Sc Fo; [split; assumption|].
  cbn [forallb snd] in Hw. apply andb_true_iff in Hw as [Hv Hr]. destruct (IH Hr tail Sc Fo) as [S1 F1].
  cbn [flat_map fst snd app]. rewrite <- !app_assoc. split; [|simpl; auto].
  pose proof (Gv Hv _ S1 (or_intror F1)) as S2.
  unfold eoltok. apply sc_eol. apply gap_S; auto. apply gtoks_ns, S2.
Qed.

Theorem gtoks_scannable : forall t, GS t.
Proof.
  induction t as [l|k g v IHv|b n c|f rest c IHf IHr|items cl c IHi] using gtree_ind2; intros Hw tail Sc Fo.
  - cbn [gtoks app]. destruct Fo as [Fo|Fo]; [discriminate|]. apply lit_scan; auto. apply gfollow_sep, Fo.
  - cbn [wf] in Hw. apply andb_true_iff in Hw as [Hw Hv]. apply andb_true_iff in Hw as [Hk _].
    destruct Fo as [Fo|Fo]; [discriminate|].
    cbn [gtoks]. rewrite <- app_comm_cons. cbn [app]. rewrite <- app_assoc.
    pose proof (IHv Hv _ Sc (or_intror Fo)) as S1.
    apply lit_scan; [exact Hk| |simpl; right; right; reflexivity].
    unfold dtok. apply sc_delim; [reflexivity|lia|]. apply gap_S; auto. apply gtoks_ns, S1.
  - cbn [gtoks]. rewrite <- app_comm_cons, <- app_assoc. unfold dtok at 1. apply sc_delim; [reflexivity|lia|].
    pose proof (closing_S c tail Sc) as S1. destruct b.
    + cbn [app]. unfold dtok at 1. apply sc_delim; [reflexivity|lia|]. exact S1.
    + apply gap_S; [exact S1|apply gfollow_ns, closing_follow].
  - cbn [wf] in Hw. apply andb_true_iff in Hw as [Hw _]. apply andb_true_iff in Hw as [Hf Hr].
    cbn [gtoks]. rewrite <- app_comm_cons, <- !app_assoc. unfold dtok at 1. apply sc_delim; [reflexivity|lia|].
    destruct (inline_S rest IHr Hr _ (closing_S c tail Sc) (closing_follow c tail)) as [S1 F1].
    apply (IHf Hf _ S1 (or_intror F1)).
  - cbn [wf] in Hw. apply andb_true_iff in Hw as [Hw _]. apply andb_true_iff in Hw as [_ Hi].
    cbn [gtoks]. rewrite <- app_comm_cons, <- !app_assoc. unfold dtok at 1. apply sc_delim; [reflexivity|lia|].
    assert (S0 : scannable (eoltok :: gap cl ++ closing c ++ tail)).
    { unfold eoltok. apply sc_eol. apply gap_S; [apply closing_S, Sc|apply gfollow_ns, closing_follow]. }
    cbn [app]. rewrite <- ?app_assoc. apply (proj1 (multi_S items IHi Hi _ S0 ltac:(simpl; auto))).
Qed.

Lemma eols_scannable n : scannable (repeat eoltok n).
Proof. induction n; [constructor|]. cbn [repeat]. unfold eoltok at 1. apply sc_eol. exact IHn. Qed.

Theorem gtokens_scannable t n : wf_gtree t = true -> scannable (gtokens t n).
Proof.
  unfold wf_gtree, gtokens. intros H. apply andb_true_iff in H as [Hc Hw].
  apply (gtoks_scannable t Hw _ (eols_scannable n) (or_introl Hc)).
Qed.

(* ====================================================================== *)
(* B. Derivation                                                          *)
(* ====================================================================== *)
Definition visr (ts : list rtok) : list token := map mk (filter visible ts).
Lemma visr_app a b : visr (a ++ b) = visr a ++ visr b.
Proof. unfold visr. rewrite filter_app, map_app. reflexivity. Qed.
Lemma visr_gap n : visr (gap n) = [].
Proof. destruct n; reflexivity. Qed.
Definition litT (l : glit) : token := mkTok (lit_type l) (lit_text l) 0 0.
Lemma visr_lit l r : wf_lit l = true -> visr (lit_tok l :: r) = litT l :: visr r.
Proof.
  intros Hw. unfold visr, lit_tok, litT. cbn [filter]. unfold visible at 1. cbn [fst].
  pose proof (lit_is_lit l) as L. destruct (lit_type l) eqn:E; try discriminate; cbn [map]; unfold mk at 1; cbn [fst snd];
    rewrite (lit_rename l Hw); reflexivity.
Qed.
Lemma visr_closing c : visr (closing c) = [dT 93; dT 40; mkTok TType (ctx_text c) 0 0; dT 41].
Proof. destruct c; reflexivity. Qed.

Section Deriv.
Variable fparse : list Z -> option Z.
Variable crank : val -> val -> option comparison.
Notation gval := (gval fparse crank).
Notation dvalue := (dvalue fparse crank).
Notation dcoll := (dcoll fparse crank).
Notation ditems := (ditems fparse crank).

Lemma lit_litv l v : wf_lit l = true -> lit_value fparse l = Some v -> litv fparse (litT l) v.
Proof.
  intros Hw Hv. split; [apply lit_is_lit|]. unfold litT. cbn [ttype_of tval]. rewrite (lit_meaning fparse l Hw). exact Hv.
Qed.

Definition GD (t : gtree) : Prop := wf t = true -> forall v, gval t = Some v ->
  (is_assoc t = false -> dvalue (visr (gtoks t)) v /\ (is_coll t = true -> dcoll (visr (gtoks t)) v)) /\
  (is_assoc t = true -> exists a b, v = VAssoc a b /\ dassoc fparse crank (visr (gtoks t)) (a, b)).

Lemma sequence_cons {A} (x : option A) r l : sequence (x :: r) = Some l ->
  exists a l', x = Some a /\ sequence r = Some l' /\ l = a :: l'.
Proof.
  cbn [sequence]. destruct x as [a|]; [|discriminate]. destruct (sequence r) as [l'|]; [|discriminate].
  cbn [option_map]. intros H. inversion H. eauto.
Qed.

(* ("," Value)* *)
Lemma inline_vals_D rest : Forall (fun x => GD (snd x)) rest -> forallb (fun x => wf (snd x)) rest = true ->
  forallb (fun t => negb (is_assoc t)) (map snd rest) = true ->
  forall vs, sequence (map (fun x => gval (snd x)) rest) = Some vs ->
  dvtail_i fparse crank (visr (flat_map (fun x => dtok 44 :: gap (fst x) ++ gtoks (snd x)) rest)) vs.
Proof.
  induction 1 as [|[g v] r Gv Gr IH]; intros Hw Hn vs Hs.
  - inversion Hs. apply vti_nil.
  - cbn [forallb snd map] in Hw, Hn. apply andb_true_iff in Hw as [Hv Hr]. apply andb_true_iff in Hn as [Hnv Hnr].
    apply negb_true_iff in Hnv. cbn [map snd] in Hs.
    destruct (sequence_cons _ _ _ Hs) as (a & l' & Ea & El & ->).
    cbn [flat_map fst snd]. change (dtok 44 :: gap g ++ gtoks v) with ([dtok 44] ++ gap g ++ gtoks v).
    rewrite !visr_app, visr_gap. change (visr [dtok 44]) with [dT 44]. cbn [app].
    apply vti_cons; [apply dl_dT|apply (proj1 (proj1 (Gv Hv a Ea) Hnv))|apply (IH Hr Hnr l' El)].
Qed.

(* ("," Association)* *)
Lemma inline_assocs_D rest : Forall (fun x => GD (snd x)) rest -> forallb (fun x => wf (snd x)) rest = true ->
  forallb is_assoc (map snd rest) = true ->
  forall vs, sequence (map (fun x => gval (snd x)) rest) = Some vs ->
  exists kvs, as_pairs vs = Some kvs /\
    datail_i fparse crank (visr (flat_map (fun x => dtok 44 :: gap (fst x) ++ gtoks (snd x)) rest)) kvs.
Proof.
  induction 1 as [|[g v] r Gv Gr IH]; intros Hw Hn vs Hs.
  - inversion Hs. exists []. split; [reflexivity|apply ati_nil].
  - cbn [forallb snd map] in Hw, Hn. apply andb_true_iff in Hw as [Hv Hr]. apply andb_true_iff in Hn as [Hnv Hnr].
    cbn [map snd] in Hs. destruct (sequence_cons _ _ _ Hs) as (a & l' & Ea & El & ->).
    destruct (IH Hr Hnr l' El) as (kvs & Ek & Dk).
    destruct (proj2 (Gv Hv a Ea) Hnv) as (ka & kb & -> & Da).
    exists ((ka, kb) :: kvs). split; [cbn [as_pairs]; rewrite Ek; reflexivity|].
    cbn [flat_map fst snd]. change (dtok 44 :: gap g ++ gtoks v) with ([dtok 44] ++ gap g ++ gtoks v).
    rewrite !visr_app, visr_gap. change (visr [dtok 44]) with [dT 44]. cbn [app].
    apply ati_cons; [apply dl_dT|exact Da|exact Dk].
Qed.

(* (EOL Value)* EOL *)
Lemma multi_vals_D items : Forall (fun x => GD (snd x)) items -> forallb (fun x => wf (snd x)) items = true ->
  forallb (fun t => negb (is_assoc t)) (map snd items) = true ->
  forall vs, sequence (map (fun x => gval (snd x)) items) = Some vs ->
  dvtail_m fparse crank (visr (flat_map (fun x => eoltok :: gap (fst x) ++ gtoks (snd x)) items) ++ [eolT]) vs.
Proof.
  induction 1 as [|[g v] r Gv Gr IH]; intros Hw Hn vs Hs.
  - inversion Hs. apply vtm_end, eolt_eolT.
  - cbn [forallb snd map] in Hw, Hn. apply andb_true_iff in Hw as [Hv Hr]. apply andb_true_iff in Hn as [Hnv Hnr].
    apply negb_true_iff in Hnv. cbn [map snd] in Hs.
    destruct (sequence_cons _ _ _ Hs) as (a & l' & Ea & El & ->).
    cbn [flat_map fst snd]. change (eoltok :: gap g ++ gtoks v) with ([eoltok] ++ gap g ++ gtoks v).
    rewrite !visr_app, visr_gap. change (visr [eoltok]) with [eolT]. cbn [app]. rewrite <- app_assoc.
    apply vtm_cons; [apply eolt_eolT|apply (proj1 (proj1 (Gv Hv a Ea) Hnv))|apply (IH Hr Hnr l' El)].
Qed.

Lemma multi_assocs_D items : Forall (fun x => GD (snd x)) items -> forallb (fun x => wf (snd x)) items = true ->
  forallb is_assoc (map snd items) = true ->
  forall vs, sequence (map (fun x => gval (snd x)) items) = Some vs ->
  exists kvs, as_pairs vs = Some kvs /\
    datail_m fparse crank (visr (flat_map (fun x => eoltok :: gap (fst x) ++ gtoks (snd x)) items) ++ [eolT]) kvs.
Proof.
  induction 1 as [|[g v] r Gv Gr IH]; intros Hw Hn vs Hs.
  - inversion Hs. exists []. split; [reflexivity|apply atm_end, eolt_eolT].
  - cbn [forallb snd map] in Hw, Hn. apply andb_true_iff in Hw as [Hv Hr]. apply andb_true_iff in Hn as [Hnv Hnr].
    cbn [map snd] in Hs. destruct (sequence_cons _ _ _ Hs) as (a & l' & Ea & El & ->).
    destruct (IH Hr Hnr l' El) as (kvs & Ek & Dk).
    destruct (proj2 (Gv Hv a Ea) Hnv) as (ka & kb & -> & Da).
    exists ((ka, kb) :: kvs). split; [cbn [as_pairs]; rewrite Ek; reflexivity|].
    cbn [flat_map fst snd]. change (eoltok :: gap g ++ gtoks v) with ([eoltok] ++ gap g ++ gtoks v).
    rewrite !visr_app, visr_gap. change (visr [eoltok]) with [eolT]. cbn [app]. rewrite <- app_assoc.
    apply atm_cons; [apply eolt_eolT|exact Da|exact Dk].
Qed.

Lemma built_build c items v : built crank c items = Some v -> build crank (ctx_text c) items = BVal v.
Proof. unfold built. destruct (build crank (ctx_text c) items); try discriminate. intros H; inversion H; reflexivity. Qed.

(* "[" Items "]" "(" type ")" *)
Lemma coll_D body c items v : ditems (visr body) items -> built crank c items = Some v ->
  dcoll (visr (dtok 91 :: body ++ closing c)) v.
Proof.
  intros Di Bu. change (dtok 91 :: body ++ closing c) with ([dtok 91] ++ body ++ closing c).
  rewrite !visr_app, visr_closing. change (visr [dtok 91]) with [dT 91]. cbn [app].
  apply (dc fparse crank (dT 91) (visr body) items (dT 93) (dT 40) (mkTok TType (ctx_text c) 0 0) (dT 41) v);
    auto using dl_dT. apply built_build, Bu.
Qed.

Lemma homogeneous_cases f l : homogeneous (f :: l) = true ->
  (is_assoc f = true /\ forallb is_assoc l = true) \/
  (is_assoc f = false /\ forallb (fun t => negb (is_assoc t)) l = true).
Proof.
  unfold homogeneous. cbn [forallb]. destruct (is_assoc f); cbn [negb andb orb]; intros H.
  - left. rewrite orb_false_r in H. auto.
  - right. auto.
Qed.

Theorem gtoks_derive : forall t, GD t.
Proof.
  induction t as [l|k g v IHv|b n c|f rest c IHf IHr|items cl c IHi] using gtree_ind2; intros Hw w Hv.
  - cbn [wf gval] in *. split; [|discriminate]. intros _. split; [|discriminate].
    cbn [gtoks]. rewrite (visr_lit l [] Hw). apply dv_lit, lit_litv; assumption.
  - cbn [wf] in Hw. apply andb_true_iff in Hw as [Hw Hwv]. apply andb_true_iff in Hw as [Hk Hna].
    apply negb_true_iff in Hna. cbn [GrammarText.gval] in Hv.
    destruct (lit_value fparse k) as [a|] eqn:Ea; [|discriminate]. destruct (gval v) as [x|] eqn:Ex; [|discriminate].
    inversion Hv; subst w. split; [discriminate|]. intros _. exists a, x. split; [reflexivity|].
    cbn [gtoks]. rewrite (visr_lit k _ Hk). change (dtok 58 :: gap g ++ gtoks v) with ([dtok 58] ++ gap g ++ gtoks v).
    rewrite !visr_app, visr_gap. change (visr [dtok 58]) with [dT 58]. cbn [app].
    apply da; [apply lit_litv; assumption|apply dl_dT|apply (proj1 (proj1 (IHv Hwv x Ex) Hna))].
  - cbn [GrammarText.gval] in Hv. split; [|discriminate]. intros _.
    assert (D : dcoll (visr (gtoks (GEmpty b n c))) w).
    { cbn [gtoks]. apply (coll_D _ c [] w); [|exact Hv]. destruct b.
      - change (visr [dtok 58]) with [dT 58]. apply di_colon, dl_dT.
      - rewrite visr_gap. apply di_empty. }
    split; [apply dv_coll, D|intros _; exact D].
  - cbn [wf] in Hw. apply andb_true_iff in Hw as [Hw Hh]. apply andb_true_iff in Hw as [Hf Hr].
    cbn [GrammarText.gval] in Hv.
    destruct (sequence (gval f :: map (fun x => gval (snd x)) rest)) as [vs|] eqn:Es; [|discriminate].
    destruct (sequence_cons _ _ _ Es) as (a & l' & Ea & El & ->).
    split; [|discriminate]. intros _.
    assert (D : dcoll (visr (gtoks (GInline f rest c))) w).
    { cbn [gtoks]. rewrite app_assoc.
      destruct (homogeneous_cases _ _ Hh) as [[Hfa Hra]|[Hfa Hra]]; rewrite Hfa in Hv; cbn [items_of] in Hv.
      - destruct (inline_assocs_D rest IHr Hr Hra l' El) as (kvs & Ek & Dk).
        destruct (proj2 (IHf Hf a Ea) Hfa) as (ka & kb & -> & Da).
        cbn [as_pairs] in Hv. rewrite Ek in Hv. cbn [option_map] in Hv.
        apply (coll_D _ c (assocs_of ((ka, kb) :: kvs)) w); [|exact Hv].
        rewrite visr_app. apply di_ai; assumption.
      - apply (coll_D _ c (a :: l') w); [|exact Hv].
        rewrite visr_app. apply di_vi; [apply (proj1 (proj1 (IHf Hf a Ea) Hfa))|apply (inline_vals_D rest IHr Hr Hra l' El)]. }
    split; [apply dv_coll, D|intros _; exact D].
  - cbn [wf] in Hw. apply andb_true_iff in Hw as [Hw Hh]. apply andb_true_iff in Hw as [Hne Hi].
    destruct items as [|[g0 v0] r]; [discriminate|]. cbn [GrammarText.gval snd] in Hv.
    destruct (sequence (map (fun x => gval (snd x)) ((g0, v0) :: r))) as [vs|] eqn:Es; [|discriminate].
    cbn [map snd] in Es. destruct (sequence_cons _ _ _ Es) as (a & l' & Ea & El & ->).
    inversion IHi as [|? ? G0 Gr]; subst. cbn [forallb snd] in Hi. apply andb_true_iff in Hi as [Hw0 Hwr].
    cbn [map snd] in Hh. cbn [snd] in G0.
    split; [|discriminate]. intros _.
    assert (D : dcoll (visr (gtoks (GMulti ((g0, v0) :: r) cl c))) w).
    { cbn [gtoks flat_map fst snd].
      replace ((eoltok :: gap g0 ++ gtoks v0) ++ flat_map (fun x => eoltok :: gap (fst x) ++ gtoks (snd x)) r)
        with ([eoltok] ++ gap g0 ++ gtoks v0 ++ flat_map (fun x => eoltok :: gap (fst x) ++ gtoks (snd x)) r)
        by (cbn [app]; rewrite <- app_assoc; reflexivity).
      replace (([eoltok] ++ gap g0 ++ gtoks v0 ++ flat_map (fun x => eoltok :: gap (fst x) ++ gtoks (snd x)) r) ++ eoltok :: gap cl ++ closing c)
        with (([eoltok] ++ gap g0 ++ gtoks v0 ++ flat_map (fun x => eoltok :: gap (fst x) ++ gtoks (snd x)) r ++ [eoltok] ++ gap cl) ++ closing c)
        by (rewrite <- !app_assoc; reflexivity).
      destruct (homogeneous_cases _ _ Hh) as [[Hfa Hra]|[Hfa Hra]]; rewrite Hfa in Hv; cbn [items_of] in Hv.
      - destruct (multi_assocs_D r Gr Hwr Hra l' El) as (kvs & Ek & Dk).
        destruct (proj2 (G0 Hw0 a Ea) Hfa) as (ka & kb & -> & Da).
        cbn [as_pairs] in Hv. rewrite Ek in Hv. cbn [option_map] in Hv.
        apply (coll_D _ c (assocs_of ((ka, kb) :: kvs)) w); [|exact Hv].
        rewrite !visr_app, !visr_gap. change (visr [eoltok]) with [eolT]. cbn [app]. rewrite ?app_nil_r.
        apply di_am; [apply eolt_eolT|exact Da|exact Dk].
      - apply (coll_D _ c (a :: l') w); [|exact Hv].
        rewrite !visr_app, !visr_gap. change (visr [eoltok]) with [eolT]. cbn [app]. rewrite ?app_nil_r.
        apply di_vm; [apply eolt_eolT|apply (proj1 (proj1 (G0 Hw0 a Ea) Hfa))|apply (multi_vals_D r Gr Hwr Hra l' El)]. }
    split; [apply dv_coll, D|intros _; exact D].
Qed.

(* ====================================================================== *)
(* C. Composition                                                         *)
(* ====================================================================== *)
Lemma visible_eols n : map (fun x : rtok => (fst x, rename (snd x))) (filter visible (repeat eoltok n)) = repeat (TEOL, zs "<EOLN>") n.
Proof. induction n; [reflexivity|]. cbn [repeat]. change (filter visible (eoltok :: repeat eoltok n)) with (eoltok :: filter visible (repeat eoltok n)). cbn [map]. rewrite IHn. reflexivity. Qed.

(* TEXT COMPLETENESS: every source text of the grammar language, with any layout of gtree, followed
   by any number of newlines, is accepted with the value gdenote gives it *)
Theorem text_complete t n v : wf_gtree t = true -> gdenote fparse crank t = Some v ->
  parse_source fparse crank (gtext t n) = PValue v.
Proof.
  intros Hw Hv. pose proof (gtokens_scannable t n Hw) as Sc.
  unfold wf_gtree in Hw. apply andb_true_iff in Hw as [Hc Hw'].
  assert (Hna : is_assoc t = false) by (destruct t; try reflexivity; discriminate).
  destruct (gtoks_derive t Hw' v Hv) as [D _]. destruct (D Hna) as [_ Dc].
  unfold gtext. apply (parse_render_strip fparse crank (gtokens t n) (visr (gtoks t)) v n Sc); [|exact (Dc Hc)].
  unfold gtokens. rewrite filter_app, map_app, visible_eols. unfold visr. rewrite map_map. reflexivity.
Qed.
End Deriv.

(* ====================================================================== *)
(* D. A literal without an exact value is rejected, located               *)
(* ====================================================================== *)
Section Reject.
Variable fparse : list Z -> option Z.
Variable crank : val -> val -> option comparison.

Lemma pif_reject tys : forall t0 s t r,
  (P s <= 3)%nat -> stream s = t :: r -> ttype_of t <> TError ->
  In (ttype_of t) tys -> literal_value fparse (ttype_of t) (tval t) = None ->
  parse_intrinsic_from fparse tys (No t0 s) = Stop (PSyntax t).
Proof.
  induction tys as [|ty r' IH]; intros t0 s t r HP E Ne Hin LV; [destruct Hin|]. simpl.
  destruct (ttype_eqb (ttype_of t) ty) eqn:Q.
  - assert (M : tok_matches ty None t = true) by (rewrite tok_matches_none; exact Q).
    destruct (tok_yes ty None s t r HP E Ne M) as (s1 & T & E1 & P1). rewrite T.
    apply ttype_eqb_eq in Q. rewrite <- Q, LV. reflexivity.
  - assert (M : tok_matches ty None t = false) by (rewrite tok_matches_none; exact Q).
    destruct (tok_no ty None s t r HP E Ne M) as (s1 & T & E1 & P1). rewrite T.
    assert (Hin' : In (ttype_of t) r').
    { destruct Hin as [H|H]; auto. apply ttype_eqb_false in Q. congruence. }
    apply (IH t s1 t r); auto. lia.
Qed.

Lemma intrinsic_reject s t r : (P s <= 3)%nat -> stream s = t :: r -> is_lit (ttype_of t) = true ->
  literal_value fparse (ttype_of t) (tval t) = None -> parse_intrinsic fparse s = Stop (PSyntax t).
Proof.
  intros HP E L LV. unfold parse_intrinsic. apply (pif_reject _ _ s t r); auto.
  - apply lit_not_error, L.
  - apply is_lit_in, L.
Qed.

(* the parser on "[" followed by a literal token whose conversion fails: the diagnostic names it *)
Lemma open_bracket_bad_literal lb t r :
  dl 91 lb -> is_lit (ttype_of t) = true -> literal_value fparse (ttype_of t) (tval t) = None ->
  parse_tokens fparse crank (lb :: t :: r) = PSyntax t.
Proof.
  intros B L LV. unfold parse_tokens. set (all := lb :: t :: r).
  assert (HP0 : (P (mkSt [] all) <= 3)%nat) by (unfold P; simpl; lia).
  cbn [parse_collection]. unfold parse_collection_body, parse_sequence.
  destruct (tok_yes TDelimiter (delim 91) (mkSt [] all) lb (t :: r) HP0 eq_refl (dl_nonerr _ _ B) (dl_match _ _ B)) as (s1 & T1 & E1 & P1).
  rewrite T1. unfold parse_items, parse_associations.
  assert (HP1 : (P s1 <= 3)%nat) by lia.
  destruct (tok_no TDelimiter (delim 58) s1 t r HP1 E1 (lit_not_error _ L) (lit_not_delim _ _ L)) as (s2 & T2 & E2 & P2).
  rewrite T2. unfold parse_inline_associations, parse_association.
  rewrite (intrinsic_reject s2 t r ltac:(lia) E2 L LV). reflexivity.
Qed.
End Reject.

Section RejectText.
Variable fparse : list Z -> option Z.
Variable crank : val -> val -> option comparison.

(* the token of the literal at the head of a one-item list: line 1, position 2 *)
Definition bad_token (l : glit) : token := mkTok (lit_type l) (lit_text l) 1 2.

Lemma place_open (x : rtok) after : fst x <> TSpace ->
  exists tl, place (dtok 91 :: x :: after) 1 1 = mkTok TDelimiter [91] 1 1 :: mkTok (fst x) (rename (snd x)) 1 2 :: tl.
Proof. destruct x as [ty text]. cbn [fst snd]. intros H. destruct ty; try congruence; eexists; reflexivity. Qed.

Lemma first_item_rejected l (after : list rtok) :
  wf_lit l = true -> lit_value fparse l = None ->
  scannable (dtok 91 :: lit_tok l :: after) ->
  parse_source fparse crank (render_toks (dtok 91 :: lit_tok l :: after)) = PSyntax (bad_token l).
Proof.
  intros Hw Hv Sc. unfold parse_source. rewrite (lex_render _ Sc).
  pose proof (lit_is_lit l) as L.
  assert (Hns : lit_type l <> TSpace) by (intros E; rewrite E in L; discriminate).
  destruct (place_open (lit_tok l) after Hns) as [tl E]. rewrite E. unfold lit_tok. cbn [fst snd].
  rewrite (lit_rename l Hw). fold (bad_token l).
  apply open_bracket_bad_literal.
  - split; reflexivity.
  - exact L.
  - unfold bad_token. cbn [ttype_of tval]. rewrite (lit_meaning fparse l Hw). exact Hv.
Qed.

(* [lit](ctx): a one-item list in any context whose literal has no exact value *)
Theorem inexact_value_rejected l c n : wf_lit l = true -> lit_value fparse l = None ->
  parse_source fparse crank (gtext (GInline (GLit l) [] c) n) = PSyntax (bad_token l).
Proof.
  intros Hw Hv. unfold gtext, gtokens. cbn [gtoks flat_map app].
  apply first_item_rejected; auto.
  apply (gtokens_scannable (GInline (GLit l) [] c) n). unfold wf_gtree. cbn [is_coll wf forallb map homogeneous is_assoc negb].
  rewrite Hw. reflexivity.
Qed.

(* [lit: value](ctx): a one-entry association list whose KEY has no exact value *)
Theorem inexact_key_rejected l g v c n : wf_lit l = true -> lit_value fparse l = None ->
  wf v = true -> is_assoc v = false ->
  parse_source fparse crank (gtext (GInline (GAssoc l g v) [] c) n) = PSyntax (bad_token l).
Proof.
  intros Hw Hv Hwv Hna. unfold gtext, gtokens. cbn [gtoks flat_map app]. rewrite <- ?app_comm_cons.
  apply first_item_rejected; auto.
  apply (gtokens_scannable (GInline (GAssoc l g v) [] c) n). unfold wf_gtree. cbn [is_coll wf forallb map homogeneous is_assoc].
  rewrite Hw, Hwv, Hna. reflexivity.
Qed.
End RejectText.
