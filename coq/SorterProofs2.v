(* SorterProofs2.v — additions for C09 (SorterProofs.v is not changed):
   1. a boolean checker for total preorders on a finite carrier is NOT needed: the rankers of the
      Examples are proved total preorders here (natural and coarse order on Z);
   2. the sorter commutes with [map f] when the ranker is pulled back along f, hence the
      "ascending" theorem for the ranking [Pool.rk_default] that the pool model executes for the
      default collator, on raw values of the universe — no [total_preorder] hypothesis;
   3. the Sort/Reverse/Shuffle methods of Array, List and Catalog in the pool machine ARE the
      sorter applied to the contents (for a Catalog: to its associations, and the result is again
      a list of associations);
   4. the data of the non-vacuity Examples. *)
From Verif Require Import Base Sorter SorterProofs Value Seq Coll CollateRank CollateUse Pool PoolFrame.
From Coq Require Import Permutation Sorted.
Local Open Scope nat_scope.

(* ---------- 1. rankers of the Examples ---------- *)
Definition natZ (a b : Z) : comparison := Z.compare a b.
Definition coarse10 (a b : Z) : comparison := Z.compare (a / 10) (b / 10).
Definition always_gt (a b : Z) : comparison := Gt.
Definition always_lt (a b : Z) : comparison := Lt.
(* deliberately inconsistent: depends on the parity of the sum *)
Definition parity_rk (a b : Z) : comparison := if Z.even (a + b) then Lt else Gt.

Lemma natZ_total_preorder : total_preorder natZ.
Proof.
  unfold total_preorder, natZ. split; [|split].
  - intros a. apply Z.compare_refl.
  - intros a b. apply Z.compare_antisym.
  - intros a b c H1 H2. rewrite Z.compare_gt_iff in *. lia.
Qed.

Lemma coarse10_total_preorder : total_preorder coarse10.
Proof.
  unfold total_preorder, coarse10. split; [|split].
  - intros a. apply Z.compare_refl.
  - intros a b. apply Z.compare_antisym.
  - intros a b c H1 H2. rewrite Z.compare_gt_iff in *. lia.
Qed.

(* boolean checker of "no adjacent pair ranks Greater" *)
Fixpoint ascendingb {A} (rk : A -> A -> comparison) (l : list A) : bool :=
  match l with
  | a :: ((b :: _) as t) => match rk a b with Gt => false | _ => ascendingb rk t end
  | _ => true
  end.

Definition ex_arr : list Z := [31; 4; 15; 9; 26; 5; 35; 8; 9; 7; 9]%Z.     (* length 11: not a power of two *)

(* ---------- 2. the sorter commutes with map ---------- *)
Section SortMap.
Variables A B : Type.
Variable f : B -> A.
Variable rkA : A -> A -> comparison.
Let rkB (x y : B) : comparison := rkA (f x) (f y).

Lemma merge_map : forall fuel l r,
  merge rkA fuel (map f l) (map f r) = map f (merge rkB fuel l r).
Proof.
  induction fuel as [|n IH]; intros l r; [reflexivity|].
  destruct l as [|a l']; [reflexivity|]. destruct r as [|b r']; [reflexivity|].
  cbn [map merge]. unfold rkB at 1.
  destruct (rkA (f a) (f b)); cbn [map]; f_equal.
  - apply (IH (a :: l') r').
  - apply (IH l' (b :: r')).
  - apply (IH (a :: l') r').
Qed.

Lemma pass_map : forall fuel w l, pass rkA fuel w (map f l) = map f (pass rkB fuel w l).
Proof.
  induction fuel as [|n IH]; intros w l; [reflexivity|].
  destruct l as [|a l']; [reflexivity|].
  change (map f (a :: l')) with (f a :: map f l') at 1.
  cbn [pass]. change (f a :: map f l') with (map f (a :: l')).
  rewrite !skipn_map, !firstn_map, !map_length, merge_map, IH, map_app. reflexivity.
Qed.

Lemma sort_loop_map : forall fuel w l, sort_loop rkA fuel w (map f l) = map f (sort_loop rkB fuel w l).
Proof.
  induction fuel as [|n IH]; intros w l; [reflexivity|].
  cbn [sort_loop]. rewrite map_length. destruct (w <? length l); [|reflexivity].
  rewrite pass_map. apply IH.
Qed.

Lemma sort_values_map : forall l, sort_values rkA (map f l) = map f (sort_values rkB l).
Proof. intros l. unfold sort_values. rewrite map_length. apply sort_loop_map. Qed.

Lemma strongly_sorted_map : forall l, StronglySorted (not_gt rkB) l -> StronglySorted (not_gt rkA) (map f l).
Proof.
  induction 1 as [|a t Ht IH Hf]; cbn [map]; constructor; auto.
  apply Forall_forall. intros y Hy. apply in_map_iff in Hy. destruct Hy as [z [<- Hz]].
  rewrite Forall_forall in Hf. exact (Hf z Hz).
Qed.
End SortMap.

Definition in_universe (v : val) : Prop := inU cmax v = true.

Definition pj : U cmax -> val := @proj1_sig val (fun v => inU cmax v = true).

Lemma lift_universe_list : forall l, Forall in_universe l ->
  exists lu : list (U cmax), map pj lu = l.
Proof.
  induction 1 as [|v t Hv Ht [lu E]].
  - exists []. reflexivity.
  - exists (exist _ v Hv :: lu). cbn [map]. rewrite E. reflexivity.
Qed.

(* SortValues with the default ranking on values of the universe: ascending, a permutation, and
   the result stays in the universe *)
Theorem sort_default_ascending : forall l, Forall in_universe l ->
  StronglySorted (not_gt rk_default) (sort_values rk_default l) /\
  Sorted (not_gt rk_default) (sort_values rk_default l) /\
  Permutation (sort_values rk_default l) l /\
  Forall in_universe (sort_values rk_default l).
Proof.
  intros l Hl. destruct (lift_universe_list l Hl) as [lu E]. subst l.
  assert (S : StronglySorted (not_gt rk_default)
                (sort_values rk_default (map pj lu))).
  { rewrite (sort_values_map val (U cmax) pj rk_default lu).
    apply strongly_sorted_map. apply (sort_with_collator_sorted cmax lu). }
  split; [exact S|]. split; [apply StronglySorted_Sorted; exact S|].
  pose proof (sort_perm val rk_default (map pj lu)) as P.
  split; [exact P|].
  apply Forall_forall. intros x Hx. rewrite Forall_forall in Hl. apply Hl.
  apply (Permutation_in x P). exact Hx.
Qed.

(* ---------- 3. the Sortable methods of the pool machine ---------- *)
Lemma put_same : forall (p : pool) o x, o < length p -> nth o (put p o x) ODead = x.
Proof. intros. apply put_nth_same. assumption. Qed.

Theorem pool_sort_list_array : forall zero p o l, o < length p ->
  (get p o = OLst l ->
     nth o (fst (step zero p (SortValues o))) ODead = OLst (sort_values rk_default l) /\
     (forall rk, nth o (fst (step zero p (SortWith o rk))) ODead = OLst (sort_values (ranker rk) l)) /\
     nth o (fst (step zero p (ReverseValues o))) ODead = OLst (reverse_values l) /\
     (forall rs, nth o (fst (step zero p (ShuffleValues o rs))) ODead = OLst (shuffle_values rs l))) /\
  (get p o = OArr l ->
     nth o (fst (step zero p (SortValues o))) ODead = OArr (sort_values rk_default l) /\
     (forall rk, nth o (fst (step zero p (SortWith o rk))) ODead = OArr (sort_values (ranker rk) l)) /\
     nth o (fst (step zero p (ReverseValues o))) ODead = OArr (reverse_values l) /\
     (forall rs, nth o (fst (step zero p (ShuffleValues o rs))) ODead = OArr (shuffle_values rs l))).
Proof.
  intros zero p o l Ho. split; intros G; cbn [step]; rewrite G; cbn [fst];
    repeat split; intros; apply put_same; exact Ho.
Qed.

(* a permutation of a list of associations is a list of associations *)
Definition is_assoc (v : val) : Prop := match v with VAssoc _ _ => True | _ => False end.

Lemma assoc_vals_all : forall m, Forall is_assoc (assoc_vals m).
Proof. induction m as [|[k v] t IH]; cbn; constructor; cbn; auto. Qed.

Lemma vals_assoc_total : forall l, Forall is_assoc l -> exists m, vals_assoc l = Some m /\ assoc_vals m = l.
Proof.
  induction 1 as [|x t Hx Ht [m [E1 E2]]].
  - exists []. split; reflexivity.
  - destruct x; try contradiction. cbn [vals_assoc]. rewrite E1. cbn [option_map].
    eexists. split; [reflexivity|]. unfold assoc_vals in *. cbn [map fst snd]. rewrite E2. reflexivity.
Qed.

Definition unassoc (v : val) : val * val := match v with VAssoc k x => (k, x) | _ => (VNil, VNil) end.
Lemma unassoc_assoc_vals : forall m, map unassoc (assoc_vals m) = m.
Proof. induction m as [|[k v] t IH]; cbn; [reflexivity|]. f_equal. exact IH. Qed.

(* Catalog.SortValues / SortValuesWithRanker: the sorter applied to the associations, never fails,
   yields a permutation of the associations (so, by C03_reorder_keeps_mapping, the same mapping) *)
Lemma sort_assoc_ok : forall (rkf : val -> val -> comparison) m,
  exists m', vals_assoc (sort_values rkf (assoc_vals m)) = Some m' /\
             assoc_vals m' = sort_values rkf (assoc_vals m) /\ Permutation m' m.
Proof.
  intros rkf m.
  pose proof (sort_perm val rkf (assoc_vals m)) as P.
  assert (F : Forall is_assoc (sort_values rkf (assoc_vals m))).
  { apply Forall_forall. intros x Hx. pose proof (assoc_vals_all m) as Fm. rewrite Forall_forall in Fm.
    apply Fm. apply (Permutation_in x P). exact Hx. }
  destruct (vals_assoc_total _ F) as [m' [E1 E2]].
  exists m'. split; [exact E1|]. split; [exact E2|].
  rewrite <- (unassoc_assoc_vals m'), <- (unassoc_assoc_vals m). apply Permutation_map. rewrite E2. exact P.
Qed.

Theorem pool_sort_catalog : forall zero p o m, o < length p -> get p o = OCat m ->
  (exists m', nth o (fst (step zero p (SortValues o))) ODead = OCat m' /\
              assoc_vals m' = sort_values rk_default (assoc_vals m) /\ Permutation m' m) /\
  (forall rk, exists m', nth o (fst (step zero p (SortWith o rk))) ODead = OCat m' /\
              assoc_vals m' = sort_values (ranker rk) (assoc_vals m) /\ Permutation m' m).
Proof.
  intros zero p o m Ho G. split; [|intros rk]; cbn [step]; rewrite G.
  - destruct (sort_assoc_ok rk_default m) as [m' [E1 [E2 P]]]. rewrite E1. cbn [fst].
    exists m'. split; [apply put_same; exact Ho|]. auto.
  - destruct (sort_assoc_ok (ranker rk) m) as [m' [E1 [E2 P]]]. rewrite E1. cbn [fst].
    exists m'. split; [apply put_same; exact Ho|]. auto.
Qed.

Theorem pool_reverse_shuffle_catalog : forall zero p o m, o < length p -> get p o = OCat m ->
  nth o (fst (step zero p (ReverseValues o))) ODead = OCat (rev m) /\
  (forall rs, exists m', nth o (fst (step zero p (ShuffleValues o rs))) ODead = OCat m' /\ Permutation m' m).
Proof.
  intros zero p o m Ho G. cbn [step]. rewrite G. cbn [fst]. split.
  - rewrite put_same by exact Ho. rewrite reverse_spec. reflexivity.
  - intros rs. eexists. split; [apply put_same; exact Ho|]. apply shuffle_perm.
Qed.
