(* GrammarText.v — the language of SOURCE TEXTS of the published CDCN grammar
   (v4/cdcn/Syntax.cdsn) as a generator [gtext : gtree -> nat -> list Z], with the value every
   such text denotes ([gdenote]).  Definitions only; the proofs are in GrammarTextProofs.v.

   A [gtree] is a derivation tree of the rules
       AST: Collection EOL* EOF          Collection: "[" Items "]" "(" type ")"
       Values: Value ("," Value)* | (EOL Value)+ EOL | " "
       Associations: Association ("," Association)* | (EOL Association)+ EOL | ":"
       Association: Intrinsic ":" Value  Value: Intrinsic | Collection
   with, per literal, one of ALL the forms of the token expressions (scanner.go / the
   EXPRESSION DEFINITIONS of Syntax.cdsn): boolean, nil, integer (0, ordinal, +ordinal,
   -ordinal), hexadecimal (0x + lower-case digits), float (sign? (0|ordinal) fraction
   ([eE] sign ordinal)?), complex ( float sign float i ) with any sign combination, rune
   (one character, a simple escape, \xhh, \uhhhh, \Uhhhhhhhh), string (a sequence of such
   pieces), and with the LAYOUT the scanner allows on top of the grammar: the scanner drops
   every run of spaces (scanTokens: a Space token is matched and not emitted), so a run of n >= 0
   spaces may stand after "," , after the ":" of an association, after every EOL (the
   indentation) and between "[" and "]" of the empty value list.  The grammar's own sentences
   are the trees with every gap 0 and one space in "[ ]"; the formatter's layout is gap 1
   after ":", 4 * depth spaces after an EOL. *)
From Coq Require Import String Ascii.
From Verif Require Import Base Params Value Coll Lexer Literals Parser LexBridge2 LexBridge3 Complete LexRender.
Close Scope string_scope.
Open Scope Z_scope.

(* ---------- literal forms ---------- *)
Inductive gsign := GNoSign | GPlus | GMinus.
Definition sign_text (s : gsign) : list Z := match s with GNoSign => [] | GPlus => [43] | GMinus => [45] end.

(* ordinal: '1'..'9' '0'..'9'* *)
Definition ordinalb (ds : list Z) : bool :=
  match ds with d :: t => is_nz d && forallb is_digit t | [] => false end.

(* float: sign? (zero | ordinal) '.' base10+ (('e'|'E') sign ordinal)? *)
Record gfloat := mkGF { gf_sign : gsign; gf_int : list Z; gf_frac : list Z; gf_exp : option (Z * bool * list Z) }.
Definition gexp_text (e : option (Z * bool * list Z)) : list Z :=
  match e with None => [] | Some (letter, minus, ds) => letter :: (if minus then 45 else 43) :: ds end.
Definition gfloat_text (f : gfloat) : list Z :=
  sign_text (gf_sign f) ++ gf_int f ++ 46 :: gf_frac f ++ gexp_text (gf_exp f).
Definition wf_float (f : gfloat) : bool :=
  (list_eqb Z.eqb (gf_int f) [48] || ordinalb (gf_int f))
  && negb (match gf_frac f with [] => true | _ => false end) && forallb is_digit (gf_frac f)
  && match gf_exp f with None => true | Some (letter, _, ds) => is_e letter && ordinalb ds end.

(* CONTROL of the syntax notation: the Unicode control characters (category Cc) *)
Definition is_control (c : Z) : bool := (c <? 32) || ((127 <=? c) && (c <? 160)).

(* the pieces of rune and string literals are LexBridge3.piece: PChar c (one character), PEsc e
   (backslash + one of a b f n r t v, apostrophe, double quote, backslash), PHex c hs (backslash + x / u / U + 2 / 4 / 8
   lower-case hexadecimal digits) *)
Definition wf_piece (q : Z) (p : piece) : bool :=
  match p with
  | PChar c => negb (c =? q) && negb (c =? 92) && negb (is_control c)
  | _ => piece_good p
  end.

Inductive glit :=
| GBool (b : bool)
| GNil
| GZero                                   (* 0 *)
| GInt (s : gsign) (ds : list Z)          (* sign? ordinal *)
| GHex (hs : list Z)                      (* 0x base16+ *)
| GFloat (f : gfloat)
| GComplex (f1 : gfloat) (minus : bool) (f2 : gfloat)   (* ( float sign float i ) *)
| GRune (p : piece)
| GStr (ps : list piece).

Definition lit_type (l : glit) : ttype :=
  match l with
  | GBool _ => TBoolean | GNil => TNil | GZero | GInt _ _ => TInteger | GHex _ => THexadecimal
  | GFloat _ => TFloat | GComplex _ _ _ => TComplex | GRune _ => TRune | GStr _ => TString
  end.
Definition lit_text (l : glit) : list Z :=
  match l with
  | GBool b => if b then zs "true" else zs "false"
  | GNil => zs "nil"
  | GZero => [48]
  | GInt s ds => sign_text s ++ ds
  | GHex hs => 48 :: 120 :: hs
  | GFloat f => gfloat_text f
  | GComplex f1 m f2 => 40 :: gfloat_text f1 ++ (if m then 45 else 43) :: gfloat_text f2 ++ [105; 41]
  | GRune p => 39 :: flat3 [p] ++ [39]
  | GStr ps => 34 :: flat3 ps ++ [34]
  end.
Definition wf_lit (l : glit) : bool :=
  match l with
  | GBool _ | GNil | GZero => true
  | GInt _ ds => ordinalb ds
  | GHex hs => negb (match hs with [] => true | _ => false end) && forallb is_hex hs
  | GFloat f => wf_float f
  | GComplex f1 _ f2 => wf_float f1 && wf_float f2
  | GRune p => wf_piece 39 p
  | GStr ps => forallb (wf_piece 34) ps
  end.

(* ---------- the MEANING of every literal form (standard Go semantics) ---------- *)
(* one piece of a rune (q = 39) or string (q = 34) literal: its value and whether Go counts it as
   multibyte; None = not a valid Go escape (the other quote escaped; \u / \U of a surrogate or
   above U+10FFFF) *)
Definition piece_value (q : Z) (p : piece) : option (Z * bool) :=
  match p with
  | PChar c => Some (c, 128 <=? c)
  | PEsc e =>
      if e =? 97 then Some (7, false) else if e =? 98 then Some (8, false)
      else if e =? 102 then Some (12, false) else if e =? 110 then Some (10, false)
      else if e =? 114 then Some (13, false) else if e =? 116 then Some (9, false)
      else if e =? 118 then Some (11, false) else if e =? 92 then Some (92, false)
      else if e =? q then Some (q, false) else None
  | PHex c hs =>
      match hex_val 0 hs with
      | Some v => if c =? 120 then Some (v, false)                       (* \xhh: the byte *)
                  else if Literals.valid_rune v then Some (v, true) else None
      | None => None
      end
  end.
Fixpoint pieces_bytes (ps : list piece) : option (list Z) :=
  match ps with
  | [] => Some []
  | p :: r => match piece_value 34 p, pieces_bytes r with
              | Some (v, mb), Some b => Some (char_bytes v mb ++ b)
              | _, _ => None
              end
  end.

Section Meaning.
Variable fparse : list Z -> option Z.    (* strconv.ParseFloat, the oracle *)

Definition lit_value (l : glit) : option val :=
  match l with
  | GBool b => Some (VBool b)
  | GNil => Some VNil
  | GZero => Some (VInt 64 0)
  | GInt GMinus ds => if dec_val 0 ds <=? 9223372036854775808 then Some (VInt 64 (- dec_val 0 ds)) else None
  | GInt _ ds => if dec_val 0 ds <=? max_int64 then Some (VInt 64 (dec_val 0 ds)) else None
  | GHex hs => match hex_val 0 hs with Some v => if v <? two64 then Some (VUint 64 v) else None | None => None end
  | GFloat f => option_map (VFloat 64) (fparse (gfloat_text f))
  | GComplex f1 m f2 =>
      match fparse (gfloat_text f1), fparse (gfloat_text f2) with
      | Some re, Some im => Some (VComplex 128 re (if m then fneg im else im) 0 0)
      | _, _ => None
      end
  | GRune p => option_map (fun x => VRune (fst x)) (piece_value 39 p)
  | GStr ps => option_map VStr (pieces_bytes ps)
  end.
End Meaning.

(* ---------- derivation trees ---------- *)
Inductive gctx := CArray | CCatalog | CList | CMap | CQueue | CSet | CStack.
Definition ctx_name (c : gctx) : string :=
  match c with CArray => "Array" | CCatalog => "Catalog" | CList => "List" | CMap => "Map"
             | CQueue => "Queue" | CSet => "Set" | CStack => "Stack" end%string.
Definition ctx_text (c : gctx) : list Z := zs (ctx_name c).

Inductive gtree :=
| GLit (l : glit)                                              (* Value: Intrinsic *)
| GAssoc (k : glit) (gap : nat) (v : gtree)                    (* Association: Intrinsic ":" Value *)
| GEmpty (colon : bool) (n : nat) (c : gctx)                   (* "[" n spaces "]" / "[:]" *)
| GInline (first : gtree) (rest : list (nat * gtree)) (c : gctx)   (* Item ("," gap Item)* *)
| GMulti (items : list (nat * gtree)) (close : nat) (c : gctx).    (* (EOL gap Item)+ EOL gap "]" *)

Definition is_assoc (t : gtree) : bool := match t with GAssoc _ _ _ => true | _ => false end.
Definition is_coll (t : gtree) : bool := match t with GLit _ | GAssoc _ _ _ => false | _ => true end.
(* an item list is a list of Values or a list of Associations *)
Definition homogeneous (l : list gtree) : bool := forallb is_assoc l || forallb (fun t => negb (is_assoc t)) l.

Fixpoint wf (t : gtree) {struct t} : bool :=
  match t with
  | GLit l => wf_lit l
  | GAssoc k _ v => wf_lit k && negb (is_assoc v) && wf v
  | GEmpty _ _ _ => true
  | GInline first rest _ => wf first && forallb (fun x => wf (snd x)) rest && homogeneous (first :: map snd rest)
  | GMulti items _ _ => negb (match items with [] => true | _ => false end)
                        && forallb (fun x => wf (snd x)) items && homogeneous (map snd items)
  end.
Definition wf_gtree (t : gtree) : bool := is_coll t && wf t.

(* ---------- the text ---------- *)
Definition gap (n : nat) : list rtok := match n with O => [] | S _ => [(TSpace, repeat 32 n)] end.
Definition lit_tok (l : glit) : rtok := (lit_type l, lit_text l).
Definition dtok (c : Z) : rtok := (TDelimiter, [c]).
Definition eoltok : rtok := (TEOL, [10]).
Definition closing (c : gctx) : list rtok := [dtok 93; dtok 40; (TType, ctx_text c); dtok 41].

Fixpoint gtoks (t : gtree) {struct t} : list rtok :=
  match t with
  | GLit l => [lit_tok l]
  | GAssoc k g v => lit_tok k :: dtok 58 :: gap g ++ gtoks v
  | GEmpty colon n c => dtok 91 :: (if colon then [dtok 58] else gap n) ++ closing c
  | GInline first rest c =>
      dtok 91 :: gtoks first ++ flat_map (fun x => dtok 44 :: gap (fst x) ++ gtoks (snd x)) rest ++ closing c
  | GMulti items cl c =>
      dtok 91 :: flat_map (fun x => eoltok :: gap (fst x) ++ gtoks (snd x)) items ++ eoltok :: gap cl ++ closing c
  end.

(* the source text of a tree followed by n newlines (AST: Collection EOL* EOF) *)
Definition gtokens (t : gtree) (n : nat) : list rtok := gtoks t ++ repeat eoltok n.
Definition gtext (t : gtree) (n : nat) : list Z := render_toks (gtokens t n).

(* ---------- the value ---------- *)
Fixpoint sequence {A} (l : list (option A)) : option (list A) :=
  match l with
  | [] => Some []
  | Some a :: r => option_map (cons a) (sequence r)
  | None :: _ => None
  end.

Section Denote.
Variable fparse : list Z -> option Z.
Variable crank : val -> val -> option comparison.   (* the collator ranking of the Set constructor *)

Definition built (c : gctx) (items : list val) : option val :=
  match build crank (ctx_text c) items with BVal v => Some v | _ => None end.

(* the items of a sequence: the values in source order; an association list is first merged by key
   (first position, last value: Complete.assocs_of, as parseAssociations collects them) *)
Definition items_of (assocs : bool) (vs : list val) : option (list val) :=
  if assocs then option_map assocs_of (as_pairs vs) else Some vs.

Fixpoint gval (t : gtree) {struct t} : option val :=
  match t with
  | GLit l => lit_value fparse l
  | GAssoc k _ v => match lit_value fparse k, gval v with Some a, Some b => Some (VAssoc a b) | _, _ => None end
  | GEmpty _ _ c => built c []
  | GInline first rest c =>
      match sequence (gval first :: map (fun x => gval (snd x)) rest) with
      | Some vs => match items_of (is_assoc first) vs with Some it => built c it | None => None end
      | None => None
      end
  | GMulti items _ c =>
      match sequence (map (fun x => gval (snd x)) items) with
      | Some vs => match items_of (match items with x :: _ => is_assoc (snd x) | [] => false end) vs with
                   | Some it => built c it | None => None end
      | None => None
      end
  end.
Definition gdenote := gval.

(* every literal of the tree has an exact value *)
Fixpoint exact_literals (t : gtree) {struct t} : bool :=
  match t with
  | GLit l => match lit_value fparse l with Some _ => true | None => false end
  | GAssoc k _ v => match lit_value fparse k with Some _ => true | None => false end && exact_literals v
  | GEmpty _ _ _ => true
  | GInline first rest _ => exact_literals first && forallb (fun x => exact_literals (snd x)) rest
  | GMulti items _ _ => forallb (fun x => exact_literals (snd x)) items
  end.
End Denote.
