(* IndepStatic.v - the obligations on the tables that tools/gofootprint regenerates from the Go
   sources (ParamsFoot.v), proved BY COMPUTATION, and the C19_static_* theorems of C19.v closed with
   them.  This file is NOT part of the common build (_CoqProject): it is compiled by ./check C19 after
   the correspondence run ("late_files" in tools/props.d/C19.json), so that a change of the sources
   that breaks one of these lemmas is reported for C19 only.
   Each lemma names the kind of change that breaks it. *)
From Coq Require Import String.
From Verif Require Import Base Params ParamsFoot Indep IndepFacts Registry IndepProofs C19.
Open Scope Z_scope.

(* BREAKS WHEN tools/gofootprint cannot load or type-check the library (ParamsFoot.foot_tool_error says why). *)
Lemma static_tool_ran : foot_tool_ok = true.
Proof. vm_compute. reflexivity. Qed.

(* (a) BREAKS WHEN a field of a ...Class_ struct (one object per element type, shared by every instance)
   is assigned, appended to, locked, address-taken or mutated outside the literal that creates the class
   object: a scratch buffer (sorterClass_.scratch_), a cached default agent (sorterClass_.defaultSorter_),
   a scratch slice + mutex in listClass_/setClass_, a sync.Pool / sync.Once in a class. *)
Lemma static_no_class_mutable_current : static_no_class_mutable = true.
Proof. vm_compute. reflexivity. Qed.

(* BREAKS WHEN a function that is not a method of an instance struct writes a field of such an instance it
   did not just create with a literal (MakeWithRanker re-assigning the ranker of a shared sorter). *)
Lemma static_no_foreign_writes_current : static_no_foreign_writes = true.
Proof. vm_compute. reflexivity. Qed.

(* (b) BREAKS WHEN an instance or class keeps a reference that is not freshly made: an agent instance stored
   in a class and handed to instances (a collator inside sorterClass_), a collection handing its own
   agent to a derived collection through a new path, a slice kept from an argument; or when notation_
   gets state (then every place that keeps a notation appears). *)
Lemma static_shared_edges_expected_current : static_shared_edges_expected = true.
Proof. vm_compute. reflexivity. Qed.

(* (c) BREAKS WHEN a package-level variable is written outside Lock()...Unlock() of a package-level mutex or
   read without a lock although it is written somewhere (a package-level sync.Pool / sync.Once / cache map,
   a registry looked up under RLock), when a variable is exported, or when the inventory of package-level
   variables differs from the one genparams.py finds. *)
Lemma static_pkgvars_guarded_current : static_pkgvars_guarded = true.
Proof. vm_compute. reflexivity. Qed.

(* (d) BREAKS WHEN a generic accessor (List[V], Collator[V], ...) no longer has ONE critical section around
   every use of its registry map, returns a class that is not the registered one (double-checked locking
   that returns the locally built class), or when another function touches the registry. *)
Lemma static_accessors_disciplined_current : static_accessors_disciplined = true.
Proof. vm_compute. reflexivity. Qed.

(* (e) BREAKS WHEN a method writes through memory that is neither its receiver's nor allocated in the call
   (through a pointer into the class as in sorter_.sortValues with a class-level scratch buffer this shows
   as a write of the receiver's own field PLUS obligations (a) and (b)); when a class method writes a
   class field; when a new function writes through a parameter. *)
Lemma static_methods_write_own_current : static_methods_write_own = true.
Proof. vm_compute. reflexivity. Qed.

(* BREAKS WHEN notation_ keeps a formatter / parser, sorterClass_ a ranker / collator, a public collator
   call writes the collator, an accessor is not disciplined - or the typed extraction and the regular
   expressions of genparams.py disagree about any of these. *)
Lemma static_facts_agree_current : static_facts_agree = true.
Proof. vm_compute. reflexivity. Qed.

Lemma static_ok_current : static_ok = true.
Proof. vm_compute. reflexivity. Qed.

(* non-vacuity: the tables are not empty (69 fields, 17 structs with methods ...) *)
Example C19_static_tables_nonempty :
  (50 <= List.length foot_fields)%nat /\ (200 <= List.length foot_methods)%nat /\ List.length foot_accessors = 11%nat /\
  (25 <= List.length foot_pkgvars)%nat /\ List.length foot_shared_edges = 17%nat /\
  method_writes "collection.(*list_).AppendValue"%string = Some ["collection.list_.ArrayLike0"%string] /\
  method_writes "agent.(*collator_).<private>"%string = Some ["agent.collator_.int0"%string] /\
  method_writes "agent.(*collator_).RankValues"%string = Some [].
Proof. vm_compute. repeat split; try reflexivity; repeat constructor. Qed.

Theorem C19_static_facts_justify_table_closed :
  forall (d : opdesc) (c : cell), In c (writes (fp_of current_facts d)) ->
    (exists i, In i (insts d) /\ c = CInst i) \/
    (exists k t, c = CReg k t /\ guarded current_facts c = true).
Proof. exact (C19_static_facts_justify_table static_ok_current). Qed.

Theorem C19_static_distinct_instances_disjoint_closed :
  forall a b : opdesc,
    disjoint_insts a b = true ->
    racy_conflict current_facts a b = false /\
    (od_cold a = false -> od_cold b = false -> conflict current_facts a b = false).
Proof. exact (C19_static_distinct_instances_disjoint static_ok_current). Qed.

Theorem C19_static_searches_and_rankings_share_freely_closed :
  forall a b : opdesc,
    read_only_fam a -> read_only_fam b -> od_cold a = false -> od_cold b = false ->
    conflict current_facts a b = false.
Proof. exact (C19_static_searches_and_rankings_share_freely static_ok_current). Qed.

Theorem C19_static_sources_closed :
  foot_class_mutable = [] /\ foot_foreign_writes = [] /\
  foot_shared_edges = expected_shared_edges /\ foot_escapes = expected_escapes /\
  foot_pkgvar_unguarded = [] /\ foot_verif_pkgvar_unguarded = [] /\
  foot_exported_vars = [] /\ foot_verif_exported_vars = expected_verif_exported_vars /\
  (forall r, In r foot_accessors -> accessor_ok r = true) /\
  map (fun r : accessor_row => fst (fst r)) foot_accessors = map fst Params.registry_locked /\
  (forall m, In m foot_methods -> method_writes_own m = true).
Proof. exact (C19_static_sources static_ok_current). Qed.

Print Assumptions C19_static_facts_justify_table_closed.
Print Assumptions C19_static_distinct_instances_disjoint_closed.
Print Assumptions C19_static_searches_and_rankings_share_freely_closed.
Print Assumptions C19_static_sources_closed.
