(* PipesMeasure.v — a termination measure for the interleaving model: the remaining local work
   of every thread plus, per queue, a weight for every value still to be popped from it.  For
   a configuration whose pops stay within the bounds N (and whose weights cover what the
   popping thread's loop issues per value) every micro-step that does not panic and is not a
   RemoveAll decreases the measure. *)
From Verif Require Import Base Conc PipesGen.
Close Scope Z_scope.
Open Scope nat_scope.

Definition phase_cost (p : phase) : nat := match p with PIdle => 1 | _ => 0 end.
Definition call_cost (cl : call) : nat :=
  match cl with CAdd _ _ => 2 | CRemoveHead _ => 2 | _ => 1 end.
Definition calls_cost (l : list call) : nat := list_sum (map call_cost l).
Definition loop_cost (l : loop) : nat :=
  match l with
  | LNone | LConsumer _ => 0
  | LFork _ outs | LSplit _ outs _ => length outs
  | LJoin _ _ _ => 1
  end.
(* cost of the calls a loop issues for one more value *)
Definition loop_need (l : loop) : nat :=
  match l with
  | LNone => 0
  | LConsumer _ => 2
  | LFork _ outs => 2 * length outs + 2
  | LSplit _ _ _ | LJoin _ _ _ => 4
  end.
Definition local (th : thread) : nat :=
  phase_cost (tph th) + calls_cost (tcalls th) + loop_cost (tloop th).
Definition qpot (w N : nat -> nat) (c : config) (q : nat) : nat :=
  w q * (N q - length (qpop (getq c q))).
Definition mu (w N : nat -> nat) (c : config) : nat :=
  list_sum (map (fun t => local (gett c t)) (seq 0 (length (threads c)))) +
  list_sum (map (qpot w N c) (seq 0 (length (queues c)))).

Lemma calls_cost_app a b : calls_cost (a ++ b) = calls_cost a + calls_cost b.
Proof. unfold calls_cost. now rewrite map_app, list_sum_app. Qed.
Lemma calls_cost_map {A} (f : A -> call) l n :
  (forall x, call_cost (f x) = n) -> calls_cost (map f l) = n * length l.
Proof. intros H. unfold calls_cost. induction l; simpl; auto. rewrite H, IHl. lia. Qed.

Lemma sum_seq_ext (f g : nat -> nat) s n :
  (forall u, s <= u < s + n -> g u = f u) -> list_sum (map g (seq s n)) = list_sum (map f (seq s n)).
Proof.
  intros H. f_equal. apply map_ext_in. intros u Hu. apply in_seq in Hu. now apply H.
Qed.

Lemma sum_seq_change (f g : nat -> nat) n t :
  t < n -> (forall u, u <> t -> g u = f u) ->
  list_sum (map g (seq 0 n)) + f t = list_sum (map f (seq 0 n)) + g t.
Proof.
  induction n as [|n IH]; intros Ht H; [lia|].
  rewrite seq_S, !map_app, !list_sum_app. simpl.
  destruct (Nat.eq_dec t n) as [->|Hn].
  - assert (E : list_sum (map g (seq 0 n)) = list_sum (map f (seq 0 n))).
    { apply sum_seq_ext. intros u Hu. apply H. lia. }
    rewrite E. lia.
  - specialize (IH ltac:(lia) H). rewrite (H n) by lia. lia.
Qed.

(* continuation of a loop after one more value: it costs loop_need and keeps the loop cost *)
Lemma continue_true_cost l v :
  calls_cost (fst (continue l v true)) = loop_need l /\
  loop_cost (snd (continue l v true)) = loop_cost l.
Proof.
  destruct l as [|q|i o|i o cu|i cu o]; simpl; auto.
  - rewrite calls_cost_app, (calls_cost_map _ _ 2) by auto. unfold calls_cost; simpl. split; lia.
Qed.

Lemma continue_false_cost l v :
  calls_cost (fst (continue l v false)) + loop_cost (snd (continue l v false)) <= loop_cost l + 1.
Proof.
  destruct l as [|q|i o|i o cu|i cu o]; simpl; auto;
    rewrite ?calls_cost_app, ?(calls_cost_map _ _ 1) by auto; unfold calls_cost; simpl; lia.
Qed.

Lemma local_finish_head th q rest v :
  tcalls th = CRemoveHead q :: rest ->
  local (finish_head th rest v true) + 2 + phase_cost (tph th) = local th + 1 + loop_need (tloop th) /\
  local (finish_head th rest v false) + phase_cost (tph th) <= local th.
Proof.
  intros Hc. unfold local, finish_head. rewrite Hc.
  pose proof (continue_true_cost (tloop th) v) as [T1 T2].
  pose proof (continue_false_cost (tloop th) v) as F1.
  destruct (continue (tloop th) v true) as [m1 l1].
  destruct (continue (tloop th) v false) as [m2 l2]. simpl in *.
  rewrite !calls_cost_app. unfold calls_cost in *. simpl. lia.
Qed.

Section Measure.
Variables w N : nat -> nat.

Lemma mu_change_same c c' t :
  length (threads c') = length (threads c) -> length (queues c') = length (queues c) ->
  t < length (threads c) ->
  (forall u, u <> t -> gett c' u = gett c u) ->
  (forall q, qpop (getq c' q) = qpop (getq c q)) ->
  local (gett c' t) < local (gett c t) -> mu w N c' < mu w N c.
Proof.
  intros Hnt Hnq Ht Hu Hq Hl. unfold mu. rewrite Hnt, Hnq.
  pose proof (sum_seq_change (fun u => local (gett c u)) (fun u => local (gett c' u))
                (length (threads c)) t Ht) as E.
  simpl in E. specialize (E ltac:(intros u Hne; now rewrite Hu)).
  rewrite (sum_seq_ext (qpot w N c) (qpot w N c')).
  - lia.
  - intros q _. unfold qpot. now rewrite Hq.
Qed.

Lemma mu_change_pop c c' t q0 x :
  length (threads c') = length (threads c) -> length (queues c') = length (queues c) ->
  t < length (threads c) -> q0 < length (queues c) ->
  (forall u, u <> t -> gett c' u = gett c u) ->
  (forall q, q <> q0 -> qpop (getq c' q) = qpop (getq c q)) ->
  qpop (getq c' q0) = qpop (getq c q0) ++ [x] ->
  length (qpop (getq c q0)) < N q0 ->
  local (gett c' t) < local (gett c t) + w q0 -> mu w N c' < mu w N c.
Proof.
  intros Hnt Hnq Ht Hq0 Hu Hq Hpop Hlt Hl. unfold mu. rewrite Hnt, Hnq.
  pose proof (sum_seq_change (fun u => local (gett c u)) (fun u => local (gett c' u))
                (length (threads c)) t Ht) as E.
  simpl in E. specialize (E ltac:(intros u Hne; now rewrite Hu)).
  pose proof (sum_seq_change (qpot w N c) (qpot w N c') (length (queues c)) q0 Hq0) as E2.
  specialize (E2 ltac:(intros q Hne; unfold qpot; now rewrite Hq)).
  assert (Hp : qpot w N c' q0 + w q0 = qpot w N c q0).
  { unfold qpot. rewrite Hpop, app_length. simpl.
    replace (N q0 - length (qpop (getq c q0))) with (S (N q0 - (length (qpop (getq c q0)) + 1))) by lia.
    lia. }
  lia.
Qed.

Lemma mu_step c t c' :
  step c t = Some c' -> tph (gett c' t) <> PStuck ->
  (forall q, opof (gett c t) = Some (KPop, q) ->
     length (qpop (getq c q)) < N q /\ loop_need (tloop (gett c t)) <= w q /\ q < length (queues c)) ->
  (forall q, opof (gett c t) <> Some (KRemAll, q) /\ opof (gett c t) <> Some (KDisc, q)) ->
  mu w N c' < mu w N c.
Proof.
  intros Hstep Hns Hpopc Hnora. pose proof (step_some_lt _ _ _ Hstep) as Ht.
  destruct (step_effect _ _ _ Hstep) as (Hnt & Hnq & Hother & Hqs).
  assert (Hsame : (forall q, opof (gett c t) <> Some (KPop, q)) ->
                  forall q, qpop (getq c' q) = qpop (getq c q)).
  { intros Hnp q. destruct (Hqs q) as [E|(_ & kk & Hop & _ & Hk)]; [now rewrite E|].
    destruct kk; try tauto.
    - exfalso. now apply (Hnp q).
    - exfalso. now apply (proj1 (Hnora q)).
    - exfalso. now apply (proj2 (Hnora q)). }
  unfold opof in Hpopc, Hnora, Hsame. unfold step in Hstep.
  destruct (tph (gett c t)) eqn:Hph.
  - (* PIdle *)
    assert (Hq : forall q, qpop (getq c' q) = qpop (getq c q)).
    { apply Hsame. intros q. destruct (tcalls (gett c t)) as [|[] ?]; discriminate. }
    apply mu_change_same with t; auto.
    destruct (tcalls (gett c t)) as [|cl rest] eqn:Hc; [discriminate|].
    destruct cl as [q0 v|q0|q0|q0|q0|q0|q0| |].
    + injection Hstep as <-. gs. unfold local. simpl. rewrite Hph, Hc. simpl. lia.
    + destruct (0 <? qtok (getq c q0)).
      * injection Hstep as <-. gs. unfold local. simpl. rewrite Hph, Hc. simpl. lia.
      * destruct (qclosed (getq c q0)); [|discriminate]. injection Hstep as <-. gs.
        pose proof (local_finish_head (gett c t) q0 rest 0%Z Hc) as [_ H]. rewrite Hph in H.
        simpl in H. lia.
    + destruct (qclosed (getq c q0)); injection Hstep as <-.
      * rewrite gett_sett_same in Hns by auto. simpl in Hns. congruence.
      * gs. unfold local. simpl. rewrite Hph, Hc. unfold calls_cost. simpl. lia.
    + exfalso. now apply (proj1 (Hnora q0)).
    + injection Hstep as <-. gs. unfold local. simpl. rewrite Hph, Hc. unfold calls_cost. simpl. lia.
    + injection Hstep as <-. gs. unfold local. simpl. rewrite Hph, Hc. unfold calls_cost. simpl. lia.
    + injection Hstep as <-. gs. unfold local. simpl. rewrite Hph, Hc. unfold calls_cost. simpl. lia.
    + destruct (wg c =? 0); [|discriminate]. injection Hstep as <-. gs.
      unfold local. simpl. rewrite Hph, Hc. unfold calls_cost. simpl. lia.
    + injection Hstep as <-. gs. unfold local. simpl. rewrite Hph, Hc. unfold calls_cost. simpl. lia.
  - (* PSend *)
    assert (Hq' : forall q, qpop (getq c' q) = qpop (getq c q)).
    { apply Hsame. intros q'. discriminate. }
    apply mu_change_same with t; auto.
    destruct (tcalls (gett c t)) as [|cl rest] eqn:Hc; [discriminate|].
    destruct cl; try discriminate.
    destruct (qclosed (getq c q)).
    + injection Hstep as <-. rewrite gett_sett_same in Hns by auto. simpl in Hns. congruence.
    + destruct (qtok (getq c q) <? qcap (getq c q)); [|discriminate].
      injection Hstep as <-. gs. unfold local. simpl. rewrite Hph, Hc. unfold calls_cost. simpl. lia.
  - (* PPop *)
    destruct (tcalls (gett c t)) as [|cl rest] eqn:Hc; [discriminate|].
    destruct cl; try discriminate.
    destruct (Hpopc q eq_refl) as (Hlt & Hneed & Hql).
    unfold pop_head in Hstep. destruct (qvals (getq c q)) as [|x vals] eqn:Hv.
    + injection Hstep as <-. rewrite gett_sett_same in Hns by auto. simpl in Hns. congruence.
    + injection Hstep as Hc'.
      apply mu_change_pop with t q x; auto.
      * intros q' Hne. destruct (Hqs q') as [E|(_ & kk & Hop & _ & Hk)]; [now rewrite E|].
        unfold opof in Hop. rewrite Hph in Hop. injection Hop as <- <-. congruence.
      * subst c'. gs. reflexivity.
      * subst c'. gs.
        pose proof (local_finish_head (gett c t) q0 rest x Hc) as [H _]. rewrite Hph in H.
        simpl in H. lia.
  - exfalso. now apply (proj2 (Hnora q)).
  - discriminate.
Qed.

End Measure.

(* a strict run (every scheduled step enabled) is no longer than the measure it consumes *)
Lemma run_strict_bound (I : config -> Prop) (m : config -> nat) :
  (forall c t c', I c -> step c t = Some c' -> I c' /\ m c' < m c) ->
  forall sched c c', I c -> run_strict c sched = Some c' -> length sched + m c' <= m c.
Proof.
  intros H. induction sched as [|t s IH]; intros c c' Hc Hr; simpl in *.
  - injection Hr as <-. lia.
  - destruct (step c t) as [c1|] eqn:E; [|discriminate].
    destruct (H c t c1 Hc E) as [Hc1 Hlt]. specialize (IH c1 c' Hc1 Hr). lia.
Qed.
