(* MiniGo.v — a small deep-embedded imperative language and its fuelled big-step interpreter.
   tools/gotrans (a Go program using go/parser) translates selected functions and methods of the
   library into terms of this language (coq/GenSrc.v, regenerated on every run); this file says, once
   and by hand, what those terms mean.  It is part of the trusted base: keep it small and readable.
   Definitions only (no proofs of properties).

   Deliberate simplifications (see docs/gotrans.md):
   * [int] and [uint] are unbounded [Z]: overflow is NOT modelled.  Only the conversions [uint(e)] /
     [int(e)] wrap (two's complement, 64 bit), because the code relies on them to go through.
   * slices have VALUE semantics: a slice is the list of its elements.  An element assignment
     [x[i] = e], [copy(dst, src)] and a method call [x.m(..)] update the VARIABLE OR FIELD PATH [x]
     that holds the slice / the receiver (the callee's final receiver value is written back).  This
     agrees with Go as long as no two live names share a backing array or a pointee while one of
     them is written; the translator refuses functions where that could happen.  Capacity is not
     modelled: [append] is always "copy and extend".
   * the argument of [panic] is ignored: every panic is the outcome [Panic].
   * the type parameter V is an opaque element type [A] with zero value [zero]; an interface value is
     the value it holds (objects carry their type name, which is what a method call dispatches on).
   * declarations are function-scoped (the translator refuses a declaration that shadows a visible
     name, so block scoping cannot be observed).
   * fuel is a DEPTH: one unit per level of nesting of expressions / statements, per call and per
     loop iteration (a loop re-enters itself one level down).  Out of fuel is [RFuel]. *)
From Verif Require Import Base.
From Coq Require Import PArith.

Definition ident := positive.

Inductive binop := BAdd | BSub | BMul | BQuo | BRem | BEq | BNe | BLt | BLe | BGt | BGe | BAnd | BOr.
Inductive unop := UNeg | UNot.
(* the zero value of a declared type, decided syntactically by the translator:
   int/uint, bool, the type parameter, a slice type, anything else (interfaces, pointers: nil) *)
Inductive zkind := ZInt | ZBool | ZElem | ZSlice | ZNil.

Inductive expr :=
| EInt (z : Z)
| EBool (b : bool)
| ENil
| EVar (x : ident)
| EField (e : expr) (f : ident)                       (* e.f_ *)
| EBin (op : binop) (a b : expr)                      (* && and || short-circuit *)
| EUn (op : unop) (a : expr)
| ELen (e : expr)
| EIndex (e i : expr)                                 (* e[i] *)
| ESlice (e : expr) (lo hi : option expr)             (* e[lo:hi] *)
| EMake (zk : zkind) (n : expr)                       (* make([]T, n) *)
| ECopy (dst src : expr)                              (* copy(dst, src): dst must be a place *)
| EAppend (s : expr) (args : list expr)               (* append(s, a1, ..) *)
| EToInt (e : expr)                                   (* int(e) *)
| EToUint (e : expr)                                  (* uint(e) *)
| EConv (t : ident) (e : expr)                        (* T[V](e), T a named slice type *)
| EClass (c : ident) (args : list expr)               (* Array[V](n): the class object of class type c *)
| ENew (t : ident) (fs : list (ident * expr))         (* &T[V]{f: e, ..} *)
| ECall (recv : expr) (m : ident) (args : list expr)  (* recv.m(args), dispatched on recv's dynamic type *)
| EMethVal (recv : expr) (m : ident)                  (* recv.m without call: a method value *)
| ECallVal (fn : expr) (args : list expr).            (* f(args) where f holds a method value *)

Inductive stmt :=
| SVar (xs : list ident) (zk : option zkind) (init : list expr)   (* var x T | var x = e | x := e | a, b := f() *)
| SAssign (lhs rhs : list expr)
| SOpAssign (op : binop) (lhs rhs : expr)
| SIncDec (inc : bool) (lhs : expr)
| SIf (c : expr) (th el : list stmt)
| SSwitch (tag : option expr) (cases : list (option (list expr) * list stmt))   (* None = default *)
| SFor (init : option stmt) (c : option expr) (post : option stmt) (body : list stmt)
| SRange (k v : option ident) (e : expr) (body : list stmt)      (* for k, v := range e *)
| SReturn (es : list expr)
| SPanic
| SExpr (e : expr)
| SBlock (b : list stmt)
| SBreak
| SContinue.

(* fn_wb: the positions (1, 2, ..) of the slice parameters through which the function writes; their final values
   are handed back to the caller, which stores them into the argument places (see call_step / ECall) *)
Record fndef := { fn_recv : ident; fn_params : list ident; fn_wb : list nat; fn_body : list stmt }.
(* a program: methods keyed by (receiver type name, method name); struct declarations *)
Record program := {
  p_fns : list ((ident * ident) * fndef);
  p_structs : list (ident * list (ident * zkind))
}.

(* results: a panic carries the state at the point of the panic (P: the environment of the function that
   was running; for a call: the receiver as the callee left it) *)
Inductive res (P X : Type) := ROk (x : X) | RPanic (p : P) | RStuck | RFuel.
Arguments ROk {P X} x. Arguments RPanic {P X} p. Arguments RStuck {P X}. Arguments RFuel {P X}.
Definition rbind {P X Y} (r : res P X) (k : X -> res P Y) : res P Y :=
  match r with ROk x => k x | RPanic p => RPanic p | RStuck => RStuck | RFuel => RFuel end.
(* a panic of a computation that has no state of its own happens in the state [p] *)
Definition at_state {P Q X} (p : P) (r : res Q X) : res P X :=
  match r with ROk x => ROk x | RPanic _ => RPanic p | RStuck => RStuck | RFuel => RFuel end.

(* canonical identifiers of struct fields (see tools/gotrans): kind of the field's type and ordinal among the
   fields of that kind in its struct *)
Notation f_int0 := 1%positive (only parsing).   Notation f_bool0 := 2%positive (only parsing).
Notation f_elem0 := 3%positive (only parsing).  Notation f_slice0 := 4%positive (only parsing).
Notation f_nil0 := 5%positive (only parsing).
Notation f_int1 := 6%positive (only parsing).   Notation f_bool1 := 7%positive (only parsing).
Notation f_elem1 := 8%positive (only parsing).  Notation f_slice1 := 9%positive (only parsing).
Notation f_nil1 := 10%positive (only parsing).
Notation f_int2 := 11%positive (only parsing).  Notation f_bool2 := 12%positive (only parsing).
Notation f_elem2 := 13%positive (only parsing). Notation f_slice2 := 14%positive (only parsing).
Notation f_nil2 := 15%positive (only parsing).
Notation f_int3 := 16%positive (only parsing).  Notation f_bool3 := 17%positive (only parsing).
Notation f_elem3 := 18%positive (only parsing). Notation f_slice3 := 19%positive (only parsing).
Notation f_nil3 := 20%positive (only parsing).
Notation "'do' x <- r ; k" := (rbind r (fun x => k)) (at level 200, x pattern, r at level 100, k at level 200).

Definition two64 : Z := 18446744073709551616.
Definition two63 : Z := 9223372036854775808.

Section Interp.
Variable A : Type.
Variable zero : A.

Inductive val :=
| VInt (z : Z)
| VBool (b : bool)
| VElem (a : A)                               (* a value of the type parameter *)
| VNil
| VSlice (l : list val)
| VObj (t : ident) (fs : list (ident * val))  (* (pointer to) a struct of type t *)
| VNamed (t : ident) (v : val)                (* a value of the named non-struct type t *)
| VTuple (l : list val)                       (* results of a call: [] for none *)
| VMeth (recv : val) (m : ident)              (* method value *)
| VTag (p : nat) (v : val)                    (* inside a callee: the slice that came in as written-back parameter p *)
| VWb (v : val) (wbs : list (nat * val)).     (* the receiver after a call + the final values of its written-back parameters *)

Definition env := list (ident * val).
Inductive sig := SgNormal | SgReturn (v : val) | SgBreak | SgContinue.

(* externals: methods of types that are not translated (e.g. the collator's CompareValues /
   RankValues): a pure function of the receiver and the arguments *)
Variable ext : ident -> ident -> val -> list val -> option val.
Variable prog : program.

Fixpoint lookup {X} (x : ident) (l : list (ident * X)) : option X :=
  match l with
  | [] => None
  | (y, v) :: t => if Pos.eqb x y then Some v else lookup x t
  end.
(* update the binding of x, or add one at the end *)
Fixpoint set {X} (x : ident) (v : X) (l : list (ident * X)) : list (ident * X) :=
  match l with
  | [] => [(x, v)]
  | (y, w) :: t => if Pos.eqb x y then (y, v) :: t else (y, w) :: set x v t
  end.
Fixpoint find_fn (l : list ((ident * ident) * fndef)) (t m : ident) : option fndef :=
  match l with
  | [] => None
  | ((t', m'), fd) :: r => if Pos.eqb t t' && Pos.eqb m m' then Some fd else find_fn r t m
  end.

Definition zero_of (zk : zkind) : val :=
  match zk with ZInt => VInt 0 | ZBool => VBool false | ZElem => VElem zero | ZSlice => VSlice [] | ZNil => VNil end.

(* the elements of a slice value, through the wrappers (named slice type, parameter tag) *)
Fixpoint as_slice (v : val) : option (list val) :=
  match v with VSlice l => Some l | VNamed _ w => as_slice w | VTag _ w => as_slice w | _ => None end.
(* the same slice value with other elements: the wrappers stay *)
Fixpoint re_slice (v : val) (l : list val) : val :=
  match v with VNamed t w => VNamed t (re_slice w l) | VTag p w => VTag p (re_slice w l) | _ => VSlice l end.
Fixpoint type_of (v : val) : option ident :=
  match v with VObj t _ => Some t | VNamed t _ => Some t | VTag _ w => type_of w | _ => None end.

(* Slice PARAMETERS with write-back.  A callee's element writes into a slice parameter are visible to the caller
   in Go (shared backing array).  With value semantics: the arguments at the positions fn_wb are tagged on entry;
   the tag travels with the value (element writes, copy, swapping two slice variables keep it); on return the
   value carrying tag p - wherever it is now - is handed back (wrapped around the final receiver: [VWb]) and the caller stores it into the argument
   expression when that is a place or a segment x[a:b] of one.  Sound as long as the tagged value is not
   duplicated (the translator's aliasing check; a parallel assignment that permutes variables is not a
   duplication) and the callee does not keep the parameter beyond the call. *)
(* The tags of the caller's own frame mean nothing inside the callee: they are removed from every argument.  A
   written-back parameter has an unnamed slice type []T (Go converts a named slice such as array_ to it): the callee
   gets the bare slice under its tag. *)
Fixpoint untag (v : val) : val := match v with VTag _ w => untag w | _ => v end.
Definition bare (v : val) : val := match as_slice v with Some l => VSlice l | None => v end.
Fixpoint tag_args (wb : list nat) (i : nat) (args : list val) : list val :=
  match args with
  | [] => []
  | a :: t => (if existsb (Nat.eqb i) wb then VTag i (bare a) else untag a) :: tag_args wb (S i) t
  end.
Fixpoint find_tag (p : nat) (en : list (ident * val)) : option val :=
  match en with
  | [] => None
  | (_, VTag q w) :: t => if Nat.eqb p q then Some w else find_tag p t
  | _ :: t => find_tag p t
  end.
Fixpoint collect_wb (wb : list nat) (en : list (ident * val)) : option (list (nat * val)) :=
  match wb with
  | [] => Some []
  | p :: t => match find_tag p en, collect_wb t en with Some w, Some r => Some ((p, w) :: r) | _, _ => None end
  end.
Definition with_wb (wb : list nat) (out : val) (en : list (ident * val)) : option val :=
  match wb with
  | [] => Some out
  | _ => match collect_wb wb en with Some r => Some (VWb out r) | None => None end
  end.

(* x[i]: None = index out of range *)
Definition zidx (l : list val) (i : Z) : option val :=
  if (i <? 0)%Z then None else nth_error l (Z.to_nat i).
Definition zset (l : list val) (i : Z) (v : val) : option (list val) :=
  if (i <? 0)%Z || (Z.of_nat (length l) <=? i)%Z then None else Some (set_nth (Z.to_nat i) v l).
(* l[lo:hi] (0 <= lo <= hi <= len, else None); capacity = length *)
Definition zsub (l : list val) (lo hi : Z) : option (list val) :=
  if (lo <? 0)%Z || (hi <? lo)%Z || (Z.of_nat (length l) <? hi)%Z then None
  else Some (firstn (Z.to_nat (hi - lo)) (skipn (Z.to_nat lo) l)).
(* copy(dst, src) into a list: the first min(len dst, len src) values *)
Definition zcopy (dst src : list val) : list val :=
  firstn (length dst) src ++ skipn (length src) dst.
(* replace l[lo:hi] by seg (same length) *)
Definition zsplice (l : list val) (lo hi : Z) (seg : list val) : list val :=
  firstn (Z.to_nat lo) l ++ seg ++ skipn (Z.to_nat hi) l.

Definition arith (op : binop) (a b : val) : res unit val :=
  match op, a, b with
  | BAdd, VInt x, VInt y => ROk (VInt (x + y))
  | BSub, VInt x, VInt y => ROk (VInt (x - y))
  | BMul, VInt x, VInt y => ROk (VInt (x * y))
  | BQuo, VInt x, VInt y => if (y =? 0)%Z then RPanic tt else ROk (VInt (Z.quot x y))
  | BRem, VInt x, VInt y => if (y =? 0)%Z then RPanic tt else ROk (VInt (Z.rem x y))
  | BEq, VInt x, VInt y => ROk (VBool (x =? y)%Z)
  | BNe, VInt x, VInt y => ROk (VBool (negb (x =? y)%Z))
  | BLt, VInt x, VInt y => ROk (VBool (x <? y)%Z)
  | BLe, VInt x, VInt y => ROk (VBool (x <=? y)%Z)
  | BGt, VInt x, VInt y => ROk (VBool (y <? x)%Z)
  | BGe, VInt x, VInt y => ROk (VBool (y <=? x)%Z)
  | BEq, VBool x, VBool y => ROk (VBool (Bool.eqb x y))
  | BNe, VBool x, VBool y => ROk (VBool (negb (Bool.eqb x y)))
  | _, _, _ => RStuck
  end.

(* a place: a variable or a field path; the receiver of a method call is written back when it is one *)
Fixpoint is_place (e : expr) : bool :=
  match e with EVar _ => true | EField e' _ => is_place e' | _ => false end.
(* an argument expression into which a written-back slice parameter can be stored: a place or a segment of one *)
Fixpoint is_lplace (e : expr) : bool :=
  match e with EVar _ => true | EField e' _ => is_lplace e' | ESlice e' _ _ => is_lplace e' | _ => false end.

Definition ret_val (vs : list val) : val :=
  match vs with [v] => v | _ => VTuple vs end.

(* inside a function a panic carries the environment; out of a call it carries the receiver as the callee
   left it (which the caller writes back before it passes the panic on) *)
Definition eres (X : Type) := res env X.
Definition cres := res val (val * val).

Fixpoint bind_all (xs : list ident) (vs : list val) (en : env) : option env :=
  match xs, vs with
  | [], [] => Some en
  | x :: xs', v :: vs' => bind_all xs' vs' (set x v en)
  | _, _ => None
  end.

(* the values assigned by "lhs1, .., lhsn = rhs..": n values, or one call returning an n-tuple *)
Definition spread (n : nat) (vs : list val) : option (list val) :=
  if length vs =? n then Some vs
  else match vs with [VTuple l] => if length l =? n then Some l else None | _ => None end.

(* The interpreter is written with open recursion: the functions below take the interpreter "one
   level down" as a record [r] of four callbacks and are not recursive themselves, except for
   structural recursion over lists of expressions / statements / cases / elements.  [interp_at]
   ties the knot on the fuel.  (Proofs unfold one level at a time; a mutual fixpoint of this size is
   very slow to unfold.) *)
Record interp := {
  i_eval : expr -> env -> eres (val * env);
  i_assign : expr -> val -> env -> eres env;
  i_exec : stmt -> env -> eres (sig * env);
  i_loop : option expr -> option stmt -> list stmt -> env -> eres (sig * env);
  i_call : val -> ident -> list val -> cres
}.

Section Step.
Variable r : interp.   (* the interpreter one level down *)

Fixpoint evals (es : list expr) (en : env) : eres (list val * env) :=
  match es with
  | [] => ROk ([], en)
  | e :: t => do (v, en1) <- i_eval r e en; do (vs, en2) <- evals t en1; ROk (v :: vs, en2)
  end.

(* the fields of a composite literal, over the zero values of the declared fields *)
Fixpoint fields (fs : list (ident * expr)) (acc : list (ident * val)) (en : env) : eres (list (ident * val) * env) :=
  match fs with
  | [] => ROk (acc, en)
  | (x, e) :: t =>
    do (v, en1) <- i_eval r e en;
    match lookup x acc with Some _ => fields t (set x v acc) en1 | None => RStuck end
  end.

Fixpoint assigns (lhs : list expr) (vs : list val) (en : env) : eres env :=
  match lhs, vs with
  | [], [] => ROk en
  | t :: lhs', v :: vs' => do en1 <- i_assign r t v en; assigns lhs' vs' en1
  | _, _ => RStuck
  end.

Fixpoint execs (ss : list stmt) (en : env) : eres (sig * env) :=
  match ss with
  | [] => ROk (SgNormal, en)
  | s :: t =>
    do (sg, en1) <- i_exec r s en;
    match sg with SgNormal => execs t en1 | _ => ROk (sg, en1) end
  end.

(* does the tag equal one of the case expressions (evaluated in order, as far as needed)? *)
Fixpoint matches (tv : val) (es : list expr) (en : env) : eres (bool * env) :=
  match es with
  | [] => ROk (false, en)
  | e :: t =>
    do (v, en1) <- i_eval r e en;
    do b <- at_state en1 (arith BEq tv v);
    match b with VBool true => ROk (true, en1) | _ => matches tv t en1 end
  end.

(* the body of the first matching case; the default when there is none *)
Fixpoint select (tv : val) (cases : list (option (list expr) * list stmt)) (dflt : option (list stmt)) (en : env)
  : eres (list stmt * env) :=
  match cases with
  | [] => ROk (match dflt with Some b => b | None => [] end, en)
  | (None, body) :: t => select tv t (Some body) en
  | (Some es, body) :: t =>
    do (hit, en1) <- matches tv es en;
    if hit then ROk (body, en1) else select tv t dflt en1
  end.

(* for k, x := range l *)
Fixpoint range (k x : option ident) (l : list val) (i : Z) (body : list stmt) (en : env) : eres (sig * env) :=
  match l with
  | [] => ROk (SgNormal, en)
  | w :: t =>
    let en1 := match k with Some k' => set k' (VInt i) en | None => en end in
    let en2 := match x with Some x' => set x' w en1 | None => en1 end in
    do (sg, en3) <- execs body en2;
    match sg with
    | SgBreak => ROk (SgNormal, en3)
    | SgReturn _ => ROk (sg, en3)
    | _ => range k x t (i + 1) body en3
    end
  end.

Definition un_wb (rv : val) : val * list (nat * val) :=
  match rv with VWb r wbs => (r, wbs) | _ => (rv, []) end.
(* after a call: store the written-back slice parameters into the argument expressions that are places *)
Fixpoint store_wbs (args : list expr) (wbs : list (nat * val)) (en : env) : eres env :=
  match wbs with
  | [] => ROk en
  | (p, w) :: t =>
    match nth_error args (Nat.pred p) with
    | Some a =>
      if is_lplace a then
        (* the elements come back; what the place holds stays the kind of slice it was (its name, its tag) *)
        do (cur, _) <- i_eval r a en;
        match as_slice w with
        | Some l => do en1 <- i_assign r a (re_slice cur l) en; store_wbs args t en1
        | None => RStuck
        end
      else store_wbs args t en
    | None => RStuck
    end
  end.

Definition eval_step (e : expr) (en : env) : eres (val * env) :=
  let eval := i_eval r in
  match e with
  | EInt z => ROk (VInt z, en)
  | EBool b => ROk (VBool b, en)
  | ENil => ROk (VNil, en)
  | EVar x => match lookup x en with Some v => ROk (v, en) | None => RStuck end
  | EField e' fld =>
    do (v, en1) <- eval e' en;
    match v with
    | VObj _ fs => match lookup fld fs with Some w => ROk (w, en1) | None => RStuck end
    | _ => RStuck
    end
  | EBin BAnd a b =>
    do (va, en1) <- eval a en;
    match va with
    | VBool false => ROk (VBool false, en1)
    | VBool true => do (vb, en2) <- eval b en1; match vb with VBool _ => ROk (vb, en2) | _ => RStuck end
    | _ => RStuck
    end
  | EBin BOr a b =>
    do (va, en1) <- eval a en;
    match va with
    | VBool true => ROk (VBool true, en1)
    | VBool false => do (vb, en2) <- eval b en1; match vb with VBool _ => ROk (vb, en2) | _ => RStuck end
    | _ => RStuck
    end
  | EBin op a b =>
    do (va, en1) <- eval a en;
    do (vb, en2) <- eval b en1;
    do x <- at_state en2 (arith op va vb); ROk (x, en2)
  | EUn UNeg a => do (va, en1) <- eval a en; match va with VInt x => ROk (VInt (- x), en1) | _ => RStuck end
  | EUn UNot a => do (va, en1) <- eval a en; match va with VBool x => ROk (VBool (negb x), en1) | _ => RStuck end
  | ELen e' =>
    do (v, en1) <- eval e' en;
    match as_slice v with Some l => ROk (VInt (Z.of_nat (length l)), en1) | None => RStuck end
  | EIndex e' i =>
    do (v, en1) <- eval e' en;
    do (vi, en2) <- eval i en1;
    match as_slice v, vi with
    | Some l, VInt z => match zidx l z with Some w => ROk (w, en2) | None => RPanic en2 end
    | _, _ => RStuck
    end
  | ESlice e' lo hi =>
    do (v, en1) <- eval e' en;
    do (vlo, en2) <- match lo with Some x => eval x en1 | None => ROk (VInt 0, en1) end;
    match as_slice v with
    | Some l =>
      do (vhi, en3) <- match hi with Some x => eval x en2 | None => ROk (VInt (Z.of_nat (length l)), en2) end;
      match vlo, vhi with
      | VInt a, VInt b => match zsub l a b with Some l' => ROk (re_slice v l', en3) | None => RPanic en3 end
      | _, _ => RStuck
      end
    | None => RStuck
    end
  | EMake zk n =>
    do (vn, en1) <- eval n en;
    match vn with
    | VInt z => if (z <? 0)%Z || (two63 <=? z)%Z then RPanic en1
                else ROk (VSlice (repeat (zero_of zk) (Z.to_nat z)), en1)
    | _ => RStuck
    end
  | ECopy dst src =>
    do (vd, en1) <- eval dst en;
    do (vs, en2) <- eval src en1;
    match as_slice vd, as_slice vs with
    | Some ld, Some ls =>
      do en3 <- i_assign r dst (re_slice vd (zcopy ld ls)) en2;
      ROk (VInt (Z.of_nat (Nat.min (length ld) (length ls))), en3)
    | _, _ => RStuck
    end
  | EAppend s args =>
    do (vs, en1) <- eval s en;
    do (vas, en2) <- evals args en1;
    match as_slice vs with Some l => ROk (re_slice vs (l ++ vas), en2) | None => RStuck end
  | EToInt e' =>
    do (v, en1) <- eval e' en;
    match v with VInt z => ROk (VInt (if (two63 <=? z)%Z then z - two64 else z), en1) | _ => RStuck end
  | EToUint e' =>
    do (v, en1) <- eval e' en;
    match v with VInt z => ROk (VInt (if (z <? 0)%Z then z + two64 else z), en1) | _ => RStuck end
  | EConv t e' =>
    do (v, en1) <- eval e' en;
    match as_slice v with Some l => ROk (VNamed t (VSlice l), en1) | None => RStuck end
  | EClass c args => do (_, en1) <- evals args en; ROk (VObj c [], en1)
  | ENew t fs =>
    match lookup t (p_structs prog) with
    | Some decl => do (fv, en1) <- fields fs (map (fun d => (fst d, zero_of (snd d))) decl) en; ROk (VObj t fv, en1)
    | None => RStuck
    end
  | ECall rc m args =>
    do (rv0, en1) <- eval rc en;
    do (avs, en2) <- evals args en1;
    if is_place rc then
      (* the receiver is re-read after the arguments (it is a pointer, or a slice sharing its elements),
         and the callee's final receiver value is written back *)
      do (rv, _) <- eval rc en2;
      match i_call r rv m avs with
      | ROk (out, rv') => do en3 <- i_assign r rc (fst (un_wb rv')) en2; do en4 <- store_wbs args (snd (un_wb rv')) en3; ROk (out, en4)
      | RPanic rv' => do en3 <- i_assign r rc rv' en2; RPanic en3      (* what the callee had done stays done *)
      | RStuck => RStuck
      | RFuel => RFuel
      end
    else
      do (out, rv') <- at_state en2 (i_call r rv0 m avs); do en3 <- store_wbs args (snd (un_wb rv')) en2; ROk (out, en3)
  | EMethVal rc m => do (rv, en1) <- eval rc en; ROk (VMeth rv m, en1)
  | ECallVal fn args =>
    do (fv, en1) <- eval fn en;
    do (avs, en2) <- evals args en1;
    match fv with
    | VMeth rv m => do (out, rv') <- at_state en2 (i_call r rv m avs); do en3 <- store_wbs args (snd (un_wb rv')) en2; ROk (out, en3)
    | _ => RStuck
    end
  end.

(* store v into the place / element / segment denoted by the target expression *)
Definition assign_step (target : expr) (v : val) (en : env) : eres env :=
  let eval := i_eval r in
  let assign := i_assign r in
  match target with
  | EVar x => match lookup x en with Some _ => ROk (set x v en) | None => RStuck end
  | EField t fld =>
    do (tv, en1) <- eval t en;
    match tv with
    | VObj ty fs => match lookup fld fs with Some _ => assign t (VObj ty (set fld v fs)) en1 | None => RStuck end
    | _ => RStuck
    end
  | EIndex t i =>
    do (tv, en1) <- eval t en;
    do (vi, en2) <- eval i en1;
    match as_slice tv, vi with
    | Some l, VInt z => match zset l z v with Some l' => assign t (re_slice tv l') en2 | None => RPanic en2 end
    | _, _ => RStuck
    end
  | ESlice t lo hi =>
    do (tv, en1) <- eval t en;
    do (vlo, en2) <- match lo with Some x => eval x en1 | None => ROk (VInt 0, en1) end;
    match as_slice tv, as_slice v with
    | Some l, Some seg =>
      do (vhi, en3) <- match hi with Some x => eval x en2 | None => ROk (VInt (Z.of_nat (length l)), en2) end;
      match vlo, vhi with
      | VInt a, VInt b =>
        match zsub l a b with
        | Some old => if length old =? length seg then assign t (re_slice tv (zsplice l a b seg)) en3 else RStuck
        | None => RPanic en3
        end
      | _, _ => RStuck
      end
    | _, _ => RStuck
    end
  | _ => RStuck
  end.

Definition exec_step (s : stmt) (en : env) : eres (sig * env) :=
  let eval := i_eval r in
  let assign := i_assign r in
  let exec := i_exec r in
  match s with
  | SVar xs (Some zk) [] =>
    ROk (SgNormal, fold_left (fun e x => set x (zero_of zk) e) xs en)
  | SVar xs _ init =>
    do (vs, en1) <- evals init en;
    match spread (length xs) vs with
    | Some ws => match bind_all xs ws en1 with Some en2 => ROk (SgNormal, en2) | None => RStuck end
    | None => RStuck
    end
  | SAssign lhs rhs =>
    do (vs, en1) <- evals rhs en;
    match spread (length lhs) vs with
    | Some ws => do en2 <- assigns lhs ws en1; ROk (SgNormal, en2)
    | None => RStuck
    end
  | SOpAssign op lhs rhs =>
    do (a, en1) <- eval lhs en;
    do (b, en2) <- eval rhs en1;
    do x <- at_state en2 (arith op a b);
    do en3 <- assign lhs x en2; ROk (SgNormal, en3)
  | SIncDec inc lhs =>
    do (a, en1) <- eval lhs en;
    do x <- at_state en1 (arith (if inc then BAdd else BSub) a (VInt 1));
    do en2 <- assign lhs x en1; ROk (SgNormal, en2)
  | SIf c th el =>
    do (vc, en1) <- eval c en;
    match vc with
    | VBool true => execs th en1
    | VBool false => execs el en1
    | _ => RStuck
    end
  | SSwitch tag cases =>
    do (tv, en1) <- match tag with Some t => eval t en | None => ROk (VBool true, en) end;
    do (body, en2) <- select tv cases None en1;
    do (sg, en3) <- execs body en2;
    ROk (match sg with SgBreak => SgNormal | _ => sg end, en3)
  | SFor init c post body =>
    do (_, en1) <- match init with Some i => exec i en | None => ROk (SgNormal, en) end;
    i_loop r c post body en1
  | SRange k x e body =>
    do (v, en1) <- eval e en;
    match as_slice v with Some l => range k x l 0 body en1 | None => RStuck end
  | SReturn es => do (vs, en1) <- evals es en; ROk (SgReturn (ret_val vs), en1)
  | SPanic => RPanic en
  | SExpr e => do (_, en1) <- eval e en; ROk (SgNormal, en1)
  | SBlock b => execs b en
  | SBreak => ROk (SgBreak, en)
  | SContinue => ROk (SgContinue, en)
  end.

(* for c; post { body }: one iteration, then [again] (one unit of fuel per iteration) *)
Definition loop_step (again : env -> eres (sig * env)) (c : option expr) (post : option stmt) (body : list stmt) (en : env)
  : eres (sig * env) :=
  do (vc, en1) <- match c with Some c' => i_eval r c' en | None => ROk (VBool true, en) end;
  match vc with
  | VBool false => ROk (SgNormal, en1)
  | VBool true =>
    do (sg, en2) <- execs body en1;
    match sg with
    | SgBreak => ROk (SgNormal, en2)
    | SgReturn _ => ROk (sg, en2)
    | _ =>
      do (_, en3) <- match post with Some p => i_exec r p en2 | None => ROk (SgNormal, en2) end;
      again en3
    end
  | _ => RStuck
  end.

(* run method m of the dynamic type of recv: (result, final receiver value) *)
Definition call_step (recv : val) (m : ident) (args : list val) : cres :=
  match type_of recv with
  | None => RStuck
  | Some t =>
    match find_fn (p_fns prog) t m with
    | Some fd =>
      match bind_all (fn_params fd) (tag_args (fn_wb fd) 1 args) [(fn_recv fd, recv)] with
      | None => RStuck
      | Some en0 =>
        match execs (fn_body fd) en0 with
        | ROk (sg, en1) =>
          match lookup (fn_recv fd) en1 with
          | None => RStuck
          | Some recv' =>
            match sg with
            | SgNormal => match with_wb (fn_wb fd) recv' en1 with Some r => ROk (VTuple [], r) | None => RStuck end
            | SgReturn v => match with_wb (fn_wb fd) recv' en1 with Some r => ROk (v, r) | None => RStuck end
            | _ => RStuck
            end
          end
        | RPanic en1 => match lookup (fn_recv fd) en1 with Some recv' => RPanic recv' | None => RStuck end
        | RStuck => RStuck
        | RFuel => RFuel
        end
      end
    | None => match ext t m recv args with Some v => ROk (v, recv) | None => RStuck end
    end
  end.
End Step.

Definition bottom : interp :=
  {| i_eval := fun _ _ => RFuel; i_assign := fun _ _ _ => RFuel; i_exec := fun _ _ => RFuel;
     i_loop := fun _ _ _ _ => RFuel; i_call := fun _ _ _ => RFuel |}.

(* Tying the knot.  fuel = nesting depth of expressions and statements + loop iterations + call depth. *)
Fixpoint interp_at (fuel : nat) : interp :=
  match fuel with
  | 0 => bottom
  | S f =>
    let r := interp_at f in
    {| i_eval := eval_step r; i_assign := assign_step r; i_exec := exec_step r;
       i_loop := fun c post body => loop_step r (i_loop r c post body) c post body;
       i_call := call_step r |}
  end.

Definition call_at (fuel : nat) := i_call (interp_at fuel).

(* what the theorems talk about: outcome of calling method m on recv with args.
   A stuck execution (ill-typed for this interpreter) is reported as [Hang], like running out of
   fuel: every theorem excludes [Hang], hence both. *)
Definition run_method (fuel : nat) (recv : val) (m : ident) (args : list val) : out (val * val) :=
  match call_at fuel recv m args with
  | ROk r => Ret r
  | RPanic _ => Panic
  | RStuck => Hang
  | RFuel => Hang
  end.

(* the same with the receiver as a panicking call leaves it: [None] unless the call panics *)
Definition panic_state (fuel : nat) (recv : val) (m : ident) (args : list val) : option val :=
  match call_at fuel recv m args with RPanic r => Some r | _ => None end.

End Interp.

Arguments VInt {A}. Arguments VBool {A}. Arguments VElem {A}. Arguments VNil {A}. Arguments VSlice {A}.
Arguments VObj {A}. Arguments VNamed {A}. Arguments VTuple {A}. Arguments VMeth {A}. Arguments VTag {A}. Arguments VWb {A}.
(* proofs unfold the interpreter one level at a time, by rewriting (GenLib.v) *)
Arguments interp_at : simpl never.
Arguments i_eval {A}. Arguments i_assign {A}. Arguments i_exec {A}. Arguments i_loop {A}. Arguments i_call {A}.
Arguments SgNormal {A}. Arguments SgReturn {A}. Arguments SgBreak {A}. Arguments SgContinue {A}.
