(* MiniGo.v — a small deep-embedded imperative language and its fuelled big-step interpreter.
   tools/gotrans (a Go program using go/parser) translates selected functions and methods of the
   library into terms of this language (coq/GenSrc.v, regenerated on every run); this file says, once
   and by hand, what those terms mean.  It is part of the trusted base: keep it small and readable.
   Definitions only (no proofs of properties).

   Deliberate simplifications (see docs/gotrans.md):
   * [int] and [uint] are unbounded [Z]: overflow is NOT modelled.  Only the conversions [uint(e)] /
     [int(e)] wrap (two's complement, 64 bit), because the code relies on them to go through.
   * slices have VALUE semantics: a slice is the list of its elements.  An element assignment
     [x[i] = e], [copy(dst, src)] and a method call [x.m(..)] update the VARIABLE OR FIELD PATH [x]
     that holds the slice / the receiver (the callee's final receiver value is written back).  This
     agrees with Go as long as no two live names share a backing array or a pointee while one of
     them is written; the translator refuses functions where that could happen.  Capacity is not
     modelled: [append] is always "copy and extend".
   * the argument of [panic] is ignored: every panic is the outcome [Panic].
   * the type parameter V is an opaque element type [A] with zero value [zero]; an interface value is
     the value it holds (objects carry their type name, which is what a method call dispatches on).
   * declarations are function-scoped (the translator refuses a declaration that shadows a visible
     name, so block scoping cannot be observed).
   * fuel is a DEPTH: every recursive call of the interpreter passes [fuel-1] down; a loop re-enters
     itself with one unit less per iteration.  Out of fuel is [RFuel]. *)
From Verif Require Import Base.
From Coq Require Import PArith.

Definition ident := positive.

Inductive binop := BAdd | BSub | BMul | BQuo | BRem | BEq | BNe | BLt | BLe | BGt | BGe | BAnd | BOr.
Inductive unop := UNeg | UNot.
(* the zero value of a declared type, decided syntactically by the translator:
   int/uint, bool, the type parameter, a slice type, anything else (interfaces, pointers: nil) *)
Inductive zkind := ZInt | ZBool | ZElem | ZSlice | ZNil.

Inductive expr :=
| EInt (z : Z)
| EBool (b : bool)
| ENil
| EVar (x : ident)
| EField (e : expr) (f : ident)                       (* e.f_ *)
| EBin (op : binop) (a b : expr)                      (* && and || short-circuit *)
| EUn (op : unop) (a : expr)
| ELen (e : expr)
| EIndex (e i : expr)                                 (* e[i] *)
| ESlice (e : expr) (lo hi : option expr)             (* e[lo:hi] *)
| EMake (zk : zkind) (n : expr)                       (* make([]T, n) *)
| ECopy (dst src : expr)                              (* copy(dst, src): dst must be a place *)
| EAppend (s : expr) (args : list expr)               (* append(s, a1, ..) *)
| EToInt (e : expr)                                   (* int(e) *)
| EToUint (e : expr)                                  (* uint(e) *)
| EConv (t : ident) (e : expr)                        (* T[V](e), T a named slice type *)
| EClass (c : ident) (args : list expr)               (* Array[V](n): the class object of class type c *)
| ENew (t : ident) (fs : list (ident * expr))         (* &T[V]{f: e, ..} *)
| ECall (recv : expr) (m : ident) (args : list expr)  (* recv.m(args), dispatched on recv's dynamic type *)
| EMethVal (recv : expr) (m : ident)                  (* recv.m without call: a method value *)
| ECallVal (fn : expr) (args : list expr).            (* f(args) where f holds a method value *)

Inductive stmt :=
| SVar (xs : list ident) (zk : option zkind) (init : list expr)   (* var x T | var x = e | x := e | a, b := f() *)
| SAssign (lhs rhs : list expr)
| SOpAssign (op : binop) (lhs rhs : expr)
| SIncDec (inc : bool) (lhs : expr)
| SIf (c : expr) (th el : list stmt)
| SSwitch (tag : option expr) (cases : list (option (list expr) * list stmt))   (* None = default *)
| SFor (init : option stmt) (c : option expr) (post : option stmt) (body : list stmt)
| SRange (k v : option ident) (e : expr) (body : list stmt)      (* for k, v := range e *)
| SReturn (es : list expr)
| SPanic
| SExpr (e : expr)
| SBlock (b : list stmt)
| SBreak
| SContinue.

Record fndef := { fn_recv : ident; fn_params : list ident; fn_body : list stmt }.
(* a program: methods keyed by (receiver type name, method name); struct declarations *)
Record program := {
  p_fns : list ((ident * ident) * fndef);
  p_structs : list (ident * list (ident * zkind))
}.

Inductive res (X : Type) := ROk (x : X) | RPanic | RStuck | RFuel.
Arguments ROk {X} x. Arguments RPanic {X}. Arguments RStuck {X}. Arguments RFuel {X}.
Definition rbind {X Y} (r : res X) (k : X -> res Y) : res Y :=
  match r with ROk x => k x | RPanic => RPanic | RStuck => RStuck | RFuel => RFuel end.
Notation "'do' x <- r ; k" := (rbind r (fun x => k)) (at level 200, x pattern, r at level 100, k at level 200).

Definition two64 : Z := 18446744073709551616.
Definition two63 : Z := 9223372036854775808.

Section Interp.
Variable A : Type.
Variable zero : A.

Inductive val :=
| VInt (z : Z)
| VBool (b : bool)
| VElem (a : A)                               (* a value of the type parameter *)
| VNil
| VSlice (l : list val)
| VObj (t : ident) (fs : list (ident * val))  (* (pointer to) a struct of type t *)
| VNamed (t : ident) (v : val)                (* a value of the named non-struct type t *)
| VTuple (l : list val)                       (* results of a call: [] for none *)
| VMeth (recv : val) (m : ident).             (* method value *)

Definition env := list (ident * val).
Inductive sig := SgNormal | SgReturn (v : val) | SgBreak | SgContinue.

(* externals: methods of types that are not translated (e.g. the collator's CompareValues /
   RankValues): a pure function of the receiver and the arguments *)
Variable ext : ident -> ident -> val -> list val -> option val.
Variable prog : program.

Fixpoint lookup {X} (x : ident) (l : list (ident * X)) : option X :=
  match l with
  | [] => None
  | (y, v) :: t => if Pos.eqb x y then Some v else lookup x t
  end.
(* update the binding of x, or add one at the end *)
Fixpoint set {X} (x : ident) (v : X) (l : list (ident * X)) : list (ident * X) :=
  match l with
  | [] => [(x, v)]
  | (y, w) :: t => if Pos.eqb x y then (y, v) :: t else (y, w) :: set x v t
  end.
Fixpoint find_fn (l : list ((ident * ident) * fndef)) (t m : ident) : option fndef :=
  match l with
  | [] => None
  | ((t', m'), fd) :: r => if Pos.eqb t t' && Pos.eqb m m' then Some fd else find_fn r t m
  end.

Definition zero_of (zk : zkind) : val :=
  match zk with ZInt => VInt 0 | ZBool => VBool false | ZElem => VElem zero | ZSlice => VSlice [] | ZNil => VNil end.

Definition as_slice (v : val) : option (list val) :=
  match v with VSlice l => Some l | VNamed _ (VSlice l) => Some l | _ => None end.
Definition re_slice (v : val) (l : list val) : val :=
  match v with VNamed t _ => VNamed t (VSlice l) | _ => VSlice l end.
Definition type_of (v : val) : option ident :=
  match v with VObj t _ => Some t | VNamed t _ => Some t | _ => None end.

(* x[i]: None = index out of range *)
Definition zidx (l : list val) (i : Z) : option val :=
  if (i <? 0)%Z then None else nth_error l (Z.to_nat i).
Definition zset (l : list val) (i : Z) (v : val) : option (list val) :=
  if (i <? 0)%Z || (Z.of_nat (length l) <=? i)%Z then None else Some (set_nth (Z.to_nat i) v l).
(* l[lo:hi] (0 <= lo <= hi <= len, else None); capacity = length *)
Definition zsub (l : list val) (lo hi : Z) : option (list val) :=
  if (lo <? 0)%Z || (hi <? lo)%Z || (Z.of_nat (length l) <? hi)%Z then None
  else Some (firstn (Z.to_nat (hi - lo)) (skipn (Z.to_nat lo) l)).
(* copy(dst, src) into a list: the first min(len dst, len src) values *)
Definition zcopy (dst src : list val) : list val :=
  firstn (length dst) src ++ skipn (length src) dst.
(* replace l[lo:hi] by seg (same length) *)
Definition zsplice (l : list val) (lo hi : Z) (seg : list val) : list val :=
  firstn (Z.to_nat lo) l ++ seg ++ skipn (Z.to_nat hi) l.

Definition arith (op : binop) (a b : val) : res val :=
  match op, a, b with
  | BAdd, VInt x, VInt y => ROk (VInt (x + y))
  | BSub, VInt x, VInt y => ROk (VInt (x - y))
  | BMul, VInt x, VInt y => ROk (VInt (x * y))
  | BQuo, VInt x, VInt y => if (y =? 0)%Z then RPanic else ROk (VInt (Z.quot x y))
  | BRem, VInt x, VInt y => if (y =? 0)%Z then RPanic else ROk (VInt (Z.rem x y))
  | BEq, VInt x, VInt y => ROk (VBool (x =? y)%Z)
  | BNe, VInt x, VInt y => ROk (VBool (negb (x =? y)%Z))
  | BLt, VInt x, VInt y => ROk (VBool (x <? y)%Z)
  | BLe, VInt x, VInt y => ROk (VBool (x <=? y)%Z)
  | BGt, VInt x, VInt y => ROk (VBool (y <? x)%Z)
  | BGe, VInt x, VInt y => ROk (VBool (y <=? x)%Z)
  | BEq, VBool x, VBool y => ROk (VBool (Bool.eqb x y))
  | BNe, VBool x, VBool y => ROk (VBool (negb (Bool.eqb x y)))
  | _, _, _ => RStuck
  end.

(* a place: a variable or a field path; the receiver of a method call is written back when it is one *)
Fixpoint is_place (e : expr) : bool :=
  match e with EVar _ => true | EField e' _ => is_place e' | _ => false end.

Definition ret_val (vs : list val) : val :=
  match vs with [v] => v | _ => VTuple vs end.

Fixpoint bind_all (xs : list ident) (vs : list val) (en : env) : option env :=
  match xs, vs with
  | [], [] => Some en
  | x :: xs', v :: vs' => bind_all xs' vs' (set x v en)
  | _, _ => None
  end.

(* the values assigned by "lhs1, .., lhsn = rhs..": n values, or one call returning an n-tuple *)
Definition spread (n : nat) (vs : list val) : option (list val) :=
  if length vs =? n then Some vs
  else match vs with [VTuple l] => if length l =? n then Some l else None | _ => None end.

Fixpoint eval (fuel : nat) (e : expr) (en : env) {struct fuel} : res (val * env) :=
  match fuel with 0 => RFuel | S f =>
  match e with
  | EInt z => ROk (VInt z, en)
  | EBool b => ROk (VBool b, en)
  | ENil => ROk (VNil, en)
  | EVar x => match lookup x en with Some v => ROk (v, en) | None => RStuck end
  | EField e' fld =>
    do (v, en1) <- eval f e' en;
    match v with
    | VObj _ fs => match lookup fld fs with Some w => ROk (w, en1) | None => RStuck end
    | _ => RStuck
    end
  | EBin BAnd a b =>
    do (va, en1) <- eval f a en;
    match va with
    | VBool false => ROk (VBool false, en1)
    | VBool true => do (vb, en2) <- eval f b en1; match vb with VBool _ => ROk (vb, en2) | _ => RStuck end
    | _ => RStuck
    end
  | EBin BOr a b =>
    do (va, en1) <- eval f a en;
    match va with
    | VBool true => ROk (VBool true, en1)
    | VBool false => do (vb, en2) <- eval f b en1; match vb with VBool _ => ROk (vb, en2) | _ => RStuck end
    | _ => RStuck
    end
  | EBin op a b =>
    do (va, en1) <- eval f a en;
    do (vb, en2) <- eval f b en1;
    do r <- arith op va vb; ROk (r, en2)
  | EUn UNeg a => do (va, en1) <- eval f a en; match va with VInt x => ROk (VInt (- x), en1) | _ => RStuck end
  | EUn UNot a => do (va, en1) <- eval f a en; match va with VBool x => ROk (VBool (negb x), en1) | _ => RStuck end
  | ELen e' =>
    do (v, en1) <- eval f e' en;
    match as_slice v with Some l => ROk (VInt (Z.of_nat (length l)), en1) | None => RStuck end
  | EIndex e' i =>
    do (v, en1) <- eval f e' en;
    do (vi, en2) <- eval f i en1;
    match as_slice v, vi with
    | Some l, VInt z => match zidx l z with Some w => ROk (w, en2) | None => RPanic end
    | _, _ => RStuck
    end
  | ESlice e' lo hi =>
    do (v, en1) <- eval f e' en;
    do (vlo, en2) <- match lo with Some x => eval f x en1 | None => ROk (VInt 0, en1) end;
    match as_slice v with
    | Some l =>
      do (vhi, en3) <- match hi with Some x => eval f x en2 | None => ROk (VInt (Z.of_nat (length l)), en2) end;
      match vlo, vhi with
      | VInt a, VInt b => match zsub l a b with Some l' => ROk (re_slice v l', en3) | None => RPanic end
      | _, _ => RStuck
      end
    | None => RStuck
    end
  | EMake zk n =>
    do (vn, en1) <- eval f n en;
    match vn with
    | VInt z => if (z <? 0)%Z || (two63 <=? z)%Z then RPanic
                else ROk (VSlice (repeat (zero_of zk) (Z.to_nat z)), en1)
    | _ => RStuck
    end
  | ECopy dst src =>
    do (vd, en1) <- eval f dst en;
    do (vs, en2) <- eval f src en1;
    match as_slice vd, as_slice vs with
    | Some ld, Some ls =>
      do en3 <- assign f dst (re_slice vd (zcopy ld ls)) en2;
      ROk (VInt (Z.of_nat (Nat.min (length ld) (length ls))), en3)
    | _, _ => RStuck
    end
  | EAppend s args =>
    do (vs, en1) <- eval f s en;
    do (vas, en2) <- evals f args en1;
    match as_slice vs with Some l => ROk (re_slice vs (l ++ vas), en2) | None => RStuck end
  | EToInt e' =>
    do (v, en1) <- eval f e' en;
    match v with VInt z => ROk (VInt (if (two63 <=? z)%Z then z - two64 else z), en1) | _ => RStuck end
  | EToUint e' =>
    do (v, en1) <- eval f e' en;
    match v with VInt z => ROk (VInt (if (z <? 0)%Z then z + two64 else z), en1) | _ => RStuck end
  | EConv t e' =>
    do (v, en1) <- eval f e' en;
    match as_slice v with Some l => ROk (VNamed t (VSlice l), en1) | None => RStuck end
  | EClass c args => do (_, en1) <- evals f args en; ROk (VObj c [], en1)
  | ENew t fs =>
    match lookup t (p_structs prog) with
    | Some decl => do (fv, en1) <- fields f fs (map (fun d => (fst d, zero_of (snd d))) decl) en; ROk (VObj t fv, en1)
    | None => RStuck
    end
  | ECall r m args =>
    do (rv0, en1) <- eval f r en;
    do (avs, en2) <- evals f args en1;
    if is_place r then
      (* the receiver is re-read after the arguments (it is a pointer, or a slice sharing its elements),
         and the callee's final receiver value is written back *)
      do (rv, _) <- eval f r en2;
      do (out, rv') <- call f rv m avs;
      do en3 <- assign f r rv' en2;
      ROk (out, en3)
    else
      do (out, _) <- call f rv0 m avs; ROk (out, en2)
  | EMethVal r m => do (rv, en1) <- eval f r en; ROk (VMeth rv m, en1)
  | ECallVal fn args =>
    do (fv, en1) <- eval f fn en;
    do (avs, en2) <- evals f args en1;
    match fv with
    | VMeth rv m => do (out, _) <- call f rv m avs; ROk (out, en2)
    | _ => RStuck
    end
  end end

with evals (fuel : nat) (es : list expr) (en : env) {struct fuel} : res (list val * env) :=
  match fuel with 0 => RFuel | S f =>
  match es with
  | [] => ROk ([], en)
  | e :: t => do (v, en1) <- eval f e en; do (vs, en2) <- evals f t en1; ROk (v :: vs, en2)
  end end

(* the fields of a composite literal, over the zero values of the declared fields *)
with fields (fuel : nat) (fs : list (ident * expr)) (acc : list (ident * val)) (en : env) {struct fuel}
  : res (list (ident * val) * env) :=
  match fuel with 0 => RFuel | S f =>
  match fs with
  | [] => ROk (acc, en)
  | (x, e) :: t =>
    do (v, en1) <- eval f e en;
    match lookup x acc with Some _ => fields f t (set x v acc) en1 | None => RStuck end
  end end

(* store v into the place / element / segment denoted by the target expression *)
with assign (fuel : nat) (target : expr) (v : val) (en : env) {struct fuel} : res env :=
  match fuel with 0 => RFuel | S f =>
  match target with
  | EVar x => match lookup x en with Some _ => ROk (set x v en) | None => RStuck end
  | EField t fld =>
    do (tv, en1) <- eval f t en;
    match tv with
    | VObj ty fs => match lookup fld fs with Some _ => assign f t (VObj ty (set fld v fs)) en1 | None => RStuck end
    | _ => RStuck
    end
  | EIndex t i =>
    do (tv, en1) <- eval f t en;
    do (vi, en2) <- eval f i en1;
    match as_slice tv, vi with
    | Some l, VInt z => match zset l z v with Some l' => assign f t (re_slice tv l') en2 | None => RPanic end
    | _, _ => RStuck
    end
  | ESlice t lo hi =>
    do (tv, en1) <- eval f t en;
    do (vlo, en2) <- match lo with Some x => eval f x en1 | None => ROk (VInt 0, en1) end;
    match as_slice tv, as_slice v with
    | Some l, Some seg =>
      do (vhi, en3) <- match hi with Some x => eval f x en2 | None => ROk (VInt (Z.of_nat (length l)), en2) end;
      match vlo, vhi with
      | VInt a, VInt b =>
        match zsub l a b with
        | Some old => if length old =? length seg then assign f t (re_slice tv (zsplice l a b seg)) en3 else RStuck
        | None => RPanic
        end
      | _, _ => RStuck
      end
    | _, _ => RStuck
    end
  | _ => RStuck
  end end

with exec (fuel : nat) (s : stmt) (en : env) {struct fuel} : res (sig * env) :=
  match fuel with 0 => RFuel | S f =>
  match s with
  | SVar xs (Some zk) [] =>
    ROk (SgNormal, fold_left (fun e x => set x (zero_of zk) e) xs en)
  | SVar xs _ init =>
    do (vs, en1) <- evals f init en;
    match spread (length xs) vs with
    | Some ws => match bind_all xs ws en1 with Some en2 => ROk (SgNormal, en2) | None => RStuck end
    | None => RStuck
    end
  | SAssign lhs rhs =>
    do (vs, en1) <- evals f rhs en;
    match spread (length lhs) vs with
    | Some ws => do en2 <- assigns f lhs ws en1; ROk (SgNormal, en2)
    | None => RStuck
    end
  | SOpAssign op lhs rhs =>
    do (a, en1) <- eval f lhs en;
    do (b, en2) <- eval f rhs en1;
    do r <- arith op a b;
    do en3 <- assign f lhs r en2; ROk (SgNormal, en3)
  | SIncDec inc lhs =>
    do (a, en1) <- eval f lhs en;
    do r <- arith (if inc then BAdd else BSub) a (VInt 1);
    do en2 <- assign f lhs r en1; ROk (SgNormal, en2)
  | SIf c th el =>
    do (vc, en1) <- eval f c en;
    match vc with
    | VBool true => execs f th en1
    | VBool false => execs f el en1
    | _ => RStuck
    end
  | SSwitch tag cases =>
    do (tv, en1) <- match tag with Some t => eval f t en | None => ROk (VBool true, en) end;
    do (body, en2) <- select f tv cases None en1;
    do (sg, en3) <- execs f body en2;
    ROk (match sg with SgBreak => SgNormal | _ => sg end, en3)
  | SFor (Some i) c post body =>
    do (_, en1) <- exec f i en; exec f (SFor None c post body) en1
  | SFor None c post body =>
    do (vc, en1) <- match c with Some c' => eval f c' en | None => ROk (VBool true, en) end;
    match vc with
    | VBool false => ROk (SgNormal, en1)
    | VBool true =>
      do (sg, en2) <- execs f body en1;
      match sg with
      | SgBreak => ROk (SgNormal, en2)
      | SgReturn _ => ROk (sg, en2)
      | _ =>
        do (_, en3) <- match post with Some p => exec f p en2 | None => ROk (SgNormal, en2) end;
        exec f (SFor None c post body) en3
      end
    | _ => RStuck
    end
  | SRange k x e body =>
    do (v, en1) <- eval f e en;
    match as_slice v with Some l => range f k x l 0 body en1 | None => RStuck end
  | SReturn es => do (vs, en1) <- evals f es en; ROk (SgReturn (ret_val vs), en1)
  | SPanic => RPanic
  | SExpr e => do (_, en1) <- eval f e en; ROk (SgNormal, en1)
  | SBlock b => execs f b en
  | SBreak => ROk (SgBreak, en)
  | SContinue => ROk (SgContinue, en)
  end end

with execs (fuel : nat) (ss : list stmt) (en : env) {struct fuel} : res (sig * env) :=
  match fuel with 0 => RFuel | S f =>
  match ss with
  | [] => ROk (SgNormal, en)
  | s :: t =>
    do (sg, en1) <- exec f s en;
    match sg with SgNormal => execs f t en1 | _ => ROk (sg, en1) end
  end end

with assigns (fuel : nat) (lhs : list expr) (vs : list val) (en : env) {struct fuel} : res env :=
  match fuel with 0 => RFuel | S f =>
  match lhs, vs with
  | [], [] => ROk en
  | t :: lhs', v :: vs' => do en1 <- assign f t v en; assigns f lhs' vs' en1
  | _, _ => RStuck
  end end

(* the body of the first case with an expression equal to the tag (expressions are evaluated in order,
   as far as needed); the default when there is none *)
with select (fuel : nat) (tv : val) (cases : list (option (list expr) * list stmt)) (dflt : option (list stmt))
            (en : env) {struct fuel} : res (list stmt * env) :=
  match fuel with 0 => RFuel | S f =>
  match cases with
  | [] => ROk (match dflt with Some b => b | None => [] end, en)
  | (None, body) :: t => select f tv t (Some body) en
  | (Some [], _) :: t => select f tv t dflt en
  | (Some (e :: es), body) :: t =>
    do (v, en1) <- eval f e en;
    do b <- arith BEq tv v;
    match b with
    | VBool true => ROk (body, en1)
    | _ => select f tv ((Some es, body) :: t) dflt en1
    end
  end end

with range (fuel : nat) (k x : option ident) (l : list val) (i : Z) (body : list stmt) (en : env) {struct fuel}
  : res (sig * env) :=
  match fuel with 0 => RFuel | S f =>
  match l with
  | [] => ROk (SgNormal, en)
  | w :: t =>
    let en1 := match k with Some k' => set k' (VInt i) en | None => en end in
    let en2 := match x with Some x' => set x' w en1 | None => en1 end in
    do (sg, en3) <- execs f body en2;
    match sg with
    | SgBreak => ROk (SgNormal, en3)
    | SgReturn _ => ROk (sg, en3)
    | _ => range f k x t (i + 1) body en3
    end
  end end

(* run method m of the dynamic type of recv: (result, final receiver value) *)
with call (fuel : nat) (recv : val) (m : ident) (args : list val) {struct fuel} : res (val * val) :=
  match fuel with 0 => RFuel | S f =>
  match type_of recv with
  | None => RStuck
  | Some t =>
    match find_fn (p_fns prog) t m with
    | Some fd =>
      match bind_all (fn_params fd) args [(fn_recv fd, recv)] with
      | None => RStuck
      | Some en0 =>
        do (sg, en1) <- execs f (fn_body fd) en0;
        match lookup (fn_recv fd) en1 with
        | None => RStuck
        | Some recv' =>
          match sg with
          | SgNormal => ROk (VTuple [], recv')
          | SgReturn v => ROk (v, recv')
          | _ => RStuck
          end
        end
      end
    | None => match ext t m recv args with Some v => ROk (v, recv) | None => RStuck end
    end
  end end.

(* what the theorems talk about: outcome of calling method m on recv with args.
   A stuck execution (ill-typed for this interpreter) is reported as [Hang], like running out of
   fuel: every theorem excludes [Hang], hence both. *)
Definition run_method (fuel : nat) (recv : val) (m : ident) (args : list val) : out (val * val) :=
  match call fuel recv m args with
  | ROk r => Ret r
  | RPanic => Panic
  | RStuck => Hang
  | RFuel => Hang
  end.

End Interp.

Arguments VInt {A}. Arguments VBool {A}. Arguments VElem {A}. Arguments VNil {A}. Arguments VSlice {A}.
Arguments VObj {A}. Arguments VNamed {A}. Arguments VTuple {A}. Arguments VMeth {A}.
Arguments SgNormal {A}. Arguments SgReturn {A}. Arguments SgBreak {A}. Arguments SgContinue {A}.
