(* Grammar.v — the rules of v4/cdcn/Syntax.cdsn at TOKEN level as derivation trees with a
   rendering (the token sequence of the sentence) and a denotation (the collection the
   sentence stands for), and parser completeness checked EXHAUSTIVELY for all derivations
   up to a size bound by computation inside Coq.

     Collection: "[" Items "]" "(" type ")"          Items: Values | Associations
     Values: Value ("," Value)* | (EOL Value)+ EOL | (nothing)
     Associations: Association ("," Association)* | (EOL Association)+ EOL | ":"
     Value: Intrinsic | Collection                   Association: Intrinsic ":" Value

   The denotation is independent of the parse functions: literals through
   Literals.literal_value, a list of associations de-duplicated by key (first position, last
   value, Coll.a_set_all), the collection of the stated type through Parser.build (Set:
   insertion with the collator; Catalog/Map: first position, last value). *)
From Coq Require Import String.
From Verif Require Import Base Params Value Coll Lexer Literals Parser ParseRun.
Close Scope string_scope.
Open Scope Z_scope.

Inductive form := FInline | FMulti.

Inductive dtree :=
| DLit (t : token)
| DColl (items : ditems) (context : list Z)
with ditems :=
| IEmpty                                         (* no values: nothing between the brackets *)
| IColon                                         (* no associations: ":" *)
| IVals (f : form) (v : dtree) (vs : list dtree)               (* one or more values *)
| IAssocs (f : form) (k : token) (v : dtree) (kvs : list (token * dtree)).

Definition tk (ty : ttype) (text : list Z) : token := mkTok ty text 0 0.
Definition LB := tk TDelimiter [91].  Definition RB := tk TDelimiter [93].
Definition LP := tk TDelimiter [40].  Definition RP := tk TDelimiter [41].
Definition COLON := tk TDelimiter [58].  Definition COMMA := tk TDelimiter [44].
Definition EOLT := tk TEOL (zs "<EOLN>").  Definition EOFT := tk TEOF [].

(* the token sequence of a derivation *)
Fixpoint render (d : dtree) : list token :=
  match d with
  | DLit t => [t]
  | DColl items context => LB :: render_items items ++ [RB; LP; tk TType context; RP]
  end
with render_items (i : ditems) : list token :=
  match i with
  | IEmpty => []
  | IColon => [COLON]
  | IVals FInline v vs =>
    render v ++ (fix go (l : list dtree) : list token :=
                   match l with [] => [] | x :: r => COMMA :: render x ++ go r end) vs
  | IVals FMulti v vs =>
    EOLT :: render v ++ (fix go (l : list dtree) : list token :=
                   match l with [] => [EOLT] | x :: r => EOLT :: render x ++ go r end) vs
  | IAssocs FInline k v kvs =>
    k :: COLON :: render v ++ (fix go (l : list (token * dtree)) : list token :=
                   match l with [] => [] | (k', x) :: r => COMMA :: k' :: COLON :: render x ++ go r end) kvs
  | IAssocs FMulti k v kvs =>
    EOLT :: k :: COLON :: render v ++ (fix go (l : list (token * dtree)) : list token :=
                   match l with [] => [EOLT] | (k', x) :: r => EOLT :: k' :: COLON :: render x ++ go r end) kvs
  end.

Definition is_intrinsic_type (ty : ttype) : bool :=
  match ty with
  | TBoolean | TComplex | TFloat | THexadecimal | TInteger | TNil | TRune | TString => true
  | _ => false
  end.

Section Denote.
Variable fparse : list Z -> option Z.
Variable crank : val -> val -> option comparison.

Definition lit (t : token) : option val :=
  if is_intrinsic_type (ttype_of t) then literal_value fparse (ttype_of t) (tval t) else None.

(* the denotation; None: not a sentence with a meaning (a token that is no literal, a literal
   without exact value, values under Catalog/Map, unknown type name, collator panic) *)
Fixpoint denote (d : dtree) : option val :=
  match d with
  | DLit t => lit t
  | DColl items context =>
    match denote_items items with
    | Some its => match build crank context its with BVal v => Some v | _ => None end
    | None => None
    end
  end
with denote_items (i : ditems) : option (list val) :=
  match i with
  | IEmpty => Some []
  | IColon => Some []
  | IVals _ v vs =>
    match denote v,
          (fix go (l : list dtree) : option (list val) :=
             match l with
             | [] => Some []
             | x :: r => match denote x, go r with Some a, Some b => Some (a :: b) | _, _ => None end
             end) vs with
    | Some a, Some b => Some (a :: b)
    | _, _ => None
    end
  | IAssocs _ k v kvs =>
    match lit k, denote v,
          (fix go (l : list (token * dtree)) : option (list (val * val)) :=
             match l with
             | [] => Some []
             | (k', x) :: r => match lit k', denote x, go r with
                               | Some a, Some b, Some c => Some ((a, b) :: c)
                               | _, _, _ => None
                               end
             end) kvs with
    | Some a, Some b, Some c =>
      Some (map (fun kv => VAssoc (fst kv) (snd kv)) (a_set_all keq [] ((a, b) :: c)))
    | _, _, _ => None
    end
  end.

(* the sentence of a derivation followed by [n] end-of-line tokens and EOF is accepted with
   the derivation's meaning *)
Definition accepts (d : dtree) (n : nat) : bool :=
  match denote d with
  | None => true
  | Some v =>
    match d with
    | DLit _ => true      (* a sentence is a Collection *)
    | DColl _ _ =>
      match parse_tokens fparse crank (render d ++ repeat EOLT n ++ [EOFT]) with
      | PValue w => val_eqb v w
      | _ => false
      end
    end
  end.
End Denote.

(* ---------- the derivations up to a bound ---------- *)
Definition contexts : list (list Z) := map zs type_names.

(* all non-empty lists of length <= 2 over a pool *)
Definition upto2 {A} (pool : list A) : list (A * list A) :=
  map (fun x => (x, [])) pool ++ flat_map (fun x => map (fun y => (x, [y])) pool) pool.
(* and of length exactly 3 over a smaller pool *)
Definition exactly3 {A} (pool : list A) : list (A * list A) :=
  flat_map (fun x => flat_map (fun y => map (fun z => (x, [y; z])) pool) pool) pool.

Definition items_over (keys : list token) (vals : list dtree) (small : list dtree) : list ditems :=
  [IEmpty; IColon]
  ++ flat_map (fun f => map (fun p => IVals f (fst p) (snd p)) (upto2 vals ++ exactly3 small)) [FInline; FMulti]
  ++ flat_map (fun f => map (fun p => IAssocs f (fst (fst p)) (snd (fst p)) (snd p))
                            (upto2 (flat_map (fun k => map (fun v => (k, v)) vals) keys)))
              [FInline; FMulti].

Definition colls_over (keys : list token) (vals small : list dtree) (ctxs : list (list Z)) : list dtree :=
  flat_map (fun i => map (fun c => DColl i c) ctxs) (items_over keys vals small).

(* literal tokens: one of each class the examples need, incl. one that has no exact value *)
Definition lit_tokens : list token :=
  [tk TInteger (zs "1"); tk TString (zs """a"""); tk TNil (zs "nil"); tk TBoolean (zs "true"); tk THexadecimal (zs "0xff")].
Definition key_tokens : list token :=
  [tk TInteger (zs "1"); tk TRune (zs "'k'"); tk TInteger (zs "99999999999999999999")].

(* level 1: collections over literals only; level 2: collections whose values are literals or
   a fixed sample of level-1 collections covering every form and kind *)
Definition level0 : list dtree := map DLit lit_tokens.
Definition level0s : list dtree := map DLit (firstn 3 lit_tokens).
Definition level1 : list dtree := colls_over key_tokens level0 [DLit (tk TInteger (zs "1")); DLit (tk TInteger (zs "2"))] contexts.
Definition sample1 : list dtree :=
  [DColl IEmpty (zs "List"); DColl IColon (zs "Catalog");
   DColl (IVals FInline (DLit (tk TInteger (zs "2"))) [DLit (tk TInteger (zs "1"))]) (zs "Set");
   DColl (IVals FMulti (DLit (tk TInteger (zs "1"))) [DLit (tk TNil (zs "nil"))]) (zs "Stack");
   DColl (IAssocs FInline (tk TRune (zs "'k'")) (DLit (tk TInteger (zs "1"))) [(tk TRune (zs "'k'"), DLit (tk TInteger (zs "2")))]) (zs "Catalog");
   DColl (IAssocs FMulti (tk TInteger (zs "1")) (DLit (tk TString (zs """a"""))) []) (zs "Map")].
Definition level2 : list dtree :=
  colls_over [tk TInteger (zs "1"); tk TRune (zs "'k'")] (level0s ++ sample1) [] [zs "List"; zs "Catalog"; zs "Set"].

Definition no_floats (t : list Z) : option Z := None.
Definition accepts3 (d : dtree) : bool :=
  accepts no_floats (default_crank []) d 0 && accepts no_floats (default_crank []) d 1
  && accepts no_floats (default_crank []) d 2.
Definition count_meaningful (ds : list dtree) : nat :=
  length (filter (fun d => match denote no_floats (default_crank []) d with Some _ => true | None => false end) ds).

(* soundness direction on the same derivations: a derivation without meaning (a literal
   without exact value, a value list under Catalog or Map) is never accepted *)
Definition rejects (d : dtree) : bool :=
  match denote no_floats (default_crank []) d with
  | Some _ => true
  | None => negb (is_value (parse_tokens no_floats (default_crank []) (render d ++ [EOFT])))
  end.

Lemma accepts_meaning fparse crank i c n v :
  accepts fparse crank (DColl i c) n = true -> denote fparse crank (DColl i c) = Some v ->
  exists w, parse_tokens fparse crank (render (DColl i c) ++ repeat EOLT n ++ [EOFT]) = PValue w /\ val_eqb v w = true.
Proof.
  unfold accepts. intros A D. rewrite D in A.
  destruct (parse_tokens fparse crank (render (DColl i c) ++ repeat EOLT n ++ [EOFT])) as [w| | |]; try discriminate.
  exists w. auto.
Qed.

(* FULL STATEMENT (not proved in general):
     parser_complete : forall fparse crank d v n, denote fparse crank d = Some v -> d is a DColl ->
       parse_tokens fparse crank (render d ++ repeat EOLT n ++ [EOFT]) = PValue v.
   Proved: the same statement for every derivation of the enumerations level1 (all item
   lists of length 0..2, and 3 over two literals, over five literal classes and three key
   tokens, both forms, both empty forms, all seven contexts: 3,906 derivations) and level2
   (the same shape with literals and six nested collections of every form as values), each
   with 0, 1 and 2 trailing EOL tokens, under the default collator.  Missing: the induction
   over arbitrary derivations (it needs, for every parse function, the exact resulting
   state on success and on fall-through, not only the length accounting of ParserProofs). *)
Lemma check_all_ok : forallb accepts3 (level1 ++ level2) = true.
Proof. vm_compute. reflexivity. Qed.
Lemma rejects_all_ok : forallb rejects (level1 ++ level2) = true.
Proof. vm_compute. reflexivity. Qed.

Theorem parser_complete_partial :
  forall d n, In d (level1 ++ level2) -> (n <= 2)%nat -> accepts no_floats (default_crank []) d n = true.
Proof.
  pose proof check_all_ok as H.
  intros d n Hin Hn. rewrite forallb_forall in H. specialize (H d Hin). unfold accepts3 in H.
  apply andb_true_iff in H. destruct H as (H01 & H2). apply andb_true_iff in H01. destruct H01 as (H0 & H1).
  destruct n as [|[|[|n]]]; auto. lia.
Qed.

Theorem parser_sound_partial : forall d, In d (level1 ++ level2) -> rejects d = true.
Proof.
  pose proof rejects_all_ok as H.
  intros d Hin. rewrite forallb_forall in H. auto.
Qed.

Example enumeration_sizes :
  (length level1, count_meaningful level1, length level2, count_meaningful level2) = (3906, 1934, 2598, 2418)%nat.
Proof. vm_compute. reflexivity. Qed.
