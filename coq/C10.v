(* C10.v — CDCN round trip, FORMAT HALF: FormatValue is a total, pure function of its argument
   whose text is the rendering of a token list, elides what is nested deeper than its limit
   (self-containing values included) and does not depend on numeric widths or on earlier calls.
   (The parse half and the composed round-trip theorem belong to the scanner / parser model.)
   Statements only: every theorem is closed by [exact] of a lemma proved in FormatProofs.v /
   FormatText.v, and its assumptions are printed.  The model is Formatter.v; [ftext] and [printable] are the
   strconv oracles (text of FormatFloat(f,'G',-1,64); IsPrint above ASCII), universally
   quantified here and supplied and checked per case by the harness. *)
From Coq Require Import String.
From Verif Require Import Params Base Value Formatter FormatSpec FormatProofs FormatText FormatBound.
Open Scope Z_scope.

(* ---- format_total: every call ends (the model has no fuel), and what it returns is decided by
   the token view of the value: a text, or a panic when the value holds something the formatter
   rejects ---- *)
Theorem C10_format_total :
  forall (ftext : Z -> list Z) (printable : Z -> bool) (maximum : nat) (v : val),
    format0 ftext printable maximum v <> Hang.
Proof. exact format0_not_hang. Qed.

(* ---- format_tokens: the text is the rendering of the token list of the value ---- *)
Theorem C10_format_tokens :
  forall (ftext : Z -> list Z) (printable : Z -> bool) (maximum : nat) (v : val),
    format0 ftext printable maximum v =
    match tokens_of ftext printable maximum v with Some ts => Ret (render ts) | None => Panic end.
Proof. exact format0_tokens. Qed.

(* ---- format_elides: the text depends only on the top [maximum] levels of collections; a
   collection enclosed by [maximum] collections is written as [...](Type) ---- *)
Theorem C10_format_elides :
  forall (ftext : Z -> list Z) (printable : Z -> bool) (maximum : nat) (v : val),
    format0 ftext printable maximum (prune maximum v) = format0 ftext printable maximum v.
Proof. exact format0_prune. Qed.

Theorem C10_elided_sequence_text :
  forall (ftext : Z -> list Z) (printable : Z -> bool) (maximum : nat) (k : skind) (l : list val) (d n : nat),
    (maximum <= n)%nat ->
    tokens_at ftext printable maximum d n (VSeq k l) =
    Some (delim 91 :: tok TElision [46; 46; 46] :: ctx_toks (seq_type k)).
Proof. exact elided_seq. Qed.

Theorem C10_elided_mapping_text :
  forall (ftext : Z -> list Z) (printable : Z -> bool) (maximum : nat) (k : mkind) (ks vs : list val) (d n : nat),
    (maximum <= n)%nat ->
    tokens_at ftext printable maximum d n (VMapping k ks vs) =
    Some (delim 91 :: tok TElision [46; 46; 46] :: ctx_toks (map_type k)).
Proof. exact elided_mapping. Qed.

(* within the limit nothing is elided: the token list consists of grammar tokens only *)
Theorem C10_format_no_elision_within_limit :
  forall (ftext : Z -> list Z) (printable : Z -> bool) (maximum : nat) (v : val) (ts : list ftoken),
    (nest_depth v <= maximum)%nat ->
    tokens_of ftext printable maximum v = Some ts -> has_elision ts = false.
Proof. exact format_no_elision. Qed.

(* the length of the text is bounded by [cost] of the value pruned at the limit: a function of
   what lies within the limit and of the limit only *)
Theorem C10_format_bounded :
  forall (ftext : Z -> list Z) (printable : Z -> bool) (maximum : nat) (v : val) (t : list Z),
    format0 ftext printable maximum v = Ret t ->
    (length t <= S (cost ftext printable maximum (prune maximum v)))%nat.
Proof. exact format0_bounded. Qed.

(* self-containing values: every unfolding deeper than the limit gives the same text *)
Theorem C10_self_containing_stable :
  forall (ftext : Z -> list Z) (printable : Z -> bool) (maximum : nat) (k : skind) (n m : nat),
    (maximum < n)%nat -> (maximum < m)%nat ->
    format0 ftext printable maximum (selfnest k n) = format0 ftext printable maximum (selfnest k m).
Proof. exact selfnest_stable. Qed.

(* ---- format_pure: a returning call leaves the formatter in its initial state, and in ANY
   sequence of calls on one formatter (failed ones included, from any state) every call gives
   the text it gives on a fresh formatter ---- *)
Theorem C10_format_pure_state :
  forall (ftext : Z -> list Z) (printable : Z -> bool) (maximum : nat) (st : fstate) (v : val) (t : list Z) (st' : fstate),
    format_value ftext printable maximum true st v = (Ret t, st') -> st' = fs_init.
Proof. exact format_value_returns_to_init. Qed.

Theorem C10_format_pure :
  forall (ftext : Z -> list Z) (printable : Z -> bool) (maximum : nat) (vs : list val) (st : fstate),
    format_calls ftext printable maximum true st vs = map (format0 ftext printable maximum) vs.
Proof. exact format_calls_independent. Qed.

(* the pinned tree (no reset on entry, D13): the call after a failed call is not the fresh text *)
Theorem C10_format_after_failure_refuted_before_fix :
  exists v1 v2, nth 1 (format_calls (fun _ => []) (fun _ => true) 8 false fs_init [v1; v2]) Hang
                <> format0 (fun _ => []) (fun _ => true) 8 v2.
Proof. exact format_after_failure_refuted. Qed.

(* ---- format_width_free: the same numbers at other widths give the same text ---- *)
Theorem C10_format_width_free :
  forall (ftext : Z -> list Z) (printable : Z -> bool) (maximum : nat) (v : val),
    format0 ftext printable maximum (widen v) = format0 ftext printable maximum v.
Proof. exact format0_widen. Qed.

(* ---- float_text_ok / rune_text_ok / string_text_ok: the literals the formatter writes are inside
   the scanner's token languages (small transcriptions of float_, rune_ and string_ of scanner.go
   in FormatSpec.v).  For floats under the oracle hypothesis that strconv's text has the %G shape
   (checked by Coq on every oracle entry of every generated case); for runes and strings for
   every value and whatever IsPrint answers ---- *)
Theorem C10_float_text_ok :
  forall (ftext : Z -> list Z) (bits : Z),
    g_shape (ftext bits) = true -> is_float_literal (float_text ftext bits) = true.
Proof. exact (fun ftext bits => float_text_ok (ftext bits)). Qed.

(* the pinned tree (D12): a text of the %G shape that the original formatFloat left outside the
   scanner's float language *)
Theorem C10_float_text_refuted_before_fix :
  exists t, g_shape t = true /\ is_float_literal (old_float t) = false.
Proof. exact old_float_text_refuted. Qed.

(* complex numbers: both parts through formatFloat, "+" in front of a part that is >= 0; under
   the oracle hypotheses (both texts of the %G shape; the text of a part that is not >= 0 starts
   with a minus sign — also checked per case) the text is a complex literal of the scanner *)
Theorem C10_complex_text_ok :
  forall (ftext : Z -> list Z) (printable : Z -> bool) (w re im ab ph : Z) (t : list Z),
    g_shape (ftext re) = true -> g_shape (ftext im) = true ->
    (f_nonneg im = false -> exists r, ftext im = 45 :: r) ->
    intrinsic_text ftext printable (VComplex w re im ab ph) = Some t ->
    is_complex_literal t = true.
Proof. exact complex_intrinsic_ok. Qed.

Theorem C10_rune_text_ok :
  forall (printable : Z -> bool) (r : Z), is_rune_literal (quote_rune printable r) = true.
Proof. exact rune_text_ok. Qed.

Theorem C10_string_text_ok :
  forall (printable : Z -> bool) (s : list Z), is_string_literal (quote_str printable s) = true.
Proof. exact string_text_ok. Qed.

(* integers and unsigned numbers: FormatInt(z, 10) is an integer literal, "0x" + FormatUint(z, 16) a
   hexadecimal literal of the scanner (the digit loops of the model never run out of fuel) *)
Theorem C10_int_text_ok : forall z : Z, is_integer_literal (dec_text z) = true.
Proof. exact int_text_ok. Qed.

Theorem C10_hex_text_ok : forall z : Z, is_hex_literal (hex_text z) = true.
Proof. exact hex_text_ok. Qed.

(* ---- non-vacuity and the constants of the source ---- *)
(* the default maximum of formatter.go covers the nesting 0..7 (+ the outermost collection) of the
   canonical universe; lowering the constant in the source breaks this obligation *)
Example C10_default_maximum_covers_universe : (7 + 1 <= Z.to_nat formatter_default_maximum)%nat.
Proof. vm_compute. lia. Qed.

Definition ex_ftext (b : Z) : list Z := if b =? 4696837146684686336 then s2z "1E+06" else s2z "1.5E-07".
Definition ex_print (r : Z) : bool := true.
(* the value of TestFormatMaximum and its three pinned texts *)
Definition ex_nested : val :=
  VSeq KArray [VInt 0 1; VSeq KSlice [VInt 0 1; VInt 0 2; VSeq KSlice [VInt 0 1; VInt 0 2; VInt 0 3]]].
Example C10_ex_maximum_0 : format0 ex_ftext ex_print 0 ex_nested = Ret (s2z "[...](Array)
").
Proof. vm_compute. reflexivity. Qed.
Example C10_ex_maximum_1 : format0 ex_ftext ex_print 1 ex_nested = Ret (s2z "[
    1
    [...](Array)
](Array)
").
Proof. vm_compute. reflexivity. Qed.
Example C10_ex_maximum_2 : format0 ex_ftext ex_print 2 ex_nested = Ret (s2z "[
    1
    [
        1
        2
        [...](Array)
    ](Array)
](Array)
").
Proof. vm_compute. reflexivity. Qed.
(* a list whose only item is itself (unfolded 20 times), limit 2 *)
Example C10_ex_self_containing :
  format0 ex_ftext ex_print 2 (selfnest KList 20) = Ret (s2z "[[[...](List)](List)](List)
").
Proof. vm_compute. reflexivity. Qed.
(* the bound does not grow with the unfolding of a self-containing value *)
Example C10_ex_bound_self_containing :
  cost ex_ftext ex_print 2 (prune 2 (selfnest KList 20)) = cost ex_ftext ex_print 2 (prune 2 (selfnest KList 2000))
  /\ nest_depth ex_nested = 3%nat
  /\ option_map has_elision (tokens_of ex_ftext ex_print 3 ex_nested) = Some false
  /\ option_map has_elision (tokens_of ex_ftext ex_print 2 ex_nested) = Some true.
Proof. vm_compute. repeat split; reflexivity. Qed.
(* floats through the repaired formatFloat, a catalog, widths *)
Example C10_ex_floats_and_widths :
  format0 ex_ftext ex_print 8
    (VMapping MCatalog [VStr [97]; VByte 255] [VFloat 32 4696837146684686336; VComplex 64 0 4696837146684686336 0 0])
  = Ret (s2z "[
    ""a"": 1.0E+6
    0xff: (1.5E-7+1.0E+6i)
](Catalog)
").
Proof. vm_compute. reflexivity. Qed.
(* the hypothesis of C10_float_text_ok holds of real %G texts, and the conclusion is not trivial *)
Example C10_ex_g_shape :
  g_shape (s2z "1E+06") = true /\ g_shape (s2z "-1.2345E-100") = true /\ g_shape (s2z "0.125") = true
  /\ g_shape (s2z "5E-324") = true /\ g_shape (s2z "+Inf") = false
  /\ fix_float (s2z "1E+06") = s2z "1.0E+6" /\ fix_float (s2z "-1.2345E-100") = s2z "-1.2345E-100"
  /\ is_float_literal (s2z "1E+06") = false /\ is_float_literal (s2z "1.5E-07") = false.
Proof. vm_compute. repeat split; reflexivity. Qed.
Example C10_ex_complex :
  intrinsic_text ex_ftext ex_print (VComplex 128 4696837146684686336 4602678819172646912 0 0)
    = Some (s2z "(1.0E+6+1.5E-7i)")
  /\ is_complex_literal (s2z "(1.0E+6+1.5E-7i)") = true /\ is_complex_literal (s2z "(1.0+-0.0i)") = true
  /\ is_complex_literal (s2z "(1E+06+1.5E-07i)") = false.
Proof. vm_compute. repeat split; reflexivity. Qed.
Example C10_ex_integers :
  dec_text (-9223372036854775808) = s2z "-9223372036854775808" /\ dec_text 0 = s2z "0"
  /\ hex_text 18446744073709551615 = s2z "0xffffffffffffffff" /\ hex_text 0 = s2z "0x0"
  /\ is_integer_literal (s2z "-0") = false /\ is_integer_literal (s2z "007") = false /\ is_hex_literal (s2z "0xFF") = false.
Proof. vm_compute. repeat split; reflexivity. Qed.
Example C10_ex_quotes :
  quote_rune ex_print 10 = s2z "'\n'" /\ quote_rune ex_print 39 = s2z "'\''" /\ quote_rune ex_print 55296 = [39; 65533; 39]
  /\ quote_str (fun _ => false) [97; 34; 255; 195; 169; 0] = s2z """a\""\xff\u00e9\x00""".
Proof. vm_compute. repeat split; reflexivity. Qed.
Example C10_ex_rejected_key :
  format0 ex_ftext ex_print 8 (VMapping MCatalog [VSeq KList []] [VNil]) = Panic.
Proof. vm_compute. reflexivity. Qed.

Print Assumptions C10_format_total.
Print Assumptions C10_format_tokens.
Print Assumptions C10_format_elides.
Print Assumptions C10_elided_sequence_text.
Print Assumptions C10_elided_mapping_text.
Print Assumptions C10_format_no_elision_within_limit.
Print Assumptions C10_format_bounded.
Print Assumptions C10_self_containing_stable.
Print Assumptions C10_format_pure_state.
Print Assumptions C10_format_pure.
Print Assumptions C10_format_after_failure_refuted_before_fix.
Print Assumptions C10_format_width_free.
Print Assumptions C10_float_text_ok.
Print Assumptions C10_float_text_refuted_before_fix.
Print Assumptions C10_complex_text_ok.
Print Assumptions C10_rune_text_ok.
Print Assumptions C10_string_text_ok.
Print Assumptions C10_int_text_ok.
Print Assumptions C10_hex_text_ok.
