(* C10.v — CDCN round trip.  FORMAT HALF: FormatValue is a total, pure function of its argument
   whose text is the rendering of a token list, elides what is nested deeper than its limit
   (self-containing values included) and does not depend on numeric widths or on earlier calls.
   COMPOSITION with the scanner / parser model (Lexer.v, Literals.v, Parser.v; second part of this
   file, C10_round_trip...): ParseSource(FormatValue(v)) = canon v for every value of the round-trip
   universe rt_ok, under the oracle hypothesis floats_roundtrip on the two strconv float conversions;
   the literal inverses; the text fixpoint; equality under CompareValues.
   Statements only: every theorem is closed by [exact] of a lemma proved in FormatProofs.v /
   FormatText.v, and its assumptions are printed.  The model is Formatter.v; [ftext] and [printable] are the
   strconv oracles (text of FormatFloat(f,'G',-1,64); IsPrint above ASCII), universally
   quantified here and supplied and checked per case by the harness. *)
From Coq Require Import String.
From Verif Require Import Params Base Value Formatter FormatSpec FormatProofs FormatText FormatBound.
From Verif Require Lexer Literals Parser LexBridge LexBridge2 Complete LexRender ParseRun CollateCompare.
From Verif Require RoundTripLit RoundTripLeaf RoundTripScan RoundTripDeriv RoundTripProofs RoundTripSets RoundTripTotal.
From Verif Require ErrorTokens ScanUpto FormatDeep RoundTripScanE ParserPrefix.
From Verif Require Import RoundTrip.
Open Scope Z_scope.

(* ---- format_total: every call ends (the model has no fuel), and what it returns is decided by
   the token view of the value: a text, or a panic when the value holds something the formatter
   rejects ---- *)
Theorem C10_format_total :
  forall (ftext : Z -> list Z) (printable : Z -> bool) (maximum : nat) (v : val),
    format0 ftext printable maximum v <> Hang.
Proof. exact format0_not_hang. Qed.

(* ---- format_tokens: the text is the rendering of the token list of the value ---- *)
Theorem C10_format_tokens :
  forall (ftext : Z -> list Z) (printable : Z -> bool) (maximum : nat) (v : val),
    format0 ftext printable maximum v =
    match tokens_of ftext printable maximum v with Some ts => Ret (render ts) | None => Panic end.
Proof. exact format0_tokens. Qed.

(* ---- format_elides: the text depends only on the top [maximum] levels of collections; a
   collection enclosed by [maximum] collections is written as [...](Type) ---- *)
Theorem C10_format_elides :
  forall (ftext : Z -> list Z) (printable : Z -> bool) (maximum : nat) (v : val),
    format0 ftext printable maximum (prune maximum v) = format0 ftext printable maximum v.
Proof. exact format0_prune. Qed.

Theorem C10_elided_sequence_text :
  forall (ftext : Z -> list Z) (printable : Z -> bool) (maximum : nat) (k : skind) (l : list val) (d n : nat),
    (maximum <= n)%nat ->
    tokens_at ftext printable maximum d n (VSeq k l) =
    Some (delim 91 :: tok TElision [46; 46; 46] :: ctx_toks (seq_type k)).
Proof. exact elided_seq. Qed.

Theorem C10_elided_mapping_text :
  forall (ftext : Z -> list Z) (printable : Z -> bool) (maximum : nat) (k : mkind) (ks vs : list val) (d n : nat),
    (maximum <= n)%nat ->
    tokens_at ftext printable maximum d n (VMapping k ks vs) =
    Some (delim 91 :: tok TElision [46; 46; 46] :: ctx_toks (map_type k)).
Proof. exact elided_mapping. Qed.

(* within the limit nothing is elided: the token list consists of grammar tokens only *)
Theorem C10_format_no_elision_within_limit :
  forall (ftext : Z -> list Z) (printable : Z -> bool) (maximum : nat) (v : val) (ts : list ftoken),
    (nest_depth v <= maximum)%nat ->
    tokens_of ftext printable maximum v = Some ts -> has_elision ts = false.
Proof. exact format_no_elision. Qed.

(* the length of the text is bounded by [cost] of the value pruned at the limit: a function of
   what lies within the limit and of the limit only *)
Theorem C10_format_bounded :
  forall (ftext : Z -> list Z) (printable : Z -> bool) (maximum : nat) (v : val) (t : list Z),
    format0 ftext printable maximum v = Ret t ->
    (length t <= S (cost ftext printable maximum (prune maximum v)))%nat.
Proof. exact format0_bounded. Qed.

(* self-containing values: every unfolding deeper than the limit gives the same text *)
Theorem C10_self_containing_stable :
  forall (ftext : Z -> list Z) (printable : Z -> bool) (maximum : nat) (k : skind) (n m : nat),
    (maximum < n)%nat -> (maximum < m)%nat ->
    format0 ftext printable maximum (selfnest k n) = format0 ftext printable maximum (selfnest k m).
Proof. exact selfnest_stable. Qed.

(* ---- format_pure: a returning call leaves the formatter in its initial state, and in ANY
   sequence of calls on one formatter (failed ones included, from any state) every call gives
   the text it gives on a fresh formatter ---- *)
Theorem C10_format_pure_state :
  forall (ftext : Z -> list Z) (printable : Z -> bool) (maximum : nat) (st : fstate) (v : val) (t : list Z) (st' : fstate),
    format_value ftext printable maximum true st v = (Ret t, st') -> st' = fs_init.
Proof. exact format_value_returns_to_init. Qed.

Theorem C10_format_pure :
  forall (ftext : Z -> list Z) (printable : Z -> bool) (maximum : nat) (vs : list val) (st : fstate),
    format_calls ftext printable maximum true st vs = map (format0 ftext printable maximum) vs.
Proof. exact format_calls_independent. Qed.

(* the pinned tree (no reset on entry, D13): the call after a failed call is not the fresh text *)
Theorem C10_format_after_failure_refuted_before_fix :
  exists v1 v2, nth 1 (format_calls (fun _ => []) (fun _ => true) 8 false fs_init [v1; v2]) Hang
                <> format0 (fun _ => []) (fun _ => true) 8 v2.
Proof. exact format_after_failure_refuted. Qed.

(* ---- format_width_free: the same numbers at other widths give the same text ---- *)
Theorem C10_format_width_free :
  forall (ftext : Z -> list Z) (printable : Z -> bool) (maximum : nat) (v : val),
    format0 ftext printable maximum (widen v) = format0 ftext printable maximum v.
Proof. exact format0_widen. Qed.

(* ---- float_text_ok / rune_text_ok / string_text_ok: the literals the formatter writes are inside
   the scanner's token languages (small transcriptions of float_, rune_ and string_ of scanner.go
   in FormatSpec.v).  For floats under the oracle hypothesis that strconv's text has the %G shape
   (checked by Coq on every oracle entry of every generated case); for runes and strings for
   every value and whatever IsPrint answers ---- *)
Theorem C10_float_text_ok :
  forall (ftext : Z -> list Z) (bits : Z),
    g_shape (ftext bits) = true -> is_float_literal (float_text ftext bits) = true.
Proof. exact (fun ftext bits => float_text_ok (ftext bits)). Qed.

(* the pinned tree (D12): a text of the %G shape that the original formatFloat left outside the
   scanner's float language *)
Theorem C10_float_text_refuted_before_fix :
  exists t, g_shape t = true /\ is_float_literal (old_float t) = false.
Proof. exact old_float_text_refuted. Qed.

(* complex numbers: both parts through formatFloat, "+" in front of a part that is >= 0; under
   the oracle hypotheses (both texts of the %G shape; the text of a part that is not >= 0 starts
   with a minus sign — also checked per case) the text is a complex literal of the scanner *)
Theorem C10_complex_text_ok :
  forall (ftext : Z -> list Z) (printable : Z -> bool) (w re im ab ph : Z) (t : list Z),
    g_shape (ftext re) = true -> g_shape (ftext im) = true ->
    (f_nonneg im = false -> exists r, ftext im = 45 :: r) ->
    intrinsic_text ftext printable (VComplex w re im ab ph) = Some t ->
    is_complex_literal t = true.
Proof. exact complex_intrinsic_ok. Qed.

Theorem C10_rune_text_ok :
  forall (printable : Z -> bool) (r : Z), is_rune_literal (quote_rune printable r) = true.
Proof. exact rune_text_ok. Qed.

Theorem C10_string_text_ok :
  forall (printable : Z -> bool) (s : list Z), is_string_literal (quote_str printable s) = true.
Proof. exact string_text_ok. Qed.

(* integers and unsigned numbers: FormatInt(z, 10) is an integer literal, "0x" + FormatUint(z, 16) a
   hexadecimal literal of the scanner (the digit loops of the model never run out of fuel) *)
Theorem C10_int_text_ok : forall z : Z, is_integer_literal (dec_text z) = true.
Proof. exact int_text_ok. Qed.

Theorem C10_hex_text_ok : forall z : Z, is_hex_literal (hex_text z) = true.
Proof. exact hex_text_ok. Qed.

(* ---- non-vacuity and the constants of the source ---- *)
(* the default maximum of formatter.go lets at least the outermost collection through (the number itself is whatever
   the source says today: the property is stated "up to the formatter's depth limit"; the correspondence takes its
   nesting range from the class constant at run time) *)
Example C10_default_maximum_covers_universe : (1 <= Z.to_nat formatter_default_maximum)%nat.
Proof. vm_compute. lia. Qed.

Definition ex_ftext (b : Z) : list Z := if b =? 4696837146684686336 then s2z "1E+06" else s2z "1.5E-07".
Definition ex_print (r : Z) : bool := true.
(* the value of TestFormatMaximum and its three pinned texts *)
Definition ex_nested : val :=
  VSeq KArray [VInt 0 1; VSeq KSlice [VInt 0 1; VInt 0 2; VSeq KSlice [VInt 0 1; VInt 0 2; VInt 0 3]]].
Example C10_ex_maximum_0 : format0 ex_ftext ex_print 0 ex_nested = Ret (s2z "[...](Array)
").
Proof. vm_compute. reflexivity. Qed.
Example C10_ex_maximum_1 : format0 ex_ftext ex_print 1 ex_nested = Ret (s2z "[
    1
    [...](Array)
](Array)
").
Proof. vm_compute. reflexivity. Qed.
Example C10_ex_maximum_2 : format0 ex_ftext ex_print 2 ex_nested = Ret (s2z "[
    1
    [
        1
        2
        [...](Array)
    ](Array)
](Array)
").
Proof. vm_compute. reflexivity. Qed.
(* a list whose only item is itself (unfolded 20 times), limit 2 *)
Example C10_ex_self_containing :
  format0 ex_ftext ex_print 2 (selfnest KList 20) = Ret (s2z "[[[...](List)](List)](List)
").
Proof. vm_compute. reflexivity. Qed.
(* the bound does not grow with the unfolding of a self-containing value *)
Example C10_ex_bound_self_containing :
  cost ex_ftext ex_print 2 (prune 2 (selfnest KList 20)) = cost ex_ftext ex_print 2 (prune 2 (selfnest KList 2000))
  /\ nest_depth ex_nested = 3%nat
  /\ option_map has_elision (tokens_of ex_ftext ex_print 3 ex_nested) = Some false
  /\ option_map has_elision (tokens_of ex_ftext ex_print 2 ex_nested) = Some true.
Proof. vm_compute. repeat split; reflexivity. Qed.
(* floats through the repaired formatFloat, a catalog, widths *)
Example C10_ex_floats_and_widths :
  format0 ex_ftext ex_print 8
    (VMapping MCatalog [VStr [97]; VByte 255] [VFloat 32 4696837146684686336; VComplex 64 0 4696837146684686336 0 0])
  = Ret (s2z "[
    ""a"": 1.0E+6
    0xff: (1.5E-7+1.0E+6i)
](Catalog)
").
Proof. vm_compute. reflexivity. Qed.
(* the hypothesis of C10_float_text_ok holds of real %G texts, and the conclusion is not trivial *)
Example C10_ex_g_shape :
  g_shape (s2z "1E+06") = true /\ g_shape (s2z "-1.2345E-100") = true /\ g_shape (s2z "0.125") = true
  /\ g_shape (s2z "5E-324") = true /\ g_shape (s2z "+Inf") = false
  /\ fix_float (s2z "1E+06") = s2z "1.0E+6" /\ fix_float (s2z "-1.2345E-100") = s2z "-1.2345E-100"
  /\ is_float_literal (s2z "1E+06") = false /\ is_float_literal (s2z "1.5E-07") = false.
Proof. vm_compute. repeat split; reflexivity. Qed.
Example C10_ex_complex :
  intrinsic_text ex_ftext ex_print (VComplex 128 4696837146684686336 4602678819172646912 0 0)
    = Some (s2z "(1.0E+6+1.5E-7i)")
  /\ is_complex_literal (s2z "(1.0E+6+1.5E-7i)") = true /\ is_complex_literal (s2z "(1.0+-0.0i)") = true
  /\ is_complex_literal (s2z "(1E+06+1.5E-07i)") = false.
Proof. vm_compute. repeat split; reflexivity. Qed.
Example C10_ex_integers :
  dec_text (-9223372036854775808) = s2z "-9223372036854775808" /\ dec_text 0 = s2z "0"
  /\ hex_text 18446744073709551615 = s2z "0xffffffffffffffff" /\ hex_text 0 = s2z "0x0"
  /\ is_integer_literal (s2z "-0") = false /\ is_integer_literal (s2z "007") = false /\ is_hex_literal (s2z "0xFF") = false.
Proof. vm_compute. repeat split; reflexivity. Qed.
Example C10_ex_quotes :
  quote_rune ex_print 10 = s2z "'\n'" /\ quote_rune ex_print 39 = s2z "'\''" /\ quote_rune ex_print 55296 = [39; 65533; 39]
  /\ quote_str (fun _ => false) [97; 34; 255; 195; 169; 0] = s2z """a\""\xff\u00e9\x00""".
Proof. vm_compute. repeat split; reflexivity. Qed.
Example C10_ex_rejected_key :
  format0 ex_ftext ex_print 8 (VMapping MCatalog [VSeq KList []] [VNil]) = Panic.
Proof. vm_compute. reflexivity. Qed.


(* ====================================================================================== *)
(* THE COMPOSED ROUND TRIP                                                                *)
(* ====================================================================================== *)
(* Definitions (RoundTrip.v): [canon crank v] = what the parser builds from the text of v (Go slices
   as Arrays, Go maps as Maps, every integer width as int64 / uint64, floats as float64, complex
   numbers as complex128 with the collator oracle fields 0, a Set in the order Parser.set_build gives
   its members under the ranking [crank]); [rt_ok crank maximum v] = the round-trip universe (a
   collection within the depth limit whose items are well-formed intrinsic values — numbers inside
   their Go type, VALID runes, byte strings — or such collections; associations only as entries of a
   Catalog / Map, with intrinsic keys that stay pairwise different after the round trip; no Set
   constructor panic); [floats_roundtrip fparse ftext v] = for every float in v Go's %G text has
   the %G shape and ParseFloat gives the bits back from what formatFloat writes (for a negative
   imaginary part: from the text behind its minus sign, negated) — the oracle hypothesis the C10
   harness checks on every float of every generated value. *)

(* ---- 1. literal inverses, each for ALL inputs of its class ---- *)
Theorem C10_round_trip_decimal :
  forall z : Z, Literals.min_int64 <= z <= Literals.max_int64 -> Literals.parse_int (dec_text z) = Some z.
Proof. exact RoundTripLit.parse_int_dec_text. Qed.

Theorem C10_round_trip_hexadecimal :
  forall z : Z, 0 <= z < Literals.two64 -> Literals.parse_hex (hex_text z) = Some z.
Proof. exact RoundTripLit.parse_hex_hex_text. Qed.

(* every VALID rune, whatever strconv.IsPrint answers; an invalid one (surrogate, negative, above
   U+10FFFF) is written as U+FFFD by QuoteRune and comes back as 65533: outside the universe *)
Theorem C10_round_trip_rune :
  forall (printable : Z -> bool) (r : Z), valid_rune r = true ->
    Literals.rune_value (quote_rune printable r) = Some r.
Proof. exact RoundTripLit.rune_value_quote_rune. Qed.
Theorem C10_round_trip_rune_invalid_refuted :
  exists r, valid_rune r = false /\ Literals.rune_value (quote_rune (fun _ => true) r) = Some 65533.
Proof. exact RoundTripLit.rune_value_invalid_refuted. Qed.

(* EVERY byte string, valid UTF-8 or not (a byte that starts no valid sequence is written \xNN and
   comes back as that byte) *)
Theorem C10_round_trip_string :
  forall (printable : Z -> bool) (s : list Z), forallb RoundTripLit.is_byte s = true ->
    Literals.string_value (quote_str printable s) = Some s.
Proof. exact RoundTripLit.string_value_quote_str. Qed.

Theorem C10_round_trip_boolean :
  forall b : bool, Literals.parse_bool (if b then s2z "true" else s2z "false") = b.
Proof. exact RoundTripLit.parse_bool_text. Qed.

(* all literal kinds at once (nil, floats and complex numbers included): the formatter's token of a
   well-formed intrinsic value is a literal token whose Literals.literal_value is that value at the
   canonical width *)
Theorem C10_round_trip_literal :
  forall (fparse : list Z -> option Z) (ftext : Z -> list Z) (printable : Z -> bool) (v : val) (t : ftoken),
    leaf_token ftext printable v = Some t -> leaf_ok v = true -> leaf_floats fparse ftext v = true ->
    Complete.litv fparse (mk (conv t)) (canon_leaf v).
Proof. exact RoundTripLeaf.leaf_litv. Qed.

(* ---- 2. bridges: the formatter's text functions produce texts of the lexer-side predicates ---- *)
Theorem C10_bridge_integer : forall z : Z, LexBridge.int_text (dec_text z).
Proof. exact RoundTripLeaf.int_text_dec. Qed.
Theorem C10_bridge_float : forall t : list Z, g_shape t = true -> LexBridge2.float_text (fix_float t).
Proof. exact RoundTripLeaf.float_text_fix. Qed.
(* every literal token, followed by a separator, is picked by the scanner as exactly that token *)
Theorem C10_bridge_literal :
  forall (fparse : list Z -> option Z) (ftext : Z -> list Z) (printable : Z -> bool) (v : val) (t : ftoken)
         (rest : list LexRender.rtok),
    leaf_token ftext printable v = Some t -> leaf_floats fparse ftext v = true ->
    LexRender.scannable rest -> LexBridge.sep_start (LexRender.render_toks rest) ->
    LexRender.scannable (conv t :: rest).
Proof. exact RoundTripLeaf.leaf_scan. Qed.

(* ---- 3. scannability of the formatter's token list, hence lex (render ts) = ts positioned ---- *)
Theorem C10_round_trip_scannable :
  forall (fparse : list Z -> option Z) (ftext : Z -> list Z) (printable : Z -> bool) (maximum : nat)
         (v : val) (ts : list ftoken),
    tokens_of ftext printable maximum v = Some ts -> has_elision ts = false ->
    floats_roundtrip fparse ftext v = true ->
    LexRender.scannable (map (fun t => (lty (tk_type t), tk_text t)) ts).
Proof. exact RoundTripScan.tokens_of_scannable. Qed.

Theorem C10_round_trip_lexes :
  forall (fparse : list Z -> option Z) (ftext : Z -> list Z) (printable : Z -> bool) (maximum : nat)
         (v : val) (ts : list ftoken),
    tokens_of ftext printable maximum v = Some ts -> has_elision ts = false ->
    floats_roundtrip fparse ftext v = true ->
    Lexer.lex (render ts) = LexRender.place (convs ts) 1 1.
Proof. exact RoundTripProofs.round_trip_lexes. Qed.

(* ---- 4. the visible tokens are a derivation of the grammar with value canon v ---- *)
Theorem C10_round_trip_derivation :
  forall (fparse : list Z -> option Z) (crank : val -> val -> option comparison) (ftext : Z -> list Z)
         (printable : Z -> bool) (maximum : nat) (v : val) (d n : nat) (ts : list ftoken),
    tokens_at ftext printable maximum d n v = Some ts -> has_elision ts = false ->
    rt_val crank v = true -> floats_roundtrip fparse ftext v = true ->
    Complete.dvalue fparse crank (vis ts) (canon crank v) /\
    (is_collection v = true -> Complete.dcoll fparse crank (vis ts) (canon crank v)).
Proof. exact RoundTripDeriv.tokens_derive. Qed.

(* ---- 5. THE THEOREM ---- *)
Theorem C10_round_trip :
  forall (fparse : list Z -> option Z) (crank : val -> val -> option comparison) (ftext : Z -> list Z)
         (printable : Z -> bool) (maximum : nat) (v : val) (text : list Z),
    rt_ok crank maximum v = true -> floats_roundtrip fparse ftext v = true ->
    format0 ftext printable maximum v = Ret text ->
    Parser.parse_source fparse crank text = Parser.PValue (canon crank v).
Proof. exact RoundTripProofs.round_trip. Qed.

(* FormatValue accepts every value of the universe (no pointer, every key an intrinsic): the two
   together — ParseSource(FormatValue(v)) SUCCEEDS and gives canon v *)
Theorem C10_round_trip_total :
  forall (fparse : list Z -> option Z) (crank : val -> val -> option comparison) (ftext : Z -> list Z)
         (printable : Z -> bool) (maximum : nat) (v : val),
    rt_ok crank maximum v = true -> floats_roundtrip fparse ftext v = true ->
    exists text, format0 ftext printable maximum v = Ret text /\
                 Parser.parse_source fparse crank text = Parser.PValue (canon crank v).
Proof. exact RoundTripTotal.round_trip_total. Qed.

(* on the canonical dynamic types, with every Set listed in collator order, nothing changes *)
Theorem C10_round_trip_canonical :
  forall (crank : val -> val -> option comparison) (v : val),
    canonical v = true -> sets_sorted crank v -> canon crank v = v.
Proof. exact RoundTripProofs.canon_canonical. Qed.

(* equality under CompareValues (Value.compare0, the collator model of C07 / C08): the parser
   leaves the two collator oracle fields of a complex number (cmplx.Abs, cmplx.Phase — functions of
   the two parts) at 0; ParseRun.decorate fills them in from a table, as the C11 correspondence does.
   With them restored the parsed value is the original one and CompareValues answers true (C08's
   compare_refl: the value is inside C08's universe inW — within the collator's depth limit, Map
   keys without NaN / complex numbers). *)
Theorem C10_round_trip_equal :
  forall (fparse : list Z -> option Z) (crank : val -> val -> option comparison) (ftext : Z -> list Z)
         (printable : Z -> bool) (maximum M : nat) (tbl : list (Z * Z * (Z * Z))) (v : val) (text : list Z),
    rt_ok crank maximum v = true -> floats_roundtrip fparse ftext v = true ->
    ParseRun.decorate tbl (canon crank v) = v -> CollateCompare.inW M v = true ->
    format0 ftext printable maximum v = Ret text ->
    exists p, Parser.parse_source fparse crank text = Parser.PValue p /\
              compare0 M v (ParseRun.decorate tbl p) = R true.
Proof. exact RoundTripProofs.round_trip_equal. Qed.
(* the hypothesis on the table holds with the empty table for a canonical value *)
Theorem C10_round_trip_equal_table :
  forall (crank : val -> val -> option comparison) (v : val),
    canonical v = true -> sets_sorted crank v -> ParseRun.decorate [] (canon crank v) = v.
Proof. exact RoundTripProofs.decorate_canonical. Qed.

(* THE TEXT FIXPOINT: formatting what the parser built gives the same text, for EVERY value whose
   Sets are listed in collator order (narrower widths, Go slices and Go maps included; a Map with
   its entries in the order of the text, which is the order canon keeps) *)
Theorem C10_text_fixpoint :
  forall (crank : val -> val -> option comparison) (ftext : Z -> list Z) (printable : Z -> bool)
         (maximum : nat) (v : val),
    sets_sorted crank v ->
    format0 ftext printable maximum (canon crank v) = format0 ftext printable maximum v.
Proof. exact RoundTripProofs.text_fixpoint. Qed.

(* a sufficient condition for the Set clause of sets_sorted: the members, as the parser will see
   them, are listed in strictly ascending collator order — every member ranks Greater than every
   member before it (no transitivity of the ranking is needed).  Then the binary search of the
   Set constructor puts every member behind the last one. *)
Theorem C10_sets_sorted_ascending :
  forall (crank : val -> val -> option comparison) (l : list val),
    RoundTripSets.ascending crank [] (map (canon crank) l) ->
    Parser.set_build crank [] (map (canon crank) l) = Some (map (canon crank) l).
Proof. exact RoundTripSets.ascending_sorted. Qed.
(* ---- elided values are not parsed ----
   For EVERY value nested deeper than the limit that FormatValue accepts (under the float hypothesis,
   which the scanner needs for the literals before the dots):
   (1) the scanner turns the text into the tokens before the first "..." (none of them an Error token),
       the Error token "." at the line and position of the first dot, and EOF
       (RoundTripScanE.tokens_of_scan_upto: every formatter output is scannable up to its first elision;
        ErrorTokens.lex_prefix_dot: the scanner on a scannable prefix followed by arbitrary text);
   (2) the parser never consumes an Error token (ErrorTokens.accepted_no_error, from ParserProofs.nonEOF),
       so ParseSource does NOT return a value: it stops with a located diagnostic for a token of that stream.
   NOT proved: that the diagnostic names the Error token itself rather than an earlier token (it needs
   the parser on a proper prefix of a derivation); C10_elided_not_parsed_partial below pins it for the
   chains of single-item sequences, RoundTripRun.v observes it on every generated elided text. *)
Theorem C10_format_elides_beyond_limit :
  forall (ftext : Z -> list Z) (printable : Z -> bool) (maximum : nat) (v : val) (ts : list ftoken),
    (maximum < nest_depth v)%nat -> tokens_of ftext printable maximum v = Some ts -> has_elision ts = true.
Proof. exact FormatDeep.format_elides_beyond_limit. Qed.

Theorem C10_round_trip_scannable_upto_elision :
  forall (fparse : list Z -> option Z) (ftext : Z -> list Z) (printable : Z -> bool) (maximum : nat)
         (v : val) (ts : list ftoken),
    tokens_of ftext printable maximum v = Some ts -> floats_roundtrip fparse ftext v = true ->
    ScanUpto.scan_upto (convs ts).
Proof. exact RoundTripScanE.tokens_of_scan_upto. Qed.

Theorem C10_elided_not_parsed :
  forall (fparse : list Z -> option Z) (crank : val -> val -> option comparison) (ftext : Z -> list Z)
         (printable : Z -> bool) (maximum : nat) (v : val) (text : list Z),
    (maximum < nest_depth v)%nat -> format0 ftext printable maximum v = Ret text ->
    floats_roundtrip fparse ftext v = true ->
    (exists pre line pos,
       Lexer.lex text = pre ++ [Lexer.mkTok Lexer.TError [46] line pos; Lexer.mkTok Lexer.TEOF [46] line pos] /\
       Forall (fun t => Lexer.ttype_of t <> Lexer.TError) pre) /\
    (exists t, Parser.parse_source fparse crank text = Parser.PSyntax t /\ In t (Lexer.lex text)).
Proof. exact RoundTripScanE.elided_not_parsed. Qed.

(* the general facts behind it, for any source text *)
Theorem C10_lex_scannable_prefix_then_dot :
  forall (ts : list LexRender.rtok) (r : list Z), ErrorTokens.scan_before (46 :: r) ts ->
    Lexer.lex (LexRender.render_toks ts ++ 46 :: r) =
    fst (ErrorTokens.place_pre ts 1 1) ++
    [Lexer.mkTok Lexer.TError [46] (fst (snd (ErrorTokens.place_pre ts 1 1))) (snd (snd (ErrorTokens.place_pre ts 1 1)));
     Lexer.mkTok Lexer.TEOF [46] (fst (snd (ErrorTokens.place_pre ts 1 1))) (snd (snd (ErrorTokens.place_pre ts 1 1)))].
Proof. exact ErrorTokens.lex_prefix_dot. Qed.
Theorem C10_accepted_source_has_no_error_token :
  forall (fparse : list Z -> option Z) (crank : val -> val -> option comparison) (src : list Z) (v : val),
    Parser.parse_source fparse crank src = Parser.PValue v ->
    Forall (fun t => Lexer.ttype_of t <> Lexer.TError) (Lexer.lex src).
Proof. exact ErrorTokens.accepted_no_error. Qed.

(* towards the pinned diagnostic in general: the parser on a proper prefix of a derivation that ends in "["
   followed by an Error token — the shape of an elided output — stops with the diagnostic for THAT token
   (ParserPrefix.v: estopc = the inductive viable prefixes, the items in front whole derivations; the base
   case open_error: read from the queue get_next stops on it, handed out from the push-back stack every
   alternative of parseItems fails on it and parseSequence blames it).  What is still missing to retire
   the _partial theorem below: the construction of estopc for the FORMATTER's tokens before the first
   elision (the items in front are derivations by C10_round_trip_derivation). *)
Theorem C10_prefix_open_error :
  forall (fparse : list Z -> option Z) (crank : val -> val -> option comparison) (e : Lexer.token) (ts r : list Lexer.token),
    Lexer.ttype_of e = Lexer.TError -> ParserPrefix.estopc fparse crank e ts ->
    Parser.parse_tokens fparse crank (ts ++ r) = Parser.PSyntax e.
Proof. exact ParserPrefix.prefix_open_error. Qed.

(* the diagnostic pinned to the first dot: the chains of single-item sequences deeper than the default
   limit (every unfolding of a self-containing list / array / set / stack / queue) *)
Theorem C10_elided_not_parsed_partial :
  forall (fparse : list Z -> option Z) (crank : val -> val -> option comparison) (ftext : Z -> list Z)
         (printable : Z -> bool) (k : skind) (n : nat),
    (Z.to_nat formatter_default_maximum < n)%nat ->
    exists text t,
      format0 ftext printable (Z.to_nat formatter_default_maximum) (selfnest k n) = Ret text /\
      Parser.parse_source fparse crank text = Parser.PSyntax t /\
      Lexer.ttype_of t = Lexer.TError /\ Lexer.tval t = [46] /\ Lexer.tline t = 1 /\ Lexer.tpos t = formatter_default_maximum + 2.
Proof. exact RoundTripProofs.elided_selfnest_not_parsed. Qed.

(* ---- non-vacuity of the composed theorem, and what falls outside its universe ---- *)
(* oracles of the examples: %G texts and ParseFloat for 1e6, 1.5e-7 and -1.5e-7 *)
Definition rt_ftext (b : Z) : list Z :=
  if b =? 4696837146684686336 then s2z "1E+06"
  else if b =? 13728134904377344886 then s2z "-1.5E-07" else s2z "1.5E-07".
Definition rt_fparse (t : list Z) : option Z :=
  if list_eqb Z.eqb t (s2z "1.0E+6") then Some 4696837146684686336
  else if list_eqb Z.eqb t (s2z "1.5E-7") then Some 4504762867522569078
  else if list_eqb Z.eqb t (s2z "-1.5E-7") then Some 13728134904377344886 else None.
Definition rt_crank : val -> val -> option comparison := ParseRun.default_crank [].
(* a Catalog (keys: string, rune, negative integer, float) of a List with every simple literal kind
   (string with an escape, an invalid UTF-8 byte and a 2-byte sequence), a Set in collator order, a
   Map with a complex value whose imaginary part is negative, an empty Stack and a Queue *)
Definition rt_example : val :=
  VMapping MCatalog
    [VStr [97]; VRune 233; VInt 64 (-7); VFloat 64 4696837146684686336]
    [VSeq KList [VInt 64 1; VUint 64 255; VBool true; VNil; VStr [34; 255; 195; 169; 10]; VRune 39];
     VSeq KSet [VInt 64 1; VInt 64 2; VInt 64 3];
     VMapping MMap [VBool false] [VComplex 128 4504762867522569078 13728134904377344886 0 0];
     VSeq KArray [VSeq KStack []; VSeq KQueue [VFloat 64 4504762867522569078]]].
Example C10_ex_round_trip_hypotheses :
  rt_ok rt_crank 8 rt_example = true /\ floats_roundtrip rt_fparse rt_ftext rt_example = true
  /\ canonical rt_example = true /\ CollateCompare.inW 16 rt_example = true.
Proof. vm_compute. repeat split; reflexivity. Qed.
Example C10_ex_sets_sorted : sets_sorted rt_crank rt_example.
Proof. cbn [sets_sorted fold_right]. repeat split; try (intros; discriminate); intros _; vm_compute; reflexivity. Qed.
Example C10_ex_ascending :
  RoundTripSets.ascending rt_crank [] (map (canon rt_crank) [VBool true; VInt 8 (-3); VInt 64 2; VRune 97; VStr [97]; VUint 64 5]).
Proof. cbn [map RoundTripSets.ascending app]. repeat split; intros x Hx; cbn [In] in Hx; intuition (subst; vm_compute; reflexivity). Qed.
(* the conclusion of C10_round_trip on the example, by evaluating both models *)
Example C10_ex_round_trip :
  format0 rt_ftext (fun _ => false) 8 rt_example = Ret (s2z "[
    ""a"": [
        1
        0xff
        true
        nil
        ""\""\xff\u00e9\n""
        '\''
    ](List)
    '\u00e9': [
        1
        2
        3
    ](Set)
    -7: [false: (1.5E-7-1.5E-7i)](Map)
    1.0E+6: [
        [ ](Stack)
        [1.5E-7](Queue)
    ](Array)
](Catalog)
") /\
  match format0 rt_ftext (fun _ => false) 8 rt_example with
  | Ret text => Parser.parse_source rt_fparse rt_crank text
  | _ => Parser.POutOfFuel
  end = Parser.PValue rt_example.
Proof. vm_compute. split; reflexivity. Qed.
(* a value of class 1 (narrower widths, a Go slice, a Go map): the parser's value is canon v *)
Definition rt_example_narrow : val :=
  VSeq KSlice [VInt 8 (-5); VByte 255; VFloat 32 4696837146684686336; VNilSlice;
               VMapping MGoMap [VUint 16 7] [VComplex 64 4696837146684686336 4504762867522569078 3 4]].
Example C10_ex_round_trip_narrow :
  rt_ok rt_crank 8 rt_example_narrow = true /\ floats_roundtrip rt_fparse rt_ftext rt_example_narrow = true /\
  canon rt_crank rt_example_narrow =
    VSeq KArray [VInt 64 (-5); VUint 64 255; VFloat 64 4696837146684686336; VSeq KArray [];
                 VMapping MMap [VUint 64 7] [VComplex 128 4696837146684686336 4504762867522569078 0 0]].
Proof. vm_compute. repeat split; reflexivity. Qed.

(* OUTSIDE the universe, and why (each replayed on the real code, see docs/C10.md):
   two keys that differ only in their width are ONE key after the round trip — the parsed Catalog
   has one entry, CompareValues answers false and the second text differs although the value is
   built from "narrower numeric widths" only (FormatSpec.val_class = 1).  rt_ok excludes it through
   fresh_keys (map canon_leaf ks). *)
Definition rt_narrow_keys : val := VMapping MCatalog [VInt 8 5; VInt 16 5] [VInt 64 1; VInt 64 2].
Theorem C10_text_fixpoint_narrow_keys_refuted :
  exists v text p,
    val_class v = 1%nat /\ format0 rt_ftext ex_print 8 v = Ret text /\
    Parser.parse_source rt_fparse rt_crank text = Parser.PValue p /\
    p = VMapping MCatalog [VInt 64 5] [VInt 64 2] /\
    format0 rt_ftext ex_print 8 p <> Ret text /\ rt_ok rt_crank 8 v = false.
Proof.
  exists rt_narrow_keys. eexists. eexists. split; [reflexivity|]. split; [vm_compute; reflexivity|].
  split; [vm_compute; reflexivity|]. split; [reflexivity|]. split; [vm_compute; discriminate|reflexivity].
Qed.
(* a Set listed in an order the constructor does not produce (here: the order of uint8 "byte" before
   int16 "integer" that becomes "unsigned" after "integer" once the byte has come back as uint64):
   the parsed Set is re-ordered, so the text fixpoint needs sets_sorted (the known finding
   fixes/known-set-order-depends-on-width.json) *)
Theorem C10_text_fixpoint_unsorted_set_refuted :
  exists v text p,
    rt_ok rt_crank 8 v = true /\ format0 rt_ftext ex_print 8 v = Ret text /\
    Parser.parse_source rt_fparse rt_crank text = Parser.PValue p /\ p = canon rt_crank v /\
    format0 rt_ftext ex_print 8 p <> Ret text.
Proof.
  exists (VSeq KSet [VByte 7; VInt 16 26660]). eexists. eexists. split; [reflexivity|]. split; [vm_compute; reflexivity|].
  split; [vm_compute; reflexivity|]. split; [vm_compute; reflexivity|]. vm_compute; discriminate.
Qed.
(* the hypotheses of C10_elided_not_parsed hold of TestFormatMaximum's value at limit 1 *)
Example C10_ex_elided_hypotheses :
  (1 < nest_depth ex_nested)%nat /\ floats_roundtrip rt_fparse ex_ftext ex_nested = true.
Proof. vm_compute. split; [lia|reflexivity]. Qed.
(* the elided text of TestFormatMaximum's value at limit 1: rejected at the first dot, line 3 *)
Example C10_ex_elided_not_parsed :
  match format0 ex_ftext ex_print 1 ex_nested with
  | Ret text => Parser.parse_source rt_fparse rt_crank text
  | _ => Parser.POutOfFuel
  end = Parser.PSyntax (Lexer.mkTok Lexer.TError [46] 3 6).
Proof. vm_compute. reflexivity. Qed.

Print Assumptions C10_format_total.
Print Assumptions C10_format_tokens.
Print Assumptions C10_format_elides.
Print Assumptions C10_elided_sequence_text.
Print Assumptions C10_elided_mapping_text.
Print Assumptions C10_format_no_elision_within_limit.
Print Assumptions C10_format_bounded.
Print Assumptions C10_self_containing_stable.
Print Assumptions C10_format_pure_state.
Print Assumptions C10_format_pure.
Print Assumptions C10_format_after_failure_refuted_before_fix.
Print Assumptions C10_format_width_free.
Print Assumptions C10_float_text_ok.
Print Assumptions C10_float_text_refuted_before_fix.
Print Assumptions C10_complex_text_ok.
Print Assumptions C10_rune_text_ok.
Print Assumptions C10_string_text_ok.
Print Assumptions C10_int_text_ok.
Print Assumptions C10_hex_text_ok.
Print Assumptions C10_round_trip_decimal.
Print Assumptions C10_round_trip_hexadecimal.
Print Assumptions C10_round_trip_rune.
Print Assumptions C10_round_trip_rune_invalid_refuted.
Print Assumptions C10_round_trip_string.
Print Assumptions C10_round_trip_boolean.
Print Assumptions C10_round_trip_literal.
Print Assumptions C10_bridge_integer.
Print Assumptions C10_bridge_float.
Print Assumptions C10_bridge_literal.
Print Assumptions C10_round_trip_scannable.
Print Assumptions C10_round_trip_lexes.
Print Assumptions C10_round_trip_derivation.
Print Assumptions C10_round_trip.
Print Assumptions C10_round_trip_total.
Print Assumptions C10_round_trip_canonical.
Print Assumptions C10_round_trip_equal.
Print Assumptions C10_round_trip_equal_table.
Print Assumptions C10_text_fixpoint.
Print Assumptions C10_sets_sorted_ascending.
Print Assumptions C10_format_elides_beyond_limit.
Print Assumptions C10_round_trip_scannable_upto_elision.
Print Assumptions C10_elided_not_parsed.
Print Assumptions C10_lex_scannable_prefix_then_dot.
Print Assumptions C10_accepted_source_has_no_error_token.
Print Assumptions C10_prefix_open_error.
Print Assumptions C10_elided_not_parsed_partial.
Print Assumptions C10_text_fixpoint_narrow_keys_refuted.
Print Assumptions C10_text_fixpoint_unsorted_set_refuted.
