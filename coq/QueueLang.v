(* QueueLang.v — syntax of the micro-language into which tools/goqueue translates, statement by
   statement, the bodies of the queue_ methods of v4/collection/queue.go (GenQueue.v, regenerated
   on every run).  Definitions only.  The meaning is given in QueueSem.v. *)
From Coq Require Import ZArith List String.
Import ListNotations.

Inductive qcond := COk | CNotOk.              (* if ok { … }   /   if !ok { … } *)

Inductive qstmt :=
| SYield (kind : Z)                           (* verifYield(kind, v): a scheduling point *)
| SLock | SUnlock                             (* v.mutex_.Lock() / v.mutex_.Unlock() *)
| SAppend                                     (* v.values_.AppendValue(value) *)
| SPopHead (bind : bool)                      (* [head =] v.values_.RemoveValue(1) *)
| SSend                                       (* v.available_ <- true *)
| SRecv                                       (* _, ok = <-v.available_ *)
| SClose                                      (* close(v.available_) *)
| SLenChan (x : string)                       (* var x = len(v.available_) *)
| SLenChanIsZero (x : string)                 (* var x = len(v.available_) == 0 *)
| SSnapArray (x : string)                     (* var x = v.values_.AsArray() *)
| SSnapIter (x : string)                      (* var x = v.values_.GetIterator() *)
| SDecl (x : string)                          (* var head V / var ok bool *)
| SIf (c : qcond) (yes no : list qstmt)
| SForever (body : list qstmt)                (* for { … } *)
| SSelectRecv (onrecv ondefault : list qstmt) (* select { case _, ok := <-v.available_: … default: … } *)
| SReturn (what : list string)
| SUnknown (text : string).                   (* anything else: no meaning *)
