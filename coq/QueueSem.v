(* QueueSem.v — meaning of the micro-language of QueueLang.v, and the interleaving machine whose
   queue methods are the REGENERATED bodies of GenQueue.v (tools/goqueue, from
   v4/collection/queue.go on every run).  Definitions only; GenC04.v proves that this machine is
   step for step the hand-written machine of Conc.v, about which the C04/C05/C06 theorems are.

   A segment is the code a goroutine runs between two scheduling points (verifYield).  The
   hand-written model (and the controlled scheduler of the harness) treat a segment as ONE atomic
   step.  That is justified only if a segment performs at most one action on shared state - one
   channel operation outside the mutex, or one critical section - and touches the list only under
   the mutex.  [seg] enforces exactly this discipline while it executes: any departure is [GBad],
   which no lemma of GenC04.v accepts.  So a change of queue.go that moves an access out of its
   critical section, adds a second action to a segment, drops or moves a scheduling point, blocks
   while holding the mutex or leaves the subset breaks a proof obligation. *)
From Coq Require Import ZArith List String Bool Arith.
From Verif Require Import Base Conc QueueLang GenQueue.
Import ListNotations.
Open Scope Z_scope.
Open Scope list_scope.

(* the locals of one call *)
Record regs := { r_ok : bool; r_head : Z; r_len : nat; r_empty : bool; r_snap : list Z }.
Definition regs0 : regs := {| r_ok := false; r_head := 0; r_len := 0%nat; r_empty := false; r_snap := [] |}.
Definition set_ok (r : regs) (b : bool) : regs :=
  {| r_ok := b; r_head := r_head r; r_len := r_len r; r_empty := r_empty r; r_snap := r_snap r |}.
Definition set_head (r : regs) (v : Z) : regs :=
  {| r_ok := r_ok r; r_head := v; r_len := r_len r; r_empty := r_empty r; r_snap := r_snap r |}.
Definition set_len (r : regs) (n : nat) : regs :=
  {| r_ok := r_ok r; r_head := r_head r; r_len := n; r_empty := r_empty r; r_snap := r_snap r |}.
Definition set_empty (r : regs) (b : bool) : regs :=
  {| r_ok := r_ok r; r_head := r_head r; r_len := r_len r; r_empty := b; r_snap := r_snap r |}.
Definition set_snap (r : regs) (l : list Z) : regs :=
  {| r_ok := r_ok r; r_head := r_head r; r_len := r_len r; r_empty := r_empty r; r_snap := l |}.

Inductive segres :=
| GYield (kind : Z) (kont : list qstmt) (s : qstate) (r : regs)   (* reached the next scheduling point *)
| GEnd (s : qstate) (r : regs)                                      (* the method returned *)
| GBlocked                                                          (* the channel operation cannot proceed *)
| GPanic (s : qstate)                                               (* the goroutine panics (state at that point) *)
| GBad.                                                             (* outside the discipline / the subset / out of fuel *)

Definition with_tok (s : qstate) (n : nat) : qstate :=
  {| qvals := qvals s; qtok := n; qcap := qcap s; qclosed := qclosed s; qapp := qapp s; qpop := qpop s |}.

Definition cond_holds (c : qcond) (r : regs) : bool :=
  match c with COk => r_ok r | CNotOk => negb (r_ok r) end.

(* locked: inside the critical section; acted: this segment has already done its one shared action *)
Fixpoint seg (fuel : nat) (arg : Z) (k : list qstmt) (s : qstate) (r : regs) (locked acted : bool) : segres :=
  match fuel with
  | O => GBad
  | S fuel =>
    match k with
    | [] => if locked then GBad else GEnd s r
    | st :: k' =>
      match st with
      | SYield kind => if locked then GBad else GYield kind k' s r
      | SLock => if locked || acted then GBad else seg fuel arg k' s r true acted
      | SUnlock => if locked then seg fuel arg k' s r false true else GBad
      | SAppend =>
        if locked then
          seg fuel arg k' {| qvals := qvals s ++ [arg]; qtok := qtok s; qcap := qcap s; qclosed := qclosed s;
                             qapp := qapp s ++ [arg]; qpop := qpop s |} r locked acted
        else GBad
      | SPopHead bind =>
        if locked then
          match pop_head s with
          | Some (v, s') => seg fuel arg k' s' (if bind then set_head r v else r) locked acted
          | None => GPanic s
          end
        else GBad
      | SSend =>
        if locked || acted then GBad
        else if qclosed s then GPanic s
        else if (qtok s <? qcap s)%nat then
          seg fuel arg k' {| qvals := qvals s; qtok := S (qtok s); qcap := qcap s; qclosed := false;
                             qapp := qapp s; qpop := qpop s |} r locked true
        else GBlocked
      | SRecv =>
        if locked || acted then GBad
        else if (0 <? qtok s)%nat then seg fuel arg k' (with_tok s (qtok s - 1)) (set_ok r true) locked true
        else if qclosed s then seg fuel arg k' s (set_ok r false) locked true
        else GBlocked
      | SSelectRecv onrecv ondefault =>
        if locked || acted then GBad
        else if (0 <? qtok s)%nat then seg fuel arg (onrecv ++ k') (with_tok s (qtok s - 1)) (set_ok r true) locked true
        else if qclosed s then seg fuel arg (onrecv ++ k') s (set_ok r false) locked true
        else seg fuel arg (ondefault ++ k') s r locked true
      | SClose =>
        if acted && negb locked then GBad
        else if qclosed s then GPanic s
        else seg fuel arg k' {| qvals := qvals s; qtok := qtok s; qcap := qcap s; qclosed := true;
                                qapp := qapp s; qpop := qpop s |} r locked (if locked then acted else true)
      | SLenChan _ => if locked then seg fuel arg k' s (set_len r (qtok s)) locked acted else GBad
      | SLenChanIsZero _ => if locked then seg fuel arg k' s (set_empty r (qtok s =? 0)%nat) locked acted else GBad
      | SSnapArray _ => if locked then seg fuel arg k' s (set_snap r (qvals s)) locked acted else GBad
      | SSnapIter _ => if locked then seg fuel arg k' s (set_snap r (qvals s)) locked acted else GBad
      | SDecl x =>
        seg fuel arg k' s (if String.eqb x "head" then set_head r 0 else if String.eqb x "ok" then set_ok r false else r) locked acted
      | SIf c yes no => seg fuel arg ((if cond_holds c r then yes else no) ++ k') s r locked acted
      | SForever body => seg fuel arg (body ++ SForever body :: k') s r locked acted
      | SReturn _ => if locked then GBad else GEnd s r
      | SUnknown _ => GBad
      end
    end
  end.

(* the continuation that follows the scheduling point of a given kind inside a body *)
Fixpoint after_yield_in (fuel : nat) (kind : Z) (body after : list qstmt) : option (list qstmt) :=
  match fuel with
  | O => None
  | S fuel =>
    match body with
    | [] => None
    | SYield k :: rest => if (k =? kind) then Some (rest ++ after) else after_yield_in fuel kind rest after
    | SIf _ yes no :: rest =>
      match after_yield_in fuel kind yes (rest ++ after) with
      | Some x => Some x
      | None => match after_yield_in fuel kind no (rest ++ after) with
                | Some x => Some x
                | None => after_yield_in fuel kind rest after
                end
      end
    | SForever b :: rest =>
      match after_yield_in fuel kind b (SForever b :: rest ++ after) with
      | Some x => Some x
      | None => after_yield_in fuel kind rest after
      end
    | SSelectRecv a b :: rest =>
      match after_yield_in fuel kind a (rest ++ after) with
      | Some x => Some x
      | None => match after_yield_in fuel kind b (rest ++ after) with
                | Some x => Some x
                | None => after_yield_in fuel kind rest after
                end
      end
    | _ :: rest => after_yield_in fuel kind rest after
    end
  end.
Definition after_yield (kind : Z) (body : list qstmt) : list qstmt :=
  match after_yield_in 64 kind body [] with Some k => k | None => [SUnknown "no such scheduling point"] end.

(* what precedes the first scheduling point of a method may only declare locals *)
Fixpoint prelude_ok (body : list qstmt) : bool :=
  match body with
  | SDecl _ :: rest => prelude_ok rest
  | SYield _ :: _ => true
  | SForever (SYield _ :: _) :: _ => true
  | _ => false
  end.

(* ---- static lockset: on every path, the list is touched under the mutex only, the mutex is
   released before every scheduling point, channel operation and return ---- *)
Fixpoint lockset (fuel : nat) (locked : bool) (k : list qstmt) : option bool :=
  match fuel with
  | O => None
  | S fuel =>
    match k with
    | [] => Some locked
    | st :: k' =>
      match st with
      | SLock => if locked then None else lockset fuel true k'
      | SUnlock => if locked then lockset fuel false k' else None
      | SAppend | SPopHead _ | SLenChan _ | SLenChanIsZero _ | SSnapArray _ | SSnapIter _ =>
        if locked then lockset fuel locked k' else None
      | SYield _ | SSend | SRecv => if locked then None else lockset fuel locked k'
      | SClose | SDecl _ => lockset fuel locked k'
      | SReturn _ => if locked then None else Some false
      | SIf _ yes no =>
        match lockset fuel locked yes, lockset fuel locked no with
        | Some a, Some b => if Bool.eqb a b then lockset fuel a k' else None
        | _, _ => None
        end
      | SForever body =>
        match lockset fuel locked body with
        | Some a => if Bool.eqb a locked then lockset fuel locked k' else None
        | None => None
        end
      | SSelectRecv a b =>
        if locked then None else
        match lockset fuel false a, lockset fuel false b with
        | Some x, Some y => if Bool.eqb x y then lockset fuel x k' else None
        | _, _ => None
        end
      | SUnknown _ => None
      end
    end
  end.
Definition lockset_ok (body : list qstmt) : bool :=
  match lockset 64 false body with Some false => true | _ => false end.

(* ---- the machine over the regenerated bodies ----
   It knows nothing of the phases of Conc.v: a thread inside a call holds the continuation and the
   locals that [seg] handed back at the last scheduling point. *)
Definition body_of (c : call) : list qstmt :=
  match c with
  | CAdd _ _ => gen_AddValue
  | CRemoveHead _ => gen_RemoveHead
  | CClose _ => gen_CloseQueue
  | CRemoveAll _ => gen_RemoveAll
  | CGetSize _ => gen_GetSize
  | CIsEmpty _ => gen_IsEmpty
  | CAsArray _ => gen_AsArray
  | CWait | CDone => []
  end.
Definition queue_of (c : call) : option nat :=
  match c with
  | CAdd q _ | CRemoveHead q | CClose q | CRemoveAll q | CGetSize q | CIsEmpty q | CAsArray q => Some q
  | CWait | CDone => None
  end.
Definition arg_of (c : call) : Z := match c with CAdd _ v => v | _ => 0 end.

Definition result_of (c : call) (r : regs) : result :=
  match c with
  | CAdd _ _ => RAdded
  | CRemoveHead _ => RHead (r_head r) (r_ok r)
  | CClose _ => RClosed
  | CRemoveAll _ => RCleared
  | CGetSize _ => RSize (r_len r)
  | CIsEmpty _ => REmpty (r_empty r)
  | CAsArray _ => RArray (r_snap r)
  | CWait => RWaited
  | CDone => RDoneWg
  end.

Record gthread := {
  g_pos : option (list qstmt * regs);   (* None: not inside a method body (the next step enters the next call) *)
  g_calls : list call;
  g_loop : loop;
  g_res : list result;
  g_stuck : bool;                       (* the goroutine panicked *)
  g_bad : bool                          (* the code left the discipline of [seg]: no theorem covers it *)
}.
Record gconfig := { gqueues : list qstate; gwg : nat; gthreads : list gthread }.

Definition dummyg : gthread :=
  {| g_pos := None; g_calls := []; g_loop := LNone; g_res := []; g_stuck := true; g_bad := false |}.
Definition ggett (c : gconfig) (t : nat) : gthread := nth t (gthreads c) dummyg.
Definition gsett (c : gconfig) (t : nat) (th : gthread) : gconfig :=
  {| gqueues := gqueues c; gwg := gwg c; gthreads := set_nth t th (gthreads c) |}.
Definition ggetq (c : gconfig) (q : nat) : qstate := nth q (gqueues c) dummyq.
Definition gsetq (c : gconfig) (q : nat) (s : qstate) : gconfig :=
  {| gqueues := set_nth q s (gqueues c); gwg := gwg c; gthreads := gthreads c |}.

Definition gfinish (th : gthread) (rest : list call) (r : result) : gthread :=
  {| g_pos := None; g_calls := rest; g_loop := g_loop th; g_res := g_res th ++ [r]; g_stuck := false; g_bad := false |}.
Definition gfinish_head (th : gthread) (rest : list call) (v : Z) (ok : bool) : gthread :=
  let '(more, l') := continue (g_loop th) v ok in
  {| g_pos := None; g_calls := rest ++ more; g_loop := l'; g_res := g_res th ++ [RHead v ok]; g_stuck := false; g_bad := false |}.
Definition gstuck (th : gthread) : gthread :=
  {| g_pos := g_pos th; g_calls := g_calls th; g_loop := g_loop th; g_res := g_res th ++ [RPanicked]; g_stuck := true; g_bad := g_bad th |}.
Definition gbad (th : gthread) : gthread :=
  {| g_pos := g_pos th; g_calls := g_calls th; g_loop := g_loop th; g_res := g_res th; g_stuck := true; g_bad := true |}.
Definition gat (th : gthread) (k : list qstmt) (r : regs) : gthread :=
  {| g_pos := Some (k, r); g_calls := g_calls th; g_loop := g_loop th; g_res := g_res th; g_stuck := false; g_bad := false |}.

Definition seg_fuel : nat := 64.

(* the segment a thread runs when it is scheduled: from where it waits to the next scheduling point.
   A thread that is not inside a body first enters the body of its next call; what precedes the
   first scheduling point of a method may only declare locals. *)
Definition gsegment (cl : call) (pos : option (list qstmt * regs)) (s : qstate) : segres :=
  match pos with
  | Some (k, r) => seg seg_fuel (arg_of cl) k s r false false
  | None =>
    if prelude_ok (body_of cl) then
      match seg seg_fuel (arg_of cl) (body_of cl) s regs0 false false with
      | GYield _ k _ r => seg seg_fuel (arg_of cl) k s r false false
      | _ => GBad
      end
    else GBad
  end.

Definition gstep (c : gconfig) (t : nat) : option gconfig :=
  let th := ggett c t in
  if g_stuck th then None else
  match g_calls th with
  | [] => None
  | CWait :: rest => if (gwg c =? 0)%nat then Some (gsett c t (gfinish th rest RWaited)) else None
  | CDone :: rest =>
    Some (gsett {| gqueues := gqueues c; gwg := gwg c - 1; gthreads := gthreads c |} t (gfinish th rest RDoneWg))
  | cl :: rest =>
    match queue_of cl with
    | None => None
    | Some q =>
      match gsegment cl (g_pos th) (ggetq c q) with
      | GBlocked => None
      | GPanic s' => Some (gsett (gsetq c q s') t (gstuck th))
      | GBad => Some (gsett c t (gbad th))
      | GEnd s' r =>
        Some (gsett (gsetq c q s') t
                    (match cl with
                     | CRemoveHead _ => gfinish_head th rest (r_head r) (r_ok r)
                     | _ => gfinish th rest (result_of cl r)
                     end))
      | GYield _ k' s' r => Some (gsett (gsetq c q s') t (gat th k' r))
      end
    end
  end.

Fixpoint grun (c : gconfig) (sched : list nat) : gconfig :=
  match sched with
  | [] => c
  | t :: rest => match gstep c t with Some c' => grun c' rest | None => grun c rest end
  end.

(* a program of Conc.v (every thread between calls) loaded into this machine *)
Definition gload_thread (th : thread) : gthread :=
  {| g_pos := None; g_calls := tcalls th; g_loop := tloop th; g_res := tres th;
     g_stuck := match tph th with PStuck => true | _ => false end; g_bad := false |}.
Definition gload (c : config) : gconfig :=
  {| gqueues := queues c; gwg := wg c; gthreads := map gload_thread (threads c) |}.
