(* CollateOrd.v — generic order-theoretic lemmas used by the collator proofs (C07, C08):
   three-valued comparisons, their lexicographic combinations, and the "swap the longer
   list first" form used by rankArrays / rankMaps. *)
From Verif Require Import Base.
From Coq Require Import Permutation Sorted.

(* strong transitivity of three comparison results r(a,b), r(b,c), r(a,c) *)
Definition ctr (c1 c2 c3 : comparison) : Prop :=
  match c1, c2 with
  | Eq, c => c3 = c
  | c, Eq => c3 = c
  | Lt, Lt => c3 = Lt
  | Gt, Gt => c3 = Gt
  | _, _ => True
  end.

(* "first key, then second key" *)
Definition cthen (c1 c2 : comparison) : comparison :=
  match c1 with Eq => c2 | c => c end.

Lemma ctr_le : forall c1 c2 c3, ctr c1 c2 c3 -> c1 <> Gt -> c2 <> Gt -> c3 <> Gt.
Proof. intros [] [] c3 H; simpl in H; subst; congruence. Qed.

Lemma ctr_cthen : forall a1 a2 a3 b1 b2 b3,
  ctr a1 a2 a3 -> ctr b1 b2 b3 -> ctr (cthen a1 b1) (cthen a2 b2) (cthen a3 b3).
Proof.
  intros a1 a2 a3 b1 b2 b3 Ha Hb.
  destruct a1, a2; simpl in Ha; subst; simpl; auto;
  destruct b1; simpl; auto; destruct b2; simpl; auto.
Qed.

Lemma cthen_opp : forall a b, CompOpp (cthen a b) = cthen (CompOpp a) (CompOpp b).
Proof. intros [] b; reflexivity. Qed.

Lemma cthen_eq : forall a b, cthen a b = Eq <-> a = Eq /\ b = Eq.
Proof. intros [] b; simpl; split; intros; try tauto; try discriminate; destruct H; discriminate. Qed.

Lemma Zcompare_ctr : forall a b c : Z, ctr (a ?= b)%Z (b ?= c)%Z (a ?= c)%Z.
Proof.
  intros a b c.
  destruct (Z.compare_spec a b), (Z.compare_spec b c), (Z.compare_spec a c);
  simpl; auto; lia.
Qed.

(* tagged comparison: first an integer tag, then (for equal tags) an inner comparison *)
Lemma ctr_tag : forall (ta tb tc : Z) X Y W,
  (ta = tb -> tb = tc -> ctr X Y W) ->
  ctr (cthen (ta ?= tb)%Z X) (cthen (tb ?= tc)%Z Y) (cthen (ta ?= tc)%Z W).
Proof.
  intros ta tb tc X Y W H.
  destruct (Z.compare_spec ta tb), (Z.compare_spec tb tc), (Z.compare_spec ta tc);
  try lia; simpl; auto; try (destruct X; simpl; auto; fail); try (destruct Y; simpl; auto; fail).
  all: try (destruct X, Y; simpl; auto; fail).
Qed.

Section Lex.
Context {A : Type}.
Variable r : A -> A -> comparison.

Fixpoint lex (xs ys : list A) : comparison :=
  match xs, ys with
  | [], [] => Eq | [], _ => Lt | _, [] => Gt
  | x :: xs', y :: ys' => cthen (r x y) (lex xs' ys')
  end.

(* the collator's "swap so that the shorter list comes first, then mirror the result" *)
Definition lexswap (xs ys : list A) : comparison :=
  if length ys <? length xs then CompOpp (lex ys xs) else lex xs ys.

Lemma lex_refl : forall xs, (forall x, In x xs -> r x x = Eq) -> lex xs xs = Eq.
Proof.
  induction xs as [|x xs IH]; intros H; simpl; auto.
  rewrite H by (left; auto). simpl. apply IH. intros; apply H; right; auto.
Qed.

Lemma lex_anti : forall xs ys,
  (forall x y, In x xs -> In y ys -> r y x = CompOpp (r x y)) ->
  lex ys xs = CompOpp (lex xs ys).
Proof.
  induction xs as [|x xs IH]; destruct ys as [|y ys]; intros H; simpl; auto.
  rewrite cthen_opp, H by (left; auto). f_equal. apply IH. intros; apply H; right; auto.
Qed.

Lemma lexswap_lex : forall xs ys,
  (forall x y, In x xs -> In y ys -> r y x = CompOpp (r x y)) ->
  lexswap xs ys = lex xs ys.
Proof.
  intros xs ys H. unfold lexswap. destruct (length ys <? length xs); auto.
  rewrite (lex_anti xs ys H). apply CompOpp_involutive.
Qed.

Lemma lex_ctr : forall xs ys zs,
  (forall x y z, In x xs -> In y ys -> In z zs -> ctr (r x y) (r y z) (r x z)) ->
  ctr (lex xs ys) (lex ys zs) (lex xs zs).
Proof.
  induction xs as [|x xs IH]; destruct ys as [|y ys]; destruct zs as [|z zs]; intros H; simpl; auto.
  - destruct (cthen (r y z) (lex ys zs)); simpl; auto.
  - destruct (cthen (r x y) (lex xs ys)); simpl; auto.
  - apply ctr_cthen.
    + apply H; left; auto.
    + apply IH. intros; apply H; right; auto.
Qed.

Lemma lex_eq_iff : forall xs ys,
  lex xs ys = Eq <-> Forall2 (fun x y => r x y = Eq) xs ys.
Proof.
  induction xs as [|x xs IH]; destruct ys as [|y ys]; simpl; split; intros H.
  - constructor.
  - reflexivity.
  - discriminate.
  - inversion H.
  - discriminate.
  - inversion H.
  - apply cthen_eq in H. constructor; [tauto|]. apply IH; tauto.
  - inversion H; subst. apply cthen_eq. split; auto. apply IH; auto.
Qed.

Lemma lex_prefix : forall xs y ys,
  (forall x, In x xs -> r x x = Eq) -> lex xs (xs ++ y :: ys) = Lt.
Proof.
  induction xs as [|x xs IH]; intros y ys H; simpl; auto.
  rewrite H by (left; auto). simpl. apply IH. intros; apply H; right; auto.
Qed.

Lemma lex_ext : forall (r' : A -> A -> comparison) xs ys,
  (forall x y, In x xs -> In y ys -> r x y = r' x y) ->
  lex xs ys = (fix lex' (xs ys : list A) : comparison :=
     match xs, ys with
     | [], [] => Eq | [], _ => Lt | _, [] => Gt
     | x :: xs', y :: ys' => cthen (r' x y) (lex' xs' ys')
     end) xs ys.
Proof.
  induction xs as [|x xs IH]; destruct ys as [|y ys]; intros H; simpl; auto.
  rewrite H by (left; auto). f_equal. apply IH. intros; apply H; right; auto.
Qed.
End Lex.

Lemma lex_ext2 {A} : forall (r r' : A -> A -> comparison) xs ys,
  (forall x y, In x xs -> In y ys -> r x y = r' x y) -> lex r xs ys = lex r' xs ys.
Proof. intros. apply lex_ext; auto. Qed.

Lemma lexswap_ext {A} : forall (r r' : A -> A -> comparison) xs ys,
  (forall x y, In x xs -> In y ys -> r x y = r' x y /\ r y x = r' y x) ->
  lexswap r xs ys = lexswap r' xs ys.
Proof.
  intros r r' xs ys H. unfold lexswap.
  rewrite (lex_ext2 r r' xs ys) by (intros x y Hx Hy; destruct (H x y Hx Hy); auto).
  rewrite (lex_ext2 r r' ys xs) by (intros y x Hy Hx; destruct (H x y Hx Hy); auto). reflexivity.
Qed.
