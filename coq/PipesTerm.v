(* PipesTerm.v — property C06, termination: every micro-step of a reachable configuration of the
   Fork / Split / Split-then-Join programs decreases the measure [mu] (PipesMeasure.v), so strict
   runs are bounded; together with PipesLive.v every maximal run ends final with exactly the
   expected streams delivered. *)
From Verif Require Import Base Conc Pipes PipesGen PipesRoles PipesFork PipesSplit PipesSJ
     PipesProofs PipesMeasure PipesLive.
Close Scope Z_scope.
Open Scope nat_scope.

Definition reachable (prog c : config) : Prop := exists sched, c = run prog sched.

Lemma reachable_step prog c t c' : reachable prog c -> step c t = Some c' -> reachable prog c'.
Proof.
  intros [sched ->] Hs. exists (sched ++ [t]). rewrite run_app. simpl. now rewrite Hs.
Qed.

Lemma family_mu_step w N c t c' P R :
  fp_all c P R ->
  (forall kk q, opof (gett c t) = Some (kk, q) -> q < length (queues c) /\ chan c q (P q) (R q)) ->
  step c t = Some c' -> tph (gett c' t) <> PStuck ->
  (forall q, q < length (queues c) -> length (qapp (getq c q)) <= N q) ->
  (forall q, opof (gett c t) = Some (KPop, q) -> loop_need (tloop (gett c t)) <= w q) ->
  mu w N c' < mu w N c.
Proof.
  intros Hfp Hch Hs Hns Hb Hneed. apply mu_step with t; auto.
  - intros q Hop. destruct (Hch _ _ Hop) as [Hq [H1 H2 _ _]].
    pose proof (Hfp t KPop q Hop) as Ht. simpl in Ht. subst t.
    assert (Hph : tph (gett c (R q)) = PPop q).
    { unfold opof in Hop. destruct (tph (gett c (R q))); try discriminate.
      - destruct (tcalls (gett c (R q))) as [|[] ?]; discriminate.
      - now injection Hop as ->. }
    rewrite Hph, isPop_same in H2. specialize (Hb q Hq). rewrite H1, app_length in Hb.
    split; [lia|]. split; auto.
  - intros q. split; intros Hop.
    + apply (Hfp t KRemAll q Hop).
    + apply (Hfp t KDisc q Hop).
Qed.

Lemma consumer_need q th pop cl tok : consumer_ok q th pop cl tok -> loop_need (tloop th) <= 2.
Proof. intros [? ? Hl ? ?|? ? Hl ? ?|? ? Hl ? ? ? ?]; rewrite Hl; simpl; lia. Qed.

Lemma forkh_need vs k th pop0 cl0 app cl :
  forkh_ok vs k th pop0 cl0 app cl -> loop_need (tloop th) <= 2 * k + 2.
Proof.
  intros Hok.
  destruct Hok as [m v Hph Hc Hl Hm Ha1 Ha2 Hop|m v Hph Hc Hl Hm Ha1 Ha2 Hop|Hph Hc Hl Ha Hop
                  |m Hph Hc Hl Hm Ha Hvs Hc0 Hc1 Hc2|Hph Hc Hl Hdn Ha Hvs Hc0 Hc1];
    rewrite Hl; simpl; rewrite ?seq_length; lia.
Qed.

Lemma splith_need vs k th pop0 cl0 app cl D :
  splith_ok vs k th pop0 cl0 app cl D -> loop_need (tloop th) <= 4.
Proof.
  intros Hok.
  destruct Hok as [cur Hph Hc Hl Hcur HD Ha Hop|cur Hph Hc Hl Hcur HD Ha Hop
                  |v cu cur Hph Hc Hl Hcur HD Hcu Ha Hop|v cu cur Hph Hc Hl Hcur HD Hcu Ha Hop
                  |m Hph Hc Hl Hm HD Ha Hvs Hc0 Hc1 Hc2|Hph Hc Hl Hdn HD Ha Hvs Hc0 Hc1];
    rewrite Hl; simpl; lia.
Qed.

Lemma joinh_need vs k th pops appo clo F :
  joinh_ok vs k th pops appo clo F -> loop_need (tloop th) <= 4.
Proof.
  intros Hok.
  destruct Hok as [cur Hph Hc Hl Hcur HF Hcl Hp|cur Hph Hc Hl Hcur HF Hcl Hp
                  |v cur Hph Hc Hl Hcur HF Hcl Hp|v cur Hph Hc Hl Hcur HF Hcl Hp
                  |Hph Hc Hl HF Hvs Hcl Hp|Hph Hc Hl HF Hvs Hcl Hp|Hph Hc Hl Hdn HF Hvs Hcl Hp];
    rewrite Hl; simpl; lia.
Qed.

Lemma sj_D_prefix' vs k cap c D : sj_inv vs k cap c ->
  splith_ok vs k (gett c 0) (qpop (getq c 0)) (qclosed (getq c 0)) (view_app c) (view_cl c) D ->
  prefix D vs.
Proof.
  intros I HD. destruct (splith_facts _ _ _ _ _ _ _ _ HD) as [HDp _].
  apply prefix_trans with (qpop (getq c 0)); auto.
  apply prefix_trans with (qapp (getq c 0)).
  - apply (chan_pop_prefix c 0 _ _ (ji_ch _ _ _ _ I 0 (Nat.le_0_l _))).
  - apply (feeder_prefix _ _ _ _ (ji_f _ _ _ _ I)).
Qed.

(* ---------- the measures ---------- *)
Definition fork_w (k q : nat) : nat := match q with 0 => 2 * k + 2 | _ => 2 end.
Definition fork_N (vs : list Z) (q : nat) : nat := length vs.
Definition fork_mu vs k := mu (fork_w k) (fork_N vs).

Definition split_w (q : nat) : nat := match q with 0 => 4 | _ => 2 end.
Definition split_N (vs : list Z) (k q : nat) : nat :=
  match q with 0 => length vs | _ => length (rr k (q - 1) vs) end.
Definition split_mu vs k := mu split_w (split_N vs k).

Definition sj_w (k q : nat) : nat := if q <=? k then 4 else 2.
Definition sj_N (vs : list Z) (k q : nat) : nat :=
  match q with 0 => length vs | _ => if q <=? k then length (rr k (q - 1) vs) else length vs end.
Definition sj_mu vs k := mu (sj_w k) (sj_N vs k).

Section Term.
Variables (vs : list Z) (k cap : nat).
Hypothesis Hk : 1 <= k.

Lemma fork_mu_step sched t c' :
  let c := run (fork_prog vs k cap) sched in
  step c t = Some c' -> fork_mu vs k c' < fork_mu vs k c.
Proof.
  intros c Hs. pose proof (fork_reachable vs k cap Hk sched) as I. fold c in I.
  pose proof (fork_step vs k cap Hk c t c' I Hs) as I'.
  destruct (fork_fp vs k cap Hk c I) as [Hfp Hrange].
  apply family_mu_step with t fP fR; auto.
  - intros kk q Hop. pose proof (Hrange _ _ _ Hop). rewrite (fi_nq _ _ _ _ I).
    split; [lia|]. now apply (fi_ch _ _ _ _ I).
  - apply (fork_no_stuck vs k cap c' I'). rewrite (fi_nt _ _ _ _ I').
    pose proof (step_some_lt _ _ _ Hs) as Hlt. now rewrite (fi_nt _ _ _ _ I) in Hlt.
  - intros q Hq. rewrite (fi_nq _ _ _ _ I) in Hq. unfold fork_N. apply prefix_length.
    destruct q as [|q].
    + apply (feeder_prefix _ _ _ _ (fi_f _ _ _ _ I)).
    + apply (fork_safe vs k cap sched (S q)); auto. lia.
  - intros q Hop. pose proof (Hrange _ _ _ Hop) as Hq. pose proof (Hfp t KPop q Hop) as Ht.
    simpl in Ht. subst t. destruct q as [|q]; simpl.
    + apply (forkh_need _ _ _ _ _ _ _ (fi_h _ _ _ _ I)).
    + apply (consumer_need _ _ _ _ _ (fi_c _ _ _ _ I (S q) ltac:(lia))).
Qed.

Lemma split_mu_step sched t c' :
  let c := run (split_prog vs k cap) sched in
  step c t = Some c' -> split_mu vs k c' < split_mu vs k c.
Proof.
  intros c Hs. pose proof (split_reachable vs k cap Hk sched) as I. fold c in I.
  pose proof (split_step vs k cap Hk c t c' I Hs) as I'.
  destruct (split_fp vs k cap Hk c I) as [Hfp Hrange].
  apply family_mu_step with t fP fR; auto.
  - intros kk q Hop. pose proof (Hrange _ _ _ Hop). rewrite (si_nq _ _ _ _ I).
    split; [lia|]. now apply (si_ch _ _ _ _ I).
  - apply (split_no_stuck vs k cap c' I'). rewrite (si_nt _ _ _ _ I').
    pose proof (step_some_lt _ _ _ Hs) as Hlt. now rewrite (si_nt _ _ _ _ I) in Hlt.
  - intros q Hq. rewrite (si_nq _ _ _ _ I) in Hq. unfold split_N.
    destruct q as [|q]; apply prefix_length.
    + apply (feeder_prefix _ _ _ _ (si_f _ _ _ _ I)).
    + apply (split_safe vs k cap sched (S q)); auto. lia.
  - intros q Hop. pose proof (Hrange _ _ _ Hop) as Hq. pose proof (Hfp t KPop q Hop) as Ht.
    simpl in Ht. subst t. destruct (si_h _ _ _ _ I) as [D HD]. destruct q as [|q]; simpl.
    + apply (splith_need _ _ _ _ _ _ _ _ HD).
    + apply (consumer_need _ _ _ _ _ (si_c _ _ _ _ I (S q) ltac:(lia))).
Qed.

Lemma sj_mu_step sched t c' :
  let c := run (splitjoin_prog vs k cap) sched in
  step c t = Some c' -> sj_mu vs k c' < sj_mu vs k c.
Proof.
  intros c Hs. pose proof (sj_reachable vs k cap Hk sched) as I. fold c in I.
  pose proof (sj_step vs k cap Hk c t c' I Hs) as I'.
  destruct (sj_fp vs k cap Hk c I) as [Hfp Hrange].
  destruct (ji_h _ _ _ _ I) as (D & F & HD & HF & HFD).
  apply family_mu_step with t (jP k) (jR k); auto.
  - intros kk q Hop. pose proof (Hrange _ _ _ Hop). rewrite (ji_nq _ _ _ _ I).
    split; [lia|]. now apply (ji_ch _ _ _ _ I).
  - apply (sj_no_stuck vs k cap c' Hk I'). rewrite (ji_nt _ _ _ _ I').
    pose proof (step_some_lt _ _ _ Hs) as Hlt. now rewrite (ji_nt _ _ _ _ I) in Hlt.
  - intros q Hq. rewrite (ji_nq _ _ _ _ I) in Hq. unfold sj_N. destruct q as [|q].
    + apply prefix_length. apply (feeder_prefix _ _ _ _ (ji_f _ _ _ _ I)).
    + destruct (Nat.leb_spec (S q) k) as [Hle|Hgt].
      * destruct (splith_facts _ _ _ _ _ _ _ _ HD) as [_ Ha]. specialize (Ha (S q) ltac:(lia)).
        unfold view_app in Ha. rewrite Ha. simpl. rewrite Nat.sub_0_r.
        apply prefix_length, rr_prefix. now apply (sj_D_prefix' vs k cap c D).
      * replace (S q) with (S k) by lia. apply prefix_length.
        apply (splitjoin_safe vs k cap sched Hk).
  - intros q Hop. pose proof (Hrange _ _ _ Hop) as Hq. pose proof (Hfp t KPop q Hop) as Ht.
    simpl in Ht. subst t. unfold sj_w, jR. destruct q as [|q]; simpl.
    + apply (splith_need _ _ _ _ _ _ _ _ HD).
    + destruct (Nat.leb_spec (S q) k) as [Hle|Hgt].
      * destruct k; [lia|]. destruct (Nat.leb_spec q n); [|lia].
        apply (joinh_need _ _ _ _ _ _ _ HF).
      * destruct k; [lia|]. destruct (Nat.leb_spec q n); [lia|].
        replace (S q) with (S (S n)) by lia. apply (consumer_need _ _ _ _ _ (ji_c _ _ _ _ I)).
Qed.

End Term.

(* ---------- the termination theorems ---------- *)
Definition quiet (c : config) : Prop := forall t, step c t = None.

Theorem fork_terminate vs k cap :
  1 <= k -> 1 <= cap ->
  let prog := fork_prog vs k cap in
  (forall sched t c', step (run prog sched) t = Some c' ->
     fork_mu vs k c' < fork_mu vs k (run prog sched)) /\
  (forall sched c', run_strict prog sched = Some c' -> length sched <= fork_mu vs k prog) /\
  (forall sched, let c := run prog sched in quiet c ->
     final c = true /\ no_stuck c /\ wg c = 0 /\ all_closed_empty c /\
     forall j, 1 <= j <= k ->
       qapp (getq c j) = vs /\ received (tres (gett c (S j))) = vs /\
       told_closed (tres (gett c (S j)))).
Proof.
  intros Hk Hcap prog. split; [|split].
  - intros sched t c'. now apply fork_mu_step.
  - intros sched c' Hr.
    pose proof (run_strict_bound (reachable prog) (fork_mu vs k)) as B.
    specialize (B ltac:(intros c t c1 [s ->] Hs; split;
                        [apply (reachable_step prog (run prog s) t c1); auto; now exists s
                        |apply (fork_mu_step vs k cap Hk s t c1 Hs)])).
    specialize (B sched prog c' ltac:(now exists []) Hr). lia.
  - intros sched c Hq. apply (fork_quiescent_final vs k cap Hk Hcap); auto.
    now apply fork_reachable.
Qed.

Theorem split_terminate vs k cap :
  1 <= k -> 1 <= cap ->
  let prog := split_prog vs k cap in
  (forall sched t c', step (run prog sched) t = Some c' ->
     split_mu vs k c' < split_mu vs k (run prog sched)) /\
  (forall sched c', run_strict prog sched = Some c' -> length sched <= split_mu vs k prog) /\
  (forall sched, let c := run prog sched in quiet c ->
     final c = true /\ no_stuck c /\ wg c = 0 /\ all_closed_empty c /\
     forall j, 1 <= j <= k ->
       qapp (getq c j) = rr k (j - 1) vs /\ received (tres (gett c (S j))) = rr k (j - 1) vs /\
       told_closed (tres (gett c (S j)))).
Proof.
  intros Hk Hcap prog. split; [|split].
  - intros sched t c'. now apply split_mu_step.
  - intros sched c' Hr.
    pose proof (run_strict_bound (reachable prog) (split_mu vs k)) as B.
    specialize (B ltac:(intros c t c1 [s ->] Hs; split;
                        [apply (reachable_step prog (run prog s) t c1); auto; now exists s
                        |apply (split_mu_step vs k cap Hk s t c1 Hs)])).
    specialize (B sched prog c' ltac:(now exists []) Hr). lia.
  - intros sched c Hq. apply (split_quiescent_final vs k cap Hk Hcap); auto.
    now apply split_reachable.
Qed.

Theorem splitjoin_terminate vs k cap :
  1 <= k -> 1 <= cap ->
  let prog := splitjoin_prog vs k cap in
  (forall sched t c', step (run prog sched) t = Some c' ->
     sj_mu vs k c' < sj_mu vs k (run prog sched)) /\
  (forall sched c', run_strict prog sched = Some c' -> length sched <= sj_mu vs k prog) /\
  (forall sched, let c := run prog sched in quiet c ->
     final c = true /\ no_stuck c /\ wg c = 0 /\ all_closed_empty c /\
     qapp (getq c (S k)) = vs /\ received (tres (gett c 3)) = vs /\ told_closed (tres (gett c 3))).
Proof.
  intros Hk Hcap prog. split; [|split].
  - intros sched t c'. now apply sj_mu_step.
  - intros sched c' Hr.
    pose proof (run_strict_bound (reachable prog) (sj_mu vs k)) as B.
    specialize (B ltac:(intros c t c1 [s ->] Hs; split;
                        [apply (reachable_step prog (run prog s) t c1); auto; now exists s
                        |apply (sj_mu_step vs k cap Hk s t c1 Hs)])).
    specialize (B sched prog c' ltac:(now exists []) Hr). lia.
  - intros sched c Hq. apply (sj_quiescent_final vs k cap Hk Hcap); auto.
    now apply sj_reachable.
Qed.

(* every input position goes to exactly one Split output: element i of the stream is element
   i / k of the class i mod k, and the classes together have as many elements as the stream *)
Theorem rr_position k l i d : 1 <= k -> nth (i / k) (rr k (i mod k) l) d = nth i l d.
Proof.
  intros Hk. rewrite rr_nth; auto.
  - f_equal. pose proof (Nat.div_mod i k ltac:(lia)). lia.
  - apply Nat.mod_upper_bound. lia.
Qed.
