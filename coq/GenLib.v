(* GenLib.v — tactics for the symbolic execution of MiniGo terms and small facts about slices, shared
   by the Gen*.v proof files.  Nothing here is specific to one generated function. *)
From Verif Require Import Base MiniGo GenSrc GenRep.

(* the kernel re-checks every reduction step at Qed; it must not unfold the interpreter's fixpoint on its
   own initiative (exponential): unfold it last *)
Strategy opaque [interp_at].

Section Unfold.
Variable A : Type.
Variable zero : A.
Variable ext : ident -> ident -> val A -> list (val A) -> option (val A).
Variable prog : program.
Notation I := (interp_at A zero ext prog).
(* stated with all the arguments, so that rewriting touches the computation in head position only, not the
   occurrences (with bound environments) inside the continuations *)
Lemma eval_S f e en : i_eval (I (S f)) e en = eval_step A zero prog (I f) e en.
Proof. reflexivity. Qed.
Lemma assign_S f t v en : i_assign (I (S f)) t v en = assign_step A (I f) t v en.
Proof. reflexivity. Qed.
Lemma exec_S f s en : i_exec (I (S f)) s en = exec_step A zero (I f) s en.
Proof. reflexivity. Qed.
Lemma loop_S f c post body en :
  i_loop (I (S f)) c post body en = loop_step A (I f) (i_loop (I f) c post body) c post body en.
Proof. reflexivity. Qed.
Lemma call_S f recv m args : i_call (I (S f)) recv m args = call_step A ext prog (I f) recv m args.
Proof. reflexivity. Qed.
End Unfold.

(* Symbolic execution: the interpreter is unfolded one level at a time by rewriting with eval_S /
   assign_S / exec_S (never under a binder: a continuation is not touched before the computation in
   front of it has produced its value), then the exposed step function is reduced.  Loops (i_loop) and
   calls (i_call) are left alone: they are rewritten with lemmas, or entered with [goloop] / [gocall]. *)
Ltac gored :=
  unfold call_at;
  cbn [Nat.add i_eval i_assign i_exec i_loop i_call eval_step assign_step exec_step call_step
       loop_step evals fields execs assigns select matches range type_of find_fn Pos.eqb andb orb negb
       bind_all set lookup rbind at_state zero_of arith spread length Nat.eqb ret_val as_slice re_slice fold_left
       is_place is_lplace fst snd app Bool.eqb fn_recv fn_params fn_wb fn_body tag_args untag bare find_tag collect_wb with_wb un_wb store_wbs existsb nth_error Nat.pred it_val it_rep arr_val lst_val lcls_val stk_val set_val col_val rank_ext cmp_ext srt_val ranker_val].

(* look a method (or a struct declaration) up in the generated program, by computation *)
Ltac gofind :=
  match goal with
  | |- context[find_fn ?l ?t ?m] =>
    let r := eval cbv in (find_fn l t m) in change (find_fn l t m) with r
  | |- context[@lookup ?X ?t (p_structs ?p)] =>
    let r := eval cbv in (@lookup X t (p_structs p)) in change (@lookup X t (p_structs p)) with r
  end.

Ltac gostep := first [rewrite eval_S | rewrite assign_S | rewrite exec_S | gofind].
Ltac gorun := gored; repeat (gostep; gored).
(* enter the call / the loop iteration that is in head position now *)
Ltac gocall := gored; rewrite call_S; gorun.
Ltac goloop := gored; rewrite loop_S; unfold loop_step; gorun.
(* enter every call *)
Ltac gorun_in := gorun; repeat (rewrite call_S; gorun).

(* case analysis on one comparison of the goal whose operands are free of conditionals (innermost first) *)
Ltac noif t := lazymatch t with context[if _ then _ else _] => fail | _ => idtac end.
Ltac zsplit :=
  match goal with
  | |- context[Z.ltb ?a ?b] => noif a; noif b; destruct (Z.ltb_spec a b)
  | |- context[Z.leb ?a ?b] => noif a; noif b; destruct (Z.leb_spec a b)
  | |- context[Z.eqb ?a ?b] => noif a; noif b; destruct (Z.eqb_spec a b)
  | |- context[Nat.ltb ?a ?b] => noif a; noif b; destruct (Nat.ltb_spec a b)
  | |- context[Nat.leb ?a ?b] => noif a; noif b; destruct (Nat.leb_spec a b)
  | |- context[Nat.eqb ?a ?b] => noif a; noif b; destruct (Nat.eqb_spec a b)
  end.

(* run; split on the comparisons met; drop impossible branches *)
Ltac gogo := gorun; repeat (zsplit; try (exfalso; lia); gorun).
(* close an equation between results: congruence down to arithmetic *)
Ltac goeq := repeat (f_equal; try reflexivity); try lia.

(* "for all fuel >= K": rewrite the fuel as K + f *)
Ltac fuel F K :=
  let f := fresh "f" in
  let E := fresh in
  remember (F - K) as f eqn:E; assert (F = K + f) by lia; clear E; subst F.

Section Facts.
Variable A : Type.
Variable zero : A.

Lemma lookup_set_same {X} (x : ident) (v : X) (l : list (ident * X)) : lookup x (set x v l) = Some v.
Proof.
  induction l as [|[y w] t IH]; cbn [set lookup].
  - rewrite Pos.eqb_refl. reflexivity.
  - destruct (Pos.eqb x y) eqn:E; cbn [lookup]; rewrite E; [reflexivity|exact IH].
Qed.

Lemma lookup_set_other {X} (x y : ident) (v : X) (l : list (ident * X)) :
  x <> y -> lookup x (set y v l) = lookup x l.
Proof.
  intros N. induction l as [|[z w] t IH]; cbn [set lookup].
  - destruct (Pos.eqb_spec x y); [contradiction|reflexivity].
  - destruct (Pos.eqb_spec y z) as [->|Nz]; cbn [lookup].
    + destruct (Pos.eqb_spec x z); [contradiction|reflexivity].
    + destruct (Pos.eqb x z); [reflexivity|exact IH].
Qed.

Lemma elems_length (l : list A) : length (elems l) = length l.
Proof. apply map_length. Qed.

Lemma zidx_elems (l : list A) (i : Z) :
  (0 <= i < Z.of_nat (length l))%Z -> zidx A (elems l) i = Some (VElem (nth (Z.to_nat i) l zero)).
Proof.
  intros H. unfold zidx. destruct (Z.ltb_spec i 0); [lia|].
  unfold elems. rewrite nth_error_map.
  rewrite (nth_error_nth' l zero) by lia. reflexivity.
Qed.

Lemma zidx_none (l : list (val A)) (i : Z) :
  (i < 0 \/ Z.of_nat (length l) <= i)%Z -> zidx A l i = None.
Proof.
  intros H. unfold zidx. destruct (Z.ltb_spec i 0); [reflexivity|].
  apply nth_error_None. lia.
Qed.

Lemma zset_elems (l : list A) (i : Z) (a : A) :
  (0 <= i < Z.of_nat (length l))%Z -> zset A (elems l) i (VElem a) = Some (elems (set_nth (Z.to_nat i) a l)).
Proof.
  intros H. unfold zset. rewrite elems_length.
  destruct (Z.ltb_spec i 0); [lia|]. destruct (Z.leb_spec (Z.of_nat (length l)) i); [lia|].
  cbn [orb]. f_equal. unfold elems. generalize (Z.to_nat i) as k. clear.
  induction l as [|h t IH]; intros [|k]; cbn; try reflexivity. rewrite IH. reflexivity.
Qed.

Lemma zset_none (l : list (val A)) (i : Z) (v : val A) :
  (i < 0 \/ Z.of_nat (length l) <= i)%Z -> zset A l i v = None.
Proof.
  intros H. unfold zset.
  destruct (Z.ltb_spec i 0); [reflexivity|]. destruct (Z.leb_spec (Z.of_nat (length l)) i); [reflexivity|lia].
Qed.

Lemma elems_repeat (n : nat) : repeat (VElem zero) n = elems (repeat zero n).
Proof. unfold elems. induction n as [|n IH]; cbn; [reflexivity|]. rewrite IH. reflexivity. Qed.

Lemma elems_firstn (n : nat) (l : list A) : firstn n (elems l) = elems (firstn n l).
Proof. unfold elems. apply firstn_map. Qed.
Lemma elems_skipn (n : nat) (l : list A) : skipn n (elems l) = elems (skipn n l).
Proof. unfold elems. apply skipn_map. Qed.
Lemma elems_app (a b : list A) : elems a ++ elems b = elems (a ++ b).
Proof. unfold elems. symmetry. apply map_app. Qed.

Lemma zsub_elems (l : list A) (lo hi : Z) : (0 <= lo <= hi)%Z -> (hi <= Z.of_nat (length l))%Z ->
  zsub A (elems l) lo hi = Some (elems (firstn (Z.to_nat (hi - lo)) (skipn (Z.to_nat lo) l))).
Proof.
  intros H1 H2. unfold zsub. rewrite elems_length.
  destruct (Z.ltb_spec lo 0); [lia|]. destruct (Z.ltb_spec hi lo); [lia|].
  destruct (Z.ltb_spec (Z.of_nat (length l)) hi); [lia|]. cbn [orb].
  rewrite elems_skipn, elems_firstn. reflexivity.
Qed.

Lemma zsub_none (l : list (val A)) (lo hi : Z) : (hi < lo \/ Z.of_nat (length l) < hi)%Z -> zsub A l lo hi = None.
Proof.
  intros H. unfold zsub. destruct (Z.ltb_spec lo 0); [reflexivity|]. destruct (Z.ltb_spec hi lo); [reflexivity|].
  destruct (Z.ltb_spec (Z.of_nat (length l)) hi); [reflexivity|lia].
Qed.

Lemma zcopy_exact (z : val A) (src : list (val A)) : zcopy A (repeat z (length src)) src = src.
Proof.
  unfold zcopy. rewrite repeat_length, firstn_all.
  rewrite skipn_all2 by (rewrite repeat_length; lia). apply app_nil_r.
Qed.

Lemma zcopy_same (d s : list (val A)) : length d = length s -> zcopy A d s = s.
Proof.
  intros H. unfold zcopy. rewrite H, firstn_all. rewrite skipn_all2 by lia. apply app_nil_r.
Qed.

Lemma zsplice_elems (l : list A) (a b : nat) (seg : list A) :
  zsplice A (elems l) (Z.of_nat a) (Z.of_nat b) (elems seg) = elems (firstn a l ++ seg ++ skipn b l).
Proof.
  unfold zsplice. rewrite !Nat2Z.id, elems_firstn, elems_skipn, !elems_app. reflexivity.
Qed.

End Facts.
