(* PipesSJ.v — the Split-then-Join program family: coupled invariant (Split has distributed D,
   Join has forwarded F, F is a prefix of D, queue j holds exactly the distributed but not yet
   forwarded positions congruent to j-1), preservation by every micro-step. *)
From Verif Require Import Base Conc Pipes PipesGen PipesRoles PipesFork.
Close Scope Z_scope.
Open Scope nat_scope.

Definition jP (k q : nat) : nat := match q with 0 => 2 | _ => if q <=? k then 0 else 1 end.
Definition jR (k q : nat) : nat := match q with 0 => 0 | _ => if q <=? k then 1 else 3 end.

Record sj_inv (vs : list Z) (k cap : nat) (c : config) : Prop := {
  ji_nt : length (threads c) = 5;
  ji_nq : length (queues c) = S (S k);
  ji_cap : forall q, q <= S k -> qcap (getq c q) = cap;
  ji_h : exists D F,
      splith_ok vs k (gett c 0) (qpop (getq c 0)) (qclosed (getq c 0)) (view_app c) (view_cl c) D /\
      joinh_ok vs k (gett c 1) (view_pop c) (qapp (getq c (S k))) (qclosed (getq c (S k))) F /\
      prefix F D;
  ji_f : feeder_ok vs (gett c 2) (qapp (getq c 0)) (qclosed (getq c 0));
  ji_c : consumer_ok (S k) (gett c 3) (qpop (getq c (S k))) (qclosed (getq c (S k)))
                     (qtok (getq c (S k)));
  ji_w : waiter_ok (gett c 4);
  ji_ch : forall q, q <= S k -> chan c q (jP k q) (jR k q);
  ji_wg : wg_inv c
}.

(* ---------- list facts behind the coupling ---------- *)
Lemma rr_next k F rest cur : cur = length F mod k ->
  rr k cur (F ++ rest) =
  rr k cur F ++ match rest with [] => [] | y :: r => y :: rr_aux k cur (S (length F)) r end.
Proof.
  intros Hc. unfold rr. rewrite rr_aux_app. f_equal. destruct rest as [|y r]; simpl; auto.
  rewrite <- Hc. now rewrite Nat.eqb_refl.
Qed.

Lemma join_pop_prefix k F D cur x vals :
  prefix F D -> cur = length F mod k -> rr k cur D = rr k cur F ++ x :: vals ->
  prefix (F ++ [x]) D.
Proof.
  intros [rest ->] Hc H. rewrite (rr_next _ _ _ _ Hc) in H. apply app_inv_head in H.
  destruct rest as [|y r]; [discriminate|]. injection H as -> _.
  exists r. now rewrite <- app_assoc.
Qed.

Lemma join_empty_eq k F D cur :
  prefix F D -> cur = length F mod k -> rr k cur D = rr k cur F -> F = D.
Proof.
  intros [rest ->] Hc H. rewrite (rr_next _ _ _ _ Hc) in H.
  destruct rest as [|y r]; [now rewrite app_nil_r|].
  apply (f_equal (@length Z)) in H. rewrite app_length in H. simpl in H. lia.
Qed.

Lemma splith_closed_D vs k th pop0 cl0 app cl D j :
  splith_ok vs k th pop0 cl0 app cl D -> 1 <= j <= k -> cl j = true -> D = vs /\ pop0 = vs.
Proof.
  intros Hok Hj Hcl.
  destruct Hok as [cur Hph Hc Hl Hcur HD Ha Hop|cur Hph Hc Hl Hcur HD Ha Hop
                  |v cu cur Hph Hc Hl Hcur HD Hcu Ha Hop|v cu cur Hph Hc Hl Hcur HD Hcu Ha Hop
                  |m Hph Hc Hl Hm HD Ha Hvs Hc0 Hc1 Hc2|Hph Hc Hl Hdn HD Ha Hvs Hc0 Hc1];
    try (rewrite Hop in Hcl by auto; discriminate); split; congruence.
Qed.

Section SJShape.
Variables (vs : list Z) (k cap : nat).
Hypothesis Hk : 1 <= k.

Let c0 := splitjoin_prog vs k cap.

Lemma sj_init_getq q : q <= S k -> getq c0 q = mkq cap.
Proof. intros H. unfold getq, c0, splitjoin_prog; cbv beta iota delta [queues]. apply nth_repeat_lt. lia. Qed.

Lemma jP_neq_jR q : jP k q <> jR k q.
Proof. unfold jP, jR. destruct q; [lia|]. destruct (S q <=? k); lia. Qed.

Lemma sj_init : sj_inv vs k cap c0.
Proof.
  constructor.
  - reflexivity.
  - unfold c0, splitjoin_prog; simpl. now rewrite repeat_length.
  - intros q Hq. now rewrite sj_init_getq.
  - exists [], []. rewrite !sj_init_getq by lia. simpl. split; [|split].
    + apply HS_idle with 0; simpl; auto.
      * symmetry. apply Nat.mod_0_l. lia.
      * intros j Hj. unfold view_app. now rewrite sj_init_getq by lia.
      * intros j Hj. unfold view_cl. now rewrite sj_init_getq by lia.
    + apply HJ_idle with 0; simpl; auto.
      * unfold outs. destruct k; [lia|reflexivity].
      * symmetry. apply Nat.mod_0_l. lia.
      * intros j Hj. unfold view_pop. now rewrite sj_init_getq by lia.
    + apply prefix_refl.
  - rewrite sj_init_getq by lia. simpl. apply feeder_init.
  - rewrite sj_init_getq by lia. simpl. apply consumer_init.
  - apply waiter_init.
  - intros q Hq. apply chan_init.
    + rewrite sj_init_getq by lia. reflexivity.
    + unfold jP. destruct q; [reflexivity|]. destruct (S q <=? k); reflexivity.
    + unfold jR. destruct q; [reflexivity|]. destruct (S q <=? k); reflexivity.
  - unfold wg_inv, c0, splitjoin_prog. simpl. unfold dones; simpl. now rewrite ndone_feeder.
Qed.

Lemma sj_fp c : sj_inv vs k cap c ->
  fp_all c (jP k) (jR k) /\ (forall t kk q, opof (gett c t) = Some (kk, q) -> q <= S k).
Proof.
  intros I.
  assert (H : forall t kk q, opof (gett c t) = Some (kk, q) ->
     q <= S k /\ match kk with
      | KAdd | KClose => t = jP k q /\ qclosed (getq c q) = false
      | KSend => t = jP k q
      | KTake | KPop => t = jR k q
      | KRemAll | KDisc => False
      end).
  { intros t kk q Hop. destruct (ji_h _ _ _ _ I) as (D & F & HD & HF & HFD).
    destruct (Nat.eq_dec t 0) as [->|H0].
    { destruct (splith_ops _ _ _ _ _ _ _ _ _ _ Hk HD Hop) as [(-> & [->| ->])|(Hq & Hkk & Hcl)].
      - split; [lia|reflexivity].
      - split; [lia|reflexivity].
      - split; [lia|]. unfold view_cl in Hcl. unfold jP. destruct q; [lia|].
        destruct (Nat.leb_spec (S q) k); [|lia].
        destruct Hkk as [->|[->| ->]]; simpl; auto. }
    destruct (Nat.eq_dec t 1) as [->|H1].
    { destruct (joinh_ops _ _ _ _ _ _ _ _ _ Hk HF Hop) as [(Hq & [->| ->])|(-> & Hkk & Hcl)].
      - split; [lia|]. unfold jR. destruct q; [lia|]. destruct (Nat.leb_spec (S q) k); lia.
      - split; [lia|]. unfold jR. destruct q; [lia|]. destruct (Nat.leb_spec (S q) k); lia.
      - split; [lia|]. unfold jP. destruct (Nat.leb_spec (S k) k); [lia|].
        destruct Hkk as [->|[->| ->]]; simpl; auto. }
    destruct (Nat.eq_dec t 2) as [->|H2].
    { destruct (feeder_ops _ _ _ _ _ _ (ji_f _ _ _ _ I) Hop) as (-> & Hcl & Hkk).
      split; [lia|]. destruct Hkk as [->|[->| ->]]; simpl; auto. }
    destruct (Nat.eq_dec t 3) as [->|H3].
    { destruct (consumer_ops _ _ _ _ _ _ _ (ji_c _ _ _ _ I) Hop) as (-> & Hkk).
      split; [lia|]. unfold jR. destruct (Nat.leb_spec (S k) k); [lia|].
      destruct Hkk as [->| ->]; simpl; auto. }
    destruct (Nat.eq_dec t 4) as [->|H4].
    { destruct (waiter_ops _ _ _ (ji_w _ _ _ _ I) Hop). }
    rewrite gett_out in Hop by (rewrite (ji_nt _ _ _ _ I); lia). discriminate. }
  split.
  - intros t kk q Hop. now apply H.
  - intros t kk q Hop. now apply (H t kk q).
Qed.

(* queue j (1 <= j <= k) seen from both sides *)
Lemma sj_mid c D F j :
  sj_inv vs k cap c ->
  splith_ok vs k (gett c 0) (qpop (getq c 0)) (qclosed (getq c 0)) (view_app c) (view_cl c) D ->
  joinh_ok vs k (gett c 1) (view_pop c) (qapp (getq c (S k))) (qclosed (getq c (S k))) F ->
  1 <= j <= k ->
  rr k (pred j) D = rr k (pred j) F ++ qvals (getq c j).
Proof.
  intros I HD HF Hj.
  destruct (splith_facts _ _ _ _ _ _ _ _ HD) as [_ Ha].
  assert (Hp : view_pop c j = rr k (pred j) F).
  { destruct HF; auto. }
  rewrite <- Ha, <- Hp by auto. unfold view_app, view_pop.
  apply (ch_app _ _ _ _ (ji_ch _ _ _ _ I j ltac:(lia))).
Qed.

Lemma sj_step c t c' : sj_inv vs k cap c -> step c t = Some c' -> sj_inv vs k cap c'.
Proof.
  intros I Hstep. destruct (sj_fp c I) as [Hfp Hrange].
  destruct (step_effect _ _ _ Hstep) as (Hnt & Hnq & Hother & _).
  assert (Hns : tph (gett c' t) <> PStuck).
  { apply step_nostuck with (c := c) (P := jP k) (R := jR k); auto.
    intros kk q Hop. split; [apply (ji_ch _ _ _ _ I); eauto|now apply fp_all_on]. }
  pose proof (ji_nq _ _ _ _ I) as Hlenq.
  assert (HjP : forall j, 1 <= j <= k -> jP k j = 0 /\ jR k j = 1).
  { intros j Hj. unfold jP, jR. destruct j; [lia|]. destruct (Nat.leb_spec (S j) k); [auto|lia]. }
  assert (HjO : jP k (S k) = 1 /\ jR k (S k) = 3).
  { unfold jP, jR. destruct (Nat.leb_spec (S k) k); [lia|auto]. }
  constructor.
  - rewrite Hnt. apply (ji_nt _ _ _ _ I).
  - now rewrite Hnq.
  - intros q Hq. rewrite (step_qcap _ _ _ _ Hstep). now apply (ji_cap _ _ _ _ I).
  - (* the two helpers and their coupling *)
    destruct (ji_h _ _ _ _ I) as (D & F & HD & HF & HFD).
    assert (HD' : t <> 0 ->
       splith_ok vs k (gett c' 0) (qpop (getq c' 0)) (qclosed (getq c' 0)) (view_app c') (view_cl c') D).
    { intros Hn. rewrite Hother by auto.
      apply splith_frame with (qpop (getq c 0)) (qclosed (getq c 0)) (view_app c) (view_cl c); auto.
      * apply eff_not_consumer with t (jP k) (jR k); auto.
      * apply step_closed_mono with t; auto.
      * intros j Hj. unfold view_app, view_cl. apply eff_not_producer with t (jP k) (jR k); auto.
        destruct (HjP j Hj) as [-> _]. auto. }
    assert (HF' : t <> 1 ->
       joinh_ok vs k (gett c' 1) (view_pop c') (qapp (getq c' (S k))) (qclosed (getq c' (S k))) F).
    { intros Hn. rewrite Hother by auto.
      destruct (eff_not_producer c t c' (jP k) (jR k) (S k) Hstep Hfp) as [Ea Ec].
      { destruct HjO as [-> _]. auto. }
      apply joinh_frame with (view_pop c) (qapp (getq c (S k))) (qclosed (getq c (S k))); auto.
      intros j Hj. unfold view_pop. apply eff_not_consumer with t (jP k) (jR k); auto.
      destruct (HjP j Hj) as [_ ->]. auto. }
    destruct (Nat.eq_dec t 0) as [->|Hn0].
    + destruct (splith_step vs k c 0 c' D) as (D' & HDD & HD2); auto; try lia.
      * intros Hph. apply drained_input with 2 0; auto. apply (ji_f _ _ _ _ I).
        apply (ji_ch _ _ _ _ I 0). lia.
      * exists D', F. split; auto. split; [apply HF'; lia|]. now apply prefix_trans with D.
    + destruct (Nat.eq_dec t 1) as [->|Hn1].
      * destruct (joinh_step vs k c 1 c' F) as (F' & HF2 & HFF); auto; try lia.
        -- (* Join sees its current input closed and empty: everything was forwarded *)
           intros cur Hph Hcalls Hcur Hcl Htok.
           assert (Hlt : cur < k) by (subst cur; apply Nat.mod_upper_bound; lia).
           pose proof (sj_mid c D F (S cur) I HD HF ltac:(lia)) as Hmid.
           destruct (ji_ch _ _ _ _ I (S cur) ltac:(lia)) as [_ H2 _ H4].
           destruct (HjP (S cur) ltac:(lia)) as [E1 E2]. rewrite E1, E2 in *.
           rewrite (H4 Hcl), Hph, Htok in H2. simpl in H2.
           destruct (qvals (getq c (S cur))); [|discriminate]. rewrite app_nil_r in Hmid.
           simpl in Hmid.
           rewrite (join_empty_eq k F D cur HFD Hcur Hmid).
           apply (splith_closed_D _ _ _ _ _ _ _ _ (S cur) HD); auto. lia.
        -- exists D, F'. split; [apply HD'; lia|]. split; auto.
           destruct HFF as [->|(x & cur & vals & -> & Hcur & Hv)]; auto.
           assert (Hlt : cur < k) by (subst cur; apply Nat.mod_upper_bound; lia).
           pose proof (sj_mid c D F (S cur) I HD HF ltac:(lia)) as Hmid.
           rewrite Hv in Hmid. simpl in Hmid.
           now apply join_pop_prefix with k cur vals.
      * exists D, F. auto.
  - (* feeder *)
    destruct (Nat.eq_dec t 2) as [->|Hn].
    + apply feeder_step with c; auto; try lia. apply (ji_f _ _ _ _ I).
    + rewrite Hother by auto.
      destruct (eff_not_producer c t c' (jP k) (jR k) 0 Hstep Hfp) as [-> ->]; auto.
      apply (ji_f _ _ _ _ I).
  - (* reader *)
    destruct (Nat.eq_dec t 3) as [->|Hn].
    + apply consumer_step with c; auto; try lia. apply (ji_c _ _ _ _ I).
    + rewrite Hother by auto. destruct HjO as [E1 E2].
      apply consumer_frame with (qpop (getq c (S k))) (qclosed (getq c (S k))) (qtok (getq c (S k))).
      * apply (ji_c _ _ _ _ I).
      * apply eff_not_consumer with t (jP k) (jR k); auto. rewrite E2. auto.
      * intros Hcl. rewrite (eff_closed_stable c t c' (jP k) (jR k) (S k)); auto.
        apply (ji_ch _ _ _ _ I). lia. rewrite E2. auto.
  - (* waiter *)
    destruct (Nat.eq_dec t 4) as [->|Hn].
    + apply waiter_step with c; auto. apply (ji_w _ _ _ _ I).
    + rewrite Hother by auto. apply (ji_w _ _ _ _ I).
  - intros q Hq. apply chan_step with c t; auto.
    + now apply (ji_ch _ _ _ _ I).
    + apply jP_neq_jR.
    + lia.
    + now apply fp_all_on.
  - apply wg_step with c t; auto. apply (ji_wg _ _ _ _ I).
Qed.

Theorem sj_reachable sched : sj_inv vs k cap (run c0 sched).
Proof.
  apply run_invariant with (I := sj_inv vs k cap).
  - intros c t c'. apply sj_step.
  - apply sj_init.
Qed.

End SJShape.
