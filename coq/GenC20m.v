(* GenC20m.v — LATE file of C20 (compiled in parallel with GenC20.v, GenC20b.v, GenC20s.v, GenC20p.v): the regenerated Map constructor IS the model
   Facade.v for every key / value types and every argument list (array of associations, Go map, sequence of associations,
   source). *)
From Coq Require Import String.
From Verif Require Import Base Sorter Value Seq Coll Pool PoolRun Params SetProofs AssocProofs Facade FacadeProofs ModuleLang ModuleSem ModuleFacts ModuleTactics GenModule.
Open Scope Z_scope.
Open Scope list_scope.
Local Opaque class_ctor as_type fold_loop ranker rk_default set_add_all set_add convert_all convert_pairs array_fill zero_of zipkv a_set_all ordered parsed_pairs.

Definition opt_aslice (o : option (list (val * val))) : mval := match o with Some l => MArgV (AAssocSlice l) | None => MNone end.
Definition opt_map (o : option (list (val * val))) : mval := match o with Some l => MArgV (AGoMap l []) | None => MNone end.
Definition opt_aseq (o : option (list (val * val))) : mval := match o with Some l => MArgV (AAssocSeq l []) | None => MNone end.
Definition env_pairs (s : slots) (scr : list mval) : menv :=
  [MArgV ANotation; opt_aslice (s_assocs s); opt_map (s_map s); opt_aseq (s_aseq s); src_of s] ++ scr.

Lemma map_step : forall args0 tk tv f s scr a, size_ok a -> length scr = 10%nat ->
  exists scr', length scr' = 10%nat /\
    exec args0 (10 + f) (with_argument (ctx0 tk tv) a) (env_pairs s scr) (loop_body gen_Map) =
    match accept FMap s a with Some s' => RNormal (env_pairs s' scr') | None => RPanic end.
Proof. intros args0 tk tv f s scr a Ha L. explode scr 10. step_tac scr a Ha 10 10%nat. Qed.

Ltac pairs_tree asc mp asq txt prs :=
  destruct asc as [[|?p ?l]|]; [ | leaf | ];
  (destruct mp as [[|?p ?l]|]; [ | leaf | ];
   (destruct asq as [[|?p ?l]|]; [leaf|leaf|];
    (destruct txt as [|?ch ?t]; [leaf|];
     (destruct prs as [?pv|]; [|leaf])))).

Lemma map_post : forall args0 tk tv f s scr, length scr = 10%nat ->
  result_of (exec args0 (30 + f) (ctx0 tk tv) (env_pairs s scr) (post_body gen_Map)) =
  out_map FO (out_map FObj (finish_pairs FMap tk tv s)).
Proof.
  intros args0 tk tv f s scr L. explode scr 10. destruct s as [sz hs vals sq txt prs cl asc mp asq].
  unfold env_pairs, src_of, opt_aslice, opt_map, opt_aseq. cbn [s_text s_parsed s_assocs s_map s_aseq app]. norm_body.
  pairs_tree asc mp asq txt prs.
  all: cbn [plus]; timeout 60 to_loop; timeout 30 rhs_open_keep.
  all: destruct (parsed_pairs (PColl pv)) as [kvs|]; [|timeout 60 fin2].
  all: timeout 60 to_loop.
  all: match goal with |- context [fold_loop ?st ?its ?env] =>
         pose proof (pairs_loop args0 tk tv _ _ _ _ _ st its false (fun kv e => eq_refl)
                       ltac:(cbn; congruence) ltac:(cbn; congruence) ltac:(cbn; congruence) ltac:(cbn; congruence) ltac:(cbn; congruence) ltac:(cbn; congruence)
                       [] env ltac:(cbn; lia) ltac:(cbn; lia) ltac:(cbn; lia) ltac:(cbn; lia) eq_refl) as HL
       end.
  all: timeout 20 rhs_open.
  all: match goal with |- context [convert_pairs ?a ?b ?its] => destruct (convert_pairs a b its) as [r|] end.
  all: try (rewrite HL; timeout 20 lazy; reflexivity).
  all: destruct HL as (e' & E & Le & Ge & Fr); rewrite E; cbv beta iota.
  all: rewrite ?exec_nil; cbv beta iota; unfold unbreak; rewrite exec_cons; cbn [exec1 eval]; rewrite Ge; reflexivity.
  Unshelve. all: try exact O. all: try exact [].
Qed.

Theorem gen_Map_is_the_model : forall tk tv args, Forall size_ok args ->
  run_ctor gen_Map tk tv args = out_map FO (facade FMap tk tv args).
Proof. ctor_main gen_Map FMap env_pairs 10%nat map_step map_post. Qed.

Print Assumptions gen_Map_is_the_model.
