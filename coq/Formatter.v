(* Formatter.v — executable model of v4/cdcn/formatter.go (+ notation.go's FormatValue and the
   String() entry points, which all end in formatter_.FormatValue).  Definitions only; the
   proofs are in FormatProofs.v.

   TEXT.  Every text is a [list Z] of RUNES (Unicode code points), i.e. what the scanner sees
   after [[]rune(source)].  The formatter only ever emits valid UTF-8 (strconv.Quote escapes
   invalid bytes), so the list of runes determines the Go string.  Strings INSIDE values
   ([VStr]) are bytes; [quote_str] decodes them as Go's strconv.Quote does.

   ORACLES (Section variables, supplied per case by the harness and checked there):
     [ftext bits]   the text of strconv.FormatFloat(f,'G',-1,64) for the float64 with these bits;
     [printable r]  strconv.IsPrint(r) for r >= 128 (ASCII is modelled).
   Everything else (the post-processing of the float text, quoting, escapes, UTF-8 decoding,
   decimal / hexadecimal digits, dispatch by kind, inline vs multi-line form, indentation,
   depth limit, "(Type)" suffix, state kept in the formatter between calls) is modelled.

   STATE.  [fstate] = the fields result_ (kept REVERSED, so that appending is cheap), depth_
   (indentation level) and nesting_ (number of enclosing collections; added by the repair of
   D14) of formatter_.  A panic leaves the state as it is at that point: the model returns it. *)
From Coq Require Import String Ascii.
From Verif Require Import Base Value.
Open Scope Z_scope.

(* ---------- small text helpers ---------- *)
Definition s2z (s : string) : list Z :=
  map (fun a => Z.of_N (N_of_ascii a)) (list_ascii_of_string s).

Definition zmem (c : Z) (l : list Z) : bool := existsb (Z.eqb c) l.

(* digit value 0..15 -> lower-case hexadecimal digit character *)
Definition hexdig (d : Z) : Z := if d <? 10 then 48 + d else 87 + d.

(* digits of a non-negative number in a base (2 <= base <= 16), most significant first;
   the fuel log2 z + 1 always suffices because every step at least halves z *)
Fixpoint digits_fuel (fuel : nat) (base z : Z) (acc : list Z) : list Z :=
  match fuel with
  | O => acc
  | S k => let acc' := hexdig (z mod base) :: acc in
           if z / base =? 0 then acc' else digits_fuel k base (z / base) acc'
  end.
Definition digits (base z : Z) : list Z := digits_fuel (S (Z.to_nat (Z.log2 z))) base z [].

(* strconv.FormatInt(z, 10) *)
Definition dec_text (z : Z) : list Z := if z <? 0 then 45 :: digits 10 (- z) else digits 10 z.
(* "0x" + strconv.FormatUint(z, 16) *)
Definition hex_text (z : Z) : list Z := 48 :: 120 :: digits 16 (Z.abs z).

(* fixed-width hexadecimal (n digits) used by the \x \u \U escapes *)
Fixpoint hex_fixed (n : nat) (r : Z) (acc : list Z) : list Z :=
  match n with
  | O => acc
  | S k => hex_fixed k (r / 16) (hexdig (r mod 16) :: acc)
  end.

(* ---------- strconv quoting ---------- *)
Definition valid_rune (r : Z) : bool :=
  ((0 <=? r) && (r <? 55296)) || ((57344 <=? r) && (r <=? 1114111)).

Section Quote.
Variable printable : Z -> bool.

Definition is_print (r : Z) : bool :=
  if r <? 128 then (32 <=? r) && (r <? 127) else printable r.

(* strconv.appendEscapedRune(buf, r, quote, false, false) *)
Definition esc_rune (quote r : Z) : list Z :=
  if (r =? quote) || (r =? 92) then [92; r]
  else if is_print r then [r]
  else if r =? 7 then [92; 97]
  else if r =? 8 then [92; 98]
  else if r =? 12 then [92; 102]
  else if r =? 10 then [92; 110]
  else if r =? 13 then [92; 114]
  else if r =? 9 then [92; 116]
  else if r =? 11 then [92; 118]
  else if (r <? 32) || (r =? 127) then 92 :: 120 :: hex_fixed 2 (r mod 256) []
  else if negb (valid_rune r) then 92 :: 117 :: hex_fixed 4 65533 []
  else if r <? 65536 then 92 :: 117 :: hex_fixed 4 r []
  else 92 :: 85 :: hex_fixed 8 r [].

(* strconv.QuoteRune *)
Definition quote_rune (r : Z) : list Z :=
  39 :: esc_rune 39 (if valid_rune r then r else 65533) ++ [39].

Definition cont (b : Z) : bool := (128 <=? b) && (b <=? 191).

(* the loop of strconv.appendQuotedWith over the BYTES of the string: one UTF-8 sequence
   (utf8.DecodeRuneInString: shortest form only, no surrogates, at most U+10FFFF) per round;
   a byte that starts no valid sequence is written as \xNN *)
Fixpoint quote_body (s : list Z) : list Z :=
  match s with
  | [] => []
  | b0 :: t =>
    let bad := 92 :: 120 :: hex_fixed 2 (b0 mod 256) (quote_body t) in
    if b0 <? 128 then esc_rune 34 b0 ++ quote_body t
    else if (194 <=? b0) && (b0 <=? 223) then
      match t with
      | b1 :: t1 => if cont b1 then esc_rune 34 ((b0 - 192) * 64 + (b1 - 128)) ++ quote_body t1 else bad
      | _ => bad
      end
    else if (224 <=? b0) && (b0 <=? 239) then
      match t with
      | b1 :: b2 :: t2 =>
        let lo := if b0 =? 224 then 160 else 128 in
        let hi := if b0 =? 237 then 159 else 191 in
        if (lo <=? b1) && (b1 <=? hi) && cont b2
        then esc_rune 34 ((b0 - 224) * 4096 + (b1 - 128) * 64 + (b2 - 128)) ++ quote_body t2
        else bad
      | _ => bad
      end
    else if (240 <=? b0) && (b0 <=? 244) then
      match t with
      | b1 :: b2 :: b3 :: t3 =>
        let lo := if b0 =? 240 then 144 else 128 in
        let hi := if b0 =? 244 then 143 else 191 in
        if (lo <=? b1) && (b1 <=? hi) && cont b2 && cont b3
        then esc_rune 34 ((b0 - 240) * 262144 + (b1 - 128) * 4096 + (b2 - 128) * 64 + (b3 - 128)) ++ quote_body t3
        else bad
      | _ => bad
      end
    else bad
  end.

(* strconv.Quote *)
Definition quote_str (s : list Z) : list Z := 34 :: quote_body s ++ [34].
End Quote.

(* ---------- formatFloat's post-processing of the strconv text (after the repair of D12) ---------- *)
(* strings.Cut(str, "E") *)
Fixpoint cut_E (t : list Z) : list Z * option (list Z) :=
  match t with
  | [] => ([], None)
  | c :: r => if c =? 69 then ([], Some r)
              else let (m, e) := cut_E r in (c :: m, e)
  end.
(* strings.TrimLeft(s, "0") *)
Fixpoint trim_zeros (t : list Z) : list Z :=
  match t with
  | c :: r => if c =? 48 then trim_zeros r else t
  | [] => []
  end.
(* the repaired formatFloat: a mantissa without fraction gets ".0"; the exponent keeps its sign
   and loses its leading zeros *)
Definition fix_float (t : list Z) : list Z :=
  let (m, e) := cut_E t in
  let m' := if zmem 46 m then m else m ++ [46; 48] in
  match e with
  | None => m'
  | Some [] => m' ++ [69]   (* exponent[:1] of an empty exponent would panic; never produced by strconv *)
  | Some (sg :: ds) => m' ++ 69 :: sg :: trim_zeros ds
  end.
(* the ORIGINAL formatFloat (pinned tree), kept to state what D12 was *)
Definition old_float (t : list Z) : list Z :=
  if zmem 46 t || zmem 69 t then t else t ++ [46; 48].

(* ---------- the formatter ---------- *)
Record fstate := { fs_buf : list Z; fs_depth : nat; fs_nest : nat }.
Definition fs_init : fstate := {| fs_buf := []; fs_depth := 0; fs_nest := 0 |}.

(* appendString *)
Definition app_str (s : list Z) (st : fstate) : fstate :=
  {| fs_buf := rev_append s (fs_buf st); fs_depth := fs_depth st; fs_nest := fs_nest st |}.
Definition set_depth (d : nat) (st : fstate) : fstate :=
  {| fs_buf := fs_buf st; fs_depth := d; fs_nest := fs_nest st |}.
Definition set_nest (n : nat) (st : fstate) : fstate :=
  {| fs_buf := fs_buf st; fs_depth := fs_depth st; fs_nest := n |}.

Fixpoint indent (n : nat) : list Z :=
  match n with O => [] | S k => 32 :: 32 :: 32 :: 32 :: indent k end.
(* appendNewline: "\n" followed by depth_ times four spaces *)
Definition newline (st : fstate) : fstate := app_str (10 :: indent (fs_depth st)) st.

(* the type name formatContext chooses (Go slices print as Array, Go maps as Map) *)
Definition seq_type (k : skind) : list Z :=
  match k with
  | KSlice | KArray => s2z "Array"
  | KList => s2z "List"
  | KSet => s2z "Set"
  | KStack => s2z "Stack"
  | KQueue => s2z "Queue"
  end.
Definition map_type (k : mkind) : list Z :=
  match k with
  | MGoMap | MMap => s2z "Map"
  | MCatalog => s2z "Catalog"
  end.
Definition context (ty : list Z) : list Z := 40 :: ty ++ [41].

Section Format.
Variable ftext : Z -> list Z.
Variable printable : Z -> bool.
Variable maximum : nat.

Definition float_text (bits : Z) : list Z := fix_float (ftext bits).

(* imag_ >= 0.0 in IEEE arithmetic: false for NaN and for negative numbers, true for -0.0 *)
Definition f_nonneg (bits : Z) : bool := negb (f_isnan bits) && (0 <=? f_key bits).

(* formatIntrinsic: None = the type switch falls into its default branch and panics *)
Definition intrinsic_text (v : val) : option (list Z) :=
  match v with
  | VNil => Some (s2z "nil")
  | VBool b => Some (if b then s2z "true" else s2z "false")
  | VInt _ z => Some (dec_text z)
  | VUint _ z => Some (hex_text z)
  | VByte z => Some (hex_text z)
  | VRune r => Some (quote_rune printable r)
  | VFloat _ bits => Some (float_text bits)
  | VComplex _ re im _ _ =>
      Some (40 :: float_text re ++ (if f_nonneg im then [43] else []) ++ float_text im ++ [105; 41])
  | VStr s => Some (quote_str printable s)
  | _ => None
  end.

(* the four loops "for each item: appendNewline; formatValue / formatAssociation", with the
   early exit a panic causes.  [f] is formatValue. *)
Section Loops.
Variable f : val -> fstate -> fstate * bool.

(* formatAssociation *)
Definition fassoc (k v : val) (st : fstate) : fstate * bool :=
  match intrinsic_text k with
  | Some t => f v (app_str [58; 32] (app_str t st))
  | None => (st, false)
  end.

Fixpoint lines (l : list val) (st : fstate) : fstate * bool :=
  match l with
  | [] => (st, true)
  | x :: t => let (st1, ok) := f x (newline st) in
              if ok then lines t st1 else (st1, false)
  end.

(* keys and values are parallel lists; a missing key counts as nil (never generated) *)
Fixpoint alines (ks vs : list val) (st : fstate) : fstate * bool :=
  match vs with
  | [] => (st, true)
  | x :: t => let (st1, ok) := fassoc (hd VNil ks) x (newline st) in
              if ok then alines (tl ks) t st1 else (st1, false)
  end.

(* formatArray / formatValues (same structure): called with nesting_ already incremented *)
Definition fitems (l : list val) (st : fstate) : fstate * bool :=
  if (maximum <? fs_nest st)%nat then (app_str [46; 46; 46] st, true)
  else match l with
       | [] => (app_str [32] st, true)
       | [x] => f x st
       | _ => let d := fs_depth st in
              let (st1, ok) := lines l (set_depth (S d) st) in
              if ok then (newline (set_depth d st1), true) else (st1, false)
       end.

(* formatMap / formatAssociations *)
Definition fentries (ks vs : list val) (st : fstate) : fstate * bool :=
  if (maximum <? fs_nest st)%nat then (app_str [46; 46; 46] st, true)
  else match vs with
       | [] => (app_str [58] st, true)
       | [x] => fassoc (hd VNil ks) x st
       | _ => let d := fs_depth st in
              let (st1, ok) := alines ks vs (set_depth (S d) st) in
              if ok then (newline (set_depth d st1), true) else (st1, false)
       end.

(* formatCollection = formatSequence ("[" items "]", nesting_ counted around the items) followed
   by formatContext *)
Definition fcoll (body : fstate -> fstate * bool) (ty : list Z) (st : fstate) : fstate * bool :=
  let n := fs_nest st in
  let (st1, ok) := body (set_nest (S n) (app_str [91] st)) in
  if ok then (app_str (93 :: context ty) (set_nest n st1), true) else (st1, false).
End Loops.

(* formatValue: dispatch by reflect kind *)
Fixpoint fvalue (v : val) (st : fstate) {struct v} : fstate * bool :=
  match v with
  | VSeq k l => fcoll (fitems fvalue l) (seq_type k) st
  | VNilSlice => fcoll (fitems fvalue []) (seq_type KSlice) st
  | VMapping k ks vs => fcoll (fentries fvalue ks vs) (map_type k) st
  | VNilMap => fcoll (fentries fvalue [] []) (map_type MGoMap) st
  | VAssoc k x => fassoc fvalue k x st
  | VPtr _ _ =>
      (* a pointer without GetKey is taken for a collection: "[" is written, nesting_ counted,
         then MethodByName("GetIterator").Call on the zero Value panics *)
      (set_nest (S (fs_nest st)) (app_str [91] st), false)
  | _ => match intrinsic_text v with
         | Some t => (app_str t st, true)
         | None => (st, false)
         end
  end.

(* the public FormatValue.  [reset] = the repair of D13 (the state is reset on entry); with
   [reset = false] this is the pinned tree, where a call starts from whatever the previous
   call left behind. *)
Definition format_value (reset : bool) (st : fstate) (v : val) : out (list Z) * fstate :=
  let st0 := if reset then fs_init else st in
  let (st1, ok) := fvalue v st0 in
  if ok then
    let st2 := newline st1 in
    (Ret (rev (fs_buf st2)), {| fs_buf := []; fs_depth := fs_depth st2; fs_nest := fs_nest st2 |})
  else (Panic, st1).

(* a sequence of calls on one formatter *)
Fixpoint format_calls (reset : bool) (st : fstate) (vs : list val) : list (out (list Z)) :=
  match vs with
  | [] => []
  | v :: t => let (o, st') := format_value reset st v in o :: format_calls reset st' t
  end.

(* the text a call gives on a fresh formatter *)
Definition format0 (v : val) : out (list Z) := fst (format_value true fs_init v).
End Format.
