(* StackImplProofs.v — stack.go's code shape (StackImpl.v: capacity + List, the List's own methods) IS the stack
   machine of Coll.v / StackProofs.v (push on the head of a list): every method, every history, constructors. *)
From Verif Require Import Base Seq Coll StackProofs StackImpl.
Local Open Scope nat_scope.

Section StackImplProofs.
Variable A : Type.
Variable zero : A.

Theorem add_value_is_push : forall (s : stk A) v,
  s_add_value s v = out_map (fun l => {| s_cap := s_cap s; s_values := l |}) (stack_push (s_cap s) (s_values s) v).
Proof.
  intros [cap l] v. unfold s_add_value, stack_push. cbn [s_cap s_values].
  destruct (length l =? cap); [reflexivity|]. unfold insert_value. cbn. reflexivity.
Qed.

Theorem remove_top_is_pop : forall (s : stk A),
  s_remove_top zero s =
  out_map (fun r : A * list A => (fst r, {| s_cap := s_cap s; s_values := snd r |})) (stack_pop (s_values s)).
Proof.
  intros [cap l]. unfold s_remove_top, stack_pop. cbn [s_cap s_values].
  destruct l as [|x t]; [reflexivity|]. cbn [length Nat.eqb]. unfold remove_value, pos. cbn [length Nat.eqb].
  replace (Z.of_nat (S (length t))) with (Z.succ (Z.of_nat (length t))) by lia.
  destruct (Z.ltb_spec 1 (- Z.succ (Z.of_nat (length t)))) as [E|_]; [lia|].
  destruct (Z.ltb_spec (Z.succ (Z.of_nat (length t))) 1) as [E|_]; [lia|]. reflexivity.
Qed.

Theorem constructors_within_capacity : forall dflt (l : list A),
  length (s_values (s_make_from dflt l)) <= s_cap (s_make_from dflt l) /\
  s_cap (s_make_from dflt l) = Nat.max dflt (length l) /\
  s_values (s_make_from dflt l) = l /\
  s_make_with_capacity 0 = (Panic : out (stk A)) /\
  (forall cap, cap <> 0 -> s_make_with_capacity cap = Ret {| s_cap := cap; s_values := ([] : list A) |}).
Proof.
  intros dflt l. unfold s_make_from, capacity_for. cbn [s_cap s_values].
  assert (MC : forall cap, cap <> 0 -> s_make_with_capacity cap = Ret {| s_cap := cap; s_values := ([] : list A) |}).
  { intros cap Hc. unfold s_make_with_capacity. destruct (Nat.ltb_spec cap 1); [lia|reflexivity]. }
  destruct (Nat.ltb_spec dflt (length l)); repeat split; try lia; try reflexivity; exact MC.
Qed.

(* histories: the code-shaped stack against kstep/krun of StackProofs.v *)
Definition istep (s : stk A) (o : kop A) : stk A * kobs A :=
  match o with
  | KPush _ v => match s_add_value s v with Ret s' => (s', KUnit A) | _ => (s, KPanic A) end
  | KPop _ => match s_remove_top zero s with Ret r => (snd r, KVal A (fst r)) | _ => (s, KPanic A) end
  | KClear _ => (s_remove_all s, KUnit A)
  end.
Fixpoint irun (s : stk A) (ops : list (kop A)) : stk A * list (kobs A) :=
  match ops with
  | [] => (s, [])
  | o :: t => let r := istep s o in let r' := irun (fst r) t in (fst r', snd r :: snd r')
  end.

Theorem istep_is_kstep : forall s o,
  istep s o = ({| s_cap := s_cap s; s_values := fst (kstep A (s_cap s) (s_values s) o) |}, snd (kstep A (s_cap s) (s_values s) o)).
Proof.
  intros [cap l] o. destruct o as [v| |]; cbn [istep kstep].
  - rewrite add_value_is_push. cbn [s_cap s_values]. destruct (stack_push cap l v); reflexivity.
  - rewrite remove_top_is_pop. cbn [s_cap s_values]. destruct (stack_pop l) as [[x t]| |]; reflexivity.
  - reflexivity.
Qed.

Theorem irun_is_krun : forall ops s,
  irun s ops = ({| s_cap := s_cap s; s_values := fst (krun A (s_cap s) (s_values s) ops) |}, snd (krun A (s_cap s) (s_values s) ops)).
Proof.
  induction ops as [|o t IH]; intros s; cbn [irun krun].
  - destruct s; reflexivity.
  - rewrite istep_is_kstep. cbn [fst snd]. rewrite IH. cbn [s_cap s_values].
    destruct (kstep A (s_cap s) (s_values s) o) as [l' ob]. cbn [fst snd].
    destruct (krun A (s_cap s) l' t). reflexivity.
Qed.

(* so the code-shaped stack never exceeds its capacity, for every history and every constructor *)
Corollary impl_never_exceeds_capacity : forall ops s, length (s_values s) <= s_cap s ->
  length (s_values (fst (irun s ops))) <= s_cap (fst (irun s ops)) /\ s_cap (fst (irun s ops)) = s_cap s.
Proof.
  intros ops s H. rewrite irun_is_krun. cbn [fst s_cap s_values]. split; [|reflexivity].
  apply (C13_bound A (s_cap s) ops (s_values s) H).
Qed.
End StackImplProofs.

Print Assumptions irun_is_krun.
Print Assumptions impl_never_exceeds_capacity.
