(* C16.v — Merge, Extract and Concatenate obey their documented laws and are pure
   Statements only: every theorem is closed by [exact] of a lemma proved elsewhere, and its
   axioms are printed.  Generated once by tools/mkprop.py from the proved lemmas' statements. 
   Round 2 (polish): an [Example] of non-vacuity beside the theorems with hypotheses (data in AssocProofs2.v);
   from C16_go_key_equality_is_symmetric on: the exact key order of Extract for arbitrary request sequences
   (absent and repeated keys), the laws without hypotheses on "==" for the keys of the pool, the class functions
   of the pool machine (new object computed from the operands, also when aliased) and their purity. *)
From Verif Require Import Base Sorter SorterProofs Value Seq Coll Pool PoolFrame AssocProofs SorterProofs2 AssocProofs2.
Local Open Scope nat_scope.

Theorem C16_merge_key_order :
  forall (K V : Type) (keq : K -> K -> bool),
         (forall a b : K, keq a b = keq b a) ->
         (forall a b c : K, keq a b = true -> keq b c = true -> keq a c = true) ->
         forall a b : list (K * V),
         wfm K V keq a ->
         wfm K V keq b ->
         keys K V (a_merge keq a b) =
         keys K V a ++
         filter (fun k : K => match a_get keq a k with
                              | Some _ => false
                              | None => true
                              end) (keys K V b).
Proof. exact a_merge_keys. Qed.

(* non-vacuity: Merge(a:1 b:2 c:3, c:30 d:4 a:10): a's keys in a's order, then b's new key d; shared keys a, c take
   the second catalog's values; the same catalog passed twice gives itself *)
Example C16_merge_key_order_example :
  wfm val val keq ex_cat /\ wfm val val keq ex_cat2 /\
  a_merge keq ex_cat ex_cat2 = [(ka, iv 10); (kb, iv 2); (kc, iv 30); (kd, iv 4)] /\
  keys val val (a_merge keq ex_cat ex_cat2) = [ka; kb; kc; kd] /\
  a_merge keq ex_cat ex_cat = ex_cat.
Proof. split; [exact (distinctb_ok val val keq ex_cat eq_refl)|]. split; [exact (distinctb_ok val val keq ex_cat2 eq_refl)|]. repeat split; vm_compute; reflexivity. Qed.

Theorem C16_merge_second_wins :
  forall (K V : Type) (keq : K -> K -> bool),
         (forall a b : K, keq a b = keq b a) ->
         (forall a b c : K, keq a b = true -> keq b c = true -> keq a c = true) ->
         forall (a b : list (K * V)) (x : K),
         a_get keq (a_merge keq a b) x =
         match a_get keq (rev b) x with
         | Some v => Some v
         | None => a_get keq (rev a) x
         end.
Proof. exact a_merge_get. Qed.

Example C16_merge_second_wins_example :
  a_get keq (a_merge keq ex_cat ex_cat2) ka = Some (iv 10) /\ a_get keq (a_merge keq ex_cat ex_cat2) kb = Some (iv 2) /\
  a_get keq (a_merge keq ex_cat ex_cat2) kd = Some (iv 4) /\ a_get keq (a_merge keq ex_cat ex_cat2) (ks [122]%Z) = None.
Proof. repeat split; vm_compute; reflexivity. Qed.

Theorem C16_merge_distinct :
  forall (K V : Type) (keq : K -> K -> bool),
         (forall a b : K, keq a b = keq b a) ->
         forall a b : list (K * V), wfm K V keq (a_merge keq a b).
Proof. exact a_merge_wf. Qed.

Example C16_merge_distinct_example :
  (forall a b : val, keq a b = keq b a) /\ wfm val val keq (a_merge keq ex_cat ex_cat2) /\ wfm val val keq (a_merge keq ex_cat ex_cat).
Proof. split; [exact keq_sym|]. split; apply (C16_merge_distinct val val keq keq_sym). Qed.

Theorem C16_extract_only_requested_and_present :
  forall (K V : Type) (keq : K -> K -> bool),
         (forall a b : K, keq a b = keq b a) ->
         (forall a b c : K, keq a b = true -> keq b c = true -> keq a c = true) ->
         forall (c : list (K * V)) (ks : list K) (x : K),
         wfm K V keq c ->
         a_get keq (a_extract keq c ks) x = (if existsb (keq x) ks then a_get keq c x else None).
Proof. exact a_extract_get. Qed.

(* non-vacuity: Extract(a:1 b:2 c:3, [c, z, a, c]) — an absent key z (nothing for it) and a repeated key c (once) —
   and a request for a key holding the zero value *)
Example C16_extract_only_requested_and_present_example :
  wfm val val keq ex_cat /\
  a_extract keq ex_cat ex_req = [(kc, iv 3); (ka, iv 1)] /\
  a_get keq (a_extract keq ex_cat ex_req) (ks [122]%Z) = None /\ a_get keq (a_extract keq ex_cat ex_req) kb = None /\
  a_extract keq [(ka, iv 0); (kb, iv 2)] [ka] = [(ka, iv 0)].
Proof. split; [exact (distinctb_ok val val keq ex_cat eq_refl)|]. repeat split; vm_compute; reflexivity. Qed.

Theorem C16_extract_distinct :
  forall (K V : Type) (keq : K -> K -> bool),
         (forall a b : K, keq a b = keq b a) ->
         forall (c : list (K * V)) (ks : list K), wfm K V keq (a_extract keq c ks).
Proof. exact a_extract_wf. Qed.

Example C16_extract_distinct_example :
  (forall a b : val, keq a b = keq b a) /\ wfm val val keq (a_extract keq ex_cat ex_req).
Proof. split; [exact keq_sym|]. apply (C16_extract_distinct val val keq keq_sym). Qed.

Theorem C16_go_key_equality_is_symmetric :
  forall a b : val, keq a b = keq b a.
Proof. exact keq_sym. Qed.

Theorem C16_go_key_equality_is_transitive :
  forall a b c : val, keq a b = true -> keq b c = true -> keq a c = true.
Proof. exact keq_trans. Qed.

Theorem C16_extract_key_order :
  forall (K V : Type) (keq : K -> K -> bool) (c : list (K * V)) (ks : list K),
         keys K V (a_extract keq c ks) = newkeys K V keq c ks [].
Proof. exact a_extract_keys. Qed.

Example C16_extract_key_order_example :
  keys val val (a_extract keq ex_cat ex_req) = [kc; ka] /\ newkeys val val keq ex_cat ex_req [] = [kc; ka].
Proof. split; vm_compute; reflexivity. Qed.

Theorem C16_pool_keys_merge_key_order :
  forall a b : list (val * val),
         wfm val val keq a ->
         wfm val val keq b ->
         keys val val (a_merge keq a b) =
         keys val val a ++
         filter (fun k : val => match a_get keq a k with
                                | Some _ => false
                                | None => true
                                end) (keys val val b).
Proof. exact val_merge_key_order. Qed.

Theorem C16_pool_keys_merge_second_wins :
  forall (a b : list (val * val)) (x : val),
         a_get keq (a_merge keq a b) x =
         match a_get keq (rev b) x with
         | Some v => Some v
         | None => a_get keq (rev a) x
         end.
Proof. exact val_merge_second_wins. Qed.

Theorem C16_pool_keys_extract_lookup :
  forall (c : list (val * val)) (ks : list val) (x : val),
         wfm val val keq c ->
         a_get keq (a_extract keq c ks) x = (if existsb (keq x) ks then a_get keq c x else None).
Proof. exact val_extract_lookup. Qed.

Theorem C16_pool_class_functions_results :
  forall (zero : val) (p : pool) (a b : nat),
         (forall x y : list val,
          get p a = OLst x ->
          get p b = OLst y -> step zero p (Concat a b) = (p ++ [OLst (x ++ y)], RNew)) /\
         (forall x y : list (val * val),
          get p a = OCat x ->
          get p b = OCat y -> step zero p (Merge a b) = (p ++ [OCat (a_merge keq x y)], RNew)) /\
         (forall (m : list (val * val)) (ks : list val),
          get p a = OCat m ->
          seq_plain (get p b) = Some ks ->
          step zero p (Extract a b) = (p ++ [OCat (a_extract keq m ks)], RNew)).
Proof. exact pool_class_functions. Qed.

(* non-vacuity at pool level: Concatenate of a list with itself, Merge of a catalog with itself and with another,
   Extract with absent and repeated keys; then an operand is changed: the results stay *)
Example C16_pool_example :
  writes (Concat 0 0) = None /\ writes (Merge 1 2) = None /\ writes (Extract 1 3) = None /\
  run (iv 0) [OLst [iv 1; iv 2]; OCat ex_cat; OCat ex_cat2; OLst ex_req]
      [Concat 0 0; Merge 1 2; Merge 1 1; Extract 1 3; AppendValue 0 (iv 9); Pool.ASet 1 ka (iv 77)] =
    [OLst [iv 1; iv 2; iv 9]; OCat [(ka, iv 77); (kb, iv 2); (kc, iv 3)]; OCat ex_cat2; OLst ex_req;
     OLst [iv 1; iv 2; iv 1; iv 2];
     OCat [(ka, iv 10); (kb, iv 2); (kc, iv 30); (kd, iv 4)];
     OCat ex_cat;
     OCat [(kc, iv 3); (ka, iv 1)]].
Proof. repeat split; vm_compute; reflexivity. Qed.

Theorem C16_class_functions_leave_operands_unchanged :
  forall (zero : val) (p : pool) (o : op) (p' : pool) (r : ret),
         writes o = None ->
         step zero p o = (p', r) -> forall i : nat, i < length p -> nth i p' ODead = nth i p ODead.
Proof. exact no_receiver_changes_nothing. Qed.

Theorem C16_later_changes_to_an_operand_do_not_reach_the_result :
  forall (zero : val) (p : pool) (o : op) (p' : pool) (r : ret) (ops : list op) (src : nat),
         step zero p o = (p', r) ->
         r = RNew ->
         writes o <> Some src ->
         src < length p ->
         (forall o' : op, In o' ops -> writes o' = Some src \/ writes o' = None) ->
         src <> length p' - 1 ->
         nth (length p' - 1) (run zero p' ops) ODead = nth (length p' - 1) p' ODead.
Proof. exact product_independent_of_source. Qed.

Theorem C16_later_changes_to_the_result_do_not_reach_an_operand :
  forall (zero : val) (p : pool) (o : op) (p' : pool) (r : ret) (ops : list op) (src : nat),
         step zero p o = (p', r) ->
         r = RNew ->
         writes o <> Some src ->
         src < length p ->
         (forall o' : op, In o' ops -> writes o' = Some (length p' - 1) \/ writes o' = None) ->
         src <> length p' - 1 -> nth src (run zero p' ops) ODead = nth src p ODead.
Proof. exact source_independent_of_product. Qed.


Print Assumptions C16_merge_key_order.
Print Assumptions C16_merge_second_wins.
Print Assumptions C16_merge_distinct.
Print Assumptions C16_extract_only_requested_and_present.
Print Assumptions C16_extract_distinct.
Print Assumptions C16_go_key_equality_is_symmetric.
Print Assumptions C16_go_key_equality_is_transitive.
Print Assumptions C16_extract_key_order.
Print Assumptions C16_pool_keys_merge_key_order.
Print Assumptions C16_pool_keys_merge_second_wins.
Print Assumptions C16_pool_keys_extract_lookup.
Print Assumptions C16_pool_class_functions_results.
Print Assumptions C16_class_functions_leave_operands_unchanged.
Print Assumptions C16_later_changes_to_an_operand_do_not_reach_the_result.
Print Assumptions C16_later_changes_to_the_result_do_not_reach_an_operand.
