(* C16.v — Merge, Extract and Concatenate obey their documented laws and are pure
   Statements only: every theorem is closed by [exact] of a lemma proved elsewhere, and its
   axioms are printed.  Generated once by tools/mkprop.py from the proved lemmas' statements. *)
From Verif Require Import Base Seq Coll AssocProofs.

Theorem C16_merge_key_order :
  forall (K V : Type) (keq : K -> K -> bool),
         (forall a b : K, keq a b = keq b a) ->
         (forall a b c : K, keq a b = true -> keq b c = true -> keq a c = true) ->
         forall a b : list (K * V),
         wfm K V keq a ->
         wfm K V keq b ->
         keys K V (a_merge keq a b) =
         keys K V a ++
         filter (fun k : K => match a_get keq a k with
                              | Some _ => false
                              | None => true
                              end) (keys K V b).
Proof. exact a_merge_keys. Qed.

Theorem C16_merge_second_wins :
  forall (K V : Type) (keq : K -> K -> bool),
         (forall a b : K, keq a b = keq b a) ->
         (forall a b c : K, keq a b = true -> keq b c = true -> keq a c = true) ->
         forall (a b : list (K * V)) (x : K),
         a_get keq (a_merge keq a b) x =
         match a_get keq (rev b) x with
         | Some v => Some v
         | None => a_get keq (rev a) x
         end.
Proof. exact a_merge_get. Qed.

Theorem C16_merge_distinct :
  forall (K V : Type) (keq : K -> K -> bool),
         (forall a b : K, keq a b = keq b a) ->
         forall a b : list (K * V), wfm K V keq (a_merge keq a b).
Proof. exact a_merge_wf. Qed.

Theorem C16_extract_only_requested_and_present :
  forall (K V : Type) (keq : K -> K -> bool),
         (forall a b : K, keq a b = keq b a) ->
         (forall a b c : K, keq a b = true -> keq b c = true -> keq a c = true) ->
         forall (c : list (K * V)) (ks : list K) (x : K),
         wfm K V keq c ->
         a_get keq (a_extract keq c ks) x = (if existsb (keq x) ks then a_get keq c x else None).
Proof. exact a_extract_get. Qed.

Theorem C16_extract_distinct :
  forall (K V : Type) (keq : K -> K -> bool),
         (forall a b : K, keq a b = keq b a) ->
         forall (c : list (K * V)) (ks : list K), wfm K V keq (a_extract keq c ks).
Proof. exact a_extract_wf. Qed.


Print Assumptions C16_merge_key_order.
Print Assumptions C16_merge_second_wins.
Print Assumptions C16_merge_distinct.
Print Assumptions C16_extract_only_requested_and_present.
Print Assumptions C16_extract_distinct.
