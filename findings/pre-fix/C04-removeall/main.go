// Replay of the RemoveAll defects of the pinned tree (before the "fix: Queue.RemoveAll ..." commit).
// Build with -tags verif against the library; exits 1 and prints what failed when a defect shows.
//
//	D22 (C04): a producer that has appended its value but not yet published the token while
//	           RemoveAll swaps channel and list publishes a token without a value: GetSize()=1,
//	           AsArray()=[], and the next RemoveHead panics in RemoveValue(1) on the empty list.
//	D21 (C05): a consumer parked in RemoveHead when RemoveAll swaps the channel stays parked on the
//	           old channel: a later AddValue makes GetSize()=1 but the consumer never returns.
package main

import (
	"fmt"
	"os"
	"time"

	cdc "github.com/craterdog/go-collection-framework/v4/cdcn"
	col "github.com/craterdog/go-collection-framework/v4/collection"
)

func main() {
	bad := 0
	notation := cdc.Notation().Make()

	// ---- D22 ----
	{
		q := col.Queue[int](notation).MakeWithCapacity(2)
		atSend := make(chan bool)
		resume := make(chan bool)
		col.VerifHook = func(kind int, queue any) {
			if kind == 2 { // the producer is between append and publish
				atSend <- true
				<-resume
			}
		}
		done := make(chan bool)
		go func() { q.AddValue(7); done <- true }()
		<-atSend
		col.VerifHook = nil
		q.RemoveAll()
		resume <- true
		<-done
		size, arr := q.GetSize(), q.AsArray()
		res := make(chan string, 1)
		go func() {
			defer func() {
				if e := recover(); e != nil {
					res <- fmt.Sprint("panic: ", e)
				}
			}()
			v, ok := q.RemoveHead()
			res <- fmt.Sprint("returned ", v, " ", ok)
		}()
		var r string
		select {
		case r = <-res:
		case <-time.After(2 * time.Second):
			r = "blocked"
		}
		fmt.Printf("D22: after AddValue(7) || RemoveAll: GetSize()=%d AsArray()=%v RemoveHead: %s\n", size, arr, r)
		if size != len(arr) || (size == 1 && r != "returned 7 true") || (size == 0 && r != "blocked") {
			fmt.Println("D22: VIOLATED (a published token has no value behind it / a valid RemoveHead panics)")
			bad++
		}
	}

	// ---- D21 ----
	{
		q := col.Queue[int](notation).MakeWithCapacity(2)
		got := make(chan int, 1)
		go func() { v, _ := q.RemoveHead(); got <- v }()
		time.Sleep(200 * time.Millisecond) // let the consumer park on the channel
		q.RemoveAll()
		q.AddValue(7)
		select {
		case v := <-got:
			fmt.Printf("D21: the parked consumer received %d\n", v)
		case <-time.After(1 * time.Second):
			fmt.Printf("D21: consumer still blocked 1s after RemoveAll; AddValue(7); GetSize()=%d\n", q.GetSize())
			fmt.Println("D21: VIOLATED (lost wake-up: a value is available and the blocked RemoveHead does not return)")
			bad++
		}
	}
	if bad > 0 {
		os.Exit(1)
	}
	fmt.Println("RemoveAll replays: ok")
}
