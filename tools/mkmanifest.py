#!/usr/bin/env python3
"""Writes MANIFEST.json from the table below (kept in one place so that it stays valid)."""
import json, os
ROOT = os.path.join(os.path.dirname(os.path.abspath(__file__)), '..')
TB = ("Trusted: Coq 8.16.1 kernel (vm_compute used for the correspondence, no native_compute); no axioms (Print Assumptions of every property theorem "
      "is 'Closed under the global context' and is copied into the evidence on every run); tools/genparams.py; the Go harness and the decoders in coq/*Run.v; "
      "the hand-written model is tied to the code only by differential execution on generated histories; Go runtime, reflect and standard library trusted.")
CLAIMED = {
 'C01': ("Seq.v/ListImpl.v/SeqProofs.v: every loop of list.go/array.go (code-shaped, fuel) proved equal to the abstract ordinal-indexed sequence for all inputs and all finite histories incl. receiver-aliased operands (C01_refines, never Hang, panic leaves state unchanged, locality via nth, conservation via Permutation, GetIndex = first match); correspondence: pool histories on the real List/Array vs the model by vm_compute",
         "refinement proof + differential execution of pool histories", '7 C01'),
 'C02': ("SetProofs.v: the binary search of set.go transcribed with fuel terminates for every ranker; under any total preorder every history keeps the list strictly sorted and its membership equals added-and-not-removed up to rank-equality (C02_inv, C02_membership); views agree with the order; correspondence: pool histories with default/reversed/coarse collators on int,string,[]int,any,nested sets",
         "invariant + refinement proof over histories; differential execution", '7 C02'),
 'C03': ("AssocProofs.v: association-list model refines the abstract map K -> option V for every history, keys stay pairwise distinct, set-existing keeps position, set-new appends, remove deletes exactly that association, reordering keeps the mapping; correspondence: pool histories incl. pointer keys with equal content, and after every op the key view, pair view and lookups of the real Catalog must describe the same associations",
         "refinement proof + differential execution", '7 C03'),
 'C09': ("SorterProofs.v: bottom-up merge sort model: permutation and termination for EVERY ranker, Sorted and StronglySorted for total preorders, reverse = rev (involutive), shuffle permutation; correspondence: Sort/SortWith(7 rankers incl. inconsistent)/Reverse/Shuffle(recorded random indices) of Array, List, Catalog compared exactly with the model",
         "proof of the sorting algorithm model + differential execution", '7 C09'),
 'C14': ("AssocProofs.v instantiated for Map: refinement to the abstract map, distinct keys, last-wins constructors, bulk removal; correspondence: pool histories on Map/Go maps with unordered views compared up to permutation using the observed iteration order as an oracle",
         "refinement proof + differential execution", '7 C14'),
 'C15': ("SetProofs.v: And/Or/Sans/Xor as transcribed from set.go yield a strictly sorted set whose membership is the intersection/union/difference/symmetric difference for every pair of strictly sorted operands under one total preorder; purity by the pool frame theorem; correspondence: pool histories incl. aliased operands and custom collators, every object observed after every op",
         "algebraic-law proof + differential execution", '7 C15'),
 'C16': ("AssocProofs.v: Merge key order and winner, Extract only requested-and-present keys, distinctness; Concatenate = append; purity by the pool frame theorem; correspondence: pool histories incl. absent/repeated keys, zero values, aliased operands",
         "algebraic-law proof + differential execution", '7 C16'),
 'C17': ("IterProofs.v: slot invariant for every move sequence, HasNext/HasPrevious iff, GetNext/GetPrevious values and inverses, ends return zero and stay, exact ToSlot clamp formula, moves never change the snapshot, enumeration = snapshot; PoolFrame: no op on any other object changes an iterator; correspondence: iterators from all seven kinds interleaved with every mutator and second iterators",
         "invariant proof over move sequences + differential execution", '7 C17'),
}
PENDING = {
 'C04': 'in progress: interleaving model + controlled scheduler not yet committed',
 'C05': 'in progress: interleaving model + controlled scheduler not yet committed',
 'C06': 'in progress: Fork/Split/Join model not yet committed',
 'C07': 'in progress: the collator correspondence runs (./check C07 passes) but the order proofs (CollateProofs.v, C07.v) are still being written; not claimed until they are committed',
 'C08': 'in progress: the collator correspondence runs (./check C08 passes) but the equality proofs (CollateProofs.v, C08.v) are still being written; not claimed until they are committed',
 'C10': 'in progress: the scanner/parser model (C11, C12) is committed; the formatter model and the round-trip theorems are still being written; not claimed until they are committed',
 'C11': 'in progress: CDCN grammar model not yet committed',
 'C12': 'in progress: CDCN lexer/parser totality model not yet committed',
 'C13': 'in progress: stack proofs being integrated',
 'C18': 'in progress: pool frame proofs being integrated',
 'C19': 'in progress: independence model not yet committed',
 'C20': 'in progress: facade model not yet committed',
}
def main():
    import importlib.util
    spec = importlib.util.spec_from_file_location('claims', os.path.join(ROOT, 'tools', 'claims.py'))
    if os.path.exists(os.path.join(ROOT, 'tools', 'claims.py')):
        m = importlib.util.module_from_spec(spec); spec.loader.exec_module(m)
        CLAIMED.update(m.CLAIMED)
        for k in m.CLAIMED: PENDING.pop(k, None)
        PENDING.update(getattr(m, 'PENDING', {}))
    # one JSON file per further property in tools/claims.d/: {"Cxx": {"text":..,"technique":..,"design_ref":..,"level_note":..(optional)}}
    import glob
    for f in sorted(glob.glob(os.path.join(ROOT, 'tools', 'claims.d', '*.json'))):
        for k, v in json.load(open(f)).items():
            CLAIMED[k] = (v['text'], v['technique'], v['design_ref']) + ((v['level_note'],) if v.get('level_note') else ())
            PENDING.pop(k, None)
    checks = []
    for pid in sorted(CLAIMED):
        text, tech, ref = CLAIMED[pid][:3]
        note = CLAIMED[pid][3] if len(CLAIMED[pid]) > 3 else TB
        checks.append(dict(property_id=pid, quick_cmd='./check %s --tier quick' % pid, thorough_cmd='./check %s --tier thorough' % pid,
                           evidence_file='evidence/%s.json' % pid, replay_cmd_template='./check replay {path}', engine='coq-correspondence',
                           level_claimed=dict(category='proof', text=text, design_ref='DESIGN.md section ' + ref),
                           level_note=note, technique='Coq proof over executable Gallina model; ' + tech))
    man = dict(version=1, setup_cmd='./check setup',
               hooks=dict(guard='verif', enable='go build -tags verif (the harness module replaces the library by /repo/v4)',
                          baseline_off_cmd='cd /repo/v4 && go test -vet=off -count=1 ./...', source_commits=['c0baff0', '0e74f57'], add_only=True),
               engines=[dict(name='coq-correspondence', path='check', serves_properties=sorted(CLAIMED),
                             kind_free_text='Coq 8.16.1 development (coq/) with machine-checked theorems over executable models; Go harness (harness/) driving the real library; coqc evaluates the model on the generated cases (vm_compute) and reports mismatches; tools/genparams.py regenerates coq/Params.v from the sources on every run')],
               checks=checks,
               notes='All checks share one Coq build and one harness build (flock on build/.lock). Replay files are written under build/replay/.',
               not_applicable=[dict(property_id=k, reason=v) for k, v in sorted(PENDING.items()) if k not in CLAIMED])
    json.dump(man, open(os.path.join(ROOT, 'MANIFEST.json'), 'w'), indent=1)
    print('MANIFEST.json: %d checks, %d not_applicable' % (len(checks), len(man['not_applicable'])))
main()
