#!/usr/bin/env python3
"""One-off helper (not part of the checks): writes a statements-only property file
coq/<Cxx>.v from a list of (theorem name, proved lemma) by asking Coq for each lemma's
statement, so that the statement in the property file is exactly the one that was proved.
usage: mkprop.py Cxx "<imports>" "title comment" name=lemma name=lemma ...  [--examples file]
"""
import subprocess, sys, os, re
COQ = os.path.join(os.path.dirname(os.path.abspath(__file__)), '..', 'coq')
def main():
    pid, imports, title = sys.argv[1], sys.argv[2], sys.argv[3]
    pairs = []
    extra = ''
    args = sys.argv[4:]
    i = 0
    while i < len(args):
        if args[i] == '--examples':
            extra = open(args[i+1]).read(); i += 2
        else:
            n, l = args[i].split('='); pairs.append((n, l)); i += 1
    src = 'From Verif Require Import %s.\nSet Printing Width 100.\n' % imports
    for n, l in pairs:
        src += 'Check %s.\n' % l
    open('/tmp/mkprop_tmp.v', 'w').write(src)
    out = subprocess.run(['coqc', '-R', COQ, 'Verif', '/tmp/mkprop_tmp.v'], stdout=subprocess.PIPE, stderr=subprocess.STDOUT, text=True).stdout
    # split the output per lemma
    stmts = {}
    cur = None
    for line in out.split('\n'):
        m = re.match(r'^(\w+)$', line)
        if m and m.group(1) in [l for _, l in pairs]:
            cur = m.group(1); stmts[cur] = []
        elif cur is not None:
            stmts[cur].append(line)
    body = '(* %s.v — %s\n   Statements only: every theorem is closed by [exact] of a lemma proved elsewhere, and its\n   axioms are printed.  Generated once by tools/mkprop.py from the proved lemmas\' statements. *)\n' % (pid, title)
    body += 'From Verif Require Import %s.\n\n' % imports
    for n, l in pairs:
        t = '\n'.join(stmts[l]).strip()
        assert t.startswith(':'), (l, t[:80])
        t = t[1:].strip()
        body += 'Theorem %s :\n  %s.\nProof. exact %s. Qed.\n\n' % (n, t.replace('\n', '\n  '), l)
    body += extra + '\n'
    for n, l in pairs:
        body += 'Print Assumptions %s.\n' % n
    open(os.path.join(COQ, pid + '.v'), 'w').write(body)
main()
